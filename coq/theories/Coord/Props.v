(* Property theorems for the cluster coordinator: C32 (bookkeeping) and C33 (placement, failure detection).
   Only statements; proofs are in ProofsInv.v / ProofsC33.v.  Model: Coord/Model.v, vocabulary: Coord/Spec.v. *)
From Coq Require Import Permutation.
From VP Require Import Base.Tactics Coord.Model Coord.Spec Coord.ProofsMap Coord.ProofsInv Coord.ProofsC33.
Open Scope N_scope.

(* ================================================================ C32 *)
(* A history is any list of steps; the plan phase and the commit phase of a deploy, a teardown and a
   manual migration are separate steps, so every interleaving of in-flight operations with every
   other operation, with every outcome vector, is a history.  For every history that satisfies the
   stated assumptions at each step (heartbeats report the coordinator's count, registrations report 0,
   the replica names of a spec are distinct) and never takes a step of a recorded finding class,
   the final state (hence every intermediate state) is consistent. *)
Theorem C32_consistent_under_any_interleaving :
  forall timeout ops,
    all_steps assumed (init timeout) ops = true ->
    some_step known (init timeout) ops = false ->
    Consistent (sc (run (init timeout) ops)).
Proof.
  intros timeout ops Ha Hk. apply Inv_Consistent. now apply (run_inv ops (init timeout) (init_inv timeout) Ha Hk).
Qed.

(* The facts that make stale plans harmless: whatever plan is committed, in whatever state. *)
Theorem C32_any_migration_commit_preserves : forall c m ok, Inv c -> Inv (fst (commit_migrate c m ok)).
Proof. exact commit_migrate_inv. Qed.
Theorem C32_any_teardown_commit_preserves : forall c g, Inv c -> Inv (commit_teardown c g).
Proof. exact commit_teardown_inv. Qed.
Theorem C32_any_deploy_commit_preserves :
  forall c spec tasks outs, NoDup (map tname tasks) -> Inv c -> Inv (commit_deploy c spec tasks outs).
Proof. exact commit_deploy_inv. Qed.

(* the hypotheses are satisfiable by a history that exercises plan/commit interleaving, failover and rebalance *)
Definition example_history : list op :=
  [ORegister 1 4 10 0; ORegister 2 4 10 0; ORegister 3 2 10 0;
   OPlanDeploy [mkP 1 (Some 1) 1; mkP 2 None 2] [2; 1; 3]; OCommitDeploy 0 [true; true; false];
   OPlanMigrate 16 0 2; OPlanMigrate 16 0 3; OPlanTeardown 0; OCommitMigrate 1 true; OCommitMigrate 2 true;
   OAdvance 4; OHeartbeat 1 0; OHeartbeat 3 0; OAdvance 2; OSweep;
   OFailover 2 [true; true] [3; 2; 1] [(0, 16); (0, 33); (0, 34)];
   ORebalance [true] [1; 3; 2] [(0, 34); (0, 16); (0, 33)]].
Example C32_hypotheses_satisfiable :
  all_steps assumed (init 5) example_history = true /\ some_step known (init 5) example_history = false /\
  map (fun e => (fst e, wasg (snd e))) (workers (sc (run (init 5) example_history))) = [(1, [33]); (2, []); (3, [16])].
Proof. vm_compute. auto. Qed.

(* Recorded finding classes: each is a real counterexample of the faithful model. *)
Theorem C32_reregister_live_worker_refuted :
  exists ops, all_steps assumed (init 5) ops = true /\ some_step known_reregister (init 5) ops = true /\
              ~ Consistent (sc (run (init 5) ops)).
Proof.
  exists [ORegister 1 4 10 0; OPlanDeploy [mkP 1 None 1] [1]; OCommitDeploy 0 [true]; ORegister 1 4 10 0].
  split; [reflexivity|]. split; [reflexivity|]. intros [_ H].
  destruct (H 1 (mkW WReady 0 10 4 [] 0) eq_refl) as [HP _]. vm_compute in HP.
  apply Permutation_nil in HP. discriminate.
Qed.

Theorem C32_deregister_live_worker_refuted :
  exists ops, all_steps assumed (init 5) ops = true /\ some_step known_deregister (init 5) ops = true /\
              ~ Consistent (sc (run (init 5) ops)).
Proof.
  exists [ORegister 1 4 10 0; OPlanDeploy [mkP 1 None 1] [1]; OCommitDeploy 0 [true]; ODeregister 1].
  split; [reflexivity|]. split; [reflexivity|]. intros [H _].
  destruct (H 0 (mkG [mkP 1 None 1] [(16, mkD 1 DRunning true 0)] GRunning) 16 (mkD 1 DRunning true 0) eq_refl eq_refl eq_refl) as [wk Hw].
  vm_compute in Hw. discriminate.
Qed.

Theorem C32_drain_force_deregister_refuted :
  exists ops, all_steps assumed (init 5) ops = true /\ some_step known_drain (init 5) ops = true /\
              ~ Consistent (sc (run (init 5) ops)).
Proof.
  exists [ORegister 1 4 10 0; ORegister 2 4 10 0; OPlanDeploy [mkP 1 (Some 1) 1] [1; 2]; OCommitDeploy 0 [true];
          ODrain 1 [false] [1; 2] [(0, 16)]].
  split; [reflexivity|]. split; [reflexivity|]. intros [H _].
  destruct (H 0 (mkG [mkP 1 (Some 1) 1] [(16, mkD 1 DRunning true 0)] GRunning) 16 (mkD 1 DRunning true 0) eq_refl eq_refl eq_refl) as [wk Hw].
  vm_compute in Hw. discriminate.
Qed.

(* ================================================================ C33 *)
(* A new pipeline is planned only on an available worker (registered, Ready, below capacity), and a
   pinned pipeline on its pinned worker whenever that worker is available: complete description of
   the task list of a successful plan, pipeline by pipeline. *)
Theorem C33_deploy_on_available_and_pinned :
  forall c word spec ts c',
    plan_deploy c word spec = (inr ts, c') ->
    exists tss, ts = concat tss /\
      Forall2 (fun p tsp =>
                 map tname tsp = map (fun k => replica_name (pn p) k (N.max (preps p) 1)) (nseq (N.max (preps p) 1)) /\
                 forall t, In t tsp ->
                   avail_b c (tw t) = true /\ (forall a, paff p = Some a -> avail_b c a = true -> tw t = a))
              spec tss.
Proof.
  intros c word spec ts c' H. unfold plan_deploy in H. destruct (filter (avail_b c) word); [discriminate|].
  pose proof (plan_pipelines_tasks word spec c) as HT.
  destruct (plan_pipelines c word spec) as [[ts0|] c0]; inv H. now apply HT.
Qed.

Theorem C33_available_means :
  forall c w, avail_b c w = true <->
              exists wk, get (workers c) w = Some wk /\ wst wk = WReady /\ wrun wk < wmax wk.
Proof. exact avail_b_spec. Qed.

(* A migration (manual plan, monolithic migrate, failover / drain target) only goes to an available worker. *)
Theorem C33_migration_plan_target_available :
  forall c p g t m, plan_migrate c p g t = inr m -> mtgt m = t /\ avail_b c t = true.
Proof. exact plan_migrate_target. Qed.
Theorem C33_migration_target_available :
  forall c p g t ok c', migrate c p g t ok = (c', inr true) -> avail_b c t = true.
Proof. exact migrate_target. Qed.
Theorem C33_failover_target_available :
  forall c word w t, failover_target c word w = Some t -> avail_b c t = true /\ t <> w.
Proof. exact failover_target_spec. Qed.

(* The sweep marks exactly the Ready workers whose last heartbeat is older than the timeout... *)
Theorem C33_sweep_exact :
  forall c w wk, get (workers c) w = Some wk ->
    get (workers (fst (sweep c))) w =
      Some (if wstatus_eqb (wst wk) WReady && Z.ltb (ctimeout c) (cnow c - whb wk) then w_set_status WUnhealthy wk else wk).
Proof. exact sweep_exact. Qed.
Theorem C33_sweep_reports_exactly :
  forall c w wk, NoDup (map fst (workers c)) -> get (workers c) w = Some wk ->
    (In w (snd (sweep c)) <-> wst wk = WReady /\ (ctimeout c < cnow c - whb wk)%Z).
Proof. exact sweep_reported. Qed.
(* ... and never earlier: no other operation turns a Ready worker Unhealthy. *)
Theorem C33_only_the_sweep_marks_unhealthy :
  forall s o w,
    (match o with OSweep | OSetStatus _ _ => False | _ => True end) ->
    status_of (sc s) w = Some WReady ->
    status_of (sc (fst (step s o))) w = Some WReady \/ status_of (sc (fst (step s o))) w = None.
Proof. exact step_keeps_ready. Qed.

(* A heartbeat makes an unhealthy (or ready) worker Ready, refreshes its heartbeat time, and it is
   available again exactly when the reported count is below its capacity. *)
Theorem C33_heartbeat_recovers :
  forall c w n wk, get (workers c) w = Some wk -> wst wk = WUnhealthy \/ wst wk = WReady ->
    exists wk', get (workers (fst (heartbeat c w n))) w = Some wk' /\
                wst wk' = WReady /\ whb wk' = cnow c /\ wrun wk' = n /\
                (avail_b (fst (heartbeat c w n)) w = true <-> n < wmax wk).
Proof. exact heartbeat_recovers. Qed.

Example C33_sweep_boundary :
  let s := run (init 3) [ORegister 1 4 10 0; ORegister 2 4 10 0; OAdvance 1; OHeartbeat 2 0; OAdvance 3] in
  (* worker 1: age 4 > 3, worker 2: age 3 = timeout *)
  map (fun e => (fst e, wst (snd e))) (workers (fst (sweep (sc s)))) = [(1, WUnhealthy); (2, WReady)].
Proof. reflexivity. Qed.
