(* Parse/Run.v — evaluation of Parse/Model.v for the correspondence check of C41.
     prepass_case src        PANIC | EXPERR | NEST|line|col|pos | PASS|<chars of the preprocessed text>|<sum a>|<sum b>
     locate_case src ps      PANIC | EXPERR | O|<origins>|L|line,col,pos;...   (in_original for every p of ps,
                             independently of the nesting check)
     srcloc_case src p       line,col,pos                                       (from_position)            *)
From Coq Require Import String.
From VP Require Import Base.Tactics Base.Render Text.Str Text.Expand Parse.Model.
Open Scope string_scope.

(* position-sensitive checksum without multiplications (Fletcher-style running sums; texts of 10^6 characters
   are compared through it): a = sum of (c+1), b = sum of the running values of a *)
Definition sums (l : list N) : N * N := fold_left (fun '(a, b) c => let a' := (a + c + 1)%N in (a', (b + a')%N)) l (0%N, 0%N).
Definition str_of_sums (l : list N) : string :=
  let '(a, b) := sums l in str_of_N (N.of_nat (length l)) ++ "|" ++ str_of_N a ++ "|" ++ str_of_N b.

Definition str_of_loc (l : loc) : string :=
  str_of_N (l_line l) ++ "," ++ str_of_N (l_col l) ++ "," ++ str_of_N (l_pos l).

Definition prepass_case (source : str) : string :=
  match prepass source with
  | PPanic => "PANIC"
  | PExpandErr => "EXPERR"
  | PNest a => "NEST|" ++ str_of_loc a
  | PPass _ _ pre => "PASS|" ++ str_of_sums pre
  end.

Definition locate_case (source : str) (ps : list N) : string :=
  match expand_o source with
  | PPanicked => "PANIC"
  | PErr => "EXPERR"
  | POk (expanded, origins) =>
    match preprocess expanded with
    | POk pre =>
      "O|" ++ (if (400 <? length origins)%nat then str_of_sums origins else join "." (map str_of_N origins)) ++ "|L|"
      ++ join ";" (map (fun p => str_of_loc (in_original source expanded origins pre p)) ps)
    | _ => "PANIC"
    end
  end.

Definition srcloc_case (source : str) (p : N) : string := str_of_loc (from_position source p).
