(* Parse/Proofs.v — lemmas about Parse/Model.v (property C41) *)
From Coq Require Import String.
From VP Require Import Base.Tactics Text.Str Text.StrLemmas Text.Expand Parse.Model.
Open Scope N_scope.

(* ------------------------------------------------------------------ lines without newline *)

Definition no_nl (l : str) : Prop := Forall (fun c => c <> 10) l.

Lemma no_nl_app : forall a b, no_nl (a ++ b) <-> no_nl a /\ no_nl b.
Proof. intros a b. unfold no_nl. apply Forall_app. Qed.

Lemma no_nl_rev : forall a, no_nl a -> no_nl (rev a).
Proof. intros a H. unfold no_nl in *. now apply Forall_rev. Qed.

Lemma no_nl_drop_while : forall p l, no_nl l -> no_nl (drop_while p l).
Proof.
  induction l as [|c l IH]; intros H; cbn; [exact H|].
  destruct (p c); [apply IH; now inv H|exact H].
Qed.

Lemma no_nl_drop_bytes : forall l n s, drop_bytes n l = Some s -> no_nl l -> no_nl s.
Proof.
  induction l as [|c l IH]; intros n s H Hl; cbn in H.
  - destruct (n =? 0); [now inv H|discriminate].
  - destruct (n =? 0); [now inv H|].
    destruct (utf8_len1 c <=? n); [|discriminate].
    eapply IH; [exact H|now inv Hl].
Qed.

Lemma str_of_uint_no_nl : forall u, no_nl (str_of_uint u).
Proof.
  induction u; cbn [str_of_uint]; try (constructor; [discriminate|exact IHu]). constructor.
Qed.

Lemma z_to_str_no_nl : forall z, no_nl (z_to_str z).
Proof.
  intros [|p|p]; unfold z_to_str, n_to_str.
  - constructor; [discriminate|constructor].
  - apply str_of_uint_no_nl.
  - constructor; [discriminate|apply str_of_uint_no_nl].
Qed.

Lemma replace_all_f_no_nl : forall fuel p rep l, no_nl rep -> no_nl l -> no_nl (replace_all_f fuel p rep l).
Proof.
  induction fuel as [|f IH]; intros p rep l Hr Hl; cbn [replace_all_f]; [exact Hl|].
  destruct p as [|a p]; [exact Hl|].
  destruct (strip_prefix (a :: p) l) as [r|] eqn:E.
  - apply strip_prefix_some in E. subst l. apply no_nl_app in Hl as [_ Hl].
    apply no_nl_app. split; [exact Hr|now apply IH].
  - destruct l as [|c l]; [constructor|].
    inv Hl. constructor; [assumption|now apply IH].
Qed.

Lemma copy_line_w_no_nl : forall strip pat v bl, no_nl bl -> no_nl (copy_line_w strip pat v bl).
Proof.
  intros strip pat v bl H. unfold copy_line_w.
  destruct (is_blank bl); [constructor|].
  unfold replace_all. apply replace_all_f_no_nl; [apply z_to_str_no_nl|].
  unfold strip_line_w. destruct (drop_bytes strip bl) as [s|] eqn:E.
  - eapply no_nl_drop_bytes; eassumption.
  - unfold trim_start. now apply no_nl_drop_while.
Qed.

(* pieces of split_inclusive('\n') *)
Definition piece_ok (pc : str) : Prop := exists x, no_nl x /\ (pc = (x ++ [10])%list \/ (pc = x /\ x <> [])).

Lemma split_incl_go_ok : forall l cur, no_nl cur -> Forall piece_ok (split_incl_go l cur).
Proof.
  induction l as [|c l IH]; intros cur Hc; cbn [split_incl_go].
  - destruct cur as [|a cur]; [constructor|].
    constructor; [|constructor]. exists (rv (a :: cur)). rewrite rv_rev. split; [now apply no_nl_rev|].
    right. split; [reflexivity|]. cbn. intros E. apply (f_equal (@length N)) in E.
    rewrite app_length in E. cbn in E. lia.
  - destruct (c =? 10) eqn:E.
    + apply N.eqb_eq in E. subst c. constructor; [|apply IH; constructor].
      exists (rev cur). split; [now apply no_nl_rev|]. left. rewrite rv_rev. reflexivity.
    + apply IH. constructor; [|exact Hc]. now apply N.eqb_neq in E.
Qed.

Lemma strip_suffix_app : forall p r, strip_suffix p (r ++ p)%list = Some r.
Proof.
  intros p r. unfold strip_suffix. rewrite !rv_rev, rev_app_distr, strip_prefix_app, rv_rev, rev_involutive.
  reflexivity.
Qed.

Lemma strip_suffix_no_nl : forall p l r, strip_suffix p l = Some r -> no_nl l -> no_nl r.
Proof. intros p l r H Hl. apply strip_suffix_some in H. subst l. now apply no_nl_app in Hl as [Hl _]. Qed.

Lemma strip_eol_no_nl : forall pc, piece_ok pc -> no_nl (strip_eol pc).
Proof.
  intros pc [x [Hx [E|[E Hne]]]]; subst pc; unfold strip_eol.
  - rewrite strip_suffix_app. destruct (strip_suffix [13] x) as [b|] eqn:E2; [|exact Hx].
    eapply strip_suffix_no_nl; eassumption.
  - destruct (strip_suffix [10] x) as [a|] eqn:E1; [|exact Hx].
    apply strip_suffix_some in E1. subst x. apply no_nl_app in Hx as [_ Hx]. inv Hx. congruence.
Qed.

Lemma str_lines_no_nl : forall t, Forall no_nl (str_lines t).
Proof.
  intros t. unfold str_lines, split_incl. apply Forall_map.
  eapply Forall_impl; [|apply split_incl_go_ok; constructor]. intros pc H. now apply strip_eol_no_nl.
Qed.

Lemma split_incl_go_line : forall x rest cur, no_nl x ->
  split_incl_go (x ++ 10 :: rest) cur = (rev cur ++ x ++ [10])%list :: split_incl_go rest [].
Proof.
  induction x as [|c x IH]; intros rest cur Hx; cbn [app split_incl_go].
  - rewrite N.eqb_refl, rv_rev. cbn [rev]. reflexivity.
  - inv Hx. destruct (c =? 10) eqn:E; [apply N.eqb_eq in E; congruence|].
    rewrite IH by assumption. cbn [rev]. now rewrite <- app_assoc.
Qed.

Lemma split_incl_unlines : forall out, Forall no_nl out ->
  split_incl (unlines out) = map (fun l => (l ++ [10])%list) out.
Proof.
  unfold split_incl, unlines. induction out as [|l out IH]; intros H; cbn [map concat]; [reflexivity|].
  inv H. rewrite <- app_assoc. cbn [app]. rewrite split_incl_go_line by assumption. cbn [rev app].
  now rewrite IH.
Qed.

Lemma str_lines_unlines_length : forall out, Forall no_nl out -> length (str_lines (unlines out)) = length out.
Proof. intros out H. unfold str_lines. now rewrite split_incl_unlines, !map_length. Qed.

(* ------------------------------------------------------------------ one pass of the expansion *)

Lemma take_drop_lines_length : forall p l, (length (take_lines p l) + length (drop_lines p l))%nat = length l.
Proof.
  induction l as [|x l IH]; cbn [take_lines drop_lines]; [reflexivity|].
  destruct (p x); cbn [length]; lia.
Qed.

Lemma take_lines_Forall : forall (P : str -> Prop) p l, Forall P l -> Forall P (take_lines p l).
Proof.
  induction l as [|x l IH]; intros H; cbn [take_lines]; [constructor|].
  inv H. destruct (p x); [constructor; auto|constructor].
Qed.

Lemma drop_lines_Forall : forall (P : str -> Prop) p l, Forall P l -> Forall P (drop_lines p l).
Proof.
  induction l as [|x l IH]; intros H; cbn [drop_lines]; [constructor|].
  destruct (p x); [inv H; auto|exact H].
Qed.

Lemma concat_const_length : forall {A B} (f : B -> list A) (l : list B) k,
  (forall v, length (f v) = k) -> length (concat (map f l)) = (length l * k)%nat.
Proof.
  intros A B f l k H. induction l as [|v l IH]; cbn [map concat length]; [reflexivity|].
  rewrite app_length, H, IH. lia.
Qed.

Lemma zrange_length : forall n s, length (zrange s n) = n.
Proof. induction n as [|n IH]; intros s; cbn [zrange length]; [reflexivity|]. now rewrite IH. Qed.

Lemma copies_o_spec : forall var start n body borig, length borig = length body -> Forall no_nl body ->
  let '(ls, os) := copies_o var start n body borig in
  length ls = (n * length body)%nat /\ length os = length ls /\ Forall no_nl ls.
Proof.
  intros var start n body borig Hb Hnl. unfold copies_o. split; [|split].
  - rewrite (concat_const_length _ _ (length body)); [now rewrite zrange_length|].
    intros v. apply map_length.
  - rewrite !(concat_const_length _ _ (length body)); [reflexivity| |]; intros v; [apply map_length|exact Hb].
  - apply Forall_concat. apply Forall_map. apply Forall_forall. intros v _.
    apply Forall_map. eapply Forall_impl; [|exact Hnl]. intros bl H. now apply copy_line_w_no_nl.
Qed.

(* what one pass guarantees when the origins are aligned with the lines: it does not panic, its two
   results stay aligned, no newline appears inside a line, and the lines it adds are paid for by [gen] *)
Definition pass_ok (g : N) (nlines : nat) (r : pres (list str * list N)) : Prop :=
  match r with
  | PPanicked => False
  | PErr => True
  | POk (out, oo) =>
    length oo = length out /\ Forall no_nl out /\
    N.of_nat (length out) + g <= N.of_nat nlines + max_expanded_lines
  end.

Lemma one_pass_o_ok : forall f g lines orig,
  length orig = length lines -> Forall no_nl lines -> g <= max_expanded_lines ->
  pass_ok g (length lines) (one_pass_o f g lines orig).
Proof.
  induction f as [|f IH]; intros g lines orig Hal Hnl Hg; cbn [one_pass_o]; [exact I|].
  destruct lines as [|line rest].
  - cbn. repeat split; [constructor|lia].
  - destruct orig as [|o orest]; [discriminate|].
    cbn [length] in Hal. injection Hal as Hal. inv Hnl.
    assert (Hkeep : pass_ok g (length (line :: rest)) (lift_cons line o (one_pass_o f g rest orest))).
    { specialize (IH g rest orest Hal H2 Hg). unfold pass_ok, lift_cons in *.
      destruct (one_pass_o f g rest orest) as [[out oo]| |]; [|exact I|exact IH].
      destruct IH as (A & B & C). cbn [length]. repeat split; [lia|now constructor|lia]. }
    destruct ((indent_of line =? 0) && is_decl_for (trim line)); [|exact Hkeep].
    destruct (parse_for_range_w (trim line)) as [[[var start] stop]|]; [|exact Hkeep].
    destruct (max_loop_iterations <? stop - start)%Z; [exact I|].
    set (body := take_lines in_body rest).
    pose proof (take_drop_lines_length in_body rest) as Hlen. fold body in Hlen.
    destruct (length orest <? length body)%nat eqn:Ek.
    { apply Nat.ltb_lt in Ek. lia. }
    apply Nat.ltb_ge in Ek.
    set (gen' := g + N.of_nat (Z.to_nat (stop - start)) * N.of_nat (length body)).
    destruct (max_expanded_lines <? gen') eqn:Eg; [exact I|].
    apply N.ltb_ge in Eg.
    assert (Hb : length (firstn (length body) orest) = length body) by (rewrite firstn_length; lia).
    pose proof (copies_o_spec var start (Z.to_nat (stop - start)) body (firstn (length body) orest) Hb
                  (take_lines_Forall _ _ _ H2)) as Hc.
    destruct (copies_o var start (Z.to_nat (stop - start)) body (firstn (length body) orest)) as [cl co].
    destruct Hc as (C1 & C2 & C3).
    assert (Hal' : length (skipn (length body) orest) = length (drop_lines in_body rest))
      by (rewrite skipn_length; lia).
    specialize (IH gen' (drop_lines in_body rest) (skipn (length body) orest) Hal'
                   (drop_lines_Forall _ _ _ H2) Eg).
    unfold pass_ok, lift_app in *. cbn [fst snd].
    destruct (one_pass_o f gen' (drop_lines in_body rest) (skipn (length body) orest)) as [[out oo]| |];
      [|exact I|exact IH].
    destruct IH as (A & B & C). rewrite !app_length. repeat split.
    + lia.
    + apply Forall_app. now split.
    + cbn [length]. unfold gen' in C. lia.
Qed.

(* the result does not depend on the fuel once it exceeds the number of lines: fuel never runs out *)
Lemma one_pass_o_fuel : forall f1 f2 g lines orig,
  (length lines < f1)%nat -> (length lines < f2)%nat ->
  one_pass_o f1 g lines orig = one_pass_o f2 g lines orig.
Proof.
  induction f1 as [|f1 IH]; intros f2 g lines orig H1 H2; [lia|].
  destruct f2 as [|f2]; [lia|]. cbn [one_pass_o].
  destruct lines as [|line rest]; [reflexivity|]. cbn [length] in H1, H2.
  destruct orig as [|o orest]; [reflexivity|].
  rewrite (IH f2 g rest orest) by lia.
  destruct ((indent_of line =? 0) && is_decl_for (trim line)); [|reflexivity].
  destruct (parse_for_range_w (trim line)) as [[[var start] stop]|]; [|reflexivity].
  destruct (max_loop_iterations <? stop - start)%Z; [reflexivity|].
  pose proof (take_drop_lines_length in_body rest) as Hlen.
  rewrite (IH f2 _ (drop_lines in_body rest)) by lia. reflexivity.
Qed.

(* ------------------------------------------------------------------ all passes *)

Definition aligned (text : str) (orig : list N) : Prop := length orig = length (str_lines text).

Definition nlines (text : str) : N := N.of_nat (length (str_lines text)).

Lemma one_pass_text_o_ok : forall text orig, aligned text orig ->
  match one_pass_text_o text orig with
  | PPanicked => False
  | PErr => True
  | POk (e, oo) => aligned e oo /\ nlines e <= nlines text + max_expanded_lines
  end.
Proof.
  intros text orig Hal. unfold one_pass_text_o.
  pose proof (one_pass_o_ok (S (length (str_lines text))) 0 (str_lines text) orig Hal (str_lines_no_nl text)) as H.
  unfold pass_ok in H.
  destruct (one_pass_o (S (length (str_lines text))) 0 (str_lines text) orig) as [[out oo]| |].
  - destruct H as (A & B & C); [unfold max_expanded_lines; lia|].
    unfold aligned, nlines. rewrite str_lines_unlines_length by exact B. split; [exact A|lia].
  - exact I.
  - apply H. unfold max_expanded_lines. lia.
Qed.

Lemma expand_go_o_ok : forall n text orig, aligned text orig ->
  match expand_go_o n text orig with
  | PPanicked => False
  | PErr => True
  | POk (t, o) => aligned t o /\ nlines t <= nlines text + N.of_nat n * max_expanded_lines
  end.
Proof.
  induction n as [|n IH]; intros text orig Hal; cbn [expand_go_o]; [exact I|].
  pose proof (one_pass_text_o_ok text orig Hal) as H.
  destruct (one_pass_text_o text orig) as [[e oo]| |]; [|exact I|exact H].
  destruct H as [Ha Hn].
  destruct (str_eqb e text).
  - split; [exact Hal|lia].
  - specialize (IH e oo Ha). destruct (expand_go_o n e oo) as [[t o]| |]; [|exact I|exact IH].
    destruct IH as [A B]. split; [exact A|lia].
Qed.

Lemma seqN_length : forall n s, length (seqN s n) = n.
Proof. induction n as [|n IH]; intros s; cbn [seqN length]; [reflexivity|]. now rewrite IH. Qed.

Lemma expand_o_ok : forall source,
  match expand_o source with
  | PPanicked => False
  | PErr => True
  | POk (t, o) => aligned t o /\ nlines t <= nlines source + 10 * max_expanded_lines
  end.
Proof.
  intros source. unfold expand_o.
  apply (expand_go_o_ok max_expansion_passes). unfold aligned. apply seqN_length.
Qed.

(* the result of the expansion is a fixed point of the pass: no expandable loop is left *)
Lemma expand_go_o_fixpoint : forall n text orig t o, expand_go_o n text orig = POk (t, o) ->
  exists e oo, one_pass_text_o t o = POk (e, oo) /\ e = t.
Proof.
  induction n as [|n IH]; intros text orig t o H; cbn [expand_go_o] in H; [discriminate|].
  destruct (one_pass_text_o text orig) as [[e oo]| |] eqn:E; try discriminate.
  destruct (str_eqb e text) eqn:Eq.
  - inv H. apply str_eqb_eq in Eq. subst. eauto.
  - eapply IH; eassumption.
Qed.

(* ------------------------------------------------------------------ indentation pass *)

Lemma pop_dedent_nonempty : forall s indent, s <> [] -> fst (pop_dedent s indent) <> [].
Proof.
  induction s as [|top s IH]; intros indent H; [congruence|]. cbn [pop_dedent].
  destruct s as [|x s]; [cbn; congruence|].
  destruct (indent <? top); [|cbn; congruence].
  specialize (IH indent ltac:(congruence)).
  destruct (pop_dedent (x :: s) indent) as [s' c]. exact IH.
Qed.

Lemma indent_line_ok : forall st line, stk st <> [] ->
  exists st' out, indent_line st line = POk (st', out) /\ stk st' <> [].
Proof.
  intros st line H. unfold indent_line.
  destruct (in_cmt st); [eexists _, _; split; [reflexivity|exact H]|].
  destruct (starts_with (s2l "/*") (trim_start line)); [eexists _, _; split; [reflexivity|exact H]|].
  destruct (match trim line with [] => true | _ => false end || starts_with [35] (trim line));
    [eexists _, _; split; [reflexivity|exact H]|].
  destruct (stk st) as [|current s] eqn:Es; [congruence|].
  destruct (expecting st && (current <? indent_of line)).
  - destruct (is_block_start (trim line)); eexists _, _; (split; [reflexivity|cbn; congruence]).
  - destruct ((indent_of line <? current) && (1 <? length (current :: s))%nat).
    + pose proof (pop_dedent_nonempty (current :: s) (indent_of line) ltac:(congruence)) as Hp.
      destruct (pop_dedent (current :: s) (indent_of line)) as [s' c]. cbn [fst] in Hp.
      destruct (is_block_start (trim line)); eexists _, _; (split; [reflexivity|exact Hp]).
    + destruct (is_block_start (trim line)); eexists _, _; (split; [reflexivity|cbn; congruence]).
Qed.

Lemma indent_lines_ok : forall lines st, stk st <> [] ->
  exists st' out, indent_lines st lines = POk (st', out) /\ stk st' <> [].
Proof.
  induction lines as [|l r IH]; intros st H; cbn [indent_lines]; [eauto|].
  destruct (indent_line_ok st l H) as (st1 & out1 & E1 & H1). rewrite E1.
  destruct (IH st1 H1) as (st2 & out2 & E2 & H2). rewrite E2. eauto.
Qed.

Lemma preprocess_ok : forall text, exists pre, preprocess text = POk pre.
Proof.
  intros text. unfold preprocess.
  destruct (indent_lines_ok (str_lines text) ist0 ltac:(cbn; congruence)) as (st & out & E & _).
  rewrite E. eauto.
Qed.

(* ------------------------------------------------------------------ locations *)

Definition count_nl (l : str) : N := N.of_nat (length (filter (fun c => c =? 10) l)).

(* the characters after the last newline of [l] *)
Fixpoint last_seg_go (l cur : str) : str :=
  match l with
  | [] => rev cur
  | c :: r => if c =? 10 then last_seg_go r [] else last_seg_go r (c :: cur)
  end.
Definition last_seg (l : str) : str := last_seg_go l [].

(* [a] denotes a place of [s]: a split of the text at a character boundary, with the byte offset of the
   split, the 1-based number of its line and the 1-based column (in characters) on that line *)
Definition loc_in (s : str) (a : loc) : Prop :=
  exists before after, s = (before ++ after)%list /\
    l_pos a = utf8_len before /\
    l_line a = 1 + count_nl before /\
    l_col a = 1 + N.of_nat (length (last_seg before)).

Lemma utf8_len_app : forall a b, utf8_len (a ++ b) = utf8_len a + utf8_len b.
Proof. induction a as [|c a IH]; intros b; cbn [app utf8_len]; [lia|]. rewrite IH. lia. Qed.

Lemma count_nl_snoc : forall l c, count_nl (l ++ [c]) = count_nl l + (if c =? 10 then 1 else 0).
Proof.
  intros l c. unfold count_nl. rewrite filter_app, app_length. cbn [filter].
  destruct (c =? 10); cbn [length]; lia.
Qed.

Lemma last_seg_go_app : forall l cur c, last_seg_go (l ++ [c]) cur =
  if c =? 10 then [] else (last_seg_go l cur ++ [c])%list.
Proof.
  induction l as [|x l IH]; intros cur c; cbn [app last_seg_go].
  - destruct (c =? 10); reflexivity.
  - destruct (x =? 10); apply IH.
Qed.

Lemma from_pos_go_in : forall s position done line col,
  line = 1 + count_nl done -> col = 1 + N.of_nat (length (last_seg done)) ->
  loc_in (done ++ s) (from_pos_go s position (utf8_len done) line col).
Proof.
  induction s as [|c s IH]; intros position done line col Hl Hc; cbn [from_pos_go].
  - exists done, []. cbn [l_pos l_line l_col]. rewrite app_nil_r. auto.
  - destruct (utf8_len done + utf8_len1 c <=? position).
    + replace (done ++ c :: s)%list with ((done ++ [c]) ++ s)%list by (rewrite <- app_assoc; reflexivity).
      assert (Hu : utf8_len (done ++ [c]) = utf8_len done + utf8_len1 c)
        by (rewrite utf8_len_app; cbn [utf8_len]; lia).
      destruct (c =? 10) eqn:E.
      * apply N.eqb_eq in E. subst c. replace (utf8_len done + 1) with (utf8_len (done ++ [10])) by (rewrite Hu; reflexivity).
        apply IH.
        -- rewrite count_nl_snoc. change (10 =? 10) with true. cbv iota. lia.
        -- unfold last_seg. rewrite last_seg_go_app. change (10 =? 10) with true. reflexivity.
      * rewrite <- Hu. apply IH.
        -- rewrite count_nl_snoc, E. lia.
        -- unfold last_seg. rewrite last_seg_go_app, E, app_length. cbn [length]. unfold last_seg in Hc. lia.
    + exists done, (c :: s). cbn [l_pos l_line l_col]. auto.
Qed.

Lemma from_position_in : forall s position, loc_in s (from_position s position).
Proof. intros s position. unfold from_position. apply (from_pos_go_in s position []); reflexivity. Qed.

Lemma in_original_in : forall source expanded origins pre p,
  loc_in source (in_original source expanded origins pre p).
Proof.
  intros. unfold in_original.
  destruct (find_line _ _ _ _) as [[line_no line_start] piece].
  destruct (strip_markers _ _ _) as [content offset].
  destruct (nth_N (str_lines expanded) line_no); [|apply from_position_in].
  destruct (nth_N origins line_no); [|apply from_position_in].
  destruct (source_line_at _ _ _ _) as [source_start source_line].
  apply from_position_in.
Qed.

(* the explicit bounds that loc_in gives *)
Lemma count_nl_app : forall a b, count_nl (a ++ b) = count_nl a + count_nl b.
Proof. intros a b. unfold count_nl. rewrite filter_app, app_length. lia. Qed.

(* the lines of a text as an editor counts them: the text after the last newline is a line, even if empty *)
Fixpoint split_nl_go (l cur : str) : list str :=
  match l with
  | [] => [rev cur]
  | c :: r => if c =? 10 then rev cur :: split_nl_go r [] else split_nl_go r (c :: cur)
  end.
Definition split_nl (l : str) : list str := split_nl_go l [].
Definition line_of (s : str) (k : N) : str := nth (N.to_nat k) (split_nl s) [].

Fixpoint first_seg (l : str) : str :=
  match l with [] => [] | c :: r => if c =? 10 then [] else c :: first_seg r end.

Lemma split_nl_go_hd : forall l cur, nth 0 (split_nl_go l cur) [] = (rev cur ++ first_seg l)%list.
Proof.
  induction l as [|c l IH]; intros cur; cbn [split_nl_go first_seg nth].
  - now rewrite app_nil_r.
  - destruct (c =? 10); cbn [nth]; [now rewrite app_nil_r|].
    rewrite IH. cbn [rev]. now rewrite <- app_assoc.
Qed.

Lemma split_nl_go_nth : forall before after cur,
  nth (length (filter (fun c => c =? 10) before)) (split_nl_go (before ++ after) cur) []
  = (last_seg_go before cur ++ first_seg after)%list.
Proof.
  induction before as [|c b IH]; intros after cur; cbn [app filter length last_seg_go].
  - apply split_nl_go_hd.
  - cbn [split_nl_go]. destruct (c =? 10); cbn [length nth]; apply IH.
Qed.

Lemma loc_in_bounds : forall s a, loc_in s a ->
  l_pos a <= utf8_len s /\
  1 <= l_line a <= 1 + count_nl s /\
  1 <= l_col a <= 1 + N.of_nat (length (line_of s (l_line a - 1))).
Proof.
  intros s a (before & after & E & P & L & C). subst s.
  rewrite utf8_len_app, count_nl_app. repeat split; try lia.
  rewrite L, C. unfold line_of, split_nl.
  replace (N.to_nat (1 + count_nl before - 1)) with (length (filter (fun c => c =? 10) before))
    by (unfold count_nl; lia).
  rewrite split_nl_go_nth. unfold last_seg. rewrite app_length. lia.
Qed.

Lemma split_nl_length : forall l cur, N.of_nat (length (split_nl_go l cur)) = 1 + count_nl l.
Proof.
  induction l as [|c l IH]; intros cur; cbn [split_nl_go]; [reflexivity|].
  unfold count_nl in *. cbn [filter]. destruct (c =? 10); cbn [length]; [rewrite Nat2N.inj_succ, IH; lia|apply IH].
Qed.
