(* Parse/Props.v — property C41 (being written) *)
From Coq Require Import String.
From VP Require Import Base.Tactics Text.Str Text.Expand Parse.Model.
Open Scope N_scope.

Example C41_demo_relocate :
  relocate (s2l "fn f():" ++ [10] ++ s2l "    if a:" ++ [10] ++ s2l "        return 1" ++ [10] ++ s2l ")" ++ [10]) 55
  = Some {| l_line := 4; l_col := 1; l_pos := 35 |}.
Proof. vm_compute. reflexivity. Qed.
