(* Parse/Props.v — property C41: "the parser terminates without panicking and locates its errors inside
   the input", for the hand-written passes of crates/varpulis-parser (PARTIAL: the pest-generated
   recogniser and the AST builder are not modelled; see checks/C41.py for the exploration half).

   Model: Parse/Model.v (prepass = expand_with_origins; preprocess_indentation; check_nesting_depth, and
   SourceLocation::in_original / from_position through which parse() reports every located error).  *)
From Coq Require Import String.
From VP Require Import Base.Tactics Text.Str Text.Expand Parse.Model Parse.Proofs.
Open Scope N_scope.

(* No pass panics, whatever the source: `origins[..]` is always in range (the line map stays aligned with
   the lines through every pass), `indent_stack.last().unwrap()` always finds an element, and byte slicing
   at the indentation width falls back to trimming. *)
Theorem C41_prepass_no_panic : forall source, prepass source <> PPanic.
Proof.
  intros source H. unfold prepass in H.
  pose proof (expand_o_ok source) as He.
  destruct (expand_o source) as [[expanded origins]| |]; [|discriminate|exact He].
  destruct (preprocess_ok expanded) as [pre Ep]. rewrite Ep in H.
  destruct (check_nesting pre); discriminate.
Qed.

(* The expansion is bounded: (1) the fuel of a pass never runs out (any fuel above the number of lines
   gives the same result); (2) a pass over a text whose line map is aligned adds at most
   MAX_EXPANDED_LINES lines; (3) at most MAX_EXPANSION_PASSES = 10 passes run, so a successful expansion
   has at most 10 * 100000 lines more than the source, its line map has one entry per line, and it is a
   fixed point of the pass (no expandable loop is left). *)
Theorem C41_expand_terminates :
  (forall f g lines orig, (length lines < f)%nat ->
     one_pass_o f g lines orig = one_pass_o (S (length lines)) g lines orig) /\
  (forall text orig e oo, length orig = length (str_lines text) ->
     one_pass_text_o text orig = POk (e, oo) ->
     length oo = length (str_lines e) /\
     N.of_nat (length (str_lines e)) <= N.of_nat (length (str_lines text)) + max_expanded_lines) /\
  (forall source t o, expand_o source = POk (t, o) ->
     length o = length (str_lines t) /\
     N.of_nat (length (str_lines t)) <= N.of_nat (length (str_lines source)) + 10 * max_expanded_lines /\
     exists oo, one_pass_text_o t o = POk (t, oo)).
Proof.
  split; [|split].
  - intros f g lines orig H. apply one_pass_o_fuel; lia.
  - intros text orig e oo Hal H. pose proof (one_pass_text_o_ok text orig Hal) as Hok.
    rewrite H in Hok. exact Hok.
  - intros source t o H. pose proof (expand_o_ok source) as Hok. rewrite H in Hok.
    destruct Hok as [A B]. split; [exact A|]. split; [exact B|].
    unfold expand_o in H. destruct (expand_go_o_fixpoint _ _ _ _ _ H) as (e & oo & E1 & E2).
    subst e. eauto.
Qed.

(* Every location parse() reports lies within the input: the nesting error of the pre-scan, and the
   relocation of ANY byte offset p of the preprocessed text (whatever pest or the AST builder names),
   is a split of the source at a character boundary together with the byte offset, the line number and
   the column of exactly that place. *)
Theorem C41_position_in_range : forall source,
  (forall a, prepass source = PNest a -> loc_in source a) /\
  (forall p a, relocate source p = Some a -> loc_in source a).
Proof.
  intros source. split.
  - intros a H. unfold prepass in H.
    destruct (expand_o source) as [[expanded origins]| |]; try discriminate.
    destruct (preprocess expanded) as [pre| |]; try discriminate.
    destruct (check_nesting pre); [|discriminate]. inv H. apply in_original_in.
  - intros p a H. unfold relocate in H.
    destruct (prepass source); try discriminate. inv H. apply in_original_in.
Qed.

(* ... which in numbers means: offset <= length in bytes, 1 <= line <= number of lines,
   1 <= column <= characters of that line + 1 *)
Theorem C41_position_bounds : forall source a, loc_in source a ->
  l_pos a <= utf8_len source /\
  1 <= l_line a <= N.of_nat (length (split_nl source)) /\
  1 <= l_col a <= 1 + N.of_nat (length (line_of source (l_line a - 1))).
Proof.
  intros source a H. pose proof (loc_in_bounds source a H) as (A & B & C).
  unfold split_nl. rewrite split_nl_length. auto.
Qed.

(* the same for SourceLocation::from_position itself (public API, any position) *)
Theorem C41_from_position_in_range : forall source position, loc_in source (from_position source position).
Proof. exact from_position_in. Qed.

(* ---- non-vacuity: the outcomes exist, with concrete sources ------------------------------------------ *)
Open Scope string_scope.
Definition src_lines (ls : list string) : str := concat (map (fun l => (s2l l ++ [10])%list) ls).

Open Scope N_scope.
(* an error after three DEDENT markers is reported at line 5, column 1 (pest names offset 89 of the
   preprocessed text; before the fix the parser reported column 25 of a one-character line) *)
Example C41_relocate_after_dedent :
  relocate (src_lines ["fn f():"; "    if a:"; "        if b:"; "            return 1"; ")"]) 89
  = Some {| l_line := 5; l_col := 1; l_pos := 53 |}.
Proof. vm_compute. reflexivity. Qed.

(* a nesting error inside the third copy of a loop body is reported on the body line of the source *)
Example C41_nest_in_loop :
  prepass (src_lines ["for i in 0..30:"; "    x = ("]) = PNest {| l_line := 2; l_col := 9; l_pos := 24 |}.
Proof. vm_compute. reflexivity. Qed.

(* sources that used to panic inside parse() *)
Example C41_was_panic_strip :
  exists e o p, prepass (s2l "for i in 0..2:" ++ [10; 32] ++ s2l "x{i}" ++ [10; 12288] ++ s2l "y{i}" ++ [10])%list = PPass e o p.
Proof. vm_compute. eauto. Qed.
Example C41_was_panic_overflow :
  prepass (src_lines ["for i in 0..=9223372036854775807:"; "    x"]) = PExpandErr.
Proof. vm_compute. reflexivity. Qed.
(* the line limit: 300 x 400 single-line copies are refused in the second pass *)
Example C41_line_limit :
  prepass (src_lines ["for a in 0..300:"; "  for b in 0..400:"; "    s{a}_{b}"]) = PExpandErr.
Proof. vm_compute. reflexivity. Qed.
