(* Parse/Model.v — executable model of the hand-written passes that run before (and around) the
   pest-generated recogniser in crates/varpulis-parser/src.  Definitions only.

   Rust                                             here
   -----------------------------------------------  ------------------------------------------
   expand.rs  parse_for_range (i128 bounds)          parse_for_range_w
              `bl.get(strip..).unwrap_or(trim_start)` strip_line_w
              the `for val in start..end` loop        copies_o       (one copy of the body per value, with origins)
              `generated` / MAX_EXPANDED_LINES        the [gen] accumulator of one_pass_o
              expand_one_pass(source, origins)        one_pass_o (lists of lines) / one_pass_text_o (text)
              expand_with_origins                     expand_go_o 10 / expand_o
   indent.rs  is_block_start                          is_block_start
              preprocess_indentation                  indent_line (one line) / preprocess
   pest_parser.rs check_nesting_depth                 nest_go / check_nesting   (on the UTF-8 bytes)
   error.rs   SourceLocation::from_position           from_position
              SourceLocation::in_original             in_original
   pest_parser.rs parse_inner (up to the pest call)   prepass;  reported position of an error: relocate

   Text = list of Unicode scalar values (Text/Str.v); byte offsets through utf8_len; the nesting scan runs
   on the UTF-8 encoding (utf8).  Where Rust would panic the model returns PPanicked:
     * `origins[i]` / `origins[body_start..body_end]` out of range           (one_pass_o)
     * `indent_stack.last().unwrap()` on an empty stack                        (indent_line)
   Byte indexing in check_nesting_depth is guarded, access by access, by the loop conditions
   (`while i < len`, `i + 1 < len`); the model mirrors each guarded access by a pattern match on the
   remaining bytes.  String slicing in from_position / in_original happens at offsets that the code first
   moves onto a character boundary; the model computes with whole characters.

   The reused definitions of Text/Expand.v (is_decl_for, indent_of, is_blank, in_body, take_lines,
   drop_lines, body_strip, drop_bytes, zrange, unlines, max_loop_iterations, max_expansion_passes,
   max_expanded_lines)
   are the parts of expand.rs that the C42 model shares with this one.                                   *)
From Coq Require Import String.
From VP Require Import Base.Tactics Text.Str Text.Expand.
Open Scope N_scope.

(* ------------------------------------------------------------------ expand.rs, with origins *)

(* outcome of a pass: value, limit error (Err(..) of expand.rs), or panic.  Text/Expand.v has its own
   two-valued [res]; the C41 model keeps the panic outcome explicit and proves it unreachable. *)
Inductive pres (A : Type) : Type := POk (a : A) | PErr | PPanicked.
Arguments POk {A} a.
Arguments PErr {A}.
Arguments PPanicked {A}.

(* parse_for_range: the bounds are i64 literals, widened (i128): no overflow *)
Definition parse_for_range_w (t : str) : option (str * Z * Z) :=
  match strip_prefix (s2l "for ") t with
  | None => None
  | Some r1 =>
    match strip_suffix (s2l ":") r1 with
    | None => None
    | Some rest =>
      match split_once (s2l " in ") rest with
      | None => None
      | Some (var0, range0) =>
        let var := trim var0 in
        let range := trim range0 in
        match split_once (s2l "..=") range with
        | Some (s, e) =>
          match parse_i64 (trim s), parse_i64 (trim e) with
          | Some a, Some b => Some (var, a, (b + 1)%Z)
          | _, _ => None
          end
        | None =>
          match split_once (s2l "..") range with
          | Some (s, e) =>
            match parse_i64 (trim s), parse_i64 (trim e) with
            | Some a, Some b => Some (var, a, b)
            | _, _ => None
            end
          | None => None
          end
        end
      end
    end
  end.

(* bl.get(strip..).unwrap_or_else(|| bl.trim_start()) *)
Definition strip_line_w (strip : N) (bl : str) : str :=
  match drop_bytes strip bl with Some s => s | None => trim_start bl end.

Definition copy_line_w (strip : N) (pat : str) (val : Z) (bl : str) : str :=
  if is_blank bl then [] else replace_all pat (z_to_str val) (strip_line_w strip bl).

(* all copies of the body, value after value; each copied line keeps the origin of its body line *)
Definition copies_o (var : str) (start : Z) (n : nat) (body : list str) (borig : list N)
  : list str * list N :=
  let strip := body_strip body in
  let pat := ([123] ++ var ++ [125])%list in
  (concat (map (fun v => map (copy_line_w strip pat v) body) (zrange start n)),
   concat (map (fun _ => borig) (zrange start n))).

Definition lift_cons (line : str) (o : N) (r : pres (list str * list N)) : pres (list str * list N) :=
  match r with POk (ls, os) => POk (line :: ls, o :: os) | PErr => PErr | PPanicked => PPanicked end.
Definition lift_app (a : list str * list N) (r : pres (list str * list N)) : pres (list str * list N) :=
  match r with POk (ls, os) => POk ((fst a ++ ls)%list, (snd a ++ os)%list) | PErr => PErr | PPanicked => PPanicked end.

(* one pass over the lines; [orig] runs in lock step with [lines] (origins[i] is its head);
   [gen] = lines generated so far in this pass *)
Fixpoint one_pass_o (fuel : nat) (gen : N) (lines : list str) (orig : list N)
  : pres (list str * list N) :=
  match fuel with
  | O => PErr
  | S f =>
    match lines with
    | [] => POk ([], [])
    | line :: rest =>
      match orig with
      | [] => PPanicked                                      (* origins[i] out of range *)
      | o :: orest =>
        let keep := lift_cons line o (one_pass_o f gen rest orest) in
        if (indent_of line =? 0) && is_decl_for (trim line) then
          match parse_for_range_w (trim line) with
          | None => keep
          | Some (var, start, stop) =>
            if (max_loop_iterations <? stop - start)%Z then PErr
            else
              let body := take_lines in_body rest in
              let k := length body in
              let n := Z.to_nat (stop - start) in
              if (length orest <? k)%nat then PPanicked      (* origins[body_start..body_end] *)
              else
                let gen' := gen + N.of_nat n * N.of_nat k in
                if max_expanded_lines <? gen' then PErr
                else lift_app (copies_o var start n body (firstn k orest))
                              (one_pass_o f gen' (drop_lines in_body rest) (skipn k orest))
          end
        else keep
      end
    end
  end.

Definition one_pass_text_o (text : str) (orig : list N) : pres (str * list N) :=
  let ls := str_lines text in
  match one_pass_o (S (length ls)) 0 ls orig with
  | POk (out, oo) => POk (unlines out, oo)
  | PErr => PErr
  | PPanicked => PPanicked
  end.

Fixpoint expand_go_o (passes : nat) (text : str) (orig : list N) : pres (str * list N) :=
  match passes with
  | O => PErr
  | S n =>
    match one_pass_text_o text orig with
    | POk (e, oo) => if str_eqb e text then POk (text, orig) else expand_go_o n e oo
    | PErr => PErr
    | PPanicked => PPanicked
    end
  end.

Fixpoint seqN (start : N) (n : nat) : list N :=
  match n with O => [] | S k => start :: seqN (start + 1) k end.

Definition expand_o (source : str) : pres (str * list N) :=
  expand_go_o max_expansion_passes source (seqN 0 (length (str_lines source))).

(* ------------------------------------------------------------------ indent.rs *)

Definition indent_marker : str := (171 :: s2l "INDENT" ++ [187])%list.
Definition dedent_marker : str := (171 :: s2l "DEDENT" ++ [187])%list.

Definition block_keywords : list str :=
  [s2l "fn "; s2l "if "; s2l "elif "; s2l "else:"; s2l "for "; s2l "while "; s2l "config:"; s2l "event "].

Definition is_block_start (line : str) : bool :=
  let t := trim line in
  ends_with (s2l ":") t && existsb (fun kw => starts_with kw t) block_keywords.

Record ist := { stk : list N;          (* indent_stack, last element first *)
                expecting : bool;      (* expecting_block *)
                in_cmt : bool }.       (* in_block_comment *)

(* while indent_stack.len() > 1 && *indent_stack.last().unwrap() > indent { pop; push DEDENT } *)
Fixpoint pop_dedent (s : list N) (indent : N) : list N * nat :=
  match s with
  | top :: ((_ :: _) as rest) =>
    if indent <? top then let '(s', c) := pop_dedent rest indent in (s', S c) else (s, O)
  | _ => (s, O)
  end.

Fixpoint repeat_str (m : str) (n : nat) : str :=
  match n with O => [] | S k => (m ++ repeat_str m k)%list end.

(* one iteration of the `for line in source.lines()` loop: new state and the text appended *)
Definition indent_line (st : ist) (line : str) : pres (ist * str) :=
  let verbatim := (line ++ [10])%list in
  if in_cmt st then
    POk ({| stk := stk st; expecting := expecting st; in_cmt := negb (contains (s2l "*/") line) |}, verbatim)
  else if starts_with (s2l "/*") (trim_start line) then
    POk ({| stk := stk st; expecting := expecting st; in_cmt := negb (contains (s2l "*/") line) |}, verbatim)
  else
    let trimmed := trim line in
    if match trimmed with [] => true | _ => false end || starts_with [35] trimmed then POk (st, verbatim)
    else
      let indent := indent_of line in
      match stk st with
      | [] => PPanicked                                       (* indent_stack.last().unwrap() *)
      | current :: _ =>
        let '(st1, out) :=
          if expecting st && (current <? indent) then
            ({| stk := indent :: stk st; expecting := false; in_cmt := false |},
             (indent_marker ++ trimmed ++ [10])%list)
          else if (indent <? current) && (1 <? length (stk st))%nat then
            let '(s', c) := pop_dedent (stk st) indent in
            ({| stk := s'; expecting := expecting st; in_cmt := false |},
             (repeat_str dedent_marker c ++ trimmed ++ [10])%list)
          else
            ({| stk := stk st; expecting := false; in_cmt := false |}, (trimmed ++ [10])%list) in
        POk (if is_block_start trimmed
             then {| stk := stk st1; expecting := true; in_cmt := in_cmt st1 |} else st1, out)
      end.

Fixpoint indent_lines (st : ist) (lines : list str) : pres (ist * str) :=
  match lines with
  | [] => POk (st, [])
  | l :: r =>
    match indent_line st l with
    | POk (st', out) =>
      match indent_lines st' r with
      | POk (st'', out') => POk (st'', (out ++ out')%list)
      | PErr => PErr | PPanicked => PPanicked
      end
    | PErr => PErr | PPanicked => PPanicked
    end
  end.

Definition ist0 : ist := {| stk := [0]; expecting := false; in_cmt := false |}.

Definition preprocess (source : str) : pres str :=
  match indent_lines ist0 (str_lines source) with
  | POk (st, out) => POk (out ++ repeat_str dedent_marker (pred (length (stk st))))%list
  | PErr => PErr | PPanicked => PPanicked
  end.

(* ------------------------------------------------------------------ UTF-8 *)

Definition utf8_enc1 (c : N) : list N :=
  if c <? 128 then [c]
  else if c <? 2048 then [192 + c / 64; 128 + c mod 64]
  else if c <? 65536 then [224 + c / 4096; 128 + (c / 64) mod 64; 128 + c mod 64]
  else [240 + c / 262144; 128 + (c / 4096) mod 64; 128 + (c / 64) mod 64; 128 + c mod 64].
Definition utf8 (s : str) : list N := flat_map utf8_enc1 s.

(* ------------------------------------------------------------------ check_nesting_depth *)

Definition max_nesting_depth : N := 24.

Inductive nmode := NCode | NStr | NLine | NBlock.

Definition is_open (b : N) : bool := (b =? 40) || (b =? 91) || (b =? 123).
Definition is_close (b : N) : bool := (b =? 41) || (b =? 93) || (b =? 125).

(* the bracket-tracking tail of one iteration of the main loop at byte [b], offset [pos]:
   inl (depth, max_depth, max_depth_pos) to go on, inr position for the error *)
Definition bracket_step (b pos depth maxd maxpos : N) : (N * N * N) + N :=
  let '(depth', maxd', maxpos') :=
    if is_open b then
      (if maxd <? depth + 1 then (depth + 1, depth + 1, pos) else (depth + 1, maxd, maxpos))
    else if is_close b then (depth - 1, maxd, maxpos)       (* saturating_sub: N subtraction truncates *)
    else (depth, maxd, maxpos) in
  if max_nesting_depth <? maxd' then inr maxpos' else inl (depth', maxd', maxpos').

(* [bs] = bytes[i..], [pos] = i.  Some p = Err(InvalidToken { position: p }) *)
Fixpoint nest_go (bs : list N) (pos : N) (m : nmode) (depth maxd maxpos : N) : option N :=
  match bs with
  | [] => None
  | b :: r =>
    match m with
    | NCode =>
      if b =? 34 then nest_go r (pos + 1) NStr depth maxd maxpos
      else if b =? 35 then nest_go r (pos + 1) NLine depth maxd maxpos
      else
        let code_step :=
          match bracket_step b pos depth maxd maxpos with
          | inr p => Some p
          | inl (d, md, mp) => nest_go r (pos + 1) NCode d md mp
          end in
        match r with
        | b2 :: r2 => if (b =? 47) && (b2 =? 42) then nest_go r2 (pos + 2) NBlock depth maxd maxpos else code_step
        | [] => code_step
        end
    | NStr =>
      if b =? 92 then match r with [] => None | _ :: r2 => nest_go r2 (pos + 2) NStr depth maxd maxpos end
      else if b =? 34 then nest_go r (pos + 1) NCode depth maxd maxpos
      else nest_go r (pos + 1) NStr depth maxd maxpos
    | NLine =>
      if b =? 10 then
        (* `continue` with bytes[i] == '\n': the main loop handles the newline as ordinary code *)
        match bracket_step b pos depth maxd maxpos with
        | inr p => Some p
        | inl (d, md, mp) => nest_go r (pos + 1) NCode d md mp
        end
      else nest_go r (pos + 1) NLine depth maxd maxpos
    | NBlock =>
      (* while i + 1 < len { if bytes[i] == '*' && bytes[i+1] == '/' { i += 2; break } i += 1 } *)
      match r with
      | [] =>
        (* one byte left: the inner loop ends, the main loop treats that byte as code *)
        if (b =? 34) || (b =? 35) then None
        else match bracket_step b pos depth maxd maxpos with inr p => Some p | inl _ => None end
      | b2 :: r2 =>
        if (b =? 42) && (b2 =? 47) then nest_go r2 (pos + 2) NCode depth maxd maxpos
        else nest_go r (pos + 1) NBlock depth maxd maxpos
      end
    end
  end.

Definition check_nesting (pre : str) : option N := nest_go (utf8 pre) 0 NCode 0 0 0.

(* ------------------------------------------------------------------ error.rs: locations *)

Record loc := { l_line : N; l_col : N; l_pos : N }.

(* SourceLocation::from_position: the position is clamped to the text and moved back onto a character
   boundary; line = 1 + newlines before it, column = 1 + characters since the last newline *)
Fixpoint from_pos_go (s : str) (position acc line col : N) : loc :=
  match s with
  | [] => {| l_line := line; l_col := col; l_pos := acc |}
  | c :: r =>
    if acc + utf8_len1 c <=? position then
      (if c =? 10 then from_pos_go r position (acc + 1) (line + 1) 1
       else from_pos_go r position (acc + utf8_len1 c) line (col + 1))
    else {| l_line := line; l_col := col; l_pos := acc |}
  end.
Definition from_position (source : str) (position : N) : loc := from_pos_go source position 0 1 1.

Definition ends_nl (pc : str) : bool := ends_with [10] pc.

(* line number, byte offset of the line start and the piece (of split_inclusive('\n')) that holds byte
   offset [position] of a text given by its pieces *)
Fixpoint find_line (pieces : list str) (k start position : N) : N * N * str :=
  match pieces with
  | [] => (k, start, [])
  | pc :: r =>
    let e := start + utf8_len pc in
    if ends_nl pc then (if position <? e then (k, start, pc) else find_line r (k + 1) e position)
    else (k, start, pc)
  end.

(* while let Some(rest) = content.strip_prefix(INDENT).or_else(|| content.strip_prefix(DEDENT)) *)
Fixpoint strip_markers (fuel : nat) (content : str) (offset : N) : str * N :=
  match fuel with
  | O => (content, offset)
  | S f =>
    match strip_prefix indent_marker content with
    | Some rest => strip_markers f rest (offset - utf8_len indent_marker)
    | None =>
      match strip_prefix dedent_marker content with
      | Some rest => strip_markers f rest (offset - utf8_len dedent_marker)
      | None => (content, offset)
      end
    end
  end.

(* the [origin]-th piece of the source: (byte offset of its start, the line without "\n" / "\r") *)
Definition strip_nl_cr (pc : str) : str :=
  let a := match strip_suffix [10] pc with Some a => a | None => pc end in
  match strip_suffix [13] a with Some b => b | None => a end.
Fixpoint source_line_at (pieces : list str) (origin : N) (k start : N) : N * str :=
  match pieces with
  | [] => (start, [])
  | pc :: r => if k =? origin then (start, strip_nl_cr pc)
               else source_line_at r origin (k + 1) (start + utf8_len pc)
  end.

Fixpoint nth_N {A} (l : list A) (n : N) : option A :=
  match l with
  | [] => None
  | x :: r => if n =? 0 then Some x else nth_N r (n - 1)
  end.

Definition in_original (source expanded : str) (origins : list N) (pre : str) (position : N) : loc :=
  let position := N.min position (utf8_len pre) in
  let '(line_no, line_start, piece) := find_line (split_incl pre) 0 0 position in
  let offset := position - line_start in
  let '(content, offset) := strip_markers (length piece) (strip_eol piece) offset in
  match nth_N (str_lines expanded) line_no, nth_N origins line_no with
  | Some expanded_line, Some origin =>
    let offset := if str_eqb content expanded_line then offset else offset + indent_of expanded_line in
    let '(source_start, source_line) := source_line_at (split_incl source) origin 0 0 in
    let offset := if str_eqb source_line expanded_line then offset
                  else offset + (indent_of source_line - indent_of expanded_line) in
    from_position source (source_start + N.min offset (utf8_len source_line))
  | _, _ => from_position source (utf8_len source)
  end.

(* ------------------------------------------------------------------ parse_inner up to the pest call *)

Inductive pre_out :=
| PPanic                                   (* a pass panicked *)
| PExpandErr                               (* Err(InvalidToken { position: 0, .. }) from the expansion limits *)
| PNest (at_ : loc)                        (* nesting too deep: Err(InvalidToken { position: at.pos }) *)
| PPass (expanded : str) (origins : list N) (pre : str).   (* the text handed to the grammar *)

Definition prepass (source : str) : pre_out :=
  match expand_o source with
  | PPanicked => PPanic
  | PErr => PExpandErr
  | POk (expanded, origins) =>
    match preprocess expanded with
    | PPanicked => PPanic
    | PErr => PExpandErr
    | POk pre =>
      match check_nesting pre with
      | Some p => PNest (in_original source expanded origins pre p)
      | None => PPass expanded origins pre
      end
    end
  end.

(* the location reported for an error that the grammar (or the AST builder) raises at byte offset [p] of
   the preprocessed text: the `relocate` closure of parse_inner *)
Definition relocate (source : str) (p : N) : option loc :=
  match prepass source with
  | PPass expanded origins pre => Some (in_original source expanded origins pre p)
  | _ => None
  end.
