(* Lemmas for C09: the VPL evaluator and the SASE predicate path agree on the boolean skeleton. *)
From VP Require Import Base.Tactics Cmp.F64 Cmp.Arms Cmp.Gen_EvalArms Cmp.Model Cmp.Classes.

Definition bool_of (o : option value) : bool := match as_bool o with Some b => b | None => false end.

Ltac close_lookups :=
  repeat match goal with
  | |- context [find_arm ?t ?f ?o ?a ?b] =>
      let r := eval vm_compute in (find_arm t f o a b) in change (find_arm t f o a b) with r
  | |- context [vc_find ?t ?a ?b] =>
      let r := eval vm_compute in (vc_find t a b) in change (vc_find t a b) with r
  | |- context [cv_find ?t ?o] =>
      let r := eval vm_compute in (cv_find t o) in change (cv_find t o) with r
  end.

Lemma cmp_agree : forall o x v, bool_of (eval_cmp FExpr o x v) = compare_values x v o.
Proof.
  intros o x v.
  unfold bool_of, eval_cmp, eval_cmp_tbl, compare_values, compare_values_tbl, values_compare_tbl, values_equal_body.
  destruct o, x, v; cbn [ty_of]; close_lookups;
  try (let r := eval vm_compute in ve_body in change ve_body with r);
  try (let r := eval vm_compute in expr_eq_how in change expr_eq_how with r);
  try (let r := eval vm_compute in expr_ne_how in change expr_ne_how with r);
  cbv beta iota delta [apply_combine a_how as_bool opt_test f_rel option_map eq_by];
  try reflexivity.
  all: try (match goal with |- context [cmp_int_float ?a ?b] => destruct (cmp_int_float a b) as [[]|] end; reflexivity).
  all: try (match goal with |- context [fcmp ?a ?b] => destruct (fcmp a b) as [[]|] end; reflexivity).
  all: try (match goal with |- context [Z.compare ?a ?b] => destruct (Z.compare a b) end; reflexivity).
  all: try (match goal with |- context [bytes_cmp ?a ?b] => destruct (bytes_cmp a b) end; reflexivity).
  all: try (match goal with |- context [numeric_eqb ?a ?b] => destruct (numeric_eqb a b) end; reflexivity).
  all: try (match goal with |- context [value_eqb ?a ?b] => destruct (value_eqb a b) end; reflexivity).
Qed.

Lemma to_value_eval : forall r v ev, to_value r = Some v -> eval r ev = Some v.
Proof. intros r v ev H. destruct r; cbn in H; try discriminate; inversion H; reflexivity. Qed.

Lemma to_pred_total : forall f, exists p, to_pred f = Some p.
Proof.
  induction f as [n|z|x|s|b| |o l IHl r IHr|o l IHl r IHr|g IHg|g IHg]; cbn [to_pred]; eauto.
  - destruct l; eauto. destruct (to_value r); eauto.
  - destruct IHl as [pl ->], IHr as [pr ->]. destruct o; eauto.
  - destruct IHg as [p ->]. eauto.
Qed.

Lemma has_bool_inv : forall g ev, has_bool g ev = true -> exists b, eval g ev = Some (VBool b).
Proof.
  intros g ev H. unfold has_bool, as_bool in H.
  destruct (eval g ev) as [[| b | | |]|]; try discriminate. eauto.
Qed.

Lemma flags_ok : expr_and_strict = true /\ expr_or_strict = true /\ expr_not_bool_only = true.
Proof. repeat split; vm_compute; reflexivity. Qed.

Lemma agree_gen : forall f ev,
  not_over_valueless f ev = false -> or_with_valueless f ev = false ->
  exists p, to_pred f = Some p /\ eval_pred p ev = bool_of (eval f ev).
Proof.
  destruct flags_ok as [FA [FO FN]].
  induction f as [n|z|x|s|b| |o l IHl r IHr|o l IHl r IHr|g IHg|g IHg]; intros ev HN HO;
    try (eexists; split; [reflexivity|reflexivity]).
  - (* comparison *)
    cbn [to_pred].
    destruct l as [name| | | | | | | | |]; try (eexists; split; [reflexivity|reflexivity]).
    destruct (to_value r) as [v|] eqn:TV; [|eexists; split; [reflexivity|reflexivity]].
    eexists; split; [reflexivity|].
    cbn [eval_pred eval]. rewrite (to_value_eval r v ev TV).
    destruct (lookup ev name) as [a|]; [|reflexivity].
    symmetry. apply cmp_agree.
  - (* and / or *)
    cbn [not_over_valueless] in HN. apply Bool.orb_false_iff in HN. destruct HN as [HNl HNr].
    destruct o.
    + cbn [or_with_valueless] in HO. apply Bool.orb_false_iff in HO. destruct HO as [HOl HOr].
      destruct (IHl ev HNl HOl) as [pl [Tl El]]. destruct (IHr ev HNr HOr) as [pr [Tr Er]].
      exists (PAnd pl pr). split; [cbn [to_pred]; rewrite Tl, Tr; reflexivity|].
      cbn [eval_pred eval]. rewrite El, Er, FA. unfold bool_of.
      destruct (eval l ev) as [[| x | | |]|]; cbn [as_bool]; try reflexivity;
      destruct (eval r ev) as [[| y | | |]|]; cbn [as_bool andb]; try reflexivity;
      try (destruct x; reflexivity).
    + cbn [or_with_valueless] in HO.
      repeat (apply Bool.orb_false_iff in HO; destruct HO as [HO ?]).
      apply Bool.negb_false_iff in HO.
      match goal with H : negb (has_bool r ev) = false |- _ => apply Bool.negb_false_iff in H; rename H into HBr end.
      destruct (has_bool_inv _ _ HO) as [x Ex]. destruct (has_bool_inv _ _ HBr) as [y Ey].
      match goal with H1 : or_with_valueless l ev = false, H2 : or_with_valueless r ev = false |- _ =>
        destruct (IHl ev HNl H1) as [pl [Tl El]]; destruct (IHr ev HNr H2) as [pr [Tr Er]] end.
      exists (POr pl pr). split; [cbn [to_pred]; rewrite Tl, Tr; reflexivity|].
      cbn [eval_pred eval]. rewrite El, Er, Ex, Ey, FO. reflexivity.
  - (* not *)
    cbn [not_over_valueless] in HN. apply Bool.orb_false_iff in HN. destruct HN as [HB HNg].
    apply Bool.negb_false_iff in HB. cbn [or_with_valueless] in HO.
    destruct (has_bool_inv _ _ HB) as [x Ex].
    destruct (IHg ev HNg HO) as [p [Tp Ep]].
    exists (PNot p). split; [cbn [to_pred]; rewrite Tp; reflexivity|].
    cbn [eval_pred eval]. rewrite Ep, Ex, FN. reflexivity.
Qed.

Lemma agree_lemma : forall f ev,
  not_over_valueless f ev = false -> or_with_valueless f ev = false ->
  where_accepts f ev = step_accepts f ev.
Proof.
  intros f ev HN HO. destruct (agree_gen f ev HN HO) as [p [Tp Ep]].
  unfold where_accepts, step_accepts. rewrite Tp, Ep. reflexivity.
Qed.
