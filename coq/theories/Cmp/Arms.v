(* Vocabulary of the arm tables that translate/eval_arms.py regenerates from the Rust source
   (Gen_EvalArms.v).  Definitions only.

   fn      which Rust function the row was read from
             FExpr  = engine/evaluator.rs eval_expr_with_functions, `Expr::Binary` block
             FBinop = engine/evaluator.rs eval_binary_op (used by eval_pattern_expr, i.e. `.pattern`)
   cop     comparison operator (BinOp::{Eq,NotEq,Lt,Le,Gt,Ge} / sase::CompareOp)
   vty     runtime type tag of an operand (Value::{Null,Bool,Int,Float,Str})
   rel     the Rust operator token in the arm (`<` `<=` `>` `>=`) or `Ordering::is_{lt,le,gt,ge}`
   combine how the two operands of an arm are compared
             CDirect r  : `a r b`                      (same-typed operands)
             CCastL r   : `(a as f64) r b`             (int on the left, rounds the int)
             CCastR r   : `a r (b as f64)`             (int on the right, rounds the int)
             CExactL r  : `cmp_int_float(a, b).is_some_and(Ordering::is_r)`   (int left, exact)
             CExactR r  : `cmp_int_float(b, a).is_some_and(Ordering::is_r)`   (int right, exact; r is
                          the test on the ordering of (int ? float), i.e. already flipped)
   eqhow   `left == right` on Value (EQValue) or evaluator.rs values_eq (EQNumeric: Value equality except that
           an Int and a Float are equal when cmp_int_float says Equal)
   vchow   sase.rs values_compare arm;  vehow / vebody  sase.rs values_equal;  cvhow  sase.rs compare_values *)
From VP Require Import Base.Tactics.

Inductive fn := FExpr | FBinop.
Inductive cop := OEq | ONotEq | OLt | OLe | OGt | OGe.
Inductive vty := TNull | TBool | TInt | TFloat | TStr.
Inductive rel := RLt | RLe | RGt | RGe.
Inductive combine :=
| CDirect (r : rel) | CCastL (r : rel) | CCastR (r : rel) | CExactL (r : rel) | CExactR (r : rel).

Record arm := mkArm { a_fn : fn; a_op : cop; a_lt : vty; a_rt : vty; a_how : combine }.

Inductive vchow := VCIntCmp | VCFloatPartial | VCCastL | VCCastR | VCExactL | VCExactRRev | VCStrCmp.
Inductive vehow := VEDirectEq | VEFloatEps | VEMixedEps.
Inductive vebody := VEArms (l : list (vty * vty * vehow)) | VEValueEqAll | VENumericAll.
(* shape of `==` / `!=` in an evaluator: Value equality, the numeric helper values_eq, or not recognised *)
Inductive eqhow := EQValue | EQNumeric | EQUnknown.
Inductive cvhow := CVEqual | CVNotEqual | CVOrd (accept : list comparison).

Definition fn_eqb (a b : fn) : bool := match a, b with FExpr, FExpr | FBinop, FBinop => true | _, _ => false end.
Definition cop_eqb (a b : cop) : bool :=
  match a, b with
  | OEq, OEq | ONotEq, ONotEq | OLt, OLt | OLe, OLe | OGt, OGt | OGe, OGe => true
  | _, _ => false
  end.
Definition vty_eqb (a b : vty) : bool :=
  match a, b with
  | TNull, TNull | TBool, TBool | TInt, TInt | TFloat, TFloat | TStr, TStr => true
  | _, _ => false
  end.
Definition cmp_eqb (a b : comparison) : bool :=
  match a, b with Eq, Eq | Lt, Lt | Gt, Gt => true | _, _ => false end.

(* `Ordering::is_lt` etc. / the meaning of the operator token on an ordering *)
Definition rel_test (r : rel) (c : comparison) : bool :=
  match r, c with
  | RLt, Lt => true
  | RLe, (Lt | Eq) => true
  | RGt, Gt => true
  | RGe, (Gt | Eq) => true
  | _, _ => false
  end.

(* the relation an ordering operator denotes *)
Definition rel_of_cop (o : cop) : option rel :=
  match o with OLt => Some RLt | OLe => Some RLe | OGt => Some RGt | OGe => Some RGe | _ => None end.
(* the same relation read with operands swapped: a r b <-> b (flip r) a *)
Definition rel_flip (r : rel) : rel :=
  match r with RLt => RGt | RLe => RGe | RGt => RLt | RGe => RLe end.
