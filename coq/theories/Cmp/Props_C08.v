(* C08 — numeric comparisons are mathematically correct for every int/float mix.
   Property theorems only (proofs: Proofs_C08.v).  All of them are statements about
   Model.eval_cmp / Model.compare_values, i.e. about the arm tables that translate/eval_arms.py
   regenerated from the Rust source for this run (Gen_EvalArms.v): a source change that drops an
   arm, swaps an operator token, or goes back to `as f64` makes these theorems fail to re-check.

   num_val v      the real number an operand denotes (IZR for Int, B2R for Float)
   finite_num v   v is an i64 or a finite binary64 (NaN / infinities are excluded: no real value)
   R_rel r x y    x < y, x <= y, x > y, x >= y on the reals *)
From Coq Require Import Reals.
From Flocq Require Import Core IEEE754.BinarySingleNaN.
From VP Require Import Base.Tactics Cmp.F64 Cmp.Arms Cmp.Gen_EvalArms Cmp.Model Cmp.Classes Cmp.Proofs_C08.

(* Known finding C08-binop-mixed-le-ge (known_findings.json): `<=` / `>=` between an Int and a Float
   evaluated through eval_binary_op (the `.pattern(..)` matcher path) has no arm, and two tests of the
   existing suite pin that result, so it is recorded rather than repaired. *)
Definition Known_C08_binop_mixed_le_ge (f : fn) (o : cop) (l r : value) : Prop :=
  binop_mixed_le_ge f o (ty_of l) (ty_of r) = true.

(* Outside the class, every ordering operator has an arm for every numeric operand-type pair, in both
   evaluators (eval_expr_with_functions and eval_binary_op): comparing two numbers always has a boolean
   value — also for NaN and infinities. *)
Theorem C08_total :
  forall (f : fn) (o : cop) (l r : value),
    In o [OLt; OLe; OGt; OGe] -> In (ty_of l) [TInt; TFloat] -> In (ty_of r) [TInt; TFloat] ->
    ~ Known_C08_binop_mixed_le_ge f o l r ->
    exists b, eval_cmp f o l r = Some (VBool b).
Proof.
  intros f o l r Ho Hl Hr NK. apply total_lemma; try assumption.
  unfold Known_C08_binop_mixed_le_ge in NK. destruct (binop_mixed_le_ge _ _ _ _); [exfalso; apply NK|]; reflexivity.
Qed.

(* Outside the class, for finite operands of any int/float mix, each of < <= > >= in both evaluators
   returns exactly the order of the operands' real values. *)
Theorem C08_order :
  forall (f : fn) (o : cop) (r : rel) (a b : value),
    rel_of_cop o = Some r -> finite_num a -> finite_num b ->
    ~ Known_C08_binop_mixed_le_ge f o a b ->
    exists t, eval_cmp f o a b = Some (VBool t) /\ (t = true <-> R_rel r (num_val a) (num_val b)).
Proof.
  intros f o r a b Hr Fa Fb NK. apply order_prop_lemma; try assumption.
  unfold Known_C08_binop_mixed_le_ge in NK. destruct (binop_mixed_le_ge _ _ _ _); [exfalso; apply NK|]; reflexivity.
Qed.

(* The class is real: 5 >= 4.0 through eval_binary_op has no value (the existing test
   binary_op_tests::ge_int_float_returns_none asserts exactly this). *)
Theorem C08_binop_mixed_le_ge_refuted :
  exists (f : fn) (o : cop) (a b : value),
    Known_C08_binop_mixed_le_ge f o a b /\ In o [OLt; OLe; OGt; OGe] /\ finite_num a /\ finite_num b /\
    ~ (exists t, eval_cmp f o a b = Some (VBool t)).
Proof.
  exists FBinop, OGe, (VInt 5), (VFloat (of_bits 4616189618054758400)).
  split; [reflexivity|]. split; [cbn; auto|]. split; [cbn; lia|]. split; [vm_compute; reflexivity|].
  intros [t H]. vm_compute in H. discriminate.
Qed.

(* The stream-expression evaluator (.where / .emit / .having) and the sequence-step comparison are
   never in the class: for them the statements hold without exception. *)
Theorem C08_expr_never_known :
  forall (o : cop) (l r : value), ~ Known_C08_binop_mixed_le_ge FExpr o l r.
Proof. intros o l r H. unfold Known_C08_binop_mixed_le_ge in H. cbn in H. discriminate. Qed.

(* The same for the SASE predicate comparison used by sequence-step filters (compare_values). *)
Theorem C08_order_sase :
  forall (o : cop) (r : rel) (a b : value),
    rel_of_cop o = Some r -> finite_num a -> finite_num b ->
    (compare_values a b o = true <-> R_rel r (num_val a) (num_val b)).
Proof.
  intros o r a b Hr Fa Fb. rewrite (order_sase_lemma o r a b Hr Fa Fb). apply rel_test_spec.
Qed.

(* a >= b holds exactly when a > b or the values are numerically equal *)
Theorem C08_ge_iff :
  forall (f : fn) (a b : value), finite_num a -> finite_num b ->
    ~ Known_C08_binop_mixed_le_ge f OGe a b ->
    (eval_cmp f OGe a b = Some (VBool true) <->
     eval_cmp f OGt a b = Some (VBool true) \/ num_val a = num_val b).
Proof.
  intros f a b Fa Fb NK. apply ge_iff_lemma; try assumption.
  unfold Known_C08_binop_mixed_le_ge in NK. destruct (binop_mixed_le_ge _ _ _ _); [exfalso; apply NK|]; reflexivity.
Qed.

(* The helper all mixed arms go through is the exact order of the integer and the float. *)
Theorem C08_cmp_int_float_exact :
  forall (i : Z) (x : f64), is_finite x = true -> (- 2 ^ 63 <= i < 2 ^ 63)%Z ->
    cmp_int_float i x = Some (Rcompare (IZR i) (B2R x)).
Proof. exact cmp_int_float_correct. Qed.

(* The hypotheses are satisfiable by the shapes the property names: 31.5 vs 30, and 2^53+1 vs 2^53 *)
Example C08_hyp_example :
  finite_num (VFloat (of_bits 4629559679448514560)) /\ finite_num (VInt 30) /\
  finite_num (VInt 9007199254740993) /\ finite_num (VFloat (of_bits 4845873199050653696)) /\
  eval_cmp FExpr OGe (VFloat (of_bits 4629559679448514560)) (VInt 30) = Some (VBool true) /\
  eval_cmp FBinop OGt (VInt 9007199254740993) (VFloat (of_bits 4845873199050653696)) = Some (VBool true) /\
  compare_values (VInt 9007199254740993) (VFloat (of_bits 4845873199050653696)) OLe = false.
Proof. repeat split; try (cbn; lia); vm_compute; reflexivity. Qed.
