(* C08 — numeric comparisons are mathematically correct for every int/float mix.
   Property theorems only (proofs: Proofs_C08.v).  All of them are statements about
   Model.eval_cmp / Model.compare_values, i.e. about the arm tables that translate/eval_arms.py
   regenerated from the Rust source for this run (Gen_EvalArms.v): a source change that drops an
   arm, swaps an operator token, or goes back to `as f64` makes these theorems fail to re-check.

   num_val v      the real number an operand denotes (IZR for Int, B2R for Float)
   finite_num v   v is an i64 or a finite binary64 (NaN / infinities are excluded: no real value)
   R_rel r x y    x < y, x <= y, x > y, x >= y on the reals *)
From Coq Require Import Reals.
From Flocq Require Import Core IEEE754.BinarySingleNaN.
From VP Require Import Base.Tactics Cmp.F64 Cmp.Arms Cmp.Gen_EvalArms Cmp.Model Cmp.Proofs_C08.

(* Every ordering operator has an arm for every numeric operand-type pair, in both evaluators
   (eval_expr_with_functions and eval_binary_op): comparing two numbers always has a boolean value —
   also for NaN and infinities. *)
Theorem C08_total :
  forall (f : fn) (o : cop) (l r : value),
    In o [OLt; OLe; OGt; OGe] -> In (ty_of l) [TInt; TFloat] -> In (ty_of r) [TInt; TFloat] ->
    exists b, eval_cmp f o l r = Some (VBool b).
Proof. exact total_lemma. Qed.

(* For finite operands of any int/float mix, each of < <= > >= in both evaluators returns exactly
   the order of the operands' real values. *)
Theorem C08_order :
  forall (f : fn) (o : cop) (r : rel) (a b : value),
    rel_of_cop o = Some r -> finite_num a -> finite_num b ->
    exists t, eval_cmp f o a b = Some (VBool t) /\ (t = true <-> R_rel r (num_val a) (num_val b)).
Proof. exact order_prop_lemma. Qed.

(* The same for the SASE predicate comparison used by sequence-step filters (compare_values). *)
Theorem C08_order_sase :
  forall (o : cop) (r : rel) (a b : value),
    rel_of_cop o = Some r -> finite_num a -> finite_num b ->
    (compare_values a b o = true <-> R_rel r (num_val a) (num_val b)).
Proof.
  intros o r a b Hr Fa Fb. rewrite (order_sase_lemma o r a b Hr Fa Fb). apply rel_test_spec.
Qed.

(* a >= b holds exactly when a > b or the values are numerically equal *)
Theorem C08_ge_iff :
  forall (f : fn) (a b : value), finite_num a -> finite_num b ->
    (eval_cmp f OGe a b = Some (VBool true) <->
     eval_cmp f OGt a b = Some (VBool true) \/ num_val a = num_val b).
Proof. exact ge_iff_lemma. Qed.

(* The helper all mixed arms go through is the exact order of the integer and the float. *)
Theorem C08_cmp_int_float_exact :
  forall (i : Z) (x : f64), is_finite x = true -> (- 2 ^ 63 <= i < 2 ^ 63)%Z ->
    cmp_int_float i x = Some (Rcompare (IZR i) (B2R x)).
Proof. exact cmp_int_float_correct. Qed.

(* The hypotheses are satisfiable by the shapes the property names: 31.5 vs 30, and 2^53+1 vs 2^53 *)
Example C08_hyp_example :
  finite_num (VFloat (of_bits 4629559679448514560)) /\ finite_num (VInt 30) /\
  finite_num (VInt 9007199254740993) /\ finite_num (VFloat (of_bits 4845873199050653696)) /\
  eval_cmp FExpr OGe (VFloat (of_bits 4629559679448514560)) (VInt 30) = Some (VBool true) /\
  eval_cmp FBinop OGt (VInt 9007199254740993) (VFloat (of_bits 4845873199050653696)) = Some (VBool true) /\
  compare_values (VInt 9007199254740993) (VFloat (of_bits 4845873199050653696)) OLe = false.
Proof. repeat split; try (cbn; lia); vm_compute; reflexivity. Qed.
