(* C08 property theorems (statements only; proofs in Proofs_C08.v). *)
From VP Require Import Base.Tactics Cmp.F64 Cmp.Arms Cmp.Gen_EvalArms Cmp.Model Cmp.Proofs_C08.

(* Every ordering operator has an arm for every numeric operand-type pair, in both evaluators:
   a comparison of two numbers always has a value. *)
Theorem C08_total :
  forall (f : fn) (o : cop) (l r : value),
    In o [OLt; OLe; OGt; OGe] -> In (ty_of l) [TInt; TFloat] -> In (ty_of r) [TInt; TFloat] ->
    exists b, eval_cmp f o l r = Some (VBool b).
Proof. exact total_lemma. Qed.
