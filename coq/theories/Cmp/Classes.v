(* Decidable input classes used by the C09 known findings (definitions only; the Known_C09_*
   propositions in Props.v are these functions = true).

   The boolean skeleton of a filter is what expr_to_sase_predicate translates structurally: the
   and / or / not nodes reachable from the root through and / or / not only.  Everything below a
   comparison (or any other node) is either one Predicate::Compare or is handed back to the VPL
   evaluator as Predicate::Expr.

   not_over_valueless f ev : the skeleton of f has a node `not g` where g has no boolean value on ev
                             (a field is missing, a comparison has no arm for the operand types,
                              g is not boolean).  `.where` then has no value (rejects); the SASE
                             predicate evaluates g to false and `not` makes it true.
   or_with_valueless f ev  : the skeleton has a node `a or b` where a or b has no boolean value on ev.
                             `.where` has no value (rejects); SASE takes the other side. *)
From VP Require Import Base.Tactics Cmp.F64 Cmp.Arms Cmp.Gen_EvalArms Cmp.Model.

Definition has_bool (e : expr) (ev : event) : bool :=
  match as_bool (eval e ev) with Some _ => true | None => false end.

Fixpoint not_over_valueless (f : expr) (ev : event) : bool :=
  match f with
  | ENot g => negb (has_bool g ev) || not_over_valueless g ev
  | ELog _ l r => not_over_valueless l ev || not_over_valueless r ev
  | _ => false
  end.

Fixpoint or_with_valueless (f : expr) (ev : event) : bool :=
  match f with
  | ELog LOr l r => negb (has_bool l ev) || negb (has_bool r ev) || or_with_valueless l ev || or_with_valueless r ev
  | ELog LAnd l r => or_with_valueless l ev || or_with_valueless r ev
  | ENot g => or_with_valueless g ev
  | _ => false
  end.

(* C08 known finding C08-binop-mixed-le-ge: `<=` / `>=` between an Int and a Float evaluated through
   eval_binary_op (eval_pattern_expr, i.e. the `.pattern(..)` matcher). That function has no arm for it
   (two existing tests pin `eval_binary_op(Ge|Le, Int, Float) == None`), so the comparison has no value. *)
Definition binop_mixed_le_ge (f : fn) (o : cop) (lt rt : vty) : bool :=
  match f, o, lt, rt with
  | FBinop, (OLe | OGe), TInt, TFloat | FBinop, (OLe | OGe), TFloat, TInt => true
  | _, _, _, _ => false
  end.
