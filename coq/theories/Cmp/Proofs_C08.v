(* Lemmas for C08. *)
From VP Require Import Base.Tactics Cmp.F64 Cmp.Arms Cmp.Gen_EvalArms Cmp.Model.

Definition num_tys : list vty := [TInt; TFloat].
Definition ord_ops : list cop := [OLt; OLe; OGt; OGe].

(* decidable form over the regenerated table: an arm exists and its combine fits the operand types *)
Definition combine_fits (c : combine) (lt rt : vty) : bool :=
  match c, lt, rt with
  | CDirect _, TInt, TInt | CDirect _, TFloat, TFloat | CDirect _, TStr, TStr => true
  | (CCastL _ | CExactL _), TInt, TFloat => true
  | (CCastR _ | CExactR _), TFloat, TInt => true
  | _, _, _ => false
  end.

Definition total_check : bool :=
  forallb (fun f => forallb (fun o => forallb (fun lt => forallb (fun rt =>
    match find_arm eval_arms f o lt rt with
    | Some a => combine_fits (a_how a) lt rt
    | None => false
    end) num_tys) num_tys) ord_ops) [FExpr; FBinop].

Lemma total_check_ok : total_check = true.
Proof. vm_compute. reflexivity. Qed.

Lemma apply_fits : forall c l r, combine_fits c (ty_of l) (ty_of r) = true -> exists b, apply_combine c l r = Some b.
Proof.
  intros c l r H. destruct c, l, r; cbn in H; try discriminate; cbn; eauto.
Qed.

Lemma total_lemma :
  forall (f : fn) (o : cop) (l r : value),
    In o [OLt; OLe; OGt; OGe] -> In (ty_of l) [TInt; TFloat] -> In (ty_of r) [TInt; TFloat] ->
    exists b, eval_cmp f o l r = Some (VBool b).
Proof.
  intros f o l r Ho Hl Hr.
  pose proof total_check_ok as T. unfold total_check in T.
  rewrite forallb_forall in T.
  assert (Hf : In f [FExpr; FBinop]) by (destruct f; cbn; auto).
  specialize (T f Hf). rewrite forallb_forall in T. specialize (T o Ho).
  rewrite forallb_forall in T. specialize (T _ Hl). rewrite forallb_forall in T. specialize (T _ Hr).
  unfold eval_cmp, eval_cmp_tbl.
  destruct (find_arm eval_arms f o (ty_of l) (ty_of r)) as [a|] eqn:E; [|discriminate].
  destruct (apply_fits _ _ _ T) as [b Hb].
  assert (Hoo : match o with OEq | ONotEq => False | _ => True end).
  { cbn in Ho. intuition subst; exact I. }
  destruct o; try contradiction; rewrite Hb; eauto.
Qed.
