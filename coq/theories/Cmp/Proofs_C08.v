(* Lemmas for C08: the exact integer/float comparison helper is the order of the real values;
   the regenerated arm tables use it (or a direct same-type comparison) in every numeric arm. *)
From Coq Require Import ZArith Reals Lia Lra Psatz.
From Flocq Require Import Core IEEE754.Binary IEEE754.Bits IEEE754.BinarySingleNaN.
From VP Require Import Base.Tactics Cmp.F64 Cmp.Arms Cmp.Gen_EvalArms Cmp.Model Cmp.Classes.
Local Open Scope Z_scope.

(* pure integer core: comparing i*q with +-m, through quotient and remainder *)
Lemma cmp_scaled_pos : forall i m q, 0 < q -> 0 <= m ->
  Z.compare (i * q) m =
  match Z.compare i (Z.quot m q) with
  | Eq => if Z.eqb (Z.rem m q) 0 then Eq else Lt
  | c => c
  end.
Proof.
  intros i m q Hq Hm.
  rewrite Z.quot_div_nonneg, Z.rem_mod_nonneg by lia.
  pose proof (Z.div_mod m q ltac:(lia)) as D.
  pose proof (Z.mod_pos_bound m q Hq) as B.
  destruct (Z.compare_spec i (m / q)) as [E|L|G].
  - subst i. destruct (Z.eqb_spec (m mod q) 0) as [Z0|NZ].
    + apply Z.compare_eq_iff. nia.
    + apply Z.compare_lt_iff. nia.
  - apply Z.compare_lt_iff. nia.
  - apply Z.compare_gt_iff. nia.
Qed.

Lemma cmp_scaled_neg : forall i m q, 0 < q -> 0 <= m ->
  Z.compare (i * q) (- m) =
  match Z.compare i (- Z.quot m q) with
  | Eq => if Z.eqb (Z.rem m q) 0 then Eq else Gt
  | c => c
  end.
Proof.
  intros i m q Hq Hm.
  rewrite Z.quot_div_nonneg, Z.rem_mod_nonneg by lia.
  pose proof (Z.div_mod m q ltac:(lia)) as D.
  pose proof (Z.mod_pos_bound m q Hq) as B.
  destruct (Z.compare_spec i (- (m / q))) as [E|L|G].
  - subst i. destruct (Z.eqb_spec (m mod q) 0) as [Z0|NZ].
    + apply Z.compare_eq_iff. nia.
    + apply Z.compare_gt_iff. nia.
  - apply Z.compare_lt_iff. nia.
  - apply Z.compare_gt_iff. nia.
Qed.
Lemma Rcompare_int_F2R_neg : forall i M p,
  Rcompare (IZR i) (F2R (Float radix2 M (Zneg p))) = Z.compare (i * Z.pow_pos 2 p) M.
Proof.
  intros i M p. unfold F2R. cbn [Fnum Fexp].
  rewrite <- (Rcompare_mult_r (bpow radix2 (Zpos p))) by apply bpow_gt_0.
  rewrite Rmult_assoc, <- bpow_plus.
  replace (Z.neg p + Z.pos p) with 0 by lia.
  cbn [bpow]. rewrite Rmult_1_r.
  rewrite <- mult_IZR. apply Rcompare_IZR.
Qed.

Lemma Rcompare_int_F2R_nonneg : forall i M e, 0 <= e ->
  Rcompare (IZR i) (F2R (Float radix2 M e)) = Z.compare i (M * 2 ^ e).
Proof.
  intros i M e He. unfold F2R. cbn [Fnum Fexp].
  rewrite <- IZR_Zpower by exact He. cbn [radix_val radix2].
  rewrite <- mult_IZR. apply Rcompare_IZR.
Qed.

Lemma trunc_frac_correct : forall s m e (H : SpecFloat.bounded 53 1024 m e = true) i,
  Rcompare (IZR i) (B2R (B754_finite s m e H : f64)) =
  match Z.compare i (trunc_Z (B754_finite s m e H)) with
  | Eq => frac_cmp (B754_finite s m e H)
  | c => c
  end.
Proof.
  intros s m e H i. cbn [B2R trunc_Z frac_cmp].
  assert (FIN : forall a b : comparison, a = b -> a = match b with Eq => Eq | Lt => Lt | Gt => Gt end)
    by (intros a b ->; destruct b; reflexivity).
  destruct e as [|p|p].
  - rewrite Rcompare_int_F2R_nonneg by lia. apply FIN. f_equal. destruct s; cbn [cond_Zopp]; lia.
  - rewrite Rcompare_int_F2R_nonneg by lia. apply FIN. f_equal.
    rewrite Z.pow_pos_fold. destruct s; cbn [cond_Zopp]; lia.
  - rewrite Rcompare_int_F2R_neg.
    assert (Q : 0 < Z.pow_pos 2 p) by (rewrite Z.pow_pos_fold; apply Z.pow_pos_nonneg; lia).
    destruct s; cbn [cond_Zopp].
    + change (Z.neg m) with (- Z.pos m).
      rewrite cmp_scaled_neg by lia.
      destruct (Z.compare i _); reflexivity.
    + rewrite cmp_scaled_pos by lia.
      destruct (Z.compare i _); reflexivity.
Qed.

Lemma two63_B2R : B2R f_two63 = IZR (2 ^ 63).
Proof.
  rewrite <- SF2R_B2SF.
  replace (B2SF f_two63) with (SpecFloat.S754_finite false 4503599627370496 11) by (vm_compute; reflexivity).
  cbn [SF2R cond_Zopp]. unfold F2R. cbn [Fnum Fexp].
  rewrite <- (IZR_Zpower radix2) by lia. rewrite <- mult_IZR. f_equal.
Qed.
Lemma neg_two63_B2R : B2R f_neg_two63 = IZR (- 2 ^ 63).
Proof.
  rewrite <- SF2R_B2SF.
  replace (B2SF f_neg_two63) with (SpecFloat.S754_finite true 4503599627370496 11) by (vm_compute; reflexivity).
  cbn [SF2R cond_Zopp]. unfold F2R. cbn [Fnum Fexp].
  rewrite <- (IZR_Zpower radix2) by lia. rewrite <- mult_IZR. f_equal.
Qed.
Lemma two63_finite : is_finite f_two63 = true /\ is_finite f_neg_two63 = true.
Proof. split; vm_compute; reflexivity. Qed.

Lemma cmp_int_float_correct : forall i (f : f64),
  is_finite f = true -> - 2 ^ 63 <= i < 2 ^ 63 ->
  cmp_int_float i f = Some (Rcompare (IZR i) (B2R f)).
Proof.
  intros i f Fin Hi. unfold cmp_int_float.
  assert (NN : f_is_nan f = false) by (destruct f; try discriminate; reflexivity).
  rewrite NN.
  unfold f_ge, f_lt, fcmp.
  rewrite (Bcompare_correct 53 1024 f f_two63 Fin (proj1 two63_finite)).
  rewrite (Bcompare_correct 53 1024 f f_neg_two63 Fin (proj2 two63_finite)).
  rewrite two63_B2R, neg_two63_B2R.
  assert (I1 : (IZR i < IZR (2 ^ 63))%R) by (apply IZR_lt; lia).
  assert (I2 : (IZR (- 2 ^ 63) <= IZR i)%R) by (apply IZR_le; lia).
  destruct (Rcompare_spec (B2R f) (IZR (2 ^ 63))) as [L|E|G].
  2:{ f_equal. symmetry. apply Rcompare_Lt. lra. }
  2:{ f_equal. symmetry. apply Rcompare_Lt. lra. }
  destruct (Rcompare_spec (B2R f) (IZR (- 2 ^ 63))) as [L2|E2|G2].
  { f_equal. symmetry. apply Rcompare_Gt. lra. }
  - destruct f as [s| |  |s m e H]; try discriminate.
    + cbn [B2R trunc_Z frac_cmp]. rewrite (Rcompare_IZR i 0).
      destruct (Z.compare i 0); reflexivity.
    + rewrite trunc_frac_correct. destruct (Z.compare i _); reflexivity.
  - destruct f as [s| |  |s m e H]; try discriminate.
    + cbn [B2R trunc_Z frac_cmp]. rewrite (Rcompare_IZR i 0).
      destruct (Z.compare i 0); reflexivity.
    + rewrite trunc_frac_correct. destruct (Z.compare i _); reflexivity.
Qed.

(* ------------------------------------------------------------------ values as reals *)
Definition num_val (v : value) : R :=
  match v with VInt z => IZR z | VFloat f => B2R f | _ => 0%R end.
(* a finite numeric operand: an i64, or a finite binary64 *)
Definition finite_num (v : value) : Prop :=
  match v with
  | VInt z => - 2 ^ 63 <= z < 2 ^ 63
  | VFloat f => is_finite f = true
  | _ => False
  end.
(* the relation an operator token denotes on the reals *)
Definition R_rel (r : rel) (x y : R) : Prop :=
  match r with RLt => (x < y)%R | RLe => (x <= y)%R | RGt => (x > y)%R | RGe => (x >= y)%R end.

Lemma rel_test_spec : forall r x y, rel_test r (Rcompare x y) = true <-> R_rel r x y.
Proof.
  intros r x y. destruct (Rcompare_spec x y); destruct r; cbn; split; intro; try lra; try discriminate; try reflexivity.
Qed.

Lemma rel_test_flip : forall r c, rel_test (rel_flip r) c = rel_test r (CompOpp c).
Proof. intros [] []; reflexivity. Qed.

Definition rel_eqb (a b : rel) : bool :=
  match a, b with RLt, RLt | RLe, RLe | RGt, RGt | RGe, RGe => true | _, _ => false end.
Lemma rel_eqb_eq : forall a b, rel_eqb a b = true -> a = b.
Proof. intros [] []; cbn; congruence. Qed.

Definition num_tys : list vty := [TInt; TFloat].
Definition ord_ops : list cop := [OLt; OLe; OGt; OGe].

Definition tbl_forall (P : fn -> cop -> vty -> vty -> bool) : bool :=
  forallb (fun f => forallb (fun o => forallb (fun lt => forallb (fun rt => P f o lt rt) num_tys) num_tys) ord_ops) [FExpr; FBinop].

(* ---------------------------------------------------------------- totality (table) *)
Definition combine_fits (c : combine) (lt rt : vty) : bool :=
  match c, lt, rt with
  | CDirect _, TInt, TInt | CDirect _, TFloat, TFloat | CDirect _, TStr, TStr => true
  | (CCastL _ | CExactL _), TInt, TFloat => true
  | (CCastR _ | CExactR _), TFloat, TInt => true
  | _, _, _ => false
  end.

Definition total_P (f : fn) (o : cop) (lt rt : vty) : bool :=
  binop_mixed_le_ge f o lt rt ||
  match find_arm eval_arms f o lt rt with
  | Some a => combine_fits (a_how a) lt rt
  | None => false
  end.
Definition total_check : bool := tbl_forall total_P.

Lemma total_check_ok : total_check = true.
Proof. vm_compute. reflexivity. Qed.

Lemma apply_fits : forall c l r, combine_fits c (ty_of l) (ty_of r) = true -> exists b, apply_combine c l r = Some b.
Proof.
  intros c l r H. destruct c, l, r; cbn in H; try discriminate; cbn; eauto.
Qed.

Lemma table4 : forall (P : fn -> cop -> vty -> vty -> bool) f o lt rt,
  tbl_forall P = true ->
  In o ord_ops -> In lt num_tys -> In rt num_tys -> P f o lt rt = true.
Proof.
  intros P f o lt rt T Ho Hl Hr. unfold tbl_forall in T.
  rewrite forallb_forall in T.
  assert (Hf : In f [FExpr; FBinop]) by (destruct f; cbn; auto).
  specialize (T f Hf). rewrite forallb_forall in T. specialize (T o Ho).
  rewrite forallb_forall in T. specialize (T _ Hl). rewrite forallb_forall in T. exact (T _ Hr).
Qed.

Lemma ord_not_eq : forall o, In o ord_ops -> match o with OEq | ONotEq => False | _ => True end.
Proof. intros o Ho. cbn in Ho. intuition subst; exact I. Qed.

Lemma total_lemma :
  forall (f : fn) (o : cop) (l r : value),
    In o [OLt; OLe; OGt; OGe] -> In (ty_of l) [TInt; TFloat] -> In (ty_of r) [TInt; TFloat] ->
    binop_mixed_le_ge f o (ty_of l) (ty_of r) = false ->
    exists b, eval_cmp f o l r = Some (VBool b).
Proof.
  intros f o l r Ho Hl Hr NK.
  pose proof (table4 total_P f o _ _ total_check_ok Ho Hl Hr) as T. unfold total_P in T.
  rewrite NK in T. cbn [orb] in T.
  unfold eval_cmp, eval_cmp_tbl.
  destruct (find_arm eval_arms f o (ty_of l) (ty_of r)) as [a|] eqn:E; [|discriminate].
  destruct (apply_fits _ _ _ T) as [b Hb].
  pose proof (ord_not_eq o Ho) as Hoo.
  destruct o; try contradiction; rewrite Hb; eauto.
Qed.

(* ------------------------------------------------------------- exactness (table) *)
Definition arm_exact (o : cop) (lt rt : vty) (c : combine) : bool :=
  match rel_of_cop o with
  | None => false
  | Some r =>
      match lt, rt, c with
      | TInt, TInt, CDirect r' | TFloat, TFloat, CDirect r' | TInt, TFloat, CExactL r' => rel_eqb r r'
      | TFloat, TInt, CExactR r' => rel_eqb (rel_flip r) r'
      | _, _, _ => false
      end
  end.

Definition order_P (f : fn) (o : cop) (lt rt : vty) : bool :=
  binop_mixed_le_ge f o lt rt ||
  match find_arm eval_arms f o lt rt with
  | Some a => arm_exact o lt rt (a_how a)
  | None => false
  end.
Definition order_check : bool := tbl_forall order_P.

Lemma order_check_ok : order_check = true.
Proof. vm_compute. reflexivity. Qed.

Lemma num_ty : forall v, finite_num v -> In (ty_of v) num_tys.
Proof. intros [] H; cbn in *; try contradiction; auto. Qed.

Lemma fcmp_correct : forall a b : f64, is_finite a = true -> is_finite b = true ->
  fcmp a b = Some (Rcompare (B2R a) (B2R b)).
Proof. intros a b Ha Hb. apply Bcompare_correct; assumption. Qed.

Lemma apply_exact : forall o r c a b,
  rel_of_cop o = Some r -> arm_exact o (ty_of a) (ty_of b) c = true ->
  finite_num a -> finite_num b ->
  apply_combine c a b = Some (rel_test r (Rcompare (num_val a) (num_val b))).
Proof.
  intros o r c a b Hr Hx Fa Fb. unfold arm_exact in Hx. rewrite Hr in Hx.
  destruct a as [| |x|x|]; cbn in Fa; try contradiction;
  destruct b as [| |y|y|]; cbn in Fb; try contradiction;
  cbn [ty_of] in Hx; destruct c as [r'|r'|r'|r'|r']; try discriminate;
  apply rel_eqb_eq in Hx; subst r'; cbn [apply_combine num_val].
  - rewrite Rcompare_IZR. reflexivity.
  - rewrite cmp_int_float_correct by assumption. reflexivity.
  - rewrite cmp_int_float_correct by assumption. cbn [opt_test].
    rewrite rel_test_flip. rewrite <- Rcompare_sym. reflexivity.
  - unfold f_rel. rewrite fcmp_correct by assumption. reflexivity.
Qed.

Lemma order_lemma : forall (f : fn) (o : cop) (r : rel) (a b : value),
  rel_of_cop o = Some r -> finite_num a -> finite_num b ->
  binop_mixed_le_ge f o (ty_of a) (ty_of b) = false ->
  eval_cmp f o a b = Some (VBool (rel_test r (Rcompare (num_val a) (num_val b)))).
Proof.
  intros f o r a b Hr Fa Fb NK.
  assert (Ho : In o ord_ops) by (destruct o; cbn in Hr; try discriminate; cbn; auto 10).
  pose proof (table4 order_P f o _ _ order_check_ok Ho (num_ty _ Fa) (num_ty _ Fb)) as T. unfold order_P in T.
  rewrite NK in T. cbn [orb] in T.
  unfold eval_cmp, eval_cmp_tbl.
  destruct (find_arm eval_arms f o (ty_of a) (ty_of b)) as [arm|] eqn:E; [|discriminate].
  rewrite (apply_exact o r _ a b Hr T Fa Fb).
  destruct o; cbn in Hr; try discriminate; reflexivity.
Qed.

Lemma order_prop_lemma : forall (f : fn) (o : cop) (r : rel) (a b : value),
  rel_of_cop o = Some r -> finite_num a -> finite_num b ->
  binop_mixed_le_ge f o (ty_of a) (ty_of b) = false ->
  exists t, eval_cmp f o a b = Some (VBool t) /\ (t = true <-> R_rel r (num_val a) (num_val b)).
Proof.
  intros f o r a b Hr Fa Fb NK. eexists. split; [apply (order_lemma f o r a b Hr Fa Fb NK)|apply rel_test_spec].
Qed.

Lemma gt_never_known : forall f lt rt, binop_mixed_le_ge f OGt lt rt = false.
Proof. intros [] [] []; reflexivity. Qed.

Lemma ge_iff_lemma : forall (f : fn) (a b : value), finite_num a -> finite_num b ->
  binop_mixed_le_ge f OGe (ty_of a) (ty_of b) = false ->
  (eval_cmp f OGe a b = Some (VBool true) <->
   eval_cmp f OGt a b = Some (VBool true) \/ num_val a = num_val b).
Proof.
  intros f a b Fa Fb NK.
  rewrite (order_lemma f OGe RGe a b eq_refl Fa Fb NK), (order_lemma f OGt RGt a b eq_refl Fa Fb (gt_never_known _ _ _)).
  destruct (Rcompare_spec (num_val a) (num_val b)) as [L|E|G]; cbn [rel_test]; split; intro H.
  - discriminate.
  - destruct H as [H|H]; [discriminate|lra].
  - right; exact E.
  - reflexivity.
  - left; reflexivity.
  - reflexivity.
Qed.

(* ------------------------------------------------------------ SASE compare_values *)
Definition vc_expected (lt rt : vty) : option vchow :=
  match lt, rt with
  | TInt, TInt => Some VCIntCmp | TFloat, TFloat => Some VCFloatPartial
  | TInt, TFloat => Some VCExactL | TFloat, TInt => Some VCExactRRev
  | _, _ => None
  end.
Definition vchow_eqb (a b : vchow) : bool :=
  match a, b with
  | VCIntCmp, VCIntCmp | VCFloatPartial, VCFloatPartial | VCCastL, VCCastL | VCCastR, VCCastR
  | VCExactL, VCExactL | VCExactRRev, VCExactRRev | VCStrCmp, VCStrCmp => true
  | _, _ => false
  end.
Lemma vchow_eqb_eq : forall a b, vchow_eqb a b = true -> a = b.
Proof. intros [] []; cbn; congruence. Qed.

Definition sase_vc_check : bool :=
  forallb (fun lt => forallb (fun rt =>
    match vc_find vc_arms lt rt, vc_expected lt rt with
    | Some h, Some h' => vchow_eqb h h'
    | _, _ => false
    end) num_tys) num_tys.
Definition sase_cv_check : bool :=
  forallb (fun o =>
    match cv_find cv_arms o, rel_of_cop o with
    | Some (CVOrd acc), Some r => forallb (fun c => Bool.eqb (existsb (cmp_eqb c) acc) (rel_test r c)) [Eq; Lt; Gt]
    | _, _ => false
    end) ord_ops.
Lemma sase_vc_check_ok : sase_vc_check = true. Proof. vm_compute. reflexivity. Qed.
Lemma sase_cv_check_ok : sase_cv_check = true. Proof. vm_compute. reflexivity. Qed.

Lemma values_compare_exact : forall a b, finite_num a -> finite_num b ->
  values_compare a b = Some (Rcompare (num_val a) (num_val b)).
Proof.
  intros a b Fa Fb.
  pose proof sase_vc_check_ok as T. unfold sase_vc_check in T.
  rewrite forallb_forall in T. specialize (T _ (num_ty _ Fa)).
  rewrite forallb_forall in T. specialize (T _ (num_ty _ Fb)).
  unfold values_compare, values_compare_tbl.
  destruct (vc_find vc_arms (ty_of a) (ty_of b)) as [h|]; [|discriminate].
  destruct a as [| |x|x|]; cbn in Fa; try contradiction;
  destruct b as [| |y|y|]; cbn in Fb; try contradiction;
  cbn [ty_of vc_expected] in T; apply vchow_eqb_eq in T; subst h; cbn [num_val].
  - rewrite Rcompare_IZR. reflexivity.
  - apply cmp_int_float_correct; assumption.
  - rewrite cmp_int_float_correct by assumption. cbn [option_map]. rewrite <- Rcompare_sym. reflexivity.
  - apply fcmp_correct; assumption.
Qed.

Lemma order_sase_lemma : forall (o : cop) (r : rel) (a b : value),
  rel_of_cop o = Some r -> finite_num a -> finite_num b ->
  compare_values a b o = rel_test r (Rcompare (num_val a) (num_val b)).
Proof.
  intros o r a b Hr Fa Fb.
  assert (Ho : In o ord_ops) by (destruct o; cbn in Hr; try discriminate; cbn; auto 10).
  pose proof sase_cv_check_ok as T. unfold sase_cv_check in T.
  rewrite forallb_forall in T. specialize (T _ Ho). rewrite Hr in T.
  unfold compare_values, compare_values_tbl.
  destruct (cv_find cv_arms o) as [[| |acc]|]; try discriminate.
  fold (values_compare a b). rewrite (values_compare_exact a b Fa Fb).
  rewrite forallb_forall in T.
  specialize (T (Rcompare (num_val a) (num_val b))).
  apply Bool.eqb_prop. apply T. destruct (Rcompare _ _); cbn; auto.
Qed.
