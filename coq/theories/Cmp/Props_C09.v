(* C09 — a filter selects the same events in a stream `.where` and in a sequence-pattern step.
   Property theorems only (proofs: Proofs_C09.v).

   where_accepts f ev  = engine/pipeline.rs WhereExpr closure on the VPL evaluator (Model.eval)
   step_accepts  f ev  = compiler.rs expr_to_sase_predicate followed by sase.rs eval_predicate
   Both go through the arm tables regenerated from the Rust source for this run.

   Two genuine disagreement classes are recorded in known_findings.json (the two evaluators use
   different logics: the VPL evaluator is three-valued and strict, the SASE predicate is two-valued).
   They are stated here as decidable classes of inputs; outside them the two paths agree for every
   filter and every event, and each class is shown non-empty and really disagreeing by a witness. *)
From VP Require Import Base.Tactics Cmp.F64 Cmp.Arms Cmp.Gen_EvalArms Cmp.Model Cmp.Classes Cmp.Proofs_C09.

(* class C09-not-over-valueless *)
Definition Known_C09_not (f : expr) (ev : event) : Prop := not_over_valueless f ev = true.
(* class C09-or-with-valueless-side *)
Definition Known_C09_or (f : expr) (ev : event) : Prop := or_with_valueless f ev = true.

Theorem C09_agree :
  forall (f : expr) (ev : event),
    ~ Known_C09_not f ev -> ~ Known_C09_or f ev ->
    where_accepts f ev = step_accepts f ev.
Proof.
  intros f ev HN HO. apply agree_lemma.
  - unfold Known_C09_not in HN. destruct (not_over_valueless f ev); [exfalso; apply HN; reflexivity|reflexivity].
  - unfold Known_C09_or in HO. destruct (or_with_valueless f ev); [exfalso; apply HO; reflexivity|reflexivity].
Qed.

(* no filter of the modelled fragment loses its predicate (a step without predicate accepts everything) *)
Theorem C09_translation_total : forall f : expr, exists p, to_pred f = Some p.
Proof. exact to_pred_total. Qed.

(* `not (f0 > 5)` on an event without f0: .where rejects, the step accepts *)
Theorem C09_not_refuted :
  exists f ev, Known_C09_not f ev /\ where_accepts f ev <> step_accepts f ev.
Proof.
  exists (ENot (ECmp OGt (EIdent 0%N) (EInt 5))), []. split; [reflexivity|vm_compute; discriminate].
Qed.

(* `f0 > 5 or f1 > 5` on {f0: 10} without f1: .where rejects, the step accepts *)
Theorem C09_or_refuted :
  exists f ev, Known_C09_or f ev /\ where_accepts f ev <> step_accepts f ev.
Proof.
  exists (ELog LOr (ECmp OGt (EIdent 0%N) (EInt 5)) (ECmp OGt (EIdent 1%N) (EInt 5))), [(0%N, VInt 10)].
  split; [reflexivity|vm_compute; discriminate].
Qed.

(* the hypotheses of C09_agree hold on non-trivial inputs: a three-level filter with and/or/not on an
   event where every sub-filter has a value, accepted by both paths; and a mixed int/float equality *)
Example C09_hyp_example :
  let f := ELog LAnd (ENot (ECmp OLt (EIdent 0%N) (EInt 5)))
                     (ELog LOr (ECmp OEq (EIdent 1%N) (EStr [97%N])) (ECmp OGe (EIdent 0%N) (EFloat (of_bits 4629137466983448576)))) in
  let ev := [(0%N, VFloat (of_bits 4629559679448514560)); (1%N, VStr [98%N])] in
  ~ Known_C09_not f ev /\ ~ Known_C09_or f ev /\ where_accepts f ev = true /\ step_accepts f ev = true /\
  ~ Known_C09_not (ECmp OEq (EIdent 0%N) (EInt 3)) [(0%N, VFloat (of_bits 4613937818241073152))].
Proof. repeat split; try (vm_compute; reflexivity); vm_compute; discriminate. Qed.
