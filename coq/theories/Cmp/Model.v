(* Executable model of the comparison / filter code paths (C08, C09).  Definitions only.

   Rust function                                              model
   ---------------------------------------------------------  ---------------------------
   varpulis_core::value  float_eq, impl PartialEq for Value    float_eqb, value_eqb
   engine/evaluator.rs   cmp_int_float (exact helper)          cmp_int_float
   engine/evaluator.rs   values_eq (numeric equality helper)   numeric_eqb
   engine/evaluator.rs   eval_expr_with_functions              eval  (Ident, literals, Binary, Unary)
        Expr::Binary arms  BinOp::{Lt,Le,Gt,Ge}                eval_cmp FExpr  (through Gen_EvalArms.eval_arms)
        BinOp::{Eq,NotEq,And,Or}, UnaryOp::{Not,Neg}           eval_bin / eval
   engine/evaluator.rs   eval_binary_op                        eval_cmp FBinop (through Gen_EvalArms.eval_arms)
   engine/pipeline.rs    RuntimeOp::WhereExpr closure          where_accepts
   engine/compiler.rs    expr_to_value, expr_to_sase_predicate to_value, to_pred
   sase.rs               values_compare / values_equal /       values_compare / values_equal /
                         compare_values / eval_predicate       compare_values / eval_pred
   sase.rs               event_matches_state (predicate part)  step_accepts

   The (operator, left type, right type) dispatch of both evaluators and of the three SASE helpers is
   not written here: it is read from the tables in Gen_EvalArms.v, which translate/eval_arms.py
   regenerates from the Rust source on every run.  Not modelled: CompareRef predicates (references to
   earlier captured events), arithmetic, calls, arrays/maps, timestamps/durations. *)
From Coq Require Import String.
From VP Require Import Base.Tactics Cmp.F64 Cmp.Arms Cmp.Gen_EvalArms.
From Flocq Require Import IEEE754.BinarySingleNaN.
Local Open Scope Z_scope.

(* ---------------------------------------------------------------- values *)
Inductive value :=
| VNull | VBool (b : bool) | VInt (z : Z) | VFloat (f : f64) | VStr (s : list N) (* UTF-8 bytes *).

Definition ty_of (v : value) : vty :=
  match v with VNull => TNull | VBool _ => TBool | VInt _ => TInt | VFloat _ => TFloat | VStr _ => TStr end.

Fixpoint bytes_cmp (a b : list N) : comparison :=
  match a, b with
  | [], [] => Eq
  | [], _ :: _ => Lt
  | _ :: _, [] => Gt
  | x :: a', y :: b' => match N.compare x y with Eq => bytes_cmp a' b' | c => c end
  end.
Definition bytes_eqb (a b : list N) : bool := cmp_eqb (bytes_cmp a b) Eq.

(* varpulis-core value.rs float_eq: NaN == NaN, -0.0 == 0.0, otherwise IEEE == *)
Definition float_eqb (a b : f64) : bool :=
  if f_is_nan a && f_is_nan b then true
  else if f_is_zero a && f_is_zero b then true
  else f_eq a b.

(* impl PartialEq for Value (scalar variants) *)
Definition value_eqb (a b : value) : bool :=
  match a, b with
  | VNull, VNull => true
  | VBool x, VBool y => Bool.eqb x y
  | VInt x, VInt y => Z.eqb x y
  | VFloat x, VFloat y => float_eqb x y
  | VStr x, VStr y => bytes_eqb x y
  | _, _ => false
  end.

(* ------------------------------------------------- exact int/float order *)
(* evaluator.rs cmp_int_float(i, f):
     if f.is_nan() { None } else if f >= 2^63 { Less } else if f < -2^63 { Greater }
     else { let t = f.trunc(); match i.cmp(&(t as i64)) { Equal => t.partial_cmp(&f), o => Some(o) } } *)
Definition cmp_int_float (i : Z) (f : f64) : option comparison :=
  if f_is_nan f then None
  else if f_ge f f_two63 then Some Lt
  else if f_lt f f_neg_two63 then Some Gt
  else match Z.compare i (trunc_Z f) with
       | Eq => Some (frac_cmp f)
       | c => Some c
       end.

Definition opt_test (r : rel) (o : option comparison) : bool :=
  match o with Some c => rel_test r c | None => false end.

(* Rust's `a r b` on two f64 *)
Definition f_rel (r : rel) (a b : f64) : bool := opt_test r (fcmp a b).

(* evaluator.rs values_eq: Value equality, except Int vs Float = same number *)
Definition numeric_eqb (l r : value) : bool :=
  match l, r with
  | VInt i, VFloat f | VFloat f, VInt i =>
      match cmp_int_float i f with Some Eq => true | _ => false end
  | _, _ => value_eqb l r
  end.

Definition eq_by (h : eqhow) (l r : value) : option bool :=
  match h with
  | EQValue => Some (value_eqb l r)
  | EQNumeric => Some (numeric_eqb l r)
  | EQUnknown => None
  end.

(* ------------------------------------------ the two evaluators' arm tables *)
Definition apply_combine (c : combine) (l r : value) : option bool :=
  match c, l, r with
  | CDirect rl, VInt a, VInt b => Some (rel_test rl (Z.compare a b))
  | CDirect rl, VFloat a, VFloat b => Some (f_rel rl a b)
  | CDirect rl, VStr a, VStr b => Some (rel_test rl (bytes_cmp a b))
  | CCastL rl, VInt a, VFloat b => Some (f_rel rl (of_int a) b)
  | CCastR rl, VFloat a, VInt b => Some (f_rel rl a (of_int b))
  | CExactL rl, VInt a, VFloat b => Some (opt_test rl (cmp_int_float a b))
  | CExactR rl, VFloat a, VInt b => Some (opt_test rl (cmp_int_float b a))
  | _, _, _ => None
  end.

Definition find_arm (tbl : list arm) (f : fn) (o : cop) (lt rt : vty) : option arm :=
  find (fun a => fn_eqb (a_fn a) f && cop_eqb (a_op a) o && vty_eqb (a_lt a) lt && vty_eqb (a_rt a) rt) tbl.

(* result of `l o r` in evaluator f, given the arm table; None = "no value" *)
Definition eval_cmp_tbl (tbl : list arm) (f : fn) (o : cop) (l r : value) : option value :=
  match o with
  | OEq => option_map VBool (eq_by (match f with FExpr => expr_eq_how | FBinop => binop_eq_how end) l r)
  | ONotEq => option_map (fun b => VBool (negb b)) (eq_by (match f with FExpr => expr_ne_how | FBinop => binop_ne_how end) l r)
  | _ =>
      match find_arm tbl f o (ty_of l) (ty_of r) with
      | Some a => match apply_combine (a_how a) l r with Some b => Some (VBool b) | None => None end
      | None => None
      end
  end.
Definition eval_cmp := eval_cmp_tbl eval_arms.

(* ------------------------------------------------------- SASE comparisons *)
Definition vc_find (tbl : list (vty * vty * vchow)) (lt rt : vty) : option vchow :=
  match find (fun x => vty_eqb (fst (fst x)) lt && vty_eqb (snd (fst x)) rt) tbl with
  | Some x => Some (snd x) | None => None
  end.

Definition values_compare_tbl (tbl : list (vty * vty * vchow)) (l r : value) : option comparison :=
  match vc_find tbl (ty_of l) (ty_of r), l, r with
  | Some VCIntCmp, VInt a, VInt b => Some (Z.compare a b)
  | Some VCFloatPartial, VFloat a, VFloat b => fcmp a b
  | Some VCCastL, VInt a, VFloat b => fcmp (of_int a) b
  | Some VCCastR, VFloat a, VInt b => fcmp a (of_int b)
  | Some VCExactL, VInt a, VFloat b => cmp_int_float a b
  | Some VCExactRRev, VFloat a, VInt b => option_map CompOpp (cmp_int_float b a)
  | Some VCStrCmp, VStr a, VStr b => Some (bytes_cmp a b)
  | _, _, _ => None
  end.
Definition values_compare := values_compare_tbl vc_arms.

Definition ve_find (tbl : list (vty * vty * vehow)) (lt rt : vty) : option vehow :=
  match find (fun x => vty_eqb (fst (fst x)) lt && vty_eqb (snd (fst x)) rt) tbl with
  | Some x => Some (snd x) | None => None
  end.

(* (a - b).abs() < f64::EPSILON *)
Definition eps_close (a b : f64) : bool := f_lt (f_abs (f_sub a b)) f_epsilon.

Definition values_equal_body (bd : vebody) (l r : value) : bool :=
  match bd with
  | VEValueEqAll => value_eqb l r
  | VENumericAll => numeric_eqb l r
  | VEArms tbl =>
      match ve_find tbl (ty_of l) (ty_of r), l, r with
      | Some VEDirectEq, VInt a, VInt b => Z.eqb a b
      | Some VEDirectEq, VStr a, VStr b => bytes_eqb a b
      | Some VEDirectEq, VBool a, VBool b => Bool.eqb a b
      | Some VEFloatEps, VFloat a, VFloat b => eps_close a b
      | Some VEMixedEps, VInt a, VFloat b => eps_close (of_int a) b
      | Some VEMixedEps, VFloat b, VInt a => eps_close (of_int a) b
      | _, _, _ => false
      end
  end.
Definition values_equal := values_equal_body ve_body.

Definition cv_find (tbl : list (cop * cvhow)) (o : cop) : option cvhow :=
  match find (fun x => cop_eqb (fst x) o) tbl with Some x => Some (snd x) | None => None end.

Definition compare_values_tbl (cv : list (cop * cvhow)) (vc : list (vty * vty * vchow)) (ve : vebody)
           (l r : value) (o : cop) : bool :=
  match cv_find cv o with
  | Some CVEqual => values_equal_body ve l r
  | Some CVNotEqual => negb (values_equal_body ve l r)
  | Some (CVOrd acc) =>
      match values_compare_tbl vc l r with
      | Some c => existsb (cmp_eqb c) acc
      | None => false
      end
  | None => false
  end.
Definition compare_values := compare_values_tbl cv_arms vc_arms ve_body.

(* ------------------------------------------------------------ expressions *)
Inductive lop := LAnd | LOr.
Inductive expr :=
| EIdent (name : N)
| EInt (z : Z) | EFloat (f : f64) | EStr (s : list N) | EBool (b : bool) | ENull
| ECmp (o : cop) (l r : expr)
| ELog (o : lop) (l r : expr)
| ENot (e : expr)
| ENeg (e : expr).

Definition event := list (N * value).   (* field name (interned) -> value; first binding wins *)

Fixpoint lookup (ev : event) (n : N) : option value :=
  match ev with
  | [] => None
  | (k, v) :: r => if N.eqb k n then Some v else lookup r n
  end.

Definition as_bool (o : option value) : option bool :=
  match o with Some (VBool b) => Some b | _ => None end.

(* eval_expr_with_functions with empty bindings / functions / sequence context *)
Fixpoint eval (e : expr) (ev : event) : option value :=
  match e with
  | EIdent n => lookup ev n
  | EInt z => Some (VInt z)
  | EFloat f => Some (VFloat f)
  | EStr s => Some (VStr s)
  | EBool b => Some (VBool b)
  | ENull => Some VNull
  | ECmp o l r =>
      match eval l ev with
      | None => None
      | Some a => match eval r ev with
                  | None => None
                  | Some b => eval_cmp FExpr o a b
                  end
      end
  | ELog o l r =>
      match eval l ev with
      | None => None
      | Some a =>
          match eval r ev with
          | None => None
          | Some b =>
              match o with
              | LAnd => if expr_and_strict
                        then match as_bool (Some a), as_bool (Some b) with
                             | Some x, Some y => Some (VBool (x && y)) | _, _ => None end
                        else None
              | LOr => if expr_or_strict
                       then match as_bool (Some a), as_bool (Some b) with
                            | Some x, Some y => Some (VBool (x || y)) | _, _ => None end
                       else None
              end
          end
      end
  | ENot i =>
      match eval i ev with
      | Some (VBool b) => if expr_not_bool_only then Some (VBool (negb b)) else None
      | _ => None
      end
  | ENeg i =>
      match eval i ev with
      | Some (VInt n) => Some (VInt (- n))
      | Some (VFloat f) => Some (VFloat (f_neg f))
      | _ => None
      end
  end.

(* pipeline.rs WhereExpr: eval(..).and_then(as_bool).unwrap_or(false) *)
Definition where_accepts (f : expr) (ev : event) : bool :=
  match as_bool (eval f ev) with Some b => b | None => false end.

(* --------------------------------------------------------- SASE predicates *)
Inductive pred :=
| PCompare (field : N) (o : cop) (v : value)
| PAnd (a b : pred) | POr (a b : pred) | PNot (a : pred)
| PExpr (e : expr).

(* compiler.rs expr_to_value *)
Definition to_value (e : expr) : option value :=
  match e with
  | EInt z => Some (VInt z) | EFloat f => Some (VFloat f) | EStr s => Some (VStr s) | EBool b => Some (VBool b)
  | _ => None
  end.

(* compiler.rs expr_to_sase_predicate *)
Fixpoint to_pred (e : expr) : option pred :=
  match e with
  | ELog LAnd l r => match to_pred l, to_pred r with Some a, Some b => Some (PAnd a b) | _, _ => None end
  | ELog LOr l r => match to_pred l, to_pred r with Some a, Some b => Some (POr a b) | _, _ => None end
  | ECmp o l r =>
      match l with
      | EIdent name => match to_value r with
                       | Some v => Some (PCompare name o v)
                       | None => Some (PExpr e)
                       end
      | _ => Some (PExpr e)
      end
  | ENot i => match to_pred i with Some p => Some (PNot p) | None => None end
  | _ => Some (PExpr e)
  end.

(* sase.rs eval_predicate (no captured events) *)
Fixpoint eval_pred (p : pred) (ev : event) : bool :=
  match p with
  | PCompare f o v => match lookup ev f with Some x => compare_values x v o | None => false end
  | PAnd a b => eval_pred a ev && eval_pred b ev
  | POr a b => eval_pred a ev || eval_pred b ev
  | PNot a => negb (eval_pred a ev)
  | PExpr e => match as_bool (eval e ev) with Some b => b | None => false end
  end.

(* sase.rs event_matches_state, predicate part: a step without predicate accepts *)
Definition step_accepts (f : expr) (ev : event) : bool :=
  match to_pred f with Some p => eval_pred p ev | None => true end.
