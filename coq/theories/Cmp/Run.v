(* Rendering of model observables for the correspondence checks (one string per case). *)
From Coq Require Import String.
From VP Require Import Base.Tactics Base.Render Cmp.F64 Cmp.Arms Cmp.Gen_EvalArms Cmp.Model.
Open Scope string_scope.

Definition all_cops : list cop := [OLt; OLe; OGt; OGe; OEq; ONotEq].

Definition ch_of_optval (o : option value) : string :=
  match o with
  | None => "n"
  | Some (VBool true) => "t"
  | Some (VBool false) => "f"
  | Some _ => "?"
  end.
Definition ch_of_bool (b : bool) : string := if b then "t" else "f".

(* C08: every operator x {Expr::Binary arms, eval_binary_op, SASE compare_values} on one operand pair;
   order of operators: Lt Le Gt Ge Eq NotEq *)
Definition cmp_case (l r : value) : string :=
  "expr:" ++ String.concat "" (map (fun o => ch_of_optval (eval_cmp FExpr o l r)) all_cops) ++
  "|binop:" ++ String.concat "" (map (fun o => ch_of_optval (eval_cmp FBinop o l r)) all_cops) ++
  "|sase:" ++ String.concat "" (map (fun o => ch_of_bool (compare_values l r o)) all_cops).

Definition str_of_cop (o : cop) : string :=
  match o with OEq => "Eq" | ONotEq => "NotEq" | OLt => "Lt" | OLe => "Le" | OGt => "Gt" | OGe => "Ge" end.

Definition hex_digit (n : N) : string :=
  match n with
  | 0%N => "0" | 1%N => "1" | 2%N => "2" | 3%N => "3" | 4%N => "4" | 5%N => "5" | 6%N => "6" | 7%N => "7"
  | 8%N => "8" | 9%N => "9" | 10%N => "a" | 11%N => "b" | 12%N => "c" | 13%N => "d" | 14%N => "e" | _ => "f"
  end.
Definition hex_byte (b : N) : string := hex_digit (N.div b 16) ++ hex_digit (N.modulo b 16).

Definition str_of_value (v : value) : string :=
  match v with
  | VNull => "n"
  | VBool b => "b" ++ str_of_bool b
  | VInt z => "i" ++ str_of_Z z
  | VFloat f => "f" ++ str_of_Z (to_bits f)
  | VStr s => "s" ++ String.concat "" (map hex_byte s)
  end.

Fixpoint str_of_pred (p : pred) : string :=
  match p with
  | PCompare f o v => "C(f" ++ str_of_N f ++ "," ++ str_of_cop o ++ "," ++ str_of_value v ++ ")"
  | PAnd a b => "And(" ++ str_of_pred a ++ "," ++ str_of_pred b ++ ")"
  | POr a b => "Or(" ++ str_of_pred a ++ "," ++ str_of_pred b ++ ")"
  | PNot a => "Not(" ++ str_of_pred a ++ ")"
  | PExpr _ => "E"
  end.

(* C09: one filter, several events.  "<predicate shape>|w s n o;..." with w = where_accepts,
   s = step_accepts, n / o = membership in the two known-finding classes *)
From VP Require Import Cmp.Classes.
Definition filter_case (f : expr) (evs : list event) : string :=
  match to_pred f with Some p => str_of_pred p | None => "none" end ++ "|" ++
  join ";" (map (fun ev => ch_of_bool (where_accepts f ev) ++ ch_of_bool (step_accepts f ev) ++
                           ch_of_bool (not_over_valueless f ev) ++ ch_of_bool (or_with_valueless f ev)) evs).
