(* IEEE-754 binary64 through Flocq (BinarySingleNaN: one NaN, payloads/sign of NaN not modelled).
   Everything here computes under vm_compute.  Definitions only.
   Rust correspondence:
     f64::from_bits      -> of_bits      (bits as Z in [0, 2^64))
     (i as f64)          -> of_int       (round to nearest even)
     a < b, a <= b, ...  -> f_lt f_le f_gt f_ge f_eq  (false when unordered)
     a.partial_cmp(b)    -> fcmp
     a - b, x.abs()      -> f_sub f_abs
     f.trunc() as i64    -> trunc_Z   (exact; only used for |f| < 2^63)
     f.trunc() vs f      -> frac_cmp  (sign of the discarded fraction: Rust `f.trunc().partial_cmp(&f)`)
*)
From Coq Require Import ZArith Bool.
From Flocq Require Import Core IEEE754.Binary IEEE754.Bits IEEE754.BinarySingleNaN.

Local Open Scope Z_scope.

Definition f64 := BinarySingleNaN.binary_float 53 1024.

Definition of_bits (z : Z) : f64 := Binary.B2BSN 53 1024 (b64_of_bits z).
Definition of_int (z : Z) : f64 :=
  BinarySingleNaN.binary_normalize 53 1024 eq_refl eq_refl mode_NE z 0 false.

Definition fcmp (a b : f64) : option comparison := BinarySingleNaN.Bcompare a b.

Definition f_lt (a b : f64) : bool := match fcmp a b with Some Lt => true | _ => false end.
Definition f_le (a b : f64) : bool := match fcmp a b with Some Lt | Some Eq => true | _ => false end.
Definition f_gt (a b : f64) : bool := match fcmp a b with Some Gt => true | _ => false end.
Definition f_ge (a b : f64) : bool := match fcmp a b with Some Gt | Some Eq => true | _ => false end.
Definition f_eq (a b : f64) : bool := match fcmp a b with Some Eq => true | _ => false end.

Definition f_is_nan (a : f64) : bool := BinarySingleNaN.is_nan a.
Definition f_is_finite (a : f64) : bool := BinarySingleNaN.is_finite a.
Definition f_is_zero (a : f64) : bool := match a with B754_zero _ => true | _ => false end.

Definition f_sub (a b : f64) : f64 := @BinarySingleNaN.Bminus 53 1024 eq_refl eq_refl mode_NE a b.
Definition f_abs (a : f64) : f64 := BinarySingleNaN.Babs a.
Definition f_neg (a : f64) : f64 := BinarySingleNaN.Bopp a.

(* f64::EPSILON = 2^-52 *)
Definition f_epsilon : f64 := of_bits 4372995238176751616.

(* 2^63 as f64 (exact) *)
Definition f_two63 : f64 := of_int 9223372036854775808.
Definition f_neg_two63 : f64 := of_int (-9223372036854775808).

(* truncation toward zero, as an integer (Rust: `f.trunc() as i64` when it fits) *)
Definition trunc_Z (a : f64) : Z :=
  match a with
  | B754_finite s m e _ =>
      let q := match e with
               | Z0 => Zpos m
               | Zpos p => Zpos m * Z.pow_pos 2 p
               | Zneg p => Z.quot (Zpos m) (Z.pow_pos 2 p)
               end in
      if s then Z.opp q else q
  | _ => 0
  end.

(* comparison of f.trunc() with f: Eq when f is an integer, Lt when the dropped fraction is
   positive (f > trunc f), Gt when negative *)
Definition frac_cmp (a : f64) : comparison :=
  match a with
  | B754_finite s m (Zneg p) _ =>
      if Z.eqb (Z.rem (Zpos m) (Z.pow_pos 2 p)) 0 then Eq else if s then Gt else Lt
  | _ => Eq
  end.

(* bit pattern back (for rendering); NaN rendered as the canonical quiet NaN *)
Definition to_bits (a : f64) : Z :=
  bits_of_b64 (Binary.BSN2B 53 1024 (exist _ (Binary.B754_nan 53 1024 false 2251799813685248 eq_refl) eq_refl) a).
