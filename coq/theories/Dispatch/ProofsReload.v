(* Engine::reload: what each stream is afterwards, the routing table afterwards, and
   reloading the running program is the identity on every reachable engine. *)
From VP Require Import Base.Tactics Dispatch.Gen_Consts Dispatch.Model Dispatch.Spec
     Dispatch.ProofsLoop Dispatch.ProofsOnce Dispatch.ProofsRouter.

Local Opaque MAX_CHAIN_DEPTH.

Lemma mem_N_filter : forall f l x, mem_N x (filter f l) = mem_N x l && f x.
Proof.
  intros f l x. unfold mem_N. induction l as [|y l IH]; [reflexivity|].
  cbn [filter existsb]. destruct (f y) eqn:Hf; cbn [existsb]; rewrite IH.
  - destruct (N.eqb_spec x y); [subst; rewrite Hf; reflexivity|reflexivity].
  - destruct (N.eqb_spec x y); [subst; rewrite Hf, andb_false_r; reflexivity|reflexivity].
Qed.

Lemma filter_nil : forall {A} (f : A -> bool) l, (forall x, In x l -> f x = false) -> filter f l = [].
Proof.
  intros A f l H. induction l as [|y l IH]; [reflexivity|].
  cbn [filter]. rewrite (H y) by (left; reflexivity). apply IH. intros x Hx. apply H. right; assumption.
Qed.

Section Reload.
  Variable sstate : Type.
  Variable step_stream : N -> sstate -> event -> sstate * list event * list event.
  Variable init_state : N -> sstate.

  Notation engine := (engine sstate).
  Notation stream := (stream sstate).
  Notation load := (load sstate init_state).
  Notation reload := (reload sstate init_state).
  Notation register_stream := (register_stream sstate init_state).
  Notation run_loop := (run_loop sstate step_stream).
  Notation loaded := (loaded sstate init_state).
  Notation reachable := (reachable sstate step_stream init_state).
  Notation same_shape := (same_shape sstate).

  Lemma mem_names : forall (l : list (N * stream)) n,
    mem_N n (names_of l) = is_some (find_stream l n).
  Proof.
    induction l as [|[k s] l IH]; intros n; [reflexivity|].
    cbn [names_of map fst mem_N existsb find_stream]. rewrite N.eqb_sym.
    destruct (k =? n)%N; [reflexivity|]. apply IH.
  Qed.

  Lemma find_remove : forall (l : list (N * stream)) n m,
    find_stream (remove_stream l n) m = if (n =? m)%N then None else find_stream l m.
  Proof.
    induction l as [|[k s] l IH]; intros n m.
    - cbn. destruct (n =? m)%N; reflexivity.
    - cbn [remove_stream]. destruct (N.eqb_spec k n) as [Hkn|Hkn].
      + subst k. rewrite IH. cbn [find_stream]. destruct (N.eqb_spec n m); reflexivity.
      + cbn [find_stream]. destruct (N.eqb_spec k m) as [Hkm|Hkm].
        * subst k. destruct (N.eqb_spec n m); [congruence|reflexivity].
        * apply IH.
  Qed.

  Lemma find_fold_remove : forall L (l : list (N * stream)) m,
    find_stream (fold_left remove_stream L l) m = if mem_N m L then None else find_stream l m.
  Proof.
    induction L as [|n L IH]; intros l m; [reflexivity|].
    cbn [fold_left mem_N existsb]. rewrite IH. fold (mem_N m L). rewrite find_remove.
    rewrite N.eqb_sym. destruct (m =? n)%N; cbn [orb]; destruct (mem_N m L); reflexivity.
  Qed.

  Definition take (new : list (N * stream)) (l : list (N * stream)) (n : N) : list (N * stream) :=
    match find_stream new n with
    | Some w => insert_stream l n w
    | None => l
    end.

  Lemma find_fold_take : forall new L (l : list (N * stream)) m,
    find_stream (fold_left (take new) L l) m =
    if mem_N m L && is_some (find_stream new m) then find_stream new m else find_stream l m.
  Proof.
    induction L as [|n L IH]; intros l m; [reflexivity|].
    cbn [fold_left mem_N existsb]. rewrite IH. fold (mem_N m L).
    unfold take. destruct (find_stream new n) as [w|] eqn:Hn.
    - rewrite (find_insert sstate). rewrite N.eqb_sym.
      destruct (N.eqb_spec m n) as [Hmn|Hmn].
      + subst m. rewrite Hn. cbn [orb andb is_some]. destruct (mem_N n L); reflexivity.
      + cbn [orb]. reflexivity.
    - destruct (N.eqb_spec m n) as [Hmn|Hmn].
      + subst m. rewrite Hn. cbn [is_some]. rewrite !andb_false_r. reflexivity.
      + cbn [orb]. reflexivity.
  Qed.

  (* ---- what reload leaves behind ---- *)
  Lemma reload_router : forall (eng : engine) p,
    e_router (fst (reload eng p)) = e_router (load empty_engine p).
  Proof. reflexivity. Qed.

  Lemma reload_find : forall (eng : engine) p m,
    find_stream (e_streams (fst (reload eng p))) m =
    match find_stream (e_streams (load empty_engine p)) m with
    | None => None
    | Some w =>
      match find_stream (e_streams eng) m with
      | Some o => if (sd_decl (st_def o) =? sd_decl (st_def w))%N then Some o else Some w
      | None => Some w
      end
    end.
  Proof.
    intros eng p m. unfold Model.reload. cbn [fst e_streams].
    set (new := load empty_engine p).
    change (fun (l : list (N * stream)) (n : N) =>
              match find_stream (e_streams new) n with
              | Some w => insert_stream l n w
              | None => l
              end) with (take (e_streams new)).
    rewrite !find_fold_take, find_fold_remove.
    rewrite !mem_N_filter, !mem_names.
    destruct (find_stream (e_streams new) m) as [w|] eqn:Hw;
      destruct (find_stream (e_streams eng) m) as [o|] eqn:Ho; cbn [is_some negb andb].
    - destruct (sd_decl (st_def o) =? sd_decl (st_def w))%N; reflexivity.
    - reflexivity.
    - reflexivity.
    - reflexivity.
  Qed.

  (* a freshly loaded stream starts in the initial state of its declaration *)
  Lemma load_fresh : forall p (eng : engine),
    (forall n w, find_stream (e_streams eng) n = Some w -> st_state w = init_state (sd_decl (st_def w))) ->
    forall n w, find_stream (e_streams (load eng p)) n = Some w ->
                st_state w = init_state (sd_decl (st_def w)).
  Proof.
    induction p as [|[k d] p IH]; intros eng H n w Hf; [eapply H; eassumption|].
    unfold Model.load in *. cbn [fold_left fst snd] in Hf.
    eapply IH; [|exact Hf].
    intros n' w' Hf'. unfold Model.register_stream in Hf'. cbn [e_streams] in Hf'.
    rewrite (find_insert sstate) in Hf'. destruct (k =? n')%N.
    - inversion Hf'; reflexivity.
    - eapply H; eassumption.
  Qed.

  (* ---- invariants of a running engine ---- *)
  Lemma run_loop_shape : forall fuel sync (eng : engine) q ins a eng' a',
    run_loop fuel sync eng q ins a = Some (eng', a') -> same_shape eng eng'.
  Proof.
    induction fuel as [|fuel IH]; intros sync eng q ins a eng' a' H;
      rewrite (run_loop_eq sstate step_stream) in H;
      destruct (pop q ins) as [[[[e depth] q'] ins']|];
      try discriminate; try (inversion H; subst; apply same_shape_refl).
    destruct (MAX_CHAIN_DEPTH <=? depth).
    - eapply IH; eassumption.
    - pose proof (deliver_all_once sstate step_stream (routes_or_empty (e_router eng) (ety e)) sync eng eng e depth
                                   (same_shape_refl sstate eng)) as H1.
      destruct (deliver_all sstate step_stream sync eng (routes_or_empty (e_router eng) (ety e)) e depth) as [[[eng1 s] t] p].
      destruct H1 as (Hsh & _).
      eapply same_shape_trans; [exact Hsh|]. eapply IH; eassumption.
  Qed.

  Lemma loaded_shape : forall p (a b : engine), loaded p a -> same_shape a b -> loaded p b.
  Proof.
    intros p a b [Hr Hf] [Hr' Hs]. split; [congruence|].
    intros n. specialize (Hf n). specialize (Hs n).
    destruct (find_stream (e_streams (load empty_engine p)) n) as [w|];
      destruct (find_stream (e_streams a) n) as [x|];
      destruct (find_stream (e_streams b) n) as [y|]; cbn in *; try congruence; try contradiction.
  Qed.

  Lemma loaded_load : forall p, loaded p (load empty_engine p).
  Proof.
    intros p. split; [reflexivity|]. intros n.
    destruct (find_stream (e_streams (load empty_engine p)) n); [reflexivity|exact I].
  Qed.

  Lemma loaded_reload : forall (eng : engine) p', loaded p' (fst (reload eng p')).
  Proof.
    intros eng p'. split; [apply reload_router|]. intros n. rewrite reload_find.
    destruct (find_stream (e_streams (load empty_engine p')) n) as [w|]; [|exact I].
    destruct (find_stream (e_streams eng) n) as [o|]; [|reflexivity].
    destruct (N.eqb_spec (sd_decl (st_def o)) (sd_decl (st_def w))); [congruence|reflexivity].
  Qed.

  Lemma reachable_loaded : forall p eng, reachable p eng -> loaded p eng.
  Proof.
    intros p eng H. induction H as [p|p eng fuel sync q ins a eng' a' H IH Hrun|p eng p' H IH].
    - apply loaded_load.
    - eapply loaded_shape; [exact IH|]. eapply run_loop_shape; eassumption.
    - apply loaded_reload.
  Qed.

  (* ---- reloading the program an engine is running ---- *)
  Lemma reload_same : forall p (eng : engine),
    loaded p eng ->
    fst (reload eng p) = eng /\
    r_added (snd (reload eng p)) = [] /\ r_removed (snd (reload eng p)) = [] /\
    r_updated (snd (reload eng p)) = [].
  Proof.
    intros p [r ss] [Hr Hf]. cbn [e_router e_streams] in *. unfold Model.reload. cbn [e_router e_streams].
    set (new := load empty_engine p) in *.
    assert (Hadd : filter (fun n => negb (mem_N n (names_of ss))) (names_of (e_streams new)) = []).
    { apply filter_nil. intros x Hx. apply mem_N_In in Hx. rewrite mem_names in *.
      specialize (Hf x). destruct (find_stream (e_streams new) x); [|discriminate].
      destruct (find_stream ss x); [reflexivity|contradiction]. }
    assert (Hrem : filter (fun n => negb (mem_N n (names_of (e_streams new)))) (names_of ss) = []).
    { apply filter_nil. intros x Hx. apply mem_N_In in Hx. rewrite mem_names in *.
      specialize (Hf x). destruct (find_stream ss x); [|discriminate].
      destruct (find_stream (e_streams new) x); [reflexivity|contradiction]. }
    set (changed := fun n : N =>
                      match find_stream ss n, find_stream (e_streams new) n with
                      | Some o, Some w => negb (sd_decl (st_def o) =? sd_decl (st_def w))%N
                      | _, _ => true
                      end).
    assert (Hupd : filter changed (filter (fun n => mem_N n (names_of (e_streams new))) (names_of ss)) = []).
    { apply filter_nil. intros x Hx. apply filter_In in Hx. destruct Hx as [Hx _]. specialize (Hf x).
      apply mem_N_In in Hx. rewrite mem_names in Hx. unfold changed.
      destruct (find_stream ss x) as [o|]; [|discriminate].
      destruct (find_stream (e_streams new) x) as [w|]; [|contradiction].
      rewrite Hf, N.eqb_refl. reflexivity. }
    rewrite Hadd, Hrem, Hupd. cbn [fold_left fst snd r_added r_removed r_updated].
    repeat split; try reflexivity. f_equal. symmetry; exact Hr.
  Qed.
End Reload.
