(* The routing table built by add_route / register_stream / load: exact contents, insertion
   order, no stream listed twice. *)
From VP Require Import Base.Tactics Dispatch.Gen_Consts Dispatch.Model Dispatch.Spec.

Lemma get_set_routes : forall r t l t',
  get_routes (set_routes r t l) t' = if (t =? t')%N then Some l else get_routes r t'.
Proof.
  induction r as [|[k l0] r IH]; intros t l t'.
  - cbn. destruct (N.eqb_spec t t'); reflexivity.
  - cbn [set_routes]. destruct (N.eqb_spec k t) as [Hkt|Hkt].
    + subst k. cbn [get_routes]. destruct (N.eqb_spec t t'); reflexivity.
    + cbn [get_routes]. destruct (N.eqb_spec k t') as [Hkt'|Hkt'].
      * subst k. destruct (N.eqb_spec t t'); [congruence|reflexivity].
      * apply IH.
Qed.

(* push unless present: `if !streams.contains(..) { streams.push(..) }` *)
Definition push_new (l : list N) (s : N) : list N := if mem_N s l then l else l ++ [s].

Lemma routes_add_route : forall r t s t',
  routes_or_empty (add_route r t s) t' =
  if (t =? t')%N then push_new (routes_or_empty r t) s else routes_or_empty r t'.
Proof.
  intros r t s t'. unfold routes_or_empty, add_route. rewrite get_set_routes.
  destruct (N.eqb_spec t t'); reflexivity.
Qed.

Lemma has_routes_add_route : forall r t s t',
  has_routes (add_route r t s) t' = ((t =? t')%N || has_routes r t').
Proof.
  intros r t s t'. unfold has_routes, add_route. rewrite get_set_routes.
  destruct (N.eqb_spec t t'); reflexivity.
Qed.

Lemma mem_N_In : forall x l, mem_N x l = true <-> In x l.
Proof.
  intros x l. unfold mem_N. rewrite existsb_exists. split.
  - intros [y [Hy He]]. apply N.eqb_eq in He. subst; assumption.
  - intros H. exists x. split; [assumption|apply N.eqb_refl].
Qed.

Lemma push_new_nodup : forall l s, NoDup l -> NoDup (push_new l s).
Proof.
  intros l s H. unfold push_new. destruct (mem_N s l) eqn:Hm; [assumption|].
  assert (Hn : ~ In s l). { intros Hin. apply mem_N_In in Hin. congruence. }
  clear Hm. induction H as [|x l Hx Hl IH].
  - cbn. constructor; [intros []|constructor].
  - cbn [app]. constructor.
    + rewrite in_app_iff. intros [Hi|[Hi|[]]]; [contradiction|]. subst. apply Hn. left; reflexivity.
    + apply IH. intros Hi. apply Hn. right; assumption.
Qed.

Lemma push_new_in : forall l s x, In x (push_new l s) <-> In x l \/ x = s.
Proof.
  intros l s x. unfold push_new. destruct (mem_N s l) eqn:Hm.
  - apply mem_N_In in Hm. split; [intros H; left; assumption|intros [H|H]; [assumption|subst; assumption]].
  - rewrite in_app_iff. cbn [In]. split; intros [H|H]; auto. destruct H; [right; congruence|contradiction].
Qed.

(* a list of registrations (type, stream), applied in order *)
Definition register_all (r : router) (regs : list (N * N)) : router :=
  fold_left (fun r ts => add_route r (fst ts) (snd ts)) regs r.

(* exact contents and order: the streams registered for t, first registration first *)
Lemma routes_register_all : forall regs r t,
  routes_or_empty (register_all r regs) t =
  fold_left push_new (map snd (filter (fun ts => (fst ts =? t)%N) regs)) (routes_or_empty r t).
Proof.
  induction regs as [|[t0 s0] regs IH]; intros r t; [reflexivity|].
  unfold register_all in *. cbn [fold_left fst snd filter]. rewrite IH.
  rewrite routes_add_route. destruct (N.eqb_spec t0 t).
  - subst. reflexivity.
  - reflexivity.
Qed.

Lemma fold_push_new_nodup : forall l acc, NoDup acc -> NoDup (fold_left push_new l acc).
Proof. induction l as [|x l IH]; intros acc H; [assumption|]. cbn. apply IH. apply push_new_nodup; assumption. Qed.

Lemma fold_push_new_in : forall l acc x, In x (fold_left push_new l acc) <-> In x acc \/ In x l.
Proof.
  induction l as [|y l IH]; intros acc x.
  - cbn. tauto.
  - cbn [fold_left In]. rewrite IH, push_new_in. intuition congruence.
Qed.

Lemma register_all_nodup : forall regs r t,
  NoDup (routes_or_empty r t) -> NoDup (routes_or_empty (register_all r regs) t).
Proof. intros. rewrite routes_register_all. apply fold_push_new_nodup. assumption. Qed.

Lemma register_all_in : forall regs r t s,
  In s (routes_or_empty (register_all r regs) t) <-> In s (routes_or_empty r t) \/ In (t, s) regs.
Proof.
  intros regs r t s. rewrite routes_register_all, fold_push_new_in.
  rewrite in_map_iff. split; intros [H|H]; auto.
  - destruct H as [[t0 s0] [Hs Hf]]. apply filter_In in Hf. destruct Hf as [Hin Heq].
    cbn [fst snd] in *. apply N.eqb_eq in Heq. subst. right; assumption.
  - right. exists (t, s). split; [reflexivity|]. apply filter_In. split; [assumption|]. cbn. apply N.eqb_refl.
Qed.

Section Load.
  Variable sstate : Type.
  Variable init_state : N -> sstate.
  Notation load := (load sstate init_state).
  Notation register_stream := (register_stream sstate init_state).

  (* the add_route calls made while loading a program, in order *)
  Definition registrations (p : program) : list (N * N) :=
    flat_map (fun nd => map (fun t => (t, fst nd)) (sd_keys (snd nd))) p.

  Lemma register_stream_router : forall (eng : engine sstate) name d,
    e_router (register_stream eng name d) = register_all (e_router eng) (map (fun t => (t, name)) (sd_keys d)).
  Proof.
    intros eng name d. unfold Model.register_stream, register_all. cbn [e_router].
    generalize (e_router eng). induction (sd_keys d) as [|t ks IH]; intros r; [reflexivity|].
    cbn [map fold_left fst snd]. apply IH.
  Qed.

  Lemma load_router : forall p (eng : engine sstate),
    e_router (load eng p) = register_all (e_router eng) (registrations p).
  Proof.
    induction p as [|[n d] p IH]; intros eng; [reflexivity|].
    unfold Model.load in *. cbn [fold_left fst snd registrations flat_map].
    rewrite IH. rewrite register_stream_router. unfold register_all. rewrite fold_left_app. reflexivity.
  Qed.

  Lemma load_routes_nodup : forall p t,
    NoDup (routes_or_empty (e_router (load empty_engine p)) t).
  Proof. intros p t. rewrite load_router. apply register_all_nodup. cbn. constructor. Qed.

  Lemma load_routes_in : forall p t s,
    In s (routes_or_empty (e_router (load empty_engine p)) t) <->
    exists d, In (s, d) p /\ In t (sd_keys d).
  Proof.
    intros p t s. rewrite load_router, register_all_in. cbn [empty_engine e_router routes_or_empty get_routes In].
    unfold registrations. rewrite in_flat_map. split.
    - intros [[]|[[n d] [Hin Hm]]]. apply in_map_iff in Hm. destruct Hm as [t0 [He Hk]].
      cbn [fst snd] in *. inversion He; subst. exists d. split; assumption.
    - intros [d [Hin Hk]]. right. exists (s, d). split; [assumption|].
      apply in_map_iff. exists t. split; [reflexivity|assumption].
  Qed.
End Load.
