(* Specification-side definitions used in the statements of C16 / C17 / C23
   (definitions only; the lemmas relating them to Model.v are in Proofs*.v).

   The reference semantics of "process one input event": level by level.  Level 0 is the
   input; the events of level d are handed, in order, to the streams routed for their type;
   everything those hand-offs queue forms level d+1; levels MAX_CHAIN_DEPTH and deeper are
   taken from the queue and dropped.  Structural recursion on the remaining depth budget,
   no fuel. *)
From VP Require Import Base.Tactics Dispatch.Gen_Consts Dispatch.Model.

Definition tag (d : nat) (l : list event) : list (event * nat) := map (fun e => (e, d)) l.

Section Spec.
  Variable sstate : Type.
  Variable step_stream : N -> sstate -> event -> sstate * list event * list event.
  Variable init_state : N -> sstate.

  Notation engine := (engine sstate).
  Notation deliver_all := (deliver_all sstate step_stream).

  (* one level: returns the engine, what was accumulated, and what was queued *)
  Fixpoint run_level (sync : bool) (eng : engine) (lvl : list event) (d : nat)
    : engine * acc * list (event * nat) :=
    match lvl with
    | [] => (eng, acc0, [])
    | e :: r =>
      let '(eng1, s, t, p) := deliver_all sync eng (routes_or_empty (e_router eng) (ety e)) e d in
      let '(eng2, a2, p2) := run_level sync eng1 r d in
      (eng2, acc_app (mkAcc s t [(e, d)]) a2, p ++ p2)
    end.

  (* [n] = remaining depth budget (MAX_CHAIN_DEPTH - d) *)
  Fixpoint run_levels (n : nat) (sync : bool) (eng : engine) (lvl : list event) (d : nat)
    : engine * acc :=
    match n with
    | O => (eng, mkAcc [] [] (tag d lvl))
    | S n' =>
      let '(eng1, a1, p) := run_level sync eng lvl d in
      let '(eng2, a2) := run_levels n' sync eng1 (map fst p) (S d) in
      (eng2, acc_app a1 a2)
    end.

  Definition spec_event (sync : bool) (eng : engine) (e : event) : engine * acc :=
    run_levels MAX_CHAIN_DEPTH sync eng [e] 0.

  (* a sequence of inputs: one after the other *)
  Fixpoint spec_events (sync : bool) (eng : engine) (es : list event) : engine * acc :=
    match es with
    | [] => (eng, acc0)
    | e :: r =>
      let '(eng1, a1) := spec_event sync eng e in
      let '(eng2, a2) := spec_events sync eng1 r in
      (eng2, acc_app a1 a2)
    end.

  (* ---- the ways of feeding a sequence of events to the engine ---- *)
  (* Engine::process once per event *)
  Fixpoint process_each (fuel : nat) (eng : engine) (es : list event) : option (engine * acc) :=
    match es with
    | [] => Some (eng, acc0)
    | e :: r =>
      match process sstate step_stream fuel eng e with
      | None => None
      | Some (eng1, a1) =>
        match process_each fuel eng1 r with
        | None => None
        | Some (eng2, a2) => Some (eng2, acc_app a1 a2)
        end
      end
    end.

  (* Engine::process_batch (sync = false) / process_batch_sync (sync = true) once per batch *)
  Fixpoint process_batches (fuel : nat) (sync : bool) (eng : engine) (bs : list (list event))
    : option (engine * acc) :=
    match bs with
    | [] => Some (eng, acc0)
    | b :: r =>
      match run_loop sstate step_stream fuel sync eng [] b acc0 with
      | None => None
      | Some (eng1, a1) =>
        match process_batches fuel sync eng1 r with
        | None => None
        | Some (eng2, a2) => Some (eng2, acc_app a1 a2)
        end
      end
    end.

  (* ---- observables of a trace ---- *)
  (* who was handed what at which depth *)
  Definition handoff (dl : delivery) : N * event * nat := (d_stream dl, d_event dl, d_depth dl).

  (* two hand-offs that differ at most in the type carried by the pipeline outputs *)
  Definition same_handoff (a b : delivery) : Prop :=
    d_stream a = d_stream b /\ d_event a = d_event b /\ d_depth a = d_depth b /\
    d_emitted a = d_emitted b /\ map ebody (d_outputs a) = map ebody (d_outputs b).

  Definition is_some {A} (o : option A) : bool := match o with Some _ => true | None => false end.

  (* the hand-offs a queue entry must cause: one per routed stream that exists, none beyond the depth limit *)
  Definition due (eng : engine) (ed : event * nat) : list (N * event * nat) :=
    let '(e, d) := ed in
    if d <? MAX_CHAIN_DEPTH then
      map (fun s => (s, e, d))
          (filter (fun s => is_some (find_stream (e_streams eng) s)) (routes_or_empty (e_router eng) (ety e)))
    else [].

  (* process_batch_sync does not queue the outputs of a stream nobody consumes (unless .process()) *)
  Definition skips (sync : bool) (eng : engine) (name : N) : bool :=
    match find_stream (e_streams eng) name with
    | Some st => sync && negb (has_routes (e_router eng) name) && negb (sd_has_process (st_def st))
    | None => false
    end.

  (* what a hand-off queued *)
  Definition queued_by (sync : bool) (eng : engine) (dl : delivery) : list (event * nat) :=
    if skips sync eng (d_stream dl) then [] else tag (S (d_depth dl)) (d_outputs dl).

  (* ---- engines that agree on routing and declarations with a freshly loaded program ---- *)
  Definition loaded (p : program) (eng : engine) : Prop :=
    e_router eng = e_router (load sstate init_state empty_engine p) /\
    forall n,
      match find_stream (e_streams (load sstate init_state empty_engine p)) n,
            find_stream (e_streams eng) n with
      | Some a, Some b => sd_decl (st_def a) = sd_decl (st_def b)
      | None, None => True
      | _, _ => False
      end.

  (* every engine state a running system can be in: load, then any interleaving of the three
     entry points (any fuel, any queue contents handed to the loop) and reloads *)
  Inductive reachable : program -> engine -> Prop :=
  | R_load : forall p, reachable p (load sstate init_state empty_engine p)
  | R_run : forall p eng fuel sync q ins a eng' a',
      reachable p eng ->
      run_loop sstate step_stream fuel sync eng q ins a = Some (eng', a') ->
      reachable p eng'
  | R_reload : forall p eng p',
      reachable p eng ->
      reachable p' (fst (reload sstate init_state eng p')).
End Spec.
