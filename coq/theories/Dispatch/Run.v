(* Interpreter for scenarios over the dispatch model + rendering, used by the
   correspondence checks C16 / C17 / C23 (cases evaluated by vm_compute).

   The abstract stream pipelines are instantiated by a REPLAY ORACLE: stream states are
   nodes of a trie built by the driver from recorded hand-offs (per stream: the sequence of
   events delivered so far), [trans] maps (node, delivered event) to (next node, emitted
   events, pipeline outputs).  Pipeline outputs carry type 0 ("type before the rename is
   not recorded"); node 0 is the "unknown history" sink whose marker output makes any
   delivery order the recording did not contain visible as a mismatch. *)
From Coq Require Import String.
From VP Require Import Base.Tactics Base.Render Dispatch.Gen_Consts Dispatch.Model.
Open Scope string_scope.

Definition trans_table := list (N * N * N * (N * list event * list event)).

Fixpoint lookup_trans (t : trans_table) (st ty body : N) : option (N * list event * list event) :=
  match t with
  | [] => None
  | (s, a, b, r) :: t' =>
    if ((s =? st) && (a =? ty) && (b =? body))%N then Some r else lookup_trans t' st ty body
  end.

Definition oracle_step (t : trans_table) (_name : N) (st : N) (e : event) : N * list event * list event :=
  match lookup_trans t st (ety e) (ebody e) with
  | Some r => r
  | None => (0%N, [mkEvent 0 0], [])
  end.

Fixpoint lookup_init (i : list (N * N)) (decl : N) : N :=
  match i with
  | [] => 0%N
  | (d, s) :: i' => if (d =? decl)%N then s else lookup_init i' decl
  end.

Inductive step :=
| SEvent (e : event)
| SBatch (es : list event)
| SSync (es : list event)
| SReload (p : program).

(* ---- rendering ---- *)
Definition str_event (e : event) : string := str_of_N (ety e) ++ "." ++ str_of_N (ebody e).
Definition str_events (l : list event) : string := join "," (map str_event l).
(* outputs: body only.  Whether an output was renamed is not compared directly (the sync path
   legitimately skips it for streams nobody consumes); a missing rename shows up as a routing
   difference of the queued event, or in the output channel for .process() streams. *)
Definition str_output (name : N) (e : event) : string := "." ++ str_of_N (ebody e).
Definition str_delivery (d : delivery) : string :=
  str_of_N (d_stream d) ++ ">" ++ str_event (d_event d) ++ "@" ++ str_of_nat (d_depth d)
  ++ "!" ++ str_events (d_emitted d) ++ "!" ++ join "," (map (str_output (d_stream d)) (d_outputs d)).
Definition str_acc (a : acc) : string :=
  "O:" ++ str_events (a_sent a) ++ ";T:" ++ join ";" (map str_delivery (a_trace a)).

Definition ids (n : nat) : list N := map N.of_nat (seq 0 n).
Definition str_names (ntypes : nat) (l : list N) : string :=
  join "." (map str_of_N (filter (fun n => mem_N n l) (ids ntypes))).
Definition str_router (ntypes : nat) (r : router) : string :=
  join "," (flat_map (fun t => match get_routes r t with
                               | Some l => [str_of_N t ++ "=" ++ join "." (map str_of_N l)]
                               | None => [] end) (ids ntypes)).
Definition str_report (ntypes : nat) (r : report) : string :=
  str_names ntypes (r_added r) ++ "/" ++ str_names ntypes (r_removed r) ++ "/"
  ++ str_names ntypes (r_updated r) ++ "/" ++ str_names ntypes (r_preserved r).

Section Scenario.
  Variable trans : trans_table.
  Variable init : list (N * N).
  Variable ntypes : nat.
  Variable fuel : nat.

  Definition eng := engine N.
  Definition o_step := oracle_step trans.
  Definition o_init := lookup_init init.

  Definition run_step (e : eng) (s : step) : option (eng * string) :=
    match s with
    | SEvent ev =>
      match process N o_step fuel e ev with
      | Some (e', a) => Some (e', str_acc a)
      | None => None
      end
    | SBatch es =>
      match process_batch N o_step fuel e es with
      | Some (e', a) => Some (e', str_acc a)
      | None => None
      end
    | SSync es =>
      match process_batch_sync N o_step fuel e es with
      | Some (e', a) => Some (e', str_acc a)
      | None => None
      end
    | SReload p =>
      let '(e', r) := reload N o_init e p in
      Some (e', "R:" ++ str_report ntypes r ++ ";K:" ++ str_router ntypes (e_router e'))
    end.

  Fixpoint run_steps (e : eng) (ss : list step) : list string :=
    match ss with
    | [] => []
    | s :: r =>
      match run_step e s with
      | Some (e', out) => out :: run_steps e' r
      | None => ["FUEL"]
      end
    end.

  Definition scenario (p : program) (ss : list step) : string :=
    let e := load N o_init empty_engine p in
    join "|" (("K:" ++ str_router ntypes (e_router e)) :: run_steps e ss).
End Scenario.
