(* process_batch_sync (skip_rename: outputs of streams nobody consumes are neither renamed
   nor queued) against the async paths, on the level-wise semantics: same engine, same
   output channel, same hand-offs up to the type carried by un-renamed pipeline outputs. *)
From VP Require Import Base.Tactics Dispatch.Gen_Consts Dispatch.Model Dispatch.Spec Dispatch.ProofsLoop.

Local Opaque MAX_CHAIN_DEPTH.

(* [dead_sub r ls la]: ls is la minus some events nobody is routed for *)
Inductive dead_sub (r : router) : list event -> list event -> Prop :=
| ds_nil : dead_sub r [] []
| ds_cons : forall x l1 l2, dead_sub r l1 l2 -> dead_sub r (x :: l1) (x :: l2)
| ds_skip : forall e l1 l2, has_routes r (ety e) = false -> dead_sub r l1 l2 -> dead_sub r l1 (e :: l2).

Lemma dead_sub_refl : forall r l, dead_sub r l l.
Proof. induction l; constructor; assumption. Qed.

Lemma dead_sub_app : forall r a b c d, dead_sub r a b -> dead_sub r c d -> dead_sub r (a ++ c) (b ++ d).
Proof. intros r a b c d H1 H2. induction H1; cbn [app]; try constructor; assumption. Qed.

Lemma dead_sub_renamed : forall r name cur,
  has_routes r name = false -> dead_sub r [] (map (rename name) cur).
Proof. intros r name cur H. induction cur; cbn [map]; constructor; assumption. Qed.

Lemma same_handoff_refl : forall d, same_handoff d d.
Proof. intros d. repeat split. Qed.

Lemma Forall2_same_refl : forall l, Forall2 same_handoff l l.
Proof. induction l; constructor; [apply same_handoff_refl | assumption]. Qed.

Section Sync.
  Variable sstate : Type.
  Variable step_stream : N -> sstate -> event -> sstate * list event * list event.

  Notation engine := (engine sstate).
  Notation deliver := (deliver sstate step_stream).
  Notation deliver_all := (deliver_all sstate step_stream).
  Notation run_level := (run_level sstate step_stream).
  Notation run_levels := (run_levels sstate step_stream).
  Notation spec_event := (spec_event sstate step_stream).
  Notation spec_events := (spec_events sstate step_stream).

  (* what the two variants of a computation may differ in *)
  Definition agree (r : router) (x y : engine * list event * list delivery * list (event * nat)) : Prop :=
    let '(e1, s1, t1, p1) := x in
    let '(e2, s2, t2, p2) := y in
    e1 = e2 /\ s1 = s2 /\ Forall2 same_handoff t2 t1 /\ dead_sub r (map fst p1) (map fst p2).

  Lemma deliver_router : forall sync (eng : engine) name e d,
    e_router (fst (fst (fst (deliver sync eng name e d)))) = e_router eng.
  Proof.
    intros. unfold Model.deliver. destruct (find_stream (e_streams eng) name) as [st|]; [|reflexivity].
    destruct (step_stream name (st_state st) e) as [[s' em] cur]. reflexivity.
  Qed.

  Lemma deliver_all_router : forall names sync (eng : engine) e d,
    e_router (fst (fst (fst (deliver_all sync eng names e d)))) = e_router eng.
  Proof.
    induction names as [|n ns IH]; intros sync eng e d; [reflexivity|].
    cbn [Model.deliver_all].
    pose proof (deliver_router sync eng n e d) as H1.
    destruct (deliver sync eng n e d) as [[[eng1 s1] t1] p1]. cbn [fst] in H1.
    pose proof (IH sync eng1 e d) as H2.
    destruct (deliver_all sync eng1 ns e d) as [[[eng2 s2] t2] p2]. cbn [fst] in *. congruence.
  Qed.

  Lemma run_level_router : forall lvl sync (eng : engine) d,
    e_router (fst (fst (run_level sync eng lvl d))) = e_router eng.
  Proof.
    induction lvl as [|e r IH]; intros sync eng d; [reflexivity|].
    cbn [Spec.run_level].
    pose proof (deliver_all_router (routes_or_empty (e_router eng) (ety e)) sync eng e d) as H1.
    destruct (deliver_all sync eng (routes_or_empty (e_router eng) (ety e)) e d) as [[[eng1 s] t] p].
    cbn [fst] in H1. pose proof (IH sync eng1 d) as H2.
    destruct (run_level sync eng1 r d) as [[eng2 a2] p2]. cbn [fst] in *. congruence.
  Qed.

  Lemma run_levels_router : forall n sync (eng : engine) lvl d,
    e_router (fst (run_levels n sync eng lvl d)) = e_router eng.
  Proof.
    induction n as [|n IH]; intros sync eng lvl d; [reflexivity|].
    cbn [Spec.run_levels].
    pose proof (run_level_router lvl sync eng d) as H1.
    destruct (run_level sync eng lvl d) as [[eng1 a1] p]. cbn [fst] in H1.
    pose proof (IH sync eng1 (map fst p) (S d)) as H2.
    destruct (run_levels n sync eng1 (map fst p) (S d)) as [eng2 a2]. cbn [fst] in *. congruence.
  Qed.

  Lemma deliver_sync_async : forall (eng : engine) name e d,
    agree (e_router eng) (deliver true eng name e d) (deliver false eng name e d).
  Proof.
    intros eng name e d. unfold Model.deliver.
    destruct (find_stream (e_streams eng) name) as [st|].
    - destruct (step_stream name (st_state st) e) as [[s' em] cur].
      cbn [andb].
      destruct (has_routes (e_router eng) name) eqn:Hr; cbn [negb andb].
      + repeat split; try reflexivity. apply Forall2_same_refl. apply dead_sub_refl.
      + destruct (sd_has_process (st_def st)); cbn [negb].
        * repeat split; try reflexivity. apply Forall2_same_refl. apply dead_sub_refl.
        * rewrite andb_false_r. repeat split; try reflexivity.
          -- constructor; [|constructor]. repeat split; try reflexivity.
             cbn [d_outputs]. rewrite map_map. cbn [ebody rename]. reflexivity.
          -- cbn [map]. rewrite map_map. cbn [fst]. rewrite map_id. apply dead_sub_renamed. exact Hr.
    - repeat split; try reflexivity. constructor. constructor.
  Qed.

  Lemma deliver_all_sync_async : forall names (eng : engine) e d,
    agree (e_router eng) (deliver_all true eng names e d) (deliver_all false eng names e d).
  Proof.
    induction names as [|n ns IH]; intros eng e d.
    - cbn. repeat split; try reflexivity; constructor.
    - cbn [Model.deliver_all].
      pose proof (deliver_sync_async eng n e d) as H1.
      pose proof (deliver_router true eng n e d) as Hr.
      destruct (deliver true eng n e d) as [[[e1 s1] t1] p1].
      destruct (deliver false eng n e d) as [[[e2 s2] t2] p2].
      cbn [fst] in Hr.
      destruct H1 as (He & Hs & Ht & Hp). subst e2 s2.
      pose proof (IH e1 e d) as H2. rewrite Hr in H2.
      destruct (deliver_all true e1 ns e d) as [[[e1' s1'] t1'] p1'].
      destruct (deliver_all false e1 ns e d) as [[[e2' s2'] t2'] p2'].
      destruct H2 as (He' & Hs' & Ht' & Hp'). subst e2' s2'.
      repeat split; try reflexivity.
      + apply Forall2_app; assumption.
      + rewrite !map_app. apply dead_sub_app; assumption.
  Qed.

  Definition agree_level (r : router) (x y : engine * acc * list (event * nat)) : Prop :=
    let '(e1, a1, p1) := x in
    let '(e2, a2, p2) := y in
    e1 = e2 /\ a_sent a1 = a_sent a2 /\ Forall2 same_handoff (a_trace a2) (a_trace a1) /\
    dead_sub r (map fst p1) (map fst p2).

  Lemma routes_dead : forall r t, has_routes r t = false -> routes_or_empty r t = [].
  Proof. intros r t H. unfold has_routes, routes_or_empty in *. destruct (get_routes r t); [discriminate|reflexivity]. Qed.

  Lemma run_level_sync_async : forall r ls la, dead_sub r ls la ->
    forall (eng : engine) d, r = e_router eng ->
    agree_level r (run_level true eng ls d) (run_level false eng la d).
  Proof.
    intros r ls la H. induction H as [|x l1 l2 H IH|e l1 l2 Hdead H IH]; intros eng d Hr.
    - cbn. repeat split; try reflexivity; constructor.
    - cbn [Spec.run_level].
      pose proof (deliver_all_sync_async (routes_or_empty (e_router eng) (ety x)) eng x d) as H1.
      pose proof (deliver_all_router (routes_or_empty (e_router eng) (ety x)) true eng x d) as Hr1.
      destruct (deliver_all true eng (routes_or_empty (e_router eng) (ety x)) x d) as [[[e1 s1] t1] p1].
      destruct (deliver_all false eng (routes_or_empty (e_router eng) (ety x)) x d) as [[[e2 s2] t2] p2].
      cbn [fst] in Hr1. destruct H1 as (He & Hs & Ht & Hp). subst e2 s2.
      specialize (IH e1 d). rewrite Hr1 in IH. specialize (IH Hr).
      destruct (run_level true e1 l1 d) as [[e1' a1'] p1'].
      destruct (run_level false e1 l2 d) as [[e2' a2'] p2'].
      destruct IH as (He' & Hs' & Ht' & Hp'). subst e2'.
      unfold acc_app; cbn [a_sent a_trace a_popped].
      repeat split; try reflexivity.
      + rewrite Hs'. reflexivity.
      + apply Forall2_app; assumption.
      + rewrite !map_app. apply dead_sub_app; [rewrite Hr|]; assumption.
    - cbn [Spec.run_level].
      rewrite <- Hr. rewrite (routes_dead _ _ Hdead). cbn [Model.deliver_all].
      specialize (IH eng d Hr).
      destruct (run_level true eng l1 d) as [[e1' a1'] p1'].
      destruct (run_level false eng l2 d) as [[e2' a2'] p2'].
      destruct IH as (He' & Hs' & Ht' & Hp'). subst e2'.
      unfold acc_app; cbn [a_sent a_trace a_popped app].
      repeat split; assumption.
  Qed.

  Definition agree_acc (x y : engine * acc) : Prop :=
    fst x = fst y /\ a_sent (snd x) = a_sent (snd y) /\
    Forall2 same_handoff (a_trace (snd y)) (a_trace (snd x)).

  Lemma run_levels_sync_async : forall n ls la (eng : engine) d,
    dead_sub (e_router eng) ls la ->
    agree_acc (run_levels n true eng ls d) (run_levels n false eng la d).
  Proof.
    induction n as [|n IH]; intros ls la eng d H.
    - cbn. repeat split; constructor.
    - cbn [Spec.run_levels].
      pose proof (run_level_sync_async _ _ _ H eng d eq_refl) as H1.
      pose proof (run_level_router ls true eng d) as Hr.
      destruct (run_level true eng ls d) as [[e1 a1] p1].
      destruct (run_level false eng la d) as [[e2 a2] p2].
      cbn [fst] in Hr. destruct H1 as (He & Hs & Ht & Hp). subst e2.
      rewrite <- Hr in Hp. specialize (IH _ _ e1 (S d) Hp).
      destruct (run_levels n true e1 (map fst p1) (S d)) as [e1' a1'].
      destruct (run_levels n false e1 (map fst p2) (S d)) as [e2' a2'].
      destruct IH as (He' & Hs' & Ht'). cbn [fst snd] in *. subst e2'.
      unfold agree_acc, acc_app; cbn [fst snd a_sent a_trace].
      repeat split.
      + rewrite Hs, Hs'. reflexivity.
      + apply Forall2_app; assumption.
  Qed.

  Lemma spec_events_sync_async : forall es (eng : engine),
    agree_acc (spec_events true eng es) (spec_events false eng es).
  Proof.
    induction es as [|e es IH]; intros eng.
    - cbn. repeat split; constructor.
    - cbn [Spec.spec_events]. unfold Spec.spec_event.
      pose proof (run_levels_sync_async MAX_CHAIN_DEPTH [e] [e] eng 0 (dead_sub_refl _ _)) as H1.
      destruct (run_levels MAX_CHAIN_DEPTH true eng [e] 0) as [e1 a1].
      destruct (run_levels MAX_CHAIN_DEPTH false eng [e] 0) as [e2 a2].
      destruct H1 as (He & Hs & Ht). cbn [fst snd] in *. subst e2.
      specialize (IH e1).
      destruct (spec_events true e1 es) as [e1' a1'].
      destruct (spec_events false e1 es) as [e2' a2'].
      destruct IH as (He' & Hs' & Ht'). cbn [fst snd] in *. subst e2'.
      unfold agree_acc, acc_app; cbn [fst snd a_sent a_trace].
      repeat split.
      + rewrite Hs, Hs'. reflexivity.
      + apply Forall2_app; assumption.
  Qed.
End Sync.
