(* The queue loop of the entry points computes the level-wise reference semantics
   (Spec.spec_events), terminates, and its result does not depend on the fuel. *)
From VP Require Import Base.Tactics Dispatch.Gen_Consts Dispatch.Model Dispatch.Spec.

Local Opaque MAX_CHAIN_DEPTH.

Lemma acc_app_assoc : forall a b c, acc_app (acc_app a b) c = acc_app a (acc_app b c).
Proof. intros a b c. unfold acc_app; cbn [a_sent a_trace a_popped]. rewrite <- !app_assoc. reflexivity. Qed.

Lemma acc_app_0_r : forall a, acc_app a acc0 = a.
Proof. intros [s t p]. unfold acc_app, acc0; cbn [a_sent a_trace a_popped]. rewrite !app_nil_r. reflexivity. Qed.

Lemma acc_app_0_l : forall a, acc_app acc0 a = a.
Proof. intros [s t p]. reflexivity. Qed.

Lemma tag_app : forall d l1 l2, tag d (l1 ++ l2) = tag d l1 ++ tag d l2.
Proof. intros. unfold tag. apply map_app. Qed.

Lemma map_fst_tag : forall d l, map fst (tag d l) = l.
Proof. intros d l. unfold tag. rewrite map_map. cbn [fst]. apply map_id. Qed.

Section Loop.
  Variable sstate : Type.
  Variable step_stream : N -> sstate -> event -> sstate * list event * list event.

  Notation engine := (engine sstate).
  Notation run_loop := (run_loop sstate step_stream).
  Notation deliver := (deliver sstate step_stream).
  Notation deliver_all := (deliver_all sstate step_stream).
  Notation run_level := (run_level sstate step_stream).
  Notation run_levels := (run_levels sstate step_stream).
  Notation spec_event := (spec_event sstate step_stream).
  Notation spec_events := (spec_events sstate step_stream).
  Notation process := (process sstate step_stream).
  Notation process_batch := (process_batch sstate step_stream).
  Notation process_batch_sync := (process_batch_sync sstate step_stream).
  Notation process_each := (process_each sstate step_stream).
  Notation process_batches := (process_batches sstate step_stream).

  Lemma run_loop_eq : forall fuel sync (eng : engine) q ins a,
    run_loop fuel sync eng q ins a =
    match pop q ins with
    | None => Some (eng, a)
    | Some ((e, depth), q', ins') =>
      match fuel with
      | O => None
      | S fuel' =>
        if MAX_CHAIN_DEPTH <=? depth then
          run_loop fuel' sync eng q' ins' (acc_app a (mkAcc [] [] [(e, depth)]))
        else
          let '(eng', s, t, p) := deliver_all sync eng (routes_or_empty (e_router eng) (ety e)) e depth in
          run_loop fuel' sync eng' (q' ++ p) ins' (acc_app a (mkAcc s t [(e, depth)]))
      end
    end.
  Proof. intros fuel sync eng q ins a. destruct fuel; reflexivity. Qed.

  Lemma run_loop_cons : forall fuel sync (eng : engine) e d q ins a,
    run_loop (S fuel) sync eng ((e, d) :: q) ins a =
    if MAX_CHAIN_DEPTH <=? d then
      run_loop fuel sync eng q ins (acc_app a (mkAcc [] [] [(e, d)]))
    else
      let '(eng', s, t, p) := deliver_all sync eng (routes_or_empty (e_router eng) (ety e)) e d in
      run_loop fuel sync eng' (q ++ p) ins (acc_app a (mkAcc s t [(e, d)])).
  Proof. reflexivity. Qed.

  (* ---- fuel monotonicity ---- *)
  Lemma run_loop_mono : forall fuel sync (eng : engine) q ins a r,
    run_loop fuel sync eng q ins a = Some r ->
    forall k, run_loop (fuel + k) sync eng q ins a = Some r.
  Proof.
    induction fuel as [|fuel IH]; intros sync eng q ins a r H k.
    - rewrite run_loop_eq in H. rewrite run_loop_eq.
      destruct (pop q ins) as [[[[e depth] q'] ins']|]; [discriminate|exact H].
    - rewrite run_loop_eq in H. rewrite run_loop_eq.
      destruct (pop q ins) as [[[[e depth] q'] ins']|]; [|exact H].
      cbn [Nat.add].
      destruct (MAX_CHAIN_DEPTH <=? depth).
      + apply IH; exact H.
      + destruct (deliver_all sync eng (routes_or_empty (e_router eng) (ety e)) e depth) as [[[eng' s] t] p].
        apply IH; exact H.
  Qed.

  (* ---- entries at or beyond the depth limit are taken and dropped ---- *)
  Lemma loop_drop : forall lvl d sync (eng : engine) nxt ins a fuel,
    MAX_CHAIN_DEPTH <= d ->
    run_loop (length lvl + fuel) sync eng (tag d lvl ++ nxt) ins a =
    run_loop fuel sync eng nxt ins (acc_app a (mkAcc [] [] (tag d lvl))).
  Proof.
    induction lvl as [|e r IH]; intros d sync eng nxt ins a fuel Hd.
    - cbn [length tag map app Nat.add]. change (mkAcc [] [] []) with acc0. rewrite acc_app_0_r. reflexivity.
    - cbn [length tag map app Nat.add]. rewrite run_loop_cons.
      assert (Hle : (MAX_CHAIN_DEPTH <=? d) = true) by (apply Nat.leb_le; exact Hd).
      rewrite Hle. fold (tag d r). rewrite IH by exact Hd.
      rewrite acc_app_assoc. reflexivity.
  Qed.

  (* ---- one level ---- *)
  Lemma loop_level : forall lvl d sync (eng : engine) nxt ins a fuel,
    d < MAX_CHAIN_DEPTH ->
    run_loop (length lvl + fuel) sync eng (tag d lvl ++ nxt) ins a =
    let '(eng1, a1, p) := run_level sync eng lvl d in
    run_loop fuel sync eng1 (nxt ++ p) ins (acc_app a a1).
  Proof.
    induction lvl as [|e r IH]; intros d sync eng nxt ins a fuel Hd.
    - cbn [length tag map app Nat.add run_level]. rewrite app_nil_r, acc_app_0_r. reflexivity.
    - cbn [length tag map app Nat.add run_level]. rewrite run_loop_cons.
      assert (Hle : (MAX_CHAIN_DEPTH <=? d) = false) by (apply Nat.leb_gt; exact Hd).
      rewrite Hle.
      destruct (deliver_all sync eng (routes_or_empty (e_router eng) (ety e)) e d) as [[[eng' s] t] p].
      fold (tag d r). rewrite <- app_assoc. rewrite IH by exact Hd.
      destruct (run_level sync eng' r d) as [[eng2 a2] p2].
      rewrite app_assoc, acc_app_assoc. reflexivity.
  Qed.

  Lemma deliver_pushed_depth : forall sync (eng : engine) name e d eng' s t p,
    deliver sync eng name e d = (eng', s, t, p) -> p = tag (S d) (map fst p).
  Proof.
    intros sync eng name e d eng' s t p H. unfold deliver in H.
    destruct (find_stream (e_streams eng) name) as [st|].
    - destruct (step_stream name (st_state st) e) as [[s' emitted] cur].
      inversion H; subst; clear H.
      destruct (sync && negb (has_routes (e_router eng) name) && negb (sd_has_process (st_def st))).
      + reflexivity.
      + unfold tag. rewrite !map_map. cbn [fst]. reflexivity.
    - inversion H; reflexivity.
  Qed.

  Lemma deliver_all_pushed_depth : forall names sync (eng : engine) e d eng' s t p,
    deliver_all sync eng names e d = (eng', s, t, p) -> p = tag (S d) (map fst p).
  Proof.
    induction names as [|n ns IH]; intros sync eng e d eng' s t p H.
    - cbn in H. inversion H; reflexivity.
    - cbn [Model.deliver_all] in H.
      destruct (deliver sync eng n e d) as [[[eng1 s1] t1] p1] eqn:H1.
      destruct (deliver_all sync eng1 ns e d) as [[[eng2 s2] t2] p2] eqn:H2.
      inversion H; subst; clear H.
      rewrite map_app, tag_app.
      rewrite <- (deliver_pushed_depth _ _ _ _ _ _ _ _ _ H1).
      rewrite <- (IH _ _ _ _ _ _ _ _ H2). reflexivity.
  Qed.

  Lemma run_level_pushed_depth : forall lvl sync (eng : engine) d eng' a p,
    run_level sync eng lvl d = (eng', a, p) -> p = tag (S d) (map fst p).
  Proof.
    induction lvl as [|e r IH]; intros sync eng d eng' a p H.
    - cbn in H. inversion H; reflexivity.
    - cbn [Spec.run_level] in H.
      destruct (deliver_all sync eng (routes_or_empty (e_router eng) (ety e)) e d) as [[[eng1 s] t] p1] eqn:H1.
      destruct (run_level sync eng1 r d) as [[eng2 a2] p2] eqn:H2.
      inversion H; subst; clear H.
      rewrite map_app, tag_app.
      rewrite <- (deliver_all_pushed_depth _ _ _ _ _ _ _ _ _ H1).
      rewrite <- (IH _ _ _ _ _ _ H2). reflexivity.
  Qed.

  (* ---- all levels of one input ---- *)
  Lemma loop_levels : forall n d sync (eng : engine) lvl ins a,
    n + d = MAX_CHAIN_DEPTH ->
    exists cost, forall fuel,
      run_loop (cost + fuel) sync eng (tag d lvl) ins a =
      run_loop fuel sync (fst (run_levels n sync eng lvl d)) [] ins
               (acc_app a (snd (run_levels n sync eng lvl d))).
  Proof.
    induction n as [|n IH]; intros d sync eng lvl ins a Hnd.
    - exists (length lvl). intros fuel. cbn [Spec.run_levels fst snd].
      rewrite <- (app_nil_r (tag d lvl)) at 1. apply loop_drop. lia.
    - cbn [Spec.run_levels].
      destruct (run_level sync eng lvl d) as [[eng1 a1] p] eqn:HL.
      assert (Hp := run_level_pushed_depth _ _ _ _ _ _ _ HL).
      destruct (IH (S d) sync eng1 (map fst p) ins (acc_app a a1)) as [cost2 Hc2]; [lia|].
      destruct (run_levels n sync eng1 (map fst p) (S d)) as [eng2 a2] eqn:HLs.
      cbn [fst snd] in *.
      exists (length lvl + cost2). intros fuel.
      rewrite <- Nat.add_assoc.
      rewrite <- (app_nil_r (tag d lvl)) at 1.
      rewrite loop_level by lia. rewrite HL. cbn [app].
      rewrite Hp. rewrite Hc2. rewrite acc_app_assoc. reflexivity.
  Qed.

  Lemma pop_input : forall fuel sync (eng : engine) e es a,
    run_loop fuel sync eng [] (e :: es) a = run_loop fuel sync eng [(e, 0)] es a.
  Proof. intros. destruct fuel; reflexivity. Qed.

  (* ---- the whole loop ---- *)
  Lemma loop_inputs : forall es sync (eng : engine) a,
    exists cost, forall fuel,
      run_loop (cost + fuel) sync eng [] es a =
      Some (fst (spec_events sync eng es), acc_app a (snd (spec_events sync eng es))).
  Proof.
    induction es as [|e es IH]; intros sync eng a.
    - exists 0. intros fuel. cbn [Nat.add Spec.spec_events fst snd]. rewrite acc_app_0_r.
      rewrite run_loop_eq. reflexivity.
    - cbn [Spec.spec_events]. unfold Spec.spec_event.
      destruct (loop_levels MAX_CHAIN_DEPTH 0 sync eng [e] es a) as [c1 Hc1]; [lia|].
      destruct (run_levels MAX_CHAIN_DEPTH sync eng [e] 0) as [eng1 a1].
      cbn [fst snd] in Hc1.
      destruct (IH sync eng1 (acc_app a a1)) as [c2 Hc2].
      destruct (spec_events sync eng1 es) as [eng2 a2].
      cbn [fst snd] in *.
      exists (c1 + c2). intros fuel.
      rewrite pop_input. change [(e, 0)] with (tag 0 [e]).
      rewrite <- Nat.add_assoc. rewrite Hc1. rewrite Hc2. rewrite acc_app_assoc. reflexivity.
  Qed.

  (* Whatever fuel makes the loop return, it returns the reference result. *)
  Lemma loop_spec : forall fuel sync (eng : engine) es r,
    run_loop fuel sync eng [] es acc0 = Some r -> r = spec_events sync eng es.
  Proof.
    intros fuel sync eng es r H.
    destruct (loop_inputs es sync eng acc0) as [c Hc].
    specialize (Hc fuel). rewrite acc_app_0_l in Hc.
    apply run_loop_mono with (k := c) in H. rewrite Nat.add_comm in H.
    rewrite H in Hc. inversion Hc. destruct (spec_events sync eng es); reflexivity.
  Qed.

  Lemma loop_terminates : forall sync (eng : engine) es,
    exists fuel, forall k, run_loop (fuel + k) sync eng [] es acc0 = Some (spec_events sync eng es).
  Proof.
    intros sync eng es. destruct (loop_inputs es sync eng acc0) as [c Hc].
    exists c. intros k. rewrite Hc, acc_app_0_l. destruct (spec_events sync eng es); reflexivity.
  Qed.

  Lemma process_as_batch : forall fuel (eng : engine) e,
    process fuel eng e = run_loop fuel false eng [] [e] acc0.
  Proof. intros. unfold Model.process. rewrite pop_input. reflexivity. Qed.

  Lemma spec_events_one : forall sync (eng : engine) e, spec_events sync eng [e] = spec_event sync eng e.
  Proof.
    intros. cbn [Spec.spec_events]. destruct (spec_event sync eng e) as [eng1 a1].
    rewrite acc_app_0_r. reflexivity.
  Qed.

  Lemma spec_events_app : forall l1 l2 sync (eng : engine),
    spec_events sync eng (l1 ++ l2) =
    let '(e1, a1) := spec_events sync eng l1 in
    let '(e2, a2) := spec_events sync e1 l2 in
    (e2, acc_app a1 a2).
  Proof.
    induction l1 as [|e l1 IH]; intros l2 sync eng.
    - cbn [app Spec.spec_events]. destruct (spec_events sync eng l2) as [e2 a2]. rewrite acc_app_0_l. reflexivity.
    - cbn [app Spec.spec_events]. destruct (spec_event sync eng e) as [eng1 a1].
      rewrite IH. destruct (spec_events sync eng1 l1) as [e1 a1'].
      destruct (spec_events sync e1 l2) as [e2 a2]. rewrite acc_app_assoc. reflexivity.
  Qed.

  (* ---- Engine::process once per event ---- *)
  Lemma process_each_spec : forall es fuel (eng : engine) r,
    process_each fuel eng es = Some r -> r = spec_events false eng es.
  Proof.
    induction es as [|e es IH]; intros fuel eng r H.
    - cbn in H. inversion H. reflexivity.
    - cbn [Spec.process_each] in H. rewrite process_as_batch in H.
      destruct (run_loop fuel false eng [] [e] acc0) as [[eng1 a1]|] eqn:H1; [|discriminate].
      apply loop_spec in H1. rewrite spec_events_one in H1.
      destruct (process_each fuel eng1 es) as [[eng2 a2]|] eqn:H2; [|discriminate].
      apply IH in H2. inversion H; subst; clear H.
      cbn [Spec.spec_events]. rewrite <- H1. rewrite <- H2. reflexivity.
  Qed.

  Lemma process_each_mono : forall es fuel (eng : engine) r,
    process_each fuel eng es = Some r -> forall k, process_each (fuel + k) eng es = Some r.
  Proof.
    induction es as [|e es IH]; intros fuel eng r H k.
    - exact H.
    - cbn [Spec.process_each] in *.
      unfold Model.process in *.
      destruct (run_loop fuel false eng [(e, 0)] [] acc0) as [[eng1 a1]|] eqn:H1; [|discriminate].
      rewrite (run_loop_mono _ _ _ _ _ _ _ H1 k).
      destruct (process_each fuel eng1 es) as [[eng2 a2]|] eqn:H2; [|discriminate].
      rewrite (IH _ _ _ H2 k). exact H.
  Qed.

  Lemma process_each_terminates : forall es (eng : engine),
    exists fuel, process_each fuel eng es = Some (spec_events false eng es).
  Proof.
    induction es as [|e es IH]; intros eng.
    - exists 0. reflexivity.
    - destruct (loop_terminates false eng [e]) as [f1 H1].
      rewrite spec_events_one in H1.
      destruct (spec_event false eng e) as [eng1 a1] eqn:HS.
      destruct (IH eng1) as [f2 H2].
      exists (f1 + f2). cbn [Spec.process_each Spec.spec_events].
      rewrite process_as_batch, H1, HS.
      apply process_each_mono with (k := f1) in H2. rewrite Nat.add_comm in H2. rewrite H2.
      destruct (spec_events false eng1 es). reflexivity.
  Qed.

  (* ---- one batch call after the other ---- *)
  Lemma process_batches_spec : forall bs fuel sync (eng : engine) r,
    process_batches fuel sync eng bs = Some r -> r = spec_events sync eng (concat bs).
  Proof.
    induction bs as [|b bs IH]; intros fuel sync eng r H.
    - cbn in H. inversion H. reflexivity.
    - cbn [Spec.process_batches] in H.
      destruct (run_loop fuel sync eng [] b acc0) as [[eng1 a1]|] eqn:H1; [|discriminate].
      apply loop_spec in H1.
      destruct (process_batches fuel sync eng1 bs) as [[eng2 a2]|] eqn:H2; [|discriminate].
      apply IH in H2. inversion H; subst; clear H.
      cbn [concat]. rewrite spec_events_app. rewrite <- H1. rewrite <- H2. reflexivity.
  Qed.

  Lemma process_batches_mono : forall bs fuel sync (eng : engine) r,
    process_batches fuel sync eng bs = Some r -> forall k, process_batches (fuel + k) sync eng bs = Some r.
  Proof.
    induction bs as [|b bs IH]; intros fuel sync eng r H k.
    - exact H.
    - cbn [Spec.process_batches] in *.
      destruct (run_loop fuel sync eng [] b acc0) as [[eng1 a1]|] eqn:H1; [|discriminate].
      rewrite (run_loop_mono _ _ _ _ _ _ _ H1 k).
      destruct (process_batches fuel sync eng1 bs) as [[eng2 a2]|] eqn:H2; [|discriminate].
      rewrite (IH _ _ _ _ H2 k). exact H.
  Qed.

  Lemma process_batches_terminates : forall bs sync (eng : engine),
    exists fuel, process_batches fuel sync eng bs = Some (spec_events sync eng (concat bs)).
  Proof.
    induction bs as [|b bs IH]; intros sync eng.
    - exists 0. reflexivity.
    - destruct (loop_terminates sync eng b) as [f1 H1].
      destruct (spec_events sync eng b) as [eng1 a1] eqn:HS.
      destruct (IH sync eng1) as [f2 H2].
      exists (f1 + f2). cbn [Spec.process_batches concat].
      rewrite H1. rewrite spec_events_app, HS.
      apply process_batches_mono with (k := f1) in H2. rewrite Nat.add_comm in H2. rewrite H2.
      destruct (spec_events sync eng1 (concat bs)). reflexivity.
  Qed.
End Loop.
