(* C17 on the level-wise semantics: the hand-offs are exactly the ones due for the queue
   entries taken (one per routed, existing stream, none at the depth limit), and the queue
   entries taken are exactly the inputs plus everything the hand-offs queued. *)
From Coq Require Import Permutation.
From VP Require Import Base.Tactics Dispatch.Gen_Consts Dispatch.Model Dispatch.Spec Dispatch.ProofsLoop.

Local Opaque MAX_CHAIN_DEPTH.

Section Once.
  Variable sstate : Type.
  Variable step_stream : N -> sstate -> event -> sstate * list event * list event.

  Notation engine := (engine sstate).
  Notation deliver := (deliver sstate step_stream).
  Notation deliver_all := (deliver_all sstate step_stream).
  Notation run_level := (run_level sstate step_stream).
  Notation run_levels := (run_levels sstate step_stream).
  Notation spec_event := (spec_event sstate step_stream).
  Notation spec_events := (spec_events sstate step_stream).
  Notation due := (due sstate).
  Notation skips := (skips sstate).
  Notation queued_by := (queued_by sstate).

  Lemma find_insert : forall (l : list (N * stream sstate)) n s m,
    find_stream (insert_stream l n s) m = if (n =? m)%N then Some s else find_stream l m.
  Proof.
    induction l as [|[k s0] l IH]; intros n s m.
    - cbn. destruct (N.eqb_spec n m); reflexivity.
    - cbn [insert_stream]. destruct (N.eqb_spec k n) as [Hkn|Hkn].
      + subst k. cbn [find_stream]. destruct (N.eqb_spec n m); reflexivity.
      + cbn [find_stream]. destruct (N.eqb_spec k m) as [Hkm|Hkm].
        * subst k. destruct (N.eqb_spec n m); [congruence|reflexivity].
        * apply IH.
  Qed.

  (* routing table, set of streams and their definitions: what never changes while events are processed *)
  Definition same_shape (a b : engine) : Prop :=
    e_router a = e_router b /\
    forall n, option_map (@st_def sstate) (find_stream (e_streams a) n)
              = option_map (@st_def sstate) (find_stream (e_streams b) n).

  Lemma same_shape_refl : forall a, same_shape a a.
  Proof. intros a. split; reflexivity. Qed.

  Lemma same_shape_trans : forall a b c, same_shape a b -> same_shape b c -> same_shape a c.
  Proof. intros a b c [H1 H2] [H3 H4]. split; [congruence|]. intros n. rewrite H2. apply H4. Qed.

  Lemma due_shape : forall a b x, same_shape a b -> due a x = due b x.
  Proof.
    intros a b [e d] [Hr Hs]. unfold Spec.due. rewrite Hr.
    destruct (d <? MAX_CHAIN_DEPTH); [|reflexivity]. f_equal.
    apply filter_ext. intros s. specialize (Hs s).
    destruct (find_stream (e_streams a) s), (find_stream (e_streams b) s); cbn in *; congruence.
  Qed.

  Lemma skips_shape : forall sync a b n, same_shape a b -> skips sync a n = skips sync b n.
  Proof.
    intros sync a b n [Hr Hs]. unfold Spec.skips. rewrite Hr. specialize (Hs n).
    destruct (find_stream (e_streams a) n), (find_stream (e_streams b) n); cbn in *; congruence.
  Qed.

  (* ---- one hand-off ---- *)
  Lemma deliver_once : forall sync (eng0 eng : engine) name e d,
    same_shape eng0 eng ->
    let '(eng', s, t, p) := deliver sync eng name e d in
    same_shape eng0 eng' /\
    map handoff t = (if is_some (find_stream (e_streams eng0) name) then [(name, e, d)] else []) /\
    p = flat_map (queued_by sync eng0) t.
  Proof.
    intros sync eng0 eng name e d Hsh.
    pose proof Hsh as [Hr Hs]. pose proof (Hs name) as Hn.
    unfold Model.deliver.
    destruct (find_stream (e_streams eng) name) as [st|] eqn:Hf.
    - destruct (step_stream name (st_state st) e) as [[s' em] cur].
      destruct (find_stream (e_streams eng0) name) as [st0|] eqn:Hf0; cbn in Hn; [|discriminate].
      assert (Hdef : st_def st0 = st_def st) by congruence.
      repeat split.
      + cbn [e_router]. congruence.
      + intros n. cbn [e_streams]. rewrite find_insert. rewrite Hs.
        destruct (N.eqb_spec name n); [subst n; rewrite Hf; reflexivity|reflexivity].
      + cbn [flat_map]. rewrite app_nil_r. unfold Spec.queued_by, Spec.skips.
        cbn [d_stream d_depth d_outputs]. rewrite Hf0, Hr, Hdef.
        destruct (sync && negb (has_routes (e_router eng) name) && negb (sd_has_process (st_def st))); reflexivity.
    - destruct (find_stream (e_streams eng0) name) eqn:Hf0; cbn in Hn; [discriminate|].
      repeat split; try reflexivity; assumption.
  Qed.

  Lemma deliver_all_once : forall names sync (eng0 eng : engine) e d,
    same_shape eng0 eng ->
    let '(eng', s, t, p) := deliver_all sync eng names e d in
    same_shape eng0 eng' /\
    map handoff t = map (fun n => (n, e, d)) (filter (fun n => is_some (find_stream (e_streams eng0) n)) names) /\
    p = flat_map (queued_by sync eng0) t.
  Proof.
    induction names as [|n ns IH]; intros sync eng0 eng e d Hsh.
    - cbn. repeat split; try reflexivity; apply Hsh.
    - cbn [Model.deliver_all].
      pose proof (deliver_once sync eng0 eng n e d Hsh) as H1.
      destruct (deliver sync eng n e d) as [[[eng1 s1] t1] p1].
      destruct H1 as (Hsh1 & Ht1 & Hp1).
      pose proof (IH sync eng0 eng1 e d Hsh1) as H2.
      destruct (deliver_all sync eng1 ns e d) as [[[eng2 s2] t2] p2].
      destruct H2 as (Hsh2 & Ht2 & Hp2).
      repeat split.
      + exact (proj1 Hsh2).
      + exact (proj2 Hsh2).
      + rewrite map_app, Ht1, Ht2. cbn [filter].
        destruct (is_some (find_stream (e_streams eng0) n)); reflexivity.
      + rewrite flat_map_app. congruence.
  Qed.

  (* ---- one level below the depth limit ---- *)
  Lemma run_level_once : forall lvl sync (eng0 eng : engine) d,
    same_shape eng0 eng -> d < MAX_CHAIN_DEPTH ->
    let '(eng', a, p) := run_level sync eng lvl d in
    same_shape eng0 eng' /\
    a_popped a = tag d lvl /\
    map handoff (a_trace a) = flat_map (due eng0) (tag d lvl) /\
    p = flat_map (queued_by sync eng0) (a_trace a).
  Proof.
    induction lvl as [|e r IH]; intros sync eng0 eng d Hsh Hd.
    - cbn. repeat split; try reflexivity; apply Hsh.
    - cbn [Spec.run_level].
      pose proof (deliver_all_once (routes_or_empty (e_router eng) (ety e)) sync eng0 eng e d Hsh) as H1.
      destruct (deliver_all sync eng (routes_or_empty (e_router eng) (ety e)) e d) as [[[eng1 s] t] p1].
      destruct H1 as (Hsh1 & Ht1 & Hp1).
      pose proof (IH sync eng0 eng1 d Hsh1 Hd) as H2.
      destruct (run_level sync eng1 r d) as [[eng2 a2] p2].
      destruct H2 as (Hsh2 & Hpop2 & Ht2 & Hp2).
      unfold acc_app; cbn [a_sent a_trace a_popped].
      repeat split.
      + exact (proj1 Hsh2).
      + exact (proj2 Hsh2).
      + rewrite Hpop2. reflexivity.
      + rewrite map_app, Ht1, Ht2. cbn [tag map flat_map]. f_equal.
        unfold Spec.due.
        assert (Hlt : (d <? MAX_CHAIN_DEPTH) = true) by (apply Nat.ltb_lt; exact Hd).
        rewrite Hlt. rewrite (proj1 Hsh). reflexivity.
      + rewrite flat_map_app. congruence.
  Qed.

  Lemma due_at_limit : forall (eng0 : engine) d lvl,
    MAX_CHAIN_DEPTH <= d -> flat_map (due eng0) (tag d lvl) = [].
  Proof.
    intros eng0 d lvl Hd. induction lvl as [|e r IH]; [reflexivity|].
    cbn [tag map flat_map]. fold (tag d r). rewrite IH. unfold Spec.due.
    assert (Hlt : (d <? MAX_CHAIN_DEPTH) = false) by (apply Nat.ltb_ge; exact Hd).
    rewrite Hlt. reflexivity.
  Qed.

  (* ---- all levels ---- *)
  Lemma run_levels_once : forall n sync (eng0 eng : engine) lvl d,
    same_shape eng0 eng -> n + d = MAX_CHAIN_DEPTH ->
    let '(eng', a) := run_levels n sync eng lvl d in
    same_shape eng0 eng' /\
    map handoff (a_trace a) = flat_map (due eng0) (a_popped a) /\
    Permutation (a_popped a) (tag d lvl ++ flat_map (queued_by sync eng0) (a_trace a)).
  Proof.
    induction n as [|n IH]; intros sync eng0 eng lvl d Hsh Hnd.
    - cbn [Spec.run_levels a_trace a_popped map flat_map]. repeat split; try apply Hsh.
      + rewrite due_at_limit by lia. reflexivity.
      + rewrite app_nil_r. apply Permutation_refl.
    - cbn [Spec.run_levels].
      pose proof (run_level_once lvl sync eng0 eng d Hsh) as H1.
      destruct (run_level sync eng lvl d) as [[eng1 a1] p] eqn:HL.
      pose proof (run_level_pushed_depth _ _ _ _ _ _ _ _ _ HL) as Hp.
      destruct H1 as (Hsh1 & Hpop1 & Ht1 & Hp1); [lia|].
      pose proof (IH sync eng0 eng1 (map fst p) (S d) Hsh1) as H2.
      destruct (run_levels n sync eng1 (map fst p) (S d)) as [eng2 a2].
      destruct H2 as (Hsh2 & Ht2 & Hperm2); [lia|].
      unfold acc_app; cbn [a_sent a_trace a_popped].
      repeat split.
      + exact (proj1 Hsh2).
      + exact (proj2 Hsh2).
      + rewrite map_app, flat_map_app, Ht1, Ht2, Hpop1. reflexivity.
      + rewrite Hpop1, flat_map_app. apply Permutation_app_head.
        rewrite <- Hp in Hperm2. rewrite Hp1 in Hperm2. exact Hperm2.
  Qed.

  (* ---- a sequence of inputs ---- *)
  Lemma spec_events_once : forall es sync (eng0 eng : engine),
    same_shape eng0 eng ->
    let '(eng', a) := spec_events sync eng es in
    same_shape eng0 eng' /\
    map handoff (a_trace a) = flat_map (due eng0) (a_popped a) /\
    Permutation (a_popped a) (tag 0 es ++ flat_map (queued_by sync eng0) (a_trace a)).
  Proof.
    induction es as [|e es IH]; intros sync eng0 eng Hsh.
    - cbn. repeat split; try apply Hsh. constructor.
    - cbn [Spec.spec_events]. unfold Spec.spec_event.
      pose proof (run_levels_once MAX_CHAIN_DEPTH sync eng0 eng [e] 0 Hsh) as H1.
      destruct (run_levels MAX_CHAIN_DEPTH sync eng [e] 0) as [eng1 a1].
      destruct H1 as (Hsh1 & Ht1 & Hperm1); [lia|].
      pose proof (IH sync eng0 eng1 Hsh1) as H2.
      destruct (spec_events sync eng1 es) as [eng2 a2].
      destruct H2 as (Hsh2 & Ht2 & Hperm2).
      unfold acc_app; cbn [a_sent a_trace a_popped].
      repeat split.
      + exact (proj1 Hsh2).
      + exact (proj2 Hsh2).
      + rewrite map_app, flat_map_app, Ht1, Ht2. reflexivity.
      + rewrite flat_map_app. cbn [tag map app] in *. fold (tag 0 es).
        eapply Permutation_trans; [apply Permutation_app; eassumption|].
        cbn [app]. apply perm_skip. apply Permutation_app_swap_app.
  Qed.

  (* routes never list a stream twice => each due hand-off is due once *)
  Lemma due_nodup : forall (eng0 : engine) e d,
    NoDup (routes_or_empty (e_router eng0) (ety e)) -> NoDup (due eng0 (e, d)).
  Proof.
    intros eng0 e d H. unfold Spec.due. destruct (d <? MAX_CHAIN_DEPTH); [|constructor].
    apply FinFun.Injective_map_NoDup.
    - intros x y Hxy. congruence.
    - apply NoDup_filter. exact H.
  Qed.
End Once.
