(* Property theorems for C16 / C17 / C23 (statements only; proofs are in Proofs*.v).
   All of them are about Dispatch/Model.v, the model the correspondence checks run, for
   EVERY state type and EVERY family of deterministic stream pipelines [step_stream]. *)
From Coq Require Import Permutation.
From VP Require Import Base.Tactics Dispatch.Gen_Consts Dispatch.Model Dispatch.Spec
     Dispatch.ProofsLoop Dispatch.ProofsSync Dispatch.ProofsOnce Dispatch.ProofsRouter Dispatch.ProofsReload.

Section Props.
  Variable sstate : Type.
  Variable step_stream : N -> sstate -> event -> sstate * list event * list event.
  Variable init_state : N -> sstate.

  Notation engine := (engine sstate).
  Notation process_each := (process_each sstate step_stream).
  Notation process_batches := (process_batches sstate step_stream).
  Notation spec_events := (spec_events sstate step_stream).
  Notation load := (load sstate init_state).
  Notation reload := (reload sstate init_state).
  Notation reachable := (reachable sstate step_stream init_state).

  (* ================================================================ C16 *)
  (* Any engine, any events, any split into batches: Engine::process once per event and
     Engine::process_batch once per batch leave the same engine and accumulate the same
     output channel, the same hand-offs and the same queue history; process_batch_sync once
     per batch leaves the same engine, sends the same outputs and makes the same hand-offs
     (same stream, event, depth, emitted events, output bodies) in the same order. *)
  Theorem C16_entry_points_agree :
    forall (eng : engine) (es : list event) (bs : list (list event)) f1 f2 f3 r1 r2 r3,
      concat bs = es ->
      process_each f1 eng es = Some r1 ->
      process_batches f2 false eng bs = Some r2 ->
      process_batches f3 true eng bs = Some r3 ->
      r1 = r2 /\
      fst r3 = fst r1 /\ a_sent (snd r3) = a_sent (snd r1) /\
      Forall2 same_handoff (a_trace (snd r1)) (a_trace (snd r3)).
  Proof.
    intros eng es bs f1 f2 f3 r1 r2 r3 Hc H1 H2 H3.
    apply (process_each_spec sstate step_stream) in H1.
    apply (process_batches_spec sstate step_stream) in H2.
    apply (process_batches_spec sstate step_stream) in H3.
    rewrite Hc in *. subst r1 r2 r3. split; [reflexivity|].
    exact (spec_events_sync_async sstate step_stream es eng).
  Qed.

  (* The loops always terminate (the hypotheses of C16_entry_points_agree are satisfiable for
     every input) and return the level-wise reference result. *)
  Theorem C16_entry_points_terminate :
    forall (eng : engine) (bs : list (list event)),
      (exists fuel, process_each fuel eng (concat bs) = Some (spec_events false eng (concat bs))) /\
      (exists fuel, process_batches fuel false eng bs = Some (spec_events false eng (concat bs))) /\
      (exists fuel, process_batches fuel true eng bs = Some (spec_events true eng (concat bs))).
  Proof.
    intros eng bs. repeat split.
    - apply (process_each_terminates sstate step_stream).
    - apply (process_batches_terminates sstate step_stream).
    - apply (process_batches_terminates sstate step_stream).
  Qed.

  (* ================================================================ C17 *)
  (* add_route never lists a stream twice; the table holds exactly the registrations, in
     first-registration order. *)
  Theorem C17_router_insertion_order :
    forall (regs : list (N * N)) (t : N),
      routes_or_empty (register_all [] regs) t =
      fold_left push_new (map snd (filter (fun ts => (fst ts =? t)%N) regs)) [] /\
      NoDup (routes_or_empty (register_all [] regs) t) /\
      (forall s, In s (routes_or_empty (register_all [] regs) t) <-> In (t, s) regs).
  Proof.
    intros regs t. repeat split.
    - apply routes_register_all.
    - apply register_all_nodup. constructor.
    - intros H. apply register_all_in in H. destruct H as [[]|H]; exact H.
    - intros H. apply register_all_in. right; exact H.
  Qed.

  (* The routing table of a loaded program: a stream is routed for a type iff one of its
     declarations registers for it, and never twice. *)
  Theorem C17_router_of_program :
    forall (p : program) (t : N),
      NoDup (routes_or_empty (e_router (load empty_engine p)) t) /\
      (forall s, In s (routes_or_empty (e_router (load empty_engine p)) t) <->
                 exists d, In (s, d) p /\ In t (sd_keys d)).
  Proof.
    intros p t. split.
    - apply load_routes_nodup.
    - intros s. apply load_routes_in.
  Qed.

  (* What a queue entry (event, depth) is due: on every reachable engine, one hand-off to
     each stream routed for its type (that exists), none to any other stream, none at or
     beyond the depth limit -- and never the same hand-off twice. *)
  Theorem C17_due_exactly_once :
    forall (p : program) (eng : engine) (e : event) (d : nat),
      reachable p eng ->
      NoDup (due sstate eng (e, d)) /\
      (forall s e' d',
          In (s, e', d') (due sstate eng (e, d)) <->
          e' = e /\ d' = d /\ d < MAX_CHAIN_DEPTH /\
          In s (routes_or_empty (e_router eng) (ety e)) /\
          find_stream (e_streams eng) s <> None).
  Proof.
    intros p eng e d Hre.
    pose proof (reachable_loaded sstate step_stream init_state p eng Hre) as [Hr _].
    split.
    - apply due_nodup. rewrite Hr. apply load_routes_nodup.
    - intros s e' d'. unfold due. destruct (Nat.ltb_spec d MAX_CHAIN_DEPTH) as [Hlt|Hge].
      + rewrite in_map_iff. split.
        * intros [x [Hx Hin]]. inversion Hx; subst. apply filter_In in Hin. destruct Hin as [Hin Hs].
          repeat split; try assumption. destruct (find_stream (e_streams eng) s); [discriminate|discriminate].
        * intros (He & Hd & _ & Hin & Hs). subst. exists s. split; [reflexivity|].
          apply filter_In. split; [assumption|]. destruct (find_stream (e_streams eng) s); [reflexivity|congruence].
      + split; [intros []|]. intros (_ & _ & Hlt & _). lia.
  Qed.

  (* Every entry point: the hand-offs made are exactly the due ones of the queue entries
     taken, in order; and the queue entries taken are exactly the inputs (depth 0) plus
     everything the hand-offs queued (depth + 1) -- each once. *)
  Theorem C17_exactly_once :
    forall (sync : bool) (fuel : nat) (eng : engine) (bs : list (list event)) r,
      process_batches fuel sync eng bs = Some r ->
      map handoff (a_trace (snd r)) = flat_map (due sstate eng) (a_popped (snd r)) /\
      Permutation (a_popped (snd r))
                  (tag 0 (concat bs) ++ flat_map (queued_by sstate sync eng) (a_trace (snd r))).
  Proof.
    intros sync fuel eng bs r H.
    apply (process_batches_spec sstate step_stream) in H. subst r.
    pose proof (spec_events_once sstate step_stream (concat bs) sync eng eng (same_shape_refl sstate eng)) as H1.
    destruct (spec_events sync eng (concat bs)) as [eng' a]. cbn [snd].
    destruct H1 as (_ & Ht & Hp). split; assumption.
  Qed.

  Theorem C17_exactly_once_per_event :
    forall (fuel : nat) (eng : engine) (es : list event) r,
      process_each fuel eng es = Some r ->
      map handoff (a_trace (snd r)) = flat_map (due sstate eng) (a_popped (snd r)) /\
      Permutation (a_popped (snd r))
                  (tag 0 es ++ flat_map (queued_by sstate false eng) (a_trace (snd r))).
  Proof.
    intros fuel eng es r H.
    apply (process_each_spec sstate step_stream) in H. subst r.
    pose proof (spec_events_once sstate step_stream es false eng eng (same_shape_refl sstate eng)) as H1.
    destruct (spec_events false eng es) as [eng' a]. cbn [snd].
    destruct H1 as (_ & Ht & Hp). split; assumption.
  Qed.

  (* ================================================================ C23 *)
  (* Reloading the program an engine is running -- at any point of any history of events,
     batches and earlier reloads -- returns the very same engine (routing table, every
     stream's definition and state) and reports nothing added, removed or updated. *)
  Theorem C23_reload_same_program_is_identity :
    forall (p : program) (eng : engine),
      reachable p eng ->
      fst (reload eng p) = eng /\
      r_added (snd (reload eng p)) = [] /\ r_removed (snd (reload eng p)) = [] /\
      r_updated (snd (reload eng p)) = [].
  Proof.
    intros p eng H. apply (reload_same sstate init_state).
    exact (reachable_loaded sstate step_stream init_state p eng H).
  Qed.

  (* Reloading with any program p': the routing table is the one of a fresh load of p'; a
     stream not declared in p' is gone; a stream whose declaration is unchanged keeps its
     definition and state; every other stream of p' (changed or new) is exactly the stream
     of a fresh load of p' -- which starts in the initial state of its declaration. *)
  Theorem C23_reload_applies_changes :
    forall (p : program) (eng : engine) (p' : program),
      reachable p eng ->
      e_router (fst (reload eng p')) = e_router (load empty_engine p') /\
      (forall n,
          find_stream (e_streams (fst (reload eng p'))) n =
          match find_stream (e_streams (load empty_engine p')) n with
          | None => None
          | Some w =>
            match find_stream (e_streams eng) n with
            | Some o => if (sd_decl (st_def o) =? sd_decl (st_def w))%N then Some o else Some w
            | None => Some w
            end
          end) /\
      (forall n w, find_stream (e_streams (load empty_engine p')) n = Some w ->
                   st_state w = init_state (sd_decl (st_def w))).
  Proof.
    intros p eng p' _. repeat split.
    - intros n. apply (reload_find sstate init_state).
    - intros n w H. eapply (load_fresh sstate init_state); [|exact H].
      intros n' w' H'. cbn in H'. discriminate.
  Qed.
End Props.

(* ------------------------------------------------------------------ examples
   A concrete instance showing the hypotheses above are satisfiable on non-trivial runs:
   three stateful streams (a counter each), one consuming both a raw type and a derived
   stream, one without emit and without consumers (skip_rename in the sync path). *)
Definition ex_step (name : N) (st : N) (e : event) : N * list event * list event :=
  if (name =? 12)%N then ((st + 1)%N, [], [e])
  else ((st + 1)%N, [mkEvent name (ebody e + st)], [mkEvent name (ebody e + st)]).
Definition ex_init (_ : N) : N := 0%N.
Definition ex_prog : program :=
  [ (10%N, mkSdef 1 [1%N] false); (11%N, mkSdef 2 [10%N; 1%N] false); (12%N, mkSdef 3 [1%N] false) ].
Definition ex_eng : engine N := load N ex_init empty_engine ex_prog.
Definition ex_events : list event := [mkEvent 1 5; mkEvent 1 7].

Example C16_example :
  exists r1 r3,
    process_each N ex_step 100 ex_eng ex_events = Some r1 /\
    process_batches N ex_step 100 false ex_eng [ex_events] = Some r1 /\
    process_batches N ex_step 100 true ex_eng [[mkEvent 1 5]; [mkEvent 1 7]] = Some r3 /\
    length (a_sent (snd r1)) = 6 /\ length (a_trace (snd r3)) = 8.
Proof. eexists. eexists. vm_compute. repeat split. Qed.

Example C23_example_reachable :
  exists eng, reachable N ex_step ex_init ex_prog eng /\ eng <> ex_eng.
Proof.
  destruct (process_batch N ex_step 100 ex_eng ex_events) as [[eng a]|] eqn:H; [|vm_compute in H; discriminate].
  exists eng. split.
  - eapply R_run; [apply R_load|exact H].
  - vm_compute in H. inversion H. vm_compute. discriminate.
Qed.
