(* Executable model of the engine's DISPATCH layer (definitions only).

   Mirrors, function by function:
     crates/varpulis-runtime/src/engine/router.rs
        EventRouter::get_routes / add_route            -> get_routes, add_route
     crates/varpulis-runtime/src/engine/mod.rs
        the body of `for stream_name in stream_names.iter()` in process_inner /
        process_batch / process_batch_sync (+ the rename tail of
        pipeline::execute_pipeline[_sync])             -> deliver, deliver_all
        the `while let Some((current_event, depth)) = pending_events.pop_front()
              .or_else(|| inputs.next()...)` loop      -> run_loop
        Engine::process / process_inner                -> process
        Engine::process_batch (= process_batch_shared) -> process_batch
        Engine::process_batch_sync                     -> process_batch_sync
        Engine::register_stream (routing + insertion)  -> register_stream
        Engine::load / load_program (stream decls)     -> load
        Engine::reload                                 -> reload

   What is abstract: a stream's pipeline (filters, windows, aggregates, SASE engine,
   join buffer ...) is a deterministic state machine given by the Section variable
   [step_stream]; it returns the emitted events and the pipeline's `current_events`
   BEFORE the final rename (the rename itself and the decision to skip it are modelled).
   Event type names and stream names live in one namespace (interned as N), as in the
   code where both are the keys of the routing table.  Hash maps are association lists
   with unique keys; their iteration order is never used by the modelled code.
   MAX_CHAIN_DEPTH comes from Gen_Consts.v, regenerated from the source on every run. *)
From VP Require Import Base.Tactics Dispatch.Gen_Consts.

Record event := mkEvent { ety : N; ebody : N }.
Definition rename (name : N) (e : event) : event := mkEvent name (ebody e).

(* ------------------------------------------------------------------ router.rs *)
Definition router := list (N * list N).

Fixpoint get_routes (r : router) (t : N) : option (list N) :=
  match r with
  | [] => None
  | (k, l) :: r' => if (k =? t)%N then Some l else get_routes r' t
  end.

(* FxHashMap::remove followed by insert of the same key *)
Fixpoint set_routes (r : router) (t : N) (l : list N) : router :=
  match r with
  | [] => [(t, l)]
  | (k, l0) :: r' => if (k =? t)%N then (k, l) :: r' else (k, l0) :: set_routes r' t l
  end.

Definition mem_N (x : N) (l : list N) : bool := existsb (N.eqb x) l.

Definition add_route (r : router) (t s : N) : router :=
  let streams := match get_routes r t with Some l => l | None => [] end in
  let streams' := if mem_N s streams then streams else streams ++ [s] in
  set_routes r t streams'.

(* `.get_routes(ty).cloned().unwrap_or_else(|| Arc::from([]))` *)
Definition routes_or_empty (r : router) (t : N) : list N :=
  match get_routes r t with Some l => l | None => [] end.

Definition has_routes (r : router) (t : N) : bool :=
  match get_routes r t with Some _ => true | None => false end.

(* ------------------------------------------------------------------ streams *)
Record sdef := mkSdef {
  sd_decl : N;            (* identifies the declaration (source + ops AST); equal ids <-> equal ASTs *)
  sd_keys : list N;       (* the add_route calls register_stream makes for it, in order *)
  sd_has_process : bool   (* operations contain RuntimeOp::Process *)
}.

Record delivery := mkDelivery {
  d_stream : N; d_event : event; d_depth : nat;
  d_emitted : list event;      (* result.emitted_events *)
  d_outputs : list event       (* result.output_events *)
}.

Record report := mkReport {
  r_added : list N; r_removed : list N; r_updated : list N; r_preserved : list N
}.

Definition is_nil {A} (l : list A) : bool := match l with [] => true | _ => false end.

(* What one iteration of the while loop accumulates. *)
Record acc := mkAcc {
  a_sent : list event;             (* output channel, in order *)
  a_trace : list delivery;         (* hand-offs to stream pipelines, in order *)
  a_popped : list (event * nat)    (* queue entries taken, in order (with their depth) *)
}.
Definition acc0 : acc := mkAcc [] [] [].
Definition acc_app (a b : acc) : acc :=
  mkAcc (a_sent a ++ a_sent b) (a_trace a ++ a_trace b) (a_popped a ++ a_popped b).

Section Engine.
  Variable sstate : Type.
  (* name, state, delivered event |-> state', emitted_events, current_events before the rename *)
  Variable step_stream : N -> sstate -> event -> sstate * list event * list event.
  (* state of a freshly compiled declaration *)
  Variable init_state : N -> sstate.

  Record stream := mkStream { st_def : sdef; st_state : sstate }.
  Record engine := mkEngine { e_router : router; e_streams : list (N * stream) }.

  Fixpoint find_stream (l : list (N * stream)) (name : N) : option stream :=
    match l with
    | [] => None
    | (k, s) :: l' => if (k =? name)%N then Some s else find_stream l' name
    end.

  (* FxHashMap::insert *)
  Fixpoint insert_stream (l : list (N * stream)) (name : N) (s : stream) : list (N * stream) :=
    match l with
    | [] => [(name, s)]
    | (k, s0) :: l' => if (k =? name)%N then (k, s) :: l' else (k, s0) :: insert_stream l' name s
    end.

  Fixpoint remove_stream (l : list (N * stream)) (name : N) : list (N * stream) :=
    match l with
    | [] => []
    | (k, s0) :: l' => if (k =? name)%N then remove_stream l' name else (k, s0) :: remove_stream l' name
    end.

  (* Body of `for stream_name in stream_names.iter() { if let Some(stream) = ... }`.
     [sync] = we are in process_batch_sync (the only place with skip_rename).
     Returns the engine, what goes to the output channel, the trace entry, and what is
     pushed on the pending queue. *)
  Definition deliver (sync : bool) (eng : engine) (name : N) (e : event) (depth : nat)
    : engine * list event * list delivery * list (event * nat) :=
    match find_stream (e_streams eng) name with
    | None => (eng, [], [], [])
    | Some st =>
      let '(s', emitted, cur) := step_stream name (st_state st) e in
      let has_proc := sd_has_process (st_def st) in
      let skip_rename := sync && negb (has_routes (e_router eng) name) && negb has_proc in
      let outputs := if skip_rename then cur else map (rename name) cur in
      let send_outputs := is_nil emitted && has_proc in
      let sent := emitted ++ (if send_outputs then outputs else []) in
      let pushed := if skip_rename then [] else map (fun o => (o, S depth)) outputs in
      (mkEngine (e_router eng) (insert_stream (e_streams eng) name (mkStream (st_def st) s')),
       sent, [mkDelivery name e depth emitted outputs], pushed)
    end.

  Fixpoint deliver_all (sync : bool) (eng : engine) (names : list N) (e : event) (depth : nat)
    : engine * list event * list delivery * list (event * nat) :=
    match names with
    | [] => (eng, [], [], [])
    | n :: ns =>
      let '(eng1, s1, t1, p1) := deliver sync eng n e depth in
      let '(eng2, s2, t2, p2) := deliver_all sync eng1 ns e depth in
      (eng2, s1 ++ s2, t1 ++ t2, p1 ++ p2)
    end.

  (* `pending_events.pop_front().or_else(|| inputs.next().map(|e| (e, 0)))` *)
  Definition pop (queue : list (event * nat)) (inputs : list event)
    : option ((event * nat) * list (event * nat) * list event) :=
    match queue with
    | x :: q => Some (x, q, inputs)
    | [] => match inputs with
            | e :: ins => Some ((e, 0), [], ins)
            | [] => None
            end
    end.

  (* The while loop shared by all entry points; [fuel] bounds the number of iterations
     (None = fuel exhausted; Proofs show enough fuel always exists and the result does not
     depend on it). *)
  Fixpoint run_loop (fuel : nat) (sync : bool) (eng : engine) (queue : list (event * nat))
           (inputs : list event) (a : acc) : option (engine * acc) :=
    match pop queue inputs with
    | None => Some (eng, a)
    | Some ((e, depth), q, ins) =>
      match fuel with
      | O => None
      | S fuel' =>
        if MAX_CHAIN_DEPTH <=? depth then
          run_loop fuel' sync eng q ins (acc_app a (mkAcc [] [] [(e, depth)]))
        else
          let names := routes_or_empty (e_router eng) (ety e) in
          let '(eng', s, t, p) := deliver_all sync eng names e depth in
          run_loop fuel' sync eng' (q ++ p) ins (acc_app a (mkAcc s t [(e, depth)]))
      end
    end.

  (* Engine::process -> process_inner: the queue starts with the event at depth 0. *)
  Definition process (fuel : nat) (eng : engine) (e : event) : option (engine * acc) :=
    run_loop fuel false eng [(e, 0)] [] acc0.

  (* Engine::process_batch / process_batch_shared *)
  Definition process_batch (fuel : nat) (eng : engine) (es : list event) : option (engine * acc) :=
    run_loop fuel false eng [] es acc0.

  (* Engine::process_batch_sync *)
  Definition process_batch_sync (fuel : nat) (eng : engine) (es : list event) : option (engine * acc) :=
    run_loop fuel true eng [] es acc0.

  (* ---------------------------------------------------------------- load / reload *)
  Definition empty_engine : engine := mkEngine [] [].

  Definition register_stream (eng : engine) (name : N) (d : sdef) : engine :=
    mkEngine (fold_left (fun r t => add_route r t name) (sd_keys d) (e_router eng))
             (insert_stream (e_streams eng) name (mkStream d (init_state (sd_decl d)))).

  Definition program := list (N * sdef).

  Definition load (eng : engine) (p : program) : engine :=
    fold_left (fun e nd => register_stream e (fst nd) (snd nd)) p eng.

  Definition names_of (l : list (N * stream)) : list N := map fst l.

  (* Engine::reload.  A stream present before and after is `updated` when its declaration
     differs (source kind / operation count differ only if the declaration does), otherwise
     `preserved`: it keeps its definition object and its state. *)
  Definition reload (eng : engine) (p : program) : engine * report :=
    let new := load empty_engine p in
    let old_names := names_of (e_streams eng) in
    let new_names := names_of (e_streams new) in
    let added := filter (fun n => negb (mem_N n old_names)) new_names in
    let removed := filter (fun n => negb (mem_N n new_names)) old_names in
    let both := filter (fun n => mem_N n new_names) old_names in
    let changed (n : N) : bool :=
      match find_stream (e_streams eng) n, find_stream (e_streams new) n with
      | Some o, Some w => negb (sd_decl (st_def o) =? sd_decl (st_def w))%N
      | _, _ => true
      end in
    let updated := filter changed both in
    let preserved := filter (fun n => negb (changed n)) both in
    let s1 := fold_left remove_stream removed (e_streams eng) in
    let take (l : list (N * stream)) (n : N) :=
      match find_stream (e_streams new) n with
      | Some w => insert_stream l n w
      | None => l
      end in
    let s2 := fold_left take added s1 in
    let s3 := fold_left take updated s2 in
    (mkEngine (e_router new) s3, mkReport added removed updated preserved).

End Engine.

Arguments mkStream {sstate}.
Arguments st_def {sstate}.
Arguments st_state {sstate}.
Arguments mkEngine {sstate}.
Arguments e_router {sstate}.
Arguments e_streams {sstate}.
Arguments find_stream {sstate}.
Arguments insert_stream {sstate}.
Arguments remove_stream {sstate}.
Arguments empty_engine {sstate}.
Arguments names_of {sstate}.
