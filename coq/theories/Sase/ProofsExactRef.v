(* C02, reference side: the per-start greedy semantics as a state machine ([gstep]),
   the simultaneous simulation of all live attempts ([sim]) and the lemma that the
   simulation emits exactly what following every start event separately gives. *)
From Coq Require Import Permutation.
From VP Require Import Base.Tactics Zdd.Model Sase.Model Sase.Ref Sase.ProofsSound.

Definition gstate := (list step * captured * list (event * option N))%type.
Inductive gout := GDead | GDone (stk : list (event * option N)) | GLive (g : gstate).

Definition ids (stk : list (event * option N)) : list N := map (fun p => eid (fst p)) stk.

Section Ref.
  Variable negs : list (N * option pred).
  Variable part : option N.

  (* one event against one attempt standing before the steps [rest]: a .not hit kills it
     (checked first, as the engine does), otherwise the earliest event of the attempt's
     partition satisfying the next step is taken *)
  Definition gstep (key : pkey) (g : gstate) (x : event) : gout :=
    let '(rest, c, stk) := g in
    if neg_hit negs x c then GDead else
    match rest with
    | [] => GLive g
    | s :: rest' =>
      if pkey_eqb (key_of part x) key && step_ok s x c then
        let stk' := stk ++ [(x, st_alias s)] in
        match rest' with
        | [] => GDone stk'
        | _ => GLive (rest', bind_alias c x (st_alias s), stk')
        end
      else GLive g
    end.

  Fixpoint grun (key : pkey) (g : gstate) (evs : list event) : option (list (event * option N)) :=
    match evs with
    | [] => None
    | x :: evs' =>
      match gstep key g x with
      | GDead => None
      | GDone stk => Some stk
      | GLive g' => grun key g' evs'
      end
    end.

  Definition opt_ids (o : option (list (event * option N))) : list (list N) :=
    match o with Some stk => [ids stk] | None => [] end.

  Variable s0 : step.
  Variable rest0 : list step.

  Definition start_state (x : event) : pkey * gstate :=
    (key_of part x, (rest0, bind_alias [] x (st_alias s0), [(x, st_alias s0)])).

  (* engine-faithful reference: every start event followed separately *)
  Fixpoint ref_e (evs : list event) : list (list N) :=
    match evs with
    | [] => []
    | x :: evs' =>
      (if step_ok s0 x [] then opt_ids (grun (fst (start_state x)) (snd (start_state x)) evs') else [])
      ++ ref_e evs'
    end.

  (* all attempts at once *)
  Definition lives (outs : list (pkey * gout)) : list (pkey * gstate) :=
    flat_map (fun '(k, o) => match o with GLive g' => [(k, g')] | _ => [] end) outs.
  Definition dones (outs : list (pkey * gout)) : list (list N) :=
    flat_map (fun '(k, o) => match o with GDone stk => [ids stk] | _ => [] end) outs.
  Definition step_all (sts : list (pkey * gstate)) (x : event) : list (pkey * gout) :=
    map (fun '(k, g) => (k, gstep k g x)) sts.
  Definition news (x : event) : list (pkey * gstate) := if step_ok s0 x [] then [start_state x] else [].

  Fixpoint sim (sts : list (pkey * gstate)) (evs : list event) : list (list N) :=
    match evs with
    | [] => []
    | x :: evs' =>
      let outs := step_all sts x in
      dones outs ++ sim (lives outs ++ news x) evs'
    end.

  Definition follow (evs : list event) (st : pkey * gstate) : list (list N) := opt_ids (grun (fst st) (snd st) evs).

  Lemma follow_cons x evs' sts :
    Permutation (flat_map (follow (x :: evs')) sts)
                (dones (step_all sts x) ++ flat_map (follow evs') (lives (step_all sts x))).
  Proof.
    induction sts as [|[k g] sts IH]; [reflexivity|].
    cbn [flat_map step_all map dones lives]. unfold follow at 1. cbn [fst snd grun].
    fold (step_all sts x). fold (dones (step_all sts x)). fold (lives (step_all sts x)).
    destruct (gstep k g x) as [|stk|g'].
    - cbn. exact IH.
    - cbn. constructor. exact IH.
    - cbn [opt_ids app flat_map]. fold (follow evs' (k, g')).
      rewrite IH. rewrite !app_assoc. apply Permutation_app_tail. apply Permutation_app_comm.
  Qed.

  Theorem sim_is_ref_e : forall evs sts,
    Permutation (sim sts evs) (flat_map (follow evs) sts ++ ref_e evs).
  Proof.
    induction evs as [|x evs' IH]; intros sts.
    - cbn. induction sts as [|[k g] sts IHs]; [reflexivity | exact IHs].
    - cbn [sim ref_e]. rewrite IH. rewrite flat_map_app.
      rewrite (follow_cons x evs' sts).
      rewrite <- !app_assoc. apply Permutation_app_head. apply Permutation_app_head.
      apply Permutation_app_tail.
      unfold news. destruct (step_ok s0 x []); [|reflexivity].
      cbn. rewrite app_nil_r. reflexivity.
  Qed.

  Corollary sim_from_nothing evs : Permutation (sim [] evs) (ref_e evs).
  Proof. exact (sim_is_ref_e evs []). Qed.
End Ref.
