(* C02: the engine-faithful reference [ref_e] against the reference of the property text
   ([Sase.Ref.ref_matches]).  The two walks differ in exactly one situation: an event that a
   .not clause hits while the same event would complete the attempt.  [known_c02] decides
   whether a stream contains that situation; outside it the two references are equal. *)
From VP Require Import Base.Tactics Zdd.Model Sase.Model Sase.Ref Sase.ProofsSound Sase.ProofsExactRef.

Section Text.
  Variable negs : list (N * option pred).
  Variable part : option N.

  (* follows one attempt as the engine does; true iff it dies on an event that would have completed it *)
  Fixpoint hoc (key : pkey) (g : gstate) (evs : list event) : bool :=
    match evs with
    | [] => false
    | x :: evs' =>
      let '(rest, c, stk) := g in
      if neg_hit negs x c then
        match rest with
        | [s] => pkey_eqb (key_of part x) key && step_ok s x c
        | _ => false
        end
      else match gstep negs part key g x with
           | GLive g' => hoc key g' evs'
           | _ => false
           end
    end.

  Lemma ids_snoc stk x a : ids (stk ++ [(x, a)]) = ids stk ++ [eid x].
  Proof. unfold ids. rewrite map_app. reflexivity. Qed.

  Lemma greedy_grun : forall evs key rest c stk, rest <> [] -> hoc key (rest, c, stk) evs = false ->
    greedy negs part key rest c (ids stk) evs = option_map ids (grun negs part key (rest, c, stk) evs).
  Proof.
    induction evs as [|x evs IH]; intros key rest c stk Ne Hc.
    - destruct rest; [congruence | reflexivity].
    - destruct rest as [|s rest']; [congruence|].
      cbn [greedy grun hoc gstep] in *.
      destruct (neg_hit negs x c) eqn:Nh.
      + (* the .not clause hits: outside the class the event does not also complete the attempt *)
        cbn [andb].
        destruct rest' as [|s2 rest2].
        * rewrite Hc. reflexivity.
        * rewrite andb_false_r. reflexivity.
      + cbn [andb].
        destruct (pkey_eqb (key_of part x) key && step_ok s x c) eqn:Adv.
        * destruct rest' as [|s2 rest2].
          -- destruct evs; cbn [greedy option_map]; rewrite ids_snoc; reflexivity.
          -- rewrite <- (ids_snoc stk x (st_alias s)). apply IH; [discriminate | exact Hc].
        * apply IH; [discriminate | exact Hc].
  Qed.

  Variable s0 : step.
  Variable rest0 : list step.

  (* some attempt of the stream is in the situation *)
  Fixpoint known_c02 (evs : list event) : bool :=
    match evs with
    | [] => false
    | x :: evs' =>
      (step_ok s0 x [] && hoc (fst (start_state part s0 rest0 x)) (snd (start_state part s0 rest0 x)) evs')
      || known_c02 evs'
    end.

  Theorem ref_text_is_ref_e : rest0 <> [] -> forall evs, known_c02 evs = false ->
    ref_matches negs part (s0 :: rest0) evs = ref_e negs part s0 rest0 evs.
  Proof.
    intros Two. induction evs as [|x evs IH]; intros K; [reflexivity|].
    cbn [known_c02] in K. apply orb_false_iff in K. destruct K as [K1 K2].
    cbn [ref_matches ref_e]. rewrite (IH K2). f_equal.
    destruct (step_ok s0 x []) eqn:So; [|reflexivity].
    cbn [andb] in K1. unfold start_state in *. cbn [fst snd] in *.
    change [eid x] with (ids [(x, st_alias s0)]).
    rewrite (greedy_grun evs _ _ _ _ Two K1).
    destruct (grun negs part (key_of part x) (rest0, bind_alias [] x (st_alias s0), [(x, st_alias s0)]) evs); reflexivity.
  Qed.
End Text.
