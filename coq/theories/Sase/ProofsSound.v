(* C01, engine level: every match the engine reports has a derivation -- a contiguous
   segment of the input stream in which the stack's events are consumed by NFA moves,
   each matching its state's type and filter under the captures made before it, and
   every other event of the segment (and every consumed one) misses all .not clauses.
   Generic in the NFA; ProofsCompile.v relates derivations of compiled NFAs to the pattern. *)
From VP Require Import Base.Tactics Zdd.Model Sase.Model Sase.ProofsBounds.

Definition caps_of (st : list (event * option N)) : captured :=
  fold_left (fun c '(e, a) => bind_alias c e a) st [].

Lemma caps_of_snoc st e a : caps_of (st ++ [(e, a)]) = bind_alias (caps_of st) e a.
Proof. unfold caps_of. rewrite fold_left_app. reflexivity. Qed.

Section Sound.
  Variable n : nfa.
  Variable negs : list (N * option pred).

  Definition nhit (e : event) (c : captured) : bool :=
    existsb (fun '(ty, p) => N.eqb (ety e) ty && match p with Some q => eval_pred q e c | None => true end) negs.
  Lemma neg_hits_nhit e r : neg_hits negs e r = nhit e (r_cap r).
  Proof. reflexivity. Qed.

  Definition move (q q' : nat) : Prop :=
    (exists s, nth_error n q = Some s /\ In q' (s_trans s)) \/
    (q' = q /\ exists s, nth_error n q = Some s /\ is_kleene s = true /\ s_self s = true) \/
    (exists s ep es, nth_error n q = Some s /\ In ep (s_eps s) /\ nth_error n ep = Some es /\ In q' (s_trans es)).

  Inductive deriv : list event -> list (event * option N) -> nat -> Prop :=
  | d_start e q s st0 :
      nth_error n 0 = Some st0 -> In q (s_trans st0) -> nth_error n q = Some s ->
      matches_state s e [] = true -> deriv [e] [(e, s_alias s)] q
  | d_skip es st q x :
      deriv es st q -> nhit x (caps_of st) = false -> deriv (es ++ [x]) st q
  | d_take es st q x q' s' :
      deriv es st q -> nhit x (caps_of st) = false -> move q q' ->
      nth_error n q' = Some s' -> matches_state s' x (caps_of st) = true ->
      deriv (es ++ [x]) (st ++ [(x, s_alias s')]) q'.

  Definition accepting (q : nat) : Prop :=
    (exists s, nth_error n q = Some s /\ s_type s = TAccept) \/
    (exists s ep es, nth_error n q = Some s /\ In ep (s_eps s) /\ nth_error n ep = Some es /\ s_type es = TAccept).

  (* the pre-computed has_epsilon_to_accept flag is sound *)
  Definition flags_ok : Prop :=
    forall q s, nth_error n q = Some s -> s_eps_acc s = true ->
      exists ep es, In ep (s_eps s) /\ nth_error n ep = Some es /\ s_type es = TAccept.

  Definition suffix (es P : list event) : Prop := exists pre, P = pre ++ es.
  Definition infix (es P : list event) : Prop := exists pre post, P = pre ++ es ++ post.

  Definition live_ok (P : list event) (r : run) : Prop :=
    r_cap r = caps_of (r_stack r) /\ exists es, suffix es P /\ deriv es (r_stack r) (r_cur r).
  Definition good (P : list event) (r : run) : Prop := r_inval r = true \/ live_ok P r.

  Definition genuine (P : list event) (m : mres) : Prop :=
    exists es st q, infix es P /\ deriv es st q /\ accepting q /\ m_stack m = map (fun x => eid (fst x)) st.

  Lemma suffix_snoc es P x : suffix es P -> suffix (es ++ [x]) (P ++ [x]).
  Proof. intros [pre ->]. exists pre. rewrite app_assoc. reflexivity. Qed.
  Lemma suffix_infix es P : suffix es P -> infix es P.
  Proof. intros [pre ->]. exists pre, []. rewrite app_nil_r. reflexivity. Qed.
  Lemma infix_snoc es P x : infix es P -> infix es (P ++ [x]).
  Proof. intros (pre & post & ->). exists pre, (post ++ [x]). rewrite <- !app_assoc. reflexivity. Qed.

  (* ---- enumeration keeps the run's stack ---- *)
  Lemma enum_go_stack r k p mr : forall cs acc ms,
    Forall (fun m => m_stack m = stack_ids r) acc ->
    enum_go r k p mr cs acc = Some ms -> Forall (fun m => m_stack m = stack_ids r) ms.
  Proof.
    induction cs as [|ix cs IH]; intros acc ms F H; cbn [enum_go] in H.
    - inversion H; subst. exact F.
    - destruct ix as [|i ix']; [eapply IH; eauto|].
      destruct (nth_entries (k_events k) (i :: ix')) as [ents|]; [|discriminate].
      destruct (deferred_ok p (map fst ents) (r_cap r)); [|eapply IH; eauto].
      match type of H with (if ?c then _ else _) = _ => destruct c end.
      + inversion H; subst. apply Forall_app. split; [exact F | constructor; [reflexivity | constructor]].
      + eapply IH; [|exact H]. apply Forall_app. split; [exact F | constructor; [reflexivity | constructor]].
  Qed.

  Lemma complete_run_sound P lim r :
    (exists es, infix es P /\ deriv es (r_stack r) (r_cur r)) -> accepting (r_cur r) ->
    match complete_run r lim with
    | AComplete m => genuine P m
    | AMulti ms => Forall (genuine P) ms
    | APanic => True
    | _ => False
    end.
  Proof.
    intros (es & I & D) A.
    assert (G : forall m, m_stack m = stack_ids r -> genuine P m).
    { intros m E. exists es, (r_stack r), (r_cur r). repeat split; auto. }
    unfold complete_run. destruct (r_kc r) as [k|]; [|apply G; reflexivity].
    destruct (k_deferred k) as [p|]; [|apply G; reflexivity].
    unfold enumerate. destruct (iter_f _ _ _) as [cs|]; [|exact Logic.I].
    destruct (enum_go r k p (max_results lim) cs []) as [ms|] eqn:E; [|exact Logic.I].
    apply (enum_go_stack _ _ _ _ _ _ _ (Forall_nil _)) in E.
    eapply Forall_impl; [|exact E]. intros m Em. apply G. exact Em.
  Qed.

  (* ---- one event against one live run ---- *)
  Lemma skip_ok P r x : live_ok P r -> nhit x (r_cap r) = false -> live_ok (P ++ [x]) r.
  Proof.
    intros [C (es & S & D)] N. split; [exact C|].
    exists (es ++ [x]). split; [apply suffix_snoc; exact S|]. apply d_skip; [exact D|]. rewrite <- C. exact N.
  Qed.

  Lemma take_ok P r x q' s' :
    live_ok P r -> nhit x (r_cap r) = false -> move (r_cur r) q' ->
    nth_error n q' = Some s' -> matches_state s' x (r_cap r) = true ->
    live_ok (P ++ [x]) (push (set_cur r q') x (s_alias s')).
  Proof.
    intros [C (es & S & D)] N M Hq Hm. split.
    - unfold push, set_cur. cbn [r_cap r_stack]. rewrite caps_of_snoc, C. reflexivity.
    - exists (es ++ [x]). split; [apply suffix_snoc; exact S|]. unfold push, set_cur. cbn [r_stack r_cur].
      eapply d_take; eauto; rewrite <- C; assumption.
  Qed.

  Lemma live_set_kc P r k : live_ok P r -> live_ok P (set_kc r k).
  Proof. intros H. exact H. Qed.

  Definition adv_ok (P : list event) (a : adv) : Prop :=
    match a with
    | AContinue r' | ANoMatch r' => r_inval r' = false /\ live_ok P r'
    | AComplete m => genuine P m
    | ACompleteContinue r' m => r_inval r' = false /\ live_ok P r' /\ genuine P m
    | AMulti ms => Forall (genuine P) ms
    | APanic => True
    end.

  Lemma live_genuine P r : live_ok P r -> accepting (r_cur r) -> genuine P (match_of r).
  Proof.
    intros [C (es & S & D)] A. exists es, (r_stack r), (r_cur r).
    repeat split; auto. apply suffix_infix. exact S.
  Qed.

  Lemma complete_adv_ok P lim r : live_ok P r -> accepting (r_cur r) -> adv_ok P (complete_run r lim).
  Proof.
    intros [C (es & S & D)] A.
    pose proof (complete_run_sound P lim r (ex_intro _ es (conj (suffix_infix _ _ S) D)) A) as X.
    destruct (complete_run r lim); cbn; auto; contradiction.
  Qed.

  Lemma enter_trans_ok P lim r x q' s' :
    flags_ok -> r_inval r = false -> live_ok P r -> nhit x (r_cap r) = false ->
    move (r_cur r) q' -> nth_error n q' = Some s' -> matches_state s' x (r_cap r) = true ->
    adv_ok (P ++ [x]) (enter_trans lim r x q' s').
  Proof.
    intros FL NI L N M Hq Hm.
    pose proof (take_ok P r x q' s' L N M Hq Hm) as L1.
    set (r1 := push (set_cur r q') x (s_alias s')) in *.
    assert (I1 : r_inval r1 = false) by exact NI.
    unfold enter_trans. fold r1.
    destruct (s_type s') eqn:T.
    - cbn. auto.
    - cbn. auto.
    - destruct (s_self s'); [|cbn; auto].
      destruct (s_eps_acc s') eqn:EA.
      + cbn. split; [exact I1|]. split; [exact L1|].
        apply (live_genuine _ (set_kc r1 _)); [exact L1|]. cbn.
        destruct (FL _ _ Hq EA) as (ep & es & I & Hep & Tes). right. exists s', ep, es. auto.
      + destruct (N.leb (max_events lim) (k_next (kc_or_new r1 s'))); [cbn; auto|].
        destruct (kc_extend _ _ _); cbn; auto.
    - apply complete_adv_ok; [exact L1|]. left. exists s'. auto.
  Qed.

  Lemma trans_go_ok P lim r x q s :
    flags_ok -> r_inval r = false -> live_ok P r -> nhit x (r_cap r) = false ->
    nth_error n q = Some s -> r_cur r = q ->
    forall ts a, incl ts (s_trans s) -> trans_go n lim r x ts = Some a -> adv_ok (P ++ [x]) a.
  Proof.
    intros FL NI L N Hq Hc ts. subst q. induction ts as [|nx ts IH]; intros a I H; cbn in H; [discriminate|].
    destruct (nth_error n nx) as [ns|] eqn:Hn; [|inversion H; subst; exact Logic.I].
    destruct (matches_state ns x (r_cap r)) eqn:Hm.
    - inversion H; subst. apply enter_trans_ok; auto.
      left. exists s. split; [exact Hq | apply I; left; reflexivity].
    - apply IH; [|exact H]. intros y Iy. apply I. right. exact Iy.
  Qed.

  Lemma eps_inner_ok P lim r x q s ep es_ :
    r_inval r = false -> live_ok P r -> nhit x (r_cap r) = false ->
    nth_error n q = Some s -> r_cur r = q -> In ep (s_eps s) -> nth_error n ep = Some es_ ->
    forall ts a, incl ts (s_trans es_) -> eps_inner n lim r x ts = Some a -> adv_ok (P ++ [x]) a.
  Proof.
    intros NI L N Hq Hc Iep Hep ts. subst q. induction ts as [|nx ts IH]; intros a I H; cbn in H; [discriminate|].
    destruct (nth_error n nx) as [ns|] eqn:Hn; [|inversion H; subst; exact Logic.I].
    destruct (matches_state ns x (r_cap r)) eqn:Hm.
    - inversion H; subst. unfold enter_eps.
      assert (M : move (r_cur r) nx).
      { right. right. exists s, ep, es_. repeat split; auto. apply I. left. reflexivity. }
      pose proof (take_ok P r x nx ns L N M Hn Hm) as L1.
      destruct (s_type ns) eqn:T; try (cbn; split; [exact NI | exact L1]).
      apply complete_adv_ok; [exact L1|]. left. exists ns. auto.
    - apply IH; [|exact H]. intros y Iy. apply I. right. exact Iy.
  Qed.

  Lemma eps_go_ok P lim r x q s :
    r_inval r = false -> live_ok P r -> nhit x (r_cap r) = false ->
    nth_error n q = Some s -> r_cur r = q ->
    forall es a, incl es (s_eps s) -> eps_go n lim r x es = Some a -> adv_ok (P ++ [x]) a.
  Proof.
    intros NI L N Hq Hc es. subst q. induction es as [|ep es IH]; intros a I H; cbn in H; [discriminate|].
    destruct (nth_error n ep) as [es_|] eqn:Hep; [|inversion H; subst; exact Logic.I].
    assert (Iep : In ep (s_eps s)) by (apply I; left; reflexivity).
    destruct (s_type es_) eqn:T.
    all: try (destruct (eps_inner n lim r x (s_trans es_)) as [a'|] eqn:E;
          [inversion H; subst a';
           exact (eps_inner_ok P lim r x (r_cur r) s ep es_ NI L N Hq eq_refl Iep Hep (s_trans es_) a (incl_refl _) E)
          | apply IH; [intros y Iy; apply I; right; exact Iy | exact H]]).
    inversion H; subst.
    destruct L as [C (es0 & S & D)].
    assert (A : accepting (r_cur r)).
    { right. exists s, ep, es_. exact (conj Hq (conj Iep (conj Hep T))). }
    pose proof (complete_run_sound (P ++ [x]) lim r
                  (ex_intro _ es0 (conj (infix_snoc _ _ x (suffix_infix _ _ S)) D)) A) as X.
    destruct (complete_run r lim); cbn; auto; contradiction.
  Qed.

  Theorem advance_ok P lim r x :
    flags_ok -> r_inval r = false -> live_ok P r -> nhit x (r_cap r) = false ->
    adv_ok (P ++ [x]) (advance n lim r x).
  Proof.
    intros FL NI L N. unfold advance.
    destruct (nth_error n (r_cur r)) as [cur|] eqn:Hq; [|exact I].
    assert (Main :
      adv_ok (P ++ [x])
        (if is_kleene cur && s_self cur && matches_state cur x (r_cap r)
         then if match r_kc r with Some k => N.leb (max_events lim) (k_next k) | None => false end
              then AContinue r
              else let r1 := push r x (s_alias cur) in
                   if s_eps_acc cur
                   then let r2 := set_kc r1 (Some (kc_count (r_kc r1) x (s_alias cur))) in ACompleteContinue r2 (match_of r2)
                   else match kc_extend (kc_or_new r1 cur) x (s_alias cur) with
                        | Some k => AContinue (set_kc r1 (Some k)) | None => APanic end
         else match trans_go n lim r x (s_trans cur) with
              | Some a => a
              | None => match eps_go n lim r x (s_eps cur) with Some a => a | None => ANoMatch r end
              end)).
    { destruct (is_kleene cur && s_self cur && matches_state cur x (r_cap r)) eqn:K.
      - apply andb_true_iff in K. destruct K as [K Hm]. apply andb_true_iff in K. destruct K as [K1 K2].
        destruct (match r_kc r with Some k => N.leb (max_events lim) (k_next k) | None => false end).
        + cbn. split; [exact NI | apply skip_ok; assumption].
        + assert (M : move (r_cur r) (r_cur r)) by (right; left; split; [reflexivity | exists cur; auto]).
          pose proof (take_ok P r x (r_cur r) cur L N M Hq Hm) as L1.
          assert (E : push (set_cur r (r_cur r)) x (s_alias cur) = push r x (s_alias cur)) by (destruct r; reflexivity).
          rewrite E in L1. cbv zeta.
          destruct (s_eps_acc cur) eqn:EA.
          * cbn. split; [exact NI|]. split; [exact L1|].
            apply (live_genuine _ (set_kc (push r x (s_alias cur)) _)); [exact L1|]. cbn.
            destruct (FL _ _ Hq EA) as (ep & es & I & Hep & Tes). right. exists cur, ep, es. auto.
          * destruct (kc_extend _ _ _); cbn; auto.
      - destruct (trans_go n lim r x (s_trans cur)) as [a|] eqn:T.
        + eapply trans_go_ok; eauto using incl_refl.
        + destruct (eps_go n lim r x (s_eps cur)) as [a|] eqn:E.
          * eapply eps_go_ok; eauto using incl_refl.
          * cbn. split; [exact NI | apply skip_ok; assumption]. }
    destruct (s_type cur) eqn:T; try exact Main.
    destruct L as [C (es0 & S & D)].
    assert (A : accepting (r_cur r)) by (left; exists cur; auto).
    pose proof (complete_run_sound (P ++ [x]) lim r
                  (ex_intro _ es0 (conj (infix_snoc _ _ x (suffix_infix _ _ S)) D)) A) as X.
    destruct (complete_run r lim); cbn; auto; contradiction.
  Qed.
End Sound.
