(* Property theorems for the SASE engine model (C01, C03, C05).  Statements only,
   closed by [exact]; pinned again in coq/audit/C0x.v.  What each one says in words
   is in the comment above it; what is NOT proved is said there too. *)
From VP Require Import Base.Tactics Zdd.Model Zdd.ProofsBase Zdd.ProofsPwo Zdd.ProofsArena
  Sase.Model Sase.ProofsBounds Sase.ProofsSound Sase.ProofsSoundEngine Sase.ProofsCompile Sase.ProofsPattern Sase.ProofsKleene Sase.ProofsKeyed
  Sase.Ref Sase.ProofsExactRef Sase.ProofsExactLoop Sase.ProofsExactRun Sase.ProofsExact Sase.ProofsExactText Sase.ProofsNoPanic Sase.ProofsExactKeys Sase.ProofsKleeneEngine Sase.ProofsKleeneBound.
From Coq Require Import Permutation.

(* ------------------------------------------------------------------ C01 *)
(* For every pattern (any number of steps, any `all` flags, any filters), every list of
   .not clauses, partitioning, run limit, backpressure strategy and Kleene limits, and
   every event stream: each match the engine emits has a derivation in the compiled
   NFA over a contiguous segment of the stream -- the stack's events are consumed in
   arrival order by NFA moves, each event has its state's event type and satisfies its
   state's filter under the captures made before it, no event of the segment satisfies a
   .not clause under the captures at that time (in particular none between the first
   and the last event of the match), and the derivation ends in an accepting state.
   PARTIAL with respect to the property text: the correspondence "NFA state = pattern
   step" (that [compile] lays the steps out in order) is not proved here; it is tied
   by the differential check, which compares the compiled state count and every match. *)
Theorem C01_matches_have_derivations_partial :
  forall steps negs part max_runs st lim evs out,
    run_collect (mkCfg (compile steps) negs part max_runs st lim) engine0 evs = Some out ->
    Forall (Forall (genuine (compile steps) negs evs)) out.
Proof.
  intros steps negs part max_runs st lim evs out H.
  exact (stream_sound (mkCfg (compile steps) negs part max_runs st lim) (compile_flags steps) evs [] engine0 out
           (all_good0 _) H).
Qed.

(* ... and at the level of the pattern: every emitted match is an occurrence of the step list --
   over a contiguous segment of the stream its events are consumed in step order (an `all`
   step one or more times), each event has its step's event type and satisfies its step's
   filter under the captures made before it (a filter of an `all` step that refers to the
   step's own alias is the business of enumeration, C03), no event of the segment satisfies a
   .not clause under the captures at that time, and the occurrence ends in the last step.
   The partition clause of C01 (all events of a match share the partition value) is the
   separate theorem C04_matches_single_key below. *)
Definition occurrence (steps : list step) (negs : list (N * option pred)) (P : list event) (m : mres) : Prop :=
  exists es st j, infix es P /\ pocc steps negs es st j /\ S j = length steps /\
                  m_stack m = map (fun x => eid (fst x)) st.

Theorem C01_matches_are_occurrences :
  forall steps negs part max_runs st lim evs out,
    run_collect (mkCfg (compile steps) negs part max_runs st lim) engine0 evs = Some out ->
    Forall (Forall (occurrence steps negs evs)) out.
Proof.
  intros steps negs part max_runs st lim evs out H.
  pose proof (C01_matches_have_derivations_partial steps negs part max_runs st lim evs out H) as G.
  eapply Forall_impl; [|exact G]. intros ms Gm. eapply Forall_impl; [|exact Gm].
  intros m (es & stk & q & I & D & A & E).
  destruct (deriv_pocc steps negs es stk q D) as (j & s & Hj & -> & Pc).
  exists es, stk, j. repeat split; auto. eapply accepting_last; eauto.
Qed.

(* one step of the engine keeps the invariant "every live run has a derivation" *)
Theorem C01_step_invariant :
  forall g P en x en' ms, flags_ok (g_nfa g) -> all_good g P en -> process g en x = Some (en', ms) ->
    all_good g (P ++ [x]) en' /\ Forall (genuine (g_nfa g) (g_negs g) (P ++ [x])) ms.
Proof. intros g P en x en' ms FL. exact (process_sound g FL P en x en' ms). Qed.

(* ------------------------------------------------------------------ C03 *)
(* The Kleene capture: extending always succeeds (no panic), and after n extensions through
   the ZDD the handle denotes exactly the strictly ascending index lists over {0..n-1}. *)
Theorem C03_capture_is_power_set :
  forall k e al, KInv k -> exists k', kc_extend k e al = Some k' /\ KInv k' /\
    k_events k' = k_events k ++ [(e, al)] /\ k_next k' = (k_next k + 1)%N /\
    k_deferred k' = k_deferred k /\ k_needs k' = k_needs k.
Proof. exact kc_extend_ok. Qed.

Theorem C03_capture_family :
  forall k, KInv k -> k_needs k = true ->
    forall s, In_fam (atable (k_arena k)) (k_handle k) s <-> subset_of (k_next k) s.
Proof. intros k K N. exact (ki_fam k K N). Qed.

(* Enumeration with a deferred (self-referencing) filter p: it returns (no panic) the first
   max(cap,1) entries of the list obtained by walking the combinations in ZDD order, each
   combination once, keeping the non-empty ones whose consecutive events satisfy p. *)
Theorem C03_enumeration :
  forall r k p mx, KInv k -> k_needs k = true ->
  exists combos all,
    iter_f (S (length (atable (k_arena k)))) (atable (k_arena k)) (k_handle k) = Some combos /\
    NoDup combos /\ (forall s, In s combos <-> subset_of (k_next k) s) /\
    enum_all r k p combos = Some all /\
    enumerate r k p mx = Some (firstn (cap_of mx) all).
Proof. exact enumerate_spec. Qed.

(* ... where the unbounded list holds exactly one match per admissible combination ... *)
Theorem C03_admissible_exactly :
  forall r k p cs all m, enum_all r k p cs = Some all ->
  (In m all <-> exists ix ents, In ix cs /\ ix <> [] /\ nth_entries (k_events k) ix = Some ents /\
                                deferred_ok p (map fst ents) (r_cap r) = true /\ m = mk_match r k ix ents).
Proof. exact enum_all_In. Qed.

(* ... and the emitted combinations are pairwise distinct. *)
Theorem C03_distinct :
  forall r k p cs all, enum_all r k p cs = Some all -> NoDup cs -> NoDup (map m_combo all).
Proof. exact enum_all_combos. Qed.

(* The link to the engine: for every pattern with at most one `all` step (the class of C03:
   A -> all B -> C, trailing all B, leading all A), every configuration and every stream, every
   Kleene capture held by a live run of the engine state reached satisfies the invariant [KInv]
   that C03_capture_family / C03_enumeration assume, and a capture that carries a deferred
   (self-referencing) filter is one that went through the ZDD -- so whenever the engine
   enumerates, it enumerates over exactly the power set of the events the run accumulated. *)
Theorem C03_engine_captures_are_power_sets :
  forall steps negs part max_runs st lim evs en',
    count_all steps <= 1 ->
    run_engine (mkCfg (compile steps) negs part max_runs st lim) engine0 evs = Some en' ->
    forall r, (In r (e_runs en') \/ exists k rs, In (k, rs) (e_parts en') /\ In r rs) -> r_inval r = false ->
      forall k, r_kc r = Some k -> KInv k /\ (k_deferred k <> None -> k_needs k = true).
Proof.
  intros steps negs part mx st lim evs en' C H r Hr Iv k Hk.
  set (g := mkCfg (compile steps) negs part mx st lim).
  assert (I0 : eng_RQ (kgood (g_nfa g)) engine0) by (split; constructor).
  destruct (stream_kgood g (compile_single_kleene steps C) evs engine0 en' I0 H) as [Fr Fp].
  assert (G : RQ (kgood (g_nfa g)) r).
  { destruct Hr as [Hr|(k0 & rs & Hp & Hr)].
    - rewrite Forall_forall in Fr. exact (Fr r Hr).
    - rewrite Forall_forall in Fp. specialize (Fp (k0, rs) Hp). cbn in Fp. rewrite Forall_forall in Fp. exact (Fp r Hr). }
  destruct G as [G|G]; [congruence|]. destruct (G k Hk) as (K & _ & D). split; assumption.
Qed.

(* ------------------------------------------------------------------ C05 *)
(* For every configuration with max_runs >= 1 and every stream, after every event each
   partition (and the unpartitioned run set) holds at most max_runs partial matches. *)
Theorem C05_runs_bound :
  forall g evs en', 1 <= g_max_runs g -> run_engine g engine0 evs = Some en' ->
    runs_bounded (g_max_runs g) en'.
Proof. intros g evs en' M H. exact (runs_bound_stream g evs engine0 en' M (runs_bounded0 _) H). Qed.

(* a completion with a deferred filter emits at most max(cap,1) matches *)
Theorem C05_enumeration_cap :
  forall r k p mx, KInv k -> k_needs k = true ->
  exists ms, enumerate r k p mx = Some ms /\ length ms <= Nat.max mx 1.
Proof.
  intros r k p mx K N. destruct (enumerate_spec r k p mx K N) as (combos & all & _ & _ & _ & _ & E).
  eexists. split; [exact E|]. rewrite firstn_length. unfold cap_of. lia.
Qed.
(* Processing never panics: for every pattern (any steps, any `all` flags, any filters), every
   .not list, partitioning, run limit (0 included), strategy, Kleene limits and every stream, the
   model's engine returns after every event -- no state index out of range in advance_run_shared,
   every ZDD extension of a Kleene capture succeeds, enumeration finds every event it indexes,
   the swap_remove loop ends within its fuel.  [None] is the model's only panic outcome. *)
Theorem C05_never_panics :
  forall steps negs part max_runs st lim evs,
    exists en', run_engine (mkCfg (compile steps) negs part max_runs st lim) engine0 evs = Some en'.
Proof.
  intros steps negs part mx st lim evs.
  exact (stream_total (mkCfg (compile steps) negs part mx st lim) (compile_closed steps) evs engine0 (engine0_safe _)).
Qed.
(* one step, from any engine state whose runs point into the NFA and hold usable Kleene captures *)
Theorem C05_step_never_panics :
  forall g en x, closed (g_nfa g) -> engine_safe (g_nfa g) en ->
    exists en' ms, process g en x = Some (en', ms) /\ engine_safe (g_nfa g) en'.
Proof. exact process_total. Qed.
(* Each partial match keeps at most the configured number of Kleene events: for every pattern
   with at most one `all` step, max_kleene_events >= 1, every configuration and stream, the
   Kleene capture of every live run of the engine state reached holds at most max_kleene_events
   events.  (With two `all` steps the second counts on top of the first's capture; that case is
   covered by the differential check's oracle only.) *)
Theorem C05_kleene_events_bound :
  forall steps negs part max_runs st lim evs en',
    count_all steps <= 1 -> (1 <= max_events lim)%N ->
    run_engine (mkCfg (compile steps) negs part max_runs st lim) engine0 evs = Some en' ->
    forall r, (In r (e_runs en') \/ exists k rs, In (k, rs) (e_parts en') /\ In r rs) -> r_inval r = false ->
      forall k, r_kc r = Some k -> (N.of_nat (length (k_events k)) <= max_events lim)%N.
Proof.
  intros steps negs part mx st lim evs en' C M1 H r Hr Iv k Hk.
  destruct (C03_engine_captures_are_power_sets steps negs part mx st lim evs en' C H r Hr Iv k Hk) as [K _].
  rewrite (ki_len k K).
  set (g := mkCfg (compile steps) negs part mx st lim).
  assert (I0 : eng_RQ (kb (g_nfa g) (g_lim g)) engine0) by (split; constructor).
  destruct (stream_kb g (compile_single_kleene steps C) (compile_forward steps) (compile_eforward steps) M1 evs engine0 en' I0 H) as [Fr Fp].
  assert (G : RQ (kb (g_nfa g) (g_lim g)) r).
  { destruct Hr as [Hr|(k0 & rs & Hp & Hr)].
    - rewrite Forall_forall in Fr. exact (Fr r Hr).
    - rewrite Forall_forall in Fp. specialize (Fp (k0, rs) Hp). cbn in Fp. rewrite Forall_forall in Fp. exact (Fp r Hr). }
  destruct G as [G|G]; [congruence|]. exact (proj1 (G k Hk)).
Qed.

(* non-vacuity: a concrete engine run that emits matches and hits the run limit *)
Example C05_bound_reached :
  exists en', run_engine (mkCfg (compile [mkStep 0 None (Some 0%N) false; mkStep 1 None (Some 1%N) false]) [] None 1 SEvictOldest (mkLim 20 10))
                engine0 [mkEv 0 0 []; mkEv 1 0 []; mkEv 2 1 []] = Some en' /\ length (e_runs en') <= 1.
Proof. eexists. split; [vm_compute; reflexivity | cbn; lia]. Qed.

(* ------------------------------------------------------------------ C02 *)
(* Soundness half: every emitted match is a derivation (see C01), for every pattern, in
   particular those without `all`.  The exactness half follows below.
   Known finding, formal side: on the witness of Sase/Ref.v the reference of the property text
   reports the match [0;1] and the engine reports nothing. *)
Theorem C02_soundness_partial :
  forall steps negs part max_runs st lim evs out,
    run_collect (mkCfg (compile steps) negs part max_runs st lim) engine0 evs = Some out ->
    Forall (Forall (genuine (compile steps) negs evs)) out.
Proof. exact C01_matches_have_derivations_partial. Qed.

(* Exactness.  [ref_e] follows every event that can begin the pattern separately: at every
   step it takes the earliest later event of its partition satisfying that step under the
   captures so far, gives up when an event satisfying a .not clause (under the captures so
   far) arrives first, and yields one match when the last step is taken (Sase/ProofsExactRef.v).
   For every sequence pattern of two or more steps without `all`, every list of .not clauses,
   optional partitioning, every backpressure strategy and every stream no longer than the run
   limit (so that no run is ever dropped or evicted): the engine does not panic and the
   matches it emits over the stream are, up to order, exactly those of [ref_e]. *)
Theorem C02_engine_is_per_start_greedy :
  forall s0 rest0 negs part max_runs st lim evs,
    Forall (fun s => st_all s = false) (s0 :: rest0) -> rest0 <> [] -> length evs <= max_runs ->
    exists l, engine_stacks (mkCfg (compile (s0 :: rest0)) negs part max_runs st lim) engine0 evs = Some l /\
              Permutation l (ref_e negs part s0 rest0 evs).
Proof.
  intros s0 rest0 negs part mx st lim evs NoAll Two L.
  exact (engine_exact s0 rest0 NoAll Two negs part mx st lim evs L).
Qed.

(* Against the reference of the property text ([Sase.Ref.ref_matches], where the completing
   event itself does not count as arriving "before that completion"): outside the known class
   [known_c02] -- some attempt meets an event that satisfies a .not clause and would at the
   same time complete it -- the engine emits, up to order, exactly the reference's matches. *)
Theorem C02_exact_outside_known_class :
  forall s0 rest0 negs part max_runs st lim evs,
    Forall (fun s => st_all s = false) (s0 :: rest0) -> rest0 <> [] -> length evs <= max_runs ->
    known_c02 negs part s0 rest0 evs = false ->
    exists l, engine_stacks (mkCfg (compile (s0 :: rest0)) negs part max_runs st lim) engine0 evs = Some l /\
              Permutation l (ref_matches negs part (s0 :: rest0) evs).
Proof.
  intros s0 rest0 negs part mx st lim evs NoAll Two L K.
  rewrite (ref_text_is_ref_e negs part s0 rest0 Two evs K).
  exact (engine_exact s0 rest0 NoAll Two negs part mx st lim evs L).
Qed.

(* the refuted witness of Sase/Ref.v lies in the class; a stream outside it with a match *)
Example C02_known_class_contains_witness :
  known_c02 kf_negs None (mkStep 1 None (Some 0%N) false) [mkStep 0 None None false] kf_events = true.
Proof. vm_compute. reflexivity. Qed.
Example C02_exact_not_vacuous :
  let evs := [mkEv 0 1 [(3%N, VStr 1)]; mkEv 5 2 []; mkEv 1 0 [(3%N, VStr 1)]] in
  known_c02 kf_negs None (mkStep 1 None (Some 0%N) false) [mkStep 0 None None false] evs = false /\
  ref_matches kf_negs None kf_steps evs = [[0; 1]%N].
Proof. split; vm_compute; reflexivity. Qed.

(* ------------------------------------------------ C01 partition clause / C04 *)
(* With partition_by f: for every pattern, configuration and stream, every match emitted while
   processing an event x consists only of events whose partition value (field f, or "missing")
   equals x's; and every stored run holds events of its partition's value only. *)
Theorem C04_matches_single_key :
  forall g f evs out, g_part g = Some f -> run_tagged g engine0 evs = Some out ->
    Forall (fun p => Forall (match_keyed f (ekey f (fst p))) (snd p)) out.
Proof. intros g f evs out Hp H. exact (stream_keyed g f Hp evs engine0 out (Forall_nil _) H). Qed.

Theorem C04_runs_single_key :
  forall g f en x en' ms, g_part g = Some f -> parts_keyed f (e_parts en) -> process g en x = Some (en', ms) ->
    parts_keyed f (e_parts en') /\ Forall (match_keyed f (ekey f x)) ms.
Proof. exact process_keyed. Qed.

(* The decomposition itself, for sequence patterns (two or more steps, no `all`) with partition_by
   and no .not clause, on streams no longer than the run limit: what the engine emits on the
   stream is, up to order, the union over the partition values k (any duplicate-free list covering
   the stream's values, "missing" included) of what it emits on k's sub-stream alone.  A corollary
   of C02's exactness.  (.not clauses are global by C01/C02 and therefore outside this statement;
   patterns with `all` are covered by the per-key replay oracle of the check only.) *)
Theorem C04_sequence_patterns_decompose :
  forall s0 rest0 part max_runs st lim evs keys,
    Forall (fun s => st_all s = false) (s0 :: rest0) -> rest0 <> [] -> length evs <= max_runs ->
    NoDup keys -> (forall e, In e evs -> In (key_of part e) keys) ->
    let g := mkCfg (compile (s0 :: rest0)) [] part max_runs st lim in
    exists l ls, engine_stacks g engine0 evs = Some l /\
      Forall2 (fun k lk => engine_stacks g engine0 (filter (fun e => pkey_eqb (key_of part e) k) evs) = Some lk) keys ls /\
      Permutation l (concat ls).
Proof.
  intros s0 rest0 part mx st lim evs keys NoAll Two L Nd Cov.
  exact (engine_by_keys s0 rest0 NoAll Two part mx st lim evs keys L Nd Cov).
Qed.
