From VP Require Import Base.Tactics Zdd.Model Sase.Model.
