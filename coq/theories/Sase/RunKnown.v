(* Evaluates the known-finding class predicate of C02 ([known_c02]) and the engine-faithful
   reference ([ref_e]) on a case, for checks/C02.py: a failure may be reported as the known
   finding `not-on-completing-event` only if the stream lies in the class the theorem
   C02_exact_outside_known_class excludes. *)
From Coq Require Import String.
From VP Require Import Base.Tactics Base.Render Zdd.Model Sase.Model Sase.Run Sase.Ref Sase.ProofsExactRef Sase.ProofsExactText.
Open Scope string_scope.

Definition known_case (steps : list step) (negs : list (N * option pred)) (part : option N) (evs : list event) : string :=
  match steps with
  | s0 :: rest0 =>
    (if known_c02 negs part s0 rest0 evs then "K1" else "K0") ++ "#" ++
    join ";" (map str_ids (ref_e negs part s0 rest0 evs))
  | [] => "K0#"
  end.
