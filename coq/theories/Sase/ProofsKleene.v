(* C03: the Kleene capture (a ZDD extended with one optional variable per accumulated
   event) denotes the power set of the accumulated events, and enumeration emits, in the
   ZDD's iteration order, exactly the non-empty ascending index sets whose consecutive
   members pass the deferred predicate -- each once, truncated at the cap. *)
From VP Require Import Base.Tactics Zdd.Model Zdd.ProofsBase Zdd.ProofsOps Zdd.ProofsPwo Zdd.ProofsPwoTotal
  Zdd.ProofsQuery Zdd.ProofsArena Sase.Model.

(* ---- the family after n extensions is the power set of {0..n-1} ---- *)
Definition subset_of (n : N) (s : list N) : Prop := StronglySorted N.lt s /\ Forall (fun x => (x < n)%N) s.

Lemma ins_top v s : Forall (fun x => (x < v)%N) s -> ins v s = s ++ [v].
Proof.
  induction s as [|y s IH]; intros F; [reflexivity|]. inversion F; subst.
  rewrite ins_lt by assumption. cbn. f_equal. apply IH. assumption.
Qed.

Lemma sorted_snoc s v : StronglySorted N.lt s -> Forall (fun x => (x < v)%N) s -> StronglySorted N.lt (s ++ [v]).
Proof.
  induction s as [|y s IH]; intros S F; cbn; [constructor; constructor|].
  inversion S; subst. inversion F; subst. constructor; [apply IH; assumption|].
  apply Forall_app. split; [assumption | constructor; [assumption | constructor]].
Qed.

Lemma sorted_last_split n s : subset_of (n + 1) s ->
  subset_of n s \/ exists s0, subset_of n s0 /\ s = s0 ++ [n].
Proof.
  intros [S F]. induction s as [|x s IH] using rev_ind; [left; split; constructor|].
  apply Forall_app in F. destruct F as [F Fx]. inversion Fx; subst.
  assert (S0 : StronglySorted N.lt s).
  { clear -S. induction s as [|y s IH]; [constructor|]. cbn in S. inversion S; subst. constructor; [apply IH; assumption|].
    apply Forall_app in H2. tauto. }
  assert (Lx : Forall (fun y => (y < x)%N) s).
  { clear -S. induction s as [|y s IH]; [constructor|]. cbn in S. inversion S; subst.
    apply Forall_app in H2. destruct H2 as [A B]. inversion B; subst. constructor; [assumption | apply IH; assumption]. }
  destruct (N.eq_dec x n) as [->|Ne].
  - right. exists s. split; [split; [exact S0 | exact Lx] | reflexivity].
  - left. split; [exact S|]. apply Forall_app. split; [|constructor; [lia | constructor]].
    eapply Forall_impl; [|exact Lx]. cbn. intros. lia.
Qed.

Lemma power_step n (F : list N -> Prop) :
  (forall s, F s <-> subset_of n s) -> forall s, PW n F s <-> subset_of (n + 1) s.
Proof.
  intros HF s. unfold PW. split.
  - intros [A|[s0 [A ->]]].
    + apply HF in A. destruct A as [S B]. split; [exact S|]. eapply Forall_impl; [|exact B]. cbn. intros. lia.
    + apply HF in A. destruct A as [S B]. rewrite ins_top by exact B. split.
      * apply sorted_snoc; assumption.
      * apply Forall_app. split; [eapply Forall_impl; [|exact B]; cbn; intros; lia | constructor; [lia | constructor]].
  - intros A. destruct (sorted_last_split _ _ A) as [B|[s0 [B ->]]].
    + left. apply HF. exact B.
    + right. exists s0. split; [apply HF; exact B|]. destruct B as [_ B]. symmetry. apply ins_top. exact B.
Qed.

(* the capture's invariant *)
Record KInv (k : kcap) : Prop := {
  ki_arena : AInv (k_arena k);
  ki_valid : valid (atable (k_arena k)) (k_handle k);
  ki_len : N.of_nat (length (k_events k)) = k_next k;
  ki_fam : k_needs k = true -> forall s, In_fam (atable (k_arena k)) (k_handle k) s <-> subset_of (k_next k) s }.

Lemma KInv_new d : KInv (kc_new d).
Proof.
  split; cbn; auto using AInv0. intros _ s. rewrite in_fam_base. split.
  - intros ->. split; constructor.
  - intros [S F]. destruct s as [|x s]; [reflexivity|]. inversion F; subst. lia.
Qed.

Lemma kc_extend_ok k e al : KInv k -> exists k', kc_extend k e al = Some k' /\ KInv k' /\
  k_events k' = k_events k ++ [(e, al)] /\ k_next k' = (k_next k + 1)%N /\ k_deferred k' = k_deferred k /\ k_needs k' = k_needs k.
Proof.
  intros [A V L Fm]. unfold kc_extend. destruct (k_needs k) eqn:Nd.
  - destruct (a_pwo_ok _ _ (k_next k) A V) as (ar' & r & H & A' & E & V' & S). rewrite H.
    eexists. split; [reflexivity|]. split; [|cbn; auto]. split; cbn; auto.
    + rewrite app_length. cbn. lia.
    + intros _ s. rewrite S. apply power_step. apply Fm. reflexivity.
  - eexists. split; [reflexivity|]. split; [|cbn; auto]. split; cbn; auto.
    + rewrite app_length. cbn. lia.
    + congruence.
Qed.

(* ---- enumeration ---- *)
Definition mk_match (r : run) (k : kcap) (ix : list N) (ents : list (event * option N)) : mres :=
  mkM (stack_ids r) (fold_left (fun c '(e, al) => bind_alias c e al) ents (r_cap r)) (Some ix).

(* what the loop computes for one combination: nothing (skipped / filtered out) or one match *)
Definition enum_one (r : run) (k : kcap) (p : pred) (ix : list N) : option (list mres) :=
  match ix with
  | [] => Some []
  | _ => match nth_entries (k_events k) ix with
         | None => None
         | Some ents => if deferred_ok p (map fst ents) (r_cap r) then Some [mk_match r k ix ents] else Some []
         end
  end.

Fixpoint enum_all (r : run) (k : kcap) (p : pred) (cs : list (list N)) : option (list mres) :=
  match cs with
  | [] => Some []
  | ix :: rest => match enum_one r k p ix, enum_all r k p rest with
                  | Some a, Some b => Some (a ++ b)
                  | _, _ => None
                  end
  end.

Definition cap_of (mx : nat) : nat := Nat.max mx 1.

(* the loop = the unbounded enumeration truncated at the cap (the check follows the push,
   so a cap of 0 still lets one match through) *)
Lemma enum_go_spec r k p mx : forall cs acc all,
  length acc < cap_of mx -> enum_all r k p cs = Some all ->
  enum_go r k p mx cs acc = Some (firstn (cap_of mx) (acc ++ all)).
Proof.
  induction cs as [|ix cs IH]; intros acc all L H; cbn [enum_all] in H.
  - inversion H; subst. cbn [enum_go]. rewrite app_nil_r. rewrite firstn_all2 by lia. reflexivity.
  - destruct (enum_one r k p ix) as [a|] eqn:E1; [|discriminate].
    destruct (enum_all r k p cs) as [b|] eqn:E2; [|discriminate]. inversion H; subst all. clear H.
    cbn [enum_go]. unfold enum_one in E1. destruct ix as [|i ix'].
    + inversion E1; subst a. cbn. apply IH; auto.
    + destruct (nth_entries (k_events k) (i :: ix')) as [ents|]; [|discriminate].
      destruct (deferred_ok p (map fst ents) (r_cap r)).
      * inversion E1; subst a. fold (mk_match r k (i :: ix') ents).
        destruct (Nat.leb_spec mx (length (acc ++ [mk_match r k (i :: ix') ents]))) as [Ge|Lt].
        -- rewrite app_length in Ge. cbn in Ge. unfold cap_of in *.
           assert (Eq : Nat.max mx 1 = length acc + 1) by lia.
           rewrite Eq. rewrite app_assoc. rewrite firstn_app.
           rewrite (firstn_all2 (acc ++ [_])) by (rewrite app_length; cbn; lia).
           rewrite app_length. cbn. replace (length acc + 1 - (length acc + 1)) with 0 by lia.
           cbn. rewrite app_nil_r. reflexivity.
        -- rewrite app_length in Lt. cbn in Lt.
           rewrite (IH (acc ++ [mk_match r k (i :: ix') ents]) b); auto.
           ++ rewrite <- app_assoc. reflexivity.
           ++ rewrite app_length. cbn. unfold cap_of. lia.
      * inversion E1; subst a. cbn. apply IH; auto.
Qed.

(* every combination of the family indexes existing events *)
Lemma nth_entries_total {A} (evs : list A) ix :
  Forall (fun x => (x < N.of_nat (length evs))%N) ix -> exists ents, nth_entries evs ix = Some ents /\ length ents = length ix.
Proof.
  induction ix as [|i ix IH]; intros F; cbn; [eauto|]. inversion F; subst.
  destruct (IH H2) as [ents [E L]]. rewrite E.
  destruct (nth_error evs (N.to_nat i)) eqn:Hn; [eexists; split; [reflexivity | cbn; lia]|].
  apply nth_error_None in Hn. lia.
Qed.

Lemma enum_all_total r k p cs :
  Forall (Forall (fun x => (x < N.of_nat (length (k_events k)))%N)) cs -> exists all, enum_all r k p cs = Some all.
Proof.
  induction cs as [|ix cs IH]; intros F; cbn; [eauto|]. inversion F; subst.
  destruct (IH H2) as [b Hb]. rewrite Hb. unfold enum_one. destruct ix as [|i ix']; [eauto|].
  destruct (nth_entries_total (k_events k) (i :: ix') H1) as [ents [E _]]. rewrite E.
  destruct (deferred_ok _ _ _); eauto.
Qed.

(* main statement about [enumerate] on a capture that accumulated its events through the ZDD *)
Theorem enumerate_spec r k p mx :
  KInv k -> k_needs k = true ->
  exists combos all,
    iter_f (S (length (atable (k_arena k)))) (atable (k_arena k)) (k_handle k) = Some combos /\
    NoDup combos /\ (forall s, In s combos <-> subset_of (k_next k) s) /\
    enum_all r k p combos = Some all /\
    enumerate r k p mx = Some (firstn (cap_of mx) all).
Proof.
  intros [A V L Fm] Nd. pose proof (ai_wf _ A) as W.
  assert (Lr : rk (k_handle k) < S (length (atable (k_arena k)))) by (apply rk_valid in V; lia).
  destruct (iter_total _ _ _ W V Lr) as [combos Hc].
  destruct (iter_ok _ _ _ _ W V Hc) as [Sm Nd'].
  assert (Sub : forall s, In s combos <-> subset_of (k_next k) s).
  { intros s. rewrite Sm. apply Fm. exact Nd. }
  assert (Idx : Forall (Forall (fun x => (x < N.of_nat (length (k_events k)))%N)) combos).
  { apply Forall_forall. intros s I. apply Sub in I. destruct I as [_ F]. rewrite L. exact F. }
  destruct (enum_all_total r k p combos Idx) as [all Ha].
  exists combos, all. split; [exact Hc|]. split; [exact Nd'|]. split; [exact Sub|]. split; [exact Ha|].
  unfold enumerate. rewrite Hc.
  rewrite (enum_go_spec r k p mx combos [] all); [reflexivity | unfold cap_of; cbn; lia | exact Ha].
Qed.

(* membership in the unbounded enumeration *)
Lemma enum_all_In r k p : forall cs all m, enum_all r k p cs = Some all ->
  (In m all <-> exists ix ents, In ix cs /\ ix <> [] /\ nth_entries (k_events k) ix = Some ents /\
                                deferred_ok p (map fst ents) (r_cap r) = true /\ m = mk_match r k ix ents).
Proof.
  induction cs as [|ix cs IH]; intros all m H; cbn [enum_all] in H.
  - inversion H; subst. split; [intros [] | intros (ix & ents & [] & _)].
  - destruct (enum_one r k p ix) as [a|] eqn:E1; [|discriminate].
    destruct (enum_all r k p cs) as [b|] eqn:E2; [|discriminate]. inversion H; subst all. clear H.
    rewrite in_app_iff, (IH b m eq_refl). unfold enum_one in E1. split.
    + intros [Ia|(ix' & ents & I & R)]; [|exists ix', ents; split; [right; exact I | exact R]].
      destruct ix as [|i ix0]; [inversion E1; subst; destruct Ia|].
      destruct (nth_entries (k_events k) (i :: ix0)) as [ents|] eqn:En; [|discriminate].
      destruct (deferred_ok p (map fst ents) (r_cap r)) eqn:D; inversion E1; subst a; [|destruct Ia].
      destruct Ia as [<-|[]]. exists (i :: ix0), ents.
      split; [left; reflexivity|]. split; [discriminate|]. split; [exact En|]. split; [exact D | reflexivity].
    + intros (ix' & ents & [<-|I] & Ne & En & D & ->).
      * left. destruct ix as [|i ix0]; [congruence|]. rewrite En, D in E1. inversion E1; subst. left. reflexivity.
      * right. exists ix', ents. auto.
Qed.

(* distinct combinations give distinct matches; the enumeration has no repetition *)
Lemma enum_all_combos r k p : forall cs all, enum_all r k p cs = Some all -> NoDup cs ->
  NoDup (map m_combo all).
Proof.
  induction cs as [|ix cs IH]; intros all H N; cbn [enum_all] in H.
  - inversion H; subst. constructor.
  - destruct (enum_one r k p ix) as [a|] eqn:E1; [|discriminate].
    destruct (enum_all r k p cs) as [b|] eqn:E2; [|discriminate]. inversion H; subst all. clear H.
    inversion N; subst. rewrite map_app. specialize (IH b eq_refl H2).
    unfold enum_one in E1. destruct ix as [|i ix0]; [inversion E1; subst; exact IH|].
    destruct (nth_entries (k_events k) (i :: ix0)) as [ents|]; [|discriminate].
    destruct (deferred_ok p (map fst ents) (r_cap r)); inversion E1; subst a; [|exact IH].
    cbn. constructor; [|exact IH]. intros I. apply in_map_iff in I. destruct I as (m & Em & Im).
    apply (enum_all_In r k p cs b m E2) in Im. destruct Im as (ix' & ents' & I' & _ & _ & _ & ->).
    cbn in Em. inversion Em; subst. contradiction.
Qed.
