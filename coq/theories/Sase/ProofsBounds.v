(* C05: the number of partial matches per partition never exceeds max_runs,
   for every stream, every backpressure strategy, every pattern. *)
From VP Require Import Base.Tactics Zdd.Model Sase.Model.

Lemma upd_length {A} (l : list A) i f : length (upd l i f) = length l.
Proof. revert i. induction l as [|x l IH]; intros [|i]; cbn; auto. Qed.

Lemma removelast_length {A} (l : list A) : length (removelast l) = length l - 1.
Proof.
  induction l as [|x l IH]; [reflexivity|]. destruct l as [|y l]; [reflexivity|].
  cbn [removelast length] in *. rewrite IH. cbn. lia.
Qed.

Lemma swap_remove_tail_length {A} (tl : list A) :
  length (match rev tl with [] => [] | z :: rt => z :: rev rt end) = length tl.
Proof.
  destruct (rev tl) as [|z rt] eqn:E.
  - apply (f_equal (@length A)) in E. rewrite rev_length in E. cbn in *. lia.
  - apply (f_equal (@length A)) in E. rewrite rev_length in E. cbn in *. rewrite rev_length. lia.
Qed.

Lemma swap_remove_length {A} (l : list A) i : i < length l -> length (swap_remove l i) = length l - 1.
Proof.
  intros L. unfold swap_remove. pose proof (firstn_skipn i l) as E.
  destruct (skipn i l) as [|x tl] eqn:S.
  - apply (f_equal (@length A)) in S. rewrite skipn_length in S. cbn in S. lia.
  - rewrite app_length, swap_remove_tail_length.
    apply (f_equal (@length A)) in E. rewrite app_length in E. cbn in E. lia.
Qed.

Lemma swap_remove_le {A} (l : list A) i : length (swap_remove l i) <= length l.
Proof.
  destruct (Nat.lt_ge_cases i (length l)) as [L|L]; [rewrite swap_remove_length by exact L; lia|].
  unfold swap_remove. rewrite skipn_all2 by exact L. lia.
Qed.

Lemma proc_runs_length fuel : forall n lim e runs i acc runs' ms,
  proc_runs fuel n lim e runs i acc = Some (runs', ms) -> length runs' <= length runs.
Proof.
  induction fuel as [|f IH]; intros n lim e runs i acc runs' ms H; [discriminate|].
  cbn [proc_runs] in H.
  destruct (nth_error runs i) as [r|]; [|inversion H; subst; lia].
  destruct (r_inval r).
  - apply IH in H. pose proof (swap_remove_le runs i). lia.
  - destruct (advance n lim r e); try discriminate; apply IH in H;
      rewrite ?upd_length in H; pose proof (swap_remove_le runs i); lia.
Qed.

Lemma argmin_from_lt (key : run -> nat) l : forall i bi bk, bi < i -> argmin_from key l i bi bk < i + length l.
Proof.
  induction l as [|r l IH]; intros i bi bk L; cbn [argmin_from length]; [lia|].
  destruct (Nat.ltb (key r) bk).
  - specialize (IH (S i) i (key r) ltac:(lia)). lia.
  - specialize (IH (S i) bi bk ltac:(lia)). lia.
Qed.
Lemma argmin_lt key l i : argmin key l = Some i -> i < length l.
Proof.
  destruct l as [|r l]; cbn; [discriminate|]. intros H. inversion H; subst.
  pose proof (argmin_from_lt key l 1 0 (key r)). lia.
Qed.

Lemma check_negs_length negs e runs : length (check_negs negs e runs) = length runs.
Proof. unfold check_negs. apply map_length. Qed.

(* start_capture touches the Kleene capture only *)
Lemma start_capture_fields lim ns r e r' : start_capture lim ns r e = Some r' ->
  r_cur r' = r_cur r /\ r_stack r' = r_stack r /\ r_cap r' = r_cap r /\ r_inval r' = r_inval r /\ r_started r' = r_started r.
Proof.
  unfold start_capture. intros H.
  destruct (s_type ns); try (inversion H; subst; repeat split; reflexivity).
  destruct (s_self ns); [|inversion H; subst; repeat split; reflexivity].
  destruct (s_eps_acc ns); [inversion H; subst; repeat split; reflexivity|].
  destruct (N.leb (max_events lim) (k_next (kc_new (s_post ns)))); [inversion H; subst; repeat split; reflexivity|].
  destruct (kc_extend (kc_new (s_post ns)) e (s_alias ns)); [|discriminate].
  inversion H; subst; repeat split; reflexivity.
Qed.

Lemma backpressure_length st mx runs r c runs' added c' :
  1 <= mx -> length runs <= mx ->
  backpressure st mx runs r c = (runs', added, c') -> length runs' <= mx.
Proof.
  intros M L. unfold backpressure. cbv zeta.
  destruct (Nat.ltb_spec (length runs) mx) as [Lt|Ge].
  - intros H. inversion H; subst. rewrite app_length. cbn. lia.
  - assert (Ne : runs <> []) by (intro; subst; cbn in *; lia).
    assert (Ev : forall (key : run -> nat) (b : bool),
      (match argmin key runs with
       | Some i => (swap_remove runs i ++ [r], true, mkCnt (c_created c) (c_dropped c) (c_evicted c + 1) (c_completed c))
       | None => if b then (runs ++ [r], true, c) else (runs, false, c)
       end) = (runs', added, c') -> length runs' <= mx).
    { intros key b. destruct (argmin key runs) as [i|] eqn:A.
      - intros H. inversion H; subst. rewrite app_length, swap_remove_length by (eapply argmin_lt; eauto). cbn in *. lia.
      - destruct runs; [congruence | discriminate]. }
    destruct st as [| | | |num den]; try (intros H; inversion H; subst; lia); try exact (Ev _ true).
    destruct (N.ltb (c_dropped c) (c_created c * num / den)); [exact (Ev _ false) | intros H; inversion H; subst; lia].
Qed.

(* the bound as an invariant of the engine *)
Definition runs_bounded (mx : nat) (en : engine) : Prop :=
  length (e_runs en) <= mx /\ Forall (fun p => length (snd p) <= mx) (e_parts en).

Lemma part_get_bound mx k ps rs : Forall (fun p => length (snd p) <= mx) ps -> part_get k ps = Some rs -> length rs <= mx.
Proof.
  induction ps as [|[k' rs'] ps IH]; cbn; intros F H; [discriminate|].
  inversion F; subst. destruct (pkey_eqb k' k); [inversion H; subst; assumption | auto].
Qed.

Lemma part_set_bound mx k rs ps :
  Forall (fun p => length (snd p) <= mx) ps -> length rs <= mx ->
  Forall (fun p => length (snd p) <= mx) (part_set k rs ps).
Proof.
  induction ps as [|[k' rs'] ps IH]; cbn; intros F L.
  - constructor; [exact L | constructor].
  - inversion F; subst. destruct (pkey_eqb k' k); constructor; auto.
Qed.

Lemma parts_negs_bound mx negs e (ps : list (pkey * list run)) :
  Forall (fun p => length (snd p) <= mx) ps ->
  Forall (fun p : pkey * list run => length (snd p) <= mx) (map (fun '(k, rs) => (k, check_negs negs e rs)) ps).
Proof.
  induction ps as [|[k rs] ps IH]; cbn; intros F; [constructor|].
  inversion F; subst. constructor; [cbn; rewrite check_negs_length; assumption | auto].
Qed.

Theorem runs_bound_step g en e en' ms :
  1 <= g_max_runs g -> runs_bounded (g_max_runs g) en ->
  process g en e = Some (en', ms) -> runs_bounded (g_max_runs g) en'.
Proof.
  intros M [L F] H. unfold process in H.
  pose proof (parts_negs_bound _ (g_negs g) e _ F) as F0.
  set (parts0 := map (fun '(k, rs) => (k, check_negs (g_negs g) e rs)) (e_parts en)) in *.
  destruct (g_part g) as [f|].
  - set (key := match get f e with Some v => KVal v | None => KMissing end) in *.
    set (cur := match part_get key parts0 with Some rs => rs | None => [] end) in *.
    assert (Lc : length cur <= g_max_runs g).
    { unfold cur. destruct (part_get key parts0) eqn:E; [eapply part_get_bound; eauto | cbn; lia]. }
    destruct (proc_runs _ _ _ _ cur 0 []) as [[rs1 ms1]|] eqn:P; [|discriminate].
    apply proc_runs_length in P.
    set (parts1 := match part_get key parts0 with Some _ => part_set key rs1 parts0 | None => parts0 end) in *.
    assert (F1 : Forall (fun p => length (snd p) <= g_max_runs g) parts1).
    { unfold parts1. destruct (part_get key parts0); [apply part_set_bound; [assumption | lia] | assumption]. }
    destruct (try_start (g_nfa g) (g_lim g) e (e_clock en)) as [r|].
    + set (cur1 := match part_get key parts1 with Some rs => rs | None => [] end) in *.
      assert (Lc1 : length cur1 <= g_max_runs g).
      { unfold cur1. destruct (part_get key parts1) eqn:E; [eapply part_get_bound; eauto | cbn; lia]. }
      destruct (backpressure (g_strategy g) (g_max_runs g) cur1 r (e_cnt en)) as [[rs2 added] c1] eqn:B.
      inversion H; subst. split; cbn; [rewrite check_negs_length; exact L|].
      apply part_set_bound; [exact F1 | eapply backpressure_length; eauto].
    + inversion H; subst. split; cbn; [rewrite check_negs_length; exact L | exact F1].
  - destruct (proc_runs _ _ _ _ (check_negs (g_negs g) e (e_runs en)) 0 []) as [[rs1 ms1]|] eqn:P; [|discriminate].
    apply proc_runs_length in P. rewrite check_negs_length in P.
    destruct (try_start (g_nfa g) (g_lim g) e (e_clock en)) as [r|].
    + destruct (backpressure (g_strategy g) (g_max_runs g) rs1 r (e_cnt en)) as [[rs2 added] c1] eqn:B.
      inversion H; subst. split; cbn; [|exact F0].
      apply (backpressure_length (g_strategy g) (g_max_runs g) rs1 r (e_cnt en) rs2 added c1 M); [lia | exact B].
    + inversion H; subst. split; cbn; [lia | exact F0].
Qed.

(* over whole streams *)
Fixpoint run_engine (g : config) (en : engine) (evs : list event) : option engine :=
  match evs with
  | [] => Some en
  | e :: rest => match process g en e with Some (en', _) => run_engine g en' rest | None => None end
  end.

Theorem runs_bound_stream g evs : forall en en',
  1 <= g_max_runs g -> runs_bounded (g_max_runs g) en ->
  run_engine g en evs = Some en' -> runs_bounded (g_max_runs g) en'.
Proof.
  induction evs as [|e evs IH]; intros en en' M B H; cbn in H.
  - inversion H; subst. exact B.
  - destruct (process g en e) as [[en1 ms]|] eqn:P; [|discriminate].
    apply (IH en1 en' M); [exact (runs_bound_step g en e en1 ms M B P) | exact H].
Qed.

Lemma runs_bounded0 mx : runs_bounded mx engine0.
Proof. split; cbn; [lia | constructor]. Qed.
