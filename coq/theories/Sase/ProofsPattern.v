(* C01, pattern level: a derivation in the NFA compiled from a step list is an
   occurrence of the pattern -- the consumed events follow the steps in order, each
   `all` step taking one or more events, each event having its step's type and
   satisfying its step's (eager) filter under the captures made before it. *)
From VP Require Import Base.Tactics Zdd.Model Sase.Model Sase.ProofsBounds Sase.ProofsSound Sase.ProofsCompile.

(* the filter checked when an event is consumed: the step's filter, except that a filter of
   an `all` step which refers to the step's own alias is postponed to enumeration (C03) *)
Definition eager_pred (s : step) : option pred := if st_all s && postpone s then None else st_pred s.
Definition eager_ok (s : step) (x : event) (c : captured) : bool :=
  N.eqb (ety x) (st_ty s) && match eager_pred s with Some p => eval_pred p x c | None => true end.

Lemma start_target (ss : list step) q : In q (match ss with [] => [] | _ => [1] end) ->
  q = 1 /\ exists s0, nth_error ss 0 = Some s0.
Proof. destruct ss as [|s0 r]; [intros [] | intros [<-|[]]; split; [reflexivity | exists s0; reflexivity]]. Qed.

Section Pattern.
  Variable steps : list step.
  Variable negs : list (N * option pred).

  (* pocc es st j: over the stream segment es, the stack st has been consumed and the
     occurrence currently stands in step j *)
  Inductive pocc : list event -> list (event * option N) -> nat -> Prop :=
  | p_start e s0 : nth_error steps 0 = Some s0 -> eager_ok s0 e [] = true -> pocc [e] [(e, st_alias s0)] 0
  | p_skip es st j x : pocc es st j -> nhit negs x (caps_of st) = false -> pocc (es ++ [x]) st j
  | p_again es st j x s : pocc es st j -> nhit negs x (caps_of st) = false ->
      nth_error steps j = Some s -> st_all s = true -> eager_ok s x (caps_of st) = true ->
      pocc (es ++ [x]) (st ++ [(x, st_alias s)]) j
  | p_next es st j x s : pocc es st j -> nhit negs x (caps_of st) = false ->
      nth_error steps (S j) = Some s -> eager_ok s x (caps_of st) = true ->
      pocc (es ++ [x]) (st ++ [(x, st_alias s)]) (S j).

  Let n := compile steps.
  Let bn := fst (build steps).
  Let last := off steps - 1.

  Lemma compile_nth q : nth_error n q =
    match nth_error bn q with
    | Some s =>
      let s1 := if Nat.eqb q last then mkState TAccept (s_evt s) (s_pred s) (s_alias s) (s_eps s) (s_trans s) (s_self s) (s_post s) (s_eps_acc s) else s in
      Some (mkState (s_type s1) (s_evt s1) (s_pred s1) (s_alias s1) (s_eps s1) (s_trans s1) (s_self s1) (s_post s1)
                    (s_eps_acc (match nth_error n q with Some z => z | None => s1 end)))
    | None => None
    end.
  Proof.
    unfold n, compile. fold (build steps). destruct (build_layout steps) as [_ Pv].
    unfold bn, last. destruct (build steps) as [n0 l0]. cbn [fst snd] in *. subst l0.
    rewrite nth_error_map.
    destruct (Nat.eq_dec q (off steps - 1)) as [->|Ne].
    - rewrite Nat.eqb_refl. destruct (nth_error n0 (off steps - 1)) as [s|] eqn:H.
      + erewrite nth_upd_same by exact H. cbn. reflexivity.
      + assert (X : nth_error (upd n0 (off steps - 1) (fun s => mkState TAccept (s_evt s) (s_pred s) (s_alias s) (s_eps s) (s_trans s) (s_self s) (s_post s) (s_eps_acc s))) (off steps - 1) = None).
        { apply nth_error_None. rewrite upd_length. apply nth_error_None. exact H. }
        rewrite X. reflexivity.
    - rewrite nth_upd_other by lia. replace (Nat.eqb q (off steps - 1)) with false by (symmetry; apply Nat.eqb_neq; exact Ne).
      destruct (nth_error n0 q); reflexivity.
  Qed.

  (* what the compiled NFA holds at the places that matter *)
  Lemma c_fields q s : nth_error bn q = Some s ->
    exists z, nth_error n q = Some z /\ s_evt z = s_evt s /\ s_pred z = s_pred s /\ s_alias z = s_alias s /\
              s_eps z = s_eps s /\ s_trans z = s_trans s /\ s_self z = s_self s /\
              (s_type z = TAccept \/ s_type z = s_type s) /\ (q <> last -> s_type z = s_type s) /\
              (s_type z = TAccept -> s_type s <> TAccept -> q = last).
  Proof.
    intros H. rewrite compile_nth, H. eexists. split; [reflexivity|].
    destruct (Nat.eqb_spec q last); cbn; repeat split; auto; try tauto; congruence.
  Qed.

  Lemma lay : layout steps bn.
  Proof. exact (proj1 (build_layout steps)). Qed.

  Lemma step_fields j s : nth_error steps j = Some s ->
    exists z, nth_error n (sid steps j) = Some z /\
      s_evt z = Some (st_ty s) /\ s_pred z = eager_pred s /\ s_alias z = st_alias s /\
      s_trans z = (if st_all s then [] else nexts steps j) /\
      s_eps z = (if st_all s then [sid steps j; S (sid steps j)] else []) /\
      (is_kleene z && s_self z = true -> st_all s = true).
  Proof.
    intros H. destruct (lay_step _ _ lay j s H) as [A _].
    destruct (c_fields _ _ A) as (z & Hz & E1 & E2 & E3 & E4 & E5 & E6 & T & _).
    exists z. split; [exact Hz|]. unfold step_state, eager_pred in *.
    destruct (st_all s) eqn:Al; cbn in *.
    - repeat split; auto.
    - rewrite E1, E2, E3, E4, E5. repeat split; auto.
      intros K. unfold is_kleene in K. rewrite E6 in K. rewrite andb_false_r in K. discriminate.
  Qed.

  Lemma cont_fields j s : nth_error steps j = Some s -> st_all s = true ->
    exists z, nth_error n (S (sid steps j)) = Some z /\ s_trans z = nexts steps j.
  Proof.
    intros H Al. destruct (lay_step _ _ lay j s H) as [_ B]. specialize (B Al).
    destruct (c_fields _ _ B) as (z & Hz & _ & _ & _ & _ & E5 & _). exists z. split; [exact Hz | exact E5].
  Qed.

  Lemma nexts_in j q : In q (nexts steps j) -> q = sid steps (S j) /\ exists s, nth_error steps (S j) = Some s.
  Proof.
    unfold nexts. destruct (Nat.ltb_spec (S j) (length steps)) as [L|L]; [|intros []].
    intros [<-|[]]. split; [reflexivity|]. destruct (nth_error steps (S j)) eqn:E; [eauto|]. apply nth_error_None in E. lia.
  Qed.

  Lemma matches_eager z s x c : s_evt z = Some (st_ty s) -> s_pred z = eager_pred s ->
    matches_state z x c = true -> eager_ok s x c = true.
  Proof. intros E1 E2 M. unfold matches_state in M. rewrite E1, E2 in M. exact M. Qed.

  (* derivations of the compiled NFA are pattern occurrences *)
  Theorem deriv_pocc es st q : deriv n negs es st q ->
    exists j s, nth_error steps j = Some s /\ q = sid steps j /\ pocc es st j.
  Proof.
    induction 1 as [e q s st0 H0 Iq Hq Hm | es st q x D IH Nh | es st q x q' s' D IH Nh Mv Hq' Hm].
    - (* start *)
      pose proof (lay_start _ _ lay) as S0. destruct (c_fields _ _ S0) as (z & Hz & _ & _ & _ & _ & Tr & _).
      fold n in H0. rewrite Hz in H0. inversion H0; subst st0. rewrite Tr in Iq. cbn in Iq.
      destruct (start_target _ _ Iq) as [-> [s0 H1]].
      destruct (step_fields 0 s0 H1) as (z1 & Hz1 & E1 & E2 & E3 & _).
      assert (Sid0 : sid steps 0 = 1) by reflexivity.
      rewrite Sid0 in Hz1. fold n in Hq. rewrite Hz1 in Hq. inversion Hq; subst s.
      exists 0, s0. split; [exact H1|]. split; [symmetry; exact Sid0|].
      rewrite E3. apply p_start; [exact H1|]. eapply matches_eager; eauto.
    - destruct IH as (j & s & Hj & -> & P). exists j, s. split; [exact Hj|]. split; [reflexivity|]. apply p_skip; assumption.
    - destruct IH as (j & s & Hj & -> & P).
      destruct (step_fields j s Hj) as (z & Hz & E1 & E2 & E3 & Tr & Ep & Kl).
      assert (Target : (q' = sid steps j /\ st_all s = true) \/
                       (q' = sid steps (S j) /\ exists s2, nth_error steps (S j) = Some s2)).
      { destruct Mv as [(z0 & Hz0 & I)|[(-> & z0 & Hz0 & K1 & K2)|(z0 & ep & ze & Hz0 & Iep & Hep & I)]];
          fold n in Hz0; rewrite Hz in Hz0; inversion Hz0; subst z0.
        - rewrite Tr in I. destruct (st_all s); [destruct I|]. right. apply nexts_in. exact I.
        - left. split; [reflexivity|]. apply Kl. rewrite K1, K2. reflexivity.
        - rewrite Ep in Iep. destruct (st_all s) eqn:Al; [|destruct Iep].
          destruct Iep as [<-|[<-|[]]].
          + fold n in Hep. rewrite Hz in Hep. inversion Hep; subst ze. rewrite Tr in I. destruct I.
          + destruct (cont_fields j s Hj Al) as (zc & Hzc & Trc). fold n in Hep. rewrite Hzc in Hep. inversion Hep; subst ze.
            rewrite Trc in I. right. apply nexts_in. exact I. }
      destruct Target as [[-> Al]|[-> [s2 H2]]].
      + fold n in Hq'. rewrite Hz in Hq'. inversion Hq'; subst s'.
        exists j, s. split; [exact Hj|]. split; [reflexivity|]. rewrite E3.
        eapply p_again; eauto. eapply matches_eager; eauto.
      + destruct (step_fields (S j) s2 H2) as (z2 & Hz2 & F1 & F2 & F3 & _).
        fold n in Hq'. rewrite Hz2 in Hq'. inversion Hq'; subst s'.
        exists (S j), s2. split; [exact H2|]. split; [reflexivity|]. rewrite F3.
        eapply p_next; eauto. eapply matches_eager; eauto.
  Qed.

  (* an accepting state reached by a derivation is the last step's *)
  Theorem accepting_last j s : nth_error steps j = Some s -> accepting n (sid steps j) -> S j = length steps.
  Proof.
    intros Hj A. pose proof (sid_lt steps j s Hj) as Ls.
    assert (Lj : j < length steps) by (apply nth_error_Some; congruence).
    destruct (lay_step _ _ lay j s Hj) as [Bs Bc].
    assert (NotLast : S j < length steps -> sid steps j + (if st_all s then 2 else 1) < off steps).
    { intros L2. destruct (nth_error steps (S j)) as [s2|] eqn:H2; [|apply nth_error_None in H2; lia].
      pose proof (sid_lt steps (S j) s2 H2). rewrite (sid_S _ _ _ Hj) in H. destruct (st_all s), (st_all s2); lia. }
    destruct (Nat.eq_dec (S j) (length steps)) as [E|Ne]; [exact E|]. exfalso.
    assert (Lt : S j < length steps) by lia. specialize (NotLast Lt).
    destruct A as [(z & Hz & T)|(z & ep & ze & Hz & Iep & Hep & T)].
    - destruct (c_fields _ _ Bs) as (z' & Hz' & _ & _ & _ & _ & _ & _ & _ & Keep & Only).
      fold n in Hz. rewrite Hz' in Hz. inversion Hz; subst z'.
      assert (sid steps j = last).
      { apply Only; [exact T|]. unfold step_state. destruct (st_all s); discriminate. }
      unfold last in H. destruct (st_all s); lia.
    - destruct (step_fields j s Hj) as (z' & Hz' & _ & _ & _ & _ & Ep & _).
      fold n in Hz. rewrite Hz' in Hz. inversion Hz; subst z'. rewrite Ep in Iep.
      destruct (st_all s) eqn:Al; [|destruct Iep]. destruct Iep as [<-|[<-|[]]].
      + fold n in Hep. rewrite Hz' in Hep. inversion Hep; subst ze.
        destruct (c_fields _ _ Bs) as (z2 & Hz2 & _ & _ & _ & _ & _ & _ & _ & _ & Only).
        rewrite Hz' in Hz2. inversion Hz2; subst z2.
        assert (sid steps j = last) by (apply Only; [exact T | unfold step_state; rewrite Al; discriminate]).
        unfold last in H. lia.
      + destruct (c_fields _ _ (Bc eq_refl)) as (z2 & Hz2 & _ & _ & _ & _ & _ & _ & _ & _ & Only).
        fold n in Hep. rewrite Hz2 in Hep. inversion Hep; subst z2.
        assert (S (sid steps j) = last) by (apply Only; [exact T | discriminate]).
        unfold last in H. lia.
  Qed.
End Pattern.
