(* C04 for sequence patterns, as a corollary of C02's exactness: with partition_by and no .not
   clause, what the engine emits on a stream is, up to order, the union over the partition
   values of what it emits on each value's sub-stream alone. *)
From Coq Require Import Permutation.
From VP Require Import Base.Tactics Zdd.Model Sase.Model Sase.Ref Sase.ProofsKeyed Sase.ProofsExactRef Sase.ProofsExactRun Sase.ProofsExact.

Section Keys.
  Variable part : option N.

  Definition fk (k : pkey) (evs : list event) : list event :=
    filter (fun e => pkey_eqb (key_of part e) k) evs.

  Lemma fk_length k evs : length (fk k evs) <= length evs.
  Proof. unfold fk. induction evs as [|e evs IH]; cbn [filter length]; [lia|]. destruct (pkey_eqb (key_of part e) k); cbn [length]; lia. Qed.

  (* an attempt of partition k does not see the other partitions' events *)
  Lemma grun_filter : forall evs k g, grun [] part k g evs = grun [] part k g (fk k evs).
  Proof.
    induction evs as [|x evs IH]; intros k g; [reflexivity|].
    cbn [fk filter]. destruct (pkey_eqb (key_of part x) k) eqn:E.
    - cbn [grun]. destruct (gstep [] part k g x); [reflexivity | reflexivity | apply IH].
    - fold (fk k evs). rewrite <- IH. cbn [grun].
      assert (G : gstep [] part k g x = GLive g).
      { destruct g as [[rest c] stk]. unfold gstep. cbn [neg_hit existsb]. rewrite E. cbn [andb].
        destruct rest; reflexivity. }
      rewrite G. reflexivity.
  Qed.

  Variable s0 : step.
  Variable rest0 : list step.
  Local Notation refe := (ref_e [] part s0 rest0).

  Lemma flat_map_nil {A B} (l : list A) : flat_map (fun _ : A => @nil B) l = [].
  Proof. induction l; cbn; auto. Qed.

  Lemma ref_e_other_key x evs (l : list pkey) : ~ In (key_of part x) l ->
    flat_map (fun k => refe (fk k (x :: evs))) l = flat_map (fun k => refe (fk k evs)) l.
  Proof.
    induction l as [|k l IH]; intros Ni; [reflexivity|]. cbn [flat_map].
    rewrite IH by (intros I; apply Ni; right; exact I). f_equal.
    cbn [fk filter]. rewrite pkey_eqb_neq by (intros E; apply Ni; left; symmetry; exact E). reflexivity.
  Qed.

  Theorem ref_e_by_keys : forall evs keys, NoDup keys -> (forall e, In e evs -> In (key_of part e) keys) ->
    Permutation (refe evs) (flat_map (fun k => refe (fk k evs)) keys).
  Proof.
    induction evs as [|x evs IH]; intros keys Nd Cov.
    - cbn [fk filter ref_e]. rewrite flat_map_nil. reflexivity.
    - assert (Ix : In (key_of part x) keys) by (apply Cov; left; reflexivity).
      destruct (in_split _ _ Ix) as (l1 & l2 & Ek).
      assert (N12 : ~ In (key_of part x) (l1 ++ l2)) by (rewrite Ek in Nd; apply NoDup_remove_2 in Nd; exact Nd).
      assert (N1 : ~ In (key_of part x) l1) by (intros I; apply N12; apply in_or_app; left; exact I).
      assert (N2 : ~ In (key_of part x) l2) by (intros I; apply N12; apply in_or_app; right; exact I).
      specialize (IH keys Nd (fun e I => Cov e (or_intror I))).
      rewrite Ek in IH |- *. rewrite !flat_map_app in IH |- *. cbn [flat_map] in IH |- *.
      rewrite (ref_e_other_key x evs l1 N1), (ref_e_other_key x evs l2 N2).
      assert (Ex : fk (key_of part x) (x :: evs) = x :: fk (key_of part x) evs)
        by (cbn [fk filter]; rewrite pkey_eqb_refl; reflexivity).
      rewrite Ex. cbn [ref_e]. unfold start_state. cbn [fst snd].
      rewrite <- (grun_filter evs (key_of part x)).
      set (S := if step_ok s0 x [] then opt_ids (grun [] part (key_of part x) (rest0, bind_alias [] x (st_alias s0), [(x, st_alias s0)]) evs) else []).
      rewrite IH. rewrite <- !app_assoc.
      rewrite (Permutation_app_comm (flat_map (fun k => refe (fk k evs)) l1) (S ++ _)).
      rewrite <- !app_assoc. apply Permutation_app_head.
      rewrite (Permutation_app_comm (flat_map (fun k => refe (fk k evs)) l1)). rewrite <- !app_assoc. reflexivity.
  Qed.
End Keys.

Section EngineKeys.
  Variable s0 : step.
  Variable rest0 : list step.
  Hypothesis NoAll : Forall (fun s => st_all s = false) (xsteps s0 rest0).
  Hypothesis Two : rest0 <> [].
  Variable part : option N.
  Variable mx : nat.
  Variable strat : strategy.
  Variable lim : limits.
  Local Notation g := (xcfg s0 rest0 [] part mx strat lim).

  Theorem engine_by_keys evs keys : length evs <= mx -> NoDup keys -> (forall e, In e evs -> In (key_of part e) keys) ->
    exists l ls, engine_stacks g engine0 evs = Some l /\
      Forall2 (fun k lk => engine_stacks g engine0 (fk part k evs) = Some lk) keys ls /\
      Permutation l (concat ls).
  Proof.
    intros L Nd Cov.
    destruct (engine_exact s0 rest0 NoAll Two [] part mx strat lim evs L) as (l & Hl & Pl).
    assert (Each : forall ks, exists ls, Forall2 (fun k lk => engine_stacks g engine0 (fk part k evs) = Some lk) ks ls /\
              Permutation (concat ls) (flat_map (fun k => ref_e [] part s0 rest0 (fk part k evs)) ks)).
    { induction ks as [|k ks (ls & F & P)]; [exists []; split; [constructor | reflexivity]|].
      destruct (engine_exact s0 rest0 NoAll Two [] part mx strat lim (fk part k evs)) as (lk & Hk & Pk).
      - pose proof (fk_length part k evs). lia.
      - exists (lk :: ls). split; [constructor; assumption|]. cbn [concat flat_map]. rewrite Pk, P. reflexivity. }
    destruct (Each keys) as (ls & F & P).
    exists l, ls. split; [exact Hl|]. split; [exact F|].
    rewrite Pl, P. apply ref_e_by_keys; assumption.
  Qed.
End EngineKeys.
