(* C02, engine side, part 1: the swap_remove loop of process_runs_shared computes, up to
   order, the same thing as treating every run of the list independently -- for every
   list, every NFA, every event; and it terminates within its fuel when no run panics. *)
From Coq Require Import Permutation.
From VP Require Import Base.Tactics Zdd.Model Sase.Model Sase.ProofsBounds Sase.ProofsSound Sase.ProofsSoundEngine.

Lemma skipn_S_tl {A} (l : list A) i x tl : skipn i l = x :: tl -> skipn (S i) l = tl.
Proof.
  revert i. induction l as [|a l IHl]; intros [|i] Sk; cbn in *; try discriminate.
  - inversion Sk. reflexivity.
  - apply IHl. exact Sk.
Qed.

Lemma skipn_swap_remove_perm {A} (l : list A) i : i < length l ->
  Permutation (skipn i (swap_remove l i)) (skipn (S i) l).
Proof.
  intros Li. unfold swap_remove. destruct (skipn i l) as [|x tl] eqn:Sk.
  - apply (f_equal (@length A)) in Sk. rewrite skipn_length in Sk. cbn in Sk. lia.
  - assert (L : length (firstn i l) = i) by (apply firstn_length_le; lia).
    rewrite (skipn_S_tl _ _ _ _ Sk).
    rewrite <- L at 1. rewrite skipn_app, Nat.sub_diag, skipn_all. cbn [skipn app].
    destruct (rev tl) as [|z rt] eqn:R.
    + apply (f_equal (@rev A)) in R. rewrite rev_involutive in R. subst tl. reflexivity.
    + apply (f_equal (@rev A)) in R. rewrite rev_involutive in R. subst tl. cbn [rev].
      apply Permutation_cons_append.
Qed.

Section Loop.
  Variable n : nfa.
  Variable lim : limits.
  Variable x : event.

  (* one run treated on its own: what stays in the list, what is emitted *)
  Definition one (r : run) : list run * list mres :=
    if r_inval r then ([], []) else
    match advance n lim r x with
    | AContinue r' | ANoMatch r' => ([r'], [])
    | AComplete m => ([], [m])
    | ACompleteContinue r' m => ([r'], [m])
    | AMulti ms => ([], ms)
    | APanic => ([], [])
    end.
  Definition nopanic (r : run) : Prop := r_inval r = true \/ advance n lim r x <> APanic.
  Definition keeps (l : list run) : list run := flat_map (fun r => fst (one r)) l.
  Definition outs (l : list run) : list mres := flat_map (fun r => snd (one r)) l.

  Theorem proc_runs_spec : forall fuel runs i acc,
    length runs - i < fuel -> Forall nopanic (skipn i runs) ->
    exists rs' ms, proc_runs fuel n lim x runs i acc = Some (rs', ms) /\
      Permutation rs' (firstn i runs ++ keeps (skipn i runs)) /\
      Permutation ms (acc ++ outs (skipn i runs)).
  Proof.
    induction fuel as [|f IH]; intros runs i acc Lf NP; [lia|].
    cbn [proc_runs]. destruct (nth_error runs i) as [r|] eqn:Hr.
    2:{ apply nth_error_None in Hr. exists runs, acc. split; [reflexivity|].
        rewrite skipn_all2 by exact Hr. rewrite firstn_all2 by exact Hr. cbn. rewrite !app_nil_r. split; reflexivity. }
    assert (Li : i < length runs) by (apply nth_error_Some; congruence).
    rewrite (skipn_nth _ _ _ Hr) in NP |- *. inversion NP as [|? ? NPr NPt]; subst.
    assert (Remove : forall acc' em, fst (one r) = [] -> snd (one r) = em ->
      exists rs' ms, proc_runs f n lim x (swap_remove runs i) i acc' = Some (rs', ms) /\
        Permutation rs' (firstn i runs ++ keeps (r :: skipn (S i) runs)) /\
        (Permutation acc' (acc ++ em) -> Permutation ms (acc ++ outs (r :: skipn (S i) runs)))).
    { intros acc' em E1 E2.
      pose proof (skipn_swap_remove_perm runs i Li) as P.
      destruct (IH (swap_remove runs i) i acc') as (rs' & ms & H & P1 & P2).
      - rewrite swap_remove_length by exact Li. lia.
      - eapply Permutation_Forall; [symmetry; exact P | exact NPt].
      - exists rs', ms. split; [exact H|]. split.
        + rewrite P1, firstn_swap_remove. apply Permutation_app_head.
          unfold keeps. cbn [flat_map]. rewrite E1. cbn [app]. apply Permutation_flat_map. exact P.
        + intros Pa. rewrite P2. unfold outs. cbn [flat_map]. rewrite E2.
          rewrite Pa, <- app_assoc. apply Permutation_app_head. apply Permutation_app_head.
          apply Permutation_flat_map. exact P. }
    assert (Update : forall r' acc' em, fst (one r) = [r'] -> snd (one r) = em ->
      exists rs' ms, proc_runs f n lim x (upd runs i (fun _ => r')) (S i) acc' = Some (rs', ms) /\
        Permutation rs' (firstn i runs ++ keeps (r :: skipn (S i) runs)) /\
        (Permutation acc' (acc ++ em) -> Permutation ms (acc ++ outs (r :: skipn (S i) runs)))).
    { intros r' acc' em E1 E2.
      destruct (IH (upd runs i (fun _ => r')) (S i) acc') as (rs' & ms & H & P1 & P2).
      - rewrite upd_length. lia.
      - rewrite skipn_upd. exact NPt.
      - exists rs', ms. split; [exact H|]. split.
        + rewrite P1, (firstn_upd _ _ _ _ Hr), skipn_upd, <- app_assoc. apply Permutation_app_head.
          unfold keeps. cbn [flat_map]. rewrite E1. reflexivity.
        + intros Pa. rewrite P2, skipn_upd. unfold outs. cbn [flat_map]. rewrite E2.
          rewrite Pa, <- app_assoc. reflexivity. }
    unfold one in Remove, Update. destruct (r_inval r) eqn:Iv.
    - destruct (Remove acc [] eq_refl eq_refl) as (rs' & ms & H & P1 & P2).
      exists rs', ms. split; [exact H|]. split; [exact P1|]. apply P2. rewrite app_nil_r. reflexivity.
    - destruct NPr as [NPr|NPr]; [congruence|].
      destruct (advance n lim r x) as [r'|m|r' m|ms0|r'|] eqn:Ad; [| | | | |congruence].
      + destruct (Update r' acc [] eq_refl eq_refl) as (rs' & ms & H & P1 & P2).
        exists rs', ms. split; [exact H|]. split; [exact P1|]. apply P2. rewrite app_nil_r. reflexivity.
      + destruct (Remove (acc ++ [m]) [m] eq_refl eq_refl) as (rs' & ms & H & P1 & P2).
        exists rs', ms. split; [exact H|]. split; [exact P1|]. apply P2. reflexivity.
      + destruct (Update r' (acc ++ [m]) [m] eq_refl eq_refl) as (rs' & ms & H & P1 & P2).
        exists rs', ms. split; [exact H|]. split; [exact P1|]. apply P2. reflexivity.
      + destruct (Remove (acc ++ ms0) ms0 eq_refl eq_refl) as (rs' & ms & H & P1 & P2).
        exists rs', ms. split; [exact H|]. split; [exact P1|]. apply P2. reflexivity.
      + destruct (Update r' acc [] eq_refl eq_refl) as (rs' & ms & H & P1 & P2).
        exists rs', ms. split; [exact H|]. split; [exact P1|]. apply P2. rewrite app_nil_r. reflexivity.
  Qed.

  Corollary proc_runs_all runs : Forall nopanic runs ->
    exists rs' ms, proc_runs (S (length runs + length runs)) n lim x runs 0 [] = Some (rs', ms) /\
      Permutation rs' (keeps runs) /\ Permutation ms (outs runs).
  Proof.
    intros NP. destruct (proc_runs_spec (S (length runs + length runs)) runs 0 []) as (rs' & ms & H & P1 & P2).
    - lia.
    - exact NP.
    - exists rs', ms. split; [exact H|]. split; [exact P1 | exact P2].
  Qed.
End Loop.
