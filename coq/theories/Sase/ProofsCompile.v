(* Facts about NFAs produced by [compile]: the flag pre-computation is sound, and the
   layout -- step j sits at state [sid steps j], an `all` step is followed by its
   continue state, transitions lead from one step to the next. *)
From VP Require Import Base.Tactics Zdd.Model Sase.Model Sase.ProofsBounds Sase.ProofsSound.

Lemma compile_flags steps : flags_ok (compile steps).
Proof.
  unfold compile.
  destruct (fold_left (fun '(n, prev) s => compile_step n prev s) steps ([state0 TStart], 0)) as [n0 last].
  set (n' := upd n0 last _).
  intros q s Hq Ha.
  rewrite nth_error_map in Hq. destruct (nth_error n' q) as [s0|] eqn:H0; [|discriminate].
  cbn in Hq. inversion Hq; subst s. cbn in Ha. clear Hq.
  apply existsb_exists in Ha. destruct Ha as (ep & Iep & Acc).
  unfold is_accept in Acc. destruct (nth_error n' ep) as [e0|] eqn:He; [|discriminate].
  exists ep. eexists. cbn. split; [exact Iep|]. split.
  - rewrite nth_error_map, He. reflexivity.
  - cbn. destruct (s_type e0); try discriminate. reflexivity.
Qed.

(* ---- list plumbing ---- *)
Lemma nth_upd_same {A} (l : list A) i f x : nth_error l i = Some x -> nth_error (upd l i f) i = Some (f x).
Proof.
  revert i. induction l as [|y l IH]; intros i H; destruct i; cbn in *; try discriminate.
  - inversion H; reflexivity.
  - apply IH; exact H.
Qed.
Lemma nth_upd_other {A} (l : list A) i j f : i <> j -> nth_error (upd l i f) j = nth_error l j.
Proof. revert i j. induction l as [|y l IH]; intros [|i] [|j] H; cbn; auto; try lia. all: try (apply IH; lia). Qed.
Lemma upd_app_l {A} (l m : list A) i f : i < length l -> upd (l ++ m) i f = upd l i f ++ m.
Proof. revert i. induction l as [|y l IH]; intros [|i] H; cbn in *; try lia; [reflexivity|]. f_equal. apply IH. lia. Qed.
Lemma upd_app_r {A} (l : list A) x f : upd (l ++ [x]) (length l) f = l ++ [f x].
Proof. induction l as [|y l IH]; cbn; [reflexivity | f_equal; exact IH]. Qed.
Lemma upd_length' {A} (l : list A) i f : length (upd l i f) = length l.
Proof. apply upd_length. Qed.

(* ---- layout ---- *)
Definition count_all (ss : list step) : nat := length (filter st_all ss).
Definition off (ss : list step) : nat := 1 + length ss + count_all ss.
Definition sid (ss : list step) (j : nat) : nat := off (firstn j ss).

Definition postpone (s : step) : bool :=
  match st_pred s with Some p => classify p (st_alias s) | None => false end.
Definition step_state (s : step) (i : nat) (nx : list nat) : state :=
  if st_all s then
    mkState TKleene (Some (st_ty s)) (if postpone s then None else st_pred s) (st_alias s) [i; S i] [] true
            (if postpone s then st_pred s else None) false
  else mkState TNormal (Some (st_ty s)) (st_pred s) (st_alias s) [] nx false None false.
Definition cont_state (nx : list nat) : state := mkState TNormal None None None [] nx false None false.
Definition start_state (nx : list nat) : state := mkState TStart None None None [] nx false None false.

Definition nexts (ss : list step) (j : nat) : list nat := if Nat.ltb (S j) (length ss) then [sid ss (S j)] else [].

Record layout (ss : list step) (n : nfa) : Prop := {
  lay_len : length n = off ss;
  lay_start : nth_error n 0 = Some (start_state (match ss with [] => [] | _ => [1] end));
  lay_step : forall j s, nth_error ss j = Some s ->
    nth_error n (sid ss j) = Some (step_state s (sid ss j) (nexts ss j)) /\
    (st_all s = true -> nth_error n (S (sid ss j)) = Some (cont_state (nexts ss j))) }.

Lemma count_all_app a b : count_all (a ++ b) = count_all a + count_all b.
Proof. unfold count_all. rewrite filter_app, app_length. reflexivity. Qed.
Lemma off_snoc ss s : off (ss ++ [s]) = off ss + (if st_all s then 2 else 1).
Proof. unfold off. rewrite app_length, count_all_app. unfold count_all. cbn. destruct (st_all s); cbn; lia. Qed.
Lemma sid_snoc ss s j : j <= length ss -> sid (ss ++ [s]) j = sid ss j.
Proof. intros L. unfold sid. rewrite firstn_app. replace (j - length ss) with 0 by lia. cbn. rewrite app_nil_r. reflexivity. Qed.
Lemma sid_full ss : sid ss (length ss) = off ss.
Proof. unfold sid. rewrite firstn_all. reflexivity. Qed.
Lemma firstn_S_snoc (ss : list step) j s : nth_error ss j = Some s -> firstn (S j) ss = firstn j ss ++ [s].
Proof.
  revert j. induction ss as [|y l IH]; intros j H; destruct j; cbn in *; try discriminate.
  - inversion H; reflexivity.
  - f_equal. apply IH. exact H.
Qed.
Lemma off_app_le a b : off a <= off (a ++ b).
Proof. unfold off. rewrite app_length, count_all_app. lia. Qed.
Lemma off_firstn_le ss k : off (firstn k ss) <= off ss.
Proof. pose proof (off_app_le (firstn k ss) (skipn k ss)) as H. rewrite firstn_skipn in H. exact H. Qed.
Lemma sid_S ss j s : nth_error ss j = Some s -> sid ss (S j) = sid ss j + (if st_all s then 2 else 1).
Proof. intros H. unfold sid. rewrite (firstn_S_snoc _ _ _ H). apply off_snoc. Qed.
Lemma sid_lt ss j s : nth_error ss j = Some s -> sid ss j + (if st_all s then 2 else 1) <= off ss.
Proof. intros H. rewrite <- (sid_S _ _ _ H). apply off_firstn_le. Qed.
Lemma sid_pos ss j : 1 <= sid ss j.
Proof. unfold sid, off. lia. Qed.

Definition build (ss : list step) : nfa * nat :=
  fold_left (fun '(n, prev) s => compile_step n prev s) ss ([state0 TStart], 0).

Lemma build_snoc ss s : build (ss ++ [s]) = let '(n, prev) := build ss in compile_step n prev s.
Proof. unfold build. rewrite fold_left_app. cbn. destruct (fold_left _ ss _). reflexivity. Qed.

(* the state added for a step, before the Kleene conversion *)
Lemma add_trans_content (n : nfa) from to s :
  nth_error n from = Some s ->
  nth_error (add_trans n from to) from =
    Some (mkState (s_type s) (s_evt s) (s_pred s) (s_alias s) (s_eps s) (s_trans s ++ [to]) (s_self s) (s_post s) (s_eps_acc s)).
Proof. intros H. unfold add_trans. erewrite nth_upd_same by exact H. reflexivity. Qed.

Theorem build_layout ss : layout ss (fst (build ss)) /\ snd (build ss) = off ss - 1.
Proof.
  induction ss as [|s ss IH] using rev_ind.
  - cbn. split; [|reflexivity]. split; cbn; [reflexivity | reflexivity |].
    intros j s H. destruct j; discriminate.
  - rewrite build_snoc. destruct (build ss) as [n prev] eqn:B. cbn [fst snd] in IH.
    destruct IH as [[Len St Stp] Pv]. subst prev.
    set (id := length n).
    assert (Eid : id = off ss) by exact Len.
    assert (Ppos : off ss - 1 < length n) by (rewrite Len; unfold off; lia).
    (* the state that receives the new transition *)
    unfold compile_step. fold id.
    set (new0 := mkState TNormal (Some (st_ty s)) (st_pred s) (st_alias s) [] [] false None false).
    set (n2 := add_trans (n ++ [new0]) (off ss - 1) id).
    assert (N2len : length n2 = S id) by (unfold n2, add_trans; rewrite upd_length, app_length; cbn; lia).
    assert (N2id : nth_error n2 id = Some new0).
    { unfold n2, add_trans. rewrite nth_upd_other by lia. rewrite nth_error_app2 by lia.
      replace (id - length n) with 0 by lia. reflexivity. }
    assert (N2old : forall q, q < id -> q <> off ss - 1 -> nth_error n2 q = nth_error n q).
    { intros q Lq Nq. unfold n2, add_trans. rewrite nth_upd_other by lia. apply nth_error_app1. exact Lq. }
    assert (N2prev : forall x, nth_error n (off ss - 1) = Some x ->
              nth_error n2 (off ss - 1) =
              Some (mkState (s_type x) (s_evt x) (s_pred x) (s_alias x) (s_eps x) (s_trans x ++ [id]) (s_self x) (s_post x) (s_eps_acc x))).
    { intros x Hx. unfold n2. apply add_trans_content. rewrite nth_error_app1 by exact Ppos. exact Hx. }
    (* facts about old steps in n2, with the last one's next-list updated *)
    assert (Old : forall j s', nth_error ss j = Some s' ->
              nth_error n2 (sid ss j) = Some (step_state s' (sid ss j) (nexts (ss ++ [s]) j)) /\
              (st_all s' = true -> nth_error n2 (S (sid ss j)) = Some (cont_state (nexts (ss ++ [s]) j)))).
    { intros j s' Hj. destruct (Stp j s' Hj) as [A Bc].
      pose proof (sid_lt ss j s' Hj) as Ls.
      assert (Lj : j < length ss) by (apply nth_error_Some; congruence).
      unfold nexts. rewrite app_length. cbn [length].
      destruct (Nat.eq_dec (S j) (length ss)) as [Last|NotLast].
      - (* the last old step: its successor list becomes [id] *)
        assert (Off : off ss = sid ss j + (if st_all s' then 2 else 1)).
        { rewrite <- (sid_S _ _ _ Hj), Last. symmetry. apply sid_full. }
        replace (Nat.ltb (S j) (length ss + 1)) with true by (symmetry; apply Nat.ltb_lt; lia).
        rewrite sid_snoc by lia. rewrite Last, sid_full. fold id in Eid. rewrite <- Eid.
        unfold nexts in A, Bc. replace (Nat.ltb (S j) (length ss)) with false in A, Bc by (symmetry; apply Nat.ltb_ge; lia).
        destruct (st_all s') eqn:Al.
        + (* prev is the continue state *)
          assert (Pv : off ss - 1 = S (sid ss j)) by lia.
          split.
          * rewrite N2old by lia. rewrite A. unfold step_state. rewrite Al. reflexivity.
          * intros _. rewrite <- Pv. rewrite (N2prev _ ltac:(rewrite Pv; exact (Bc eq_refl))). reflexivity.
        + assert (Pv : off ss - 1 = sid ss j) by lia.
          split; [|discriminate]. rewrite <- Pv. rewrite (N2prev _ ltac:(rewrite Pv; exact A)).
          unfold step_state. rewrite Al. reflexivity.
      - assert (Lt : S j < length ss) by lia.
        replace (Nat.ltb (S j) (length ss + 1)) with true by (symmetry; apply Nat.ltb_lt; lia).
        unfold nexts in A, Bc. replace (Nat.ltb (S j) (length ss)) with true in A, Bc by (symmetry; apply Nat.ltb_lt; lia).
        rewrite sid_snoc by lia.
        destruct (nth_error ss (S j)) as [s2|] eqn:H2; [|apply nth_error_None in H2; lia].
        pose proof (sid_lt ss (S j) s2 H2) as L2.
        assert (Mono : sid ss j + (if st_all s' then 2 else 1) = sid ss (S j)) by (symmetry; apply sid_S; exact Hj).
        split.
        + rewrite N2old; [exact A | destruct (st_all s'), (st_all s2); lia | destruct (st_all s'), (st_all s2); lia].
        + intros Al. rewrite N2old; [exact (Bc Al) | rewrite Al in Mono; destruct (st_all s2); lia | rewrite Al in Mono; destruct (st_all s2); lia]. }
    (* the start state *)
    assert (Start2 : nth_error n2 0 = Some (start_state [1])).
    { destruct ss as [|s0 ss0].
      - cbn in *. assert (E0 : off [] - 1 = 0) by reflexivity.
        change (off [] - 1) with 0 in N2prev. rewrite (N2prev _ St). cbn.
        assert (id = 1) by (rewrite Eid; reflexivity). subst id. rewrite H. reflexivity.
      - rewrite N2old; [exact St | lia | unfold off; cbn; lia]. }
    destruct (st_all s) eqn:Al.
    + (* Kleene step: conversion, self epsilon, continue state, epsilon to it *)
      set (conv := fun x : state =>
        let postpone := match s_pred x with Some p => classify p (s_alias x) | None => false end in
        mkState TKleene (s_evt x) (if postpone then None else s_pred x) (s_alias x) (s_eps x) (s_trans x) true
                (if postpone then s_pred x else None) false).
      set (n3 := upd n2 id conv).
      set (n4 := add_eps n3 id id).
      assert (L4 : length n4 = S id) by (unfold n4, add_eps, n3; rewrite !upd_length; exact N2len).
      rewrite L4.
      set (n6 := add_eps (n4 ++ [state0 TNormal]) id (S id)).
      cbn [fst snd]. split; [|rewrite off_snoc, Al; lia].
      assert (Other : forall q, q <> id -> q < S id -> nth_error n6 q = nth_error n2 q).
      { intros q Nq Lq. unfold n6, add_eps. rewrite nth_upd_other by lia.
        rewrite nth_error_app1 by lia. unfold n4, add_eps. rewrite nth_upd_other by lia.
        unfold n3. rewrite nth_upd_other by lia. reflexivity. }
      assert (AtId : nth_error n6 id = Some (step_state s id [])).
      { unfold n6, add_eps. erewrite nth_upd_same; [|rewrite nth_error_app1 by lia; unfold n4, add_eps;
          erewrite nth_upd_same; [reflexivity | unfold n3; erewrite nth_upd_same; [reflexivity | exact N2id]]].
        unfold step_state, conv, new0, postpone. rewrite Al. cbn. reflexivity. }
      assert (AtCont : nth_error n6 (S id) = Some (cont_state [])).
      { unfold n6, add_eps. rewrite nth_upd_other by lia. rewrite nth_error_app2 by lia.
        replace (S id - length n4) with 0 by lia. reflexivity. }
      split.
      * unfold n6, add_eps. rewrite upd_length, app_length, L4, off_snoc, Al. cbn [length]. lia.
      * destruct ss; cbn [app]; (rewrite Other; [exact Start2 | lia | lia]).
      * intros j s' Hj. destruct (Nat.lt_ge_cases j (length ss)) as [Lj|Gj].
        -- rewrite nth_error_app1 in Hj by exact Lj. destruct (Old j s' Hj) as [A Bc].
           pose proof (sid_lt ss j s' Hj) as Ls. rewrite sid_snoc by lia.
           split; [rewrite Other; [exact A | destruct (st_all s'); lia | destruct (st_all s'); lia]|].
           intros Al'. rewrite Other; [exact (Bc Al') | rewrite Al' in Ls; lia | rewrite Al' in Ls; lia].
        -- rewrite nth_error_app2 in Hj by exact Gj.
           destruct (j - length ss) as [|d] eqn:D; [|destruct d; discriminate]. cbn in Hj. inversion Hj; subst s'.
           assert (j = length ss) by lia. subst j. rewrite sid_snoc, sid_full by lia. rewrite <- Eid.
           unfold nexts. rewrite app_length. cbn [length].
           replace (Nat.ltb (S (length ss)) (length ss + 1)) with false by (symmetry; apply Nat.ltb_ge; lia).
           split; [exact AtId | intros _; exact AtCont].
    + cbn [fst snd]. split; [|rewrite off_snoc, Al; lia].
      split.
      * rewrite N2len, off_snoc, Al. lia.
      * destruct ss; cbn [app]; exact Start2.
      * intros j s' Hj. destruct (Nat.lt_ge_cases j (length ss)) as [Lj|Gj].
        -- rewrite nth_error_app1 in Hj by exact Lj. rewrite sid_snoc by lia. exact (Old j s' Hj).
        -- rewrite nth_error_app2 in Hj by exact Gj.
           destruct (j - length ss) as [|d] eqn:D; [|destruct d; discriminate]. cbn in Hj. inversion Hj; subst s'.
           assert (j = length ss) by lia. subst j. rewrite sid_snoc, sid_full by lia. rewrite <- Eid.
           unfold nexts. rewrite app_length. cbn [length].
           replace (Nat.ltb (S (length ss)) (length ss + 1)) with false by (symmetry; apply Nat.ltb_ge; lia).
           split; [|congruence]. rewrite N2id. unfold step_state, new0. rewrite Al. reflexivity.
Qed.
