(* Facts about NFAs produced by [compile]. *)
From VP Require Import Base.Tactics Zdd.Model Sase.Model Sase.ProofsBounds Sase.ProofsSound.

Lemma compile_flags steps : flags_ok (compile steps).
Proof.
  unfold compile.
  destruct (fold_left (fun '(n, prev) s => compile_step n prev s) steps ([state0 TStart], 0)) as [n0 last].
  set (n' := upd n0 last _).
  intros q s Hq Ha.
  rewrite nth_error_map in Hq. destruct (nth_error n' q) as [s0|] eqn:H0; [|discriminate].
  cbn in Hq. inversion Hq; subst s. cbn in Ha. clear Hq.
  apply existsb_exists in Ha. destruct Ha as (ep & Iep & Acc).
  unfold is_accept in Acc. destruct (nth_error n' ep) as [e0|] eqn:He; [|discriminate].
  exists ep. eexists. cbn. split; [exact Iep|]. split.
  - rewrite nth_error_map, He. reflexivity.
  - cbn. destruct (s_type e0); try discriminate. reflexivity.
Qed.
