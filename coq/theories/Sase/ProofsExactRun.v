(* C02, engine side, part 2: for a sequence pattern without `all`, the compiled NFA is a
   chain, and one call of advance_run_shared on a live run is exactly one [gstep] of the
   reference attempt the run stands for. *)
From Coq Require Import Permutation.
From VP Require Import Base.Tactics Zdd.Model Sase.Model Sase.Ref Sase.ProofsBounds Sase.ProofsSound
  Sase.ProofsSoundEngine Sase.ProofsCompile Sase.ProofsKeyed Sase.ProofsExactRef Sase.ProofsExactLoop.

Lemma count_all_none ss : Forall (fun s => st_all s = false) ss -> count_all ss = 0.
Proof.
  unfold count_all. induction 1 as [|s ss Hs _ IH]; [reflexivity|]. cbn. rewrite Hs. exact IH.
Qed.
Lemma Forall_firstn' {A} (P : A -> Prop) l k : Forall P l -> Forall P (firstn k l).
Proof. intros F. revert k. induction F as [|a l Ha _ IH]; intros [|k]; cbn; constructor; auto. Qed.

Lemma nth_upd_same_at {A} (l : list A) i j f y : i = j -> nth_error l i = Some y -> nth_error (upd l i f) j = Some (f y).
Proof. intros <-. apply nth_upd_same. Qed.

Lemma pkey_eqb_refl a : pkey_eqb a a = true.
Proof.
  destruct a as [|v]; [reflexivity|]. destruct v; cbn.
  - apply Z.eqb_refl. - apply Z.eqb_refl. - apply N.eqb_refl. - apply Bool.eqb_reflx.
Qed.
Lemma pkey_eqb_neq a b : a <> b -> pkey_eqb a b = false.
Proof. intros N. destruct (pkey_eqb a b) eqn:E; [|reflexivity]. apply pkey_eqb_eq in E. contradiction. Qed.

Section Chain.
  Variable s0 : step.
  Variable rest0 : list step.
  (* constants rather than Let-bound variables, so that cbn [..] leaves them folded *)
  Definition xsteps : list step := s0 :: rest0.
  Local Notation steps := xsteps.
  Hypothesis NoAll : Forall (fun s => st_all s = false) steps.
  Hypothesis Two : rest0 <> [].
  Definition xnfa : nfa := compile steps.
  Local Notation n := xnfa.

  Lemma sid_plain j : j <= length steps -> sid steps j = S j.
  Proof.
    intros L. unfold sid, off. rewrite count_all_none by (apply Forall_firstn'; exact NoAll).
    rewrite firstn_length_le by exact L. lia.
  Qed.
  Lemma off_plain : off steps = S (length steps).
  Proof. unfold off. rewrite count_all_none by exact NoAll. lia. Qed.

  Definition chain_state (j : nat) (s : step) : state :=
    mkState (if Nat.eqb (S j) (length steps) then TAccept else TNormal) (Some (st_ty s)) (st_pred s) (st_alias s) []
            (if Nat.ltb (S j) (length steps) then [S (S j)] else []) false None false.

  Lemma chain_nth j s : nth_error steps j = Some s -> nth_error n (S j) = Some (chain_state j s).
  Proof.
    intros H. assert (Lj : j < length steps) by (apply nth_error_Some; congruence).
    unfold n, compile. fold (build steps). destruct (build_layout steps) as [Lay Pv].
    destruct (build steps) as [bn l0]. cbn [fst snd] in *. subst l0.
    rewrite off_plain. replace (S (length steps) - 1) with (length steps) by lia.
    destruct (lay_step _ _ Lay j s H) as [A _]. rewrite sid_plain in A by lia.
    assert (Al : st_all s = false).
    { rewrite Forall_forall in NoAll. apply NoAll. eapply nth_error_In. exact H. }
    unfold step_state in A. rewrite Al in A. unfold nexts in A. rewrite sid_plain in A by lia.
    rewrite nth_error_map. unfold chain_state.
    destruct (Nat.eqb_spec (S j) (length steps)) as [E|E].
    - assert (A' : nth_error bn (length steps) = nth_error bn (S j)) by (rewrite E; reflexivity).
      rewrite A in A'. rewrite (nth_upd_same_at _ _ _ _ _ (eq_sym E) A'). reflexivity.
    - rewrite nth_upd_other by lia. rewrite A. reflexivity.
  Qed.

  Lemma chain_start : nth_error n 0 = Some (mkState TStart None None None [] [1] false None false).
  Proof.
    unfold n, compile. fold (build steps). destruct (build_layout steps) as [Lay Pv].
    destruct (build steps) as [bn l0]. cbn [fst snd] in *. subst l0.
    rewrite off_plain. replace (S (length steps) - 1) with (length steps) by lia.
    pose proof (lay_start _ _ Lay) as A. unfold steps in A at 1.
    rewrite nth_error_map. rewrite nth_upd_other by (unfold steps; cbn; lia). rewrite A. cbn. reflexivity.
  Qed.

  (* the reference attempt a run stands for *)
  Definition gs_of (r : run) : gstate := (skipn (r_cur r) steps, r_cap r, r_stack r).
  Definition okrun (r : run) : Prop :=
    r_inval r = true \/ (1 <= r_cur r /\ r_cur r < length steps /\ r_kc r = None).

  Variable lim : limits.
  Variable x : event.

  Lemma advance_exact r : r_inval r = false -> okrun r ->
    exists s rest', skipn (r_cur r) steps = s :: rest' /\
      advance n lim r x =
        if step_ok s x (r_cap r) then
          let r1 := push (set_cur r (S (r_cur r))) x (st_alias s) in
          match rest' with [] => AComplete (match_of r1) | _ => AContinue r1 end
        else ANoMatch r.
  Proof.
    intros Iv [Ok|(L1 & L2 & Kc)]; [congruence|].
    destruct (r_cur r) as [|j] eqn:Cur; [lia|].
    destruct (nth_error steps (S j)) as [s|] eqn:Hs; [|apply nth_error_None in Hs; lia].
    destruct (nth_error steps j) as [sj|] eqn:Hj; [|apply nth_error_None in Hj; lia].
    exists s, (skipn (S (S j)) steps). split; [apply skipn_nth; exact Hs|].
    unfold advance. rewrite Cur, (chain_nth _ _ Hj). unfold chain_state.
    replace (Nat.eqb (S j) (length steps)) with false by (symmetry; apply Nat.eqb_neq; lia).
    replace (Nat.ltb (S j) (length steps)) with true by (symmetry; apply Nat.ltb_lt; lia).
    cbn [s_type is_kleene andb s_trans s_eps s_self trans_go]. rewrite (chain_nth _ _ Hs).
    assert (M : matches_state (chain_state (S j) s) x (r_cap r) = step_ok s x (r_cap r)) by reflexivity.
    rewrite M. destruct (step_ok s x (r_cap r)); [|reflexivity].
    unfold enter_trans. cbn [chain_state s_type s_alias].
    destruct (Nat.eqb_spec (S (S j)) (length steps)) as [E|E].
    - rewrite skipn_all2 by lia. unfold complete_run. cbn [push set_cur r_kc]. rewrite Kc. reflexivity.
    - destruct (nth_error steps (S (S j))) as [s2|] eqn:H2; [|apply nth_error_None in H2; lia].
      rewrite (skipn_nth _ _ _ H2). reflexivity.
  Qed.

  Variable negs : list (N * option pred).
  Variable part : option N.

  Lemma neg_hits_hit r : neg_hits negs x r = neg_hit negs x (r_cap r).
  Proof. reflexivity. Qed.

  Definition absl (k : pkey) (rs : list run) : list (pkey * gstate) :=
    flat_map (fun r => if r_inval r then [] else [(k, gs_of r)]) rs.

  Lemma absl_app k a b : absl k (a ++ b) = absl k a ++ absl k b.
  Proof. apply flat_map_app. Qed.
  Lemma absl_perm k a b : Permutation a b -> Permutation (absl k a) (absl k b).
  Proof. apply Permutation_flat_map. Qed.

  Lemma absl_cons k r rs : absl k (r :: rs) = (if r_inval r then [] else [(k, gs_of r)]) ++ absl k rs.
  Proof. reflexivity. Qed.
  Definition live1 (k : pkey) (o : gout) : list (pkey * gstate) := match o with GLive g' => [(k, g')] | _ => [] end.
  Definition done1 (o : gout) : list (list N) := match o with GDone stk => [ids stk] | _ => [] end.
  Lemma lives_cons k g sts :
    lives (step_all negs part ((k, g) :: sts) x) = live1 k (gstep negs part k g x) ++ lives (step_all negs part sts x).
  Proof. reflexivity. Qed.
  Lemma dones_cons k g sts :
    dones (step_all negs part ((k, g) :: sts) x) = done1 (gstep negs part k g x) ++ dones (step_all negs part sts x).
  Proof. reflexivity. Qed.

  (* one live run of the event's partition that no .not clause hits *)
  Lemma run_step r : r_inval r = false -> okrun r -> neg_hit negs x (r_cap r) = false ->
    let k := key_of part x in
    nopanic n lim x r /\ Forall okrun (fst (one n lim x r)) /\
    absl k (fst (one n lim x r)) = live1 k (gstep negs part k (gs_of r) x) /\
    map m_stack (snd (one n lim x r)) = done1 (gstep negs part k (gs_of r) x).
  Proof.
    intros Iv Hr Nh. cbv zeta.
    destruct (advance_exact r Iv Hr) as (s & rest' & Sk & Ad).
    assert (NP : nopanic n lim x r).
    { right. rewrite Ad. destruct (step_ok s x (r_cap r)); [destruct rest'|]; discriminate. }
    split; [exact NP|].
    unfold gstep, gs_of. rewrite Nh, Sk, pkey_eqb_refl. cbn [andb].
    unfold one. rewrite Iv, Ad.
    destruct (step_ok s x (r_cap r)) eqn:So.
    - destruct rest' as [|s2 rest2].
      + cbn. split; [constructor|]. split; reflexivity.
      + assert (Cur' : skipn (S (r_cur r)) steps = s2 :: rest2) by (eapply skipn_S_tl; exact Sk).
        cbn [fst snd map live1 done1]. split.
        { constructor; [|constructor]. right. cbn [push set_cur r_cur r_kc].
          destruct Hr as [Hr|(L1 & L2 & Kc)]; [congruence|].
          assert (S (r_cur r) < length steps).
          { destruct (Nat.lt_ge_cases (S (r_cur r)) (length steps)) as [L|L]; [exact L|].
            rewrite skipn_all2 in Cur' by exact L. discriminate. }
          repeat split; [lia | assumption | exact Kc]. }
        split; [|reflexivity].
        rewrite absl_cons. cbn [push set_cur r_inval]. rewrite Iv.
        unfold gs_of. cbn [push set_cur r_cur r_cap r_stack absl flat_map app]. rewrite Cur'. reflexivity.
    - cbn [fst snd map live1 done1]. split; [constructor; [exact Hr | constructor]|]. split; [|reflexivity].
      rewrite absl_cons, Iv. unfold gs_of. rewrite Sk. reflexivity.
  Qed.

  (* the partition the event belongs to: neg check, then the loop's per-run treatment *)
  Lemma part_active rs : Forall okrun rs ->
    let k := key_of part x in
    let cur := check_negs negs x rs in
    Forall (nopanic n lim x) cur /\ Forall okrun (keeps n lim x cur) /\
    absl k (keeps n lim x cur) = lives (step_all negs part (absl k rs) x) /\
    map m_stack (outs n lim x cur) = dones (step_all negs part (absl k rs) x).
  Proof.
    intros F. cbv zeta. induction F as [|r rs Hr _ IH]; [cbn; repeat split; constructor|].
    destruct IH as (I1 & I2 & I3 & I4).
    assert (Ec : check_negs negs x (r :: rs) = (if neg_hits negs x r then set_inval r else r) :: check_negs negs x rs)
      by reflexivity.
    rewrite Ec. clear Ec. set (r0 := if neg_hits negs x r then set_inval r else r).
    assert (Ek : keeps n lim x (r0 :: check_negs negs x rs) = fst (one n lim x r0) ++ keeps n lim x (check_negs negs x rs))
      by reflexivity.
    assert (Eo : outs n lim x (r0 :: check_negs negs x rs) = snd (one n lim x r0) ++ outs n lim x (check_negs negs x rs))
      by reflexivity.
    rewrite Ek, Eo, absl_app, map_app, I3, I4, absl_cons. clear Ek Eo.
    assert (Dead : r_inval r0 = true ->
      Forall (nopanic n lim x) (r0 :: check_negs negs x rs) /\
      Forall okrun (fst (one n lim x r0) ++ keeps n lim x (check_negs negs x rs)) /\
      absl (key_of part x) (fst (one n lim x r0)) = [] /\ map m_stack (snd (one n lim x r0)) = []).
    { intros Iv'. unfold one. rewrite Iv'. cbn [fst snd app].
      split; [constructor; [left; exact Iv' | exact I1]|]. split; [exact I2|]. split; reflexivity. }
    destruct (r_inval r) eqn:Iv.
    - assert (Iv' : r_inval r0 = true) by (unfold r0; destruct (neg_hits negs x r); [reflexivity | exact Iv]).
      destruct (Dead Iv') as (D1 & D2 & D3 & D4). rewrite D3, D4.
      split; [exact D1|]. split; [exact D2|]. split; reflexivity.
    - cbn [app]. rewrite lives_cons, dones_cons. unfold r0 in *. rewrite neg_hits_hit in *.
      destruct (neg_hit negs x (r_cap r)) eqn:Nh.
      + destruct (Dead eq_refl) as (D1 & D2 & D3 & D4). rewrite D3, D4.
        unfold gstep, gs_of. rewrite Nh.
        split; [exact D1|]. split; [exact D2|]. split; reflexivity.
      + destruct (run_step r Iv Hr Nh) as (R1 & R2 & R3 & R4). rewrite R3, R4.
        split; [constructor; assumption|]. split; [apply Forall_app; split; assumption|]. split; reflexivity.
  Qed.

  (* every other partition: only the neg check *)
  Lemma part_passive k rs : pkey_eqb (key_of part x) k = false ->
    absl k (check_negs negs x rs) = lives (step_all negs part (absl k rs) x) /\
    dones (step_all negs part (absl k rs) x) = [] /\
    (Forall okrun rs -> Forall okrun (check_negs negs x rs)).
  Proof.
    intros Ne. induction rs as [|r rs (I1 & I2 & I3)]; [cbn; repeat split; constructor|].
    assert (Ec : check_negs negs x (r :: rs) = (if neg_hits negs x r then set_inval r else r) :: check_negs negs x rs)
      by reflexivity.
    rewrite Ec. clear Ec. set (r0 := if neg_hits negs x r then set_inval r else r).
    assert (Ok : Forall okrun (r :: rs) -> Forall okrun (r0 :: check_negs negs x rs)).
    { intros F. inversion F; subst. constructor; [|apply I3; assumption].
      unfold r0. destruct (neg_hits negs x r); [left; reflexivity | assumption]. }
    rewrite !absl_cons, I1.
    destruct (r_inval r) eqn:Iv.
    - assert (Iv' : r_inval r0 = true) by (unfold r0; destruct (neg_hits negs x r); [reflexivity | exact Iv]).
      rewrite Iv'. cbn [app]. split; [reflexivity|]. split; [exact I2 | exact Ok].
    - cbn [app]. rewrite lives_cons, dones_cons, I2. unfold r0 in *. rewrite neg_hits_hit in *.
      unfold gstep, gs_of.
      destruct (neg_hit negs x (r_cap r)) eqn:Nh.
      + cbn [set_inval r_inval app live1 done1]. split; [reflexivity|]. split; [reflexivity | exact Ok].
      + rewrite Iv, Ne. cbn [andb].
        assert (E : (match skipn (r_cur r) steps with
                     | [] => GLive (skipn (r_cur r) steps, r_cap r, r_stack r)
                     | _ :: _ => GLive (skipn (r_cur r) steps, r_cap r, r_stack r) end)
                    = GLive (skipn (r_cur r) steps, r_cap r, r_stack r)) by (destruct (skipn (r_cur r) steps); reflexivity).
        rewrite E. cbn [app live1 done1]. split; [reflexivity|]. split; [reflexivity | exact Ok].
  Qed.

  (* starting a run *)
  Lemma try_start_exact clock :
    try_start n lim x clock =
      if step_ok s0 x [] then Some (push (mkRun 1 [] [] false None clock) x (st_alias s0)) else None.
  Proof.
    unfold try_start. rewrite chain_start. cbn [s_trans start_go].
    assert (H0 : nth_error steps 0 = Some s0) by reflexivity.
    rewrite (chain_nth _ _ H0).
    assert (M : matches_state (chain_state 0 s0) x [] = step_ok s0 x []) by reflexivity.
    rewrite M. destruct (step_ok s0 x []); [|reflexivity].
    (* the first state of a pattern without `all` is not a Kleene state *)
    unfold start_capture, chain_state. cbn [s_type]. destruct (Nat.eqb 1 (length steps)); reflexivity.
  Qed.

  Lemma new_run_abs clock :
    let r := push (mkRun 1 [] [] false None clock) x (st_alias s0) in
    okrun r /\ absl (key_of part x) [r] = [start_state part s0 rest0 x].
  Proof.
    cbv zeta. split.
    - right. cbn [push r_cur r_kc]. split; [lia|]. split; [|reflexivity].
      unfold steps. destruct rest0; [congruence | cbn; lia].
    - reflexivity.
  Qed.
End Chain.
