(* Executable model of the SASE+ engine (crates/varpulis-runtime/src/sase.rs) for the
   program class of C01-C05: sequences of event steps, any of which may be `all`
   (KleenePlus), step filters built from Compare / CompareRef / And / Or / Not,
   optional partition_by, global negations (.not clauses), backpressure strategies;
   no .within, processing-time semantics, SkipTillAnyMatch.  Definitions only.

     compare_values / values_equal / values_compare   same names in sase.rs
     eval_pred                 eval_predicate
     classify                  classify_predicate (Compare/CompareRef/And/Or/Not)
     compile                   NfaCompiler::compile on Seq [Event | KleenePlus(Event)] (+ set_accept,
                               has_epsilon_to_accept pre-computation)
     matches_state             event_matches_state
     advance                   advance_run_shared (branches reachable for this class:
                               Accept, Kleene self-loop, transitions, epsilon transitions)
     complete_run, enumerate   complete_run, enumerate_with_filter, evaluate_deferred_predicate,
                               extract_ref_alias; KleeneCapture on top of the Zdd arena model
     try_start                 try_start_run_shared (non-AND branch)
     proc_runs                 process_runs_shared / process_partition_shared (swap_remove loop)
     backpressure              handle_backpressure / handle_backpressure_partitioned
     check_negs                check_global_negations (all partitions)
     process                   process_shared

   Numbers: Int z and Float restricted to multiples of 1/2 (VHalf h = h/2), for which
   `(a-b).abs() < f64::EPSILON` is exact equality and `as f64` is exact; both are compared
   through the doubled value.  Strings are interned ids whose numeric order is their
   lexicographic order (the generator uses equal-length strings).
   Wall-clock: started_at is a creation counter; cleanup_timeouts never fires inside a case
   (the harness re-runs any case slower than its 100 ms interval). *)
From VP Require Import Base.Tactics Zdd.Model.

Inductive value := VInt (z : Z) | VHalf (h : Z) | VStr (s : N) | VBool (b : bool).
Record event := mkEv { eid : N; ety : N; efields : list (N * value) }.

Fixpoint assoc {A} (k : N) (l : list (N * A)) : option A :=
  match l with
  | [] => None
  | (k', v) :: r => if N.eqb k' k then Some v else assoc k r
  end.
Definition get (f : N) (e : event) : option value := assoc f (efields e).

Inductive cop := OEq | ONe | OLt | OLe | OGt | OGe.

Definition num2 (v : value) : option Z :=
  match v with VInt z => Some (2 * z)%Z | VHalf h => Some h | _ => None end.

Definition values_equal (l r : value) : bool :=
  match num2 l, num2 r with
  | Some a, Some b => Z.eqb a b
  | _, _ =>
    match l, r with
    | VStr a, VStr b => N.eqb a b
    | VBool a, VBool b => Bool.eqb a b
    | _, _ => false
    end
  end.

Definition values_compare (l r : value) : option comparison :=
  match num2 l, num2 r with
  | Some a, Some b => Some (Z.compare a b)
  | _, _ =>
    match l, r with
    | VStr a, VStr b => Some (N.compare a b)
    | _, _ => None
    end
  end.

Definition compare_values (l r : value) (o : cop) : bool :=
  match o with
  | OEq => values_equal l r
  | ONe => negb (values_equal l r)
  | OLt => match values_compare l r with Some Lt => true | _ => false end
  | OLe => match values_compare l r with Some Lt | Some Eq => true | _ => false end
  | OGt => match values_compare l r with Some Gt => true | _ => false end
  | OGe => match values_compare l r with Some Gt | Some Eq => true | _ => false end
  end.

Inductive pred :=
| PCmp (f : N) (o : cop) (v : value)
| PRef (f : N) (o : cop) (al : N) (rf : N)
| PAnd (a b : pred) | POr (a b : pred) | PNot (a : pred).

Definition captured := list (N * event).   (* newest binding first; lookup = FxHashMap::get *)

Fixpoint eval_pred (p : pred) (e : event) (c : captured) : bool :=
  match p with
  | PCmp f o v => match get f e with Some ev => compare_values ev v o | None => false end
  | PRef f o al rf =>
    match get f e, (match assoc al c with Some r => get rf r | None => None end) with
    | Some ev, Some rv => compare_values ev rv o
    | _, _ => false
    end
  | PAnd a b => eval_pred a e c && eval_pred b e c
  | POr a b => eval_pred a e c || eval_pred b e c
  | PNot a => negb (eval_pred a e c)
  end.

(* true = Inconsistent (references the Kleene step's own alias) *)
Fixpoint classify (p : pred) (alias : option N) : bool :=
  match p with
  | PCmp _ _ _ => false
  | PRef _ _ al _ => match alias with Some a => N.eqb a al | None => false end
  | PAnd a b | POr a b => classify a alias || classify b alias
  | PNot a => classify a alias
  end.

Fixpoint extract_ref_alias (p : pred) : option N :=
  match p with
  | PCmp _ _ _ => None
  | PRef _ _ al _ => Some al
  | PAnd a b | POr a b => match extract_ref_alias a with Some x => Some x | None => extract_ref_alias b end
  | PNot a => extract_ref_alias a
  end.

(* ------------------------------------------------------------------ NFA *)
Inductive stype := TStart | TNormal | TKleene | TAccept.
Record state := mkState {
  s_type : stype; s_evt : option N; s_pred : option pred; s_alias : option N;
  s_eps : list nat; s_trans : list nat; s_self : bool; s_post : option pred; s_eps_acc : bool }.
Definition nfa := list state.

Definition state0 (t : stype) : state := mkState t None None None [] [] false None false.

Fixpoint upd {A} (l : list A) (i : nat) (f : A -> A) : list A :=
  match l, i with
  | [], _ => []
  | x :: r, O => f x :: r
  | x :: r, S k => x :: upd r k f
  end.

Definition add_trans (n : nfa) (from to : nat) : nfa :=
  upd n from (fun s => mkState (s_type s) (s_evt s) (s_pred s) (s_alias s) (s_eps s) (s_trans s ++ [to]) (s_self s) (s_post s) (s_eps_acc s)).
Definition add_eps (n : nfa) (from to : nat) : nfa :=
  upd n from (fun s => mkState (s_type s) (s_evt s) (s_pred s) (s_alias s) (s_eps s ++ [to]) (s_trans s) (s_self s) (s_post s) (s_eps_acc s)).

Record step := mkStep { st_ty : N; st_pred : option pred; st_alias : option N; st_all : bool }.

(* compile_pattern on one step; returns the new nfa and the end state *)
Definition compile_step (n : nfa) (prev : nat) (s : step) : nfa * nat :=
  let id := length n in
  let n1 := n ++ [mkState TNormal (Some (st_ty s)) (st_pred s) (st_alias s) [] [] false None false] in
  let n2 := add_trans n1 prev id in
  if st_all s then
    let n3 := upd n2 id (fun x =>
      let postpone := match s_pred x with Some p => classify p (s_alias x) | None => false end in
      mkState TKleene (s_evt x) (if postpone then None else s_pred x) (s_alias x) (s_eps x) (s_trans x) true
              (if postpone then s_pred x else None) false) in
    let n4 := add_eps n3 id id in
    let cont := length n4 in
    let n5 := n4 ++ [state0 TNormal] in
    (add_eps n5 id cont, cont)
  else (n2, id).

Definition is_accept (n : nfa) (i : nat) : bool :=
  match nth_error n i with Some s => match s_type s with TAccept => true | _ => false end | None => false end.

Definition compile (steps : list step) : nfa :=
  let '(n, last) := fold_left (fun '(n, prev) s => compile_step n prev s) steps ([state0 TStart], 0) in
  let n' := upd n last (fun s => mkState TAccept (s_evt s) (s_pred s) (s_alias s) (s_eps s) (s_trans s) (s_self s) (s_post s) (s_eps_acc s)) in
  map (fun s => mkState (s_type s) (s_evt s) (s_pred s) (s_alias s) (s_eps s) (s_trans s) (s_self s) (s_post s)
                        (existsb (is_accept n') (s_eps s))) n'.

(* ----------------------------------------------------------------- runs *)
Record kcap := mkKc {
  k_arena : arena; k_handle : ref; k_events : list (event * option N); k_next : N;
  k_deferred : option pred; k_needs : bool }.
Definition kc_new (deferred : option pred) : kcap :=
  mkKc arena0 RBase [] 0 deferred (match deferred with Some _ => true | None => false end).

Record run := mkRun {
  r_cur : nat; r_stack : list (event * option N); r_cap : captured; r_inval : bool;
  r_kc : option kcap; r_started : nat }.

Record mres := mkM { m_stack : list N; m_cap : captured; m_combo : option (list N) }.

Inductive adv :=
| AContinue (r : run) | AComplete (m : mres) | ACompleteContinue (r : run) (m : mres)
| AMulti (ms : list mres) | ANoMatch (r : run) | APanic.

Definition stack_ids (r : run) : list N := map (fun x => eid (fst x)) (r_stack r).
Definition match_of (r : run) : mres := mkM (stack_ids r) (r_cap r) None.

Definition matches_state (s : state) (e : event) (c : captured) : bool :=
  (match s_evt s with Some t => N.eqb (ety e) t | None => true end) &&
  (match s_pred s with Some p => eval_pred p e c | None => true end).

Definition bind_alias (c : captured) (e : event) (alias : option N) : captured :=
  match alias with Some a => (a, e) :: c | None => c end.

(* Run::push_at / push_at_kleene *)
Definition push (r : run) (e : event) (alias : option N) : run :=
  mkRun (r_cur r) (r_stack r ++ [(e, alias)]) (bind_alias (r_cap r) e alias) (r_inval r) (r_kc r) (r_started r).
Definition set_cur (r : run) (i : nat) : run := mkRun i (r_stack r) (r_cap r) (r_inval r) (r_kc r) (r_started r).
Definition set_kc (r : run) (k : option kcap) : run := mkRun (r_cur r) (r_stack r) (r_cap r) (r_inval r) k (r_started r).
Definition set_inval (r : run) : run := mkRun (r_cur r) (r_stack r) (r_cap r) true (r_kc r) (r_started r).

(* KleeneCapture::extend / extend_simple *)
Definition kc_extend (k : kcap) (e : event) (alias : option N) : option kcap :=
  if k_needs k then
    match a_pwo (k_arena k) (k_handle k) (k_next k) with
    | Some (ar, h) => Some (mkKc ar h (k_events k ++ [(e, alias)]) (k_next k + 1) (k_deferred k) (k_needs k))
    | None => None
    end
  else Some (mkKc (k_arena k) (k_handle k) (k_events k ++ [(e, alias)]) (k_next k + 1) (k_deferred k) (k_needs k)).

(* trailing `all` (epsilon edge to accept): get_or_insert_with(KleeneCapture::new).extend_simple(..) *)
Definition kc_count (ok : option kcap) (e : event) (alias : option N) : kcap :=
  let k := match ok with Some k => k | None => kc_new None end in
  mkKc (k_arena k) (k_handle k) (k_events k ++ [(e, alias)]) (k_next k + 1) (k_deferred k) (k_needs k).

(* evaluate_deferred_predicate: consecutive pairs, previous event bound to extract_ref_alias *)
Fixpoint deferred_ok (p : pred) (evs : list event) (c : captured) : bool :=
  match evs with
  | a :: ((b :: _) as rest) =>
    eval_pred p b (match extract_ref_alias p with Some al => (al, a) :: c | None => c end) && deferred_ok p rest c
  | _ => true
  end.

Fixpoint nth_entries {A} (evs : list A) (ix : list N) : option (list A) :=
  match ix with
  | [] => Some []
  | i :: r => match nth_error evs (N.to_nat i), nth_entries evs r with
              | Some e, Some es => Some (e :: es)
              | _, _ => None
              end
  end.

(* enumerate_with_filter, deferred predicate present: iterate the ZDD's combinations in its
   iteration order, skip the empty one, keep those passing the pairwise check, stop once
   max_results have been pushed (the check follows the push, as in the code) *)
Fixpoint enum_go (r : run) (k : kcap) (p : pred) (max_results : nat) (cs : list (list N)) (acc : list mres)
  : option (list mres) :=
  match cs with
  | [] => Some acc
  | ix :: rest =>
    match ix with
    | [] => enum_go r k p max_results rest acc
    | _ =>
      match nth_entries (k_events k) ix with
      | None => None
      | Some ents =>
        if deferred_ok p (map fst ents) (r_cap r) then
          let cap := fold_left (fun c '(e, al) => bind_alias c e al) ents (r_cap r) in
          let acc' := acc ++ [mkM (stack_ids r) cap (Some ix)] in
          if Nat.leb max_results (length acc') then Some acc' else enum_go r k p max_results rest acc'
        else enum_go r k p max_results rest acc
      end
    end
  end.

Definition enumerate (r : run) (k : kcap) (p : pred) (max_results : nat) : option (list mres) :=
  match iter_f (S (length (atable (k_arena k)))) (atable (k_arena k)) (k_handle k) with
  | None => None
  | Some combos => enum_go r k p max_results combos []
  end.

Record limits := mkLim { max_events : N; max_results : nat }.

Definition complete_run (r : run) (lim : limits) : adv :=
  match r_kc r with
  | Some k =>
    match k_deferred k with
    | Some p => match enumerate r k p (max_results lim) with Some ms => AMulti ms | None => APanic end
    | None => AComplete (match_of r)
    end
  | None => AComplete (match_of r)
  end.

(* bookkeeping shared by the two places that accumulate into the Kleene capture *)
Definition kc_or_new (r : run) (s : state) : kcap :=
  match r_kc r with Some k => k | None => kc_new (s_post s) end.

Fixpoint first_match {A} (f : A -> bool) (l : list A) : option A :=
  match l with [] => None | x :: r => if f x then Some x else first_match f r end.

(* what happens once the run has consumed [e] by moving to state [nx] = [ns] through the
   transitions loop of advance_run_shared *)
Definition enter_trans (lim : limits) (r : run) (e : event) (nx : nat) (ns : state) : adv :=
  let r1 := push (set_cur r nx) e (s_alias ns) in
  match s_type ns with
  | TAccept => complete_run r1 lim
  | TKleene =>
    if s_self ns then
      if s_eps_acc ns then
        let r2 := set_kc r1 (Some (kc_count (r_kc r1) e (s_alias ns))) in
        ACompleteContinue r2 (match_of r2)
      else
        let k := kc_or_new r1 ns in
        if N.leb (max_events lim) (k_next k) then AContinue (set_kc r1 (Some k))
        else match kc_extend k e (s_alias ns) with
             | Some k' => AContinue (set_kc r1 (Some k'))
             | None => APanic
             end
    else AContinue r1
  | _ => AContinue r1
  end.

(* transitions: first matching next state *)
Fixpoint trans_go (n : nfa) (lim : limits) (r : run) (e : event) (ts : list nat) : option adv :=
  match ts with
  | [] => None
  | nx :: rest =>
    match nth_error n nx with
    | None => Some APanic
    | Some ns => if matches_state ns e (r_cap r) then Some (enter_trans lim r e nx ns) else trans_go n lim r e rest
    end
  end.

(* through an epsilon edge: no Kleene bookkeeping on this path (as in the code) *)
Definition enter_eps (lim : limits) (r : run) (e : event) (nx : nat) (ns : state) : adv :=
  let r1 := push (set_cur r nx) e (s_alias ns) in
  match s_type ns with
  | TAccept => complete_run r1 lim
  | _ => AContinue r1
  end.

Fixpoint eps_inner (n : nfa) (lim : limits) (r : run) (e : event) (ts : list nat) : option adv :=
  match ts with
  | [] => None
  | nx :: rest =>
    match nth_error n nx with
    | None => Some APanic
    | Some ns => if matches_state ns e (r_cap r) then Some (enter_eps lim r e nx ns) else eps_inner n lim r e rest
    end
  end.

Fixpoint eps_go (n : nfa) (lim : limits) (r : run) (e : event) (es : list nat) : option adv :=
  match es with
  | [] => None
  | ep :: rest =>
    match nth_error n ep with
    | None => Some APanic
    | Some es_ =>
      match s_type es_ with
      | TAccept => Some (complete_run r lim)
      | _ => match eps_inner n lim r e (s_trans es_) with
             | Some a => Some a
             | None => eps_go n lim r e rest
             end
      end
    end
  end.

Definition is_kleene (s : state) : bool := match s_type s with TKleene => true | _ => false end.

(* advance_run_shared *)
Definition advance (n : nfa) (lim : limits) (r : run) (e : event) : adv :=
  match nth_error n (r_cur r) with
  | None => APanic
  | Some cur =>
    match s_type cur with
    | TAccept => complete_run r lim
    | _ =>
      if is_kleene cur && s_self cur && matches_state cur e (r_cap r) then
        (* Kleene self-loop *)
        if (match r_kc r with Some k => N.leb (max_events lim) (k_next k) | None => false end) then AContinue r
        else
          let r1 := push r e (s_alias cur) in
          if s_eps_acc cur then
            let r2 := set_kc r1 (Some (kc_count (r_kc r1) e (s_alias cur))) in ACompleteContinue r2 (match_of r2)
          else
            match kc_extend (kc_or_new r1 cur) e (s_alias cur) with
            | Some k => AContinue (set_kc r1 (Some k))
            | None => APanic
            end
      else
        match trans_go n lim r e (s_trans cur) with
        | Some a => a
        | None =>
          match eps_go n lim r e (s_eps cur) with
          | Some a => a
          | None => ANoMatch r
          end
        end
    end
  end.

(* capture_first_kleene_event: a run that starts in a Kleene state (pattern beginning with
   `all`) puts its first event into the Kleene capture, as enter_trans does for a Kleene state
   entered from a previous step.  (kc_extend on the fresh capture cannot fail; None stands for
   the unreachable panic.) *)
Definition start_capture (lim : limits) (ns : state) (r : run) (e : event) : option run :=
  match s_type ns with
  | TKleene =>
    if s_self ns then
      if s_eps_acc ns then Some (set_kc r (Some (kc_count (r_kc r) e (s_alias ns))))
      else
        let k := kc_new (s_post ns) in
        if N.leb (max_events lim) (k_next k) then Some (set_kc r (Some k))
        else match kc_extend k e (s_alias ns) with
             | Some k' => Some (set_kc r (Some k'))
             | None => None
             end
    else Some r
  | _ => Some r
  end.

Fixpoint start_go (n : nfa) (lim : limits) (e : event) (started : nat) (ts : list nat) : option run :=
  match ts with
  | [] => None
  | nx :: rest =>
    match nth_error n nx with
    | None => None
    | Some ns =>
      if matches_state ns e [] then start_capture lim ns (push (mkRun nx [] [] false None started) e (s_alias ns)) e
      else start_go n lim e started rest
    end
  end.

(* try_start_run_shared: first transition of the start state whose target matches *)
Definition try_start (n : nfa) (lim : limits) (e : event) (started : nat) : option run :=
  match nth_error n 0 with
  | None => None
  | Some st => start_go n lim e started (s_trans st)
  end.

(* Vec::swap_remove *)
(* the element at i is replaced by the last element of the vector, which is removed *)
Definition swap_remove {A} (l : list A) (i : nat) : list A :=
  match skipn i l with
  | [] => l                         (* out of range: Rust panics; never reached (index comes from nth_error) *)
  | _ :: tl =>
    firstn i l ++ match rev tl with [] => [] | z :: rt => z :: rev rt end
  end.

(* process_runs_shared / process_partition_shared *)
Fixpoint proc_runs (fuel : nat) (n : nfa) (lim : limits) (e : event) (runs : list run) (i : nat) (acc : list mres)
  : option (list run * list mres) :=
  match fuel with
  | O => None
  | S f =>
    match nth_error runs i with
    | None => Some (runs, acc)
    | Some r =>
      if r_inval r then proc_runs f n lim e (swap_remove runs i) i acc
      else
        match advance n lim r e with
        | AContinue r' => proc_runs f n lim e (upd runs i (fun _ => r')) (S i) acc
        | AComplete m => proc_runs f n lim e (swap_remove runs i) i (acc ++ [m])
        | ACompleteContinue r' m => proc_runs f n lim e (upd runs i (fun _ => r')) (S i) (acc ++ [m])
        | AMulti ms => proc_runs f n lim e (swap_remove runs i) i (acc ++ ms)
        | ANoMatch r' => proc_runs f n lim e (upd runs i (fun _ => r')) (S i) acc
        | APanic => None
        end
    end
  end.

(* ---------------------------------------------------------- backpressure *)
Inductive strategy := SDrop | SError | SEvictOldest | SEvictLeast | SSample (num den : N).

(* index of the first minimum of a key (Iterator::min_by_key returns the first) *)
Fixpoint argmin_from (key : run -> nat) (l : list run) (i best_i best_k : nat) : nat :=
  match l with
  | [] => best_i
  | r :: rest => if Nat.ltb (key r) best_k then argmin_from key rest (S i) i (key r)
                 else argmin_from key rest (S i) best_i best_k
  end.
Definition argmin (key : run -> nat) (l : list run) : option nat :=
  match l with [] => None | r :: rest => Some (argmin_from key rest 1 0 (key r)) end.

Record counters := mkCnt { c_created : N; c_dropped : N; c_evicted : N; c_completed : N }.

(* returns (runs', added, counters') *)
Definition backpressure (st : strategy) (max_runs : nat) (runs : list run) (r : run) (c : counters)
  : list run * bool * counters :=
  if Nat.ltb (length runs) max_runs then (runs ++ [r], true, c)
  else
    let drop := (runs, false, mkCnt (c_created c) (c_dropped c + 1) (c_evicted c) (c_completed c)) in
    let evict (key : run -> nat) (none_adds : bool) :=
      match argmin key runs with
      | Some i => (swap_remove runs i ++ [r], true, mkCnt (c_created c) (c_dropped c) (c_evicted c + 1) (c_completed c))
      | None => if none_adds then (runs ++ [r], true, c) else (runs, false, c)
      end in
    match st with
    | SDrop | SError => drop
    | SEvictOldest => evict r_started true
    | SEvictLeast => evict (fun x => length (r_stack x)) true
    | SSample num den =>
      (* (total_runs_created as f64 * rate) as u64 > total_runs_dropped, rate = num/den dyadic *)
      if N.ltb (c_dropped c) (c_created c * num / den) then evict r_started false else drop
    end.

(* ---------------------------------------------------------------- engine *)
Inductive pkey := KMissing | KVal (v : value).
Definition value_eqb (a b : value) : bool :=
  match a, b with
  | VInt x, VInt y => Z.eqb x y
  | VHalf x, VHalf y => Z.eqb x y
  | VStr x, VStr y => N.eqb x y
  | VBool x, VBool y => Bool.eqb x y
  | _, _ => false
  end.
Definition pkey_eqb (a b : pkey) : bool :=
  match a, b with
  | KMissing, KMissing => true
  | KVal x, KVal y => value_eqb x y
  | _, _ => false
  end.

Record config := mkCfg {
  g_nfa : nfa; g_negs : list (N * option pred); g_part : option N;
  g_max_runs : nat; g_strategy : strategy; g_lim : limits }.

Record engine := mkEng {
  e_runs : list run;                     (* non-partitioned *)
  e_parts : list (pkey * list run);      (* partitioned, in order of first appearance *)
  e_cnt : counters; e_clock : nat }.

Definition engine0 : engine := mkEng [] [] (mkCnt 0 0 0 0) 0.

Fixpoint part_get (k : pkey) (ps : list (pkey * list run)) : option (list run) :=
  match ps with
  | [] => None
  | (k', rs) :: rest => if pkey_eqb k' k then Some rs else part_get k rest
  end.
Fixpoint part_set (k : pkey) (rs : list run) (ps : list (pkey * list run)) : list (pkey * list run) :=
  match ps with
  | [] => [(k, rs)]
  | (k', rs') :: rest => if pkey_eqb k' k then (k', rs) :: rest else (k', rs') :: part_set k rs rest
  end.

(* check_global_negations: every run of every partition *)
Definition neg_hits (negs : list (N * option pred)) (e : event) (r : run) : bool :=
  existsb (fun '(ty, p) => N.eqb (ety e) ty && match p with Some q => eval_pred q e (r_cap r) | None => true end) negs.
Definition check_negs (negs : list (N * option pred)) (e : event) (runs : list run) : list run :=
  map (fun r => if neg_hits negs e r then set_inval r else r) runs.

Definition add_completed (c : counters) (k : nat) : counters :=
  mkCnt (c_created c) (c_dropped c) (c_evicted c) (c_completed c + N.of_nat k).
Definition add_created (c : counters) : counters :=
  mkCnt (c_created c + 1) (c_dropped c) (c_evicted c) (c_completed c).

(* process_shared *)
Definition process (g : config) (en : engine) (e : event) : option (engine * list mres) :=
  let runs0 := check_negs (g_negs g) e (e_runs en) in
  let parts0 := map (fun '(k, rs) => (k, check_negs (g_negs g) e rs)) (e_parts en) in
  match g_part g with
  | Some f =>
    let key := match get f e with Some v => KVal v | None => KMissing end in
    let cur := match part_get key parts0 with Some rs => rs | None => [] end in
    match proc_runs (S (length cur + length cur)) (g_nfa g) (g_lim g) e cur 0 [] with
    | None => None
    | Some (rs1, ms) =>
      let parts1 := match part_get key parts0 with Some _ => part_set key rs1 parts0 | None => parts0 end in
      match try_start (g_nfa g) (g_lim g) e (e_clock en) with
      | Some r =>
        let cur1 := match part_get key parts1 with Some rs => rs | None => [] end in
        let '(rs2, added, c1) := backpressure (g_strategy g) (g_max_runs g) cur1 r (e_cnt en) in
        let c2 := if added then add_created c1 else c1 in
        Some (mkEng runs0 (part_set key rs2 parts1) (add_completed c2 (length ms)) (S (e_clock en)), ms)
      | None => Some (mkEng runs0 parts1 (add_completed (e_cnt en) (length ms)) (S (e_clock en)), ms)
      end
    end
  | None =>
    match proc_runs (S (length runs0 + length runs0)) (g_nfa g) (g_lim g) e runs0 0 [] with
    | None => None
    | Some (rs1, ms) =>
      match try_start (g_nfa g) (g_lim g) e (e_clock en) with
      | Some r =>
        let '(rs2, added, c1) := backpressure (g_strategy g) (g_max_runs g) rs1 r (e_cnt en) in
        let c2 := if added then add_created c1 else c1 in
        Some (mkEng rs2 parts0 (add_completed c2 (length ms)) (S (e_clock en)), ms)
      | None => Some (mkEng rs1 parts0 (add_completed (e_cnt en) (length ms)) (S (e_clock en)), ms)
      end
    end
  end.

Definition active_runs (g : config) (en : engine) : nat :=
  match g_part g with
  | Some _ => fold_left (fun a '(_, rs) => a + length rs) (e_parts en) 0
  | None => length (e_runs en)
  end.
