(* C01 (partition clause) / C04 (second sentence): with partition_by, every run stored
   under a key consists of events with that key only, and every match emitted while
   processing an event consists of events with that event's key only. *)
From VP Require Import Base.Tactics Zdd.Model Sase.Model Sase.ProofsBounds Sase.ProofsSound Sase.ProofsSoundEngine.

Definition ekey (f : N) (e : event) : pkey := match get f e with Some v => KVal v | None => KMissing end.

(* equality of partition keys as the engine sees it (pkey_eqb); reflexive on the values used as keys *)
Definition same_key (a b : pkey) : Prop := pkey_eqb a b = true.

Definition stack_keyed (f : N) (k : pkey) (st : list (event * option N)) : Prop :=
  Forall (fun p => ekey f (fst p) = k) st.
Definition run_keyed (f : N) (k : pkey) (r : run) : Prop := stack_keyed f k (r_stack r).
Definition match_keyed (f : N) (k : pkey) (m : mres) : Prop :=
  exists st, stack_keyed f k st /\ m_stack m = map (fun p => eid (fst p)) st.

Section Keyed.
  Variable f : N.
  Variable k : pkey.
  Variable x : event.
  Hypothesis Kx : ekey f x = k.

  Lemma push_keyed r al : run_keyed f k r -> run_keyed f k (push r x al).
  Proof. intros H. unfold run_keyed, push. cbn. apply Forall_app. split; [exact H | constructor; [exact Kx | constructor]]. Qed.
  Lemma match_of_keyed r : run_keyed f k r -> match_keyed f k (match_of r).
  Proof. intros H. exists (r_stack r). split; [exact H | reflexivity]. Qed.

  Lemma enum_go_keyed r kc p mr : run_keyed f k r -> forall cs acc ms,
    Forall (match_keyed f k) acc -> enum_go r kc p mr cs acc = Some ms -> Forall (match_keyed f k) ms.
  Proof.
    intros R. induction cs as [|ix cs IH]; intros acc ms F H; cbn [enum_go] in H.
    - inversion H; subst. exact F.
    - destruct ix as [|i ix']; [eapply IH; eauto|].
      destruct (nth_entries (k_events kc) (i :: ix')) as [ents|]; [|discriminate].
      destruct (deferred_ok p (map fst ents) (r_cap r)); [|eapply IH; eauto].
      assert (F' : Forall (match_keyed f k) (acc ++ [mkM (stack_ids r)
                 (fold_left (fun c '(e, al) => bind_alias c e al) ents (r_cap r)) (Some (i :: ix'))])).
      { apply Forall_app. split; [exact F | constructor; [|constructor]]. exists (r_stack r). split; [exact R | reflexivity]. }
      match type of H with (if ?c then _ else _) = _ => destruct c end.
      + inversion H; subst. exact F'.
      + eapply IH; [exact F' | exact H].
  Qed.

  Definition adv_keyed (a : adv) : Prop :=
    match a with
    | AContinue r' | ANoMatch r' => run_keyed f k r'
    | AComplete m => match_keyed f k m
    | ACompleteContinue r' m => run_keyed f k r' /\ match_keyed f k m
    | AMulti ms => Forall (match_keyed f k) ms
    | APanic => True
    end.

  Lemma complete_keyed r lim : run_keyed f k r -> adv_keyed (complete_run r lim).
  Proof.
    intros R. unfold complete_run. destruct (r_kc r) as [kc|]; [|apply match_of_keyed; exact R].
    destruct (k_deferred kc) as [p|]; [|apply match_of_keyed; exact R].
    unfold enumerate. destruct (iter_f _ _ _) as [cs|]; [|exact I].
    destruct (enum_go r kc p (max_results lim) cs []) as [ms|] eqn:E; [|exact I].
    cbn. eapply enum_go_keyed; eauto.
  Qed.

  Lemma set_kc_keyed r kc : run_keyed f k r -> run_keyed f k (set_kc r kc).
  Proof. intros H. exact H. Qed.
  Lemma set_cur_keyed r q : run_keyed f k r -> run_keyed f k (set_cur r q).
  Proof. intros H. exact H. Qed.

  Lemma enter_trans_keyed lim r q s : run_keyed f k r -> adv_keyed (enter_trans lim r x q s).
  Proof.
    intros R. unfold enter_trans.
    assert (R1 : run_keyed f k (push (set_cur r q) x (s_alias s))) by (apply push_keyed; exact R).
    destruct (s_type s); try exact R1.
    - destruct (s_self s); [|exact R1].
      destruct (s_eps_acc s).
      + cbn. split; [exact R1 | exists (r_stack (push (set_cur r q) x (s_alias s))); split; [exact R1 | reflexivity]].
      + destruct (N.leb _ _); [exact R1|]. destruct (kc_extend _ _ _); [exact R1 | exact I].
    - apply complete_keyed. exact R1.
  Qed.

  Lemma trans_go_keyed n lim r : run_keyed f k r -> forall ts a, trans_go n lim r x ts = Some a -> adv_keyed a.
  Proof.
    intros R. induction ts as [|nx ts IH]; intros a H; cbn in H; [discriminate|].
    destruct (nth_error n nx) as [ns|]; [|inversion H; subst; exact I].
    destruct (matches_state ns x (r_cap r)); [inversion H; subst; apply enter_trans_keyed; exact R | apply IH; exact H].
  Qed.

  Lemma eps_inner_keyed n lim r : run_keyed f k r -> forall ts a, eps_inner n lim r x ts = Some a -> adv_keyed a.
  Proof.
    intros R. induction ts as [|nx ts IH]; intros a H; cbn in H; [discriminate|].
    destruct (nth_error n nx) as [ns|]; [|inversion H; subst; exact I].
    destruct (matches_state ns x (r_cap r)); [|apply IH; exact H].
    inversion H; subst. unfold enter_eps.
    assert (R1 : run_keyed f k (push (set_cur r nx) x (s_alias ns))) by (apply push_keyed; exact R).
    destruct (s_type ns); try exact R1. apply complete_keyed. exact R1.
  Qed.

  Lemma eps_go_keyed n lim r : run_keyed f k r -> forall es a, eps_go n lim r x es = Some a -> adv_keyed a.
  Proof.
    intros R. induction es as [|ep es IH]; intros a H; cbn in H; [discriminate|].
    destruct (nth_error n ep) as [es_|]; [|inversion H; subst; exact I].
    destruct (s_type es_);
      try (destruct (eps_inner n lim r x (s_trans es_)) as [a'|] eqn:E;
           [inversion H; subst; eapply eps_inner_keyed; eauto | apply IH; exact H]).
    inversion H; subst. apply complete_keyed. exact R.
  Qed.

  Lemma advance_keyed n lim r : run_keyed f k r -> adv_keyed (advance n lim r x).
  Proof.
    intros R. unfold advance. destruct (nth_error n (r_cur r)) as [cur|]; [|exact I].
    assert (Main : adv_keyed
        (if is_kleene cur && s_self cur && matches_state cur x (r_cap r)
         then if match r_kc r with Some kc => N.leb (max_events lim) (k_next kc) | None => false end
              then AContinue r
              else let r1 := push r x (s_alias cur) in
                   if s_eps_acc cur
                   then let r2 := set_kc r1 (Some (kc_count (r_kc r1) x (s_alias cur))) in ACompleteContinue r2 (match_of r2)
                   else match kc_extend (kc_or_new r1 cur) x (s_alias cur) with
                        | Some kc => AContinue (set_kc r1 (Some kc)) | None => APanic end
         else match trans_go n lim r x (s_trans cur) with
              | Some a => a
              | None => match eps_go n lim r x (s_eps cur) with Some a => a | None => ANoMatch r end
              end)).
    { destruct (is_kleene cur && s_self cur && matches_state cur x (r_cap r)).
      - destruct (match r_kc r with Some kc => N.leb (max_events lim) (k_next kc) | None => false end); [exact R|].
        assert (R1 : run_keyed f k (push r x (s_alias cur))) by (apply push_keyed; exact R).
        cbv zeta. destruct (s_eps_acc cur).
        + cbn. split; [exact R1 | exists (r_stack (push r x (s_alias cur))); split; [exact R1 | reflexivity]].
        + destruct (kc_extend _ _ _); [exact R1 | exact I].
      - destruct (trans_go n lim r x (s_trans cur)) as [a|] eqn:T; [eapply trans_go_keyed; eauto|].
        destruct (eps_go n lim r x (s_eps cur)) as [a|] eqn:E; [eapply eps_go_keyed; eauto | exact R]. }
    destruct (s_type cur); try exact Main. apply complete_keyed. exact R.
  Qed.

  Lemma proc_runs_keyed n lim fuel : forall runs i acc runs' ms,
    Forall (run_keyed f k) runs -> Forall (match_keyed f k) acc ->
    proc_runs fuel n lim x runs i acc = Some (runs', ms) ->
    Forall (run_keyed f k) runs' /\ Forall (match_keyed f k) ms.
  Proof.
    induction fuel as [|fu IH]; intros runs i acc runs' ms Fr Fa H; [discriminate|].
    cbn [proc_runs] in H. destruct (nth_error runs i) as [r|] eqn:Hr; [|inversion H; subst; auto].
    assert (Rr : run_keyed f k r) by (rewrite Forall_forall in Fr; apply Fr; eapply nth_error_In; eauto).
    assert (Sw : Forall (run_keyed f k) (swap_remove runs i)).
    { apply Forall_forall. intros y Iy. apply In_swap_remove in Iy. rewrite Forall_forall in Fr. auto. }
    assert (Up : forall r', run_keyed f k r' -> Forall (run_keyed f k) (upd runs i (fun _ => r'))).
    { intros r' R'. clear -Fr R'. revert i. induction Fr as [|y l Hy Fl IHl]; intros [|i]; cbn; constructor; auto. }
    destruct (r_inval r); [eapply IH; eauto|].
    pose proof (advance_keyed n lim r Rr) as A.
    destruct (advance n lim r x) as [r'|m|r' m|ms0|r'|]; cbn in A; [| | | | |discriminate].
    - eapply IH; [apply Up; exact A | exact Fa | exact H].
    - eapply IH; [exact Sw | | exact H]. apply Forall_app. split; [exact Fa | constructor; [exact A | constructor]].
    - destruct A as [A1 A2]. eapply IH; [apply Up; exact A1 | | exact H].
      apply Forall_app. split; [exact Fa | constructor; [exact A2 | constructor]].
    - eapply IH; [exact Sw | | exact H]. apply Forall_app. split; assumption.
    - eapply IH; [apply Up; exact A | exact Fa | exact H].
  Qed.
End Keyed.

(* the engine-level statement *)
Definition parts_keyed (f : N) (ps : list (pkey * list run)) : Prop :=
  Forall (fun p => Forall (run_keyed f (fst p)) (snd p)) ps.

Lemma check_negs_keyed f k negs e runs : Forall (run_keyed f k) runs -> Forall (run_keyed f k) (check_negs negs e runs).
Proof.
  intros F. unfold check_negs. apply Forall_forall. intros r' I. apply in_map_iff in I. destruct I as (r & <- & I).
  rewrite Forall_forall in F. specialize (F r I). destruct (neg_hits negs e r); exact F.
Qed.

Lemma pkey_eqb_eq a b : pkey_eqb a b = true -> a = b.
Proof.
  destruct a as [|va], b as [|vb]; cbn; try discriminate; auto.
  destruct va, vb; cbn; try discriminate; intros H.
  - apply Z.eqb_eq in H. subst. reflexivity.
  - apply Z.eqb_eq in H. subst. reflexivity.
  - apply N.eqb_eq in H. subst. reflexivity.
  - apply Bool.eqb_prop in H. subst. reflexivity.
Qed.

Lemma part_get_keyed f k ps rs : parts_keyed f ps -> part_get k ps = Some rs -> Forall (run_keyed f k) rs.
Proof.
  induction ps as [|[k' rs'] ps IH]; cbn; intros F H; [discriminate|].
  inversion F; subst. destruct (pkey_eqb k' k) eqn:E; [|auto].
  inversion H; subst. apply pkey_eqb_eq in E. subst. assumption.
Qed.

Lemma part_set_keyed f k rs ps : parts_keyed f ps -> Forall (run_keyed f k) rs -> parts_keyed f (part_set k rs ps).
Proof.
  induction ps as [|[k' rs'] ps IH]; cbn; intros F L.
  - constructor; [exact L | constructor].
  - inversion F; subst. destruct (pkey_eqb k' k) eqn:E.
    + apply pkey_eqb_eq in E. subst. constructor; [exact L | assumption].
    + constructor; [assumption | apply IH; assumption].
Qed.

Lemma start_go_keyed f n lim x c : forall ts r, start_go n lim x c ts = Some r -> run_keyed f (ekey f x) r.
Proof.
  induction ts as [|nx ts IH]; intros r H; cbn in H; [discriminate|].
  destruct (nth_error n nx) as [ns|]; [|discriminate].
  destruct (matches_state ns x []); [|apply IH; exact H].
  apply start_capture_fields in H. destruct H as (_ & Hs & _).
  unfold run_keyed. rewrite Hs. unfold push. cbn. constructor; [reflexivity | constructor].
Qed.

Lemma backpressure_keyed f k st mx runs r c runs' added c' :
  Forall (run_keyed f k) runs -> run_keyed f k r ->
  backpressure st mx runs r c = (runs', added, c') -> Forall (run_keyed f k) runs'.
Proof.
  intros F G. unfold backpressure. cbv zeta.
  assert (App : Forall (run_keyed f k) (runs ++ [r])) by (apply Forall_app; split; [exact F | constructor; [exact G | constructor]]).
  assert (Sw : forall i, Forall (run_keyed f k) (swap_remove runs i ++ [r])).
  { intros i. apply Forall_app. split; [|constructor; [exact G | constructor]].
    apply Forall_forall. intros y Iy. apply In_swap_remove in Iy. rewrite Forall_forall in F. auto. }
  destruct (Nat.ltb (length runs) mx); [intros H; inversion H; subst; exact App|].
  assert (Ev : forall (key : run -> nat) (b : bool),
    (match argmin key runs with
     | Some i => (swap_remove runs i ++ [r], true, mkCnt (c_created c) (c_dropped c) (c_evicted c + 1) (c_completed c))
     | None => if b then (runs ++ [r], true, c) else (runs, false, c)
     end) = (runs', added, c') -> Forall (run_keyed f k) runs').
  { intros key b. destruct (argmin key runs); [intros H; inversion H; subst; apply Sw|].
    destruct b; intros H; inversion H; subst; assumption. }
  destruct st as [| | | |num den]; try (intros H; inversion H; subst; exact F); try exact (Ev _ true).
  destruct (N.ltb (c_dropped c) (c_created c * num / den)); [exact (Ev _ false) | intros H; inversion H; subst; exact F].
Qed.

(* whole streams: the matches emitted at each event, paired with that event *)
Fixpoint run_tagged (g : config) (en : engine) (evs : list event) : option (list (event * list mres)) :=
  match evs with
  | [] => Some []
  | e :: rest =>
    match process g en e with
    | Some (en', ms) => match run_tagged g en' rest with Some l => Some ((e, ms) :: l) | None => None end
    | None => None
    end
  end.

Theorem process_keyed g f en x en' ms :
  g_part g = Some f -> parts_keyed f (e_parts en) -> process g en x = Some (en', ms) ->
  parts_keyed f (e_parts en') /\ Forall (match_keyed f (ekey f x)) ms.
Proof.
  intros Hp F H. unfold process in H. rewrite Hp in H.
  assert (F0 : parts_keyed f (map (fun '(k, rs) => (k, check_negs (g_negs g) x rs)) (e_parts en))).
  { clear H. induction F as [|[k rs] ps Hk F IH]; cbn; constructor; auto. cbn in *. apply check_negs_keyed. exact Hk. }
  set (parts0 := map (fun '(k, rs) => (k, check_negs (g_negs g) x rs)) (e_parts en)) in *.
  fold (ekey f x) in H. set (key := ekey f x) in *.
  set (cur := match part_get key parts0 with Some rs => rs | None => [] end) in *.
  assert (Fc : Forall (run_keyed f key) cur).
  { unfold cur. destruct (part_get key parts0) eqn:E; [eapply part_get_keyed; eauto | constructor]. }
  destruct (proc_runs _ (g_nfa g) (g_lim g) x cur 0 []) as [[rs1 ms1]|] eqn:PR; [|discriminate].
  destruct (proc_runs_keyed f key x eq_refl _ _ _ _ _ _ _ _ Fc (Forall_nil _) PR) as [F1 Fm].
  set (parts1 := match part_get key parts0 with Some _ => part_set key rs1 parts0 | None => parts0 end) in *.
  assert (Fp1 : parts_keyed f parts1).
  { unfold parts1. destruct (part_get key parts0); [apply part_set_keyed; assumption | exact F0]. }
  destruct (try_start (g_nfa g) (g_lim g) x (e_clock en)) as [r|] eqn:TS.
  - set (cur1 := match part_get key parts1 with Some rs => rs | None => [] end) in *.
    assert (Fc1 : Forall (run_keyed f key) cur1).
    { unfold cur1. destruct (part_get key parts1) eqn:E; [eapply part_get_keyed; eauto | constructor]. }
    destruct (backpressure (g_strategy g) (g_max_runs g) cur1 r (e_cnt en)) as [[rs2 added] c1] eqn:B.
    inversion H; subst. split; [|exact Fm]. cbn. apply part_set_keyed; [exact Fp1|].
    eapply backpressure_keyed; [exact Fc1 | | exact B].
    unfold try_start in TS. destruct (nth_error (g_nfa g) 0); [|discriminate]. eapply start_go_keyed; eauto.
  - inversion H; subst. split; [exact Fp1 | exact Fm].
Qed.

Theorem stream_keyed g f : g_part g = Some f -> forall evs en out,
  parts_keyed f (e_parts en) -> run_tagged g en evs = Some out ->
  Forall (fun p => Forall (match_keyed f (ekey f (fst p))) (snd p)) out.
Proof.
  intros Hp. induction evs as [|e evs IH]; intros en out F H; cbn in H.
  - inversion H; subst. constructor.
  - destruct (process g en e) as [[en1 ms]|] eqn:PR; [|discriminate].
    destruct (run_tagged g en1 evs) as [l|] eqn:RT; [|discriminate]. inversion H; subst.
    destruct (process_keyed g f en e en1 ms Hp F PR) as [F1 Fm].
    constructor; [exact Fm | eapply IH; eauto].
Qed.
