(* Reference semantics of C02 (property text): for sequence patterns without `all`,
   each event that can start the pattern is followed, at every step, by the earliest later
   event of its partition satisfying that step under the captures so far; the attempt is
   abandoned when an event satisfying a .not clause arrives before the completion
   (the completing event itself does not count as "before"). Executable; used for the
   known-finding witness and mirrored by the Python oracle of checks/C02.py. *)
From VP Require Import Base.Tactics Zdd.Model Sase.Model.

Definition step_ok (s : step) (e : event) (c : captured) : bool :=
  N.eqb (ety e) (st_ty s) && match st_pred s with Some p => eval_pred p e c | None => true end.

Definition key_of (part : option N) (e : event) : pkey :=
  match part with Some f => match get f e with Some v => KVal v | None => KMissing end | None => KMissing end.

Definition neg_hit (negs : list (N * option pred)) (e : event) (c : captured) : bool :=
  existsb (fun '(ty, p) => N.eqb (ety e) ty && match p with Some q => eval_pred q e c | None => true end) negs.

(* remaining steps, captures so far, stack so far (ids), partition key; walks the later events *)
Fixpoint greedy (negs : list (N * option pred)) (part : option N) (key : pkey)
         (rest : list step) (c : captured) (stack : list N) (evs : list event) : option (list N) :=
  match rest with
  | [] => Some stack
  | s :: rest' =>
    match evs with
    | [] => None
    | e :: evs' =>
      let advances := pkey_eqb (key_of part e) key && step_ok s e c in
      let is_last := match rest' with [] => true | _ => false end in
      if neg_hit negs e c && negb (advances && is_last) then None
      else if advances then
        greedy negs part key rest' (bind_alias c e (st_alias s)) (stack ++ [eid e]) evs'
      else greedy negs part key rest c stack evs'
    end
  end.

Fixpoint ref_matches (negs : list (N * option pred)) (part : option N) (steps : list step) (evs : list event)
  : list (list N) :=
  match evs with
  | [] => []
  | e :: evs' =>
    (match steps with
     | s0 :: rest =>
       if step_ok s0 e [] then
         match greedy negs part (key_of part e) rest (bind_alias [] e (st_alias s0)) [eid e] evs' with
         | Some st => [st]
         | None => []
         end
       else []
     | [] => []
     end) ++ ref_matches negs part steps evs'
  end.

(* all stacks the engine emits over a stream *)
Fixpoint engine_stacks (g : config) (en : engine) (evs : list event) : option (list (list N)) :=
  match evs with
  | [] => Some []
  | e :: rest =>
    match process g en e with
    | Some (en', ms) => match engine_stacks g en' rest with Some l => Some (map m_stack ms ++ l) | None => None end
    | None => None
    end
  end.

(* Known finding `not-on-completing-event`: stream S = B as a -> A .not(A where s >= 2), events B{s:2} A{s:2}.
   The reference (property text) reports the match [0;1]; the engine reports nothing, because .not clauses are
   applied to every run before runs are advanced. *)
Definition kf_steps : list step := [mkStep 1 None (Some 0%N) false; mkStep 0 None None false].
Definition kf_negs : list (N * option pred) := [(0%N, Some (PCmp 3 OGe (VStr 2)))].
Definition kf_events : list event := [mkEv 0 1 [(3%N, VStr 2)]; mkEv 1 0 [(3%N, VStr 2)]].

Lemma C02_not_on_completing_event_refuted :
  ref_matches kf_negs None kf_steps kf_events = [[0; 1]%N] /\
  engine_stacks (mkCfg (compile kf_steps) kf_negs None 10 SDrop (mkLim 20 10)) engine0 kf_events = Some [].
Proof. split; vm_compute; reflexivity. Qed.
