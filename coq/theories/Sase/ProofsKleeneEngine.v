(* C03, the link between the capture-level theorems (ProofsKleene.v) and the engine: for a
   pattern with at most one `all` step, every Kleene capture held by a run of any reachable
   engine state satisfies [KInv] (arena well-formed, handle valid, and -- when the step's filter
   is self-referencing -- the ZDD denotes exactly the power set of the accumulated events), and
   a capture with a deferred filter is one that went through the ZDD.  Hence the hypotheses of
   C03_enumeration / C03_capture_family hold whenever the engine enumerates. *)
From VP Require Import Base.Tactics Zdd.Model Zdd.ProofsBase Zdd.ProofsArena Sase.Model Sase.ProofsBounds
  Sase.ProofsSound Sase.ProofsSoundEngine Sase.ProofsCompile Sase.ProofsKleene.

(* ---- a run invariant carried through process_shared (conditional on the step returning) ---- *)
Section Carry.
  Variable n : nfa.
  Variable lim : limits.
  Variable Q : run -> Prop.
  Definition RQ (r : run) : Prop := r_inval r = true \/ Q r.
  Definition advQ (a : adv) : Prop :=
    match a with
    | AContinue r' | ANoMatch r' | ACompleteContinue r' _ => RQ r'
    | _ => True
    end.
  Hypothesis Hadv : forall r x, r_inval r = false -> Q r -> advQ (advance n lim r x).
  Hypothesis Hstart : forall x c r, try_start n lim x c = Some r -> Q r.

  Lemma upd_Forall (P : run -> Prop) l i r' : Forall P l -> P r' -> Forall P (upd l i (fun _ => r')).
  Proof.
    intros F H. revert i. induction F as [|y l Hy Fl IH]; intros [|i]; cbn; constructor; auto.
  Qed.
  Lemma swap_remove_Forall (P : run -> Prop) l i : Forall P l -> Forall P (swap_remove l i).
  Proof. intros F. apply Forall_forall. intros y Iy. apply In_swap_remove in Iy. rewrite Forall_forall in F. auto. Qed.

  Lemma proc_runs_carry x fuel : forall runs i acc runs' ms,
    Forall RQ runs -> proc_runs fuel n lim x runs i acc = Some (runs', ms) -> Forall RQ runs'.
  Proof.
    induction fuel as [|f IH]; intros runs i acc runs' ms F H; [discriminate|].
    cbn [proc_runs] in H. destruct (nth_error runs i) as [r|] eqn:Hr; [|inversion H; subst; exact F].
    assert (Fr : RQ r) by (rewrite Forall_forall in F; apply F; eapply nth_error_In; exact Hr).
    destruct (r_inval r) eqn:Iv; [exact (IH _ _ _ _ _ (swap_remove_Forall _ _ _ F) H)|].
    destruct Fr as [Fr|Fr]; [congruence|].
    pose proof (Hadv r x Iv Fr) as A.
    destruct (advance n lim r x) as [r'|m|r' m|ms0|r'|]; try discriminate.
    - exact (IH _ _ _ _ _ (upd_Forall _ _ _ _ F A) H).
    - exact (IH _ _ _ _ _ (swap_remove_Forall _ _ _ F) H).
    - exact (IH _ _ _ _ _ (upd_Forall _ _ _ _ F A) H).
    - exact (IH _ _ _ _ _ (swap_remove_Forall _ _ _ F) H).
    - exact (IH _ _ _ _ _ (upd_Forall _ _ _ _ F A) H).
  Qed.

  Lemma check_negs_carry negs x rs : Forall RQ rs -> Forall RQ (check_negs negs x rs).
  Proof.
    intros F. unfold check_negs. apply Forall_forall. intros r' I. apply in_map_iff in I. destruct I as (r & <- & I).
    rewrite Forall_forall in F. destruct (neg_hits negs x r); [left; reflexivity | exact (F r I)].
  Qed.

  Lemma backpressure_carry st mx runs r c runs' added c' :
    Forall RQ runs -> RQ r -> backpressure st mx runs r c = (runs', added, c') -> Forall RQ runs'.
  Proof.
    intros F G. unfold backpressure. cbv zeta.
    assert (App : Forall RQ (runs ++ [r])) by (apply Forall_app; split; [exact F | constructor; [exact G | constructor]]).
    assert (Sw : forall i, Forall RQ (swap_remove runs i ++ [r])).
    { intros i. apply Forall_app. split; [apply swap_remove_Forall; exact F | constructor; [exact G | constructor]]. }
    destruct (Nat.ltb (length runs) mx); [intros H; inversion H; subst; exact App|].
    assert (Ev : forall (key : run -> nat) (b : bool),
      (match argmin key runs with
       | Some i => (swap_remove runs i ++ [r], true, mkCnt (c_created c) (c_dropped c) (c_evicted c + 1) (c_completed c))
       | None => if b then (runs ++ [r], true, c) else (runs, false, c)
       end) = (runs', added, c') -> Forall RQ runs').
    { intros key b. destruct (argmin key runs); [intros H; inversion H; subst; apply Sw|].
      destruct b; intros H; inversion H; subst; assumption. }
    destruct st as [| | | |num den]; try (intros H; inversion H; subst; exact F); try exact (Ev _ true).
    destruct (N.ltb (c_dropped c) (c_created c * num / den)); [exact (Ev _ false) | intros H; inversion H; subst; exact F].
  Qed.

  Definition eng_RQ (en : engine) : Prop :=
    Forall RQ (e_runs en) /\ Forall (fun p : pkey * list run => Forall RQ (snd p)) (e_parts en).

  Lemma part_get_RQ k ps rs :
    Forall (fun p : pkey * list run => Forall RQ (snd p)) ps -> part_get k ps = Some rs -> Forall RQ rs.
  Proof.
    induction ps as [|[k' rs'] ps IH]; cbn; intros F H; [discriminate|].
    inversion F; subst. destruct (pkey_eqb k' k); [inversion H; subst; assumption | auto].
  Qed.
  Lemma part_set_RQ k rs ps :
    Forall (fun p : pkey * list run => Forall RQ (snd p)) ps -> Forall RQ rs ->
    Forall (fun p : pkey * list run => Forall RQ (snd p)) (part_set k rs ps).
  Proof.
    induction ps as [|[k' rs'] ps IH]; cbn; intros F L.
    - constructor; [exact L | constructor].
    - inversion F; subst. destruct (pkey_eqb k' k); constructor; auto.
  Qed.

  Lemma parts_negs_carry negs x (ps : list (pkey * list run)) :
    Forall (fun p : pkey * list run => Forall RQ (snd p)) ps ->
    Forall (fun p : pkey * list run => Forall RQ (snd p)) (map (fun '(k, rs) => (k, check_negs negs x rs)) ps).
  Proof.
    induction 1 as [|[k rs] ps Hp _ IH]; cbn; constructor; [cbn in *; apply check_negs_carry; exact Hp | exact IH].
  Qed.

  Theorem process_carry g en x en' ms : g_nfa g = n -> g_lim g = lim ->
    eng_RQ en -> process g en x = Some (en', ms) -> eng_RQ en'.
  Proof.
    intros En El [Fr Fp] H. unfold process in H. rewrite En, El in H.
    pose proof (check_negs_carry (g_negs g) x _ Fr) as Fr0.
    pose proof (parts_negs_carry (g_negs g) x _ Fp) as Fp0.
    set (parts0 := map (fun '(k, rs) => (k, check_negs (g_negs g) x rs)) (e_parts en)) in *.
    destruct (g_part g) as [f|].
    - set (key := match get f x with Some v => KVal v | None => KMissing end) in *.
      set (cur := match part_get key parts0 with Some rs => rs | None => [] end) in *.
      assert (Fc : Forall RQ cur).
      { unfold cur. destruct (part_get key parts0) eqn:E; [eapply part_get_RQ; eauto | constructor]. }
      destruct (proc_runs _ n lim x cur 0 []) as [[rs1 ms1]|] eqn:PR; [|discriminate].
      pose proof (proc_runs_carry x _ _ _ _ _ _ Fc PR) as F1.
      set (parts1 := match part_get key parts0 with Some _ => part_set key rs1 parts0 | None => parts0 end) in *.
      assert (Fp1 : Forall (fun p : pkey * list run => Forall RQ (snd p)) parts1).
      { unfold parts1. destruct (part_get key parts0); [apply part_set_RQ; assumption | exact Fp0]. }
      destruct (try_start n lim x (e_clock en)) as [r|] eqn:TS.
      + set (cur1 := match part_get key parts1 with Some rs => rs | None => [] end) in *.
        assert (Fc1 : Forall RQ cur1).
        { unfold cur1. destruct (part_get key parts1) eqn:E; [eapply part_get_RQ; eauto | constructor]. }
        destruct (backpressure (g_strategy g) (g_max_runs g) cur1 r (e_cnt en)) as [[rs2 added] c1] eqn:B.
        inversion H; subst. split; cbn [e_runs e_parts]; [exact Fr0|].
        apply part_set_RQ; [exact Fp1|].
        eapply backpressure_carry; [exact Fc1 | right; eapply Hstart; exact TS | exact B].
      + inversion H; subst. split; cbn [e_runs e_parts]; assumption.
    - destruct (proc_runs _ n lim x (check_negs (g_negs g) x (e_runs en)) 0 []) as [[rs1 ms1]|] eqn:PR; [|discriminate].
      pose proof (proc_runs_carry x _ _ _ _ _ _ Fr0 PR) as F1.
      destruct (try_start n lim x (e_clock en)) as [r|] eqn:TS.
      + destruct (backpressure (g_strategy g) (g_max_runs g) rs1 r (e_cnt en)) as [[rs2 added] c1] eqn:B.
        inversion H; subst. split; cbn [e_runs e_parts]; [|exact Fp0].
        eapply backpressure_carry; [exact F1 | right; eapply Hstart; exact TS | exact B].
      + inversion H; subst. split; cbn [e_runs e_parts]; assumption.
  Qed.
End Carry.

(* ---- the Kleene capture invariant ---- *)
Definition single_kleene (n : nfa) : Prop :=
  forall q1 q2 s1 s2, nth_error n q1 = Some s1 -> nth_error n q2 = Some s2 ->
    is_kleene s1 = true -> is_kleene s2 = true -> q1 = q2.

Section KleeneEngine.
  Variable n : nfa.
  Variable lim : limits.
  Hypothesis SK : single_kleene n.

  Definition kcap_good (k : kcap) : Prop :=
    KInv k /\
    (k_needs k = true -> forall q s, nth_error n q = Some s -> is_kleene s = true -> s_eps_acc s = false) /\
    (k_deferred k <> None -> k_needs k = true).
  Definition kgood (r : run) : Prop := forall k, r_kc r = Some k -> kcap_good k.

  Lemma kcap_new_good q s : nth_error n q = Some s -> is_kleene s = true -> s_eps_acc s = false -> kcap_good (kc_new (s_post s)).
  Proof.
    intros Hq Ks Ea. split; [apply KInv_new|]. split.
    - intros _ q' s' Hq' Ks'. rewrite <- (SK q q' s s' Hq Hq' Ks Ks') in Hq'. congruence.
    - unfold kc_new. cbn. destruct (s_post s); [reflexivity | congruence].
  Qed.

  Lemma kcap_extend_good k x al k' : kcap_good k -> kc_extend k x al = Some k' -> kcap_good k'.
  Proof.
    intros (K & A & D) H. destruct (kc_extend_ok k x al K) as (k2 & H2 & K2 & _ & _ & Ed & En).
    rewrite H in H2. inversion H2; subst k2. split; [exact K2|]. split.
    - rewrite En. exact A.
    - rewrite Ed, En. exact D.
  Qed.

  (* counting on a trailing `all` state: the capture never went through the ZDD *)
  Lemma kcap_count_good ok x al q s : nth_error n q = Some s -> is_kleene s = true -> s_eps_acc s = true ->
    (forall k, ok = Some k -> kcap_good k) -> kcap_good (kc_count ok x al).
  Proof.
    intros Hq Ks Ea H. unfold kc_count.
    assert (G : kcap_good (match ok with Some k => k | None => kc_new None end) /\
                k_needs (match ok with Some k => k | None => kc_new None end) = false).
    { destruct ok as [k|].
      - destruct (H k eq_refl) as (K & A & D). split; [exact (conj K (conj A D))|].
        destruct (k_needs k) eqn:Nd; [|reflexivity]. rewrite (A eq_refl q s Hq Ks) in Ea. discriminate.
      - split; [|reflexivity]. split; [apply KInv_new|]. split; [cbn; discriminate | cbn; congruence]. }
    destruct G as [([A V L Fm] & A2 & D) Nd]. split; [|split; cbn; assumption].
    split; cbn; auto.
    - rewrite app_length. cbn. lia.
    - rewrite Nd. discriminate.
  Qed.

  Lemma enter_kleene_good r x nx ns : kgood r -> nth_error n nx = Some ns ->
    advQ kgood (enter_trans lim r x nx ns).
  Proof.
    intros K Hn. unfold enter_trans.
    set (r1 := push (set_cur r nx) x (s_alias ns)).
    assert (K1 : kgood r1) by exact K.
    destruct (s_type ns) eqn:T; try (right; exact K1).
    - assert (Ks : is_kleene ns = true) by (unfold is_kleene; rewrite T; reflexivity).
      destruct (s_self ns); [|right; exact K1].
      destruct (s_eps_acc ns) eqn:Ea.
      + right. intros k E. cbn in E. inversion E; subst.
        exact (kcap_count_good _ x (s_alias ns) nx ns Hn Ks Ea K1).
      + assert (Kn : kcap_good (kc_or_new r1 ns)).
        { unfold kc_or_new. destruct (r_kc r1) as [k|] eqn:E; [exact (K1 k E) | exact (kcap_new_good nx ns Hn Ks Ea)]. }
        destruct (N.leb (max_events lim) (k_next (kc_or_new r1 ns))).
        * right. intros k E. cbn in E. inversion E; subst. exact Kn.
        * destruct (kc_extend (kc_or_new r1 ns) x (s_alias ns)) as [k'|] eqn:Ex; [|exact Logic.I].
          right. intros k E. cbn in E. inversion E; subst. exact (kcap_extend_good _ _ _ _ Kn Ex).
    - unfold complete_run. destruct (r_kc r1) as [k|]; [destruct (k_deferred k); [destruct (enumerate _ _ _ _)|]|]; exact Logic.I.
  Qed.

  Lemma complete_run_advQ r : advQ kgood (complete_run r lim).
  Proof.
    unfold complete_run. destruct (r_kc r) as [k|]; [destruct (k_deferred k); [destruct (enumerate _ _ _ _)|]|]; exact Logic.I.
  Qed.

  Lemma trans_go_good r x : kgood r -> forall ts a, trans_go n lim r x ts = Some a -> advQ kgood a.
  Proof.
    intros K. induction ts as [|nx ts IH]; intros a H; cbn in H; [discriminate|].
    destruct (nth_error n nx) as [ns|] eqn:Hn; [|inversion H; subst; exact Logic.I].
    destruct (matches_state ns x (r_cap r)); [inversion H; subst; exact (enter_kleene_good r x nx ns K Hn) | exact (IH a H)].
  Qed.

  Lemma eps_inner_good r x : kgood r -> forall ts a, eps_inner n lim r x ts = Some a -> advQ kgood a.
  Proof.
    intros K. induction ts as [|nx ts IH]; intros a H; cbn in H; [discriminate|].
    destruct (nth_error n nx) as [ns|] eqn:Hn; [|inversion H; subst; exact Logic.I].
    destruct (matches_state ns x (r_cap r)); [|exact (IH a H)].
    inversion H; subst. unfold enter_eps. destruct (s_type ns); try (right; exact K). apply complete_run_advQ.
  Qed.

  Lemma eps_go_good r x : kgood r -> forall es a, eps_go n lim r x es = Some a -> advQ kgood a.
  Proof.
    intros K. induction es as [|ep es IH]; intros a H; cbn in H; [discriminate|].
    destruct (nth_error n ep) as [es_|] eqn:Hn; [|inversion H; subst; exact Logic.I].
    destruct (s_type es_);
      try (destruct (eps_inner n lim r x (s_trans es_)) as [a'|] eqn:Ei;
           [inversion H; subst; exact (eps_inner_good r x K _ _ Ei) | exact (IH a H)]).
    inversion H; subst. apply complete_run_advQ.
  Qed.

  Theorem advance_kgood r x : r_inval r = false -> kgood r -> advQ kgood (advance n lim r x).
  Proof.
    intros _ K. unfold advance.
    destruct (nth_error n (r_cur r)) as [cur|] eqn:Hc; [|exact Logic.I].
    assert (Rest : advQ kgood (match trans_go n lim r x (s_trans cur) with
                               | Some a => a
                               | None => match eps_go n lim r x (s_eps cur) with Some a => a | None => ANoMatch r end
                               end)).
    { destruct (trans_go n lim r x (s_trans cur)) as [a|] eqn:T; [exact (trans_go_good r x K _ _ T)|].
      destruct (eps_go n lim r x (s_eps cur)) as [a|] eqn:E; [exact (eps_go_good r x K _ _ E) | right; exact K]. }
    assert (NotK : is_kleene cur = false -> advQ kgood
      (if is_kleene cur && s_self cur && matches_state cur x (r_cap r) then
         if (match r_kc r with Some k => N.leb (max_events lim) (k_next k) | None => false end) then AContinue r
         else
           let r1 := push r x (s_alias cur) in
           if s_eps_acc cur then
             let r2 := set_kc r1 (Some (kc_count (r_kc r1) x (s_alias cur))) in ACompleteContinue r2 (match_of r2)
           else
             match kc_extend (kc_or_new r1 cur) x (s_alias cur) with
             | Some k => AContinue (set_kc r1 (Some k))
             | None => APanic
             end
       else
         match trans_go n lim r x (s_trans cur) with
         | Some a => a
         | None => match eps_go n lim r x (s_eps cur) with Some a => a | None => ANoMatch r end
         end)).
    { intros E. rewrite E. cbn [andb]. exact Rest. }
    destruct (s_type cur) eqn:Ty;
      [apply NotK; unfold is_kleene; rewrite Ty; reflexivity
      |apply NotK; unfold is_kleene; rewrite Ty; reflexivity
      | |apply complete_run_advQ].
    (* current state is a Kleene state *)
    assert (Ks : is_kleene cur = true) by (unfold is_kleene; rewrite Ty; reflexivity).
    rewrite Ks. cbn [andb].
    destruct (s_self cur && matches_state cur x (r_cap r)); [|exact Rest].
    destruct (match r_kc r with Some k => N.leb (max_events lim) (k_next k) | None => false end); [right; exact K|].
    cbv zeta. set (r1 := push r x (s_alias cur)).
    assert (K1 : kgood r1) by exact K.
    destruct (s_eps_acc cur) eqn:Ea.
    - right. intros k E. cbn in E. inversion E; subst.
      exact (kcap_count_good _ x (s_alias cur) (r_cur r) cur Hc Ks Ea K1).
    - assert (Kn : kcap_good (kc_or_new r1 cur)).
      { unfold kc_or_new. destruct (r_kc r1) as [k|] eqn:E; [exact (K1 k E) | exact (kcap_new_good _ cur Hc Ks Ea)]. }
      destruct (kc_extend (kc_or_new r1 cur) x (s_alias cur)) as [k'|] eqn:Ex; [|exact Logic.I].
      right. intros k E. cbn in E. inversion E; subst. exact (kcap_extend_good _ _ _ _ Kn Ex).
  Qed.

  Lemma try_start_kgood x c r : try_start n lim x c = Some r -> kgood r.
  Proof.
    unfold try_start. destruct (nth_error n 0) as [st|]; [|discriminate].
    induction (s_trans st) as [|nx ts IH]; cbn [start_go]; [discriminate|].
    destruct (nth_error n nx) as [ns|] eqn:Hn; [|discriminate].
    destruct (matches_state ns x []); [|exact IH].
    unfold start_capture. set (r0 := push (mkRun nx [] [] false None c) x (s_alias ns)).
    assert (K0 : kgood r0) by (intros k E; discriminate).
    destruct (s_type ns) eqn:T; try (intros H; inversion H; subst; exact K0).
    assert (Ks : is_kleene ns = true) by (unfold is_kleene; rewrite T; reflexivity).
    destruct (s_self ns); [|intros H; inversion H; subst; exact K0].
    destruct (s_eps_acc ns) eqn:Ea.
    - intros H. inversion H; subst. intros k E. cbn in E. inversion E; subst.
      exact (kcap_count_good _ x (s_alias ns) nx ns Hn Ks Ea K0).
    - pose proof (kcap_new_good nx ns Hn Ks Ea) as Kn.
      destruct (N.leb (max_events lim) (k_next (kc_new (s_post ns)))).
      + intros H. inversion H; subst. intros k E. cbn in E. inversion E; subst. exact Kn.
      + destruct (kc_extend (kc_new (s_post ns)) x (s_alias ns)) as [k'|] eqn:Ex; [|discriminate].
        intros H. inversion H; subst. intros k E. cbn in E. inversion E; subst. exact (kcap_extend_good _ _ _ _ Kn Ex).
  Qed.

  Theorem process_kgood g en x en' ms : g_nfa g = n -> g_lim g = lim ->
    eng_RQ kgood en -> process g en x = Some (en', ms) -> eng_RQ kgood en'.
  Proof.
    intros En El. exact (process_carry n lim kgood advance_kgood try_start_kgood g en x en' ms En El).
  Qed.
End KleeneEngine.

Theorem stream_kgood g : single_kleene (g_nfa g) -> forall evs en en',
  eng_RQ (kgood (g_nfa g)) en -> run_engine g en evs = Some en' -> eng_RQ (kgood (g_nfa g)) en'.
Proof.
  intros SK. induction evs as [|x evs IH]; intros en en' I H; cbn [run_engine] in H; [inversion H; subst; exact I|].
  destruct (process g en x) as [[en1 ms]|] eqn:P; [|discriminate].
  exact (IH en1 en' (process_kgood (g_nfa g) (g_lim g) SK g en x en1 ms eq_refl eq_refl I P) H).
Qed.

(* ---- a pattern with at most one `all` step compiles to an NFA with at most one Kleene state ---- *)
From VP Require Import Sase.ProofsPattern.

Lemma filter_none_nth {A} (f : A -> bool) l j b : length (filter f l) = 0 -> nth_error l j = Some b -> f b = false.
Proof.
  revert j. induction l as [|a l IH]; intros j L H; [destruct j; discriminate|].
  cbn in L. destruct (f a) eqn:Fa; [discriminate|].
  destruct j as [|j]; [inversion H; subst; exact Fa | exact (IH j L H)].
Qed.

Lemma filter_unique {A} (f : A -> bool) l : forall i j a b, length (filter f l) <= 1 ->
  nth_error l i = Some a -> nth_error l j = Some b -> f a = true -> f b = true -> i = j.
Proof.
  induction l as [|x l IH]; intros i j a b L Hi Hj Fa Fb; [destruct i; discriminate|].
  cbn in L. destruct (f x) eqn:Fx.
  - assert (L0 : length (filter f l) = 0) by (cbn in L; lia).
    destruct i as [|i], j as [|j]; [reflexivity | | |].
    + cbn in Hj. rewrite (filter_none_nth f l j b L0 Hj) in Fb. discriminate.
    + cbn in Hi. rewrite (filter_none_nth f l i a L0 Hi) in Fa. discriminate.
    + cbn in Hi. rewrite (filter_none_nth f l i a L0 Hi) in Fa. discriminate.
  - destruct i as [|i]; [inversion Hi; subst; congruence|].
    destruct j as [|j]; [inversion Hj; subst; congruence|].
    f_equal. exact (IH i j a b L Hi Hj Fa Fb).
Qed.

Lemma cover ss : forall q, q < off ss ->
  q = 0 \/ exists j s, nth_error ss j = Some s /\ (q = sid ss j \/ (st_all s = true /\ q = S (sid ss j))).
Proof.
  induction ss as [|s ss IH] using rev_ind; intros q L.
  - unfold off in L. cbn in L. left. lia.
  - rewrite off_snoc in L.
    destruct (Nat.lt_ge_cases q (off ss)) as [Lq|Gq].
    + destruct (IH q Lq) as [E|(j & s' & Hj & C)]; [left; exact E|]. right.
      assert (Lj : j < length ss) by (apply nth_error_Some; congruence).
      exists j, s'. split; [rewrite nth_error_app1 by exact Lj; exact Hj|].
      rewrite sid_snoc by lia. exact C.
    + right. exists (length ss), s. split; [rewrite nth_error_app2 by lia; rewrite Nat.sub_diag; reflexivity|].
      rewrite sid_snoc by lia. rewrite sid_full.
      destruct (st_all s); [|left; lia].
      destruct (Nat.eq_dec q (off ss)) as [E|E]; [left; exact E | right; split; [reflexivity | lia]].
Qed.

Lemma compile_length steps : length (compile steps) = off steps.
Proof.
  unfold compile. fold (build steps). pose proof (lay_len _ _ (lay steps)) as L.
  destruct (build steps) as [n last]. cbn [fst] in L. rewrite map_length, upd_length'. exact L.
Qed.

Lemma kleene_state_is_all_step steps q z : nth_error (compile steps) q = Some z -> is_kleene z = true ->
  exists j s, nth_error steps j = Some s /\ st_all s = true /\ q = sid steps j.
Proof.
  intros Hq Kz.
  assert (Lq : q < off steps) by (rewrite <- compile_length; apply nth_error_Some; congruence).
  assert (Ty : forall s0, nth_error (fst (build steps)) q = Some s0 -> s_type s0 = TKleene).
  { intros s0 H0. destruct (c_fields steps q s0 H0) as (z' & Hz' & _ & _ & _ & _ & _ & _ & T & _).
    rewrite Hq in Hz'. inversion Hz'; subst z'. unfold is_kleene in Kz.
    destruct T as [T|T]; [rewrite T in Kz; discriminate|]. rewrite <- T. destruct (s_type z); try discriminate. reflexivity. }
  destruct (cover steps q Lq) as [->|(j & s & Hj & [->|[Al ->]])].
  - pose proof (Ty _ (lay_start _ _ (lay steps))) as T. discriminate.
  - destruct (lay_step _ _ (lay steps) j s Hj) as [A _]. pose proof (Ty _ A) as T.
    unfold step_state in T. destruct (st_all s) eqn:Al; [|discriminate]. exists j, s. auto.
  - destruct (lay_step _ _ (lay steps) j s Hj) as [_ B]. pose proof (Ty _ (B Al)) as T. discriminate.
Qed.

Theorem compile_single_kleene steps : count_all steps <= 1 -> single_kleene (compile steps).
Proof.
  intros C q1 q2 s1 s2 H1 H2 K1 K2.
  destruct (kleene_state_is_all_step steps q1 s1 H1 K1) as (j1 & t1 & Hj1 & A1 & ->).
  destruct (kleene_state_is_all_step steps q2 s2 H2 K2) as (j2 & t2 & Hj2 & A2 & ->).
  rewrite (filter_unique st_all steps j1 j2 t1 t2 C Hj1 Hj2 A1 A2). reflexivity.
Qed.
