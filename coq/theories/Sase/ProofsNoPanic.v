(* C05, "processing never panics": on an NFA whose transition and epsilon targets exist
   (in particular every compiled pattern, [compile_closed]), the model's [process] always
   returns -- no index out of range in advance_run_shared, the ZDD extension of the Kleene
   capture succeeds, enumeration finds every event it indexes, and the swap_remove loop ends
   within its fuel -- for every stream, partitioning, backpressure strategy and limits. *)
From Coq Require Import Permutation.
From VP Require Import Base.Tactics Zdd.Model Zdd.ProofsBase Zdd.ProofsOps Zdd.ProofsPwo Zdd.ProofsPwoTotal
  Zdd.ProofsQuery Zdd.ProofsArena Sase.Model Sase.ProofsBounds Sase.ProofsSound Sase.ProofsSoundEngine
  Sase.ProofsCompile Sase.ProofsKleene Sase.ProofsExactLoop.

(* ---- what keeps a Kleene capture usable (weaker than KInv: trailing `all` steps count events
        without extending the ZDD, so the family need not be the whole power set) ---- *)
Record KSafe (k : kcap) : Prop := {
  ks_arena : AInv (k_arena k);
  ks_valid : valid (atable (k_arena k)) (k_handle k);
  ks_len : N.of_nat (length (k_events k)) = k_next k;
  ks_range : forall s, In_fam (atable (k_arena k)) (k_handle k) s -> Forall (fun x => (x < k_next k)%N) s }.

Lemma KSafe_new d : KSafe (kc_new d).
Proof.
  split; cbn; auto using AInv0. intros s H. apply in_fam_base in H. subst. constructor.
Qed.

Lemma kc_extend_safe k e al : KSafe k -> exists k', kc_extend k e al = Some k' /\ KSafe k'.
Proof.
  intros [A V L R]. unfold kc_extend. destruct (k_needs k).
  - destruct (a_pwo_ok _ _ (k_next k) A V) as (ar' & r & H & A' & E & V' & S). rewrite H.
    eexists. split; [reflexivity|]. split; cbn; auto.
    + rewrite app_length. cbn. lia.
    + intros s Hs. apply S in Hs. destruct Hs as [Hs|(s0 & Hs & ->)].
      * eapply Forall_impl; [|exact (R s Hs)]. cbn. intros; lia.
      * apply Forall_forall. intros y Iy. apply ins_In in Iy. destruct Iy as [->|Iy]; [lia|].
        pose proof (R s0 Hs) as F. rewrite Forall_forall in F. specialize (F y Iy). cbn in F. lia.
  - eexists. split; [reflexivity|]. split; cbn; auto.
    + rewrite app_length. cbn. lia.
    + intros s Hs. eapply Forall_impl; [|exact (R s Hs)]. cbn. intros; lia.
Qed.

Lemma kc_count_safe ok e al : (forall k, ok = Some k -> KSafe k) -> KSafe (kc_count ok e al).
Proof.
  intros H. unfold kc_count.
  assert (K : KSafe (match ok with Some k => k | None => kc_new None end)).
  { destruct ok as [k|]; [apply H; reflexivity | apply KSafe_new]. }
  destruct K as [A V L R]. split; cbn; auto.
  - rewrite app_length. cbn. lia.
  - intros s Hs. eapply Forall_impl; [|exact (R s Hs)]. cbn. intros; lia.
Qed.

Lemma enumerate_total r k p mx : KSafe k -> exists ms, enumerate r k p mx = Some ms.
Proof.
  intros [A V L R]. pose proof (ai_wf _ A) as W.
  assert (Lr : rk (k_handle k) < S (length (atable (k_arena k)))) by (apply rk_valid in V; lia).
  destruct (iter_total _ _ _ W V Lr) as [combos Hc].
  destruct (iter_ok _ _ _ _ W V Hc) as [Sm _].
  assert (Idx : Forall (Forall (fun x => (x < N.of_nat (length (k_events k)))%N)) combos).
  { apply Forall_forall. intros s I. apply Sm in I. rewrite L. exact (R s I). }
  destruct (enum_all_total r k p combos Idx) as [all Ha].
  unfold enumerate. rewrite Hc.
  rewrite (enum_go_spec r k p mx combos [] all); [eauto | unfold cap_of; cbn; lia | exact Ha].
Qed.

(* ---- NFAs whose edges lead to existing states ---- *)
Definition closed (n : nfa) : Prop :=
  forall q s, nth_error n q = Some s ->
    Forall (fun t => t < length n) (s_trans s) /\ Forall (fun t => t < length n) (s_eps s).

Section NoPanic.
  Variable n : nfa.
  Variable lim : limits.
  Hypothesis CL : closed n.

  Definition ksafe_opt (o : option kcap) : Prop := forall k, o = Some k -> KSafe k.
  Definition live_safe (r : run) : Prop := r_cur r < length n /\ ksafe_opt (r_kc r).
  Definition run_safe (r : run) : Prop := r_inval r = true \/ live_safe r.

  Definition adv_safe (a : adv) : Prop :=
    match a with
    | AContinue r' | ANoMatch r' | ACompleteContinue r' _ => r_inval r' = false -> live_safe r'
    | APanic => False
    | _ => True
    end.

  Lemma complete_run_safe r : ksafe_opt (r_kc r) -> adv_safe (complete_run r lim).
  Proof.
    intros K. unfold complete_run. destruct (r_kc r) as [k|] eqn:E; [|exact Logic.I].
    destruct (k_deferred k) as [p|]; [|exact Logic.I].
    destruct (enumerate_total r k p (max_results lim) (K k eq_refl)) as [ms H]. rewrite H. exact Logic.I.
  Qed.

  Lemma ksafe_some k : KSafe k -> ksafe_opt (Some k).
  Proof. intros K k' E. inversion E; subst. exact K. Qed.

  Lemma kc_or_new_safe r s : ksafe_opt (r_kc r) -> KSafe (kc_or_new r s).
  Proof. intros K. unfold kc_or_new. destruct (r_kc r) as [k|]; [apply K; reflexivity | apply KSafe_new]. Qed.

  Lemma enter_trans_safe r x nx ns : ksafe_opt (r_kc r) -> nx < length n -> adv_safe (enter_trans lim r x nx ns).
  Proof.
    intros K L. unfold enter_trans.
    set (r1 := push (set_cur r nx) x (s_alias ns)).
    assert (K1 : ksafe_opt (r_kc r1)) by exact K.
    assert (L1 : live_safe r1) by (split; [exact L | exact K1]).
    destruct (s_type ns); try (intros _; exact L1).
    - destruct (s_self ns); [|intros _; exact L1].
      destruct (s_eps_acc ns).
      + intros _. split; [exact L|]. apply ksafe_some. apply kc_count_safe. exact K1.
      + pose proof (kc_or_new_safe r1 ns K1) as Kn.
        destruct (N.leb (max_events lim) (k_next (kc_or_new r1 ns))).
        * intros _. split; [exact L | apply ksafe_some; exact Kn].
        * destruct (kc_extend_safe _ x (s_alias ns) Kn) as (k' & H & K'). rewrite H.
          intros _. split; [exact L | apply ksafe_some; exact K'].
    - apply complete_run_safe. exact K1.
  Qed.

  Lemma trans_go_safe r x : ksafe_opt (r_kc r) -> forall ts a, Forall (fun t => t < length n) ts ->
    trans_go n lim r x ts = Some a -> adv_safe a.
  Proof.
    intros K. induction ts as [|nx ts IH]; intros a F H; cbn in H; [discriminate|].
    inversion F as [|? ? Lnx Fts]; subst.
    destruct (nth_error n nx) as [ns|] eqn:Hn; [|apply nth_error_None in Hn; lia].
    destruct (matches_state ns x (r_cap r)).
    - inversion H; subst. apply enter_trans_safe; assumption.
    - exact (IH a Fts H).
  Qed.

  Lemma eps_inner_safe r x : ksafe_opt (r_kc r) -> forall ts a, Forall (fun t => t < length n) ts ->
    eps_inner n lim r x ts = Some a -> adv_safe a.
  Proof.
    intros K. induction ts as [|nx ts IH]; intros a F H; cbn in H; [discriminate|].
    inversion F as [|? ? Lnx Fts]; subst.
    destruct (nth_error n nx) as [ns|] eqn:Hn; [|apply nth_error_None in Hn; lia].
    destruct (matches_state ns x (r_cap r)).
    - inversion H; subst. unfold enter_eps.
      destruct (s_type ns); try (intros _; split; [exact Lnx | exact K]).
      apply complete_run_safe. exact K.
    - exact (IH a Fts H).
  Qed.

  Lemma eps_go_safe r x : ksafe_opt (r_kc r) -> forall es a, Forall (fun t => t < length n) es ->
    eps_go n lim r x es = Some a -> adv_safe a.
  Proof.
    intros K. induction es as [|ep es IH]; intros a F H; cbn in H; [discriminate|].
    inversion F as [|? ? Lep Fes]; subst.
    destruct (nth_error n ep) as [es_|] eqn:Hn; [|apply nth_error_None in Hn; lia].
    destruct (CL _ _ Hn) as [Ft _].
    assert (Inner : forall a', eps_inner n lim r x (s_trans es_) = Some a' -> adv_safe a')
      by (intros a' Ha; exact (eps_inner_safe r x K _ _ Ft Ha)).
    destruct (s_type es_);
      try (destruct (eps_inner n lim r x (s_trans es_)) as [a'|] eqn:Ei;
           [inversion H; subst; apply Inner; reflexivity | exact (IH a Fes H)]).
    inversion H; subst. apply complete_run_safe. exact K.
  Qed.

  Theorem advance_safe r x : live_safe r -> adv_safe (advance n lim r x).
  Proof.
    intros [L K]. unfold advance.
    destruct (nth_error n (r_cur r)) as [cur|] eqn:Hc; [|apply nth_error_None in Hc; lia].
    destruct (CL _ _ Hc) as [Ft Fe].
    assert (Rest : adv_safe (match trans_go n lim r x (s_trans cur) with
                             | Some a => a
                             | None => match eps_go n lim r x (s_eps cur) with Some a => a | None => ANoMatch r end
                             end)).
    { destruct (trans_go n lim r x (s_trans cur)) as [a|] eqn:T; [exact (trans_go_safe r x K _ _ Ft T)|].
      destruct (eps_go n lim r x (s_eps cur)) as [a|] eqn:E; [exact (eps_go_safe r x K _ _ Fe E)|].
      intros _. split; assumption. }
    assert (Loop : adv_safe (
      if is_kleene cur && s_self cur && matches_state cur x (r_cap r) then
        if (match r_kc r with Some k => N.leb (max_events lim) (k_next k) | None => false end) then AContinue r
        else
          let r1 := push r x (s_alias cur) in
          if s_eps_acc cur then
            let r2 := set_kc r1 (Some (kc_count (r_kc r1) x (s_alias cur))) in ACompleteContinue r2 (match_of r2)
          else
            match kc_extend (kc_or_new r1 cur) x (s_alias cur) with
            | Some k => AContinue (set_kc r1 (Some k))
            | None => APanic
            end
      else
        match trans_go n lim r x (s_trans cur) with
        | Some a => a
        | None => match eps_go n lim r x (s_eps cur) with Some a => a | None => ANoMatch r end
        end)).
    { destruct (is_kleene cur && s_self cur && matches_state cur x (r_cap r)); [|exact Rest].
      destruct (match r_kc r with Some k => N.leb (max_events lim) (k_next k) | None => false end);
        [intros _; split; assumption|].
      cbv zeta. set (r1 := push r x (s_alias cur)).
      assert (K1 : ksafe_opt (r_kc r1)) by exact K.
      destruct (s_eps_acc cur).
      - intros _. split; [exact L|]. apply ksafe_some. apply kc_count_safe. exact K1.
      - destruct (kc_extend_safe _ x (s_alias cur) (kc_or_new_safe r1 cur K1)) as (k' & H & K'). rewrite H.
        intros _. split; [exact L | apply ksafe_some; exact K']. }
    destruct (s_type cur); try exact Loop.
    apply complete_run_safe. exact K.
  Qed.

  (* ---- the loop, starting a run, backpressure, the whole step ---- *)
  Lemma safe_nopanic x r : run_safe r -> nopanic n lim x r.
  Proof.
    intros [I|Lv]; [left; exact I|]. right. intros E. pose proof (advance_safe r x Lv) as A. rewrite E in A. exact A.
  Qed.

  Lemma keeps_safe x rs : Forall run_safe rs -> Forall run_safe (keeps n lim x rs).
  Proof.
    induction 1 as [|r rs Hr _ IH]; [constructor|].
    unfold keeps. cbn [flat_map]. apply Forall_app. split; [|exact IH].
    unfold one. destruct (r_inval r) eqn:Iv; [constructor|].
    destruct Hr as [Hr|Lv]; [congruence|].
    pose proof (advance_safe r x Lv) as A.
    assert (S' : forall r', (r_inval r' = false -> live_safe r') -> run_safe r').
    { intros r' Hr'. unfold run_safe. destruct (r_inval r'); [left; reflexivity | right; apply Hr'; reflexivity]. }
    destruct (advance n lim r x) as [r'|m|r' m|ms|r'|]; cbn [fst].
    - constructor; [exact (S' r' A) | constructor].
    - constructor.
    - constructor; [exact (S' r' A) | constructor].
    - constructor.
    - constructor; [exact (S' r' A) | constructor].
    - constructor.
  Qed.

  Lemma check_negs_safe negs x rs : Forall run_safe rs -> Forall run_safe (check_negs negs x rs).
  Proof.
    intros F. unfold check_negs. apply Forall_forall. intros r' I. apply in_map_iff in I. destruct I as (r & <- & I).
    rewrite Forall_forall in F. destruct (neg_hits negs x r); [left; reflexivity | exact (F r I)].
  Qed.

  Lemma proc_runs_total x rs : Forall run_safe rs ->
    exists rs' ms, proc_runs (S (length rs + length rs)) n lim x rs 0 [] = Some (rs', ms) /\ Forall run_safe rs'.
  Proof.
    intros F.
    assert (NP : Forall (nopanic n lim x) rs) by (eapply Forall_impl; [|exact F]; intros r; apply safe_nopanic).
    destruct (proc_runs_all n lim x rs NP) as (rs' & ms & H & P & _).
    exists rs', ms. split; [exact H|]. eapply Permutation_Forall; [symmetry; exact P | apply keeps_safe; exact F].
  Qed.

  Lemma start_capture_safe ns r x r' : live_safe r -> start_capture lim ns r x = Some r' -> live_safe r'.
  Proof.
    intros [L K] H. unfold start_capture in H.
    destruct (s_type ns); try (inversion H; subst; split; assumption).
    destruct (s_self ns); [|inversion H; subst; split; assumption].
    destruct (s_eps_acc ns).
    - inversion H; subst. split; [exact L|]. apply ksafe_some. apply kc_count_safe. exact K.
    - pose proof (KSafe_new (s_post ns)) as Kn.
      destruct (N.leb (max_events lim) (k_next (kc_new (s_post ns)))).
      + inversion H; subst. split; [exact L | apply ksafe_some; exact Kn].
      + destruct (kc_extend_safe _ x (s_alias ns) Kn) as (k' & E & K'). rewrite E in H.
        inversion H; subst. split; [exact L | apply ksafe_some; exact K'].
  Qed.

  Lemma try_start_safe x c r : try_start n lim x c = Some r -> run_safe r.
  Proof.
    unfold try_start. destruct (nth_error n 0) as [st|]; [|discriminate].
    induction (s_trans st) as [|nx ts IH]; cbn [start_go]; [discriminate|].
    destruct (nth_error n nx) as [ns|] eqn:Hn; [|discriminate].
    destruct (matches_state ns x []); [|exact IH].
    intros H. right. eapply start_capture_safe; [|exact H].
    split; [cbn; apply nth_error_Some; congruence | intros k E; discriminate].
  Qed.

  Lemma backpressure_safe st mx runs r c runs' added c' :
    Forall run_safe runs -> run_safe r -> backpressure st mx runs r c = (runs', added, c') -> Forall run_safe runs'.
  Proof.
    intros F G. unfold backpressure. cbv zeta.
    assert (App : Forall run_safe (runs ++ [r])) by (apply Forall_app; split; [exact F | constructor; [exact G | constructor]]).
    assert (Sw : forall i, Forall run_safe (swap_remove runs i ++ [r])).
    { intros i. apply Forall_app. split; [|constructor; [exact G | constructor]].
      apply Forall_forall. intros y Iy. apply In_swap_remove in Iy. rewrite Forall_forall in F. auto. }
    destruct (Nat.ltb (length runs) mx); [intros H; inversion H; subst; exact App|].
    assert (Ev : forall (key : run -> nat) (b : bool),
      (match argmin key runs with
       | Some i => (swap_remove runs i ++ [r], true, mkCnt (c_created c) (c_dropped c) (c_evicted c + 1) (c_completed c))
       | None => if b then (runs ++ [r], true, c) else (runs, false, c)
       end) = (runs', added, c') -> Forall run_safe runs').
    { intros key b. destruct (argmin key runs); [intros H; inversion H; subst; apply Sw|].
      destruct b; intros H; inversion H; subst; assumption. }
    destruct st as [| | | |num den]; try (intros H; inversion H; subst; exact F); try exact (Ev _ true).
    destruct (N.ltb (c_dropped c) (c_created c * num / den)); [exact (Ev _ false) | intros H; inversion H; subst; exact F].
  Qed.
End NoPanic.

Definition parts_safe (n : nfa) (ps : list (pkey * list run)) : Prop := Forall (fun p => Forall (run_safe n) (snd p)) ps.
Definition engine_safe (n : nfa) (en : engine) : Prop := Forall (run_safe n) (e_runs en) /\ parts_safe n (e_parts en).

Lemma part_get_safe n k ps rs : parts_safe n ps -> part_get k ps = Some rs -> Forall (run_safe n) rs.
Proof.
  unfold parts_safe. induction ps as [|[k' rs'] ps IH]; cbn; intros F H; [discriminate|].
  inversion F; subst. destruct (pkey_eqb k' k); [inversion H; subst; assumption | auto].
Qed.
Lemma part_set_safe n k rs ps : parts_safe n ps -> Forall (run_safe n) rs -> parts_safe n (part_set k rs ps).
Proof.
  unfold parts_safe. induction ps as [|[k' rs'] ps IH]; cbn; intros F L.
  - constructor; [exact L | constructor].
  - inversion F; subst. destruct (pkey_eqb k' k); constructor; auto.
Qed.

Theorem process_total g en x : closed (g_nfa g) -> engine_safe (g_nfa g) en ->
  exists en' ms, process g en x = Some (en', ms) /\ engine_safe (g_nfa g) en'.
Proof.
  intros CL [Fr Fp]. unfold process.
  set (n := g_nfa g) in *.
  pose proof (check_negs_safe n (g_negs g) x _ Fr) as Fr0.
  assert (Fp0 : parts_safe n (map (fun '(k, rs) => (k, check_negs (g_negs g) x rs)) (e_parts en))).
  { unfold parts_safe in *. induction Fp as [|[k rs] ps Hp _ IH]; cbn; constructor; [cbn in *; apply check_negs_safe; exact Hp | exact IH]. }
  set (parts0 := map (fun '(k, rs) => (k, check_negs (g_negs g) x rs)) (e_parts en)) in *.
  destruct (g_part g) as [f|].
  - set (key := match get f x with Some v => KVal v | None => KMissing end).
    set (cur := match part_get key parts0 with Some rs => rs | None => [] end).
    assert (Fc : Forall (run_safe n) cur).
    { unfold cur. destruct (part_get key parts0) eqn:E; [eapply part_get_safe; eauto | constructor]. }
    destruct (proc_runs_total n (g_lim g) CL x cur Fc) as (rs1 & ms & H & F1). rewrite H.
    set (parts1 := match part_get key parts0 with Some _ => part_set key rs1 parts0 | None => parts0 end).
    assert (Fp1 : parts_safe n parts1).
    { unfold parts1. destruct (part_get key parts0); [apply part_set_safe; assumption | exact Fp0]. }
    destruct (try_start n (g_lim g) x (e_clock en)) as [r|] eqn:TS.
    + set (cur1 := match part_get key parts1 with Some rs => rs | None => [] end).
      assert (Fc1 : Forall (run_safe n) cur1).
      { unfold cur1. destruct (part_get key parts1) eqn:E; [eapply part_get_safe; eauto | constructor]. }
      destruct (backpressure (g_strategy g) (g_max_runs g) cur1 r (e_cnt en)) as [[rs2 added] c1] eqn:B.
      eexists. eexists. split; [reflexivity|]. split; cbn [e_runs e_parts]; [exact Fr0|].
      apply part_set_safe; [exact Fp1|].
      eapply backpressure_safe; [exact Fc1 | eapply try_start_safe; exact TS | exact B].
    + eexists. eexists. split; [reflexivity|]. split; cbn [e_runs e_parts]; assumption.
  - destruct (proc_runs_total n (g_lim g) CL x _ Fr0) as (rs1 & ms & H & F1). rewrite H.
    destruct (try_start n (g_lim g) x (e_clock en)) as [r|] eqn:TS.
    + destruct (backpressure (g_strategy g) (g_max_runs g) rs1 r (e_cnt en)) as [[rs2 added] c1] eqn:B.
      eexists. eexists. split; [reflexivity|]. split; cbn [e_runs e_parts]; [|exact Fp0].
      eapply backpressure_safe; [exact F1 | eapply try_start_safe; exact TS | exact B].
    + eexists. eexists. split; [reflexivity|]. split; cbn [e_runs e_parts]; assumption.
Qed.

Lemma engine0_safe n : engine_safe n engine0.
Proof. split; constructor. Qed.

Theorem stream_total g : closed (g_nfa g) -> forall evs en, engine_safe (g_nfa g) en ->
  exists en', run_engine g en evs = Some en'.
Proof.
  intros CL. induction evs as [|x evs IH]; intros en S; cbn [run_engine]; [eauto|].
  destruct (process_total g en x CL S) as (en' & ms & H & S'). rewrite H. apply IH. exact S'.
Qed.

(* ---- every compiled pattern is closed ---- *)
Definition tgt_ok (len : nat) (s : state) : Prop :=
  Forall (fun t => t < len) (s_trans s) /\ Forall (fun t => t < len) (s_eps s).

Lemma tgt_ok_mono a b s : a <= b -> tgt_ok a s -> tgt_ok b s.
Proof. intros L [T E]. split; (eapply Forall_impl; [|eassumption]); cbn; intros; lia. Qed.

Lemma closed_snoc n s : closed n -> tgt_ok (S (length n)) s -> closed (n ++ [s]).
Proof.
  intros C Hs q s' H. rewrite app_length. cbn [length]. replace (length n + 1) with (S (length n)) by lia.
  destruct (Nat.lt_ge_cases q (length n)) as [L|L].
  - rewrite nth_error_app1 in H by exact L. apply (tgt_ok_mono (length n)); [lia | exact (C q s' H)].
  - rewrite nth_error_app2 in H by exact L. destruct (q - length n) as [|d]; [|destruct d; discriminate].
    inversion H; subst. exact Hs.
Qed.

Lemma closed_upd n i f : closed n -> (forall s, tgt_ok (length n) s -> tgt_ok (length n) (f s)) -> closed (upd n i f).
Proof.
  intros C Hf q s H. rewrite upd_length'.
  destruct (Nat.eq_dec i q) as [->|Ne].
  - destruct (nth_error n q) as [s0|] eqn:E.
    + rewrite (nth_upd_same _ _ f _ E) in H. inversion H; subst. apply Hf. exact (C q s0 E).
    + assert (X : nth_error (upd n q f) q = None) by (apply nth_error_None; rewrite upd_length'; apply nth_error_None; exact E).
      congruence.
  - rewrite nth_upd_other in H by exact Ne. exact (C q s H).
Qed.

Lemma closed_add_trans n from to : closed n -> to < length n -> closed (add_trans n from to).
Proof.
  intros C L. unfold add_trans. apply closed_upd; [exact C|]. intros s [T E]. split; cbn; [|exact E].
  apply Forall_app. split; [exact T | constructor; [exact L | constructor]].
Qed.
Lemma closed_add_eps n from to : closed n -> to < length n -> closed (add_eps n from to).
Proof.
  intros C L. unfold add_eps. apply closed_upd; [exact C|]. intros s [T E]. split; cbn; [exact T|].
  apply Forall_app. split; [exact E | constructor; [exact L | constructor]].
Qed.

Lemma compile_step_closed n prev s : closed n -> closed (fst (compile_step n prev s)).
Proof.
  intros C. unfold compile_step.
  set (new0 := mkState TNormal (Some (st_ty s)) (st_pred s) (st_alias s) [] [] false None false).
  assert (C1 : closed (n ++ [new0])) by (apply closed_snoc; [exact C | split; constructor]).
  assert (L1 : length (n ++ [new0]) = S (length n)) by (rewrite app_length; cbn; lia).
  assert (C2 : closed (add_trans (n ++ [new0]) prev (length n))) by (apply closed_add_trans; [exact C1 | lia]).
  assert (L2 : length (add_trans (n ++ [new0]) prev (length n)) = S (length n)) by (unfold add_trans; rewrite upd_length'; exact L1).
  destruct (st_all s); [|exact C2]. cbn [fst].
  set (n2 := add_trans (n ++ [new0]) prev (length n)) in *.
  set (conv := fun x : state =>
    let postpone := match s_pred x with Some p => classify p (s_alias x) | None => false end in
    mkState TKleene (s_evt x) (if postpone then None else s_pred x) (s_alias x) (s_eps x) (s_trans x) true
            (if postpone then s_pred x else None) false).
  assert (C3 : closed (upd n2 (length n) conv)) by (apply closed_upd; [exact C2 | intros x H; exact H]).
  assert (L3 : length (upd n2 (length n) conv) = S (length n)) by (rewrite upd_length'; exact L2).
  assert (C4 : closed (add_eps (upd n2 (length n) conv) (length n) (length n))) by (apply closed_add_eps; [exact C3 | lia]).
  assert (L4 : length (add_eps (upd n2 (length n) conv) (length n) (length n)) = S (length n)) by (unfold add_eps; rewrite upd_length'; exact L3).
  apply closed_add_eps.
  - apply closed_snoc; [exact C4 | split; constructor].
  - rewrite app_length. cbn. lia.
Qed.

Lemma build_closed ss : closed (fst (build ss)).
Proof.
  induction ss as [|s ss IH] using rev_ind.
  - intros q s H. destruct q as [|q]; [|destruct q; discriminate]. inversion H; subst. split; constructor.
  - rewrite build_snoc. destruct (build ss) as [n prev]. cbn [fst] in IH. apply compile_step_closed. exact IH.
Qed.

Theorem compile_closed steps : closed (compile steps).
Proof.
  unfold compile. fold (build steps). pose proof (build_closed steps) as C.
  destruct (build steps) as [n last]. cbn [fst] in C.
  set (toacc := fun s => mkState TAccept (s_evt s) (s_pred s) (s_alias s) (s_eps s) (s_trans s) (s_self s) (s_post s) (s_eps_acc s)).
  assert (C' : closed (upd n last toacc)) by (apply closed_upd; [exact C | intros s H; exact H]).
  intros q s H. rewrite map_length. rewrite nth_error_map in H.
  destruct (nth_error (upd n last toacc) q) as [s0|] eqn:E; [|discriminate].
  inversion H; subst. exact (C' q s0 E).
Qed.
