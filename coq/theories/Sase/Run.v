(* Interpreter over event lists + rendering, for the correspondence check. *)
From Coq Require Import String.
From VP Require Import Base.Tactics Base.Render Zdd.Model Sase.Model.
Open Scope string_scope.

Definition str_ids (l : list N) : string := join "." (map str_of_N l).
Definition str_cap (c : captured) : string :=
  join "," (map (fun '(a, e) => str_of_N a ++ ":" ++ str_of_N (eid e)) c).
Definition str_match (m : mres) : string :=
  "M" ++ str_ids (m_stack m) ++ "|" ++ str_cap (m_cap m) ++ "|" ++
  match m_combo m with Some ix => "c" ++ str_ids ix | None => "-" end.

Definition str_event_result (g : config) (en : engine) (ms : list mres) : string :=
  join ";" (map str_match ms) ++ "#" ++ str_of_nat (active_runs g en) ++ "," ++
  str_of_N (c_created (e_cnt en)) ++ "," ++ str_of_N (c_dropped (e_cnt en)) ++ "," ++
  str_of_N (c_evicted (e_cnt en)) ++ "," ++ str_of_N (c_completed (e_cnt en)).

Fixpoint run_events (g : config) (en : engine) (evs : list event) (acc : list string) : option (list string) :=
  match evs with
  | [] => Some (rev acc)
  | e :: rest =>
    match process g en e with
    | None => None
    | Some (en', ms) => run_events g en' rest (str_event_result g en' ms :: acc)
    end
  end.

Definition sase_case (steps : list step) (negs : list (N * option pred)) (part : option N)
           (max_runs : nat) (st : strategy) (max_ev : N) (max_res : nat) (evs : list event) : string :=
  let g := mkCfg (compile steps) negs part max_runs st (mkLim max_ev max_res) in
  match run_events g engine0 evs [] with
  | None => "PANIC"
  | Some l => join "/" l ++ "@" ++ str_of_nat (length (g_nfa g))
  end.

(* the C02 reference evaluated on a case: stacks joined by ';' (the driver sorts them) *)
From VP Require Import Sase.Ref.
Definition ref_case (steps : list step) (negs : list (N * option pred)) (part : option N) (evs : list event) : string :=
  join ";" (map str_ids (ref_matches negs part steps evs)).
