(* C02, engine side, part 3: one call of process_shared is one step of the simultaneous
   reference simulation, for every engine state reachable on a sequence pattern without
   `all`; hence over any stream the engine emits, up to order, exactly the reference's
   matches ([ref_e]) -- provided the run limit is not reached (length evs <= max_runs). *)
From Coq Require Import Permutation.
From VP Require Import Base.Tactics Zdd.Model Sase.Model Sase.Ref Sase.ProofsBounds Sase.ProofsSound
  Sase.ProofsSoundEngine Sase.ProofsCompile Sase.ProofsKeyed Sase.ProofsExactRef Sase.ProofsExactLoop Sase.ProofsExactRun.

(* ---- the partition table ---- *)
Lemma part_get_none k (ps : list (pkey * list run)) : ~ In k (map fst ps) -> part_get k ps = None.
Proof.
  induction ps as [|[k' rs'] ps IH]; cbn; intros H; [reflexivity|].
  rewrite pkey_eqb_neq by (intros E; apply H; left; exact E). apply IH. intros I. apply H. right. exact I.
Qed.
Lemma part_set_none k rs (ps : list (pkey * list run)) : ~ In k (map fst ps) -> part_set k rs ps = ps ++ [(k, rs)].
Proof.
  induction ps as [|[k' rs'] ps IH]; cbn; intros H; [reflexivity|].
  rewrite pkey_eqb_neq by (intros E; apply H; left; exact E). f_equal. apply IH. intros I. apply H. right. exact I.
Qed.
Lemma part_get_at k (p1 : list (pkey * list run)) rs p2 : ~ In k (map fst p1) -> part_get k (p1 ++ (k, rs) :: p2) = Some rs.
Proof.
  induction p1 as [|[k' rs'] p1 IH]; cbn; intros H; [rewrite pkey_eqb_refl; reflexivity|].
  rewrite pkey_eqb_neq by (intros E; apply H; left; exact E). apply IH. intros I. apply H. right. exact I.
Qed.
Lemma part_set_at k (p1 : list (pkey * list run)) rs rs' p2 : ~ In k (map fst p1) ->
  part_set k rs' (p1 ++ (k, rs) :: p2) = p1 ++ (k, rs') :: p2.
Proof.
  induction p1 as [|[k' rs1] p1 IH]; cbn; intros H; [rewrite pkey_eqb_refl; reflexivity|].
  rewrite pkey_eqb_neq by (intros E; apply H; left; exact E). f_equal. apply IH. intros I. apply H. right. exact I.
Qed.
Lemma keys_split k (ps : list (pkey * list run)) : In k (map fst ps) ->
  exists p1 rs p2, ps = p1 ++ (k, rs) :: p2 /\ ~ In k (map fst p1).
Proof.
  induction ps as [|[k' rs'] ps IH]; cbn; intros H; [destruct H|].
  destruct (pkey_eqb k' k) eqn:E.
  - apply pkey_eqb_eq in E. subst k'. exists [], rs', ps. split; [reflexivity | intros []].
  - assert (Ne : k' <> k) by (intros ->; rewrite pkey_eqb_refl in E; discriminate).
    destruct H as [H|H]; [contradiction|].
    destruct (IH H) as (p1 & rs & p2 & -> & Ni). exists ((k', rs') :: p1), rs, p2. split; [reflexivity|].
    cbn. intros [X|X]; [contradiction | exact (Ni X)].
Qed.
Lemma key_dec k (ps : list (pkey * list run)) : In k (map fst ps) \/ ~ In k (map fst ps).
Proof.
  induction ps as [|[k' rs'] ps [IH|IH]]; cbn; [right; intros [] | left; right; exact IH |].
  destruct (pkey_eqb k' k) eqn:E.
  - apply pkey_eqb_eq in E. left. left. exact E.
  - right. intros [X|X]; [subst; rewrite pkey_eqb_refl in E; discriminate | exact (IH X)].
Qed.

Lemma NoDup_app_snoc {A} (l : list A) a : NoDup l -> ~ In a l -> NoDup (l ++ [a]).
Proof.
  induction 1 as [|b l Hb Hl IH]; intros Ni; cbn; [constructor; [intros [] | constructor]|].
  constructor.
  - intros I. apply in_app_or in I. destruct I as [I|[I|[]]]; [exact (Hb I) | subst; apply Ni; left; reflexivity].
  - apply IH. intros I. apply Ni. right. exact I.
Qed.

Lemma backpressure_room st mx runs r c : length runs < mx -> backpressure st mx runs r c = (runs ++ [r], true, c).
Proof. intros L. unfold backpressure. replace (Nat.ltb (length runs) mx) with true by (symmetry; apply Nat.ltb_lt; exact L). reflexivity. Qed.

Section Engine.
  Variable s0 : step.
  Variable rest0 : list step.
  Hypothesis NoAll : Forall (fun s => st_all s = false) (xsteps s0 rest0).
  Hypothesis Two : rest0 <> [].
  Variable negs : list (N * option pred).
  Variable part : option N.
  Variable mx : nat.
  Variable strat : strategy.
  Variable lim : limits.

  Local Notation n := (xnfa s0 rest0).
  Definition xcfg : config := mkCfg n negs part mx strat lim.
  Local Notation g := xcfg.
  Local Notation okr := (okrun s0 rest0).
  Local Notation ab := (absl s0 rest0).

  Definition absp (p : pkey * list run) : list (pkey * gstate) := ab (fst p) (snd p).
  Definition abs (en : engine) : list (pkey * gstate) := ab KMissing (e_runs en) ++ flat_map absp (e_parts en).

  Lemma absp_pair k rs : absp (k, rs) = ab k rs.
  Proof. reflexivity. Qed.
  Lemma ab_nil k : ab k [] = [].
  Proof. reflexivity. Qed.

  Record EInv (en : engine) : Prop := {
    ei_runs : Forall okr (e_runs en);
    ei_parts : Forall (fun p => Forall okr (snd p)) (e_parts en);
    ei_nodup : NoDup (map fst (e_parts en));
    ei_mode : match part with Some _ => e_runs en = [] | None => e_parts en = [] end;
    ei_len1 : length (e_runs en) <= e_clock en;
    ei_len2 : Forall (fun p => length (snd p) <= e_clock en) (e_parts en) }.

  Lemma EInv0 : EInv engine0.
  Proof. split; cbn; try constructor. destruct part; reflexivity. Qed.

  Section Event.
    Variable x : event.
    Definition cnp (p : pkey * list run) : pkey * list run := let '(k, rs) := p in (k, check_negs negs x rs).

    Lemma lives_app a b :
      lives (step_all negs part (a ++ b) x) = lives (step_all negs part a x) ++ lives (step_all negs part b x).
    Proof. unfold step_all, lives. rewrite map_app, flat_map_app. reflexivity. Qed.
    Lemma dones_app a b :
      dones (step_all negs part (a ++ b) x) = dones (step_all negs part a x) ++ dones (step_all negs part b x).
    Proof. unfold step_all, dones. rewrite map_app, flat_map_app. reflexivity. Qed.

    Lemma cnp_keys ps : map fst (map cnp ps) = map fst ps.
    Proof. induction ps as [|[k rs] ps IH]; cbn; [reflexivity | f_equal; exact IH]. Qed.

    Lemma passive_parts ps : ~ In (key_of part x) (map fst ps) ->
      flat_map absp (map cnp ps) = lives (step_all negs part (flat_map absp ps) x) /\
      dones (step_all negs part (flat_map absp ps) x) = [] /\
      (Forall (fun p => Forall okr (snd p)) ps -> Forall (fun p => Forall okr (snd p)) (map cnp ps)) /\
      (forall c, Forall (fun p => length (snd p) <= c) ps -> Forall (fun p => length (snd p) <= c) (map cnp ps)).
    Proof.
      induction ps as [|[k rs] ps IH]; intros Ni.
      - cbn. repeat split; auto.
      - cbn in Ni. assert (Nk : pkey_eqb (key_of part x) k = false) by (apply pkey_eqb_neq; intros E; apply Ni; left; symmetry; exact E).
        destruct (IH (fun I => Ni (or_intror I))) as (I1 & I2 & I3 & I4).
        destruct (part_passive s0 rest0 x negs part k rs Nk) as (P1 & P2 & P3).
        cbn [map flat_map cnp]. unfold absp at 1 3 5. cbn [fst snd].
        rewrite lives_app, dones_app, P1, P2, I1, I2.
        split; [reflexivity|]. split; [reflexivity|]. split.
        + intros F. inversion F; subst. constructor; [apply P3; assumption | apply I3; assumption].
        + intros c F. inversion F; subst. constructor; [cbn [snd] in *; rewrite check_negs_length; assumption | apply I4; assumption].
    Qed.

    Lemma news_absl clock :
      ab (key_of part x) (if step_ok s0 x [] then [push (mkRun 1 [] [] false None clock) x (st_alias s0)] else [])
      = news part s0 rest0 x.
    Proof.
      unfold news. destruct (step_ok s0 x []); [|reflexivity].
      exact (proj2 (new_run_abs s0 rest0 Two x part clock)).
    Qed.

    Theorem process_exact en : EInv en -> e_clock en < mx ->
      exists en' ms, process g en x = Some (en', ms) /\ EInv en' /\ e_clock en' = S (e_clock en) /\
        Permutation (abs en') (lives (step_all negs part (abs en) x) ++ news part s0 rest0 x) /\
        Permutation (map m_stack ms) (dones (step_all negs part (abs en) x)).
    Proof.
      intros [Ir Ip Ind Imode Il1 Il2] Lc.
      unfold process. cbn [g_negs g_part g_nfa g_lim g_strategy g_max_runs xcfg].
      fold cnp. unfold abs.
      destruct part as [f|] eqn:Pt.
      - (* partitioned: the unpartitioned list stays empty *)
        rewrite Imode in *. cbn [check_negs map app].
        assert (Kx : (match get f x with Some v => KVal v | None => KMissing end) = key_of part x) by (rewrite Pt; reflexivity).
        rewrite Kx. set (key := key_of part x) in *. rewrite <- Pt in *. clear Kx.
        destruct (key_dec key (e_parts en)) as [Ik|Nk].
        + destruct (keys_split key _ Ik) as (p1 & rs & p2 & Eps & N1).
          rewrite Eps in *.
          assert (N2 : ~ In key (map fst p2)).
          { rewrite map_app in Ind. cbn [map fst] in Ind. apply NoDup_remove_2 in Ind.
            intros I. apply Ind. apply in_or_app. right. exact I. }
          assert (N1' : ~ In key (map fst (map cnp p1))) by (rewrite cnp_keys; exact N1).
          rewrite map_app. cbn [map cnp]. rewrite (part_get_at _ _ _ _ N1').
          apply Forall_app in Ip. destruct Ip as [Ip1 Ip2]. inversion Ip2 as [|? ? Okrs Ip2']; subst. cbn [snd] in Okrs.
          apply Forall_app in Il2. destruct Il2 as [Il21 Il22]. inversion Il22 as [|? ? Lrs Il22']; subst. cbn [snd] in Lrs.
          destruct (part_active s0 rest0 NoAll lim x negs part rs Okrs) as (A1 & A2 & A3 & A4). fold key in A3, A4.
          destruct (proc_runs_all n lim x _ A1) as (rs1 & ms & H & P1 & P2).
          rewrite H. rewrite (part_set_at _ _ _ rs1 _ N1').
          pose proof (proc_runs_length _ _ _ _ _ _ _ _ _ H) as Lrs1. rewrite check_negs_length in Lrs1.
          destruct (passive_parts p1 N1) as (Q1 & Q2 & Q3 & Q4).
          destruct (passive_parts p2 N2) as (R1 & R2 & R3 & R4).
          assert (Ok1 : Forall okr rs1) by (eapply Permutation_Forall; [symmetry; exact P1 | exact A2]).
          rewrite (try_start_exact s0 rest0 NoAll lim x (e_clock en)).
          pose proof (news_absl (e_clock en)) as Nw. fold key in Nw.
          rewrite !flat_map_app. cbn [flat_map]. rewrite !absp_pair, !ab_nil. cbn [app].
          rewrite !lives_app, !dones_app, Q2, R2. cbn [app]. rewrite app_nil_r.
          assert (Pabs : forall tail, Permutation (flat_map absp (map cnp p1) ++ ab key (rs1 ++ tail) ++ flat_map absp (map cnp p2))
                    ((lives (step_all negs part (flat_map absp p1) x) ++ lives (step_all negs part (ab key rs) x) ++
                      lives (step_all negs part (flat_map absp p2) x)) ++ ab key tail)).
          { intros tail. rewrite Q1, R1, absl_app, <- A3, (absl_perm s0 rest0 key _ _ P1).
            rewrite <- !app_assoc. apply Permutation_app_head. apply Permutation_app_head. apply Permutation_app_comm. }
          assert (Pms : Permutation (map m_stack ms) (dones (step_all negs part (ab key rs) x))).
          { rewrite <- A4. apply Permutation_map. exact P2. }
          destruct (step_ok s0 x []) eqn:So.
          * rewrite (part_get_at _ _ _ _ N1'). rewrite backpressure_room by lia. cbv beta iota zeta.
            rewrite (part_set_at _ _ _ (rs1 ++ [_]) _ N1').
            eexists. eexists. split; [reflexivity|].
            destruct (new_run_abs s0 rest0 Two x part (e_clock en)) as [OkN _].
            split; [|split; [reflexivity|]; split; [|exact Pms]].
            -- split; cbn [e_runs e_parts e_clock].
               ++ constructor.
               ++ apply Forall_app. split; [apply Q3; exact Ip1|]. constructor; [|apply R3; exact Ip2'].
                  cbn [snd]. apply Forall_app. split; [exact Ok1 | constructor; [exact OkN | constructor]].
               ++ rewrite map_app in *. cbn [map fst] in *. rewrite !cnp_keys. exact Ind.
               ++ rewrite Pt. reflexivity.
               ++ cbn. lia.
               ++ apply Forall_app. split.
                  { apply Q4. eapply Forall_impl; [|exact Il21]. cbn. intros; lia. }
                  constructor; [cbn [snd]; rewrite app_length; cbn; lia|].
                  apply R4. eapply Forall_impl; [|exact Il22']. cbn. intros; lia.
            -- cbn [e_runs e_parts]. rewrite !flat_map_app. cbn [flat_map]. rewrite !absp_pair, !ab_nil. cbn [app].
               etransitivity; [apply Pabs|]. rewrite Nw. reflexivity.
          * eexists. eexists. split; [reflexivity|].
            split; [|split; [reflexivity|]; split; [|exact Pms]].
            -- split; cbn [e_runs e_parts e_clock].
               ++ constructor.
               ++ apply Forall_app. split; [apply Q3; exact Ip1|]. constructor; [exact Ok1 | apply R3; exact Ip2'].
               ++ rewrite map_app in *. cbn [map fst] in *. rewrite !cnp_keys. exact Ind.
               ++ rewrite Pt. reflexivity.
               ++ cbn. lia.
               ++ apply Forall_app. split.
                  { apply Q4. eapply Forall_impl; [|exact Il21]. cbn. intros; lia. }
                  constructor; [cbn [snd]; lia|].
                  apply R4. eapply Forall_impl; [|exact Il22']. cbn. intros; lia.
            -- cbn [e_runs e_parts]. rewrite !flat_map_app. cbn [flat_map]. rewrite !absp_pair, !ab_nil. cbn [app].
               pose proof (Pabs []) as Pa. rewrite app_nil_r in Pa. etransitivity; [exact Pa|]. rewrite <- Nw. reflexivity.
        + (* first event of this partition *)
          assert (Nk' : ~ In key (map fst (map cnp (e_parts en)))) by (rewrite cnp_keys; exact Nk).
          rewrite (part_get_none _ _ Nk'). cbn [length Nat.add proc_runs nth_error].
          destruct (passive_parts (e_parts en) Nk) as (Q1 & Q2 & Q3 & Q4).
          rewrite (try_start_exact s0 rest0 NoAll lim x (e_clock en)).
          pose proof (news_absl (e_clock en)) as Nw. fold key in Nw.
          rewrite !ab_nil. cbn [app]. rewrite Q2.
          destruct (step_ok s0 x []) eqn:So.
          * rewrite (part_get_none _ _ Nk'). rewrite backpressure_room by (cbn; lia). cbv beta iota zeta.
            rewrite (part_set_none _ _ _ Nk').
            eexists. eexists. split; [reflexivity|].
            destruct (new_run_abs s0 rest0 Two x part (e_clock en)) as [OkN _].
            split; [|split; [reflexivity|]; split; [|reflexivity]].
            -- split; cbn [e_runs e_parts e_clock].
               ++ constructor.
               ++ apply Forall_app. split; [apply Q3; exact Ip|]. constructor; [|constructor].
                  cbn [snd]. constructor; [exact OkN | constructor].
               ++ rewrite map_app, cnp_keys. cbn [map fst]. apply NoDup_app_snoc; assumption.
               ++ rewrite Pt. reflexivity.
               ++ cbn. lia.
               ++ apply Forall_app. split.
                  { apply Q4. eapply Forall_impl; [|exact Il2]. cbn. intros; lia. }
                  constructor; [cbn; lia | constructor].
            -- cbn [e_runs e_parts]. rewrite flat_map_app, Q1. cbn [flat_map]. rewrite !absp_pair, !ab_nil. cbn [app].
               rewrite app_nil_r, Nw. reflexivity.
          * eexists. eexists. split; [reflexivity|].
            split; [|split; [reflexivity|]; split; [|reflexivity]].
            -- split; cbn [e_runs e_parts e_clock].
               ++ constructor.
               ++ apply Q3; exact Ip.
               ++ rewrite cnp_keys. exact Ind.
               ++ rewrite Pt. reflexivity.
               ++ cbn. lia.
               ++ apply Q4. eapply Forall_impl; [|exact Il2]. cbn. intros; lia.
            -- cbn [e_runs e_parts]. rewrite !ab_nil. cbn [app]. rewrite Q1, <- Nw, ab_nil, app_nil_r. reflexivity.
      - (* not partitioned: the partition table stays empty *)
        rewrite Imode in *. cbn [map flat_map]. rewrite !app_nil_r.
        destruct (part_active s0 rest0 NoAll lim x negs part (e_runs en) Ir) as (A1 & A2 & A3 & A4).
        rewrite Pt in A3, A4. cbn [key_of] in A3, A4.
        destruct (proc_runs_all n lim x _ A1) as (rs1 & ms & H & P1 & P2).
        rewrite H.
        pose proof (proc_runs_length _ _ _ _ _ _ _ _ _ H) as Lrs1. rewrite check_negs_length in Lrs1.
        assert (Ok1 : Forall okr rs1) by (eapply Permutation_Forall; [symmetry; exact P1 | exact A2]).
        rewrite (try_start_exact s0 rest0 NoAll lim x (e_clock en)).
        pose proof (news_absl (e_clock en)) as Nw. rewrite Pt in Nw. cbn [key_of] in Nw.
        assert (Pms : Permutation (map m_stack ms) (dones (step_all negs None (ab KMissing (e_runs en)) x))).
        { rewrite <- A4. apply Permutation_map. exact P2. }
        destruct (step_ok s0 x []) eqn:So.
        + rewrite backpressure_room by lia. cbv beta iota zeta.
          eexists. eexists. split; [reflexivity|].
          destruct (new_run_abs s0 rest0 Two x None (e_clock en)) as [OkN _].
          split; [|split; [reflexivity|]; split; [|exact Pms]].
          * split; cbn [e_runs e_parts e_clock].
            -- apply Forall_app. split; [exact Ok1 | constructor; [exact OkN | constructor]].
            -- constructor.
            -- constructor.
            -- rewrite Pt. reflexivity.
            -- rewrite app_length. cbn. lia.
            -- constructor.
          * cbn [e_runs e_parts flat_map]. rewrite app_nil_r, absl_app, <- A3, (absl_perm s0 rest0 _ _ _ P1), Nw. reflexivity.
        + eexists. eexists. split; [reflexivity|].
          split; [|split; [reflexivity|]; split; [|exact Pms]].
          * split; cbn [e_runs e_parts e_clock].
            -- exact Ok1.
            -- constructor.
            -- constructor.
            -- rewrite Pt. reflexivity.
            -- lia.
            -- constructor.
          * cbn [e_runs e_parts flat_map]. rewrite !app_nil_r, <- Nw. cbn [absl flat_map]. rewrite app_nil_r, <- A3.
            apply absl_perm. exact P1.
    Qed.
  End Event.

  (* ---- whole streams ---- *)
  Theorem engine_follows : forall evs en, EInv en -> e_clock en + length evs <= mx ->
    exists l, engine_stacks g en evs = Some l /\
      Permutation l (flat_map (follow negs part evs) (abs en) ++ ref_e negs part s0 rest0 evs).
  Proof.
    induction evs as [|x evs IH]; intros en Inv Lc.
    - exists []. split; [reflexivity|]. cbn [ref_e]. rewrite app_nil_r.
      induction (abs en) as [|[k gs] l IHl]; [reflexivity | exact IHl].
    - cbn [length] in Lc.
      destruct (process_exact x en Inv ltac:(lia)) as (en' & ms & Hp & Inv' & Ck & Pa & Pm).
      destruct (IH en' Inv' ltac:(lia)) as (l & Hl & Pl).
      exists (map m_stack ms ++ l). split; [cbn [engine_stacks]; rewrite Hp, Hl; reflexivity|].
      rewrite Pl, Pm, Pa. cbn [ref_e]. rewrite flat_map_app, (follow_cons negs part x evs (abs en)).
      rewrite <- !app_assoc. apply Permutation_app_head. apply Permutation_app_head. apply Permutation_app_tail.
      unfold news. destruct (step_ok s0 x []); [|reflexivity]. cbn. rewrite app_nil_r. reflexivity.
  Qed.

  Theorem engine_exact evs : length evs <= mx ->
    exists l, engine_stacks g engine0 evs = Some l /\ Permutation l (ref_e negs part s0 rest0 evs).
  Proof.
    intros L. destruct (engine_follows evs engine0 EInv0 L) as (l & H & P). exists l. split; [exact H | exact P].
  Qed.
End Engine.
