(* C01, lifted from one run to the whole engine and to whole streams: every match
   emitted by [process] over any stream, any partitioning, any backpressure
   configuration is [genuine] for the stream consumed so far. *)
From VP Require Import Base.Tactics Zdd.Model Sase.Model Sase.ProofsBounds Sase.ProofsSound.

(* ---- list plumbing for the swap_remove loop ---- *)
Lemma In_swap_remove {A} (l : list A) i y : In y (swap_remove l i) -> In y l.
Proof.
  unfold swap_remove.
  destruct (skipn i l) as [|x tl] eqn:S; [auto|]. intros H.
  assert (E : l = firstn i l ++ x :: tl) by (rewrite <- S; symmetry; apply firstn_skipn).
  rewrite E. apply in_app_iff in H. apply in_app_iff. destruct H as [H|H]; [left; exact H|]. right. right.
  destruct (rev tl) as [|z rt] eqn:R; [destruct H|].
  apply in_rev. rewrite R. destruct H as [<-|H]; [left; reflexivity | right; apply in_rev in H; exact H].
Qed.

Lemma firstn_swap_remove {A} (l : list A) i : firstn i (swap_remove l i) = firstn i l.
Proof.
  unfold swap_remove. destruct (skipn i l) as [|x tl] eqn:S; [reflexivity|].
  assert (L : length (firstn i l) = i).
  { apply firstn_length_le. apply (f_equal (@length A)) in S. rewrite skipn_length in S. cbn in S. lia. }
  rewrite <- L at 1. rewrite firstn_app, Nat.sub_diag, firstn_all. cbn. rewrite app_nil_r. reflexivity.
Qed.

Lemma skipn_swap_remove_incl {A} (l : list A) i y :
  In y (skipn i (swap_remove l i)) -> In y (skipn (S i) l).
Proof.
  unfold swap_remove. destruct (skipn i l) as [|x tl] eqn:Sk.
  - rewrite Sk. intros [].
  - assert (L : length (firstn i l) = i).
    { apply firstn_length_le. apply (f_equal (@length A)) in Sk. rewrite skipn_length in Sk. cbn in Sk. lia. }
    assert (T : skipn (S i) l = tl).
    { clear L. revert i Sk. induction l as [|a l IHl]; intros [|i] Sk; cbn in *; try discriminate.
      - inversion Sk. reflexivity.
      - apply IHl. exact Sk. }
    rewrite T. rewrite <- L at 1. rewrite skipn_app, Nat.sub_diag, skipn_all. cbn.
    destruct (rev tl) as [|z rt] eqn:R; [intros []|].
    intros H. apply in_rev. rewrite R. destruct H as [<-|H]; [left; reflexivity | right; apply in_rev in H; exact H].
Qed.

Lemma firstn_upd {A} (l : list A) i x z : nth_error l i = Some x ->
  firstn (S i) (upd l i (fun _ => z)) = firstn i l ++ [z].
Proof.
  revert i. induction l as [|y l IH]; intros [|i] H; cbn in *; try discriminate; [reflexivity|].
  f_equal. apply IH. exact H.
Qed.
Lemma skipn_upd {A} (l : list A) i z : skipn (S i) (upd l i (fun _ => z)) = skipn (S i) l.
Proof. revert i. induction l as [|y l IH]; intros [|i]; cbn; auto. apply IH. Qed.
Lemma skipn_nth {A} (l : list A) i x : nth_error l i = Some x -> skipn i l = x :: skipn (S i) l.
Proof. revert i. induction l as [|y l IH]; intros [|i] H; cbn in *; try discriminate; [inversion H; reflexivity | apply IH; exact H]. Qed.

Section Engine.
  Variable g : config.
  Let n := g_nfa g.
  Let negs := g_negs g.
  Hypothesis FL : flags_ok n.

  Definition pre (P : list event) (x : event) (r : run) : Prop :=
    r_inval r = true \/ (live_ok n negs P r /\ nhit negs x (r_cap r) = false).

  Lemma pre_good P x r : pre P x r -> good n negs (P ++ [x]) r.
  Proof. intros [I|[L N]]; [left; exact I | right; apply skip_ok; assumption]. Qed.

  Lemma check_negs_pre P x runs : Forall (good n negs P) runs -> Forall (pre P x) (check_negs negs x runs).
  Proof.
    intros F. unfold check_negs. apply Forall_forall. intros r' I. apply in_map_iff in I. destruct I as (r & <- & I).
    rewrite Forall_forall in F. specialize (F r I).
    destruct (neg_hits negs x r) eqn:H; [left; reflexivity|].
    destruct F as [Iv|L]; [left; exact Iv | right; split; [exact L | exact H]].
  Qed.

  Lemma proc_runs_ok P x fuel : forall runs i acc runs' ms,
    Forall (good n negs (P ++ [x])) (firstn i runs) -> Forall (pre P x) (skipn i runs) ->
    Forall (genuine n negs (P ++ [x])) acc ->
    proc_runs fuel n (g_lim g) x runs i acc = Some (runs', ms) ->
    Forall (good n negs (P ++ [x])) runs' /\ Forall (genuine n negs (P ++ [x])) ms.
  Proof.
    induction fuel as [|f IH]; intros runs i acc runs' ms Fd Ft Fa H; [discriminate|].
    cbn [proc_runs] in H.
    destruct (nth_error runs i) as [r|] eqn:Hr.
    2:{ inversion H; subst. split; [|exact Fa].
        apply nth_error_None in Hr. rewrite firstn_all2 in Fd by exact Hr. exact Fd. }
    pose proof (skipn_nth _ _ _ Hr) as Sk. rewrite Sk in Ft. inversion Ft as [|? ? Pr Ft']; subst.
    assert (Drop : Forall (good n negs (P ++ [x])) (firstn i (swap_remove runs i)) /\
                   Forall (pre P x) (skipn i (swap_remove runs i))).
    { split; [rewrite firstn_swap_remove; exact Fd|].
      apply Forall_forall. intros y Iy. apply skipn_swap_remove_incl in Iy.
      rewrite Forall_forall in Ft'. apply Ft'. exact Iy. }
    assert (Keep : forall r', good n negs (P ++ [x]) r' ->
                   Forall (good n negs (P ++ [x])) (firstn (S i) (upd runs i (fun _ => r'))) /\
                   Forall (pre P x) (skipn (S i) (upd runs i (fun _ => r')))).
    { intros r' G. rewrite (firstn_upd _ _ _ _ Hr), skipn_upd. split; [|exact Ft'].
      apply Forall_app. split; [exact Fd | constructor; [exact G | constructor]]. }
    destruct (r_inval r) eqn:Iv.
    - destruct Drop as [D1 D2]. exact (IH _ _ _ _ _ D1 D2 Fa H).
    - destruct Pr as [Iv'|[L N]]; [congruence|].
      pose proof (advance_ok n negs P (g_lim g) r x FL Iv L N) as A.
      destruct (advance n (g_lim g) r x) as [r'|m|r' m|ms0|r'|]; cbn in A; [| | | | |discriminate].
      + destruct A as [I' L']. destruct (Keep r' (or_intror L')) as [K1 K2].
        exact (IH _ _ _ _ _ K1 K2 Fa H).
      + destruct Drop as [D1 D2].
        refine (IH _ _ _ _ _ D1 D2 _ H). apply Forall_app. split; [exact Fa | constructor; [exact A | constructor]].
      + destruct A as (I' & L' & Gm). destruct (Keep r' (or_intror L')) as [K1 K2].
        refine (IH _ _ _ _ _ K1 K2 _ H). apply Forall_app. split; [exact Fa | constructor; [exact Gm | constructor]].
      + destruct Drop as [D1 D2].
        refine (IH _ _ _ _ _ D1 D2 _ H). apply Forall_app. split; assumption.
      + destruct A as [I' L']. destruct (Keep r' (or_intror L')) as [K1 K2].
        exact (IH _ _ _ _ _ K1 K2 Fa H).
  Qed.

  Lemma start_go_ok P x c ts st0 : nth_error n 0 = Some st0 -> incl ts (s_trans st0) ->
    forall r, start_go n (g_lim g) x c ts = Some r -> live_ok n negs (P ++ [x]) r.
  Proof.
    intros H0. induction ts as [|nx ts IH]; intros I r H; cbn in H; [discriminate|].
    destruct (nth_error n nx) as [ns|] eqn:Hn; [|discriminate].
    destruct (matches_state ns x []) eqn:Hm.
    - apply start_capture_fields in H. destruct H as (Hc & Hs & Hp & _).
      unfold live_ok. rewrite Hc, Hs, Hp.
      split; [reflexivity|]. exists [x]. split; [exists P; reflexivity|].
      unfold push. cbn [r_stack r_cur app]. eapply d_start; eauto. apply I. left. reflexivity.
    - apply IH; [intros y Iy; apply I; right; exact Iy | exact H].
  Qed.

  Lemma try_start_ok P x c r : try_start n (g_lim g) x c = Some r -> live_ok n negs (P ++ [x]) r.
  Proof.
    unfold try_start. destruct (nth_error n 0) as [st0|] eqn:H0; [|discriminate].
    intros H. eapply start_go_ok; eauto using incl_refl.
  Qed.

  Lemma backpressure_good P st mx runs r c runs' added c' :
    Forall (good n negs P) runs -> good n negs P r ->
    backpressure st mx runs r c = (runs', added, c') -> Forall (good n negs P) runs'.
  Proof.
    intros F G. unfold backpressure. cbv zeta.
    assert (App : Forall (good n negs P) (runs ++ [r])) by (apply Forall_app; split; [exact F | constructor; [exact G | constructor]]).
    assert (Sw : forall i, Forall (good n negs P) (swap_remove runs i ++ [r])).
    { intros i. apply Forall_app. split; [|constructor; [exact G | constructor]].
      apply Forall_forall. intros y Iy. apply In_swap_remove in Iy. rewrite Forall_forall in F. auto. }
    destruct (Nat.ltb (length runs) mx); [intros H; inversion H; subst; exact App|].
    assert (Ev : forall (key : run -> nat) (b : bool),
      (match argmin key runs with
       | Some i => (swap_remove runs i ++ [r], true, mkCnt (c_created c) (c_dropped c) (c_evicted c + 1) (c_completed c))
       | None => if b then (runs ++ [r], true, c) else (runs, false, c)
       end) = (runs', added, c') -> Forall (good n negs P) runs').
    { intros key b. destruct (argmin key runs); [intros H; inversion H; subst; apply Sw|].
      destruct b; intros H; inversion H; subst; assumption. }
    destruct st as [| | | |num den]; try (intros H; inversion H; subst; exact F); try exact (Ev _ true).
    destruct (N.ltb (c_dropped c) (c_created c * num / den)); [exact (Ev _ false) | intros H; inversion H; subst; exact F].
  Qed.

  (* the engine invariant: every run of every partition is invalidated or has a derivation *)
  Definition all_good (P : list event) (en : engine) : Prop :=
    Forall (good n negs P) (e_runs en) /\ Forall (fun p => Forall (good n negs P) (snd p)) (e_parts en).

  Lemma part_get_F (Q : run -> Prop) k ps rs :
    Forall (fun p : pkey * list run => Forall Q (snd p)) ps -> part_get k ps = Some rs -> Forall Q rs.
  Proof.
    induction ps as [|[k' rs'] ps IH]; cbn; intros F H; [discriminate|].
    inversion F; subst. destruct (pkey_eqb k' k); [inversion H; subst; assumption | auto].
  Qed.
  Lemma part_set_F (Q : run -> Prop) k rs ps :
    Forall (fun p : pkey * list run => Forall Q (snd p)) ps -> Forall Q rs ->
    Forall (fun p : pkey * list run => Forall Q (snd p)) (part_set k rs ps).
  Proof.
    induction ps as [|[k' rs'] ps IH]; cbn; intros F L.
    - constructor; [exact L | constructor].
    - inversion F; subst. destruct (pkey_eqb k' k); constructor; auto.
  Qed.
  Lemma Forall_weaken {A} (Q R : A -> Prop) l : (forall a, Q a -> R a) -> Forall Q l -> Forall R l.
  Proof. intros I F. induction F; constructor; auto. Qed.

  Theorem process_sound P en x en' ms :
    all_good P en -> process g en x = Some (en', ms) ->
    all_good (P ++ [x]) en' /\ Forall (genuine n negs (P ++ [x])) ms.
  Proof.
    intros [Fr Fp] H. unfold process in H. fold n negs in H.
    pose proof (check_negs_pre P x _ Fr) as Pr0.
    assert (Pp0 : Forall (fun p : pkey * list run => Forall (pre P x) (snd p))
                    (map (fun '(k, rs) => (k, check_negs negs x rs)) (e_parts en))).
    { clear H. induction Fp as [|[k rs] ps Hk Fp IH]; cbn; constructor; auto. cbn. apply check_negs_pre. exact Hk. }
    set (parts0 := map (fun '(k, rs) => (k, check_negs negs x rs)) (e_parts en)) in *.
    assert (Gp0 : Forall (fun p : pkey * list run => Forall (good n negs (P ++ [x])) (snd p)) parts0).
    { eapply Forall_weaken; [|exact Pp0]. intros [k rs] Q. cbn in *. eapply Forall_weaken; [|exact Q]. apply pre_good. }
    assert (Gr0 : Forall (good n negs (P ++ [x])) (check_negs negs x (e_runs en))).
    { eapply Forall_weaken; [|exact Pr0]. apply pre_good. }
    destruct (g_part g) as [f|].
    - set (key := match get f x with Some v => KVal v | None => KMissing end) in *.
      set (cur := match part_get key parts0 with Some rs => rs | None => [] end) in *.
      assert (Pc : Forall (pre P x) cur).
      { unfold cur. destruct (part_get key parts0) eqn:E; [eapply part_get_F; eauto | constructor]. }
      destruct (proc_runs _ n (g_lim g) x cur 0 []) as [[rs1 ms1]|] eqn:PR; [|discriminate].
      destruct (proc_runs_ok P x _ cur 0 [] rs1 ms1 (Forall_nil _) Pc (Forall_nil _) PR) as [G1 Gm].
      set (parts1 := match part_get key parts0 with Some _ => part_set key rs1 parts0 | None => parts0 end) in *.
      assert (Gp1 : Forall (fun p : pkey * list run => Forall (good n negs (P ++ [x])) (snd p)) parts1).
      { unfold parts1. destruct (part_get key parts0); [apply part_set_F; assumption | exact Gp0]. }
      destruct (try_start n (g_lim g) x (e_clock en)) as [r|] eqn:TS.
      + set (cur1 := match part_get key parts1 with Some rs => rs | None => [] end) in *.
        assert (Gc1 : Forall (good n negs (P ++ [x])) cur1).
        { unfold cur1. destruct (part_get key parts1) eqn:E; [eapply part_get_F; eauto | constructor]. }
        destruct (backpressure (g_strategy g) (g_max_runs g) cur1 r (e_cnt en)) as [[rs2 added] c1] eqn:B.
        inversion H; subst. split; [|exact Gm]. split; cbn; [exact Gr0|].
        apply part_set_F; [exact Gp1|].
        eapply backpressure_good; [exact Gc1 | right; eapply try_start_ok; eauto | exact B].
      + inversion H; subst. split; [|exact Gm]. split; cbn; [exact Gr0 | exact Gp1].
    - destruct (proc_runs _ n (g_lim g) x (check_negs negs x (e_runs en)) 0 []) as [[rs1 ms1]|] eqn:PR; [|discriminate].
      destruct (proc_runs_ok P x _ (check_negs negs x (e_runs en)) 0 [] rs1 ms1 (Forall_nil _) Pr0 (Forall_nil _) PR) as [G1 Gm].
      destruct (try_start n (g_lim g) x (e_clock en)) as [r|] eqn:TS.
      + destruct (backpressure (g_strategy g) (g_max_runs g) rs1 r (e_cnt en)) as [[rs2 added] c1] eqn:B.
        inversion H; subst. split; [|exact Gm]. split; cbn; [|exact Gp0].
        eapply backpressure_good; [exact G1 | right; eapply try_start_ok; eauto | exact B].
      + inversion H; subst. split; [|exact Gm]. split; cbn; [exact G1 | exact Gp0].
  Qed.

  (* whole streams: all matches, tagged with the index of the event that triggered them *)
  Fixpoint run_collect (en : engine) (evs : list event) : option (list (list mres)) :=
    match evs with
    | [] => Some []
    | e :: rest =>
      match process g en e with
      | Some (en', ms) => match run_collect en' rest with Some l => Some (ms :: l) | None => None end
      | None => None
      end
    end.

  Lemma genuine_extend P Q m : genuine n negs P m -> genuine n negs (P ++ Q) m.
  Proof.
    intros (es & st & q & (pre0 & post & ->) & D & A & E). exists es, st, q. repeat split; auto.
    exists pre0, (post ++ Q). rewrite <- !app_assoc. reflexivity.
  Qed.

  Theorem stream_sound : forall evs P en out,
    all_good P en -> run_collect en evs = Some out ->
    Forall (Forall (genuine n negs (P ++ evs))) out.
  Proof.
    induction evs as [|e evs IH]; intros P en out G H; cbn in H.
    - inversion H; subst. constructor.
    - destruct (process g en e) as [[en1 ms]|] eqn:PR; [|discriminate].
      destruct (run_collect en1 evs) as [l|] eqn:RC; [|discriminate]. inversion H; subst.
      destruct (process_sound P en e en1 ms G PR) as [G1 Gm].
      constructor.
      + eapply Forall_weaken; [|exact Gm]. intros m X.
        replace (P ++ e :: evs) with ((P ++ [e]) ++ evs) by (rewrite <- app_assoc; reflexivity).
        apply genuine_extend. exact X.
      + replace (P ++ e :: evs) with ((P ++ [e]) ++ evs) by (rewrite <- app_assoc; reflexivity).
        eapply IH; eauto.
  Qed.

  Lemma all_good0 : all_good [] engine0.
  Proof. split; constructor. Qed.
End Engine.
