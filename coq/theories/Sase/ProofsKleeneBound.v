(* C05, "each partial match keeps at most the configured number of Kleene events": for a
   pattern with at most one `all` step and max_kleene_events >= 1, the Kleene capture of every
   live run of every reachable engine state has accumulated at most max_kleene_events events. *)
From VP Require Import Base.Tactics Zdd.Model Sase.Model Sase.ProofsBounds Sase.ProofsSound Sase.ProofsSoundEngine
  Sase.ProofsCompile Sase.ProofsPattern Sase.ProofsKleene Sase.ProofsKleeneEngine.

(* edges of the NFA lead forward *)
Definition forward (n : nfa) : Prop :=
  forall q s, nth_error n q = Some s -> Forall (fun t => q < t) (s_trans s).
Definition eforward (n : nfa) : Prop :=
  forall q s ep es_ nx, nth_error n q = Some s -> In ep (s_eps s) -> nth_error n ep = Some es_ ->
    In nx (s_trans es_) -> q < nx.

Section Bound.
  Variable n : nfa.
  Variable lim : limits.
  Hypothesis SK : single_kleene n.
  Hypothesis FW : forward n.
  Hypothesis EF : eforward n.
  Hypothesis M1 : (1 <= max_events lim)%N.

  (* the capture counts at most max_events events, and exists only at or after the Kleene state *)
  Definition kb (r : run) : Prop :=
    forall k, r_kc r = Some k ->
      (k_next k <= max_events lim)%N /\ forall q s, nth_error n q = Some s -> is_kleene s = true -> q <= r_cur r.

  Lemma extend_next k x al k' : kc_extend k x al = Some k' -> k_next k' = (k_next k + 1)%N.
  Proof.
    unfold kc_extend. destruct (k_needs k).
    - destruct (a_pwo _ _ _) as [[ar h]|]; [|discriminate]. intros H. inversion H; subst. reflexivity.
    - intros H. inversion H; subst. reflexivity.
  Qed.

  (* entering / staying in the Kleene state [ns] at index [nx]; [r1] is the run after the push *)
  Lemma kleene_step_kb (r1 : run) x nx ns :
    nth_error n nx = Some ns -> is_kleene ns = true -> r_cur r1 = nx ->
    (forall k, r_kc r1 = Some k -> (k_next k < max_events lim)%N) ->
    (if s_eps_acc ns then kb (set_kc r1 (Some (kc_count (r_kc r1) x (s_alias ns)))) else True) /\
    (forall k', kc_extend (kc_or_new r1 ns) x (s_alias ns) = Some k' -> kb (set_kc r1 (Some k'))).
  Proof.
    intros Hn Ks Hc Lt.
    assert (Pos : forall q s, nth_error n q = Some s -> is_kleene s = true -> q <= nx).
    { intros q s Hq Kq. rewrite (SK q nx s ns Hq Hn Kq Ks). lia. }
    split.
    - destruct (s_eps_acc ns); [|exact Logic.I]. intros k E. cbn in E. inversion E; subst. split.
      + unfold kc_count. cbn [k_next]. destruct (r_kc r1) as [k0|] eqn:E0; [specialize (Lt k0 eq_refl); lia | cbn; lia].
      + cbn [set_kc r_cur]. exact Pos.
    - intros k' Ex k E. cbn in E. inversion E; subst. split.
      + rewrite (extend_next _ _ _ _ Ex). unfold kc_or_new. destruct (r_kc r1) as [k0|] eqn:E0; [specialize (Lt k0 eq_refl); lia | cbn; lia].
      + cbn [set_kc r_cur]. exact Pos.
  Qed.

  Lemma kb_move r x nx al : kb r -> r_cur r <= nx -> kb (push (set_cur r nx) x al).
  Proof.
    intros K L k E. destruct (K k E) as [B P]. split; [exact B|].
    intros q s Hq Kq. specialize (P q s Hq Kq). cbn [push set_cur r_cur]. lia.
  Qed.

  Lemma complete_advQ r : advQ kb (complete_run r lim).
  Proof.
    unfold complete_run. destruct (r_kc r) as [k|]; [destruct (k_deferred k); [destruct (enumerate _ _ _ _)|]|]; exact Logic.I.
  Qed.

  Lemma enter_trans_kb r x nx ns : kb r -> nth_error n nx = Some ns -> r_cur r < nx -> advQ kb (enter_trans lim r x nx ns).
  Proof.
    intros K Hn Lt. unfold enter_trans.
    set (r1 := push (set_cur r nx) x (s_alias ns)).
    assert (K1 : kb r1) by (apply kb_move; [exact K | lia]).
    destruct (s_type ns) eqn:T; try (right; exact K1); [|apply complete_advQ].
    assert (Ks : is_kleene ns = true) by (unfold is_kleene; rewrite T; reflexivity).
    destruct (s_self ns); [|right; exact K1].
    (* the run comes from an earlier state: it has no capture yet *)
    assert (NoK : r_kc r1 = None).
    { destruct (r_kc r1) as [k|] eqn:E; [|reflexivity]. destruct (K k E) as [_ P]. specialize (P nx ns Hn Ks). lia. }
    assert (Lt1 : forall k, r_kc r1 = Some k -> (k_next k < max_events lim)%N) by (intros k E; congruence).
    destruct (kleene_step_kb r1 x nx ns Hn Ks eq_refl Lt1) as [A B].
    destruct (s_eps_acc ns).
    - right. exact A.
    - destruct (N.leb (max_events lim) (k_next (kc_or_new r1 ns))) eqn:Le.
      + right. intros k E. cbn in E. inversion E; subst. unfold kc_or_new. rewrite NoK. split; [cbn; lia|].
        intros q s Hq Kq. rewrite (SK q nx s ns Hq Hn Kq Ks). cbn. lia.
      + destruct (kc_extend (kc_or_new r1 ns) x (s_alias ns)) as [k'|] eqn:Ex; [|exact Logic.I].
        right. exact (B k' eq_refl).
  Qed.

  Lemma trans_go_kb r x cur : kb r -> nth_error n (r_cur r) = Some cur ->
    forall ts a, incl ts (s_trans cur) -> trans_go n lim r x ts = Some a -> advQ kb a.
  Proof.
    intros K Hc. induction ts as [|nx ts IH]; intros a I H; cbn in H; [discriminate|].
    destruct (nth_error n nx) as [ns|] eqn:Hn; [|inversion H; subst; exact Logic.I].
    destruct (matches_state ns x (r_cap r)).
    - inversion H; subst. apply enter_trans_kb; [exact K | exact Hn|].
      pose proof (FW _ _ Hc) as F. rewrite Forall_forall in F. apply F. apply I. left. reflexivity.
    - apply IH; [intros y Iy; apply I; right; exact Iy | exact H].
  Qed.

  Lemma eps_inner_kb r x lo : kb r -> r_cur r <= lo ->
    forall ts a, Forall (fun t => lo < t) ts -> eps_inner n lim r x ts = Some a -> advQ kb a.
  Proof.
    intros K L. induction ts as [|nx ts IH]; intros a F H; cbn in H; [discriminate|].
    inversion F as [|? ? Lnx Fts]; subst.
    destruct (nth_error n nx) as [ns|] eqn:Hn; [|inversion H; subst; exact Logic.I].
    destruct (matches_state ns x (r_cap r)); [|exact (IH a Fts H)].
    inversion H; subst. unfold enter_eps.
    assert (K1 : kb (push (set_cur r nx) x (s_alias ns))) by (apply kb_move; [exact K | lia]).
    destruct (s_type ns); try (right; exact K1). apply complete_advQ.
  Qed.

  Lemma eps_go_kb r x cur : kb r -> nth_error n (r_cur r) = Some cur ->
    forall es a, incl es (s_eps cur) -> eps_go n lim r x es = Some a -> advQ kb a.
  Proof.
    intros K Hc. induction es as [|ep es IH]; intros a I H; cbn in H; [discriminate|].
    destruct (nth_error n ep) as [es_|] eqn:Hn; [|inversion H; subst; exact Logic.I].
    assert (Fw : Forall (fun t => r_cur r < t) (s_trans es_)).
    { apply Forall_forall. intros nx Inx. exact (EF _ _ ep es_ nx Hc (I ep (or_introl eq_refl)) Hn Inx). }
    assert (Rec : forall a', eps_go n lim r x es = Some a' -> advQ kb a')
      by (intros a' Ha; apply (IH a'); [intros y Iy; apply I; right; exact Iy | exact Ha]).
    destruct (s_type es_);
      try (destruct (eps_inner n lim r x (s_trans es_)) as [a'|] eqn:Ei;
           [inversion H; subst; exact (eps_inner_kb r x (r_cur r) K (le_n _) _ _ Fw Ei) | exact (Rec a H)]).
    inversion H; subst. apply complete_advQ.
  Qed.

  Theorem advance_kb r x : r_inval r = false -> kb r -> advQ kb (advance n lim r x).
  Proof.
    intros _ K. unfold advance.
    destruct (nth_error n (r_cur r)) as [cur|] eqn:Hc; [|exact Logic.I].
    assert (Rest : advQ kb (match trans_go n lim r x (s_trans cur) with
                            | Some a => a
                            | None => match eps_go n lim r x (s_eps cur) with Some a => a | None => ANoMatch r end
                            end)).
    { destruct (trans_go n lim r x (s_trans cur)) as [a|] eqn:T; [exact (trans_go_kb r x cur K Hc _ _ (incl_refl _) T)|].
      destruct (eps_go n lim r x (s_eps cur)) as [a|] eqn:E; [exact (eps_go_kb r x cur K Hc _ _ (incl_refl _) E) | right; exact K]. }
    assert (NotK : is_kleene cur = false -> advQ kb
      (if is_kleene cur && s_self cur && matches_state cur x (r_cap r) then
         if (match r_kc r with Some k => N.leb (max_events lim) (k_next k) | None => false end) then AContinue r
         else
           let r1 := push r x (s_alias cur) in
           if s_eps_acc cur then
             let r2 := set_kc r1 (Some (kc_count (r_kc r1) x (s_alias cur))) in ACompleteContinue r2 (match_of r2)
           else
             match kc_extend (kc_or_new r1 cur) x (s_alias cur) with
             | Some k => AContinue (set_kc r1 (Some k))
             | None => APanic
             end
       else
         match trans_go n lim r x (s_trans cur) with
         | Some a => a
         | None => match eps_go n lim r x (s_eps cur) with Some a => a | None => ANoMatch r end
         end)).
    { intros E. rewrite E. cbn [andb]. exact Rest. }
    destruct (s_type cur) eqn:Ty;
      [apply NotK; unfold is_kleene; rewrite Ty; reflexivity
      |apply NotK; unfold is_kleene; rewrite Ty; reflexivity
      | |apply complete_advQ].
    assert (Ks : is_kleene cur = true) by (unfold is_kleene; rewrite Ty; reflexivity).
    rewrite Ks. cbn [andb].
    destruct (s_self cur && matches_state cur x (r_cap r)); [|exact Rest].
    destruct (match r_kc r with Some k => N.leb (max_events lim) (k_next k) | None => false end) eqn:G; [right; exact K|].
    cbv zeta. set (r1 := push r x (s_alias cur)).
    assert (Lt1 : forall k, r_kc r1 = Some k -> (k_next k < max_events lim)%N).
    { intros k E. change (r_kc r1) with (r_kc r) in E. rewrite E in G. apply N.leb_gt in G. exact G. }
    destruct (kleene_step_kb r1 x (r_cur r) cur Hc Ks eq_refl Lt1) as [A B].
    destruct (s_eps_acc cur).
    - right. exact A.
    - destruct (kc_extend (kc_or_new r1 cur) x (s_alias cur)) as [k'|] eqn:Ex; [|exact Logic.I].
      right. exact (B k' eq_refl).
  Qed.

  Lemma try_start_kb x c r : try_start n lim x c = Some r -> kb r.
  Proof.
    unfold try_start. destruct (nth_error n 0) as [st|]; [|discriminate].
    induction (s_trans st) as [|nx ts IH]; cbn [start_go]; [discriminate|].
    destruct (nth_error n nx) as [ns|] eqn:Hn; [|discriminate].
    destruct (matches_state ns x []); [|exact IH].
    unfold start_capture. set (r0 := push (mkRun nx [] [] false None c) x (s_alias ns)).
    assert (K0 : kb r0) by (intros k E; discriminate).
    destruct (s_type ns) eqn:T; try (intros H; inversion H; subst; exact K0).
    assert (Ks : is_kleene ns = true) by (unfold is_kleene; rewrite T; reflexivity).
    destruct (s_self ns); [|intros H; inversion H; subst; exact K0].
    assert (Lt0 : forall k, r_kc r0 = Some k -> (k_next k < max_events lim)%N) by (intros k E; discriminate).
    destruct (kleene_step_kb r0 x nx ns Hn Ks eq_refl Lt0) as [A B].
    destruct (s_eps_acc ns).
    - intros H. inversion H; subst. exact A.
    - destruct (N.leb (max_events lim) (k_next (kc_new (s_post ns)))).
      + intros H. inversion H; subst. intros k E. cbn in E. inversion E; subst. split; [cbn; lia|].
        intros q s Hq Kq. rewrite (SK q nx s ns Hq Hn Kq Ks). cbn. lia.
      + destruct (kc_extend (kc_new (s_post ns)) x (s_alias ns)) as [k'|] eqn:Ex; [|discriminate].
        intros H. inversion H; subst. exact (B k' Ex).
  Qed.

  Theorem process_kb g en x en' ms : g_nfa g = n -> g_lim g = lim ->
    eng_RQ kb en -> process g en x = Some (en', ms) -> eng_RQ kb en'.
  Proof.
    intros En El. exact (process_carry n lim kb advance_kb try_start_kb g en x en' ms En El).
  Qed.
End Bound.

(* ---- compiled patterns have forward edges ---- *)
Lemma nexts_forward ss j s : nth_error ss j = Some s -> Forall (fun t => sid ss j < t) (nexts ss j).
Proof.
  intros H. unfold nexts. destruct (Nat.ltb (S j) (length ss)); [|constructor].
  constructor; [|constructor]. rewrite (sid_S _ _ _ H). destruct (st_all s); lia.
Qed.

Lemma compile_state_cases steps q z : nth_error (compile steps) q = Some z ->
  (q = 0 /\ s_trans z = (match steps with [] => [] | _ => [1] end) /\ s_eps z = []) \/
  (exists j s, nth_error steps j = Some s /\ q = sid steps j /\
     s_trans z = (if st_all s then [] else nexts steps j) /\
     s_eps z = (if st_all s then [sid steps j; S (sid steps j)] else [])) \/
  (exists j s, nth_error steps j = Some s /\ st_all s = true /\ q = S (sid steps j) /\
     s_trans z = nexts steps j /\ s_eps z = []).
Proof.
  intros Hq.
  assert (Lq : q < off steps) by (rewrite <- compile_length; apply nth_error_Some; congruence).
  assert (Fields : forall s0, nth_error (fst (build steps)) q = Some s0 -> s_trans z = s_trans s0 /\ s_eps z = s_eps s0).
  { intros s0 H0. destruct (c_fields steps q s0 H0) as (z' & Hz' & _ & _ & _ & E4 & E5 & _).
    rewrite Hq in Hz'. inversion Hz'; subst z'. split; assumption. }
  destruct (cover steps q Lq) as [->|(j & s & Hj & [->|[Al ->]])].
  - left. destruct (Fields _ (lay_start _ _ (lay steps))) as [T E]. split; [reflexivity|]. split; [exact T | exact E].
  - right. left. destruct (lay_step _ _ (lay steps) j s Hj) as [A _]. destruct (Fields _ A) as [T E].
    exists j, s. split; [exact Hj|]. split; [reflexivity|]. unfold step_state in T, E.
    destruct (st_all s); cbn in T, E; split; assumption.
  - right. right. destruct (lay_step _ _ (lay steps) j s Hj) as [_ B]. destruct (Fields _ (B Al)) as [T E].
    exists j, s. split; [exact Hj|]. split; [exact Al|]. split; [reflexivity|]. split; assumption.
Qed.

Theorem compile_forward steps : forward (compile steps).
Proof.
  intros q z Hq. destruct (compile_state_cases steps q z Hq) as [(-> & T & _)|[(j & s & Hj & -> & T & _)|(j & s & Hj & Al & -> & T & _)]]; rewrite T.
  - destruct steps; [constructor | constructor; [lia | constructor]].
  - destruct (st_all s); [constructor | exact (nexts_forward steps j s Hj)].
  - pose proof (nexts_forward steps j s Hj) as F. unfold nexts in *.
    destruct (Nat.ltb (S j) (length steps)); [|constructor]. constructor; [|constructor].
    rewrite (sid_S _ _ _ Hj), Al. lia.
Qed.

Theorem compile_eforward steps : eforward (compile steps).
Proof.
  intros q z ep es_ nx Hq Iep Hep Inx.
  destruct (compile_state_cases steps q z Hq) as [(-> & _ & E)|[(j & s & Hj & -> & T & E)|(j & s & Hj & Al & -> & _ & E)]];
    rewrite E in Iep; try (destruct Iep; fail).
  destruct (st_all s) eqn:Al; [|destruct Iep].
  destruct Iep as [<-|[<-|[]]].
  - (* the Kleene state itself: an `all` step's state has no outgoing transition *)
    rewrite Hq in Hep. inversion Hep; subst es_. rewrite T in Inx. destruct Inx.
  - (* the continue state: its transitions are nexts j *)
    destruct (lay_step _ _ (lay steps) j s Hj) as [_ B]. specialize (B Al).
    destruct (c_fields steps _ _ B) as (z' & Hz' & _ & _ & _ & _ & E5 & _).
    rewrite Hep in Hz'. inversion Hz'; subst z'. rewrite E5 in Inx. cbn [cont_state s_trans] in Inx.
    pose proof (nexts_forward steps j s Hj) as F. rewrite Forall_forall in F. exact (F nx Inx).
Qed.

Theorem stream_kb g : single_kleene (g_nfa g) -> forward (g_nfa g) -> eforward (g_nfa g) -> (1 <= max_events (g_lim g))%N ->
  forall evs en en', eng_RQ (kb (g_nfa g) (g_lim g)) en -> run_engine g en evs = Some en' -> eng_RQ (kb (g_nfa g) (g_lim g)) en'.
Proof.
  intros SK FW EF M1. induction evs as [|x evs IH]; intros en en' I H; cbn [run_engine] in H; [inversion H; subst; exact I|].
  destruct (process g en x) as [[en1 ms]|] eqn:P; [|discriminate].
  exact (IH en1 en' (process_kb (g_nfa g) (g_lim g) SK FW EF M1 g en x en1 ms eq_refl eq_refl I P) H).
Qed.
