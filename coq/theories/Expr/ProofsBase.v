(* Induction principle for the nested expression type, and basic facts about the i64 primitives. *)
From VP Require Import Base.Tactics Expr.Syntax Expr.Float Expr.Gen_EvalTables Expr.Gen_FoldRules Expr.Model.
Local Open Scope Z_scope.

Ltac dm :=
  match goal with
  | |- context [match ?x with _ => _ end] => destruct x
  end.

Section Ind.
Variable O : fops.
Notation expr := (expr O).
Variable P : expr -> Prop.
Hypothesis HNull : P (ENull O).
Hypothesis HBool : forall b, P (EBool O b).
Hypothesis HInt : forall z, P (EInt O z).
Hypothesis HFloat : forall f, P (EFloat O f).
Hypothesis HStr : forall s, P (EStr O s).
Hypothesis HDur : forall z, P (EDur O z).
Hypothesis HTs : forall z, P (ETs O z).
Hypothesis HArr : forall l, Forall P l -> P (EArr O l).
Hypothesis HMap : forall l, Forall (fun kv : str * expr => P (snd kv)) l -> P (EMap O l).
Hypothesis HIdent : forall s, P (EIdent O s).
Hypothesis HBin : forall op l r, P l -> P r -> P (EBin O op l r).
Hypothesis HUn : forall op e, P e -> P (EUn O op e).
Hypothesis HMember : forall e m, P e -> P (EMember O e m).
Hypothesis HOptMember : forall e m, P e -> P (EOptMember O e m).
Hypothesis HIndex : forall e i, P e -> P i -> P (EIndex O e i).
Hypothesis HSlice : forall e s en, P e -> (forall x, s = Some x -> P x) -> (forall x, en = Some x -> P x) -> P (ESlice O e s en).
Hypothesis HCall : forall f args, P f -> Forall (fun a : option str * expr => P (snd a)) args -> P (ECall O f args).
Hypothesis HLambda : forall ps b, P b -> P (ELambda O ps b).
Hypothesis HIf : forall c t e, P c -> P t -> P e -> P (EIf O c t e).
Hypothesis HCoalesce : forall e d, P e -> P d -> P (ECoalesce O e d).
Hypothesis HRange : forall s e i, P s -> P e -> P (ERange O s e i).
Hypothesis HBlock : forall st r, Forall (fun x : str * expr * bool => P (snd (fst x))) st -> P r -> P (EBlock O st r).

Fixpoint expr_ind2 (e : expr) : P e :=
  match e with
  | ENull _ => HNull
  | EBool _ b => HBool b
  | EInt _ z => HInt z
  | EFloat _ f => HFloat f
  | EStr _ s => HStr s
  | EDur _ z => HDur z
  | ETs _ z => HTs z
  | EArr _ l =>
      HArr l ((fix go (l : list expr) : Forall P l :=
                 match l with [] => Forall_nil _ | x :: r => Forall_cons _ (expr_ind2 x) (go r) end) l)
  | EMap _ l =>
      HMap l ((fix go (l : list (str * expr)) : Forall (fun kv => P (snd kv)) l :=
                 match l with [] => Forall_nil _ | x :: r => Forall_cons _ (expr_ind2 (snd x)) (go r) end) l)
  | EIdent _ s => HIdent s
  | EBin _ op l r => HBin op l r (expr_ind2 l) (expr_ind2 r)
  | EUn _ op x => HUn op x (expr_ind2 x)
  | EMember _ x m => HMember x m (expr_ind2 x)
  | EOptMember _ x m => HOptMember x m (expr_ind2 x)
  | EIndex _ x i => HIndex x i (expr_ind2 x) (expr_ind2 i)
  | ESlice _ x s en =>
      HSlice x s en (expr_ind2 x)
        (match s as s0 return forall y, s0 = Some y -> P y with
         | Some y => fun z (H : Some y = Some z) => match H in _ = t return match t with Some w => P w | None => True end with eq_refl => expr_ind2 y end
         | None => fun z (H : None = Some z) => match H in _ = t return match t with Some w => P w | None => True end with eq_refl => I end
         end)
        (match en as s0 return forall y, s0 = Some y -> P y with
         | Some y => fun z (H : Some y = Some z) => match H in _ = t return match t with Some w => P w | None => True end with eq_refl => expr_ind2 y end
         | None => fun z (H : None = Some z) => match H in _ = t return match t with Some w => P w | None => True end with eq_refl => I end
         end)
  | ECall _ f args =>
      HCall f args (expr_ind2 f)
        ((fix go (l : list (option str * expr)) : Forall (fun a => P (snd a)) l :=
            match l with [] => Forall_nil _ | x :: r => Forall_cons _ (expr_ind2 (snd x)) (go r) end) args)
  | ELambda _ ps b => HLambda ps b (expr_ind2 b)
  | EIf _ c t el => HIf c t el (expr_ind2 c) (expr_ind2 t) (expr_ind2 el)
  | ECoalesce _ x d => HCoalesce x d (expr_ind2 x) (expr_ind2 d)
  | ERange _ s en i => HRange s en i (expr_ind2 s) (expr_ind2 en)
  | EBlock _ st r =>
      HBlock st r
        ((fix go (l : list (str * expr * bool)) : Forall (fun x => P (snd (fst x))) l :=
            match l with [] => Forall_nil _ | x :: r => Forall_cons _ (expr_ind2 (snd (fst x))) (go r) end) st)
        (expr_ind2 r)
  end.
End Ind.

(* ------------------------------------------------------------ i64 primitives *)
Lemma int2_checked_no_panic : forall o a b, int2 Checked o a b <> Panic.
Proof.
  intros o a b. unfold int2. destruct (iop2_math o a b); [destruct (iop2_ovf o a b z)|]; discriminate.
Qed.

Lemma int2_wrapping_no_panic : forall o a b, b <> 0 \/ (o <> IDiv /\ o <> IRem) -> int2 Wrapping o a b <> Panic.
Proof.
  intros o a b H. unfold int2, iop2_math.
  destruct o; try (match goal with |- context [if ?c then _ else _] => destruct c end; discriminate).
  - destruct (b =? 0) eqn:E; [|destruct (iop2_ovf IDiv a b (Z.quot a b)); discriminate].
    exfalso. apply Z.eqb_eq in E. destruct H as [H | [H _]]; congruence.
  - destruct (b =? 0) eqn:E; [|destruct (iop2_ovf IRem a b (Z.rem a b)); discriminate].
    exfalso. apply Z.eqb_eq in E. destruct H as [H | [_ H]]; congruence.
Qed.

Lemma int1_not_raw_no_panic : forall m o a, m <> Raw -> int1 m o a <> Panic.
Proof.
  intros m o a H. unfold int1. destruct (in_i64 (iop1_math o a)); [discriminate|].
  destruct m; try discriminate. congruence.
Qed.

Lemma lift_int_no_panic : forall O o, o <> Panic -> lift_int O o <> Panic.
Proof. intros O [z| |] H; cbn; congruence. Qed.
