(* Executable model of the expression evaluator and of the constant folder (C10, C11).
   Definitions only.

   Rust (crates/varpulis-runtime/src/engine/evaluator.rs)         model
   -----------------------------------------------------------   ----------------------------------
   varpulis_core::Value, impl PartialEq (float_eq, IndexMap ==)   value, value_eqb
   varpulis_core::ast::Expr / Arg                                 expr
   eval_expr_with_functions (no user functions, no bindings,      eval
     empty SequenceContext: the entry used by .where / .emit)
       Expr::Binary arithmetic arms  (Add Sub Mul Div Mod Pow)    arith  -- driven by Gen_EvalTables.arith_arms
       Expr::Binary Lt Le Gt Ge                                   ord_eval -- driven by Gen_EvalTables.ord_arms
       cmp_int_float (exact int/float order helper, if present)   cmp_int_float
       Expr::Binary Eq NotEq (Value == or values_eq)              values_eq -- Gen_EvalTables.eq_numeric
       Expr::Binary In NotIn And Or Xor, others                   eval_binop
       Expr::Unary                                                eval_unop -- Neg driven by Gen_EvalTables.neg_arms
       Timestamp literal arm / final `_ =>` arm                   Gen_EvalTables.timestamp_literal_handled / fallthrough
   eval_builtin_function                                          lookup_builtin + apply_builtin (abs by abs_int_mode)
   impl Display for Value                                         display
   Rust (crates/varpulis-parser/src/optimize.rs)
   fold_expr / fold_arg                                           fold (None = the folder panics)
   fold_binary / fold_unary                                       fold_binary / fold_unary -- driven by Gen_FoldRules
   (known-finding class of C10)                                   rule_okb / identity_fires: does a rule outside the
                                                                  whitelist of type-safe rule shapes fire while folding e

   Outcomes: Val v = Some(v), NoVal = None, Panic = a Rust panic or abort.  Where the Rust code
   uses an operation that can panic (slice / index assignment out of range, raw i64 arithmetic) the
   model uses a primitive that returns Panic in exactly those cases (slice_raw, set_raw, int2 Raw),
   guarded as the code guards it, so that "no panic" is a theorem and not a convention.

   Not modelled: user-defined functions and the statement interpreter (eval_stmt), the
   SequenceContext and bindings (empty at the .where/.emit call sites), eval_pattern_expr.
   Collection lengths are mathematical integers (`len as i64 + idx` cannot overflow for a Vec).
   Expr::Range / range() build the whole list (the property excludes range sizes). *)
From Coq Require Import String DecimalString Decimal.
From VP Require Import Base.Tactics Expr.Syntax Expr.Float Expr.Gen_EvalTables Expr.Gen_FoldRules.
Local Open Scope Z_scope.

(* ------------------------------------------------------------ generic helpers *)
Fixpoint assoc {A} (k : str) (l : list (str * A)) : option A :=
  match l with
  | [] => None
  | (k', v) :: r => if str_eqb k k' then Some v else assoc k r
  end.

(* IndexMap::insert: replace in place, or append *)
Fixpoint map_insert {A} (k : str) (v : A) (l : list (str * A)) : list (str * A) :=
  match l with
  | [] => [(k, v)]
  | (k', v') :: r => if str_eqb k k' then (k', v) :: r else (k', v') :: map_insert k v r
  end.

Definition zlen {A} (l : list A) : Z := Z.of_nat (length l).

(* `l[a..b]` with usize bounds: panics unless a <= b <= len *)
Definition slice_raw {A} (l : list A) (a b : Z) : outcome (list A) :=
  if (a <=? b) && (b <=? zlen l)
  then Val (firstn (Z.to_nat (b - a)) (skipn (Z.to_nat a) l))
  else Panic.

Fixpoint replace_nth {A} (n : nat) (x : A) (l : list A) : list A :=
  match l, n with
  | [], _ => []
  | _ :: r, O => x :: r
  | y :: r, S n' => y :: replace_nth n' x r
  end.
(* `l[i] = x` with a usize index: panics unless i < len *)
Definition set_raw {A} (l : list A) (i : Z) (x : A) : outcome (list A) :=
  if i <? zlen l then Val (replace_nth (Z.to_nat i) x l) else Panic.

(* `l.get(i)` with a usize index *)
Definition get_usize {A} (l : list A) (i : Z) : option A :=
  if i <? zlen l then nth_error l (Z.to_nat i) else None.

Definition zrange (s e : Z) : list Z :=
  map (fun i => s + Z.of_nat i) (seq 0 (Z.to_nat (e - s))).

Definition utf8_len1 (c : N) : Z :=
  if (c <? 128)%N then 1 else if (c <? 2048)%N then 2 else if (c <? 65536)%N then 3 else 4.
Definition utf8_len (s : str) : Z := fold_right (fun c acc => utf8_len1 c + acc) 0 s.

Fixpoint str_cmp (a b : str) : comparison :=
  match a, b with
  | [], [] => Eq
  | [], _ :: _ => Lt
  | _ :: _, [] => Gt
  | x :: a', y :: b' => match N.compare x y with Eq => str_cmp a' b' | c => c end
  end.

Fixpoint is_prefix (p s : str) : bool :=
  match p, s with
  | [], _ => true
  | _ :: _, [] => false
  | x :: p', y :: s' => N.eqb x y && is_prefix p' s'
  end.
Fixpoint is_infix (p s : str) : bool :=
  is_prefix p s || match s with [] => false | _ :: s' => is_infix p s' end.
Definition is_suffix (p s : str) : bool := is_prefix (rev p) (rev s).

(* i64::from_str: optional sign, at least one ASCII digit, must fit *)
Fixpoint parse_digits (l : str) (acc : Z) : option Z :=
  match l with
  | [] => Some acc
  | c :: r => if ((48 <=? c) && (c <=? 57))%N then parse_digits r (acc * 10 + (Z.of_N c - 48)) else None
  end.
Definition parse_i64 (s : str) : option Z :=
  let fin (neg : bool) (d : str) :=
    match d with
    | [] => None
    | _ => match parse_digits d 0 with
           | Some v => let v' := if neg then - v else v in if in_i64 v' then Some v' else None
           | None => None
           end
    end in
  match s with
  | 45%N :: r => fin true r
  | 43%N :: r => fin false r
  | _ => fin false s
  end.

Definition dec_str (z : Z) : str :=
  let digits := NilEmpty.string_of_uint (N.to_uint (Z.to_N (Z.abs z))) in
  (if z <? 0 then [45%N] else []) ++ str_of_string digits.

Definition lit (x : string) : str := str_of_string x.

(* ---------------------------------------------------- sound rule shapes (C10) *)
(* The fold rules that are sound whatever the operands are: both operands literal and the action
   computes what the evaluator computes (checked i64 operation, the evaluator's own Int ** Int
   formula, the float operation; float division only under the non-zero guard).  Every other rule
   -- in particular the type-blind identity rewrites `x * 0 -> 0`, `x * 1 -> x`, `x + 0 -> x`,
   `x - 0 -> x`, `x / 1 -> x` -- is outside this list. *)
Definition int_pair (op : binop) (o : iop2) : bool :=
  match op, o with Add, IAdd | Sub, ISub | Mul, IMul | Div, IDiv | Mod, IRem => true | _, _ => false end.
Definition float_rule (op : binop) (o : fop2) (g : fguard) : bool :=
  match op, o with
  | Add, FAdd | Sub, FSub | Mul, FMul => true
  | Div, FDiv => match g with FGRightFloatNZ => true | _ => false end
  | _, _ => false
  end.
Definition rule_okb (r : frule) : bool :=
  match fr_l r, fr_r r, fr_act r with
  | PIntAny, PIntAny, FAInt Checked o => int_pair (fr_op r) o
  | PIntAny, PIntAny, FAPowEval => binop_eqb (fr_op r) Pow
  | PFloatAny, PFloatAny, FAFloat o => float_rule (fr_op r) o (fr_g r)
  | _, _, _ => false
  end.
(* the eight identity rewrites of fold_binary's second pass (the known finding of C10) *)
Definition known_identity_rule (r : frule) : bool :=
  match fr_op r, fr_l r, fr_r r, fr_g r, fr_act r with
  | Mul, PAny, PIntLit 0, FGNone, FAConstInt 0        (* x * 0 -> 0 *)
  | Mul, PIntLit 0, PAny, FGNone, FAConstInt 0        (* 0 * x -> 0 *)
  | Mul, PAny, PIntLit 1, FGNone, FALeft              (* x * 1 -> x *)
  | Mul, PIntLit 1, PAny, FGNone, FARight             (* 1 * x -> x *)
  | Add, PAny, PIntLit 0, FGNone, FALeft              (* x + 0 -> x *)
  | Add, PIntLit 0, PAny, FGNone, FARight             (* 0 + x -> x *)
  | Sub, PAny, PIntLit 0, FGNone, FALeft              (* x - 0 -> x *)
  | Div, PAny, PIntLit 1, FGNone, FALeft => true      (* x / 1 -> x *)
  | _, _, _, _, _ => false
  end.
Definition urule_okb (r : unop * lpat * uaction) : bool :=
  match r with
  | (Neg, PIntAny, UAInt Checked) => true
  | (Neg, PFloatAny, UAFloat) => true
  | _ => false
  end.

Section Model.
Variable O : fops.
Notation F := (ft O).

(* ----------------------------------------------------------------- values *)
Inductive value :=
| VNull | VBool (b : bool) | VInt (z : Z) | VFloat (f : F) | VStr (s : str)
| VTs (z : Z) | VDur (z : Z) | VArr (l : list value) | VMap (m : list (str * value)).

(* varpulis-core value.rs float_eq *)
Definition float_eqb (a b : F) : bool :=
  if f_is_nan O a && f_is_nan O b then true
  else if f_is_zero O a && f_is_zero O b then true
  else f_eqb O a b.

(* impl PartialEq for Value; maps as IndexMap == (same length, same value under every key) *)
Fixpoint value_eqb (a b : value) {struct a} : bool :=
  match a, b with
  | VNull, VNull => true
  | VBool x, VBool y => Bool.eqb x y
  | VInt x, VInt y => Z.eqb x y
  | VFloat x, VFloat y => float_eqb x y
  | VStr x, VStr y => str_eqb x y
  | VTs x, VTs y => Z.eqb x y
  | VDur x, VDur y => Z.eqb x y
  | VArr x, VArr y =>
      (fix go (x y : list value) {struct x} : bool :=
         match x, y with
         | [], [] => true
         | u :: x', w :: y' => value_eqb u w && go x' y'
         | _, _ => false
         end) x y
  | VMap x, VMap y =>
      Nat.eqb (length x) (length y) &&
      (fix go (x : list (str * value)) : bool :=
         match x with
         | [] => true
         | (k, u) :: x' => match assoc k y with Some w => value_eqb u w | None => false end && go x'
         end) x
  | _, _ => false
  end.

Definition as_bool (v : value) : option bool := match v with VBool b => Some b | _ => None end.
Definition as_int (v : value) : option Z :=
  match v with VInt n => Some n | VFloat f => Some (f_to_i64 O f) | _ => None end.

(* ---------------------------------------------- parameters beyond floats *)
(* x_fdisplay: `format!("{}", f)` for an f64;  x_tsdisplay: chrono formatting of a timestamp
   x_trim / x_lower / x_upper / x_split / x_replace: the std string functions of the same name *)
Record xops := mkXops {
  x_fdisplay : F -> str;
  x_tsdisplay : Z -> str;
  x_trim : str -> str;
  x_lower : str -> str;
  x_upper : str -> str;
  x_split : str -> str -> list str;
  x_replace : str -> str -> str -> str;
}.
Variable X : xops.

(* impl Display for Value *)
Definition dur_display (d : Z) : str :=
  let secs := d / 1000000000 in
  if 86400 <=? secs then dec_str (secs / 86400) ++ lit "d"
  else if 3600 <=? secs then dec_str (secs / 3600) ++ lit "h"
  else if 60 <=? secs then dec_str (secs / 60) ++ lit "m"
  else if 0 <? secs then dec_str secs ++ lit "s"
  else if 0 <? d / 1000000 then dec_str (d / 1000000) ++ lit "ms"
  else dec_str (d / 1000) ++ lit "us".

Fixpoint display (v : value) : str :=
  match v with
  | VNull => lit "null"
  | VBool b => if b then lit "true" else lit "false"
  | VInt n => dec_str n
  | VFloat f => x_fdisplay X f
  | VStr s => [34%N] ++ s ++ [34%N]
  | VTs t => x_tsdisplay X t
  | VDur d => dur_display d
  | VArr l =>
      lit "[" ++ (fix go (first : bool) (l : list value) : str :=
                  match l with
                  | [] => []
                  | x :: r => (if first then [] else lit ", ") ++ display x ++ go false r
                  end) true l ++ lit "]"
  | VMap m =>
      lit "{" ++ (fix go (first : bool) (l : list (str * value)) : str :=
                  match l with
                  | [] => []
                  | (k, x) :: r => (if first then [] else lit ", ") ++ k ++ lit ": " ++ display x ++ go false r
                  end) true m ++ lit "}"
  end.

(* ------------------------------------------------------------ expressions *)
Inductive expr :=
| ENull | EBool (b : bool) | EInt (z : Z) | EFloat (f : F) | EStr (s : str) | EDur (z : Z) | ETs (z : Z)
| EArr (l : list expr)
| EMap (l : list (str * expr))
| EIdent (s : str)
| EBin (op : binop) (l r : expr)
| EUn (op : unop) (e : expr)
| EMember (e : expr) (m : str)
| EOptMember (e : expr) (m : str)
| EIndex (e i : expr)
| ESlice (e : expr) (s : option expr) (en : option expr)
| ECall (f : expr) (args : list (option str * expr))     (* Arg::Positional = (None, e); Arg::Named(n, e) *)
| ELambda (ps : list str) (body : expr)
| EIf (c t e : expr)
| ECoalesce (e d : expr)
| ERange (s e : expr) (incl : bool)
| EBlock (stmts : list (str * expr * bool)) (res : expr).

Record event := mkEvent { ev_type : str; ev_fields : list (str * value) }.

(* -------------------------------------------------------------- arithmetic *)
Definition ty_matches (t : aty) (v : value) : bool :=
  match t, v with AInt, VInt _ | AFloat, VFloat _ | AStr, VStr _ => true | _, _ => false end.
Definition guard_holds (g : aguard) (r : value) : bool :=
  match g, r with
  | GNone, _ => true
  | GIntNZ, VInt b => negb (b =? 0)
  | GFloatNZ, VFloat b => negb (f_is_zero O b)
  | _, _ => false
  end.

Definition lift_int (o : outcome Z) : outcome value :=
  match o with Val z => Val (VInt z) | NoVal => NoVal | Panic => Panic end.

Definition pow_int_int (a b : Z) : Z := f_to_i64 O (f_powi O (f_of_int O a) (wrap32 b)).

Definition apply_how (h : ahow) (l r : value) : outcome value :=
  match h, l, r with
  | HInt m o, VInt a, VInt b => lift_int (int2 m o a b)
  | HFloat o, VFloat a, VFloat b => Val (VFloat (fbin O o a b))
  | HCastL o, VInt a, VFloat b => Val (VFloat (fbin O o (f_of_int O a) b))
  | HCastR o, VFloat a, VInt b => Val (VFloat (fbin O o a (f_of_int O b)))
  | HConcat, VStr a, VStr b => Val (VStr (a ++ b))
  | HPowII, VInt a, VInt b => Val (VInt (pow_int_int a b))
  | HPowFI, VFloat a, VInt b => Val (VFloat (f_powi O a (wrap32 b)))
  | _, _, _ => NoVal
  end.

(* Rust match semantics: the first arm whose pattern and guard accept the operands *)
Fixpoint pick_arm (arms : list aarm) (op : binop) (l r : value) : outcome value :=
  match arms with
  | [] => NoVal
  | a :: rest =>
      if binop_eqb (aa_op a) op && ty_matches (aa_l a) l && ty_matches (aa_r a) r && guard_holds (aa_g a) r
      then apply_how (aa_how a) l r
      else pick_arm rest op l r
  end.
Definition arith (op : binop) (l r : value) : outcome value := pick_arm arith_arms op l r.

(* evaluator.rs cmp_int_float(i, f): exact order of an integer and a float
     if f.is_nan() { None } else if f >= 2^63 { Less } else if f < -2^63 { Greater }
     else { let t = f.trunc(); match i.cmp(&(t as i64)) { Equal => t.partial_cmp(&f), o => Some(o) } } *)
Definition f_rel (r : orel) (a b : F) : bool :=
  match f_cmp O a b with Some c => orel_test r c | None => false end.
Definition cmp_int_float (i : Z) (f : F) : option comparison :=
  if f_is_nan O f then None
  else if f_rel RGe f (f_of_int O 9223372036854775808) then Some Lt
  else if f_rel RLt f (f_of_int O (-9223372036854775808)) then Some Gt
  else let t := f_trunc O f in
       match Z.compare i (f_to_i64 O t) with
       | Eq => f_cmp O t f
       | c => Some c
       end.
Definition opt_test (r : orel) (o : option comparison) : bool :=
  match o with Some c => orel_test r c | None => false end.

Definition apply_ohow (h : ohow) (l r : value) : option bool :=
  match h, l, r with
  | ODirect rl, VInt a, VInt b => Some (orel_test rl (Z.compare a b))
  | ODirect rl, VFloat a, VFloat b => Some (f_rel rl a b)
  | ODirect rl, VStr a, VStr b => Some (orel_test rl (str_cmp a b))
  | OCastL rl, VInt a, VFloat b => Some (f_rel rl (f_of_int O a) b)
  | OCastR rl, VFloat a, VInt b => Some (f_rel rl a (f_of_int O b))
  | OExactL rl, VInt a, VFloat b => Some (opt_test rl (cmp_int_float a b))
  | OExactR rl, VFloat a, VInt b => Some (opt_test rl (cmp_int_float b a))
  | _, _, _ => None
  end.
Fixpoint pick_oarm (arms : list oarm) (op : binop) (l r : value) : option bool :=
  match arms with
  | [] => None
  | a :: rest =>
      if binop_eqb (oa_op a) op && ty_matches (oa_l a) l && ty_matches (oa_r a) r
      then apply_ohow (oa_how a) l r
      else pick_oarm rest op l r
  end.
Definition ord_eval (op : binop) (l r : value) : option bool := pick_oarm ord_arms op l r.

(* `==` / `!=`: plain Value equality, or evaluator.rs values_eq (Gen_EvalTables.eq_numeric):
     (Int i, Float f) | (Float f, Int i) => cmp_int_float(i, f) == Some(Equal),  _ => left == right *)
Definition values_eq (l r : value) : bool :=
  if eq_numeric
  then match l, r with
       | VInt i, VFloat f | VFloat f, VInt i => match cmp_int_float i f with Some Eq => true | _ => false end
       | _, _ => value_eqb l r
       end
  else value_eqb l r.

Definition contains_val (l : list value) (v : value) : bool := existsb (fun x => value_eqb x v) l.
Definition has_key {A} (k : str) (m : list (str * A)) : bool := match assoc k m with Some _ => true | None => false end.

Definition in_op (l r : value) : option bool :=
  match l, r with
  | v, VArr arr => Some (contains_val arr v)
  | VStr k, VMap m => Some (has_key k m)
  | VStr sub, VStr s => Some (is_infix sub s)
  | _, _ => None
  end.

Definition of_obool (o : option bool) : outcome value :=
  match o with Some b => Val (VBool b) | None => NoVal end.

Definition eval_binop (op : binop) (l r : value) : outcome value :=
  match op with
  | Add | Sub | Mul | Div | Mod | Pow => arith op l r
  | Eq_ => Val (VBool (values_eq l r))
  | NotEq => Val (VBool (negb (values_eq l r)))
  | Lt_ | Le | Gt_ | Ge => of_obool (ord_eval op l r)
  | In_ => of_obool (in_op l r)
  | NotIn => of_obool (option_map negb (in_op l r))
  | And => match as_bool l, as_bool r with Some a, Some b => Val (VBool (a && b)) | _, _ => NoVal end
  | Or => match as_bool l, as_bool r with Some a, Some b => Val (VBool (a || b)) | _, _ => NoVal end
  | Xor => match as_bool l, as_bool r with Some a, Some b => Val (VBool (xorb a b)) | _, _ => NoVal end
  | _ => NoVal
  end.

Fixpoint pick_neg (arms : list (aty * nhow)) (v : value) : outcome value :=
  match arms with
  | [] => NoVal
  | (t, h) :: rest =>
      if ty_matches t v
      then match h, v with
           | NInt m, VInt n => lift_int (int1 m INeg n)
           | NFloat, VFloat f => Val (VFloat (f_neg O f))
           | _, _ => NoVal
           end
      else pick_neg rest v
  end.

Definition eval_unop (op : unop) (v : value) : outcome value :=
  match op with
  | Neg => pick_neg neg_arms v
  | Not => match v with VBool b => Val (VBool (negb b)) | _ => NoVal end
  | BitNot => NoVal
  end.

(* ---------------------------------------------------------------- built-ins *)
Inductive builtin :=
| BAbs | BSqrt | BFloor | BCeil | BRound | BPow | BLog | BLog10 | BExp | BSin | BCos | BTan | BMin | BMax
| BLen | BFirst | BLast | BPush | BPop | BReverse | BSort | BContains | BKeys | BValues | BGet | BSet
| BRange | BSum | BAvg | BToString | BToInt | BToFloat | BTrim | BLower | BUpper | BSplit | BJoin
| BReplace | BStartsWith | BEndsWith | BSubstring | BTypeOf | BIsNull | BIsInt | BIsFloat | BIsString
| BIsBool | BIsArray | BIsMap.

Local Open Scope string_scope.
Definition model_builtins : list (string * arity * builtin) :=
  [ ("abs", ArAny, BAbs); ("sqrt", ArAny, BSqrt); ("floor", ArAny, BFloor); ("ceil", ArAny, BCeil);
    ("round", ArAny, BRound); ("pow", ArEq 2, BPow); ("log", ArAny, BLog); ("log10", ArAny, BLog10);
    ("exp", ArAny, BExp); ("sin", ArAny, BSin); ("cos", ArAny, BCos); ("tan", ArAny, BTan);
    ("min", ArEq 2, BMin); ("max", ArEq 2, BMax); ("len", ArAny, BLen); ("first", ArAny, BFirst);
    ("last", ArAny, BLast); ("push", ArEq 2, BPush); ("pop", ArAny, BPop); ("reverse", ArAny, BReverse);
    ("sort", ArAny, BSort); ("contains", ArEq 2, BContains); ("keys", ArAny, BKeys); ("values", ArAny, BValues);
    ("get", ArEq 2, BGet); ("set", ArEq 3, BSet); ("range", ArNonEmpty, BRange); ("sum", ArAny, BSum);
    ("avg", ArAny, BAvg); ("to_string", ArAny, BToString); ("to_int", ArAny, BToInt); ("to_float", ArAny, BToFloat);
    ("trim", ArAny, BTrim); ("lower", ArAny, BLower); ("lowercase", ArAny, BLower); ("upper", ArAny, BUpper);
    ("uppercase", ArAny, BUpper); ("split", ArEq 2, BSplit); ("join", ArEq 2, BJoin); ("replace", ArEq 3, BReplace);
    ("starts_with", ArEq 2, BStartsWith); ("ends_with", ArEq 2, BEndsWith); ("substring", ArGe 2, BSubstring);
    ("type_of", ArAny, BTypeOf); ("is_null", ArAny, BIsNull); ("is_int", ArAny, BIsInt); ("is_float", ArAny, BIsFloat);
    ("is_string", ArAny, BIsString); ("is_bool", ArAny, BIsBool); ("is_array", ArAny, BIsArray); ("is_map", ArAny, BIsMap) ].
Local Close Scope string_scope.

Definition arity_ok (a : arity) (n : nat) : bool :=
  match a with
  | ArAny => true
  | ArEq k => Nat.eqb n k
  | ArGe k => Nat.leb k n
  | ArNonEmpty => negb (Nat.eqb n 0)
  end.

Definition lookup_builtin (name : str) (nargs : nat) : option builtin :=
  match find (fun x => str_eqb name (str_of_string (fst (fst x))) && arity_ok (snd (fst x)) nargs) model_builtins with
  | Some x => Some (snd x)
  | None => None
  end.

(* the comparator of `sort`: numbers numerically (NaN last), then strings, then everything else;
   stable insertion sort (what a stable sort computes when the comparator is a total preorder) *)
Definition sort_rank (v : value) : Z :=
  match v with VInt _ | VFloat _ => 0 | VStr _ => 1 | _ => 2 end.
Definition bool_cmp (a b : bool) : comparison :=
  match a, b with false, true => Lt | true, false => Gt | _, _ => Eq end.
Definition sort_cmp (a b : value) : comparison :=
  match a, b with
  | VInt x, VInt y => Z.compare x y
  | VFloat x, VFloat y =>
      match f_cmp O x y with Some c => c | None => bool_cmp (f_is_nan O x) (f_is_nan O y) end
  | VInt x, VFloat y => match cmp_int_float x y with Some c => c | None => Lt end
  | VFloat x, VInt y => match cmp_int_float y x with Some c => CompOpp c | None => Gt end
  | VStr x, VStr y => str_cmp x y
  | _, _ => Z.compare (sort_rank a) (sort_rank b)
  end.
Fixpoint sort_insert (x : value) (l : list value) : list value :=
  match l with
  | [] => [x]
  | y :: r => match sort_cmp x y with Gt => y :: sort_insert x r | _ => x :: y :: r end
  end.
Definition sort_values (l : list value) : list value := fold_right sort_insert [] l.

Definition num_as_float (v : value) : option F :=
  match v with VInt n => Some (f_of_int O n) | VFloat f => Some f | _ => None end.
Fixpoint filter_nums (l : list value) : list F :=
  match l with
  | [] => []
  | v :: r => match num_as_float v with Some f => f :: filter_nums r | None => filter_nums r end
  end.
Definition fsum (l : list F) : F := fold_left (f_add O) l (f_sum0 O).

Definition type_name (v : value) : str :=
  match v with
  | VInt _ => lit "int" | VFloat _ => lit "float" | VStr _ => lit "string" | VBool _ => lit "bool"
  | VArr _ => lit "array" | VMap _ => lit "map" | VNull => lit "null" | VDur _ => lit "duration"
  | VTs _ => lit "timestamp"
  end.

Definition num1 (args : list value) (fi : Z -> outcome value) (ff : F -> outcome value) : outcome value :=
  match args with
  | VInt n :: _ => fi n
  | VFloat f :: _ => ff f
  | _ => NoVal
  end.
Definition float_fn (args : list value) (g : F -> F) : outcome value :=
  num1 args (fun n => Val (VFloat (g (f_of_int O n)))) (fun f => Val (VFloat (g f))).
Definition to_int_fn (args : list value) (g : F -> F) : outcome value :=
  num1 args (fun n => Val (VInt n)) (fun f => Val (VInt (f_to_i64 O (g f)))).
Definition is_fn (args : list value) (p : value -> bool) : outcome value :=
  match args with v :: _ => Val (VBool (p v)) | [] => NoVal end.

Definition apply_builtin (b : builtin) (args : list value) : outcome value :=
  match b with
  | BAbs => num1 args (fun n => lift_int (int1 abs_int_mode IAbs n)) (fun f => Val (VFloat (f_abs O f)))
  | BSqrt => float_fn args (f_sqrt O)
  | BFloor => to_int_fn args (f_floor O)
  | BCeil => to_int_fn args (f_ceil O)
  | BRound => to_int_fn args (f_round O)
  | BPow =>
      match args with
      | [VInt a; VInt b] => Val (VInt (pow_int_int a b))
      | [VFloat a; VInt b] => Val (VFloat (f_powi O a (wrap32 b)))
      | [VFloat a; VFloat b] => Val (VFloat (f_powf O a b))
      | [VInt a; VFloat b] => Val (VFloat (f_powf O (f_of_int O a) b))
      | _ => NoVal
      end
  | BLog => float_fn args (f_ln O)
  | BLog10 => float_fn args (f_log10 O)
  | BExp => float_fn args (f_exp O)
  | BSin => float_fn args (f_sin O)
  | BCos => float_fn args (f_cos O)
  | BTan => float_fn args (f_tan O)
  | BMin =>
      match args with
      | [VInt a; VInt b] => Val (VInt (Z.min a b))
      | [VFloat a; VFloat b] => Val (VFloat (f_min O a b))
      | [VInt a; VFloat b] => Val (VFloat (f_min O (f_of_int O a) b))
      | [VFloat a; VInt b] => Val (VFloat (f_min O a (f_of_int O b)))
      | _ => NoVal
      end
  | BMax =>
      match args with
      | [VInt a; VInt b] => Val (VInt (Z.max a b))
      | [VFloat a; VFloat b] => Val (VFloat (f_max O a b))
      | [VInt a; VFloat b] => Val (VFloat (f_max O (f_of_int O a) b))
      | [VFloat a; VInt b] => Val (VFloat (f_max O a (f_of_int O b)))
      | _ => NoVal
      end
  | BLen =>
      match args with
      | VStr s :: _ => Val (VInt (utf8_len s))
      | VArr a :: _ => Val (VInt (zlen a))
      | VMap m :: _ => Val (VInt (zlen m))
      | _ => NoVal
      end
  | BFirst => match args with VArr (x :: _) :: _ => Val x | _ => NoVal end
  | BLast => match args with VArr a :: _ => match rev a with x :: _ => Val x | [] => NoVal end | _ => NoVal end
  | BPush => match args with [VArr a; v] => Val (VArr (a ++ [v])) | _ => NoVal end
  | BPop => match args with VArr a :: _ => match rev a with _ :: r => Val (VArr (rev r)) | [] => NoVal end | _ => NoVal end
  | BReverse =>
      match args with
      | VArr a :: _ => Val (VArr (rev a))
      | VStr s :: _ => Val (VStr (rev s))
      | _ => NoVal
      end
  | BSort => match args with VArr a :: _ => Val (VArr (sort_values a)) | _ => NoVal end
  | BContains =>
      match args with
      | [VArr a; v] => Val (VBool (contains_val a v))
      | [VStr s; VStr sub] => Val (VBool (is_infix sub s))
      | [VMap m; VStr k] => Val (VBool (has_key k m))
      | _ => NoVal
      end
  | BKeys => match args with VMap m :: _ => Val (VArr (map (fun kv => VStr (fst kv)) m)) | _ => NoVal end
  | BValues => match args with VMap m :: _ => Val (VArr (map snd m)) | _ => NoVal end
  | BGet =>
      match args with
      | [VArr a; VInt i] => match get_usize a (as_usize i) with Some v => Val v | None => NoVal end
      | [VMap m; VStr k] => match assoc k m with Some v => Val v | None => NoVal end
      | _ => NoVal
      end
  | BSet =>
      match args with
      | [VArr a; VInt i; v] =>
          let idx := as_usize i in
          if idx <? zlen a
          then match set_raw a idx v with Val a' => Val (VArr a') | NoVal => NoVal | Panic => Panic end
          else Val (VArr a)
      | [VMap m; VStr k; v] => Val (VMap (map_insert k v m))
      | _ => NoVal
      end
  | BRange =>
      match args with
      | VInt s :: VInt e :: _ => Val (VArr (map VInt (zrange s e)))
      | _ :: _ :: _ => NoVal
      | [VInt n] => Val (VArr (map VInt (zrange 0 n)))
      | _ => NoVal
      end
  | BSum => match args with VArr a :: _ => Val (VFloat (fsum (filter_nums a))) | _ => NoVal end
  | BAvg =>
      match args with
      | VArr a :: _ =>
          let nums := filter_nums a in
          match nums with
          | [] => Val (VFloat (f_zero O))
          | _ => Val (VFloat (f_div O (fsum nums) (f_of_int O (zlen nums))))
          end
      | _ => NoVal
      end
  | BToString => match args with v :: _ => Val (VStr (display v)) | [] => NoVal end
  | BToInt =>
      match args with
      | VInt n :: _ => Val (VInt n)
      | VFloat f :: _ => Val (VInt (f_to_i64 O f))
      | VStr s :: _ => match parse_i64 s with Some n => Val (VInt n) | None => NoVal end
      | VBool b :: _ => Val (VInt (if b then 1 else 0))
      | _ => NoVal
      end
  | BToFloat =>
      match args with
      | VInt n :: _ => Val (VFloat (f_of_int O n))
      | VFloat f :: _ => Val (VFloat f)
      | VStr s :: _ => match f_parse O s with Some f => Val (VFloat f) | None => NoVal end
      | _ => NoVal
      end
  | BTrim => match args with VStr s :: _ => Val (VStr (x_trim X s)) | _ => NoVal end
  | BLower => match args with VStr s :: _ => Val (VStr (x_lower X s)) | _ => NoVal end
  | BUpper => match args with VStr s :: _ => Val (VStr (x_upper X s)) | _ => NoVal end
  | BSplit => match args with [VStr s; VStr sep] => Val (VArr (map VStr (x_split X s sep))) | _ => NoVal end
  | BJoin =>
      match args with
      | [VArr a; VStr sep] =>
          Val (VStr ((fix go (first : bool) (l : list value) : str :=
                        match l with
                        | [] => []
                        | x :: r => (if first then [] else sep) ++ display x ++ go false r
                        end) true a))
      | _ => NoVal
      end
  | BReplace => match args with [VStr s; VStr from; VStr to] => Val (VStr (x_replace X s from to)) | _ => NoVal end
  | BStartsWith => match args with [VStr s; VStr p] => Val (VBool (is_prefix p s)) | _ => NoVal end
  | BEndsWith => match args with [VStr s; VStr p] => Val (VBool (is_suffix p s)) | _ => NoVal end
  | BSubstring =>
      match args with
      | VStr s :: a1 :: rest =>
          match a1 with
          | VInt n =>
              let start := as_usize n in
              let oend := match rest with
                          | [] => Some (utf8_len s)          (* `s.len()`: the BYTE length *)
                          | VInt m :: _ => Some (as_usize m)
                          | _ :: _ => None
                          end in
              match oend with
              | None => NoVal
              | Some en =>
                  if (start <=? en) && (en <=? zlen s)
                  then match slice_raw s start en with Val r => Val (VStr r) | NoVal => NoVal | Panic => Panic end
                  else NoVal
              end
          | _ => NoVal
          end
      | _ => NoVal
      end
  | BTypeOf => match args with v :: _ => Val (VStr (type_name v)) | [] => NoVal end
  | BIsNull => is_fn args (fun v => match v with VNull => true | _ => false end)
  | BIsInt => is_fn args (fun v => match v with VInt _ => true | _ => false end)
  | BIsFloat => is_fn args (fun v => match v with VFloat _ => true | _ => false end)
  | BIsString => is_fn args (fun v => match v with VStr _ => true | _ => false end)
  | BIsBool => is_fn args (fun v => match v with VBool _ => true | _ => false end)
  | BIsArray => is_fn args (fun v => match v with VArr _ => true | _ => false end)
  | BIsMap => is_fn args (fun v => match v with VMap _ => true | _ => false end)
  end.

Definition eval_builtin (name : str) (args : list value) : outcome value :=
  match lookup_builtin name (length args) with
  | Some b => apply_builtin b args
  | None => NoVal
  end.

(* ----------------------------------------------------------------- eval *)
(* filter_map over sub-expressions: values in order, missing ones dropped, a panic propagates *)
Definition eval_filter {A} (ev : A -> outcome value) : list A -> outcome (list value) :=
  fix go (l : list A) : outcome (list value) :=
    match l with
    | [] => Val []
    | x :: r =>
        match ev x with
        | Panic => Panic
        | NoVal => go r
        | Val v => match go r with Val vs => Val (v :: vs) | NoVal => NoVal | Panic => Panic end
        end
    end.

(* Map literal: insert every entry that has a value, in order *)
Definition eval_entries {A} (ev : A -> outcome value) (key : A -> str) : list A -> list (str * value) -> outcome (list (str * value)) :=
  fix go (l : list A) (acc : list (str * value)) : outcome (list (str * value)) :=
    match l with
    | [] => Val acc
    | x :: r =>
        match ev x with
        | Panic => Panic
        | NoVal => go r acc
        | Val v => go r (map_insert (key x) v acc)
        end
    end.

(* `opt.as_ref().and_then(eval).and_then(as_int).unwrap_or(default)` *)
Definition opt_int (ev : expr -> outcome value) (o : option expr) (default : Z) : outcome Z :=
  match o with
  | None => Val default
  | Some x =>
      match ev x with
      | Panic => Panic
      | NoVal => Val default
      | Val v => Val (match as_int v with Some n => n | None => default end)
      end
  end.

Definition index_at {A} (l : list A) (idx : Z) : option A :=
  (* `if idx < 0 { (len as i64 + idx) as usize } else { idx as usize }` then `.get(..)` *)
  let j := if idx <? 0 then zlen l + idx else idx in
  if j <? 0 then None else get_usize l j.

Definition the_fallthrough : outcome value :=
  match fallthrough with FtNoValue => NoVal | FtSelfRecursion => Panic end.

Section Eval.
Variable env : event.

Definition lookup_field (name : str) : outcome value :=
  match assoc name (ev_fields env) with Some v => Val v | None => NoVal end.

Definition eval_member (obj : expr) (member : str) : outcome value :=
  match obj with
  | EIdent alias =>
      match assoc (alias ++ [46%N] ++ member) (ev_fields env) with
      | Some v => Val v
      | None =>
          match assoc (alias ++ [95%N] ++ member) (ev_fields env) with
          | Some v => Val v
          | None => if str_eqb alias (ev_type env) then lookup_field member else NoVal
          end
      end
  | _ => NoVal
  end.

Fixpoint eval (e : expr) : outcome value :=
  match e with
  | EIdent name => lookup_field name
  | ENull => Val VNull
  | EInt n => Val (VInt n)
  | EFloat f => Val (VFloat f)
  | EStr s => Val (VStr s)
  | EBool b => Val (VBool b)
  | EDur d => Val (VDur d)
  | ETs t => if timestamp_literal_handled then Val (VTs t) else the_fallthrough
  | EArr items =>
      match eval_filter eval items with
      | Val vs => Val (VArr vs) | NoVal => NoVal | Panic => Panic
      end
  | EMap entries =>
      match eval_entries (fun kv : str * expr => eval (snd kv)) fst entries [] with
      | Val m => Val (VMap m) | NoVal => NoVal | Panic => Panic
      end
  | EIndex c i =>
      match eval c with
      | Val cv =>
          match eval i with
          | Val iv =>
              match cv, iv with
              | VArr arr, VInt idx => match index_at arr idx with Some v => Val v | None => NoVal end
              | VMap m, VStr k => match assoc k m with Some v => Val v | None => NoVal end
              | VStr s, VInt idx => match index_at s idx with Some c => Val (VStr [c]) | None => NoVal end
              | _, _ => NoVal
              end
          | NoVal => NoVal | Panic => Panic
          end
      | NoVal => NoVal | Panic => Panic
      end
  | ESlice c s en =>
      match eval c with
      | Val cv =>
          match opt_int eval s 0 with
          | Val start_i =>
              let start := as_usize start_i in
              match cv with
              | VArr arr =>
                  match opt_int eval en (zlen arr) with
                  | Val end_i =>
                      let end_ := Z.min (as_usize end_i) (zlen arr) in
                      if start <=? end_
                      then match slice_raw arr start end_ with Val r => Val (VArr r) | NoVal => NoVal | Panic => Panic end
                      else Val (VArr [])
                  | NoVal => NoVal | Panic => Panic
                  end
              | VStr chars =>
                  match opt_int eval en (zlen chars) with
                  | Val end_i =>
                      let end_ := Z.min (as_usize end_i) (zlen chars) in
                      if start <=? end_
                      then match slice_raw chars start end_ with Val r => Val (VStr r) | NoVal => NoVal | Panic => Panic end
                      else Val (VStr [])
                  | NoVal => NoVal | Panic => Panic
                  end
              | _ => NoVal
              end
          | NoVal => NoVal | Panic => Panic
          end
      | NoVal => NoVal | Panic => Panic
      end
  | ERange s en incl =>
      match eval s with
      | Val sv =>
          match as_int sv with
          | Some a =>
              match eval en with
              | Val ev =>
                  match as_int ev with
                  | Some b => Val (VArr (map VInt (zrange a (if incl then b + 1 else b))))
                  | None => NoVal
                  end
              | NoVal => NoVal | Panic => Panic
              end
          | None => NoVal
          end
      | NoVal => NoVal | Panic => Panic
      end
  | ECoalesce x d =>
      match eval x with
      | Val VNull | NoVal => eval d
      | Val v => Val v
      | Panic => Panic
      end
  | EMember obj member => eval_member obj member
  | ECall f args =>
      match f with
      | EIdent name =>
          match eval_filter (fun a : option str * expr => eval (snd a)) args with
          | Val vs => eval_builtin name vs
          | NoVal => NoVal | Panic => Panic
          end
      | _ => NoVal
      end
  | EBin op l r =>
      match eval l with
      | Val lv =>
          match eval r with
          | Val rv => eval_binop op lv rv
          | NoVal => NoVal | Panic => Panic
          end
      | NoVal => NoVal | Panic => Panic
      end
  | EUn op x =>
      match eval x with
      | Val v => eval_unop op v
      | NoVal => NoVal | Panic => Panic
      end
  | EIf c t el =>
      match eval c with
      | Val cv => if match as_bool cv with Some true => true | _ => false end then eval t else eval el
      | NoVal => NoVal | Panic => Panic
      end
  | EOptMember _ _ | ELambda _ _ | EBlock _ _ => the_fallthrough
  end.
End Eval.

(* ------------------------------------------------------------------ fold *)
Definition pat_matches (p : lpat) (e : expr) : bool :=
  match p, e with
  | PAny, _ => true
  | PIntAny, EInt _ => true
  | PIntLit z, EInt a => a =? z
  | PFloatAny, EFloat _ => true
  | _, _ => false
  end.
Definition fguard_holds (g : fguard) (r : expr) : bool :=
  match g, r with
  | FGNone, _ => true
  | FGRightIntNZ, EInt b => negb (b =? 0)
  | FGRightFloatNZ, EFloat b => negb (f_is_zero O b)
  | FGRightIntNonNeg, EInt b => 0 <=? b
  | _, _ => false
  end.

(* i64::wrapping_pow(a, e) for a u32 exponent: square-and-multiply modulo 2^64 *)
Fixpoint wpow_loop (fuel : nat) (base e acc : Z) : Z :=
  match fuel with
  | 0%nat => acc
  | S k =>
      if e =? 0 then acc
      else wpow_loop k (wrap64 (base * base)) (e / 2) (if Z.odd e then wrap64 (acc * base) else acc)
  end.
Definition wrapping_pow (a e : Z) : Z := wpow_loop 33 a e 1.

(* result of an arm: FVal e = the arm produces the folded expression e; FNone = the arm produces
   nothing (a checked operation failed): go on after the match; FPanic = the folder panics *)
Definition act_apply (a : faction) (l r : expr) : outcome expr :=
  match a, l, r with
  | FAInt m o, EInt a, EInt b =>
      match int2 m o a b with Val z => Val (EInt z) | NoVal => NoVal | Panic => Panic end
  | FAPowWrapping, EInt a, EInt b => Val (EInt (wrapping_pow a (b mod 4294967296)))
  | FAPowEval, EInt a, EInt b => Val (EInt (pow_int_int a b))
  | FAFloat o, EFloat a, EFloat b => Val (EFloat (fbin O o a b))
  | FAConstInt z, _, _ => Val (EInt z)
  | FALeft, _, _ => Val l
  | FARight, _, _ => Val r
  | _, _, _ => NoVal
  end.

Fixpoint pick_rule (rules : list frule) (op : binop) (l r : expr) : outcome expr :=
  match rules with
  | [] => NoVal
  | ru :: rest =>
      if binop_eqb (fr_op ru) op && pat_matches (fr_l ru) l && pat_matches (fr_r ru) r && fguard_holds (fr_g ru) r
      then act_apply (fr_act ru) l r
      else pick_rule rest op l r
  end.

Fixpoint run_phases (phases : list (list frule)) (op : binop) (l r : expr) : option expr :=
  match phases with
  | [] => Some (EBin op l r)
  | ph :: rest =>
      match pick_rule ph op l r with
      | Val e => Some e
      | NoVal => run_phases rest op l r
      | Panic => None
      end
  end.
Definition fold_binary (op : binop) (l r : expr) : option expr := run_phases fold_phases op l r.

Fixpoint pick_urule (rules : list (unop * lpat * uaction)) (op : unop) (x : expr) : outcome expr :=
  match rules with
  | [] => NoVal
  | (o, p, a) :: rest =>
      if unop_eqb o op && pat_matches p x
      then match a, x with
           | UAInt m, EInt n => match int1 m INeg n with Val z => Val (EInt z) | NoVal => NoVal | Panic => Panic end
           | UAFloat, EFloat f => Val (EFloat (f_neg O f))
           | _, _ => NoVal
           end
      else pick_urule rest op x
  end.
Definition fold_unary (op : unop) (x : expr) : option expr :=
  match pick_urule fold_unary_rules op x with
  | Val e => Some e
  | NoVal => Some (EUn op x)
  | Panic => None
  end.

Definition obind {A B} (o : option A) (f : A -> option B) : option B :=
  match o with Some a => f a | None => None end.

Definition fold_list {A} (f : A -> option A) : list A -> option (list A) :=
  fix go (l : list A) : option (list A) :=
    match l with
    | [] => Some []
    | x :: r => obind (f x) (fun x' => obind (go r) (fun r' => Some (x' :: r')))
    end.

(* fold_expr: None = the folder panics (and `parse` reports an error instead of a program) *)
Fixpoint fold (e : expr) : option expr :=
  match e with
  | EBin op l r => obind (fold l) (fun l' => obind (fold r) (fun r' => fold_binary op l' r'))
  | EUn op x => obind (fold x) (fun x' => fold_unary op x')
  | ECall f args =>
      obind (fold f) (fun f' =>
      obind (fold_list (fun a : option str * expr => obind (fold (snd a)) (fun x' => Some (fst a, x'))) args)
            (fun args' => Some (ECall f' args')))
  | EArr items => obind (fold_list fold items) (fun items' => Some (EArr items'))
  | EMap entries =>
      obind (fold_list (fun kv : str * expr => obind (fold (snd kv)) (fun x' => Some (fst kv, x'))) entries)
            (fun entries' => Some (EMap entries'))
  | ELambda ps body => obind (fold body) (fun b' => Some (ELambda ps b'))
  | EIf c t el => obind (fold c) (fun c' => obind (fold t) (fun t' => obind (fold el) (fun el' => Some (EIf c' t' el'))))
  | ECoalesce x d => obind (fold x) (fun x' => obind (fold d) (fun d' => Some (ECoalesce x' d')))
  | ERange s en incl => obind (fold s) (fun s' => obind (fold en) (fun en' => Some (ERange s' en' incl)))
  | EMember x m => obind (fold x) (fun x' => Some (EMember x' m))
  | EOptMember x m => obind (fold x) (fun x' => Some (EOptMember x' m))
  | EIndex x i => obind (fold x) (fun x' => obind (fold i) (fun i' => Some (EIndex x' i')))
  | ESlice x s en =>
      obind (fold x) (fun x' =>
      obind (match s with None => Some None | Some y => obind (fold y) (fun y' => Some (Some y')) end) (fun s' =>
      obind (match en with None => Some None | Some y => obind (fold y) (fun y' => Some (Some y')) end) (fun en' =>
      Some (ESlice x' s' en'))))
  | EBlock stmts res =>
      obind (fold_list (fun st : str * expr * bool =>
                          obind (fold (snd (fst st))) (fun x' => Some (fst (fst st), x', snd st))) stmts)
            (fun stmts' => obind (fold res) (fun res' => Some (EBlock stmts' res')))
  | other => Some other
  end.

(* ------------------------------------------- known-finding class of C10 *)
(* rule_fires: while folding the node `l op r` (children already folded), is one of the eight
   known identity rewrites selected?  Mirrors run_phases: in each phase the first matching arm is
   selected; a whitelisted arm that produces nothing lets the next phase run.  (Every rule of the
   regenerated table must be whitelisted or one of the eight: ProofsC10.fold_phases_classified.) *)
Fixpoint select_rule (rules : list frule) (op : binop) (l r : expr) : option frule :=
  match rules with
  | [] => None
  | ru :: rest =>
      if binop_eqb (fr_op ru) op && pat_matches (fr_l ru) l && pat_matches (fr_r ru) r && fguard_holds (fr_g ru) r
      then Some ru
      else select_rule rest op l r
  end.
Fixpoint rule_fires (phases : list (list frule)) (op : binop) (l r : expr) : bool :=
  match phases with
  | [] => false
  | ph :: rest =>
      match select_rule ph op l r with
      | None => rule_fires rest op l r
      | Some ru =>
          if rule_okb ru
          then match act_apply (fr_act ru) l r with NoVal => rule_fires rest op l r | _ => false end
          else known_identity_rule ru
      end
  end.

(* identity_fires e: somewhere in e the folder applies one of the eight type-blind identity
   rewrites (`x * 0`, `0 * x`, `x * 1`, `1 * x`, `x + 0`, `0 + x`, `x - 0`, `x / 1` with x not an
   integer literal, after the sub-expressions have been folded) *)
Fixpoint identity_fires (e : expr) : bool :=
  match e with
  | EBin op l r =>
      identity_fires l || identity_fires r ||
      match fold l, fold r with
      | Some l', Some r' => rule_fires fold_phases op l' r'
      | _, _ => false
      end
  | EUn _ x => identity_fires x
  | ECall f args => identity_fires f || existsb (fun a : option str * expr => identity_fires (snd a)) args
  | EArr items => existsb identity_fires items
  | EMap entries => existsb (fun kv : str * expr => identity_fires (snd kv)) entries
  | ELambda _ body => identity_fires body
  | EIf c t el => identity_fires c || identity_fires t || identity_fires el
  | ECoalesce x d => identity_fires x || identity_fires d
  | ERange s en _ => identity_fires s || identity_fires en
  | EMember x _ => identity_fires x
  | EOptMember x _ => identity_fires x
  | EIndex x i => identity_fires x || identity_fires i
  | ESlice x s en =>
      identity_fires x || match s with Some y => identity_fires y | None => false end
                       || match en with Some y => identity_fires y | None => false end
  | EBlock stmts res => existsb (fun st : str * expr * bool => identity_fires (snd (fst st))) stmts || identity_fires res
  | _ => false
  end.

End Model.
