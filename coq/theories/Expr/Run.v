(* Interpreter + rendering for the correspondence checks of C10 / C11: instantiates the model with
   binary64 (B64.v) and gives executable versions of the string helpers.  One `Eval vm_compute in (run_case e events)` per case.

   Instance notes (what is exact on the generated inputs):
     x_trim     exact (Unicode White_Space)
     x_lower / x_upper   ASCII letters only; the generator uses ASCII plus caseless scalars
     x_split / x_replace exact (std semantics, including the empty pattern)
     x_fdisplay exact for NaN, infinities, zeros and integers of magnitude <= 2^53; otherwise the
                marker scalar 0x10FFFF (the driver then compares outcome kinds only)
     x_tsdisplay marker (chrono formatting is not modelled) *)
From Coq Require Import String.
From Flocq Require Import IEEE754.BinarySingleNaN.
From VP Require Import Base.Tactics Base.Render Expr.Syntax Expr.Float Expr.B64 Expr.Model.
Local Open Scope list_scope.
Local Open Scope Z_scope.

Definition V := value b64ops.
Definition E := expr b64ops.

(* ------------------------------------------------------------ string helpers *)
Definition marker : N := 1114111%N.

Definition is_ws (c : N) : bool :=
  ((9 <=? c) && (c <=? 13) || (c =? 32) || (c =? 133) || (c =? 160) || (c =? 5760)
   || ((8192 <=? c) && (c <=? 8202)) || (c =? 8232) || (c =? 8233) || (c =? 8239) || (c =? 8287) || (c =? 12288))%N.
Fixpoint drop_ws (s : str) : str := match s with c :: r => if is_ws c then drop_ws r else s | [] => [] end.
Definition trim (s : str) : str := rev (drop_ws (rev (drop_ws s))).
Definition lower1 (c : N) : N := if ((65 <=? c) && (c <=? 90))%N then (c + 32)%N else c.
Definition upper1 (c : N) : N := if ((97 <=? c) && (c <=? 122))%N then (c - 32)%N else c.

(* str::split(&str) / str::replace(&str, &str) for a non-empty pattern: scan left to right,
   `skip` = characters of a matched pattern still to drop *)
Fixpoint split_ne (sep : str) (s : str) (skip : nat) (cur : str) : list str :=
  match s with
  | [] => [rev cur]
  | c :: r =>
      match skip with
      | S k => split_ne sep r k cur
      | O => if is_prefix sep s then rev cur :: split_ne sep r (length sep - 1) [] else split_ne sep r O (c :: cur)
      end
  end.
Definition split (s sep : str) : list str :=
  match sep with
  | [] => [] :: map (fun c => [c]) s ++ [[]]
  | _ => split_ne sep s O []
  end.
Fixpoint replace_ne (from to : str) (s : str) (skip : nat) : str :=
  match s with
  | [] => []
  | c :: r =>
      match skip with
      | S k => replace_ne from to r k
      | O => if is_prefix from s then to ++ replace_ne from to r (length from - 1) else c :: replace_ne from to r O
      end
  end.
Definition replace (s from to : str) : str :=
  match from with
  | [] => to ++ flat_map (fun c => c :: to) s
  | _ => replace_ne from to s O
  end.

Definition fdisplay (f : f64) : str :=
  match f with
  | B754_nan => lit "NaN"
  | B754_infinity s => if s then lit "-inf" else lit "inf"
  | B754_zero s => if s then lit "-0" else lit "0"
  | B754_finite s m e _ =>
      let '(q, r, _) := mag_parts m e in
      if (r =? 0) && (q <=? 9007199254740992) then dec_str (if s then - q else q) else [marker]
  end.

Definition xb64 : xops b64ops :=
  {| x_fdisplay := (fdisplay : ft b64ops -> str);
     x_tsdisplay := fun _ => [marker];
     x_trim := trim;
     x_lower := map lower1;
     x_upper := map upper1;
     x_split := split;
     x_replace := replace |}.

Definition eval64 (env : event b64ops) (e : E) : outcome V := eval b64ops xb64 env e.
Definition fold64 (e : E) : option E := fold b64ops e.

(* ------------------------------------------------------- short constructors *)
Definition fb (bits : Z) : f64 := of_bits bits.
Definition vn : V := VNull _.
Definition vb (b : bool) : V := VBool _ b.
Definition vi (z : Z) : V := VInt _ z.
Definition vf (bits : Z) : V := VFloat b64ops (fb bits).
Definition vs (s : str) : V := VStr _ s.
Definition vt (z : Z) : V := VTs _ z.
Definition vd (z : Z) : V := VDur _ z.
Definition va (l : list V) : V := VArr _ l.
Definition vm (l : list (str * V)) : V := VMap _ l.
Definition ev (ty : str) (fs : list (str * V)) : event b64ops := mkEvent _ ty fs.

Definition en : E := ENull _.
Definition eb (b : bool) : E := EBool _ b.
Definition ei (z : Z) : E := EInt _ z.
Definition ef (bits : Z) : E := EFloat b64ops (fb bits).
Definition es (s : str) : E := EStr _ s.
Definition ed (z : Z) : E := EDur _ z.
Definition et (z : Z) : E := ETs _ z.
Definition ea (l : list E) : E := EArr _ l.
Definition em (l : list (str * E)) : E := EMap _ l.
Definition ex (s : str) : E := EIdent _ s.
Definition e2 (o : binop) (l r : E) : E := EBin _ o l r.
Definition e1 (o : unop) (x : E) : E := EUn _ o x.
Definition emem (x : E) (m : str) : E := EMember _ x m.
Definition eomem (x : E) (m : str) : E := EOptMember _ x m.
Definition eidx (x i : E) : E := EIndex _ x i.
Definition esl (x : E) (a b : option E) : E := ESlice _ x a b.
Definition ecall (f : E) (args : list (option str * E)) : E := ECall _ f args.
Definition elam (ps : list str) (b : E) : E := ELambda _ ps b.
Definition eif (c t e : E) : E := EIf _ c t e.
Definition eco (x d : E) : E := ECoalesce _ x d.
Definition erng (a b : E) (i : bool) : E := ERange _ a b i.
Definition eblk (st : list (str * E * bool)) (r : E) : E := EBlock _ st r.

(* ---------------------------------------------------------------- rendering *)
Local Open Scope string_scope.
Definition r_str (s : str) : string := str_list str_of_N s.

Fixpoint r_value (v : V) : string :=
  match v with
  | VNull _ => "n"
  | VBool _ b => "b" ++ str_of_bool b
  | VInt _ z => "i" ++ str_of_Z z
  | VFloat _ f => "f" ++ str_of_Z (to_bits f)
  | VStr _ s => "s" ++ r_str s
  | VTs _ z => "t" ++ str_of_Z z
  | VDur _ z => "d" ++ str_of_Z z
  | VArr _ l => "a[" ++ (fix go (l : list V) : string :=
                            match l with [] => "" | [x] => r_value x | x :: r => r_value x ++ "," ++ go r end) l ++ "]"
  | VMap _ m => "m[" ++ (fix go (l : list (str * V)) : string :=
                            match l with
                            | [] => ""
                            | [(k, x)] => r_str k ++ "=" ++ r_value x
                            | (k, x) :: r => r_str k ++ "=" ++ r_value x ++ "," ++ go r
                            end) m ++ "]"
  end.

Definition r_outcome (o : outcome V) : string :=
  match o with Val v => "V:" ++ r_value v | NoVal => "N" | Panic => "P" end.

Definition r_binop (o : binop) : string :=
  match o with
  | Add => "Add" | Sub => "Sub" | Mul => "Mul" | Div => "Div" | Mod => "Mod" | Pow => "Pow"
  | Eq_ => "Eq" | NotEq => "NotEq" | Lt_ => "Lt" | Le => "Le" | Gt_ => "Gt" | Ge => "Ge"
  | In_ => "In" | NotIn => "NotIn" | Is => "Is" | And => "And" | Or => "Or" | Xor => "Xor"
  | FollowedBy => "FollowedBy" | BitAnd => "BitAnd" | BitOr => "BitOr" | BitXor => "BitXor"
  | Shl => "Shl" | Shr => "Shr"
  end.
Definition r_unop (o : unop) : string := match o with Neg => "Neg" | Not => "Not" | BitNot => "BitNot" end.

Fixpoint r_expr (e : E) : string :=
  match e with
  | ENull _ => "n"
  | EBool _ b => "b" ++ str_of_bool b
  | EInt _ z => "i" ++ str_of_Z z
  | EFloat _ f => "f" ++ str_of_Z (to_bits f)
  | EStr _ s => "s" ++ r_str s
  | EDur _ z => "d" ++ str_of_Z z
  | ETs _ z => "t" ++ str_of_Z z
  | EArr _ l => "A[" ++ (fix go (l : list E) : string :=
                           match l with [] => "" | [x] => r_expr x | x :: r => r_expr x ++ "," ++ go r end) l ++ "]"
  | EMap _ l => "M[" ++ (fix go (l : list (str * E)) : string :=
                           match l with
                           | [] => ""
                           | [(k, x)] => r_str k ++ "=" ++ r_expr x
                           | (k, x) :: r => r_str k ++ "=" ++ r_expr x ++ "," ++ go r
                           end) l ++ "]"
  | EIdent _ s => "x" ++ r_str s
  | EBin _ o l r => "B(" ++ r_binop o ++ "," ++ r_expr l ++ "," ++ r_expr r ++ ")"
  | EUn _ o x => "U(" ++ r_unop o ++ "," ++ r_expr x ++ ")"
  | EMember _ x m => "Mem(" ++ r_expr x ++ "," ++ r_str m ++ ")"
  | EOptMember _ x m => "OMem(" ++ r_expr x ++ "," ++ r_str m ++ ")"
  | EIndex _ x i => "Idx(" ++ r_expr x ++ "," ++ r_expr i ++ ")"
  | ESlice _ x a b =>
      "Sl(" ++ r_expr x ++ "," ++ match a with Some y => r_expr y | None => "-" end ++ ","
            ++ match b with Some y => r_expr y | None => "-" end ++ ")"
  | ECall _ f args =>
      "C(" ++ r_expr f ++ ",[" ++ (fix go (l : list (option str * E)) : string :=
                                     match l with
                                     | [] => ""
                                     | (n, x) :: r =>
                                         match n with Some k => "N" ++ r_str k ++ ":" | None => "P:" end ++ r_expr x
                                         ++ match r with [] => "" | _ => "," ++ go r end
                                     end) args ++ "])"
  | ELambda _ ps b => "L(" ++ str_list r_str ps ++ "," ++ r_expr b ++ ")"
  | EIf _ c t el => "If(" ++ r_expr c ++ "," ++ r_expr t ++ "," ++ r_expr el ++ ")"
  | ECoalesce _ x d => "Co(" ++ r_expr x ++ "," ++ r_expr d ++ ")"
  | ERange _ a b i => "R(" ++ r_expr a ++ "," ++ r_expr b ++ "," ++ str_of_bool i ++ ")"
  | EBlock _ st r =>
      "Bl([" ++ (fix go (l : list (str * E * bool)) : string :=
                   match l with
                   | [] => ""
                   | (k, x, m) :: r =>
                       r_str k ++ ":" ++ r_expr x ++ ":" ++ str_of_bool m ++ match r with [] => "" | _ => "," ++ go r end
                   end) st ++ "]," ++ r_expr r ++ ")"
  end.

(* one case: is the expression in C10's known-finding class (identity_fires), the folded
   expression, then per event the outcome of the unfolded and of the folded expression:
   K<0|1>|F:<e'>|<u1>;<f1>|<u2>;<f2>...   (FP = the folder panics; then <fi> is "-") *)
Definition run_case (e : E) (events : list (event b64ops)) : string :=
  let fe := fold64 e in
  "K" ++ str_of_bool (identity_fires b64ops e) ++ "|" ++
  (match fe with Some e' => "F:" ++ r_expr e' | None => "FP" end) ++
  String.concat "" (map (fun env => "|" ++ r_outcome (eval64 env e) ++ ";" ++
                             match fe with Some e' => r_outcome (eval64 env e') | None => "-" end) events).
