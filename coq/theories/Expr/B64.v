(* IEEE-754 binary64 instance of the float interface (Expr/Float.v), from Flocq
   (BinarySingleNaN: one NaN; payload and sign of NaN are not modelled).  Everything computes under
   vm_compute.  Definitions only.  Used by Run.v for the correspondence check.

   Exact (bit-for-bit, NaN canonicalised): from_bits, `i as f64`, + - * /, %, sqrt, neg, abs, floor,
   ceil, round, `as i64`, powi (compiler-builtins __powidf2: square-and-multiply in f64), partial_cmp,
   ==, min/max.
   NOT modelled (placeholders; the driver never compares values that depend on them):
   powf, ln, log10, exp, sin, cos, tan, str::parse::<f64>. *)
From Coq Require Import ZArith Bool List.
From Flocq Require Import Core IEEE754.Binary IEEE754.Bits IEEE754.BinarySingleNaN.
From VP Require Import Base.Tactics Expr.Syntax Expr.Float.
Local Open Scope Z_scope.

Definition f64 := BinarySingleNaN.binary_float 53 1024.

Definition of_bits (z : Z) : f64 := Binary.B2BSN 53 1024 (b64_of_bits z).
Definition to_bits (a : f64) : Z :=
  bits_of_b64 (Binary.BSN2B 53 1024 (exist _ (Binary.B754_nan 53 1024 false 2251799813685248 eq_refl) eq_refl) a).

Definition of_int (z : Z) : f64 :=
  BinarySingleNaN.binary_normalize 53 1024 eq_refl eq_refl mode_NE z 0 false.

Definition b_add (a b : f64) : f64 := @BinarySingleNaN.Bplus 53 1024 eq_refl eq_refl mode_NE a b.
Definition b_sub (a b : f64) : f64 := @BinarySingleNaN.Bminus 53 1024 eq_refl eq_refl mode_NE a b.
Definition b_mul (a b : f64) : f64 := @BinarySingleNaN.Bmult 53 1024 eq_refl eq_refl mode_NE a b.
Definition b_div (a b : f64) : f64 := @BinarySingleNaN.Bdiv 53 1024 eq_refl eq_refl mode_NE a b.
Definition b_sqrt (a : f64) : f64 := @BinarySingleNaN.Bsqrt 53 1024 eq_refl eq_refl mode_NE a.
Definition b_neg (a : f64) : f64 := BinarySingleNaN.Bopp a.
Definition b_abs (a : f64) : f64 := BinarySingleNaN.Babs a.
Definition b_cmp (a b : f64) : option comparison := BinarySingleNaN.Bcompare a b.
Definition b_eqb (a b : f64) : bool := match b_cmp a b with Some Eq => true | _ => false end.
Definition b_is_nan (a : f64) : bool := BinarySingleNaN.is_nan a.
Definition b_is_zero (a : f64) : bool := match a with B754_zero _ => true | _ => false end.
Definition b_zero : f64 := B754_zero false.
Definition b_neg_zero : f64 := B754_zero true.
Definition b_one : f64 := of_int 1.

(* |a| = q + r / 2^k with 0 <= r < 2^k, for a finite nonzero a *)
Definition mag_parts (m : positive) (e : Z) : Z * Z * Z :=
  match e with
  | Z0 => (Zpos m, 0, 1)
  | Zpos p => (Zpos m * Z.pow_pos 2 p, 0, 1)
  | Zneg p => let d := Z.pow_pos 2 p in (Zpos m / d, Zpos m mod d, d)
  end.

Inductive rnd := RFloor | RCeil | RRound | RTrunc.
Definition round_Z (k : rnd) (s : bool) (m : positive) (e : Z) : Z :=
  let '(q, r, d) := mag_parts m e in
  let up := match k with
            | RTrunc => false
            | RFloor => s && negb (r =? 0)
            | RCeil => negb s && negb (r =? 0)
            | RRound => d <=? 2 * r          (* half away from zero *)
            end in
  let mag := if up then q + 1 else q in
  if s then - mag else mag.

(* floor / ceil / round as floats: exact (an integer of magnitude <= 2^53, or the argument itself);
   a zero result keeps the argument's sign, as in Rust *)
Definition b_rint (k : rnd) (a : f64) : f64 :=
  match a with
  | B754_finite s m e _ =>
      let z := round_Z k s m e in
      if z =? 0 then B754_zero s else of_int z
  | _ => a
  end.

(* `f as i64`: truncate, saturate, NaN -> 0 *)
Definition b_to_i64 (a : f64) : Z :=
  match a with
  | B754_nan => 0
  | B754_zero _ => 0
  | B754_infinity s => if s then i64_min else i64_max
  | B754_finite s m e _ => Z.max i64_min (Z.min i64_max (round_Z RTrunc s m e))
  end.

(* fmod: exact *)
Definition b_rem (x y : f64) : f64 :=
  match x, y with
  | B754_nan, _ | _, B754_nan => B754_nan
  | B754_infinity _, _ => B754_nan
  | _, B754_zero _ => B754_nan
  | B754_zero s, _ => B754_zero s
  | B754_finite _ _ _ _, B754_infinity _ => x
  | B754_finite sx mx ex _, B754_finite sy my ey _ =>
      let e := Z.min ex ey in
      let X := Zpos mx * 2 ^ (ex - e) in
      let Y := Zpos my * 2 ^ (ey - e) in
      let R := Z.rem X Y in
      if R =? 0 then B754_zero sx
      else BinarySingleNaN.binary_normalize 53 1024 eq_refl eq_refl mode_NE (if sx then - R else R) e false
  end.

(* compiler-builtins float/pow.rs: fn pow(a, b: i32) *)
Fixpoint powi_loop (fuel : nat) (a : f64) (pow : Z) (mul : f64) : f64 :=
  match fuel with
  | O => mul
  | S k =>
      let mul' := if Z.odd pow then b_mul mul a else mul in
      let pow' := pow / 2 in
      if pow' =? 0 then mul' else powi_loop k (b_mul a a) pow' mul'
  end.
Definition b_powi (a : f64) (n : Z) : f64 :=
  let r := powi_loop 40 a (Z.abs n) b_one in
  if n <? 0 then b_div b_one r else r.

(* f64::min / f64::max (minnum / maxnum): a NaN operand is ignored *)
Definition b_min (a b : f64) : f64 :=
  if b_is_nan a then b else if b_is_nan b then a
  else match b_cmp a b with Some Lt => a | Some Gt => b | _ => if b_is_zero a && b_is_zero b then (match a with B754_zero true => a | _ => b end) else a end.
Definition b_max (a b : f64) : f64 :=
  if b_is_nan a then b else if b_is_nan b then a
  else match b_cmp a b with Some Gt => a | Some Lt => b | _ => if b_is_zero a && b_is_zero b then (match a with B754_zero false => a | _ => b end) else a end.

Definition b64ops : fops :=
  {| ft := f64;
     f_of_int := of_int;
     f_to_i64 := b_to_i64;
     f_add := b_add; f_sub := b_sub; f_mul := b_mul; f_div := b_div; f_rem := b_rem;
     f_powf := fun _ _ => B754_nan;                (* not modelled *)
     f_powi := b_powi;
     f_neg := b_neg; f_abs := b_abs; f_sqrt := b_sqrt;
     f_floor := b_rint RFloor; f_ceil := b_rint RCeil; f_round := b_rint RRound; f_trunc := b_rint RTrunc;
     f_ln := fun _ => B754_nan; f_log10 := fun _ => B754_nan; f_exp := fun _ => B754_nan;   (* not modelled *)
     f_sin := fun _ => B754_nan; f_cos := fun _ => B754_nan; f_tan := fun _ => B754_nan;    (* not modelled *)
     f_min := b_min; f_max := b_max;
     f_is_zero := b_is_zero;
     f_is_nan := b_is_nan;
     f_eqb := b_eqb;
     f_cmp := b_cmp;
     f_zero := b_zero;
     f_sum0 := b_neg_zero;
     f_parse := fun _ => None |}.                  (* not modelled *)
