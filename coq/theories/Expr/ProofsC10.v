(* C10: folding preserves evaluation on every expression in which no rule outside the whitelist
   Model.rule_okb fires (Model.identity_fires e = false).  The folder and the evaluator are both
   driven by tables regenerated from the Rust source; every whitelisted rule shape is proved sound
   against the evaluator's arithmetic arms (characterised by computation on the regenerated arm
   table: arith_int_int, arith_float_float, neg_int, neg_float); the unary rules must all be
   whitelisted (fold_unary_rules_ok, by computation). *)
From VP Require Import Base.Tactics Expr.Syntax Expr.Float Expr.Gen_EvalTables Expr.Gen_FoldRules Expr.Model Expr.ProofsBase.
Local Open Scope Z_scope.

(* facts about the regenerated tables *)
Lemma fold_phases_classified : forallb (forallb (fun r => rule_okb r || known_identity_rule r)) fold_phases = true.
Proof. vm_compute. reflexivity. Qed.
Lemma fold_unary_rules_ok : forallb urule_okb fold_unary_rules = true.
Proof. vm_compute. reflexivity. Qed.

Lemma binop_eqb_eq : forall a b, binop_eqb a b = true -> a = b.
Proof. intros [] []; cbn; intro H; try reflexivity; discriminate. Qed.
Lemma unop_eqb_eq : forall a b, unop_eqb a b = true -> a = b.
Proof. intros [] []; cbn; intro H; try reflexivity; discriminate. Qed.

Lemma Forall2_imp : forall A B (P Q : A -> B -> Prop), (forall a b, P a b -> Q a b) ->
  forall l l', Forall2 P l l' -> Forall2 Q l l'.
Proof. intros A B P Q H l l' F. induction F; constructor; auto. Qed.

Section FoldSound.
Variable O : fops.
Variable X : xops O.
Notation value := (value O).
Notation expr := (expr O).
Notation eval := (eval O X).

(* ---- what the evaluator's regenerated arm table computes on two ints / two floats ---- *)
(* how the evaluator's (op, Int, Int) arm is written: raw, checked or wrapping (read off the table) *)
Definition int_arm_mode (op : binop) : imode :=
  match find (fun a => binop_eqb (aa_op a) op && match aa_l a, aa_r a with AInt, AInt => true | _, _ => false end) arith_arms with
  | Some a => match aa_how a with HInt m _ => m | _ => Checked end
  | None => Checked
  end.
Definition neg_arm_mode : imode :=
  match find (fun x => match fst x with AInt => true | _ => false end) neg_arms with
  | Some (_, NInt m) => m
  | _ => Checked
  end.

Lemma arith_int_int : forall op a b,
  arith O op (VInt O a) (VInt O b) =
  match op with
  | Add => lift_int O (int2 (int_arm_mode Add) IAdd a b)
  | Sub => lift_int O (int2 (int_arm_mode Sub) ISub a b)
  | Mul => lift_int O (int2 (int_arm_mode Mul) IMul a b)
  | Div => if negb (b =? 0) then lift_int O (int2 (int_arm_mode Div) IDiv a b) else NoVal
  | Mod => if negb (b =? 0) then lift_int O (int2 (int_arm_mode Mod) IRem a b) else NoVal
  | Pow => Val (VInt O (pow_int_int O a b))
  | _ => NoVal
  end.
Proof. intros op a b. destruct op; reflexivity. Qed.

(* where the checked operation has a value, the raw and the wrapping operation have the same *)
Lemma int2_checked_val_any_mode : forall o a b z m, int2 Checked o a b = Val z -> int2 m o a b = Val z.
Proof.
  intros o a b z m H. unfold int2 in *. destruct (iop2_math o a b); [|discriminate].
  destruct (iop2_ovf o a b z0); [discriminate|assumption].
Qed.
Lemma int1_checked_val_any_mode : forall o a z m, int1 Checked o a = Val z -> int1 m o a = Val z.
Proof. intros o a z m H. unfold int1 in *. destruct (in_i64 (iop1_math o a)); [assumption|discriminate]. Qed.

Lemma arith_float_float : forall op a b,
  arith O op (VFloat O a) (VFloat O b) =
  match op with
  | Add => Val (VFloat O (f_add O a b))
  | Sub => Val (VFloat O (f_sub O a b))
  | Mul => Val (VFloat O (f_mul O a b))
  | Div => if negb (f_is_zero O b) then Val (VFloat O (f_div O a b)) else NoVal
  | Mod => if negb (f_is_zero O b) then Val (VFloat O (f_rem O a b)) else NoVal
  | Pow => Val (VFloat O (f_powf O a b))
  | _ => NoVal
  end.
Proof. intros op a b. destruct op; reflexivity. Qed.

Lemma neg_int : forall n, eval_unop O Neg (VInt O n) = lift_int O (int1 neg_arm_mode INeg n).
Proof. reflexivity. Qed.
Lemma neg_float : forall f, eval_unop O Neg (VFloat O f) = Val (VFloat O (f_neg O f)).
Proof. reflexivity. Qed.

Definition is_lit (e : expr) : Prop := match e with EInt _ _ | EFloat _ _ => True | _ => False end.

Lemma int2_checked_div_nz : forall o a b z, (o = IDiv \/ o = IRem) -> int2 Checked o a b = Val z -> negb (b =? 0) = true.
Proof.
  intros o a b z Ho H. unfold int2, iop2_math in H.
  destruct Ho; subst o; destruct (b =? 0); try discriminate; reflexivity.
Qed.

Lemma rule_sound : forall ru op l r env,
  rule_okb ru = true -> binop_eqb (fr_op ru) op = true ->
  pat_matches O (fr_l ru) l = true -> pat_matches O (fr_r ru) r = true -> fguard_holds O (fr_g ru) r = true ->
  match act_apply O (fr_act ru) l r with
  | Val e' => eval env e' = eval env (EBin O op l r) /\ is_lit e'
  | NoVal => True
  | Panic => False
  end.
Proof.
  intros [rop pl pr g act] op l r env Hok Hop Hl Hr Hg. cbn [fr_op fr_l fr_r fr_g fr_act] in *.
  apply binop_eqb_eq in Hop. subst rop. unfold rule_okb in Hok. cbn [fr_op fr_l fr_r fr_g fr_act] in Hok.
  destruct pl; try discriminate; destruct pr; try discriminate.
  - (* two int literals *)
    destruct l; try discriminate Hl. destruct r; try discriminate Hr.
    destruct act; try discriminate.
    + destruct m; try discriminate. cbn [act_apply].
      destruct (int2 Checked o z z0) as [v| |] eqn:E; [|exact I|exact (int2_checked_no_panic _ _ _ E)].
      split; [|exact I]. cbn [eval Model.eval eval_binop].
      destruct op; destruct o; try discriminate Hok; cbn [eval_binop]; rewrite arith_int_int;
        try rewrite (int2_checked_div_nz IDiv _ _ _ (or_introl eq_refl) E);
        try rewrite (int2_checked_div_nz IRem _ _ _ (or_intror eq_refl) E);
        rewrite (int2_checked_val_any_mode _ _ _ _ _ E); reflexivity.
    + apply binop_eqb_eq in Hok. subst op. cbn [act_apply]. split; [|exact I].
      cbn [eval Model.eval eval_binop]. rewrite arith_int_int. reflexivity.
  - (* two float literals *)
    destruct l; try discriminate Hl. destruct r; try discriminate Hr.
    destruct act; try discriminate. cbn [act_apply]. split; [|exact I].
    cbn [eval Model.eval eval_binop].
    destruct op; destruct o; try discriminate Hok; cbn [eval_binop]; rewrite arith_float_float; try reflexivity.
    cbn in Hok. destruct g; try discriminate Hok. cbn in Hg. rewrite Hg. reflexivity.
Qed.

Lemma pick_rule_select : forall rules op l r,
  pick_rule O rules op l r =
  match select_rule O rules op l r with Some ru => act_apply O (fr_act ru) l r | None => NoVal end.
Proof.
  induction rules as [|ru rules IH]; intros op l r; cbn [pick_rule select_rule]; [reflexivity|].
  destruct (binop_eqb (fr_op ru) op && pat_matches O (fr_l ru) l && pat_matches O (fr_r ru) r && fguard_holds O (fr_g ru) r);
    [reflexivity | apply IH].
Qed.

Lemma select_rule_matches : forall rules op l r ru,
  select_rule O rules op l r = Some ru ->
  binop_eqb (fr_op ru) op = true /\ pat_matches O (fr_l ru) l = true /\ pat_matches O (fr_r ru) r = true /\
  fguard_holds O (fr_g ru) r = true.
Proof.
  induction rules as [|r0 rules IH]; intros op l r ru H; cbn [select_rule] in H; [discriminate|].
  destruct (binop_eqb (fr_op r0) op && pat_matches O (fr_l r0) l && pat_matches O (fr_r r0) r && fguard_holds O (fr_g r0) r) eqn:E.
  - inversion H; subst r0. apply andb_true_iff in E. destruct E as [E Hg]. apply andb_true_iff in E. destruct E as [E Hr].
    apply andb_true_iff in E. destruct E as [Hop Hl]. auto.
  - now apply IH.
Qed.

Lemma select_rule_forallb : forall (P : frule -> bool) rules op l r ru,
  select_rule O rules op l r = Some ru -> forallb P rules = true -> P ru = true.
Proof.
  induction rules as [|r0 rules IH]; intros op l r ru H HP; cbn [select_rule] in H; [discriminate|].
  cbn [forallb] in HP. apply andb_true_iff in HP. destruct HP as [H0 Hrest].
  destruct (binop_eqb (fr_op r0) op && pat_matches O (fr_l r0) l && pat_matches O (fr_r r0) r && fguard_holds O (fr_g r0) r).
  - inversion H; subst; assumption.
  - eapply IH; eassumption.
Qed.

Lemma run_phases_sound : forall phases op l r,
  forallb (forallb (fun r => rule_okb r || known_identity_rule r)) phases = true ->
  rule_fires O phases op l r = false ->
  exists e', run_phases O phases op l r = Some e' /\
             (forall env, eval env e' = eval env (EBin O op l r)) /\ (e' = EBin O op l r \/ is_lit e').
Proof.
  induction phases as [|ph phases IH]; intros op l r HC H; cbn [run_phases].
  - eexists; split; [reflexivity|]. split; [reflexivity | left; reflexivity].
  - cbn [forallb] in HC. apply andb_true_iff in HC. destruct HC as [HCph HCrest].
    cbn [rule_fires] in H. rewrite pick_rule_select.
    destruct (select_rule O ph op l r) as [ru|] eqn:Sel; [|now apply IH].
    pose proof (select_rule_forallb _ _ _ _ _ _ Sel HCph) as Hcls. cbn beta in Hcls.
    destruct (rule_okb ru) eqn:Hok; [|cbn in Hcls; congruence].
    destruct (select_rule_matches _ _ _ _ _ Sel) as [Hop [Hl [Hr Hg]]].
    destruct (act_apply O (fr_act ru) l r) as [e'| |] eqn:E.
    + exists e'. split; [reflexivity|]. split.
      * intro env. pose proof (rule_sound ru op l r env Hok Hop Hl Hr Hg) as S. rewrite E in S. apply S.
      * right. pose proof (rule_sound ru op l r (mkEvent O [] []) Hok Hop Hl Hr Hg) as S. rewrite E in S. apply S.
    + now apply IH.
    + pose proof (rule_sound ru op l r (mkEvent O [] []) Hok Hop Hl Hr Hg) as S. rewrite E in S. contradiction.
Qed.

Lemma fold_binary_sound : forall op l r,
  rule_fires O fold_phases op l r = false ->
  exists e', fold_binary O op l r = Some e' /\
             (forall env, eval env e' = eval env (EBin O op l r)) /\ (e' = EBin O op l r \/ is_lit e').
Proof. intros. apply run_phases_sound; [apply fold_phases_classified | assumption]. Qed.

Lemma pick_urule_sound : forall rules op x env,
  forallb urule_okb rules = true ->
  match pick_urule O rules op x with
  | Val e' => eval env e' = eval env (EUn O op x) /\ is_lit e'
  | NoVal => True
  | Panic => False
  end.
Proof.
  induction rules as [|[[o p] a] rules IH]; intros op x env H; cbn [pick_urule]; [exact I|].
  cbn [forallb] in H. apply andb_true_iff in H. destruct H as [Hru Hrest].
  destruct (unop_eqb o op && pat_matches O p x) eqn:E; [|now apply IH].
  apply andb_true_iff in E. destruct E as [Hop Hp]. apply unop_eqb_eq in Hop. subst o.
  destruct op; try discriminate Hru; destruct p; try discriminate Hru; destruct a as [m|]; try discriminate Hru.
  - destruct m; try discriminate Hru. destruct x; try discriminate Hp.
    destruct (int1 Checked INeg z) as [v| |] eqn:E; [|exact I|].
    + split; [|exact I]. cbn [eval Model.eval]. rewrite neg_int, (int1_checked_val_any_mode _ _ _ _ E). reflexivity.
    + exact (int1_not_raw_no_panic Checked INeg z ltac:(discriminate) E).
  - destruct x; try discriminate Hp. split; [|exact I]. cbn [eval Model.eval]. rewrite neg_float. reflexivity.
Qed.

Lemma fold_unary_sound : forall op x,
  exists e', fold_unary O op x = Some e' /\
             (forall env, eval env e' = eval env (EUn O op x)) /\ (e' = EUn O op x \/ is_lit e').
Proof.
  intros op x. unfold fold_unary.
  destruct (pick_urule O fold_unary_rules op x) as [e'| |] eqn:E.
  - exists e'. split; [reflexivity|]. split.
    + intro env. pose proof (pick_urule_sound fold_unary_rules op x env fold_unary_rules_ok) as S. rewrite E in S. apply S.
    + right. pose proof (pick_urule_sound fold_unary_rules op x (mkEvent O [] []) fold_unary_rules_ok) as S. rewrite E in S. apply S.
  - eexists; split; [reflexivity|]. split; [reflexivity | left; reflexivity].
  - pose proof (pick_urule_sound fold_unary_rules op x (mkEvent O [] []) fold_unary_rules_ok) as S. rewrite E in S. contradiction.
Qed.

(* ---- congruence of the list evaluators ---- *)
Lemma fold_list_sound : forall A (f : A -> option A) (R : A -> A -> Prop) l,
  Forall (fun x => exists x', f x = Some x' /\ R x x') l ->
  exists l', fold_list f l = Some l' /\ Forall2 R l l'.
Proof.
  intros A f R l H. induction H as [|x l [x' [Hx Rx]] Hl [l' [IHl Rl]]]; cbn.
  - exists []. split; [reflexivity | constructor].
  - exists (x' :: l'). rewrite Hx. cbn. rewrite IHl. cbn. split; [reflexivity | now constructor].
Qed.

Lemma eval_filter_congr : forall A (ev : A -> outcome value) l l',
  Forall2 (fun x x' => ev x' = ev x) l l' -> eval_filter O ev l' = eval_filter O ev l.
Proof.
  intros A ev l l' H. induction H as [|x x' l l' Hx Hl IH]; cbn; [reflexivity|].
  rewrite Hx, IH. reflexivity.
Qed.

Lemma eval_entries_congr : forall A (ev : A -> outcome value) (key : A -> str) l l',
  Forall2 (fun x x' => key x' = key x /\ ev x' = ev x) l l' ->
  forall acc, eval_entries O ev key l' acc = eval_entries O ev key l acc.
Proof.
  intros A ev key l l' H. induction H as [|x x' l l' [Hk Hx] Hl IH]; intro acc; cbn; [reflexivity|].
  rewrite Hx, Hk. destruct (ev x); try reflexivity; apply IH.
Qed.

Definition same_head (e e' : expr) : Prop :=
  match e with EIdent _ s => e' = EIdent O s | _ => forall s, e' <> EIdent O s end.

Lemma lit_not_ident : forall e' s, is_lit e' -> e' <> EIdent O s.
Proof. intros e' nm H; destruct e'; cbn in H; try contradiction; discriminate. Qed.

Lemma eval_member_congr : forall env x x' m,
  same_head x x' -> eval_member O env x' m = eval_member O env x m.
Proof.
  intros env x x' m H. destruct x; cbn in H; try (subst; reflexivity);
    (destruct x'; try reflexivity; exfalso; eapply H; reflexivity).
Qed.

Definition sound (e e' : expr) : Prop := (forall env, eval env e' = eval env e) /\ same_head e e'.

Lemma existsb_false_Forall : forall A (f : A -> bool) l, existsb f l = false -> Forall (fun x => f x = false) l.
Proof.
  intros A f l. induction l as [|x l IH]; cbn; intro H; constructor.
  - apply orb_false_iff in H. apply H.
  - apply IH. apply orb_false_iff in H. apply H.
Qed.

Lemma Forall_mp : forall A (P Q : A -> Prop) l, Forall (fun x => P x -> Q x) l -> Forall P l -> Forall Q l.
Proof. intros A P Q l H. induction H; intro HP; inversion HP; subst; constructor; auto. Qed.

Theorem fold_sound : forall e, identity_fires O e = false -> exists e', fold O e = Some e' /\ sound e e'.
Proof.
  induction e using expr_ind2; cbn [fold identity_fires]; intro NF;
    try (eexists; split; [reflexivity|]; split; [reflexivity | cbn; try reflexivity; intros; discriminate]).
  - (* array *)
    pose proof (Forall_mp _ _ _ _ H (existsb_false_Forall _ _ _ NF)) as H'.
    destruct (fold_list_sound _ (fold O) sound l H') as [l' [Hl R]]. rewrite Hl. cbn [obind].
    eexists; split; [reflexivity|]. split; [|cbn; intros; discriminate].
    intro env. cbn [eval Model.eval]. erewrite eval_filter_congr; [reflexivity|].
    eapply Forall2_imp; [|exact R]. intros a b [S _]. apply S.
  - (* map *)
    pose proof (Forall_mp _ _ _ _ H (existsb_false_Forall _ _ _ NF)) as H'.
    set (f := fun kv : str * expr => obind (fold O (snd kv)) (fun x' => Some (fst kv, x'))).
    assert (Hf : Forall (fun x => exists x', f x = Some x' /\ (fst x' = fst x /\ sound (snd x) (snd x'))) l).
    { eapply Forall_impl; [|exact H']. intros [k x] [x' [Hx S]]. exists (k, x'). unfold f. cbn [snd fst] in *.
      rewrite Hx. cbn. auto. }
    destruct (fold_list_sound _ f _ l Hf) as [l' [Hl R]]. rewrite Hl. cbn [obind].
    eexists; split; [reflexivity|]. split; [|cbn; intros; discriminate].
    intro env. cbn [eval Model.eval]. erewrite eval_entries_congr; [reflexivity|].
    eapply Forall2_imp; [|exact R]. intros a b [K [S _]]. split; [exact K | apply S].
  - (* binary *)
    apply orb_false_iff in NF. destruct NF as [NF NF3]. apply orb_false_iff in NF. destruct NF as [NF1 NF2].
    destruct (IHe1 NF1) as [l' [Hl [Sl _]]]. destruct (IHe2 NF2) as [r' [Hr [Sr _]]]. rewrite Hl, Hr in *. cbn [obind].
    destruct (fold_binary_sound op l' r' NF3) as [e' [He [Se Hd]]]. exists e'. split; [exact He|]. split.
    + intro env. rewrite Se. cbn [eval Model.eval]. rewrite Sl, Sr. reflexivity.
    + cbn. intro s. destruct Hd as [->|Hd]; [discriminate | now apply lit_not_ident].
  - (* unary *)
    destruct (IHe NF) as [x' [Hx [Sx _]]]. rewrite Hx. cbn [obind].
    destruct (fold_unary_sound op x') as [e' [He [Se Hd]]]. exists e'. split; [exact He|]. split.
    + intro env. rewrite Se. cbn [eval Model.eval]. rewrite Sx. reflexivity.
    + cbn. intro s. destruct Hd as [->|Hd]; [discriminate | now apply lit_not_ident].
  - (* member *)
    destruct (IHe NF) as [x' [Hx [Sx Hh]]]. rewrite Hx. cbn [obind].
    eexists; split; [reflexivity|]. split; [|cbn; intros; discriminate].
    intro env. cbn [eval Model.eval]. now apply eval_member_congr.
  - (* optional member *)
    destruct (IHe NF) as [x' [Hx _]]. rewrite Hx. cbn [obind].
    eexists; split; [reflexivity|]. split; [reflexivity | cbn; intros; discriminate].
  - (* index *)
    apply orb_false_iff in NF. destruct NF as [NF1 NF2].
    destruct (IHe1 NF1) as [x' [Hx [Sx _]]]. destruct (IHe2 NF2) as [i' [Hi [Si _]]]. rewrite Hx, Hi. cbn [obind].
    eexists; split; [reflexivity|]. split; [|cbn; intros; discriminate].
    intro env. cbn [eval Model.eval]. rewrite Sx, Si. reflexivity.
  - (* slice *)
    apply orb_false_iff in NF. destruct NF as [NF NF3]. apply orb_false_iff in NF. destruct NF as [NF1 NF2].
    destruct (IHe NF1) as [x' [Hx [Sx _]]]. rewrite Hx. cbn [obind].
    assert (Hopt : forall o, (forall y, o = Some y -> identity_fires O y = false -> exists y', fold O y = Some y' /\ sound y y') ->
              match o with Some y => identity_fires O y | None => false end = false ->
              exists o', match o with None => Some None | Some y => obind (fold O y) (fun y' => Some (Some y')) end = Some o' /\
                         forall env d, opt_int O (eval env) o' d = opt_int O (eval env) o d).
    { intros [y|] Hy Hn.
      - destruct (Hy y eq_refl Hn) as [y' [Hy' [Sy _]]]. exists (Some y'). rewrite Hy'. split; [reflexivity|].
        intros env d. cbn. rewrite Sy. reflexivity.
      - exists None. split; reflexivity. }
    destruct (Hopt s H NF2) as [s' [Hs Ss]]. destruct (Hopt en H0 NF3) as [en' [Hen Sen]].
    rewrite Hs. cbn [obind]. rewrite Hen. cbn [obind].
    eexists; split; [reflexivity|]. split; [|cbn; intros; discriminate].
    intro env. cbn [eval Model.eval]. rewrite Sx, Ss.
    destruct (eval env e); try reflexivity. destruct (opt_int O (eval env) s 0); try reflexivity.
    destruct a; try reflexivity; rewrite Sen; reflexivity.
  - (* call *)
    apply orb_false_iff in NF. destruct NF as [NF1 NF2].
    destruct (IHe NF1) as [f' [Hf [Sf Hh]]]. rewrite Hf. cbn [obind].
    pose proof (Forall_mp _ _ _ _ H (existsb_false_Forall _ _ _ NF2)) as H'.
    set (g := fun a : option str * expr => obind (fold O (snd a)) (fun x' => Some (fst a, x'))).
    assert (Hg : Forall (fun x => exists x', g x = Some x' /\ (forall env, eval env (snd x') = eval env (snd x))) args).
    { eapply Forall_impl; [|exact H']. intros [k x] [x' [Hx [S _]]]. exists (k, x'). unfold g. cbn [snd fst] in *.
      rewrite Hx. cbn. auto. }
    destruct (fold_list_sound _ g _ args Hg) as [args' [Ha R]]. rewrite Ha. cbn [obind].
    eexists; split; [reflexivity|]. split; [|cbn; intros; discriminate].
    intro env. cbn [eval Model.eval].
    assert (Hargs : eval_filter O (fun a : option str * expr => eval env (snd a)) args'
                    = eval_filter O (fun a : option str * expr => eval env (snd a)) args).
    { apply eval_filter_congr. eapply Forall2_imp; [|exact R]. intros a b S. apply S. }
    destruct e; cbn in Hh; try (subst f'; rewrite Hargs; reflexivity);
      (destruct f'; try reflexivity; exfalso; eapply Hh; reflexivity).
  - (* lambda *)
    destruct (IHe NF) as [b' [Hb _]]. rewrite Hb. cbn [obind].
    eexists; split; [reflexivity|]. split; [reflexivity | cbn; intros; discriminate].
  - (* if *)
    apply orb_false_iff in NF. destruct NF as [NF NF3]. apply orb_false_iff in NF. destruct NF as [NF1 NF2].
    destruct (IHe1 NF1) as [c' [Hc [Sc _]]]. destruct (IHe2 NF2) as [t' [Ht [St _]]]. destruct (IHe3 NF3) as [el' [Hel [Sel _]]].
    rewrite Hc, Ht, Hel. cbn [obind].
    eexists; split; [reflexivity|]. split; [|cbn; intros; discriminate].
    intro env. cbn [eval Model.eval]. rewrite Sc, St, Sel. reflexivity.
  - (* coalesce *)
    apply orb_false_iff in NF. destruct NF as [NF1 NF2].
    destruct (IHe1 NF1) as [x' [Hx [Sx _]]]. destruct (IHe2 NF2) as [d' [Hd [Sd _]]]. rewrite Hx, Hd. cbn [obind].
    eexists; split; [reflexivity|]. split; [|cbn; intros; discriminate].
    intro env. cbn [eval Model.eval]. rewrite Sx, Sd. reflexivity.
  - (* range *)
    apply orb_false_iff in NF. destruct NF as [NF1 NF2].
    destruct (IHe1 NF1) as [s' [Hs [Ss _]]]. destruct (IHe2 NF2) as [en' [Hen [Sen _]]]. rewrite Hs, Hen. cbn [obind].
    eexists; split; [reflexivity|]. split; [|cbn; intros; discriminate].
    intro env. cbn [eval Model.eval]. rewrite Ss, Sen. reflexivity.
  - (* block *)
    apply orb_false_iff in NF. destruct NF as [NF1 NF2].
    destruct (IHe NF2) as [r' [Hr _]].
    pose proof (Forall_mp _ _ _ _ H (existsb_false_Forall _ _ _ NF1)) as H'.
    set (g := fun st0 : str * expr * bool => obind (fold O (snd (fst st0))) (fun x' => Some (fst (fst st0), x', snd st0))).
    assert (Hg : Forall (fun x => exists x', g x = Some x' /\ True) st).
    { eapply Forall_impl; [|exact H']. intros [[k x] m] [x' [Hx _]]. exists (k, x', m). unfold g. cbn [snd fst] in *.
      rewrite Hx. cbn. auto. }
    destruct (fold_list_sound _ g _ st Hg) as [st' [Hs _]]. rewrite Hs. cbn [obind]. rewrite Hr. cbn [obind].
    eexists; split; [reflexivity|]. split; [reflexivity | cbn; intros; discriminate].
Qed.

End FoldSound.
