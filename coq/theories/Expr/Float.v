(* Interface of the f64 operations the evaluator and the folder use.  The model and every theorem
   are stated for an arbitrary implementation of this interface (a Section variable of this record
   type); Run.v instantiates it with IEEE-754 binary64 from Flocq (B64.v) for the correspondence
   check.  Nothing is assumed about the operations: they are total functions, which is all the
   two properties need (Rust's f64 arithmetic and `as` casts never panic). *)
From VP Require Import Base.Tactics Expr.Syntax.

Record fops := mkFops {
  ft : Type;
  f_of_int : Z -> ft;            (* `i as f64` *)
  f_to_i64 : ft -> Z;            (* `f as i64`: truncating, saturating, NaN -> 0 *)
  f_add : ft -> ft -> ft;
  f_sub : ft -> ft -> ft;
  f_mul : ft -> ft -> ft;
  f_div : ft -> ft -> ft;
  f_rem : ft -> ft -> ft;        (* `a % b` (fmod) *)
  f_powf : ft -> ft -> ft;
  f_powi : ft -> Z -> ft;        (* second argument: an i32 *)
  f_neg : ft -> ft;
  f_abs : ft -> ft;
  f_sqrt : ft -> ft;
  f_floor : ft -> ft;
  f_ceil : ft -> ft;
  f_round : ft -> ft;            (* half away from zero *)
  f_trunc : ft -> ft;
  f_ln : ft -> ft;
  f_log10 : ft -> ft;
  f_exp : ft -> ft;
  f_sin : ft -> ft;
  f_cos : ft -> ft;
  f_tan : ft -> ft;
  f_min : ft -> ft -> ft;
  f_max : ft -> ft -> ft;
  f_is_zero : ft -> bool;        (* `f == 0.0` *)
  f_is_nan : ft -> bool;
  f_eqb : ft -> ft -> bool;      (* IEEE `==` *)
  f_cmp : ft -> ft -> option comparison;   (* partial_cmp *)
  f_zero : ft;                   (* 0.0 *)
  f_sum0 : ft;                   (* the start value of `Iterator::sum::<f64>()` *)
  f_parse : str -> option ft;    (* str::parse::<f64>() *)
}.

Definition fbin (O : fops) (o : fop2) : ft O -> ft O -> ft O :=
  match o with
  | FAdd => f_add O | FSub => f_sub O | FMul => f_mul O | FDiv => f_div O | FRem => f_rem O
  | FPowf => f_powf O
  end.
