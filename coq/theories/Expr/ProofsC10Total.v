(* The folder never panics, on any expression (also inside the known-finding class of C10):
   no fold rule regenerated from optimize.rs uses raw i64 arithmetic or a wrapping division. *)
From VP Require Import Base.Tactics Expr.Syntax Expr.Float Expr.Gen_EvalTables Expr.Gen_FoldRules Expr.Model
  Expr.ProofsBase Expr.ProofsC10.
Local Open Scope Z_scope.

Definition act_safeb (a : faction) : bool :=
  match a with
  | FAInt Raw _ => false
  | FAInt Wrapping IDiv | FAInt Wrapping IRem => false
  | _ => true
  end.
Definition uact_safeb (r : unop * lpat * uaction) : bool :=
  match snd r with UAInt Raw => false | _ => true end.

(* facts about the regenerated tables *)
Lemma fold_phases_safe : forallb (forallb (fun r => act_safeb (fr_act r))) fold_phases = true.
Proof. vm_compute. reflexivity. Qed.
Lemma fold_unary_rules_safe : forallb uact_safeb fold_unary_rules = true.
Proof. vm_compute. reflexivity. Qed.

Section Total.
Variable O : fops.
Notation expr := (expr O).

Lemma act_apply_no_panic : forall a l r, act_safeb a = true -> act_apply O a l r <> Panic.
Proof.
  intros a l r H. destruct a; cbn [act_apply]; try (repeat dm; discriminate).
  destruct l; try discriminate; destruct r; try discriminate.
  destruct (int2 m o z z0) eqn:E; try discriminate. exfalso. revert E.
  destruct m; [discriminate H | apply int2_checked_no_panic |].
  apply int2_wrapping_no_panic. right. destruct o; try discriminate H; split; discriminate.
Qed.

Lemma pick_rule_no_panic : forall rules op l r,
  forallb (fun ru => act_safeb (fr_act ru)) rules = true -> pick_rule O rules op l r <> Panic.
Proof.
  induction rules as [|ru rules IH]; intros op l r H; cbn [pick_rule]; [discriminate|].
  cbn [forallb] in H. apply andb_true_iff in H. destruct H as [Hru Hrest].
  destruct (binop_eqb (fr_op ru) op && pat_matches O (fr_l ru) l && pat_matches O (fr_r ru) r && fguard_holds O (fr_g ru) r);
    [now apply act_apply_no_panic | now apply IH].
Qed.

Lemma run_phases_some : forall phases op l r,
  forallb (forallb (fun ru => act_safeb (fr_act ru))) phases = true -> exists e', run_phases O phases op l r = Some e'.
Proof.
  induction phases as [|ph phases IH]; intros op l r H; cbn [run_phases]; [eexists; reflexivity|].
  cbn [forallb] in H. apply andb_true_iff in H. destruct H as [Hph Hrest].
  pose proof (pick_rule_no_panic ph op l r Hph) as NP.
  destruct (pick_rule O ph op l r); [eexists; reflexivity | now apply IH | congruence].
Qed.

Lemma fold_unary_some : forall op x, exists e', fold_unary O op x = Some e'.
Proof.
  intros op x. unfold fold_unary.
  assert (NP : forall rules, forallb uact_safeb rules = true -> pick_urule O rules op x <> Panic).
  { induction rules as [|[[o p] a] rules IH]; intro H; cbn [pick_urule]; [discriminate|].
    cbn [forallb] in H. apply andb_true_iff in H. destruct H as [Hru Hrest].
    destruct (unop_eqb o op && pat_matches O p x); [|now apply IH].
    destruct a as [m|]; destruct x; try discriminate.
    destruct (int1 m INeg z) eqn:E; try discriminate. exfalso. revert E.
    apply int1_not_raw_no_panic. intro; subst m. discriminate Hru. }
  specialize (NP fold_unary_rules fold_unary_rules_safe).
  destruct (pick_urule O fold_unary_rules op x); [eexists; reflexivity | eexists; reflexivity | congruence].
Qed.

Lemma fold_list_some : forall A (f : A -> option A) l,
  Forall (fun x => exists x', f x = Some x') l -> exists l', fold_list f l = Some l'.
Proof.
  intros A f l H.
  destruct (fold_list_sound A f (fun _ _ => True) l) as [l' [Hl _]]; [|eauto].
  eapply Forall_impl; [|exact H]. intros a [x' Hx]. eauto.
Qed.

Theorem fold_total : forall e : expr, exists e', fold O e = Some e'.
Proof.
  induction e using expr_ind2; cbn [fold]; try (eexists; reflexivity).
  - destruct (fold_list_some _ (fold O) l H) as [l' Hl]. rewrite Hl. eexists; reflexivity.
  - destruct (fold_list_some _ (fun kv : str * expr => obind (fold O (snd kv)) (fun x' => Some (fst kv, x'))) l) as [l' Hl].
    { eapply Forall_impl; [|exact H]. intros [k x] [x' Hx]. cbn [snd fst] in *. rewrite Hx. eexists; reflexivity. }
    rewrite Hl. eexists; reflexivity.
  - destruct IHe1 as [l' Hl]. destruct IHe2 as [r' Hr]. rewrite Hl, Hr. cbn [obind].
    apply run_phases_some, fold_phases_safe.
  - destruct IHe as [x' Hx]. rewrite Hx. cbn [obind]. apply fold_unary_some.
  - destruct IHe as [x' Hx]. rewrite Hx. eexists; reflexivity.
  - destruct IHe as [x' Hx]. rewrite Hx. eexists; reflexivity.
  - destruct IHe1 as [x' Hx]. destruct IHe2 as [i' Hi]. rewrite Hx, Hi. eexists; reflexivity.
  - destruct IHe as [x' Hx]. rewrite Hx. cbn [obind].
    assert (Hopt : forall o, (forall y, o = Some y -> exists y', fold O y = Some y') ->
              exists o', match o with None => Some None | Some y => obind (fold O y) (fun y' => Some (Some y')) end = Some o').
    { intros [y|] Hy; [destruct (Hy y eq_refl) as [y' Hy']; rewrite Hy'|]; eexists; reflexivity. }
    destruct (Hopt s H) as [s' Hs]. destruct (Hopt en H0) as [en' Hen]. rewrite Hs. cbn [obind]. rewrite Hen.
    eexists; reflexivity.
  - destruct IHe as [f' Hf]. rewrite Hf. cbn [obind].
    destruct (fold_list_some _ (fun a : option str * expr => obind (fold O (snd a)) (fun x' => Some (fst a, x'))) args) as [l' Hl].
    { eapply Forall_impl; [|exact H]. intros [k x] [x' Hx]. cbn [snd fst] in *. rewrite Hx. eexists; reflexivity. }
    rewrite Hl. eexists; reflexivity.
  - destruct IHe as [x' Hx]. rewrite Hx. eexists; reflexivity.
  - destruct IHe1 as [c' Hc]. destruct IHe2 as [t' Ht]. destruct IHe3 as [el' Hel]. rewrite Hc, Ht, Hel. eexists; reflexivity.
  - destruct IHe1 as [x' Hx]. destruct IHe2 as [d' Hd]. rewrite Hx, Hd. eexists; reflexivity.
  - destruct IHe1 as [x' Hx]. destruct IHe2 as [d' Hd]. rewrite Hx, Hd. eexists; reflexivity.
  - destruct IHe as [r' Hr].
    destruct (fold_list_some _ (fun st0 : str * expr * bool => obind (fold O (snd (fst st0))) (fun x' => Some (fst (fst st0), x', snd st0))) st) as [l' Hl].
    { eapply Forall_impl; [|exact H]. intros [[k x] m] [x' Hx]. cbn [snd fst] in *. rewrite Hx. eexists; reflexivity. }
    rewrite Hl. cbn [obind]. rewrite Hr. eexists; reflexivity.
Qed.

End Total.
