(* Property theorems for C11 (evaluating any expression never panics).  Nothing but statements closed by [exact] / computation on concrete instances.
   The statements are pinned again in coq/audit/C11.v.

   Vocabulary:  fold O e : option expr   the folder of optimize.rs (None = the folder panics);
   eval O X env e : outcome value        eval_expr_with_functions on event env (Val / NoVal / Panic);
   both are driven by the tables that translate/fold_rules.py and translate/expr_arms.py regenerate
   from the Rust source on every run (Gen_FoldRules.v, Gen_EvalTables.v), so these theorems are
   re-proved against the current source each time.  O : fops is *any* implementation of the f64
   operations, X : xops O *any* implementation of float/timestamp formatting and of the std string
   helpers; eval64 / fold64 are the binary64 (Flocq) instance that the correspondence check runs. *)
From Coq Require Import String.
From VP Require Import Base.Tactics Expr.Syntax Expr.Float Expr.Gen_EvalTables Expr.Gen_FoldRules Expr.Model
  Expr.ProofsBase Expr.ProofsC11 Expr.B64 Expr.Run.
Close Scope string_scope.
Local Open Scope list_scope.
Local Open Scope Z_scope.

(* ------------------------------------------------------------------ C11 *)

(* Evaluating any expression on any event never panics (nor aborts through the unbounded
   self-recursion of the final match arm): the outcome is a value or no value. *)
Theorem C11_no_panic : forall (O : fops) (X : xops O) (env : event O) (e : expr O),
  eval O X env e <> Panic.
Proof. exact eval_no_panic. Qed.

Theorem C11_no_panic_b64 : forall (env : event b64ops) (e : E), eval64 env e <> Panic.
Proof. intros env e. exact (C11_no_panic b64ops xb64 env e). Qed.

(* every `"name" [if arity] =>` arm of eval_builtin_function is modelled, in the same order with
   the same arity guard *)
Theorem C11_builtins_covered :
  map (fun x : string * arity * builtin => (fst (fst x), snd (fst x))) model_builtins = builtin_arms.
Proof. vm_compute. reflexivity. Qed.

(* non-vacuity: the primitives the model is built from do panic where Rust does -- raw i64
   arithmetic, slicing and indexed assignment out of range -- so C11_no_panic is a statement
   about how the evaluator guards them, not about an outcome type without a Panic *)
Example C11_raw_add_panics : int2 Raw IAdd i64_max 1 = Panic.
Proof. vm_compute. reflexivity. Qed.
Example C11_raw_div_panics : int2 Raw IDiv i64_min (-1) = Panic /\ int2 Wrapping IRem 5 0 = Panic.
Proof. vm_compute. split; reflexivity. Qed.
Example C11_raw_abs_panics : int1 Raw IAbs i64_min = Panic.
Proof. vm_compute. reflexivity. Qed.
Example C11_slice_out_of_range_panics : slice_raw [1; 2; 3] 2 1 = Panic /\ set_raw [1; 2] 2 0 = Panic.
Proof. vm_compute. split; reflexivity. Qed.
(* ... and the guarded evaluator gives no value on the extreme inputs of the property text *)
Example C11_extremes_have_no_value :
  let x := [120%N] in
  let env := ev [65%N] [(x, vi i64_min)] in
  map (fun e => r_outcome (eval64 env e))
      [e2 Add (ex x) (ei (-1)); e2 Div (ex x) (ei (-1)); e2 Mod (ex x) (ei (-1)); e1 Neg (ex x);
       ecall (ex (lit "abs")) [(None, ex x)]; eomem (ex x) [121%N]; e2 Sub (ex x) (ei (-1))]
  = ["N"; "N"; "N"; "N"; "N"; "N"; "V:i-9223372036854775807"]%string.
Proof. vm_compute. reflexivity. Qed.
