(* Vocabulary shared by the expression model (C10, C11) and by the tables that the translators
   regenerate from the Rust source on every run.  Definitions only.

   translate/expr_arms.py  -> Gen_EvalTables.v  (crates/varpulis-runtime/src/engine/evaluator.rs)
   translate/fold_rules.py -> Gen_FoldRules.v   (crates/varpulis-parser/src/optimize.rs)

   binop / unop    varpulis_core::ast::{BinOp, UnaryOp}
   imode           how an i64 operation is written in the Rust arm (dereferences `*a`, `*b` are dropped in these comments)
                     Raw       `a + b`, `a / b`, `-n`, `n.abs()`   (panics on overflow: the harness
                               and debug builds have overflow checks on; `MIN / -1`, `MIN % -1` and
                               division by zero panic in every build)
                     Checked   `a.checked_add(b)` ... (no value on overflow / zero divisor)
                     Wrapping  `a.wrapping_add(b)` ... (two's complement; zero divisor panics)
   aarm            one `(Value::X(a), Value::Y(b)) [if guard] => ...` arm of an arithmetic BinOp in
                   eval_expr_with_functions
   frule           one `(BinOp::Op, <pat>, <pat>) [if guard] => ...` arm of optimize.rs fold_binary *)
From Coq Require Import String Ascii.
From VP Require Import Base.Tactics.
Local Open Scope Z_scope.

Definition str := list N.      (* a string as its Unicode scalar values *)

Definition str_of_string (x : string) : str := List.map N_of_ascii (list_ascii_of_string x).

Fixpoint str_eqb (a b : str) : bool :=
  match a, b with
  | [], [] => true
  | x :: a', y :: b' => N.eqb x y && str_eqb a' b'
  | _, _ => false
  end.

Inductive binop :=
| Add | Sub | Mul | Div | Mod | Pow
| Eq_ | NotEq | Lt_ | Le | Gt_ | Ge | In_ | NotIn | Is
| And | Or | Xor | FollowedBy | BitAnd | BitOr | BitXor | Shl | Shr.
Inductive unop := Neg | Not | BitNot.

Definition binop_eqb (a b : binop) : bool :=
  match a, b with
  | Add, Add | Sub, Sub | Mul, Mul | Div, Div | Mod, Mod | Pow, Pow | Eq_, Eq_ | NotEq, NotEq
  | Lt_, Lt_ | Le, Le | Gt_, Gt_ | Ge, Ge | In_, In_ | NotIn, NotIn | Is, Is | And, And | Or, Or
  | Xor, Xor | FollowedBy, FollowedBy | BitAnd, BitAnd | BitOr, BitOr | BitXor, BitXor
  | Shl, Shl | Shr, Shr => true
  | _, _ => false
  end.
Definition unop_eqb (a b : unop) : bool :=
  match a, b with Neg, Neg | Not, Not | BitNot, BitNot => true | _, _ => false end.

(* ------------------------------------------------------------ i64 arithmetic *)
Definition i64_min : Z := -9223372036854775808.
Definition i64_max : Z := 9223372036854775807.
Definition in_i64 (z : Z) : bool := (i64_min <=? z) && (z <=? i64_max).
Definition wrap64 (z : Z) : Z := (z + 9223372036854775808) mod 18446744073709551616 - 9223372036854775808.
(* `x as i32` on an i64 *)
Definition wrap32 (z : Z) : Z := (z + 2147483648) mod 4294967296 - 2147483648.
(* `x as usize` on an i64 (64-bit target) *)
Definition as_usize (z : Z) : Z := z mod 18446744073709551616.

Inductive imode := Raw | Checked | Wrapping.
Inductive iop2 := IAdd | ISub | IMul | IDiv | IRem.
Inductive iop1 := INeg | IAbs.

Definition imode_eqb (a b : imode) : bool :=
  match a, b with Raw, Raw | Checked, Checked | Wrapping, Wrapping => true | _, _ => false end.
Definition iop2_eqb (a b : iop2) : bool :=
  match a, b with IAdd, IAdd | ISub, ISub | IMul, IMul | IDiv, IDiv | IRem, IRem => true | _, _ => false end.

(* outcome of a Rust computation: a value, "no value" (None), or a panic / abort *)
Inductive outcome (A : Type) := Val (a : A) | NoVal | Panic.
Arguments Val {A} a.
Arguments NoVal {A}.
Arguments Panic {A}.

(* exact integer result; None = zero divisor *)
Definition iop2_math (o : iop2) (a b : Z) : option Z :=
  match o with
  | IAdd => Some (a + b)
  | ISub => Some (a - b)
  | IMul => Some (a * b)
  | IDiv => if b =? 0 then None else Some (Z.quot a b)
  | IRem => if b =? 0 then None else Some (Z.rem a b)
  end.
(* does the i64 operation overflow?  (`MIN % -1` overflows although its result, 0, fits) *)
Definition iop2_ovf (o : iop2) (a b r : Z) : bool :=
  match o with
  | IRem => (a =? i64_min) && (b =? -1)
  | _ => negb (in_i64 r)
  end.
Definition int2 (m : imode) (o : iop2) (a b : Z) : outcome Z :=
  match iop2_math o a b with
  | None => match m with Checked => NoVal | _ => Panic end
  | Some r =>
      if iop2_ovf o a b r
      then match m with Raw => Panic | Checked => NoVal | Wrapping => Val (wrap64 r) end
      else Val r
  end.
Definition iop1_math (o : iop1) (a : Z) : Z := match o with INeg => - a | IAbs => Z.abs a end.
Definition int1 (m : imode) (o : iop1) (a : Z) : outcome Z :=
  let r := iop1_math o a in
  if in_i64 r then Val r
  else match m with Raw => Panic | Checked => NoVal | Wrapping => Val (wrap64 r) end.

(* ------------------------------------------------ evaluator arithmetic arms *)
Inductive aty := AInt | AFloat | AStr.
Inductive fop2 := FAdd | FSub | FMul | FDiv | FRem | FPowf.
Inductive ahow :=
| HInt (m : imode) (o : iop2)   (* Some(Value::Int(a + b)) | a.checked_add(b).map(Value::Int) | Some(Value::Int(a.wrapping_add(b))) *)
| HFloat (o : fop2)             (* Some(Value::Float(a + b)) *)
| HCastL (o : fop2)             (* Some(Value::Float(a as f64 + b)) *)
| HCastR (o : fop2)             (* Some(Value::Float(a + *b as f64)) *)
| HConcat                       (* string concatenation *)
| HPowII                        (* Some(Value::Int((a as f64).powi(b as i32) as i64)) *)
| HPowFI.                       (* Some(Value::Float(a.powi(b as i32))) *)
Inductive aguard := GNone | GIntNZ (* if *b != 0 *) | GFloatNZ (* if *b != 0.0 *).
Record aarm := mkAarm { aa_op : binop; aa_l : aty; aa_r : aty; aa_g : aguard; aa_how : ahow }.

Inductive nhow := NInt (m : imode) | NFloat.          (* UnaryOp::Neg arms *)

(* ordering comparisons BinOp::{Lt,Le,Gt,Ge}: `(Value::X(a), Value::Y(b)) => Some(Value::Bool(<how>))`
     ODirect r  `a r b`                                              (same-typed operands)
     OCastL r   `(a as f64) r b`          OCastR r   `a r (b as f64)`   (the int is rounded)
     OExactL r  `cmp_int_float(a, b).is_some_and(Ordering::is_r)`      (int on the left)
     OExactR r  `cmp_int_float(b, a).is_some_and(Ordering::is_r)`      (int on the right; r tests int ? float) *)
Inductive orel := RLt | RLe | RGt | RGe.
Inductive ohow := ODirect (r : orel) | OCastL (r : orel) | OCastR (r : orel) | OExactL (r : orel) | OExactR (r : orel).
Record oarm := mkOarm { oa_op : binop; oa_l : aty; oa_r : aty; oa_how : ohow }.
Definition orel_test (r : orel) (c : comparison) : bool :=
  match r, c with
  | RLt, Lt => true
  | RLe, (Lt | Eq) => true
  | RGt, Gt => true
  | RGe, (Gt | Eq) => true
  | _, _ => false
  end.

(* the last arm of eval_expr_with_functions: `_ => None`, or `_ => eval_filter_expr(expr, ..)`
   which evaluates the same expression again (unbounded recursion, stack overflow abort) *)
Inductive fallthrough_kind := FtNoValue | FtSelfRecursion.

(* built-in functions: the `"name" [if args.len() <op> n] =>` arms of eval_builtin_function *)
Inductive arity := ArAny | ArEq (n : nat) | ArGe (n : nat) | ArNonEmpty.

(* ------------------------------------------------------- folder rule tables *)
Inductive lpat := PAny | PIntAny | PIntLit (z : Z) | PFloatAny.
Inductive fguard := FGNone | FGRightIntNZ | FGRightFloatNZ | FGRightIntNonNeg.
Inductive faction :=
| FAInt (m : imode) (o : iop2)  (* Expr::Int(a.wrapping_add(b)) | a.checked_add(b).map(Expr::Int) | Expr::Int(a / b) *)
| FAPowWrapping                 (* Expr::Int(a.wrapping_pow(b as u32)) *)
| FAPowEval                     (* Expr::Int((a as f64).powi(b as i32) as i64) *)
| FAFloat (o : fop2)            (* Expr::Float(a + b) *)
| FAConstInt (z : Z)            (* Expr::Int(0) *)
| FALeft | FARight.             (* identity rewrites: return the other operand *)
Record frule := mkFrule { fr_op : binop; fr_l : lpat; fr_r : lpat; fr_g : fguard; fr_act : faction }.
Inductive uaction := UAInt (m : imode) | UAFloat.      (* fold_unary Neg arms *)
