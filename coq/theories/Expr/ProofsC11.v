(* C11: the evaluator model never reaches Panic -- provided the tables regenerated from
   evaluator.rs contain no raw i64 arithmetic, no unguarded wrapping division, and no
   self-recursive fallthrough arm (checked here by computation on the generated tables). *)
From VP Require Import Base.Tactics Expr.Syntax Expr.Float Expr.Gen_EvalTables Expr.Gen_FoldRules Expr.Model Expr.ProofsBase.
Local Open Scope Z_scope.

Definition arm_safeb (a : aarm) : bool :=
  match aa_how a with
  | HInt Raw _ => false
  | HInt Wrapping IDiv | HInt Wrapping IRem => match aa_g a with GIntNZ => true | _ => false end
  | _ => true
  end.
Definition neg_safeb (x : aty * nhow) : bool := match snd x with NInt Raw => false | _ => true end.

(* facts about the regenerated tables *)
Lemma arith_arms_safe : forallb arm_safeb arith_arms = true.
Proof. vm_compute. reflexivity. Qed.
Lemma neg_arms_safe : forallb neg_safeb neg_arms = true.
Proof. vm_compute. reflexivity. Qed.
Lemma abs_mode_safe : abs_int_mode <> Raw.
Proof. vm_compute. discriminate. Qed.
Lemma fallthrough_safe : fallthrough = FtNoValue.
Proof. vm_compute. reflexivity. Qed.

Section NoPanic.
Variable O : fops.
Variable X : xops O.
Notation value := (value O).
Notation expr := (expr O).

Lemma apply_how_no_panic : forall a l r,
  arm_safeb a = true -> guard_holds O (aa_g a) r = true -> apply_how O (aa_how a) l r <> Panic.
Proof.
  intros [op lt rt g h] l r Hs Hg. unfold arm_safeb in Hs. cbn [aa_how aa_g] in *.
  destruct h; destruct l; destruct r; cbn [apply_how]; try discriminate.
  apply lift_int_no_panic.
  destruct m.
  - discriminate.
  - apply int2_checked_no_panic.
  - apply int2_wrapping_no_panic.
    destruct o; try (right; split; discriminate);
      (destruct g; try discriminate; cbn in Hg; left; intro E; subst; cbn in Hg; discriminate).
Qed.

Lemma pick_arm_no_panic : forall arms op l r,
  forallb arm_safeb arms = true -> pick_arm O arms op l r <> Panic.
Proof.
  induction arms as [|a arms IH]; intros op l r H; cbn [pick_arm]; [discriminate|].
  cbn [forallb] in H. apply andb_true_iff in H. destruct H as [Ha Hr].
  destruct (binop_eqb (aa_op a) op && ty_matches O (aa_l a) l && ty_matches O (aa_r a) r && guard_holds O (aa_g a) r) eqn:E.
  - apply andb_true_iff in E. destruct E as [_ Hg]. now apply apply_how_no_panic.
  - now apply IH.
Qed.

Lemma arith_no_panic : forall op l r, arith O op l r <> Panic.
Proof. intros. apply pick_arm_no_panic, arith_arms_safe. Qed.

Lemma of_obool_no_panic : forall o, of_obool O o <> Panic.
Proof. intros [b|]; discriminate. Qed.

Lemma eval_binop_no_panic : forall op l r, eval_binop O op l r <> Panic.
Proof.
  intros op l r. destruct op; cbn [eval_binop];
    try apply arith_no_panic; try apply of_obool_no_panic; try discriminate;
    destruct (as_bool O l), (as_bool O r); discriminate.
Qed.

Lemma pick_neg_no_panic : forall arms v, forallb neg_safeb arms = true -> pick_neg O arms v <> Panic.
Proof.
  induction arms as [|[t h] arms IH]; intros v H; cbn [pick_neg]; [discriminate|].
  cbn [forallb] in H. apply andb_true_iff in H. destruct H as [Ha Hr].
  destruct (ty_matches O t v).
  - destruct h as [m|]; destruct v; try discriminate.
    apply lift_int_no_panic, int1_not_raw_no_panic. intro; subst; discriminate.
  - now apply IH.
Qed.

Lemma eval_unop_no_panic : forall op v, eval_unop O op v <> Panic.
Proof.
  intros [] v; cbn [eval_unop]; try discriminate.
  - apply pick_neg_no_panic, neg_arms_safe.
  - destruct v; discriminate.
Qed.

Lemma slice_raw_ok : forall A (l : list A) a b, a <= b -> b <= zlen l -> exists r, slice_raw l a b = Val r.
Proof.
  intros A l a b H1 H2. unfold slice_raw.
  replace (a <=? b) with true by (symmetry; apply Z.leb_le; exact H1).
  replace (b <=? zlen l) with true by (symmetry; apply Z.leb_le; exact H2).
  eexists; reflexivity.
Qed.

Lemma apply_builtin_no_panic : forall b args, apply_builtin O X b args <> Panic.
Proof.
  intros b args.
  destruct b; cbn [apply_builtin];
    try (unfold float_fn, to_int_fn, is_fn, num1; repeat dm; discriminate).
  - (* abs *)
    unfold num1. destruct args as [|[] ?]; try discriminate.
    apply lift_int_no_panic, int1_not_raw_no_panic, abs_mode_safe.
  - (* set *)
    destruct args as [|a0 [|a1 [|a2 [|? ?]]]]; try (repeat dm; discriminate).
    destruct a0; try discriminate; destruct a1; try discriminate.
    destruct (as_usize z <? zlen l) eqn:E; [|discriminate].
    unfold set_raw. rewrite E. discriminate.
  - (* substring *)
    destruct args as [|a0 [|a1 rest]]; try (repeat dm; discriminate).
    destruct a0; try discriminate. destruct a1; try discriminate.
    match goal with |- context [match ?o with Some _ => _ | None => NoVal end] => destruct o as [en|] end; [|discriminate].
    destruct ((as_usize z <=? en) && (en <=? zlen s)) eqn:E; [|discriminate].
    unfold slice_raw. rewrite E. discriminate.
Qed.

Lemma eval_builtin_no_panic : forall name args, eval_builtin O X name args <> Panic.
Proof.
  intros. unfold eval_builtin. destruct (lookup_builtin name (length args)); [apply apply_builtin_no_panic | discriminate].
Qed.

Lemma eval_filter_no_panic : forall A (ev : A -> outcome value) l,
  Forall (fun x => ev x <> Panic) l -> eval_filter O ev l <> Panic.
Proof.
  intros A ev l H. induction H as [|x l Hx Hl IH]; cbn; [discriminate|].
  destruct (ev x); try congruence.
  destruct (eval_filter O ev l); congruence.
Qed.

Lemma eval_entries_no_panic : forall A (ev : A -> outcome value) key l acc,
  Forall (fun x => ev x <> Panic) l -> eval_entries O ev key l acc <> Panic.
Proof.
  intros A ev key l. induction l as [|x l IH]; intros acc H; cbn; [discriminate|].
  inversion H; subst. destruct (ev x); try congruence; now apply IH.
Qed.

Lemma opt_int_no_panic : forall (ev : expr -> outcome value) o d,
  (forall x, o = Some x -> ev x <> Panic) -> opt_int O ev o d <> Panic.
Proof.
  intros ev [x|] d H; cbn; [|discriminate].
  specialize (H x eq_refl). destruct (ev x); congruence.
Qed.

Lemma the_fallthrough_no_panic : the_fallthrough O <> Panic.
Proof.
  unfold the_fallthrough. pose proof fallthrough_safe as H.
  destruct fallthrough; [intro; discriminate | discriminate H].
Qed.

Theorem eval_no_panic : forall env e, eval O X env e <> Panic.
Proof.
  intros env. induction e using expr_ind2; cbn [eval];
    try apply the_fallthrough_no_panic; try discriminate.
  (* literals, including the timestamp literal (timestamp_literal_handled = true), are closed by discriminate *)
  - (* array *)
    pose proof (eval_filter_no_panic _ (eval O X env) l H). destruct (eval_filter O (eval O X env) l); congruence.
  - (* map *)
    pose proof (eval_entries_no_panic _ (fun kv : str * expr => eval O X env (snd kv)) fst l [] H) as Hn.
    match goal with |- context [match ?x with _ => _ end] => destruct x end; congruence.
  - (* ident *)
    unfold lookup_field. dm; discriminate.
  - (* binary *)
    destruct (eval O X env e1); try congruence. destruct (eval O X env e2); try congruence.
    apply eval_binop_no_panic.
  - (* unary *)
    destruct (eval O X env e); try congruence. apply eval_unop_no_panic.
  - (* member *)
    unfold eval_member, lookup_field. repeat dm; discriminate.
  - (* index *)
    destruct (eval O X env e1); try congruence. destruct (eval O X env e2); try congruence.
    repeat dm; discriminate.
  - (* slice *)
    destruct (eval O X env e); try congruence.
    pose proof (opt_int_no_panic (eval O X env) s 0 H) as Hs.
    destruct (opt_int O (eval O X env) s 0) as [si| |]; try congruence.
    destruct a; try discriminate.
    + pose proof (opt_int_no_panic (eval O X env) en (zlen s0) H0) as He.
      destruct (opt_int O (eval O X env) en (zlen s0)) as [ei| |]; try congruence.
      destruct (as_usize si <=? Z.min (as_usize ei) (zlen s0)) eqn:E; [|discriminate].
      destruct (slice_raw_ok _ s0 (as_usize si) (Z.min (as_usize ei) (zlen s0))) as [r Hr];
        [apply Z.leb_le; exact E | apply Z.le_min_r |]. rewrite Hr. discriminate.
    + pose proof (opt_int_no_panic (eval O X env) en (zlen l) H0) as He.
      destruct (opt_int O (eval O X env) en (zlen l)) as [ei| |]; try congruence.
      destruct (as_usize si <=? Z.min (as_usize ei) (zlen l)) eqn:E; [|discriminate].
      destruct (slice_raw_ok _ l (as_usize si) (Z.min (as_usize ei) (zlen l))) as [r Hr];
        [apply Z.leb_le; exact E | apply Z.le_min_r |]. rewrite Hr. discriminate.
  - (* call *)
    destruct e; try discriminate.
    pose proof (eval_filter_no_panic _ (fun a : option str * expr => eval O X env (snd a)) args H) as Hn.
    match goal with |- context [match ?x with _ => _ end] => destruct x end; try congruence.
    apply eval_builtin_no_panic.
  - (* if *)
    destruct (eval O X env e1); try congruence.
    match goal with |- context [if ?c then _ else _] => destruct c end; assumption.
  - (* coalesce *)
    destruct (eval O X env e1) as [[]| |]; try congruence; discriminate.
  - (* range *)
    destruct (eval O X env e1); try congruence. destruct (as_int O a); try discriminate.
    destruct (eval O X env e2); try congruence. destruct (as_int O a0); discriminate.
Qed.

End NoPanic.
