(* Property theorems for C10 (constant folding preserves evaluation).  Nothing but statements closed by [exact] / computation on concrete instances.
   The statements are pinned again in coq/audit/C10.v.

   Vocabulary:  fold O e : option expr   the folder of optimize.rs (None = the folder panics);
   eval O X env e : outcome value        eval_expr_with_functions on event env (Val / NoVal / Panic);
   both are driven by the tables that translate/fold_rules.py and translate/expr_arms.py regenerate
   from the Rust source on every run (Gen_FoldRules.v, Gen_EvalTables.v), so these theorems are
   re-proved against the current source each time.  O : fops is *any* implementation of the f64
   operations, X : xops O *any* implementation of float/timestamp formatting and of the std string
   helpers; eval64 / fold64 are the binary64 (Flocq) instance that the correspondence check runs. *)
From Coq Require Import String.
From VP Require Import Base.Tactics Expr.Syntax Expr.Float Expr.Gen_EvalTables Expr.Gen_FoldRules Expr.Model
  Expr.ProofsBase Expr.ProofsC10 Expr.ProofsC10Total Expr.B64 Expr.Run.
Close Scope string_scope.
Local Open Scope list_scope.
Local Open Scope Z_scope.

(* ------------------------------------------------------------------ C10 *)

(* Known finding (known_findings.json, class "type-blind-identity-rewrite"): while folding e, one
   of the eight identity rewrites of fold_binary's second pass fires (Model.known_identity_rule):
   `x * 0 -> 0`, `0 * x -> 0`, `x * 1 -> x`, `1 * x -> x`, `x + 0 -> x`, `0 + x -> x`, `x - 0 -> x`,
   `x / 1 -> x` for a non-literal x (after the sub-expressions have been folded).  They assume that
   x is an integer; they are pinned by optimize.rs's own unit tests and are not repaired.  Any
   other rule of the regenerated table must be in the whitelist of type-safe rule shapes
   (Model.rule_okb), or the proof of C10_fold_sound breaks (ProofsC10.fold_phases_classified). *)
Definition Known_C10_identity (O : fops) (e : expr O) : Prop := identity_fires O e = true.

(* For every expression outside that class: the folder returns (it does not panic), and on every
   event the folded expression evaluates to the same value, or the same absence of a value, as
   the unfolded one. *)
Theorem C10_fold_sound : forall (O : fops) (X : xops O) (e : expr O),
  ~ Known_C10_identity O e ->
  exists e', fold O e = Some e' /\ forall env, eval O X env e' = eval O X env e.
Proof.
  intros O X e HK. destruct (fold_sound O X e) as [e' [H [S _]]].
  - unfold Known_C10_identity in HK. destruct (identity_fires O e); [exfalso; apply HK; reflexivity | reflexivity].
  - exists e'. split; [exact H | exact S].
Qed.

(* the same for the binary64 instance that is run against the implementation *)
Theorem C10_fold_sound_b64 : forall e : E,
  ~ Known_C10_identity b64ops e ->
  exists e', fold64 e = Some e' /\ forall env, eval64 env e' = eval64 env e.
Proof. intros e HK. exact (C10_fold_sound b64ops xb64 e HK). Qed.

(* On every expression, inside the class or not, the folder returns: folding never panics (in
   particular not on `MIN / -1`, `MIN % -1`, `-MIN`, which used to abort parse()). *)
Theorem C10_fold_never_panics : forall (O : fops) (e : expr O), exists e', fold O e = Some e'.
Proof. exact fold_total. Qed.

(* The class is a genuine finding: `price * 0` is in it, folds to the integer 0, and evaluates to
   the float 0.0 when price is the float 2.5; `name + 0` folds to `name`, a string, where the
   unfolded expression has no value.  (Rendering of Run.v: K<class>|F:<folded>|<unfolded>;<folded>) *)
Theorem C10_identity_refuted :
  let price := [112; 114; 105; 99; 101]%N in
  let name := [110; 97; 109; 101]%N in
  Known_C10_identity b64ops (e2 Mul (ex price) (ei 0)) /\
  Known_C10_identity b64ops (e2 Add (ex name) (ei 0)) /\
  run_case (e2 Mul (ex price) (ei 0)) [ev [65%N] [(price, vf 4612811918334230528)]] = "K1|F:i0|V:f0;V:i0"%string /\
  run_case (e2 Add (ex name) (ei 0)) [ev [65%N] [(name, vs [110%N])]] = "K1|F:x[110,97,109,101]|N;V:s[110]"%string.
Proof. unfold Known_C10_identity. repeat split; vm_compute; reflexivity. Qed.

(* non-vacuity of the main theorem: literal arithmetic does fold (and is outside the class); an
   overflowing literal sum is left for the runtime, where it has no value; so are MIN / -1 and -MIN *)
Example C10_folds_literals :
  run_case (e2 Add (ei 1) (e2 Mul (ei 2) (ei 3))) [] = "K0|F:i7"%string /\
  run_case (e2 Pow (ei 2) (ei 63)) [ev [] []] = "K0|F:i9223372036854775807|V:i9223372036854775807;V:i9223372036854775807"%string.
Proof. split; vm_compute; reflexivity. Qed.
Example C10_overflow_left_for_runtime :
  run_case (e2 Add (ei i64_max) (ei 1)) [ev [] []] = "K0|F:B(Add,i9223372036854775807,i1)|N;N"%string /\
  run_case (e2 Div (ei i64_min) (ei (-1))) [ev [] []] = "K0|F:B(Div,i-9223372036854775808,i-1)|N;N"%string /\
  run_case (e1 Neg (ei i64_min)) [ev [] []] = "K0|F:U(Neg,i-9223372036854775808)|N;N"%string.
Proof. repeat split; vm_compute; reflexivity. Qed.

