(* C40 — property theorems only.  Model: Value/Model.v (the definitions evaluated in the
   correspondence check); lemmas: Value/ProofsBase.v, ProofsEq.v, ProofsHash.v.

   [wf v] is the IndexMap invariant (keys of every map are unique), which every Value has.
   [hash_stream v] is the exact sequence of Hasher::write_* calls made by Value::hash, so equal
   streams give equal hashes under every Hasher.  Values range over every variant at any depth:
   floats by their 64 bits (all NaN payloads, both zeros), maps with any insertion order. *)
From VP Require Import Base.Tactics Value.Model Value.ProofsBase Value.ProofsEq Value.ProofsHash Value.FloatSpec.
From Flocq Require Import IEEE754.Binary IEEE754.Bits.
Open Scope Z_scope.

Theorem C40_refl : forall a, wf a = true -> veq a a = true.
Proof. exact veq_refl. Qed.

Theorem C40_sym : forall a b, wf a = true -> wf b = true -> veq a b = true -> veq b a = true.
Proof. exact veq_sym. Qed.

Theorem C40_trans : forall a b c, wf a = true -> wf b = true -> wf c = true ->
  veq a b = true -> veq b c = true -> veq a c = true.
Proof. exact veq_trans. Qed.

Theorem C40_hash : forall a b, wf a = true -> wf b = true -> veq a b = true -> hash_stream a = hash_stream b.
Proof. exact veq_hash. Qed.

(* the shapes the property names are equal values, so the theorems say something about them:
   maps written in different insertion orders, nested, with NaNs of different payload and zeros of different sign *)
Definition ex_a : value :=
  VMap [([97], VMap [([120], VFloat 0); ([121], VArr [])]); ([98], VFloat 9221120237041090560)].
Definition ex_b : value :=
  VMap [([98], VFloat 9221120237041090561); ([97], VMap [([121], VArr []); ([120], VFloat 9223372036854775808)])].
Example C40_nonvacuous : wf ex_a = true /\ wf ex_b = true /\ veq ex_a ex_b = true /\ ex_a <> ex_b /\ veq ex_a (VMap []) = false.
Proof. repeat split; try (vm_compute; reflexivity). discriminate. Qed.

(* the hash before the repair visited map entries in insertion order and was not consistent with == *)
Theorem C40_unrepaired_hash_refuted : exists a b,
  wf a = true /\ wf b = true /\ veq a b = true /\ hash_stream_unrepaired a <> hash_stream_unrepaired b.
Proof.
  exists (VMap [([97], VInt 1); ([98], VInt 2)]), (VMap [([98], VInt 2); ([97], VInt 1)]).
  repeat split; try (vm_compute; reflexivity). vm_compute. discriminate.
Qed.

(* bit-level float facts used by the model, for the special values *)
Example C40_float_cases :
  float_eq 9221120237041090560 18444492273895866368 = true /\       (* NaN == -NaN (other payload) *)
  float_eq 0 9223372036854775808 = true /\                          (* 0.0 == -0.0 *)
  float_eq 9218868437227405312 18442240474082181120 = false /\      (* inf <> -inf *)
  float_eq 9221120237041090560 9218868437227405312 = false /\       (* NaN <> inf *)
  float_hash_bits 18444492273895866368 = float_hash_bits 9218868437227405313 /\
  float_hash_bits 9223372036854775808 = 0.
Proof. vm_compute. repeat split; reflexivity. Qed.

(* The bit-level float predicates of the model are IEEE-754 binary64 (Flocq): [is_nan] is NaN-ness and
   [ieee_eq] is comparison-equal, for every 64-bit pattern.  (These two theorems inherit the standard
   Reals axioms from Flocq's binary64 construction; the four theorems above use no axiom.) *)
Theorem C40_float_nan_is_ieee : forall x, 0 <= x < 18446744073709551616 ->
  Model.is_nan x = Binary.is_nan 53 1024 (b64_of_bits x).
Proof. exact is_nan_flocq. Qed.

Theorem C40_float_eq_is_ieee : forall x y, 0 <= x < 18446744073709551616 -> 0 <= y < 18446744073709551616 ->
  ieee_eq x y = match Bcompare 53 1024 (b64_of_bits x) (b64_of_bits y) with Some Eq => true | _ => false end.
Proof. exact ieee_eq_flocq. Qed.
