(* Lemmas for C40, part 3: equal values produce the same Hasher write sequence. *)
From VP Require Import Base.Tactics Value.Model Value.ProofsBase Value.ProofsEq.
Open Scope Z_scope.

Section Sorting.
  Context {A : Type}.
  Notation entry := (list Z * A)%type.
  Definition klt (x y : entry) : Prop := bytes_cmp (fst x) (fst y) = Lt.

  Fixpoint ssorted (l : list entry) : Prop :=
    match l with [] => True | x :: r => (forall y, In y r -> klt x y) /\ ssorted r end.

  Lemma insert_in : forall (e : entry) l x, In x (insert_entry e l) <-> x = e \/ In x l.
  Proof.
    induction l as [|y r IH]; intros x; cbn.
    - intuition.
    - destruct (bytes_cmp (fst e) (fst y)); cbn; try rewrite IH; intuition.
  Qed.
  Lemma sort_in : forall (l : list entry) x, In x (sort_entries l) <-> In x l.
  Proof. induction l as [|e r IH]; intros x; cbn; [tauto|]. rewrite insert_in, IH. intuition. Qed.

  Lemma klt_trans : forall x y z : entry, klt x y -> klt y z -> klt x z.
  Proof. unfold klt. intros. eapply bytes_cmp_lt_trans; eauto. Qed.
  Lemma klt_irrefl : forall x : entry, ~ klt x x.
  Proof. unfold klt. intros x H. rewrite bytes_cmp_refl in H. discriminate. Qed.
  Lemma klt_asym : forall x y : entry, klt x y -> ~ klt y x.
  Proof. unfold klt. intros x y H1 H2. rewrite (bytes_cmp_antisym (fst x) (fst y)), H1 in H2. discriminate. Qed.

  Lemma insert_sorted : forall (e : entry) l, ssorted l -> (forall y, In y l -> fst y <> fst e) -> ssorted (insert_entry e l).
  Proof.
    induction l as [|x r IH]; intros S D; cbn.
    - split; [intros y []|exact I].
    - destruct S as (S1 & S2). destruct (bytes_cmp (fst e) (fst x)) eqn:C.
      + apply bytes_cmp_eq in C. exfalso. apply (D x (or_introl eq_refl)). auto.
      + cbn. split; [|split; auto]. intros y [<-|Iy]; [exact C|]. apply klt_trans with x; auto.
      + cbn. split.
        * intros y Iy. apply (proj1 (insert_in e r y)) in Iy. destruct Iy as [->|Iy]; auto.
          unfold klt. rewrite (bytes_cmp_antisym (fst e) (fst x)), C. reflexivity.
        * apply IH; auto. intros y Iy. apply D. right. exact Iy.
  Qed.

  Lemma sort_sorted : forall l : list entry, NoDup (map fst l) -> ssorted (sort_entries l).
  Proof.
    induction l as [|e r IH]; intros N; cbn; [exact I|]. inv N.
    apply insert_sorted; auto. intros y Iy E. apply (proj1 (sort_in r y)) in Iy. apply H1. rewrite <- E. apply in_map. exact Iy.
  Qed.

  Lemma sorted_unique_eq : forall l1 l2 : list entry, ssorted l1 -> ssorted l2 ->
    (forall x, In x l1 <-> In x l2) -> l1 = l2.
  Proof.
    induction l1 as [|x r1 IH]; intros [|y r2] S1 S2 M; auto.
    - exfalso. apply (proj2 (M y)). left; auto.
    - exfalso. apply (proj1 (M x)). left; auto.
    - destruct S1 as (A1 & A2). destruct S2 as (B1 & B2).
      assert (x = y).
      { destruct (proj1 (M x) (or_introl eq_refl)) as [E|Ix]; auto.
        destruct (proj2 (M y) (or_introl eq_refl)) as [E|Iy]; auto.
        exfalso. apply (klt_asym x y); auto. }
      subst y. f_equal. apply IH; auto.
      intros z. split; intros Iz.
      + destruct (proj1 (M z) (or_intror Iz)) as [E|I2]; auto. subst z. exfalso. apply (klt_irrefl x). auto.
      + destruct (proj2 (M z) (or_intror Iz)) as [E|I2]; auto. subst z. exfalso. apply (klt_irrefl x). auto.
  Qed.

  Lemma sort_ext : forall l1 l2 : list entry, NoDup (map fst l1) -> NoDup (map fst l2) ->
    (forall x, In x l1 <-> In x l2) -> sort_entries l1 = sort_entries l2.
  Proof.
    intros l1 l2 N1 N2 M. apply sorted_unique_eq; auto using sort_sorted.
    intros x. rewrite !sort_in. auto.
  Qed.
End Sorting.

Definition entries (m : list (list Z * value)) : list (list Z * list tok) :=
  map (fun e => (fst e, hash_stream (snd e))) m.
Lemma entries_keys : forall m, map fst (entries m) = map fst m.
Proof. intros. unfold entries. rewrite map_map. reflexivity. Qed.
Lemma hash_map_unfold : forall m, hash_stream (VMap m) =
  TIsize 8 :: TUsize (Z.of_nat (length m)) :: flat_map (fun e => (hash_str (fst e) ++ snd e)%list) (sort_entries (entries m)).
Proof. reflexivity. Qed.

Lemma arr_eq_length : forall la lb, arr_eq la lb = true -> length la = length lb.
Proof.
  induction la as [|x r IH]; intros [|y r0] H; cbn in *; try discriminate; auto.
  apply andb_true_iff in H. destruct H. f_equal. auto.
Qed.

Lemma veq_hash : forall a b, wf a = true -> wf b = true -> veq a b = true -> hash_stream a = hash_stream b.
Proof.
  induction a using value_ind'; intros b0 Wa Wb E; destruct b0; try (cbn in E; discriminate).
  - reflexivity.
  - cbn in *. destruct b, b0; try discriminate; reflexivity.
  - cbn in *. assert (z = z0) by lia. subst. reflexivity.
  - cbn in *. rewrite (float_eq_hash _ _ E). reflexivity.
  - cbn in *. apply bytes_eqb_eq in E. subst. reflexivity.
  - cbn in *. assert (z = z0) by lia. subst. reflexivity.
  - cbn in *. assert (z = z0) by lia. subst. reflexivity.
  - rewrite veq_arr in E. cbn [hash_stream]. rewrite (arr_eq_length _ _ E). do 2 f_equal.
    pose proof (wf_arr _ Wa) as W1. pose proof (wf_arr _ Wb) as W2. clear Wa Wb.
    revert l0 E W2. induction l as [|x r IHr]; intros [|y r0] E W2; cbn in *; try discriminate; auto.
    inv H. apply andb_true_iff in E. destruct E as (E1 & E2). f_equal.
    + apply H2; auto.
    + apply IHr; auto.
  - rewrite veq_map in E. apply andb_true_iff in E. destruct E as (El & E). apply Nat.eqb_eq in El.
    destruct (wf_map _ Wa) as (Na & Wma). destruct (wf_map _ Wb) as (Nb & Wmb).
    rewrite !hash_map_unfold. rewrite El. do 3 f_equal.
    rewrite Forall_forall in H.
    apply sort_ext; try (rewrite entries_keys; auto).
    intros [k s]. unfold entries. rewrite !in_map_iff. split.
    + intros ((k0 & v) & Ex & Iv). cbn in Ex. inv Ex.
      destruct (proj1 (map_all_spec _ _) E k v Iv) as (v' & L & Ev).
      exists (k, v'). cbn. split; [|apply lookup_in; auto].
      f_equal. symmetry. apply (H (k, v) Iv); eauto. apply lookup_in in L. eauto.
    + intros ((k0 & v') & Ex & Iv'). cbn in Ex. inv Ex.
      destruct (map_eq_converse m l Na Nb El E k v' Iv') as (v & Iv & Ev).
      exists (k, v). cbn. split; auto. f_equal. apply (H (k, v) Iv); eauto.
Qed.
