(* Lemmas for C40, part 1: byte strings, floats at bit level, induction principle, lookup. *)
From VP Require Import Base.Tactics Value.Model.
Open Scope Z_scope.

(* ---- byte strings ---- *)
Lemma bytes_eqb_eq : forall a b, bytes_eqb a b = true <-> a = b.
Proof.
  induction a as [|x a IH]; destruct b as [|y b]; cbn; split; intros H; try discriminate; auto.
  - apply andb_true_iff in H. destruct H as (H1 & H2). apply IH in H2. f_equal; [lia|auto].
  - inv H. apply andb_true_iff. split; [lia|]. apply IH. reflexivity.
Qed.
Lemma bytes_eqb_refl : forall a, bytes_eqb a a = true.
Proof. intros. apply bytes_eqb_eq. reflexivity. Qed.
Lemma bytes_eqb_neq : forall a b, bytes_eqb a b = false <-> a <> b.
Proof.
  intros. split; intros H.
  - intros E. apply bytes_eqb_eq in E. congruence.
  - destruct (bytes_eqb a b) eqn:E; auto. apply bytes_eqb_eq in E. contradiction.
Qed.
Lemma bytes_eqb_sym : forall a b, bytes_eqb a b = bytes_eqb b a.
Proof.
  intros. destruct (bytes_eqb a b) eqn:E.
  - apply bytes_eqb_eq in E. subst. symmetry. apply bytes_eqb_refl.
  - apply bytes_eqb_neq in E. symmetry. apply bytes_eqb_neq. congruence.
Qed.

Lemma bytes_cmp_refl : forall a, bytes_cmp a a = Eq.
Proof. induction a as [|x a IH]; cbn; auto. rewrite Z.compare_refl. auto. Qed.
Lemma bytes_cmp_eq : forall a b, bytes_cmp a b = Eq -> a = b.
Proof.
  induction a as [|x a IH]; destruct b as [|y b]; cbn; intros H; try discriminate; auto.
  destruct (x ?= y) eqn:C; try discriminate. apply Z.compare_eq in C. subst. f_equal. auto.
Qed.
Lemma bytes_cmp_antisym : forall a b, bytes_cmp b a = CompOpp (bytes_cmp a b).
Proof.
  induction a as [|x a IH]; destruct b as [|y b]; cbn; auto.
  rewrite (Z.compare_antisym x y). destruct (x ?= y); cbn; auto.
Qed.
Lemma bytes_cmp_lt_trans : forall a b c, bytes_cmp a b = Lt -> bytes_cmp b c = Lt -> bytes_cmp a c = Lt.
Proof.
  induction a as [|x a IH]; destruct b as [|y b]; destruct c as [|z c]; cbn; intros H1 H2; try discriminate; auto.
  destruct (x ?= y) eqn:C1; destruct (y ?= z) eqn:C2; try discriminate.
  - apply Z.compare_eq in C1, C2. subst. rewrite Z.compare_refl. eauto.
  - apply Z.compare_eq in C1. subst. rewrite C2. auto.
  - apply Z.compare_eq in C2. subst. rewrite C1. auto.
  - assert (x ?= z = Lt) as -> by (rewrite Z.compare_lt_iff in *; lia). auto.
Qed.

(* ---- floats ---- *)
Lemma ieee_eq_zero : forall a, ieee_eq a 0 = negb (is_nan a) && is_zero a.
Proof.
  intros. unfold ieee_eq. change (is_nan 0) with false. change (is_zero 0) with true.
  cbn [negb]. rewrite andb_true_r, andb_true_r.
  destruct (a =? 0) eqn:E; cbn; auto. assert (a = 0) by lia. subst. reflexivity.
Qed.

(* float_eq as a formula over the classifications *)
Lemma float_eq_spec : forall a b, float_eq a b =
  (is_nan a && is_nan b) || (negb (is_nan a) && negb (is_nan b) && ((a =? b) || (is_zero a && is_zero b))).
Proof.
  intros. unfold float_eq. rewrite !ieee_eq_zero. unfold ieee_eq.
  destruct (is_nan a), (is_nan b), (is_zero a), (is_zero b), (a =? b); reflexivity.
Qed.

Lemma float_eq_refl : forall a, float_eq a a = true.
Proof. intros. rewrite float_eq_spec, Z.eqb_refl. destruct (is_nan a); reflexivity. Qed.
Lemma float_eq_sym : forall a b, float_eq a b = float_eq b a.
Proof.
  intros. rewrite !float_eq_spec, (Z.eqb_sym a b).
  destruct (is_nan a), (is_nan b), (is_zero a), (is_zero b), (b =? a); reflexivity.
Qed.
Lemma float_eq_trans : forall a b c, float_eq a b = true -> float_eq b c = true -> float_eq a c = true.
Proof.
  intros a b c. rewrite !float_eq_spec.
  destruct (is_nan a) eqn:Na, (is_nan b) eqn:Nb, (is_nan c) eqn:Nc; cbn; try discriminate; auto.
  intros H1 H2. apply orb_true_iff in H1, H2. apply orb_true_iff.
  destruct H1 as [H1|H1]; [assert (a = b) by lia; subst b; exact H2|].
  destruct H2 as [H2|H2]; [assert (b = c) by lia; subst c; right; exact H1|].
  right. apply andb_true_iff in H1, H2. apply andb_true_iff. tauto.
Qed.
Lemma float_eq_hash : forall a b, float_eq a b = true -> float_hash_bits a = float_hash_bits b.
Proof.
  intros a b. rewrite float_eq_spec. unfold float_hash_bits. rewrite !ieee_eq_zero.
  destruct (a =? b) eqn:E; [assert (a = b) by lia; subst b; auto|].
  destruct (is_nan a), (is_nan b), (is_zero a), (is_zero b); cbn; intros; try discriminate; auto.
Qed.

(* ---- nested induction principle ---- *)
Section ValueInd.
  Variable P : value -> Prop.
  Hypothesis HNull : P VNull.
  Hypothesis HBool : forall b, P (VBool b).
  Hypothesis HInt : forall z, P (VInt z).
  Hypothesis HFloat : forall z, P (VFloat z).
  Hypothesis HStr : forall s, P (VStr s).
  Hypothesis HTs : forall z, P (VTs z).
  Hypothesis HDur : forall z, P (VDur z).
  Hypothesis HArr : forall l, Forall P l -> P (VArr l).
  Hypothesis HMap : forall m, Forall (fun e => P (snd e)) m -> P (VMap m).

  Fixpoint value_ind' (v : value) : P v :=
    match v with
    | VNull => HNull | VBool b => HBool b | VInt z => HInt z | VFloat z => HFloat z | VStr s => HStr s
    | VTs z => HTs z | VDur z => HDur z
    | VArr l => HArr l ((fix go (l : list value) : Forall P l :=
                           match l with [] => Forall_nil _ | x :: r => Forall_cons _ (value_ind' x) (go r) end) l)
    | VMap m => HMap m ((fix go (m : list (list Z * value)) : Forall (fun e => P (snd e)) m :=
                           match m with [] => Forall_nil _ | e :: r => Forall_cons _ (value_ind' (snd e)) (go r) end) m)
    end.
End ValueInd.

(* ---- the two nested loops of veq, named ---- *)
Fixpoint arr_eq (la lb : list value) : bool :=
  match la, lb with
  | [], [] => true
  | x :: la', y :: lb' => veq x y && arr_eq la' lb'
  | _, _ => false
  end.
Fixpoint map_all (mb ma : list (list Z * value)) : bool :=
  match ma with
  | [] => true
  | (k, v) :: r => match lookup k mb with Some v' => veq v v' | None => false end && map_all mb r
  end.
Lemma veq_arr : forall la lb, veq (VArr la) (VArr lb) = arr_eq la lb.
Proof. intros la. cbn [veq]. induction la as [|x la IH]; destruct lb as [|y lb]; cbn; auto; try (rewrite IH; reflexivity). Qed.
Lemma veq_map : forall ma mb, veq (VMap ma) (VMap mb) = (length ma =? length mb)%nat && map_all mb ma.
Proof. intros. cbn [veq]. f_equal. induction ma as [|[k v] r IH]; cbn; auto; try (rewrite IH; reflexivity). Qed.

(* ---- lookup and unique keys ---- *)
Lemma existsb_bytes_in : forall k r, existsb (bytes_eqb k) r = true <-> In k r.
Proof.
  intros. rewrite existsb_exists. split.
  - intros (x & I & E). apply bytes_eqb_eq in E. subst. auto.
  - intros I. exists k. split; auto. apply bytes_eqb_refl.
Qed.
Lemma keys_unique_nodup : forall ks, keys_unique ks = true <-> NoDup ks.
Proof.
  induction ks as [|k r IH]; cbn; split; intros H; auto using NoDup_nil.
  - apply andb_true_iff in H. destruct H as (H1 & H2). constructor; [|apply IH; auto].
    intros I. apply existsb_bytes_in in I. rewrite I in H1. discriminate.
  - inv H. apply andb_true_iff. split; [|apply IH; auto].
    destruct (existsb (bytes_eqb k) r) eqn:E; auto. apply existsb_bytes_in in E. contradiction.
Qed.

Lemma lookup_in : forall A k (m : list (list Z * A)) v, lookup k m = Some v -> In (k, v) m.
Proof.
  induction m as [|[k' v'] r IH]; cbn; intros v H; [discriminate|].
  destruct (bytes_eqb k' k) eqn:E; [apply bytes_eqb_eq in E; inv H; auto | right; auto].
Qed.
Lemma lookup_none : forall A k (m : list (list Z * A)), lookup k m = None -> ~ In k (map fst m).
Proof.
  induction m as [|[k' v'] r IH]; cbn; intros H; [tauto|].
  destruct (bytes_eqb k' k) eqn:E; [discriminate|]. apply bytes_eqb_neq in E. intros [I|I]; [contradiction|]. apply IH; auto.
Qed.
Lemma in_lookup : forall A k v (m : list (list Z * A)), NoDup (map fst m) -> In (k, v) m -> lookup k m = Some v.
Proof.
  induction m as [|[k' v'] r IH]; cbn; intros N I; [contradiction|].
  inv N. destruct I as [I|I].
  - inv I. rewrite bytes_eqb_refl. reflexivity.
  - destruct (bytes_eqb k' k) eqn:E; [|auto].
    apply bytes_eqb_eq in E. subst. exfalso. apply H1. apply in_map_iff. exists (k, v). auto.
Qed.
