(* Executable model of crates/varpulis-core/src/value.rs: Value, PartialEq, Hash.

   Rust                                   model
   ------------------------------------   ---------------------------
   enum Value                             value   (Str / map keys = UTF-8 bytes; Float = the 64 bits;
                                                   Map = entries in insertion order, keys unique: [wf])
   float_eq                               float_eq (f64::is_nan, IEEE == at bit level: [is_nan], [ieee_eq])
   impl PartialEq for Value               veq     (Vec == : lengths then elements; IndexMap == : equal
                                                   lengths and every entry of self found in other with an equal value)
   impl Hash for Value                    hash_stream = the exact sequence of Hasher::write_* calls:
                                                   discriminant (write_isize), payload, lengths (write_usize),
                                                   str = write(bytes) + write_u8(0xff); Map entries visited in key order
                                                   (sort_unstable_by on unique keys = any sorting algorithm)
   No proofs in this file. *)
From VP Require Import Base.Tactics.
Open Scope Z_scope.

Inductive value :=
| VNull | VBool (b : bool) | VInt (z : Z) | VFloat (bits : Z) | VStr (s : list Z)
| VTs (z : Z) | VDur (z : Z) | VArr (l : list value) | VMap (l : list (list Z * value)).

(* ---- f64 at bit level ---- *)
Definition f_exp (x : Z) : Z := (x / 4503599627370496) mod 2048.       (* bits 52..62 *)
Definition f_man (x : Z) : Z := x mod 4503599627370496.                (* bits 0..51 *)
Definition is_nan (x : Z) : bool := (f_exp x =? 2047) && negb (f_man x =? 0).
Definition is_zero (x : Z) : bool := x mod 9223372036854775808 =? 0.    (* +0.0 or -0.0 *)
(* IEEE-754 ==: false if either is NaN; +0 == -0; otherwise distinct bit patterns are distinct numbers *)
Definition ieee_eq (a b : Z) : bool :=
  negb (is_nan a) && negb (is_nan b) && ((a =? b) || (is_zero a && is_zero b)).
Definition NAN_BITS : Z := 9221120237041090560.                         (* f64::NAN.to_bits() = 0x7ff8000000000000 *)

Definition float_eq (a b : Z) : bool :=
  if is_nan a && is_nan b then true
  else if ieee_eq a 0 && ieee_eq b 0 then true
  else ieee_eq a b.

Definition float_hash_bits (f : Z) : Z :=
  if is_nan f then NAN_BITS else if ieee_eq f 0 then 0 else f.

(* ---- keys ---- *)
Fixpoint bytes_eqb (a b : list Z) : bool :=
  match a, b with
  | [], [] => true
  | x :: a', y :: b' => (x =? y) && bytes_eqb a' b'
  | _, _ => false
  end.
(* Ord for str: lexicographic on bytes *)
Fixpoint bytes_cmp (a b : list Z) : comparison :=
  match a, b with
  | [], [] => Eq
  | [], _ :: _ => Lt
  | _ :: _, [] => Gt
  | x :: a', y :: b' => match x ?= y with Eq => bytes_cmp a' b' | c => c end
  end.

Fixpoint lookup {A} (k : list Z) (m : list (list Z * A)) : option A :=
  match m with
  | [] => None
  | (k', v) :: r => if bytes_eqb k' k then Some v else lookup k r
  end.

(* ---- PartialEq ---- *)
Fixpoint veq (a b : value) : bool :=
  match a, b with
  | VNull, VNull => true
  | VBool x, VBool y => Bool.eqb x y
  | VInt x, VInt y => x =? y
  | VFloat x, VFloat y => float_eq x y
  | VStr x, VStr y => bytes_eqb x y
  | VTs x, VTs y => x =? y
  | VDur x, VDur y => x =? y
  | VArr la, VArr lb =>
    (fix go (la lb : list value) : bool :=
       match la, lb with
       | [], [] => true
       | x :: la', y :: lb' => veq x y && go la' lb'
       | _, _ => false
       end) la lb
  | VMap ma, VMap mb =>
    (length ma =? length mb)%nat &&
    (fix all (ma : list (list Z * value)) : bool :=
       match ma with
       | [] => true
       | (k, v) :: r => match lookup k mb with Some v' => veq v v' | None => false end && all r
       end) ma
  | _, _ => false
  end.

(* ---- Hash ---- *)
Inductive tok := TIsize (z : Z) | TU8 (z : Z) | TI64 (z : Z) | TU64 (z : Z) | TUsize (z : Z) | TBytes (s : list Z).

Definition hash_str (s : list Z) : list tok := [TBytes s; TU8 255].

(* insertion sort of (key, payload) by key *)
Fixpoint insert_entry {A} (e : list Z * A) (l : list (list Z * A)) : list (list Z * A) :=
  match l with
  | [] => [e]
  | x :: r => match bytes_cmp (fst e) (fst x) with Gt => x :: insert_entry e r | _ => e :: l end
  end.
Fixpoint sort_entries {A} (l : list (list Z * A)) : list (list Z * A) :=
  match l with [] => [] | e :: r => insert_entry e (sort_entries r) end.

Fixpoint hash_stream (v : value) : list tok :=
  match v with
  | VNull => [TIsize 0]
  | VBool b => [TIsize 1; TU8 (if b then 1 else 0)]
  | VInt z => [TIsize 2; TI64 z]
  | VFloat f => [TIsize 3; TU64 (float_hash_bits f)]
  | VStr s => TIsize 4 :: hash_str s
  | VTs z => [TIsize 5; TI64 z]
  | VDur z => [TIsize 6; TU64 z]
  | VArr l => TIsize 7 :: TUsize (Z.of_nat (length l)) :: flat_map hash_stream l
  | VMap m => TIsize 8 :: TUsize (Z.of_nat (length m)) ::
              flat_map (fun e => (hash_str (fst e) ++ snd e)%list)
                       (sort_entries (map (fun e => (fst e, hash_stream (snd e))) m))
  end.

(* IndexMap invariant: keys are unique, at every level *)
Fixpoint keys_unique (ks : list (list Z)) : bool :=
  match ks with
  | [] => true
  | k :: r => negb (existsb (bytes_eqb k) r) && keys_unique r
  end.
Fixpoint wf (v : value) : bool :=
  match v with
  | VArr l => forallb wf l
  | VMap m => keys_unique (map fst m) && forallb (fun e => wf (snd e)) m
  | _ => true
  end.

(* Hash as it was before the repair (Map entries visited in insertion order): kept to state the old defect. *)
Fixpoint hash_stream_unrepaired (v : value) : list tok :=
  match v with
  | VArr l => TIsize 7 :: TUsize (Z.of_nat (length l)) :: flat_map hash_stream_unrepaired l
  | VMap m => TIsize 8 :: TUsize (Z.of_nat (length m)) ::
              flat_map (fun e => (hash_str (fst e) ++ hash_stream_unrepaired (snd e))%list) m
  | _ => hash_stream v
  end.
