(* Rendering for the correspondence check of C40 (evaluated by vm_compute). *)
From Coq Require Import String Ascii.
From VP Require Import Base.Tactics Base.Render Value.Model.
Open Scope string_scope.
Open Scope Z_scope.

Definition hex_digit (d : Z) : string :=
  match d with
  | 0 => "0" | 1 => "1" | 2 => "2" | 3 => "3" | 4 => "4" | 5 => "5" | 6 => "6" | 7 => "7"
  | 8 => "8" | 9 => "9" | 10 => "a" | 11 => "b" | 12 => "c" | 13 => "d" | 14 => "e" | _ => "f"
  end.
Definition hex_byte (b : Z) : string := hex_digit (b / 16) ++ hex_digit (b mod 16).
Definition str_of_tok (t : tok) : string :=
  match t with
  | TIsize z => "is:" ++ str_of_Z z
  | TU8 z => "u8:" ++ str_of_Z z
  | TI64 z => "i64:" ++ str_of_Z z
  | TU64 z => "u64:" ++ str_of_Z z
  | TUsize z => "us:" ++ str_of_Z z
  | TBytes s => "b" ++ String.concat "" (map hex_byte s)
  end.

(* eq matrix rows separated by '/', then '|', then the hash streams separated by '/', then '|' wf flags *)
Definition val_case (vs : list value) : string :=
  join "/" (map (fun a => String.concat "" (map (fun b => str_of_bool (veq a b)) vs)) vs)
  ++ "|" ++ join "/" (map (fun v => join "," (map str_of_tok (hash_stream v))) vs)
  ++ "|" ++ String.concat "" (map (fun v => str_of_bool (wf v)) vs).
