(* Lemmas for C40, part 2: veq is an equivalence on well-formed values. *)
From VP Require Import Base.Tactics Value.Model Value.ProofsBase.
Open Scope Z_scope.

Lemma map_all_spec : forall mb ma, map_all mb ma = true <->
  (forall k v, In (k, v) ma -> exists v', lookup k mb = Some v' /\ veq v v' = true).
Proof.
  induction ma as [|[k v] r IH]; cbn [map_all]; split; intros H.
  - intros k v [].
  - reflexivity.
  - apply andb_true_iff in H. destruct H as (H1 & H2). intros k0 v0 [I|I].
    + inv I. destruct (lookup k0 mb) as [v'|]; [eauto|discriminate].
    + apply IH; auto.
  - apply andb_true_iff. split.
    + destruct (H k v (or_introl eq_refl)) as (v' & L & E). rewrite L. exact E.
    + apply IH. intros k0 v0 I. apply H. right. exact I.
Qed.

Lemma wf_map : forall m, wf (VMap m) = true -> NoDup (map fst m) /\ (forall k v, In (k, v) m -> wf v = true).
Proof.
  intros m H. cbn [wf] in H. apply andb_true_iff in H. destruct H as (H1 & H2).
  split; [apply keys_unique_nodup; auto|]. intros k v I. rewrite forallb_forall in H2. apply (H2 (k, v) I).
Qed.
Lemma wf_arr : forall l, wf (VArr l) = true -> forall v, In v l -> wf v = true.
Proof. intros l H v I. cbn [wf] in H. rewrite forallb_forall in H. auto. Qed.

(* keys of ma are keys of mb when map_all holds; with unique keys and equal lengths also the converse *)
Lemma map_all_keys_incl : forall mb ma, map_all mb ma = true -> incl (map fst ma) (map fst mb).
Proof.
  intros mb ma H k I. apply in_map_iff in I. destruct I as ((k0 & v) & <- & I).
  destruct (proj1 (map_all_spec mb ma) H k0 v I) as (v' & L & _). apply lookup_in in L.
  apply in_map_iff. exists (k0, v'). auto.
Qed.

Lemma map_eq_converse : forall ma mb,
  NoDup (map fst ma) -> NoDup (map fst mb) -> length ma = length mb -> map_all mb ma = true ->
  forall k v', In (k, v') mb -> exists v, In (k, v) ma /\ veq v v' = true.
Proof.
  intros ma mb Na Nb Hl H k v' I.
  assert (Inc : incl (map fst mb) (map fst ma)).
  { apply NoDup_length_incl; auto.
    - rewrite !map_length. lia.
    - apply map_all_keys_incl; auto. }
  assert (Ik : In k (map fst ma)) by (apply Inc; apply in_map_iff; exists (k, v'); auto).
  apply in_map_iff in Ik. destruct Ik as ((k0 & v) & E & Iv). cbn in E. subst k0.
  exists v. split; auto.
  destruct (proj1 (map_all_spec mb ma) H k v Iv) as (v'' & L & E).
  rewrite (in_lookup _ k v' mb Nb I) in L. inv L. exact E.
Qed.

Lemma veq_refl : forall a, wf a = true -> veq a a = true.
Proof.
  induction a using value_ind'; intros W; cbn [veq]; auto using Z.eqb_refl, float_eq_refl, bytes_eqb_refl.
  - destruct b; reflexivity.
  - change (veq (VArr l) (VArr l) = true). rewrite veq_arr.
    pose proof (wf_arr l W) as Wl. clear W. induction l as [|x r IHr]; cbn; auto.
    inv H. apply andb_true_iff. split; [apply H2; apply Wl; left; auto|]. apply IHr; auto. intros v I. apply Wl. right. auto.
  - change (veq (VMap m) (VMap m) = true). rewrite veq_map. rewrite Nat.eqb_refl. cbn [andb].
    destruct (wf_map m W) as (N & Wm). apply map_all_spec. intros k v I. exists v. split; [apply in_lookup; auto|].
    rewrite Forall_forall in H. apply (H (k, v) I). eapply Wm; eauto.
Qed.

Lemma veq_sym : forall a b, wf a = true -> wf b = true -> veq a b = true -> veq b a = true.
Proof.
  induction a using value_ind'; intros b0 Wa Wb E; destruct b0; try (cbn in E; discriminate).
  - reflexivity.
  - cbn in *. destruct b, b0; auto.
  - cbn in *. lia.
  - cbn in *. rewrite float_eq_sym. auto.
  - cbn in *. rewrite bytes_eqb_sym. auto.
  - cbn in *. lia.
  - cbn in *. lia.
  - rewrite veq_arr in *. pose proof (wf_arr _ Wa) as Wl. pose proof (wf_arr _ Wb) as Wl0. clear Wa Wb.
    revert l0 E Wl0. induction l as [|x r IHr]; intros [|y r0] E Wl0; cbn in *; try discriminate; auto.
    inv H. apply andb_true_iff in E. destruct E as (E1 & E2). apply andb_true_iff. split.
    + apply H2; auto.
    + apply IHr; auto.
  - rewrite veq_map in *. apply andb_true_iff in E. destruct E as (El & E). apply Nat.eqb_eq in El.
    destruct (wf_map _ Wa) as (Na & Wma). destruct (wf_map _ Wb) as (Nb & Wmb).
    apply andb_true_iff. split; [apply Nat.eqb_eq; lia|].
    apply map_all_spec. intros k v' I.
    destruct (map_eq_converse m l Na Nb El E k v' I) as (v & Iv & Ev).
    exists v. split; [apply in_lookup; auto|].
    rewrite Forall_forall in H. apply (H (k, v) Iv); eauto.
Qed.

Lemma veq_trans : forall a b c, wf a = true -> wf b = true -> wf c = true ->
  veq a b = true -> veq b c = true -> veq a c = true.
Proof.
  induction a using value_ind'; intros b0 c0 Wa Wb Wc E1 E2; destruct b0; try (cbn in E1; discriminate);
    destruct c0; try (cbn in E2; discriminate).
  - reflexivity.
  - cbn in *. destruct b, b0, b1; auto.
  - cbn in *. lia.
  - cbn in *. eapply float_eq_trans; eauto.
  - cbn in *. apply bytes_eqb_eq in E1, E2. subst. apply bytes_eqb_refl.
  - cbn in *. lia.
  - cbn in *. lia.
  - rewrite veq_arr in *. pose proof (wf_arr _ Wa) as W1. pose proof (wf_arr _ Wb) as W2. pose proof (wf_arr _ Wc) as W3. clear Wa Wb Wc.
    revert l0 l1 E1 E2 W2 W3. induction l as [|x r IHr]; intros [|y r0] [|z r1] E1 E2 W2 W3; cbn in *; try discriminate; auto.
    inv H. apply andb_true_iff in E1, E2. destruct E1 as (A1 & A2), E2 as (B1 & B2). apply andb_true_iff. split.
    + apply (H2 y z); auto.
    + apply (IHr H3 (fun v I => W1 v (or_intror I)) r0 r1); auto.
  - rewrite veq_map in *. apply andb_true_iff in E1, E2. destruct E1 as (L1 & E1), E2 as (L2 & E2).
    apply Nat.eqb_eq in L1, L2.
    destruct (wf_map _ Wa) as (Na & Wma). destruct (wf_map _ Wb) as (Nb & Wmb). destruct (wf_map _ Wc) as (Nc & Wmc).
    apply andb_true_iff. split; [apply Nat.eqb_eq; lia|].
    apply map_all_spec. intros k v I.
    destruct (proj1 (map_all_spec _ _) E1 k v I) as (v' & Lk & Ev).
    pose proof (lookup_in _ _ _ _ Lk) as I'.
    destruct (proj1 (map_all_spec _ _) E2 k v' I') as (v'' & Lk' & Ev').
    exists v''. split; auto.
    rewrite Forall_forall in H. apply (H (k, v) I) with (b := v'); eauto.
    apply lookup_in in Lk'. eauto.
Qed.
