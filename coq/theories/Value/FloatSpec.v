(* C40: the bit-level float predicates of Value/Model.v agree with Flocq's IEEE-754 binary64. *)
From Coq Require Import ZArith Lia Bool.
From Flocq Require Import Core IEEE754.Binary IEEE754.Bits.
From VP Require Import Base.Tactics Value.Model.
Open Scope Z_scope.

Definition P52 : Z := 4503599627370496.
Definition P63 : Z := 9223372036854775808.
Definition P64 : Z := 18446744073709551616.

Definition ff (x : Z) : full_float := binary_float_of_bits_aux 52 11 x.
Definition cmp_ff (a b : full_float) : option comparison := SpecFloat.SFcompare (FF2SF a) (FF2SF b).

Lemma Bcompare_ff : forall f1 f2 : binary64, Bcompare 53 1024 f1 f2 = cmp_ff (B2FF 53 1024 f1) (B2FF 53 1024 f2).
Proof. intros. destruct f1, f2; reflexivity. Qed.

Lemma B2FF_b64 : forall x, B2FF 53 1024 (b64_of_bits x) = ff x.
Proof. intros. unfold b64_of_bits, binary_float_of_bits. apply B2FF_FF2B. Qed.

Lemma is_nan_ff : forall f : binary64, Binary.is_nan 53 1024 f = match B2FF 53 1024 f with F754_nan _ _ => true | _ => false end.
Proof. destruct f; reflexivity. Qed.

(* the three fields *)
Definition fs (x : Z) : bool := P63 <=? x.
Lemma fields : forall x, 0 <= x < P64 ->
  x = (if fs x then P63 else 0) + f_exp x * P52 + f_man x /\ 0 <= f_man x < P52 /\ 0 <= f_exp x < 2048.
Proof.
  intros x H. unfold fs, f_exp, f_man, P52, P63, P64 in *. destruct (9223372036854775808 <=? x) eqn:E; lia.
Qed.

Lemma ff_unfold : forall x, ff x =
  if Zeq_bool (f_exp x) 0 then
    match f_man x with 0 => F754_zero (fs x) | Z.pos px => F754_finite (fs x) px (-1074) | Z.neg _ => F754_nan false 1 end
  else if Zeq_bool (f_exp x) 2047 then
    match f_man x with 0 => F754_infinity (fs x) | Z.pos plx => F754_nan (fs x) plx | Z.neg _ => F754_nan false 1 end
  else match f_man x + P52 with Z.pos px => F754_finite (fs x) px (f_exp x + -1074 - 1) | _ => F754_nan false 1 end.
Proof. intros. reflexivity. Qed.

Inductive ffcase (x : Z) : Prop :=
| CZero : f_exp x = 0 -> f_man x = 0 -> ff x = F754_zero (fs x) -> ffcase x
| CSub : forall p, f_exp x = 0 -> f_man x = Z.pos p -> ff x = F754_finite (fs x) p (-1074) -> ffcase x
| CInf : f_exp x = 2047 -> f_man x = 0 -> ff x = F754_infinity (fs x) -> ffcase x
| CNan : forall p, f_exp x = 2047 -> f_man x = Z.pos p -> ff x = F754_nan (fs x) p -> ffcase x
| CNorm : forall p, 0 < f_exp x < 2047 -> Z.pos p = f_man x + P52 -> ff x = F754_finite (fs x) p (f_exp x - 1075) -> ffcase x.

Lemma ff_cases : forall x, 0 <= x < P64 -> ffcase x.
Proof.
  intros x H. destruct (fields x H) as (_ & Hm & He). pose proof (ff_unfold x) as U.
  destruct (Zeq_bool (f_exp x) 0) eqn:E0.
  - apply Zeq_bool_eq in E0. destruct (f_man x) as [|p|p] eqn:M; [eapply CZero | eapply CSub | lia]; eauto.
  - destruct (Zeq_bool (f_exp x) 2047) eqn:E1.
    + apply Zeq_bool_eq in E1. destruct (f_man x) as [|p|p] eqn:M; [eapply CInf | eapply CNan | lia]; eauto.
    + apply Zeq_bool_neq in E0, E1. destruct (f_man x + P52) as [|p|p] eqn:M; try (unfold P52 in *; lia).
      eapply CNorm with p; eauto; try lia. rewrite U. f_equal. lia.
Qed.

Lemma is_zero_fields : forall x, 0 <= x < P64 -> is_zero x = (f_exp x =? 0) && (f_man x =? 0).
Proof.
  intros x H. destruct (fields x H) as (E & Hm & He). unfold is_zero.
  assert (x mod 9223372036854775808 = f_exp x * P52 + f_man x).
  { unfold P52, P63 in *. destruct (fs x); lia. }
  rewrite H0. unfold P52 in *. destruct (f_exp x =? 0) eqn:A; destruct (f_man x =? 0) eqn:B; cbn; lia.
Qed.

Lemma eq_fields : forall x y, 0 <= x < P64 -> 0 <= y < P64 ->
  fs x = fs y -> f_exp x = f_exp y -> f_man x = f_man y -> x = y.
Proof.
  intros x y Hx Hy A B C. destruct (fields x Hx) as (E1 & _). destruct (fields y Hy) as (E2 & _).
  rewrite E1, E2, A, B, C. reflexivity.
Qed.

Theorem is_nan_flocq : forall x, 0 <= x < P64 -> is_nan x = Binary.is_nan 53 1024 (b64_of_bits x).
Proof.
  intros x H. rewrite is_nan_ff, B2FF_b64. unfold is_nan.
  destruct (ff_cases x H) as [A B C|p A B C|A B C|p A B C|p A B C]; rewrite C, ?A, ?B; try reflexivity.
  destruct (f_exp x =? 2047) eqn:E; [lia|reflexivity].
Qed.

Definition is_eq (c : option comparison) : bool := match c with Some Eq => true | _ => false end.

Theorem ieee_eq_flocq : forall x y, 0 <= x < P64 -> 0 <= y < P64 ->
  ieee_eq x y = is_eq (Bcompare 53 1024 (b64_of_bits x) (b64_of_bits y)).
Proof.
  intros x y Hx Hy. rewrite Bcompare_ff, !B2FF_b64.
  unfold ieee_eq. rewrite (is_zero_fields x Hx), (is_zero_fields y Hy). unfold is_nan.
  pose proof (eq_fields x y Hx Hy) as EF.
  destruct (fields x Hx) as (_ & Mx & Ex). destruct (fields y Hy) as (_ & My & Ey). unfold P52 in *.
  destruct (ff_cases x Hx) as [A B C|p A B C|A B C|p A B C|p A B C];
  destruct (ff_cases y Hy) as [A' B' C'|p' A' B' C'|A' B' C'|p' A' B' C'|p' A' B' C'];
  rewrite C, C'; unfold cmp_ff; cbn [FF2SF SpecFloat.SFcompare is_eq];
  rewrite ?A, ?B, ?A', ?B'; cbn [Z.eqb negb andb orb Pos.eqb].
  all: try reflexivity.
  all: destruct (fs x) eqn:Sx, (fs y) eqn:Sy; cbn [CompOpp];
       repeat match goal with
       | |- context [Pos.compare_cont Eq ?p ?q] => change (Pos.compare_cont Eq p q) with (Pos.compare p q); destruct (Pos.compare_spec p q)
       | |- context [Z.compare ?a ?b] => destruct (Z.compare_spec a b)
       | |- context [Z.eqb ?a ?b] => destruct (Z.eqb_spec a b)
       end; cbn [negb andb orb CompOpp]; try reflexivity; try lia; exfalso.
  all: try (subst; congruence).
  all: try (assert (x = y) by (apply EF; first [congruence | lia]); lia).
  all: try (subst y; lia).
  all: unfold P52 in *; try lia.
  all: try (assert (x = y) by (apply EF; first [congruence | lia]); lia).
Qed.

Lemma float_hash_bits_flocq_nan : forall x, 0 <= x < P64 -> Binary.is_nan 53 1024 (b64_of_bits x) = true -> float_hash_bits x = NAN_BITS.
Proof. intros x H N. unfold float_hash_bits. rewrite (is_nan_flocq x H), N. reflexivity. Qed.
