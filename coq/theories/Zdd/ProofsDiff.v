(* diff_f (arena difference_refs) *)
From Coq Require Import Setoid Morphisms.
From VP Require Import Base.Tactics Zdd.Model Zdd.ProofsBase Zdd.ProofsOps Zdd.ProofsUnion Zdd.ProofsInter.

Local Notation R := (res_ok DSPEC).
Local Notation C := (cache_ok DSPEC).

Ltac zauto := eauto using ext_valid, ext_vgt, wf_lo_valid, wf_hi_valid, wf_lo_vgt, wf_hi_vgt, ext_refl, ext_trans.

Lemma diff_ok fuel : forall t c a b t' c' r,
  wf t -> C t c -> valid t a -> valid t b ->
  diff_f fuel t c a b = Some (t', c', r) ->
  R t a b t' r /\ C t' c'.
Proof.
  induction fuel as [|f IH]; intros t c a b t' c' r W Cc Va Vb H; [discriminate|].
  cbn [diff_f] in H.
  destruct (ref_eqb a REmpty) eqn:Ea.
  { apply ref_eqb_eq in Ea. subst a. inversion H; subst.
    apply const_step; [exact W | exact Cc | exact I | intros; exact I |].
    intros s. unfold DSPEC. split; [intros X; inversion X | intros [X _]; inversion X]. }
  destruct (ref_eqb b REmpty) eqn:Eb.
  { apply ref_eqb_eq in Eb. subst b. inversion H; subst.
    apply const_step; auto. intros s. unfold DSPEC. split; [|tauto].
    intros X. split; [exact X | intros Y; inversion Y]. }
  destruct (ref_eqb a b) eqn:Eab.
  { apply ref_eqb_eq in Eab. subst b. inversion H; subst.
    apply const_step; [exact W | exact Cc | exact I | intros; exact I |].
    intros s. unfold DSPEC. split; [intros X; inversion X | tauto]. }
  apply ref_eqb_neq in Ea, Eb, Eab.
  destruct (lookup2 c a b) as [rc|] eqn:Hl.
  { inversion H; subst. destruct (Cc _ _ _ Hl) as (_ & _ & X). split; [exact X | exact Cc]. }
  destruct (info t a) as [[[av alo] ahi]|] eqn:Ia; [|discriminate].
  destruct (info t b) as [[[bv blo] bhi]|] eqn:Ib; [|discriminate].
  match type of H with
  | match ?body with Some _ => _ | None => _ end = _ => destruct body as [[[tr cr] rr]|] eqn:Hb; [|discriminate]
  end.
  inversion H; subst t' c' r. clear H.
  apply (insert_step DSPEC DSPEC_proper); auto.
  destruct a as [| |i]; [congruence| |]; destruct b as [| |j]; try congruence.
  - (* Base, Node j *)
    cbn in Ia. inversion Ia; subst av alo ahi. clear Ia.
    apply info_node in Ib. destruct Ib as (nb & Hnb & Eq). inversion Eq; subst bv blo bhi. clear Eq.
    cbn [ref_eqb] in Hb.
    destruct (IH _ _ _ _ _ _ _ W Cc Va (wf_lo_valid _ _ _ W Hnb) Hb) as [X C1].
    refine (pass_step DSPEC t tr RBase (RNode j) RBase (nlo nb) rr cr X C1 _ _).
    + intros u _ Gu. split; [exact I|]. apply (vgt_node _ _ _ _ Hnb) in Gu.
      eapply vgt_trans; [|eapply wf_lo_vgt; eauto]. lia.
    + intros s. unfold DSPEC. rewrite in_fam_base. split.
      * intros [-> A]. split; [reflexivity|]. intros B. apply A. apply (base_member_lo _ _ _ Hnb). exact B.
      * intros [-> A]. split; [reflexivity|]. intros B. apply A. apply (base_member_lo _ _ _ Hnb). exact B.
  - (* Node i, Base *)
    cbn in Ib. inversion Ib; subst bv blo bhi. clear Ib.
    apply info_node in Ia. destruct Ia as (na & Hna & Eq). inversion Eq; subst av alo ahi. clear Eq.
    cbn [ref_eqb] in Hb.
    destruct (diff_f f t c (nlo na) RBase) as [[[t1 c1] nl]|] eqn:H1; [|discriminate].
    destruct (goc t1 (nvar na) nl (nhi na)) as [t2 r2] eqn:Hg. inversion Hb; subst tr cr rr. clear Hb.
    destruct (IH _ _ _ _ _ _ _ W Cc (wf_lo_valid _ _ _ W Hna) Vb H1) as [(E1 & W1 & V1 & G1 & S1) C1].
    assert (Vh : valid t1 (nhi na)) by zauto.
    assert (Gh : vgt t1 (nvar na) (nhi na)) by zauto.
    assert (Gl : vgt t1 (nvar na) nl) by (apply G1; [zauto | exact I]).
    refine (node_step DSPEC DSPEC_proper t t1 t2 (RNode i) RBase (nvar na) nl (nhi na) r2 c1 W E1 W1 C1 V1 Vh Gl Gh Hg _ _).
    + intros u Gu _. apply (vgt_node _ _ _ _ Hna) in Gu. split; [exact Gu|].
      apply G1; [|exact I]. eapply vgt_trans; [|eapply wf_lo_vgt; eauto]. lia.
    + unfold DSPEC in *. intros s. rewrite S1. rewrite (in_fam_node _ _ _ s Hna).
      setoid_rewrite (back t t1 (nhi na) W E1 (wf_hi_valid _ _ _ W Hna)).
      unfold DSPEC. rewrite in_fam_base. split.
      * intros [[A B]|[s' [-> A]]]; [tauto|]. split; [eauto|discriminate].
      * intros [[A|A] B]; tauto.
  - (* Node i, Node j *)
    apply info_node in Ia. destruct Ia as (na & Hna & Eq). inversion Eq; subst av alo ahi. clear Eq.
    apply info_node in Ib. destruct Ib as (nb & Hnb & Eq). inversion Eq; subst bv blo bhi. clear Eq.
    destruct (N.ltb (nvar na) (nvar nb)) eqn:L1; [|destruct (N.ltb (nvar nb) (nvar na)) eqn:L2].
    + (* av < bv : the sets of a containing av are not in b, they are kept *)
      destruct (diff_f f t c (nlo na) (RNode j)) as [[[t1 c1] nl]|] eqn:H1; [|discriminate].
      cbv zeta in Hb.
      destruct (goc t1 (nvar na) nl (nhi na)) as [t2 r2] eqn:Hg. inversion Hb; subst tr cr rr. clear Hb.
      destruct (IH _ _ _ _ _ _ _ W Cc (wf_lo_valid _ _ _ W Hna) Vb H1) as [(E1 & W1 & V1 & G1 & S1) C1].
      assert (Gb : vgt t (nvar na) (RNode j)) by (apply (vgt_node _ _ _ _ Hnb); lia).
      assert (Vh : valid t1 (nhi na)) by zauto.
      assert (Gh : vgt t1 (nvar na) (nhi na)) by zauto.
      assert (Gl : vgt t1 (nvar na) nl) by (apply G1; zauto).
      refine (node_step DSPEC DSPEC_proper t t1 t2 (RNode i) (RNode j) (nvar na) nl (nhi na) r2 c1 W E1 W1 C1 V1 Vh Gl Gh Hg _ _).
      * intros u Gu Gu'. apply (vgt_node _ _ _ _ Hna) in Gu. split; [exact Gu|].
        apply G1; [|exact Gu']. eapply vgt_trans; [|eapply wf_lo_vgt; eauto]. lia.
      * unfold DSPEC in *. intros s. rewrite S1. rewrite (in_fam_node _ _ _ s Hna).
        setoid_rewrite (back t t1 (nhi na) W E1 (wf_hi_valid _ _ _ W Hna)).
        unfold DSPEC. split.
        -- intros [[A B]|[s' [-> A]]]; [tauto|]. split; [eauto|].
           intros B. exact (not_head_member t (nvar na) (RNode j) s' W Gb B).
        -- intros [[A|A] B]; tauto.
    + (* bv < av : only the sets of b without bv can coincide with sets of a *)
      destruct (IH _ _ _ _ _ _ _ W Cc Va (wf_lo_valid _ _ _ W Hnb) Hb) as [X C1].
      assert (Ga : vgt t (nvar nb) (RNode i)) by (apply (vgt_node _ _ _ _ Hna); lia).
      refine (pass_step DSPEC t tr (RNode i) (RNode j) (RNode i) (nlo nb) rr cr X C1 _ _).
      * intros u Gu Gu'. split; [exact Gu|]. apply (vgt_node _ _ _ _ Hnb) in Gu'.
        eapply vgt_trans; [|eapply wf_lo_vgt; eauto]. lia.
      * intros s. unfold DSPEC. rewrite (in_fam_node _ _ _ s Hnb). split.
        -- intros [A B]. split; [exact A|]. intros [B'|[s' [-> B']]]; [tauto|].
           exact (not_head_member t (nvar nb) (RNode i) s' W Ga A).
        -- intros [A B]. split; [exact A|]. tauto.
    + (* av = bv *)
      assert (Ev : nvar na = nvar nb) by lia.
      destruct (diff_f f t c (nlo na) (nlo nb)) as [[[t1 c1] nl]|] eqn:H1; [|discriminate].
      destruct (diff_f f t1 c1 (nhi na) (nhi nb)) as [[[t2 c2] nh]|] eqn:H2; [|discriminate].
      destruct (goc t2 (nvar na) nl nh) as [t3 r3] eqn:Hg. inversion Hb; subst tr cr rr. clear Hb.
      destruct (IH _ _ _ _ _ _ _ W Cc (wf_lo_valid _ _ _ W Hna) (wf_lo_valid _ _ _ W Hnb) H1)
        as [(E1 & W1 & V1 & G1 & S1) C1].
      assert (Vha : valid t1 (nhi na)) by zauto.
      assert (Vhb : valid t1 (nhi nb)) by zauto.
      destruct (IH _ _ _ _ _ _ _ W1 C1 Vha Vhb H2) as [(E2 & W2 & V2 & G2 & S2) C2].
      assert (Gl1 : vgt t1 (nvar na) nl).
      { apply G1; [zauto|]. rewrite Ev. zauto. }
      assert (Gl : vgt t2 (nvar na) nl) by zauto.
      assert (Gh : vgt t2 (nvar na) nh).
      { apply G2; [zauto|]. rewrite Ev. zauto. }
      assert (Vl : valid t2 nl) by zauto.
      assert (E02 : ext t t2) by zauto.
      refine (node_step DSPEC DSPEC_proper t t2 t3 (RNode i) (RNode j) (nvar na) nl nh r3 c2 W E02 W2 C2 Vl V2 Gl Gh Hg _ _).
      * intros u Gu Gu'. apply (vgt_node _ _ _ _ Hna) in Gu. split; [exact Gu|].
        eapply ext_vgt; [exact E2|]. apply G1.
        -- eapply vgt_trans; [|eapply wf_lo_vgt; eauto]. lia.
        -- apply (vgt_node _ _ _ _ Hnb) in Gu'. eapply vgt_trans; [|eapply wf_lo_vgt; eauto]. lia.
      * unfold DSPEC in *. intros s. rewrite (back t1 t2 nl W1 E2 V1). rewrite S1.
        setoid_rewrite S2.
        setoid_rewrite (back t t1 (nhi na) W E1 (wf_hi_valid _ _ _ W Hna)).
        setoid_rewrite (back t t1 (nhi nb) W E1 (wf_hi_valid _ _ _ W Hnb)).
        rewrite (in_fam_node _ _ _ s Hna), (in_fam_node _ _ _ s Hnb). rewrite <- Ev.
        unfold DSPEC. split.
        -- intros [[A B]|[s' [-> [A B]]]].
           ++ split; [auto|]. intros [B'|[s'' [-> B']]]; [tauto|].
              eapply (not_head_member t (nvar na) (nlo na)); zauto.
           ++ split; [eauto|]. intros [B'|[s'' [E B']]].
              ** eapply (not_head_member t (nvar na) (nlo nb)); [exact W | rewrite Ev; zauto | exact B'].
              ** inversion E; subst s''. tauto.
        -- intros [[A|[s' [-> A]]] B].
           ++ left. tauto.
           ++ right. exists s'. split; [reflexivity|]. split; [exact A|]. intros B'. apply B. eauto.
Qed.
