(* iter_f, count_f, contains_f and canonicity of well-formed tables *)
From Coq Require Import Setoid Morphisms FinFun.
From VP Require Import Base.Tactics Zdd.Model Zdd.ProofsBase Zdd.ProofsOps Zdd.ProofsUnion Zdd.ProofsInter.

Ltac zauto := eauto using ext_valid, ext_vgt, wf_lo_valid, wf_hi_valid, wf_lo_vgt, wf_hi_vgt, ext_refl, ext_trans.

Lemma NoDup_app_disj {A} (l1 l2 : list A) :
  NoDup l1 -> NoDup l2 -> (forall x, In x l1 -> In x l2 -> False) -> NoDup (l1 ++ l2).
Proof.
  induction l1 as [|x l1 IH]; cbn; intros N1 N2 D; [exact N2|].
  inversion N1; subst. constructor.
  - rewrite in_app_iff. intros [I|I]; [tauto | eapply D; eauto].
  - apply IH; auto. intros y I1 I2. eapply D; eauto.
Qed.

(* ------------------------------------------------------------ iteration *)
Lemma iter_ok fuel : forall t r l, wf t -> valid t r -> iter_f fuel t r = Some l ->
  (forall s, In s l <-> In_fam t r s) /\ NoDup l.
Proof.
  induction fuel as [|f IH]; intros t r l W V H; [discriminate|].
  cbn [iter_f] in H. destruct r as [| |i].
  - inversion H; subst. split; [|constructor]. intros s. split; intros X; inversion X.
  - inversion H; subst. split.
    + intros s. rewrite in_fam_base. cbn. split; [intros [E|[]]; auto | intros ->; auto].
    + constructor; [intros []|constructor].
  - destruct (nth_error t i) as [n|] eqn:Hn; [|discriminate].
    destruct (iter_f f t (nlo n)) as [ll|] eqn:H1; [|discriminate].
    destruct (iter_f f t (nhi n)) as [lh|] eqn:H2; [|discriminate].
    inversion H; subst l. clear H.
    destruct (IH _ _ _ W (wf_lo_valid _ _ _ W Hn) H1) as [Sl Nl].
    destruct (IH _ _ _ W (wf_hi_valid _ _ _ W Hn) H2) as [Sh Nh].
    split.
    + intros s. rewrite in_app_iff, in_map_iff, (in_fam_node _ _ _ s Hn), Sl. split.
      * intros [A|[s' [<- A]]]; [left; exact A|]. right. exists s'. split; [reflexivity|]. apply Sh. exact A.
      * intros [A|[s' [-> A]]]; [left; exact A|]. right. exists s'. split; [reflexivity|]. apply Sh. exact A.
    + apply NoDup_app_disj.
      * exact Nl.
      * apply FinFun.Injective_map_NoDup; [|exact Nh]. intros x y E. inversion E. reflexivity.
      * intros s A B. apply in_map_iff in B. destruct B as [s' [<- B]].
        apply Sl in A. eapply (not_head_member t (nvar n) (nlo n)); zauto.
Qed.

Lemma iter_total fuel : forall t r, wf t -> valid t r -> rk r < fuel -> exists l, iter_f fuel t r = Some l.
Proof.
  induction fuel as [|f IH]; intros t r W V L; [lia|].
  cbn [iter_f]. destruct r as [| |i]; eauto.
  destruct (valid_nth _ _ V) as [n Hn]. rewrite Hn.
  pose proof (rk_lt _ _ (wf_lo_lt _ _ _ W Hn)) as L1. pose proof (rk_lt _ _ (wf_hi_lt _ _ _ W Hn)) as L2.
  cbn [rk] in L.
  destruct (IH t (nlo n) W (wf_lo_valid _ _ _ W Hn)) as [ll H1]; [lia|]. rewrite H1.
  destruct (IH t (nhi n) W (wf_hi_valid _ _ _ W Hn)) as [lh H2]; [lia|]. rewrite H2. eauto.
Qed.

(* count = number of members enumerated by the iterator *)
Lemma count_iter fuel : forall t r l, iter_f fuel t r = Some l -> count_f fuel t r = Some (N.of_nat (length l)).
Proof.
  induction fuel as [|f IH]; intros t r l H; [discriminate|].
  cbn [iter_f] in H. cbn [count_f]. destruct r as [| |i].
  - inversion H; subst. reflexivity.
  - inversion H; subst. reflexivity.
  - destruct (nth_error t i) as [n|]; [|discriminate].
    destruct (iter_f f t (nlo n)) as [ll|] eqn:H1; [|discriminate].
    destruct (iter_f f t (nhi n)) as [lh|] eqn:H2; [|discriminate].
    inversion H; subst l. rewrite (IH _ _ _ H1), (IH _ _ _ H2).
    rewrite app_length, map_length. f_equal. lia.
Qed.

(* membership walk *)
Lemma contains_ok fuel : forall t r s b, wf t -> valid t r -> contains_f fuel t r s = Some b ->
  (b = true <-> In_fam t r s).
Proof.
  induction fuel as [|f IH]; intros t r s b W V H; [discriminate|].
  cbn [contains_f] in H. destruct r as [| |i].
  - inversion H; subst. split; [discriminate | intros X; inversion X].
  - inversion H; subst. rewrite in_fam_base. destruct s; split; intros; congruence.
  - destruct (nth_error t i) as [n|] eqn:Hn; [|discriminate].
    rewrite (in_fam_node _ _ _ s Hn).
    destruct s as [|x s'].
    + rewrite (IH _ _ _ _ W (wf_lo_valid _ _ _ W Hn) H). split; [auto|].
      intros [A|[s' [E _]]]; [exact A | discriminate].
    + destruct (N.eqb_spec (nvar n) x) as [Ex|Nx].
      * rewrite (IH _ _ _ _ W (wf_hi_valid _ _ _ W Hn) H). subst x. split.
        -- intros A. right. eauto.
        -- intros [A|[s'' [E A]]]; [|inversion E; subst; exact A].
           exfalso. eapply (not_head_member t (nvar n) (nlo n)); zauto.
      * destruct (N.ltb_spec x (nvar n)) as [Lx|Lx].
        -- inversion H; subst b. split; [discriminate|].
           intros [A|[s'' [E A]]]; [|inversion E; congruence].
           pose proof (members_gt t (nvar n) (nlo n) _ W (wf_lo_vgt _ _ _ W Hn) A) as F.
           inversion F; subst. lia.
        -- rewrite (IH _ _ _ _ W (wf_lo_valid _ _ _ W Hn) H). split; [auto|].
           intros [A|[s'' [E A]]]; [exact A | inversion E; congruence].
Qed.

Lemma contains_total fuel : forall t r s, wf t -> valid t r -> rk r < fuel -> exists b, contains_f fuel t r s = Some b.
Proof.
  induction fuel as [|f IH]; intros t r s W V L; [lia|].
  cbn [contains_f]. destruct r as [| |i]; eauto.
  destruct (valid_nth _ _ V) as [n Hn]. rewrite Hn.
  pose proof (rk_lt _ _ (wf_lo_lt _ _ _ W Hn)) as L1. pose proof (rk_lt _ _ (wf_hi_lt _ _ _ W Hn)) as L2.
  cbn [rk] in L.
  destruct s as [|x s'].
  - apply IH; [exact W | zauto | lia].
  - destruct (N.eqb (nvar n) x); [apply IH; [exact W | zauto | lia]|].
    destruct (N.ltb x (nvar n)); [eauto|]. apply IH; [exact W | zauto | lia].
Qed.

(* ------------------------------------------------------------ canonicity *)
Lemma inhabited_node t : wf t -> forall k r, rk r <= k -> valid t r -> r <> REmpty -> exists s, In_fam t r s.
Proof.
  intros W. induction k as [|k IH]; intros r L V NE.
  - destruct r; cbn in L; [congruence | exists []; constructor | lia].
  - destruct r as [| |i]; [congruence | exists []; constructor |].
    destruct (valid_nth _ _ V) as [n Hn].
    destruct (wf_nodes _ W _ _ Hn) as (Hne & _ & Rh & _).
    destruct (IH (nhi n)) as [s' A]; [pose proof (rk_lt _ _ Rh); cbn in L; lia | zauto | exact Hne |].
    exists (nvar n :: s'). eapply in_hi; eauto.
Qed.

Theorem canonical t : wf t -> forall k r1 r2, rk r1 + rk r2 <= k -> valid t r1 -> valid t r2 ->
  (forall s, In_fam t r1 s <-> In_fam t r2 s) -> r1 = r2.
Proof.
  intros W. induction k as [|k IH]; intros r1 r2 L V1 V2 E.
  - destruct r1, r2; cbn in L; try lia; try reflexivity.
    + exfalso. apply (in_fam_empty t []). apply E. constructor.
    + exfalso. apply (in_fam_empty t []). apply E. constructor.
  - destruct r1 as [| |i]; destruct r2 as [| |j]; try reflexivity.
    + exfalso. apply (in_fam_empty t []). apply E. constructor.
    + exfalso. destruct (inhabited_node t W _ (RNode j) (le_n _) V2) as [s A]; [discriminate|].
      apply (in_fam_empty t s). apply E. exact A.
    + exfalso. apply (in_fam_empty t []). apply E. constructor.
    + (* Base vs node: the node has a member containing its variable *)
      exfalso. destruct (valid_nth _ _ V2) as [n Hn].
      destruct (wf_nodes _ W _ _ Hn) as (Hne & _ & Rh & _).
      destruct (inhabited_node t W _ (nhi n) (le_n _)) as [s' A]; [zauto | exact Hne |].
      assert (X : In_fam t RBase (nvar n :: s')) by (apply E; eapply in_hi; eauto).
      inversion X.
    + exfalso. destruct (inhabited_node t W _ (RNode i) (le_n _) V1) as [s A]; [discriminate|].
      apply (in_fam_empty t s). apply E. exact A.
    + exfalso. destruct (valid_nth _ _ V1) as [n Hn].
      destruct (wf_nodes _ W _ _ Hn) as (Hne & _ & Rh & _).
      destruct (inhabited_node t W _ (nhi n) (le_n _)) as [s' A]; [zauto | exact Hne |].
      assert (X : In_fam t RBase (nvar n :: s')) by (apply E; eapply in_hi; eauto).
      inversion X.
    + destruct (valid_nth _ _ V1) as [na Hna]. destruct (valid_nth _ _ V2) as [nb Hnb].
      destruct (wf_nodes _ W _ _ Hna) as (Hnea & Rla & Rha & Gla & Gha).
      destruct (wf_nodes _ W _ _ Hnb) as (Hneb & Rlb & Rhb & Glb & Ghb).
      (* equal top variables *)
      assert (Ev : nvar na = nvar nb).
      { destruct (inhabited_node t W _ (nhi na) (le_n _)) as [sa A]; [zauto | exact Hnea |].
        destruct (inhabited_node t W _ (nhi nb) (le_n _)) as [sb B]; [zauto | exact Hneb |].
        assert (Xa : In_fam t (RNode j) (nvar na :: sa)) by (apply E; eapply in_hi; eauto).
        assert (Xb : In_fam t (RNode i) (nvar nb :: sb)) by (apply E; eapply in_hi; eauto).
        destruct (N.lt_trichotomy (nvar na) (nvar nb)) as [Lt|[Eq|Gt]]; [|exact Eq|].
        - exfalso. eapply (not_head_member t (nvar na) (RNode j)); [exact W | apply (vgt_node _ _ _ _ Hnb); exact Lt | exact Xa].
        - exfalso. eapply (not_head_member t (nvar nb) (RNode i)); [exact W | apply (vgt_node _ _ _ _ Hna); exact Gt | exact Xb]. }
      pose proof (rk_lt _ _ Rla) as K1. pose proof (rk_lt _ _ Rha) as K2.
      pose proof (rk_lt _ _ Rlb) as K3. pose proof (rk_lt _ _ Rhb) as K4. cbn [rk] in L.
      assert (El : nlo na = nlo nb).
      { apply IH; [lia | zauto | zauto |]. intros s. split; intros A.
        - assert (X : In_fam t (RNode j) s) by (apply E; eapply in_lo; eauto).
          apply (in_fam_node _ _ _ s Hnb) in X. destruct X as [X|[s' [-> X]]]; [exact X|].
          exfalso. eapply (not_head_member t (nvar nb) (nlo na)); [exact W | rewrite <- Ev; exact Gla | exact A].
        - assert (X : In_fam t (RNode i) s) by (apply E; eapply in_lo; eauto).
          apply (in_fam_node _ _ _ s Hna) in X. destruct X as [X|[s' [-> X]]]; [exact X|].
          exfalso. eapply (not_head_member t (nvar na) (nlo nb)); [exact W | rewrite Ev; exact Glb | exact A]. }
      assert (Eh : nhi na = nhi nb).
      { apply IH; [lia | zauto | zauto |]. intros s. split; intros A.
        - assert (X : In_fam t (RNode j) (nvar na :: s)) by (apply E; eapply in_hi; eauto).
          apply (in_fam_node _ _ _ _ Hnb) in X. destruct X as [X|[s' [Es X]]].
          + exfalso. eapply (not_head_member t (nvar na) (nlo nb)); [exact W | rewrite Ev; exact Glb | exact X].
          + inversion Es; subst. exact X.
        - assert (X : In_fam t (RNode i) (nvar nb :: s)) by (apply E; eapply in_hi; eauto).
          apply (in_fam_node _ _ _ _ Hna) in X. destruct X as [X|[s' [Es X]]].
          + exfalso. eapply (not_head_member t (nvar nb) (nlo na)); [exact W | rewrite <- Ev; exact Gla | exact X].
          + inversion Es; subst. exact X. }
      assert (Enode : na = nb) by (destruct na, nb; cbn in *; congruence).
      subst nb. f_equal.
      exact (proj1 (NoDup_nth_error t) (wf_nodup _ W) i j
               (proj1 (nth_error_Some t i) ltac:(congruence)) (eq_trans Hna (eq_sym Hnb))).
Qed.
