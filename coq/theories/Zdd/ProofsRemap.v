(* remap_f: arena.rs remap_to_new_table (gc) and ops/common.rs remap_ref (standalone ops) *)
From Coq Require Import Setoid Morphisms.
From VP Require Import Base.Tactics Zdd.Model Zdd.ProofsBase Zdd.ProofsOps Zdd.ProofsUnion.

Ltac zauto := eauto using ext_valid, ext_vgt, wf_lo_valid, wf_hi_valid, wf_lo_vgt, wf_hi_vgt, ext_refl, ext_trans.

(* r' in table t denotes what r denotes in table src *)
Definition same_fam (src t : table) (r r' : ref) : Prop :=
  valid t r' /\ (forall u, vgt src u r -> vgt t u r') /\ (forall s, In_fam t r' s <-> In_fam src r s).

Definition map_ok (src t : table) (m : idmap) : Prop :=
  forall i r', lookup_id m i = Some r' -> same_fam src t (RNode i) r'.

Lemma same_fam_ext src t t' r r' : wf t -> ext t t' -> same_fam src t r r' -> same_fam src t' r r'.
Proof.
  intros W E (V & G & S). split; [eapply ext_valid; eauto|]. split.
  - intros u Gu. eapply ext_vgt; eauto.
  - intros s. rewrite (in_fam_ext_iff t t' r' s W E V). apply S.
Qed.

Lemma map_ok_ext src t t' m : wf t -> ext t t' -> map_ok src t m -> map_ok src t' m.
Proof. intros W E M i r' H. eapply same_fam_ext; eauto. Qed.

Lemma map_ok_nil src t : map_ok src t [].
Proof. intros i r' H. discriminate. Qed.

Lemma map_ok_cons src t m i r' : map_ok src t m -> same_fam src t (RNode i) r' -> map_ok src t ((i, r') :: m).
Proof.
  intros M X j z. cbn. destruct (Nat.eqb i j) eqn:E.
  - apply Nat.eqb_eq in E. subst. intros H. inversion H; subst. exact X.
  - apply M.
Qed.

Lemma remap_ok fuel src : wf src -> forall t m r t' m' r',
  wf t -> map_ok src t m -> valid src r ->
  remap_f fuel src t m r = Some (t', m', r') ->
  ext t t' /\ wf t' /\ map_ok src t' m' /\ same_fam src t' r r'.
Proof.
  intros Ws. induction fuel as [|f IH]; intros t m r t' m' r' W M V H; [discriminate|].
  cbn [remap_f] in H. destruct r as [| |i].
  - inversion H; subst. split; [apply ext_refl|]. split; [exact W|]. split; [exact M|].
    split; [exact I|]. split; [intros; exact I|]. intros s; split; intros X; inversion X.
  - inversion H; subst. split; [apply ext_refl|]. split; [exact W|]. split; [exact M|].
    split; [exact I|]. split; [intros; exact I|]. intros s. rewrite !in_fam_base. tauto.
  - destruct (lookup_id m i) as [rc|] eqn:Hl.
    { inversion H; subst. split; [apply ext_refl|]. split; [exact W|]. split; [exact M|]. apply M. exact Hl. }
    destruct (nth_error src i) as [n|] eqn:Hn; [|discriminate].
    destruct (remap_f f src t m (nlo n)) as [[[t1 m1] nl]|] eqn:H1; [|discriminate].
    destruct (remap_f f src t1 m1 (nhi n)) as [[[t2 m2] nh]|] eqn:H2; [|discriminate].
    destruct (goc t2 (nvar n) nl nh) as [t3 r3] eqn:Hg. inversion H; subst t' m' r'. clear H.
    destruct (IH _ _ _ _ _ _ W M (wf_lo_valid _ _ _ Ws Hn) H1) as (E1 & W1 & M1 & (Vl1 & Gl1 & Sl1)).
    destruct (IH _ _ _ _ _ _ W1 M1 (wf_hi_valid _ _ _ Ws Hn) H2) as (E2 & W2 & M2 & (Vh & Gh2 & Sh)).
    assert (Vl : valid t2 nl) by zauto.
    assert (Gl : vgt t2 (nvar n) nl) by (eapply ext_vgt; [exact E2|]; apply Gl1; zauto).
    assert (Gh : vgt t2 (nvar n) nh) by (apply Gh2; zauto).
    destruct (goc_spec t2 (nvar n) nl nh t3 r3 W2 Vl Vh Gl Gh Hg) as (E3 & W3 & V3 & G3 & S3).
    assert (X : same_fam src t3 (RNode i) r3).
    { split; [exact V3|]. split.
      - intros u Gu. apply (vgt_node _ _ _ _ Hn) in Gu. apply G3; [exact Gu|].
        eapply ext_vgt; [exact E2|]. apply Gl1. eapply vgt_trans; [|eapply wf_lo_vgt; eauto]. lia.
      - intros s. rewrite S3. rewrite (back t1 t2 nl W1 E2 Vl1). rewrite Sl1. setoid_rewrite Sh.
        symmetry. apply (in_fam_node _ _ _ s Hn). }
    split; [zauto|]. split; [exact W3|]. split; [|exact X].
    apply map_ok_cons; [|exact X]. exact (map_ok_ext src t2 t3 m2 W2 E3 M2).
Qed.

Lemma remap_total fuel src : wf src -> forall t m r,
  wf t -> map_ok src t m -> valid src r -> rk r < fuel ->
  exists out, remap_f fuel src t m r = Some out.
Proof.
  intros Ws. induction fuel as [|f IH]; intros t m r W M V L; [lia|].
  cbn [remap_f]. destruct r as [| |i]; eauto.
  destruct (lookup_id m i) as [rc|] eqn:Hl; [eauto|].
  destruct (valid_nth _ _ V) as [n Hn]. rewrite Hn.
  pose proof (rk_lt _ _ (wf_lo_lt _ _ _ Ws Hn)) as L1. pose proof (rk_lt _ _ (wf_hi_lt _ _ _ Ws Hn)) as L2.
  cbn [rk] in L.
  assert (Lr1 : rk (nlo n) < f) by lia. assert (Lr2 : rk (nhi n) < f) by lia.
  destruct (IH t m (nlo n) W M (wf_lo_valid _ _ _ Ws Hn) Lr1) as [[[t1 m1] nl] H1]. rewrite H1.
  destruct (remap_ok _ _ Ws _ _ _ _ _ _ W M (wf_lo_valid _ _ _ Ws Hn) H1) as (E1 & W1 & M1 & _).
  destruct (IH t1 m1 (nhi n) W1 M1 (wf_hi_valid _ _ _ Ws Hn) Lr2) as [[[t2 m2] nh] H2]. rewrite H2.
  destruct (goc t2 (nvar n) nl nh). eauto.
Qed.
