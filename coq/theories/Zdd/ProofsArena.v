(* The arena as a whole: every public operation preserves the arena invariant,
   returns (no panic, enough fuel), and denotes the specified family. *)
From Coq Require Import Setoid Morphisms.
From VP Require Import Base.Tactics Zdd.Model Zdd.ProofsBase Zdd.ProofsOps Zdd.ProofsUnion
  Zdd.ProofsInter Zdd.ProofsInterTotal Zdd.ProofsDiff Zdd.ProofsDiffTotal Zdd.ProofsPwo Zdd.ProofsPwoTotal Zdd.ProofsRemap Zdd.ProofsQuery.

Ltac zauto := eauto using ext_valid, ext_vgt, wf_lo_valid, wf_hi_valid, wf_lo_vgt, wf_hi_vgt, ext_refl, ext_trans.

Record AInv (ar : arena) : Prop := {
  ai_wf : wf (atable ar);
  ai_u : cache_ok USPEC (atable ar) (aunion ar);
  ai_i : cache_ok ISPEC (atable ar) (ainter ar);
  ai_d : cache_ok DSPEC (atable ar) (adiff ar) }.

Lemma wf_nil : wf [].
Proof. split; [intros i n H; destruct i; discriminate | constructor]. Qed.

Lemma AInv0 : AInv arena0.
Proof. split; cbn; auto using wf_nil, cache_ok_nil. Qed.

Lemma AInv_ext ar t' :
  AInv ar -> wf t' -> ext (atable ar) t' ->
  forall u i d, cache_ok USPEC t' u -> cache_ok ISPEC t' i -> cache_ok DSPEC t' d -> AInv (mkArena t' u i d).
Proof. intros A W E u i d Cu Ci Cd. split; cbn; assumption. Qed.

Lemma rk_fuel t a b : valid t a -> valid t b -> rk a + rk b < fuel_of t.
Proof. intros Va Vb. apply rk_valid in Va, Vb. unfold fuel_of. lia. Qed.

(* ---- binary operations ---- *)
Lemma a_union_ok ar x y : AInv ar -> valid (atable ar) x -> valid (atable ar) y ->
  exists ar' r, a_union ar x y = Some (ar', r) /\ AInv ar' /\ ext (atable ar) (atable ar') /\ valid (atable ar') r /\
    forall s, In_fam (atable ar') r s <-> In_fam (atable ar) x s \/ In_fam (atable ar) y s.
Proof.
  intros [W Cu Ci Cd] Vx Vy. unfold a_union.
  destruct (union_total _ _ _ _ _ W Cu Vx Vy (rk_fuel _ _ _ Vx Vy)) as [[[t c] r] H]. rewrite H.
  destruct (union_ok _ _ _ _ _ _ _ _ W Cu Vx Vy H) as [(E & W' & V & _ & S) C'].
  exists (mkArena t c (ainter ar) (adiff ar)), r. split; [reflexivity|]. split; [|split; [exact E|split; [exact V|exact S]]].
  split; cbn; auto.
  - exact (cache_ok_ext ISPEC ISPEC_proper _ _ _ W W' E Ci).
  - exact (cache_ok_ext DSPEC DSPEC_proper _ _ _ W W' E Cd).
Qed.

Lemma a_inter_ok ar x y : AInv ar -> valid (atable ar) x -> valid (atable ar) y ->
  exists ar' r, a_inter ar x y = Some (ar', r) /\ AInv ar' /\ ext (atable ar) (atable ar') /\ valid (atable ar') r /\
    forall s, In_fam (atable ar') r s <-> In_fam (atable ar) x s /\ In_fam (atable ar) y s.
Proof.
  intros [W Cu Ci Cd] Vx Vy. unfold a_inter.
  destruct (inter_total _ _ _ _ _ W Ci Vx Vy (rk_fuel _ _ _ Vx Vy)) as [[[t c] r] H]. rewrite H.
  destruct (inter_ok _ _ _ _ _ _ _ _ W Ci Vx Vy H) as [(E & W' & V & _ & S) C'].
  exists (mkArena t (aunion ar) c (adiff ar)), r. split; [reflexivity|]. split; [|split; [exact E|split; [exact V|exact S]]].
  split; cbn; auto.
  - exact (cache_ok_ext USPEC USPEC_proper _ _ _ W W' E Cu).
  - exact (cache_ok_ext DSPEC DSPEC_proper _ _ _ W W' E Cd).
Qed.

Lemma a_diff_ok ar x y : AInv ar -> valid (atable ar) x -> valid (atable ar) y ->
  exists ar' r, a_diff ar x y = Some (ar', r) /\ AInv ar' /\ ext (atable ar) (atable ar') /\ valid (atable ar') r /\
    forall s, In_fam (atable ar') r s <-> In_fam (atable ar) x s /\ ~ In_fam (atable ar) y s.
Proof.
  intros [W Cu Ci Cd] Vx Vy. unfold a_diff.
  destruct (diff_total _ _ _ _ _ W Cd Vx Vy (rk_fuel _ _ _ Vx Vy)) as [[[t c] r] H]. rewrite H.
  destruct (diff_ok _ _ _ _ _ _ _ _ W Cd Vx Vy H) as [(E & W' & V & _ & S) C'].
  exists (mkArena t (aunion ar) (ainter ar) c), r. split; [reflexivity|]. split; [|split; [exact E|split; [exact V|exact S]]].
  split; cbn; auto.
  - exact (cache_ok_ext USPEC USPEC_proper _ _ _ W W' E Cu).
  - exact (cache_ok_ext ISPEC ISPEC_proper _ _ _ W W' E Ci).
Qed.

Lemma a_pwo_ok ar x v : AInv ar -> valid (atable ar) x ->
  exists ar' r, a_pwo ar x v = Some (ar', r) /\ AInv ar' /\ ext (atable ar) (atable ar') /\ valid (atable ar') r /\
    forall s, In_fam (atable ar') r s <-> PW v (In_fam (atable ar) x) s.
Proof.
  intros [W Cu Ci Cd] Vx. unfold a_pwo.
  assert (L : rk x < fuel_of (atable ar)) by (apply rk_valid in Vx; unfold fuel_of; lia).
  destruct (pwo_total _ true v _ _ _ _ W Cu (pc_ok_nil v _) Vx L) as [[[[t uc] pc] r] H]. rewrite H.
  destruct (pwo_ok _ _ _ _ _ _ _ _ _ _ _ W Cu (pc_ok_nil v _) Vx H) as ((E & W' & V & _ & S) & Cu' & _).
  exists (mkArena t uc (ainter ar) (adiff ar)), r. split; [reflexivity|]. split; [|split; [exact E|split; [exact V|exact S]]].
  split; cbn; auto.
  - exact (cache_ok_ext ISPEC ISPEC_proper _ _ _ W W' E Ci).
  - exact (cache_ok_ext DSPEC DSPEC_proper _ _ _ W W' E Cd).
Qed.

Lemma a_from_set_ok ar l : AInv ar ->
  let '(ar', r) := a_from_set ar l in
  AInv ar' /\ ext (atable ar) (atable ar') /\ valid (atable ar') r /\
  forall s, In_fam (atable ar') r s <-> s = norm_set l.
Proof.
  intros [W Cu Ci Cd]. unfold a_from_set. rewrite from_set_chain.
  pose proof (chain_ok (atable ar) (norm_set l) W (norm_set_sorted l)) as X.
  destruct (chain (atable ar) (norm_set l)) as [t r]. destruct X as (E & W' & V & _ & S).
  split; [|split; [exact E|split; [exact V|exact S]]].
  split; cbn; auto.
  - exact (cache_ok_ext USPEC USPEC_proper _ _ _ W W' E Cu).
  - exact (cache_ok_ext ISPEC ISPEC_proper _ _ _ W W' E Ci).
  - exact (cache_ok_ext DSPEC DSPEC_proper _ _ _ W W' E Cd).
Qed.

Lemma a_single_ok ar v : AInv ar ->
  let '(ar', r) := a_single ar v in
  AInv ar' /\ ext (atable ar) (atable ar') /\ valid (atable ar') r /\
  forall s, In_fam (atable ar') r s <-> s = [v].
Proof.
  intros [W Cu Ci Cd]. unfold a_single.
  destruct (goc (atable ar) v REmpty RBase) as [t r] eqn:Hg.
  destruct (goc_spec (atable ar) v REmpty RBase t r W I I I I Hg) as (E & W' & V & _ & S).
  split; [|split; [exact E|split; [exact V|]]].
  - split; cbn; auto.
    + exact (cache_ok_ext USPEC USPEC_proper _ _ _ W W' E Cu).
    + exact (cache_ok_ext ISPEC ISPEC_proper _ _ _ W W' E Ci).
    + exact (cache_ok_ext DSPEC DSPEC_proper _ _ _ W W' E Cd).
  - intros s. rewrite S. split.
    + intros [X|[s' [-> X]]]; [inversion X|]. apply in_fam_base in X. subst. reflexivity.
    + intros ->. right. exists []. split; [reflexivity | constructor].
Qed.

(* ---- garbage collection ---- *)
Lemma remap_all_ok src : wf src -> forall live t m t' rs,
  wf t -> map_ok src t m -> Forall (valid src) live ->
  remap_all src t m live = Some (t', rs) ->
  ext t t' /\ wf t' /\ Forall2 (same_fam src t') live rs.
Proof.
  intros Ws. induction live as [|r live IH]; intros t m t' rs W M V H; cbn [remap_all] in H.
  - inversion H; subst. split; [apply ext_refl|]. split; [exact W | constructor].
  - inversion V as [|? ? Vr Vl]; subst.
    destruct (remap_f (S (length src)) src t m r) as [[[t1 m1] r1]|] eqn:H1; [|discriminate].
    destruct (remap_all src t1 m1 live) as [[t2 rs2]|] eqn:H2; [|discriminate].
    inversion H; subst t' rs. clear H.
    destruct (remap_ok _ _ Ws _ _ _ _ _ _ W M Vr H1) as (E1 & W1 & M1 & X1).
    destruct (IH _ _ _ _ W1 M1 Vl H2) as (E2 & W2 & F2).
    split; [zauto|]. split; [exact W2|]. constructor; [|exact F2].
    exact (same_fam_ext src t1 t2 r r1 W1 E2 X1).
Qed.

Lemma remap_all_total src : wf src -> forall live t m,
  wf t -> map_ok src t m -> Forall (valid src) live ->
  exists out, remap_all src t m live = Some out.
Proof.
  intros Ws. induction live as [|r live IH]; intros t m W M V; cbn [remap_all]; [eauto|].
  inversion V as [|? ? Vr Vl]; subst.
  assert (L : rk r < S (length src)) by (apply rk_valid in Vr; lia).
  destruct (remap_total _ _ Ws _ _ _ W M Vr L) as [[[t1 m1] r1] H1]. rewrite H1.
  destruct (remap_ok _ _ Ws _ _ _ _ _ _ W M Vr H1) as (E1 & W1 & M1 & X1).
  destruct (IH _ _ W1 M1 Vl) as [[t2 rs] H2]. rewrite H2. eauto.
Qed.

Lemma Forall2_weaken {A B} (P Q : A -> B -> Prop) l l' :
  (forall a b, P a b -> Q a b) -> Forall2 P l l' -> Forall2 Q l l'.
Proof. intros I F. induction F; constructor; auto. Qed.

Lemma a_gc_ok ar live : AInv ar -> Forall (valid (atable ar)) live ->
  exists ar' rs, a_gc ar live = Some (ar', rs) /\ AInv ar' /\
    Forall2 (fun r r' => valid (atable ar') r' /\ forall s, In_fam (atable ar') r' s <-> In_fam (atable ar) r s) live rs.
Proof.
  intros [W Cu Ci Cd] V. unfold a_gc.
  destruct (remap_all_total _ W live [] [] wf_nil (map_ok_nil _ _) V) as [[t rs] H]. rewrite H.
  destruct (remap_all_ok _ W _ _ _ _ _ wf_nil (map_ok_nil _ _) V H) as (_ & W' & F).
  exists (mkArena t [] [] []), rs. split; [reflexivity|]. split.
  - split; cbn; auto using cache_ok_nil.
  - cbn. eapply Forall2_weaken; [|exact F]. intros r r' (Vr & _ & S). auto.
Qed.

(* ---- count ---- *)
Lemma a_count_ok t r : wf t -> valid t r ->
  exists c l, count_f (S (length t)) t r = Some c /\ c = N.of_nat (length l) /\ NoDup l /\
    forall s, In s l <-> In_fam t r s.
Proof.
  intros W V. assert (L : rk r < S (length t)) by (apply rk_valid in V; lia).
  destruct (iter_total _ _ _ W V L) as [l H]. destruct (iter_ok _ _ _ _ W V H) as [S N].
  exists (N.of_nat (length l)), l. split; [apply count_iter; exact H|]. auto.
Qed.
