(* Denotation of refs as families of strictly ascending lists, well-formedness of
   the unique table, and the specification of get_or_create. *)
From Coq Require Export Sorted.
From VP Require Import Base.Tactics Zdd.Model.

(* ------------------------------------------------------------ equalities *)
Lemma ref_eqb_eq a b : ref_eqb a b = true <-> a = b.
Proof.
  destruct a, b; cbn; split; intro H; try discriminate; try reflexivity.
  - apply Nat.eqb_eq in H. subst. reflexivity.
  - inversion H. apply Nat.eqb_refl.
Qed.
Lemma ref_eqb_refl a : ref_eqb a a = true.
Proof. apply ref_eqb_eq. reflexivity. Qed.
Lemma ref_eqb_neq a b : ref_eqb a b = false <-> a <> b.
Proof.
  split; intros H.
  - intro E. apply ref_eqb_eq in E. congruence.
  - destruct (ref_eqb a b) eqn:E; [apply ref_eqb_eq in E; contradiction | reflexivity].
Qed.
Lemma node_eqb_eq x y : node_eqb x y = true <-> x = y.
Proof.
  unfold node_eqb. destruct x as [xv xl xh], y as [yv yl yh]; cbn.
  rewrite !andb_true_iff, N.eqb_eq, !ref_eqb_eq. split.
  - intros [[-> ->] ->]. reflexivity.
  - intros H. inversion H. auto.
Qed.

Ltac ref_cases :=
  repeat match goal with
  | H : ref_eqb _ _ = true |- _ => apply ref_eqb_eq in H
  | H : ref_eqb _ _ = false |- _ => apply ref_eqb_neq in H
  end.

(* ---------------------------------------------------------- denotation *)
Inductive In_fam (t : table) : ref -> list N -> Prop :=
| in_base : In_fam t RBase []
| in_lo i n s : nth_error t i = Some n -> In_fam t (nlo n) s -> In_fam t (RNode i) s
| in_hi i n s : nth_error t i = Some n -> In_fam t (nhi n) s -> In_fam t (RNode i) (nvar n :: s).

Lemma in_fam_empty t s : ~ In_fam t REmpty s.
Proof. intro H. inversion H. Qed.
Lemma in_fam_base t s : In_fam t RBase s <-> s = [].
Proof. split; intro H; [inversion H; reflexivity | subst; constructor]. Qed.
Lemma in_fam_node t i n s :
  nth_error t i = Some n ->
  (In_fam t (RNode i) s <-> In_fam t (nlo n) s \/ exists s', s = nvar n :: s' /\ In_fam t (nhi n) s').
Proof.
  intros Hn. split.
  - intro H. inversion H; subst; rewrite Hn in *;
      match goal with E : Some _ = Some _ |- _ => inversion E; subst end; eauto.
  - intros [H | [s' [-> H]]]; [eapply in_lo | eapply in_hi]; eauto.
Qed.

(* ------------------------------------------------------- well-formedness *)
Definition rlt (r : ref) (k : nat) : Prop := match r with RNode j => j < k | _ => True end.
Definition valid (t : table) (r : ref) : Prop := rlt r (length t).
(* every variable reachable from r is above v *)
Definition vgt (t : table) (v : N) (r : ref) : Prop :=
  match r with
  | RNode j => exists m, nth_error t j = Some m /\ (v < nvar m)%N
  | _ => True
  end.
Definition node_ok (t : table) (i : nat) (n : node) : Prop :=
  nhi n <> REmpty /\ rlt (nlo n) i /\ rlt (nhi n) i /\ vgt t (nvar n) (nlo n) /\ vgt t (nvar n) (nhi n).
Record wf (t : table) : Prop := {
  wf_nodes : forall i n, nth_error t i = Some n -> node_ok t i n;
  wf_nodup : NoDup t }.

Definition ext (t t' : table) : Prop := exists l, t' = t ++ l.

Lemma ext_refl t : ext t t.
Proof. exists []. rewrite app_nil_r. reflexivity. Qed.
Lemma ext_trans a b c : ext a b -> ext b c -> ext a c.
Proof. intros [l ->] [m ->]. exists (l ++ m). rewrite app_assoc. reflexivity. Qed.
Lemma ext_nth t t' i n : ext t t' -> nth_error t i = Some n -> nth_error t' i = Some n.
Proof.
  intros [l ->] H. rewrite nth_error_app1; [exact H|].
  apply nth_error_Some. congruence.
Qed.
Lemma ext_length t t' : ext t t' -> length t <= length t'.
Proof. intros [l ->]. rewrite app_length. lia. Qed.
Lemma ext_valid t t' r : ext t t' -> valid t r -> valid t' r.
Proof. intros E. apply ext_length in E. unfold valid. destruct r; cbn; auto. lia. Qed.
Lemma ext_vgt t t' v r : ext t t' -> vgt t v r -> vgt t' v r.
Proof.
  intros E. destruct r; cbn; auto. intros [m [H L]]. exists m. split; [eapply ext_nth; eauto | exact L].
Qed.
Lemma vgt_trans t u v r : (u <= v)%N -> vgt t v r -> vgt t u r.
Proof. destruct r; cbn; auto. intros L [m [H L']]. exists m. split; [exact H | lia]. Qed.
Lemma rlt_valid t i r n : nth_error t i = Some n -> rlt r i -> valid t r.
Proof.
  intros H R. assert (i < length t) by (apply nth_error_Some; congruence).
  unfold valid. destruct r; cbn in *; auto. lia.
Qed.
Lemma valid_nth t i : valid t (RNode i) -> exists n, nth_error t i = Some n.
Proof.
  unfold valid; cbn. intro H. destruct (nth_error t i) eqn:E; eauto.
  apply nth_error_None in E. lia.
Qed.

Lemma in_fam_ext t t' r s : ext t t' -> In_fam t r s -> In_fam t' r s.
Proof.
  intros E H. induction H.
  - constructor.
  - eapply in_lo; eauto using ext_nth.
  - eapply in_hi; eauto using ext_nth.
Qed.

Lemma in_fam_stable t t' r s : wf t -> ext t t' -> valid t r -> In_fam t' r s -> In_fam t r s.
Proof.
  intros W E V H. induction H as [| i n s Hn H IH | i n s Hn H IH].
  - constructor.
  - destruct (valid_nth _ _ V) as [n' Hn']. pose proof (ext_nth _ _ _ _ E Hn') as Hx.
    rewrite Hn in Hx. inversion Hx; subst n'.
    destruct (wf_nodes _ W _ _ Hn') as (_ & Rl & _).
    eapply in_lo; eauto. apply IH. eapply rlt_valid; eauto.
  - destruct (valid_nth _ _ V) as [n' Hn']. pose proof (ext_nth _ _ _ _ E Hn') as Hx.
    rewrite Hn in Hx. inversion Hx; subst n'.
    destruct (wf_nodes _ W _ _ Hn') as (_ & _ & Rh & _).
    eapply in_hi; eauto. apply IH. eapply rlt_valid; eauto.
Qed.

Lemma in_fam_ext_iff t t' r s : wf t -> ext t t' -> valid t r -> (In_fam t' r s <-> In_fam t r s).
Proof. intros. split; [apply in_fam_stable | apply in_fam_ext]; auto. Qed.

(* members of r only mention variables above any lower bound of r, in ascending order *)
Lemma members_gt t v r s : wf t -> vgt t v r -> In_fam t r s -> Forall (fun x => (v < x)%N) s.
Proof.
  intros W G H. revert v G. induction H as [| i n s Hn H IH | i n s Hn H IH]; intros v G.
  - constructor.
  - cbn in G. destruct G as [m [Hm L]]. rewrite Hn in Hm. inversion Hm; subst m.
    destruct (wf_nodes _ W _ _ Hn) as (_ & _ & _ & Gl & _).
    apply IH. eapply vgt_trans; [|exact Gl]. lia.
  - cbn in G. destruct G as [m [Hm L]]. rewrite Hn in Hm. inversion Hm; subst m.
    destruct (wf_nodes _ W _ _ Hn) as (_ & _ & _ & _ & Gh).
    constructor; [exact L|]. apply IH. eapply vgt_trans; [|exact Gh]. lia.
Qed.

Lemma members_sorted t r s : wf t -> In_fam t r s -> StronglySorted N.lt s.
Proof.
  intros W H. induction H as [| i n s Hn H IH | i n s Hn H IH].
  - constructor.
  - exact IH.
  - constructor; [exact IH|].
    destruct (wf_nodes _ W _ _ Hn) as (_ & _ & _ & _ & Gh).
    eapply members_gt; eauto.
Qed.

Lemma not_head_member t v r s : wf t -> vgt t v r -> ~ In_fam t r (v :: s).
Proof.
  intros W G H. pose proof (members_gt _ _ _ _ W G H) as F. inversion F; subst. lia.
Qed.

(* -------------------------------------------------------- get_or_create *)
Lemma find_idx_some n t k i : find_idx n t k = Some i -> k <= i /\ nth_error t (i - k) = Some n.
Proof.
  revert k. induction t as [|m t IH]; cbn; intros k H; [discriminate|].
  destruct (node_eqb n m) eqn:E.
  - inversion H; subst. apply node_eqb_eq in E. subst. rewrite Nat.sub_diag. cbn. auto.
  - apply IH in H. destruct H as [L H]. split; [lia|].
    replace (i - k) with (S (i - S k)) by lia. exact H.
Qed.
Lemma find_idx_none n t k : find_idx n t k = None -> ~ In n t.
Proof.
  revert k. induction t as [|m t IH]; cbn; intros k H; [tauto|].
  destruct (node_eqb n m) eqn:E; [discriminate|].
  intros [-> | I]; [|eapply IH; eauto].
  assert (node_eqb n n = true) by (apply node_eqb_eq; reflexivity). congruence.
Qed.

Lemma node_ok_ext t t' i n : ext t t' -> node_ok t i n -> node_ok t' i n.
Proof. intros E (A & B & C & D & F). repeat split; auto; eapply ext_vgt; eauto. Qed.

Lemma NoDup_app_snoc {A} (l : list A) x : NoDup l -> ~ In x l -> NoDup (l ++ [x]).
Proof.
  induction l as [|y l IH]; cbn; intros N NI.
  - constructor; [tauto | constructor].
  - inversion N; subst. constructor.
    + rewrite in_app_iff. cbn. intros [I | [E | []]]; [tauto | subst; tauto].
    + apply IH; tauto.
Qed.

Lemma wf_snoc t n :
  wf t -> node_ok t (length t) n -> ~ In n t -> wf (t ++ [n]).
Proof.
  intros W K NI. assert (E : ext t (t ++ [n])) by (eexists; reflexivity).
  split.
  - intros i m Hm. destruct (Nat.lt_ge_cases i (length t)) as [L | L].
    + rewrite nth_error_app1 in Hm by exact L. eapply node_ok_ext; eauto. eapply wf_nodes; eauto.
    + rewrite nth_error_app2 in Hm by exact L.
      destruct (i - length t) as [|d] eqn:D; cbn in Hm; [|destruct d; discriminate].
      inversion Hm; subst m. replace i with (length t) by lia. eapply node_ok_ext; eauto.
  - apply NoDup_app_snoc; [exact (wf_nodup _ W) | exact NI].
Qed.


Lemma nth_error_snoc {A} (l : list A) x : nth_error (l ++ [x]) (length l) = Some x.
Proof. rewrite nth_error_app2 by lia. rewrite Nat.sub_diag. reflexivity. Qed.

Lemma goc_spec t v l h t' r :
  wf t -> valid t l -> valid t h -> vgt t v l -> vgt t v h ->
  goc t v l h = (t', r) ->
  ext t t' /\ wf t' /\ valid t' r /\
  (forall u, (u < v)%N -> vgt t u l -> vgt t' u r) /\
  (forall s, In_fam t' r s <-> In_fam t l s \/ exists s', s = v :: s' /\ In_fam t h s').
Proof.
  intros W Vl Vh Gl Gh. unfold goc.
  destruct (ref_eqb h REmpty) eqn:Eh.
  - apply ref_eqb_eq in Eh. subst h. intros E. inversion E; subst t' r.
    split; [apply ext_refl|]. split; [exact W|]. split; [exact Vl|]. split; [auto|].
    intros s. split; [tauto|]. intros [H | [s' [_ H]]]; [exact H | inversion H].
  - apply ref_eqb_neq in Eh.
    destruct (find_idx (mkNode v l h) t 0) as [i|] eqn:F; intros E; inversion E; subst t' r.
    + apply find_idx_some in F. destruct F as [_ F]. rewrite Nat.sub_0_r in F.
      split; [apply ext_refl|]. split; [exact W|]. split; [|split].
      * unfold valid; cbn. apply nth_error_Some. congruence.
      * intros u L _. cbn. eexists. split; [exact F | exact L].
      * intros s. apply (in_fam_node _ _ _ s F).
    + apply find_idx_none in F.
      assert (E' : ext t (t ++ [mkNode v l h])) by (eexists; reflexivity).
      assert (W' : wf (t ++ [mkNode v l h])).
      { apply wf_snoc; auto. repeat split; auto. }
      assert (Hn : nth_error (t ++ [mkNode v l h]) (length t) = Some (mkNode v l h)) by apply nth_error_snoc.
      split; [exact E'|]. split; [exact W'|]. split; [|split].
      * unfold valid; cbn. rewrite app_length. cbn. lia.
      * intros u L _. cbn. eexists. split; [exact Hn | exact L].
      * intros s. rewrite (in_fam_node _ _ _ s Hn). cbn.
        rewrite (in_fam_ext_iff t _ l s W E' Vl).
        split; (intros [H | [s' [-> H]]]; [left; exact H | right; exists s'; split; [reflexivity|]]).
        -- eapply in_fam_stable; eauto.
        -- eapply in_fam_ext; eauto.
Qed.
