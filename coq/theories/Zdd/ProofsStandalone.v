(* The standalone Zdd API: every operation clones the left table, remaps the
   right operand into it and runs the recursive operation with a fresh cache. *)
From Coq Require Import Setoid Morphisms.
From VP Require Import Base.Tactics Zdd.Model Zdd.ProofsBase Zdd.ProofsOps Zdd.ProofsUnion
  Zdd.ProofsInter Zdd.ProofsSInter Zdd.ProofsSInterTotal Zdd.ProofsDiff Zdd.ProofsSDiff Zdd.ProofsSDiffTotal
  Zdd.ProofsPwo Zdd.ProofsPwoTotal Zdd.ProofsRemap Zdd.ProofsQuery Zdd.ProofsArena.

Ltac zauto := eauto using ext_valid, ext_vgt, wf_lo_valid, wf_hi_valid, wf_lo_vgt, wf_hi_vgt, ext_refl, ext_trans.

Definition zwf (z : zdd) : Prop := wf (ztable z) /\ valid (ztable z) (zroot z).
Definition zmem (z : zdd) (s : list N) : Prop := In_fam (ztable z) (zroot z) s.

Section Binop.
  Variable SPEC : Prop -> Prop -> Prop.
  Hypothesis SPEC_proper : forall P P' Q Q', (P <-> P') -> (Q <-> Q') -> (SPEC P Q <-> SPEC P' Q').
  Variable op : nat -> table -> cache2 -> ref -> ref -> option (table * cache2 * ref).
  Hypothesis op_ok : forall fuel t c a b t' c' r,
    wf t -> cache_ok SPEC t c -> valid t a -> valid t b ->
    op fuel t c a b = Some (t', c', r) -> res_ok SPEC t a b t' r /\ cache_ok SPEC t' c'.
  Hypothesis op_total : forall fuel t c a b,
    wf t -> cache_ok SPEC t c -> valid t a -> valid t b -> rk a + rk b < fuel ->
    exists out, op fuel t c a b = Some out.

  Lemma z_binop_ok x y : zwf x -> zwf y ->
    exists z, z_binop op x y = Some z /\ zwf z /\ forall s, zmem z s <-> SPEC (zmem x s) (zmem y s).
  Proof.
    intros [Wx Vx] [Wy Vy]. unfold z_binop.
    assert (Ly : rk (zroot y) < S (length (ztable y))) by (apply rk_valid in Vy; lia).
    destruct (remap_total _ _ Wy (ztable x) [] (zroot y) Wx (map_ok_nil _ _) Vy Ly) as [[[t1 m1] yr] H1].
    rewrite H1.
    destruct (remap_ok _ _ Wy _ _ _ _ _ _ Wx (map_ok_nil _ _) Vy H1) as (E1 & W1 & _ & (Vyr & _ & Syr)).
    assert (Vx1 : valid t1 (zroot x)) by zauto.
    destruct (op_total (fuel_of t1) t1 [] (zroot x) yr W1 (cache_ok_nil SPEC t1) Vx1 Vyr (rk_fuel _ _ _ Vx1 Vyr))
      as [[[t2 c2] r] H2].
    rewrite H2.
    destruct (op_ok _ _ _ _ _ _ _ _ W1 (cache_ok_nil SPEC t1) Vx1 Vyr H2) as [(E2 & W2 & V2 & _ & S2) _].
    exists (mkZdd r t2). split; [reflexivity|]. split; [split; assumption|].
    intros s. unfold zmem. cbn. rewrite S2. apply SPEC_proper.
    - apply in_fam_ext_iff; auto.
    - apply Syr.
  Qed.
End Binop.

Theorem z_union_ok x y : zwf x -> zwf y ->
  exists z, z_union x y = Some z /\ zwf z /\ forall s, zmem z s <-> zmem x s \/ zmem y s.
Proof. apply (z_binop_ok USPEC USPEC_proper union_f union_ok union_total). Qed.
Theorem z_inter_ok x y : zwf x -> zwf y ->
  exists z, z_inter x y = Some z /\ zwf z /\ forall s, zmem z s <-> zmem x s /\ zmem y s.
Proof. apply (z_binop_ok ISPEC ISPEC_proper sinter_f sinter_ok sinter_total). Qed.
Theorem z_diff_ok x y : zwf x -> zwf y ->
  exists z, z_diff x y = Some z /\ zwf z /\ forall s, zmem z s <-> zmem x s /\ ~ zmem y s.
Proof. apply (z_binop_ok DSPEC DSPEC_proper sdiff_f sdiff_ok sdiff_total). Qed.

Theorem z_pwo_ok x v : zwf x ->
  exists z, z_pwo x v = Some z /\ zwf z /\ forall s, zmem z s <-> PW v (zmem x) s.
Proof.
  intros [W V]. unfold z_pwo.
  assert (L : rk (zroot x) < fuel_of (ztable x)) by (apply rk_valid in V; unfold fuel_of; lia).
  destruct (pwo_total _ false v _ [] [] _ W (cache_ok_nil USPEC _) (pc_ok_nil v _) V L) as [[[[t uc] pc] r] H].
  rewrite H.
  destruct (pwo_ok _ _ _ _ _ _ _ _ _ _ _ W (cache_ok_nil USPEC _) (pc_ok_nil v _) V H) as ((E & W' & V' & _ & S) & _).
  exists (mkZdd r t). split; [reflexivity|]. split; [split; assumption | exact S].
Qed.

Theorem z_from_set_ok l : zwf (z_from_set l) /\ forall s, zmem (z_from_set l) s <-> s = norm_set l.
Proof.
  unfold z_from_set. rewrite from_set_chain.
  pose proof (chain_ok [] (norm_set l) wf_nil (norm_set_sorted l)) as X.
  destruct (chain [] (norm_set l)) as [t r]. destruct X as (_ & W & V & _ & S).
  split; [split; assumption | exact S].
Qed.

Theorem z_single_ok v : zwf (z_single v) /\ forall s, zmem (z_single v) s <-> s = [v].
Proof.
  unfold z_single. destruct (goc [] v REmpty RBase) as [t r] eqn:Hg.
  destruct (goc_spec [] v REmpty RBase t r wf_nil I I I I Hg) as (_ & W & V & _ & S).
  split; [split; assumption|]. intros s. unfold zmem. cbn. rewrite S. split.
  - intros [X|[s' [-> X]]]; [inversion X|]. apply in_fam_base in X. subst. reflexivity.
  - intros ->. right. exists []. split; [reflexivity | constructor].
Qed.
