(* totality of inter_f: enough fuel, no out-of-range lookups *)
From VP Require Import Base.Tactics Zdd.Model Zdd.ProofsBase Zdd.ProofsOps Zdd.ProofsUnion Zdd.ProofsInter.

Local Notation C := (cache_ok ISPEC).
Ltac zauto := eauto using ext_valid, ext_vgt, wf_lo_valid, wf_hi_valid, wf_lo_vgt, wf_hi_vgt, ext_refl, ext_trans.

Lemma inter_total fuel : forall t c a b,
  wf t -> C t c -> valid t a -> valid t b -> rk a + rk b < fuel ->
  exists out, inter_f fuel t c a b = Some out.
Proof.
  induction fuel as [|f IH]; intros t c a b W Cc Va Vb L; [lia|].
  cbn [inter_f].
  destruct (ref_eqb a REmpty || ref_eqb b REmpty) eqn:Eab0; [eauto|].
  apply orb_false_iff in Eab0. destruct Eab0 as [Ea Eb].
  destruct (ref_eqb a b) eqn:Eab; [eauto|].
  apply ref_eqb_neq in Ea, Eb, Eab.
  destruct (norm a b) as [a' b'] eqn:Hn.
  assert (Va' : valid t a') by (destruct (norm_cases _ _ _ _ Hn) as [[-> ->]|[-> ->]]; assumption).
  assert (Vb' : valid t b') by (destruct (norm_cases _ _ _ _ Hn) as [[-> ->]|[-> ->]]; assumption).
  assert (Ea' : a' <> REmpty) by (destruct (norm_cases _ _ _ _ Hn) as [[-> ->]|[-> ->]]; assumption).
  assert (Eb' : b' <> REmpty) by (destruct (norm_cases _ _ _ _ Hn) as [[-> ->]|[-> ->]]; assumption).
  assert (Eab' : a' <> b') by (destruct (norm_cases _ _ _ _ Hn) as [[-> ->]|[-> ->]]; congruence).
  assert (L' : rk a' + rk b' < S f) by (destruct (norm_cases _ _ _ _ Hn) as [[-> ->]|[-> ->]]; lia).
  clear Hn Va Vb Ea Eb Eab L a b.
  destruct (lookup2 c a' b') as [rc|] eqn:Hl; [eauto|].
  destruct a' as [| |i]; [congruence| |]; destruct b' as [| |j]; try congruence.
  - destruct (valid_nth _ _ Vb') as [nb Hnb]. cbn [info ref_eqb]. rewrite Hnb.
    assert (Lr : rk RBase + rk (nlo nb) < f) by (pose proof (rk_lt _ _ (wf_lo_lt _ _ _ W Hnb)); cbn in *; lia).
    destruct (IH t c RBase (nlo nb) W Cc Va' (wf_lo_valid _ _ _ W Hnb) Lr) as [[[t1 c1] nl] H1].
    rewrite H1. eauto.
  - destruct (valid_nth _ _ Va') as [na Hna]. cbn [info ref_eqb]. rewrite Hna.
    assert (Lr : rk (nlo na) + rk RBase < f) by (pose proof (rk_lt _ _ (wf_lo_lt _ _ _ W Hna)); cbn in *; lia).
    destruct (IH t c (nlo na) RBase W Cc (wf_lo_valid _ _ _ W Hna) Vb' Lr) as [[[t1 c1] nl] H1].
    rewrite H1. eauto.
  - destruct (valid_nth _ _ Va') as [na Hna]. destruct (valid_nth _ _ Vb') as [nb Hnb].
    cbn [info]. rewrite Hna, Hnb.
    pose proof (rk_lt _ _ (wf_lo_lt _ _ _ W Hna)) as La1. pose proof (rk_lt _ _ (wf_hi_lt _ _ _ W Hna)) as La2.
    pose proof (rk_lt _ _ (wf_lo_lt _ _ _ W Hnb)) as Lb1. pose proof (rk_lt _ _ (wf_hi_lt _ _ _ W Hnb)) as Lb2.
    cbn [rk] in L'.
    destruct (N.ltb (nvar na) (nvar nb)); [|destruct (N.ltb (nvar nb) (nvar na))].
    + assert (Lr : rk (nlo na) + rk (RNode j) < f) by (cbn [rk]; lia).
      destruct (IH t c (nlo na) (RNode j) W Cc (wf_lo_valid _ _ _ W Hna) Vb' Lr) as [[[t1 c1] nl] H1].
      rewrite H1. eauto.
    + assert (Lr : rk (RNode i) + rk (nlo nb) < f) by (cbn [rk]; lia).
      destruct (IH t c (RNode i) (nlo nb) W Cc Va' (wf_lo_valid _ _ _ W Hnb) Lr) as [[[t1 c1] nl] H1].
      rewrite H1. eauto.
    + assert (Lr : rk (nlo na) + rk (nlo nb) < f) by lia.
      destruct (IH t c (nlo na) (nlo nb) W Cc (wf_lo_valid _ _ _ W Hna) (wf_lo_valid _ _ _ W Hnb) Lr) as [[[t1 c1] nl] H1].
      rewrite H1.
      destruct (inter_ok _ _ _ _ _ _ _ _ W Cc (wf_lo_valid _ _ _ W Hna) (wf_lo_valid _ _ _ W Hnb) H1) as [(E1 & W1 & _) C1].
      assert (Lr2 : rk (nhi na) + rk (nhi nb) < f) by lia.
      assert (Vha : valid t1 (nhi na)) by zauto.
      assert (Vhb : valid t1 (nhi nb)) by zauto.
      destruct (IH t1 c1 (nhi na) (nhi nb) W1 C1 Vha Vhb Lr2) as [[[t2 c2] nh] H2].
      rewrite H2. destruct (goc t2 (nvar na) nl nh). eauto.
Qed.
