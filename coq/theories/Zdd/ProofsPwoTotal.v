(* totality of pwo_f, and correctness of from_set / singleton *)
From Coq Require Import Setoid Morphisms.
From VP Require Import Base.Tactics Zdd.Model Zdd.ProofsBase Zdd.ProofsOps Zdd.ProofsUnion Zdd.ProofsPwo.

Local Notation CU := (cache_ok USPEC).
Ltac zauto := eauto using ext_valid, ext_vgt, wf_lo_valid, wf_hi_valid, wf_lo_vgt, wf_hi_vgt, ext_refl, ext_trans.

Lemma pwo_total fuel (persistent : bool) (v : N) : forall t uc pc nd,
  wf t -> CU t uc -> pc_ok v t pc -> valid t nd -> rk nd < fuel ->
  exists out, pwo_f fuel persistent t uc pc nd v = Some out.
Proof.
  induction fuel as [|f IH]; intros t uc pc nd W Cu Pc Vn L; [lia|].
  cbn [pwo_f]. destruct nd as [| |i]; [eauto | destruct (goc t v RBase RBase); eauto |].
  destruct (lookup1 pc (RNode i)); [eauto|].
  destruct (valid_nth _ _ Vn) as [n Hn]. rewrite Hn.
  pose proof (rk_lt _ _ (wf_lo_lt _ _ _ W Hn)) as L1. pose proof (rk_lt _ _ (wf_hi_lt _ _ _ W Hn)) as L2.
  cbn [rk] in L.
  destruct (N.ltb (nvar n) v); [|destruct (N.eqb (nvar n) v)].
  - destruct (IH t uc pc (nlo n) W Cu Pc (wf_lo_valid _ _ _ W Hn)) as [[[[t1 uc1] pc1] nl] H1]; [lia|].
    rewrite H1.
    destruct (pwo_ok _ _ _ _ _ _ _ _ _ _ _ W Cu Pc (wf_lo_valid _ _ _ W Hn) H1) as ((E1 & W1 & _) & Cu1 & Pc1).
    assert (Vh : valid t1 (nhi n)) by zauto.
    destruct (IH t1 uc1 pc1 (nhi n) W1 Cu1 Pc1 Vh) as [[[[t2 uc2] pc2] nh] H2]; [lia|].
    rewrite H2. destruct (goc t2 (nvar n) nl nh). eauto.
  - assert (Cu0 : CU t (if persistent then uc else [])).
    { destruct persistent; [exact Cu | apply cache_ok_nil]. }
    pose proof (rk_valid _ _ (wf_lo_valid _ _ _ W Hn)) as K1. pose proof (rk_valid _ _ (wf_hi_valid _ _ _ W Hn)) as K2.
    destruct (union_total (S (length t + length t)) t _ (nlo n) (nhi n) W Cu0
                (wf_lo_valid _ _ _ W Hn) (wf_hi_valid _ _ _ W Hn)) as [[[t1 uc1] nh] H1]; [lia|].
    rewrite H1. destruct (goc t1 v (nlo n) nh). eauto.
  - destruct (goc t v (RNode i) (RNode i)). eauto.
Qed.

(* ---- norm_set: sort + dedup ---- *)
Lemma ins_In x y l : In y (ins x l) <-> y = x \/ In y l.
Proof.
  induction l as [|z l IH]; cbn; [intuition congruence|].
  destruct (N.ltb_spec x z); [cbn; intuition congruence|].
  destruct (N.eqb_spec x z); [subst; cbn; intuition congruence|]. cbn. rewrite IH. intuition congruence.
Qed.

Lemma ins_sorted x l : StronglySorted N.lt l -> StronglySorted N.lt (ins x l).
Proof.
  induction l as [|z l IH]; cbn; intros S.
  - constructor; constructor.
  - inversion S as [|? ? S' F]; subst.
    destruct (N.ltb_spec x z).
    + constructor; [exact S|]. constructor; [exact H|].
      eapply Forall_impl; [|exact F]. intros a. cbn. lia.
    + destruct (N.eqb_spec x z); [exact S|].
      constructor; [apply IH; exact S'|].
      apply Forall_forall. intros y Iy. apply ins_In in Iy. destruct Iy as [->|Iy]; [lia|].
      rewrite Forall_forall in F. apply F. exact Iy.
Qed.

Lemma norm_set_sorted l : StronglySorted N.lt (norm_set l).
Proof. induction l; cbn; [constructor | apply ins_sorted; assumption]. Qed.
Lemma norm_set_In l y : In y (norm_set l) <-> In y l.
Proof. induction l as [|x l IH]; cbn; [tauto|]. rewrite ins_In, IH. split; intros [?|?]; auto. Qed.

(* ---- from_set: a chain from the highest variable down ---- *)
Definition chain (t : table) (l : list N) : table * ref :=
  fold_right (fun v '(t, cur) => goc t v REmpty cur) (t, RBase) l.

Lemma fold_left_ext' {A B} (f g : A -> B -> A) l a :
  (forall x y, f x y = g x y) -> fold_left f l a = fold_left g l a.
Proof. intros E. revert a. induction l as [|b l IH]; cbn; intros a; [reflexivity|]. rewrite E. apply IH. Qed.

Lemma from_set_chain t l : from_set_t t l = chain t (norm_set l).
Proof.
  unfold from_set_t, chain. symmetry.
  rewrite <- (rev_involutive (norm_set l)) at 1. rewrite fold_left_rev_right.
  apply fold_left_ext'. intros [t0 c0] y. reflexivity.
Qed.

Lemma chain_ok t l : wf t -> StronglySorted N.lt l ->
  let '(t', r) := chain t l in
  ext t t' /\ wf t' /\ valid t' r /\ (forall u, Forall (fun x => (u < x)%N) l -> vgt t' u r) /\
  (forall s, In_fam t' r s <-> s = l).
Proof.
  intros W. induction l as [|x l IH]; intros S.
  - cbn. split; [apply ext_refl|]. split; [exact W|]. split; [exact I|]. split; [intros; exact I|].
    intros s. apply in_fam_base.
  - inversion S as [|? ? S' F]; subst. cbn [chain fold_right]. fold (chain t l).
    specialize (IH S'). destruct (chain t l) as [t1 r1]. destruct IH as (E1 & W1 & V1 & G1 & S1).
    destruct (goc t1 x REmpty r1) as [t2 r2] eqn:Hg.
    destruct (goc_spec t1 x REmpty r1 t2 r2 W1 I V1 I (G1 x F) Hg) as (E2 & W2 & V2 & G2 & S2).
    split; [zauto|]. split; [exact W2|]. split; [exact V2|]. split.
    + intros u Fu. inversion Fu; subst. apply G2; [assumption | exact I].
    + intros s. rewrite S2. split.
      * intros [X|[s' [-> X]]]; [inversion X|]. apply S1 in X. subst. reflexivity.
      * intros ->. right. exists l. split; [reflexivity|]. apply S1. reflexivity.
Qed.
