(* totality of product_f and the standalone Zdd::product *)
From VP Require Import Base.Tactics Zdd.Model Zdd.ProofsBase Zdd.ProofsOps Zdd.ProofsUnion Zdd.ProofsRemap
  Zdd.ProofsQuery Zdd.ProofsArena Zdd.ProofsStandalone Zdd.ProofsProduct.

Ltac zauto := eauto using ext_valid, ext_vgt, wf_lo_valid, wf_hi_valid, wf_lo_vgt, wf_hi_vgt, ext_refl, ext_trans.

Lemma product_total fuel : forall t c a b,
  wf t -> pcache_ok t c -> valid t a -> valid t b -> rk a + rk b < fuel ->
  exists out, product_f fuel t c a b = Some out.
Proof.
  induction fuel as [|f IH]; intros t c a b W Cc Va Vb L; [lia|].
  cbn [product_f].
  destruct (ref_eqb a REmpty || ref_eqb b REmpty) eqn:E0; [eauto|].
  apply orb_false_iff in E0. destruct E0 as [Ea Eb].
  destruct (ref_eqb a RBase) eqn:Eab; [eauto|].
  destruct (ref_eqb b RBase) eqn:Ebb; [eauto|].
  apply ref_eqb_neq in Ea, Eb, Eab, Ebb.
  destruct (norm a b) as [a' b'] eqn:Hn.
  assert (Va' : valid t a') by (destruct (norm_cases _ _ _ _ Hn) as [[-> ->]|[-> ->]]; assumption).
  assert (Vb' : valid t b') by (destruct (norm_cases _ _ _ _ Hn) as [[-> ->]|[-> ->]]; assumption).
  assert (L' : rk a' + rk b' < S f) by (destruct (norm_cases _ _ _ _ Hn) as [[-> ->]|[-> ->]]; lia).
  assert (Na : exists i, a' = RNode i).
  { destruct (norm_cases _ _ _ _ Hn) as [[-> ->]|[-> ->]]; [destruct a | destruct b]; try congruence; eauto. }
  assert (Nb : exists j, b' = RNode j).
  { destruct (norm_cases _ _ _ _ Hn) as [[-> ->]|[-> ->]]; [destruct b | destruct a]; try congruence; eauto. }
  destruct Na as [i ->]. destruct Nb as [j ->].
  clear Hn Va Vb Ea Eb Eab Ebb L a b.
  destruct (lookup2 c (RNode i) (RNode j)); [eauto|].
  destruct (valid_nth _ _ Va') as [na Hna]. destruct (valid_nth _ _ Vb') as [nb Hnb].
  cbn [info]. rewrite Hna, Hnb.
  pose proof (rk_lt _ _ (wf_lo_lt _ _ _ W Hna)) as La1. pose proof (rk_lt _ _ (wf_hi_lt _ _ _ W Hna)) as La2.
  pose proof (rk_lt _ _ (wf_lo_lt _ _ _ W Hnb)) as Lb1. pose proof (rk_lt _ _ (wf_hi_lt _ _ _ W Hnb)) as Lb2.
  pose proof (wf_lo_valid _ _ _ W Hna) as Vla. pose proof (wf_hi_valid _ _ _ W Hna) as Vha.
  pose proof (wf_lo_valid _ _ _ W Hnb) as Vlb. pose proof (wf_hi_valid _ _ _ W Hnb) as Vhb.
  cbn [rk] in L'.
  destruct (N.ltb (nvar na) (nvar nb)); [|destruct (N.ltb (nvar nb) (nvar na))].
  - destruct (IH t c (nlo na) (RNode j) W Cc Vla Vb') as [[[t1 c1] nl] H1]; [cbn [rk]; lia|]. rewrite H1.
    destruct (product_ok _ _ _ _ _ _ _ _ W Cc Vla Vb' H1) as [(E1 & W1 & _) C1].
    destruct (IH t1 c1 (nhi na) (RNode j) W1 C1 (ext_valid _ _ _ E1 Vha) (ext_valid _ _ _ E1 Vb')) as [[[t2 c2] nh] H2]; [cbn [rk]; lia|].
    rewrite H2. destruct (goc t2 (nvar na) nl nh). eauto.
  - destruct (IH t c (RNode i) (nlo nb) W Cc Va' Vlb) as [[[t1 c1] nl] H1]; [cbn [rk]; lia|]. rewrite H1.
    destruct (product_ok _ _ _ _ _ _ _ _ W Cc Va' Vlb H1) as [(E1 & W1 & _) C1].
    destruct (IH t1 c1 (RNode i) (nhi nb) W1 C1 (ext_valid _ _ _ E1 Va') (ext_valid _ _ _ E1 Vhb)) as [[[t2 c2] nh] H2]; [cbn [rk]; lia|].
    rewrite H2. destruct (goc t2 (nvar nb) nl nh). eauto.
  - destruct (IH t c (nlo na) (nlo nb) W Cc Vla Vlb) as [[[t1 c1] lolo] H1]; [lia|]. rewrite H1.
    destruct (product_ok _ _ _ _ _ _ _ _ W Cc Vla Vlb H1) as [(E1 & W1 & V1 & _) C1].
    destruct (IH t1 c1 (nhi na) (nlo nb) W1 C1 (ext_valid _ _ _ E1 Vha) (ext_valid _ _ _ E1 Vlb)) as [[[t2 c2] hilo] H2]; [lia|]. rewrite H2.
    destruct (product_ok _ _ _ _ _ _ _ _ W1 C1 (ext_valid _ _ _ E1 Vha) (ext_valid _ _ _ E1 Vlb) H2) as [(E2 & W2 & V2 & _) C2].
    assert (E02 : ext t t2) by zauto.
    destruct (IH t2 c2 (nlo na) (nhi nb) W2 C2 (ext_valid _ _ _ E02 Vla) (ext_valid _ _ _ E02 Vhb)) as [[[t3 c3] lohi] H3]; [lia|]. rewrite H3.
    destruct (product_ok _ _ _ _ _ _ _ _ W2 C2 (ext_valid _ _ _ E02 Vla) (ext_valid _ _ _ E02 Vhb) H3) as [(E3 & W3 & V3 & _) C3].
    assert (E03 : ext t t3) by zauto.
    destruct (IH t3 c3 (nhi na) (nhi nb) W3 C3 (ext_valid _ _ _ E03 Vha) (ext_valid _ _ _ E03 Vhb)) as [[[t4 c4] hihi] H4]; [lia|]. rewrite H4.
    destruct (product_ok _ _ _ _ _ _ _ _ W3 C3 (ext_valid _ _ _ E03 Vha) (ext_valid _ _ _ E03 Vhb) H4) as [(E4 & W4 & V4 & _) C4].
    assert (Vhilo4 : valid t4 hilo) by zauto. assert (Vlohi4 : valid t4 lohi) by zauto.
    destruct (union_fresh_total t4 hilo lohi W4 Vhilo4 Vlohi4) as [[t5 u1] U1]. rewrite U1.
    destruct (union_fresh_ok _ _ _ _ _ W4 Vhilo4 Vlohi4 U1) as (E5 & W5 & V5 & _).
    destruct (union_fresh_total t5 u1 hihi W5 V5 (ext_valid _ _ _ E5 V4)) as [[t6 nh] U2]. rewrite U2.
    destruct (goc t6 (nvar na) lolo nh). eauto.
Qed.

(* Zdd::product: clone + remap + product_rec with a fresh cache *)
Theorem z_product_ok x y : zwf x -> zwf y ->
  exists z, z_product x y = Some z /\ zwf z /\ forall s, zmem z s <-> PROD (zmem x) (zmem y) s.
Proof.
  intros [Wx Vx] [Wy Vy]. unfold z_product, z_binop.
  assert (Ly : rk (zroot y) < S (length (ztable y))) by (apply rk_valid in Vy; lia).
  destruct (remap_total _ _ Wy (ztable x) [] (zroot y) Wx (map_ok_nil _ _) Vy Ly) as [[[t1 m1] yr] H1].
  rewrite H1.
  destruct (remap_ok _ _ Wy _ _ _ _ _ _ Wx (map_ok_nil _ _) Vy H1) as (E1 & W1 & _ & (Vyr & _ & Syr)).
  assert (Vx1 : valid t1 (zroot x)) by zauto.
  destruct (product_total (fuel_of t1) t1 [] (zroot x) yr W1 (pcache_nil t1) Vx1 Vyr (rk_fuel _ _ _ Vx1 Vyr))
    as [[[t2 c2] r] H2].
  rewrite H2.
  destruct (product_ok _ _ _ _ _ _ _ _ W1 (pcache_nil t1) Vx1 Vyr H2) as [(E2 & W2 & V2 & _ & S2) _].
  exists (mkZdd r t2). split; [reflexivity|]. split; [split; assumption|].
  intros s. unfold zmem. cbn. rewrite S2. apply PROD_proper.
  - intros z. apply in_fam_ext_iff; auto.
  - exact Syr.
Qed.
