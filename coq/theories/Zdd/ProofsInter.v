(* inter_f (arena intersection_refs) and sinter_f (ops/intersection.rs intersection_rec) *)
From Coq Require Import Setoid Morphisms.
From VP Require Import Base.Tactics Zdd.Model Zdd.ProofsBase Zdd.ProofsOps Zdd.ProofsUnion.

Local Notation R := (res_ok ISPEC).
Local Notation C := (cache_ok ISPEC).

Lemma ISPEC_sym P Q : ISPEC P Q <-> ISPEC Q P.
Proof. unfold ISPEC. tauto. Qed.

Ltac zauto := eauto using ext_valid, ext_vgt, wf_lo_valid, wf_hi_valid, wf_lo_vgt, wf_hi_vgt, ext_refl, ext_trans.

(* semantic facts shared by the intersection and difference proofs *)
Lemma base_member_lo t i n : nth_error t i = Some n -> (In_fam t (RNode i) [] <-> In_fam t (nlo n) []).
Proof.
  intros H. rewrite (in_fam_node _ _ _ _ H). split; [|auto].
  intros [A|[s' [E _]]]; [exact A | discriminate].
Qed.

Lemma inter_ok fuel : forall t c a b t' c' r,
  wf t -> C t c -> valid t a -> valid t b ->
  inter_f fuel t c a b = Some (t', c', r) ->
  R t a b t' r /\ C t' c'.
Proof.
  induction fuel as [|f IH]; intros t c a b t' c' r W Cc Va Vb H; [discriminate|].
  cbn [inter_f] in H.
  destruct (ref_eqb a REmpty || ref_eqb b REmpty) eqn:Eab0.
  { inversion H; subst. apply const_step; [exact W | exact Cc | exact I | intros; exact I |].
    intros s. unfold ISPEC. split; [intros X; inversion X|].
    apply orb_true_iff in Eab0. destruct Eab0 as [E|E]; apply ref_eqb_eq in E; subst; intros [X Y]; [inversion X | inversion Y]. }
  apply orb_false_iff in Eab0. destruct Eab0 as [Ea Eb].
  destruct (ref_eqb a b) eqn:Eab.
  { apply ref_eqb_eq in Eab. subst b. inversion H; subst.
    apply const_step; auto. intros s. unfold ISPEC. tauto. }
  apply ref_eqb_neq in Ea, Eb, Eab.
  destruct (norm a b) as [a' b'] eqn:Hn.
  assert (Goal' : R t a' b' t' r /\ C t' c' -> R t a b t' r /\ C t' c').
  { destruct (norm_cases _ _ _ _ Hn) as [[-> ->]|[-> ->]]; [auto|].
    intros [X Y]. split; [apply res_ok_sym; [apply ISPEC_sym | exact X] | exact Y]. }
  apply Goal'. clear Goal'.
  assert (Va' : valid t a') by (destruct (norm_cases _ _ _ _ Hn) as [[-> ->]|[-> ->]]; assumption).
  assert (Vb' : valid t b') by (destruct (norm_cases _ _ _ _ Hn) as [[-> ->]|[-> ->]]; assumption).
  assert (Ea' : a' <> REmpty) by (destruct (norm_cases _ _ _ _ Hn) as [[-> ->]|[-> ->]]; assumption).
  assert (Eb' : b' <> REmpty) by (destruct (norm_cases _ _ _ _ Hn) as [[-> ->]|[-> ->]]; assumption).
  assert (Eab' : a' <> b') by (destruct (norm_cases _ _ _ _ Hn) as [[-> ->]|[-> ->]]; congruence).
  clear Hn Va Vb Ea Eb Eab a b.
  destruct (lookup2 c a' b') as [rc|] eqn:Hl.
  { inversion H; subst. destruct (Cc _ _ _ Hl) as (_ & _ & X). split; [exact X | exact Cc]. }
  destruct (info t a') as [[[av alo] ahi]|] eqn:Ia; [|discriminate].
  destruct (info t b') as [[[bv blo] bhi]|] eqn:Ib; [|discriminate].
  match type of H with
  | match ?body with Some _ => _ | None => _ end = _ => destruct body as [[[tr cr] rr]|] eqn:Hb; [|discriminate]
  end.
  inversion H; subst t' c' r. clear H.
  apply (insert_step ISPEC ISPEC_proper); auto.
  destruct a' as [| |i]; [congruence| |]; destruct b' as [| |j]; try congruence.
  - (* Base, Node j *)
    cbn in Ia. inversion Ia; subst av alo ahi. clear Ia.
    apply info_node in Ib. destruct Ib as (nb & Hnb & Eq). inversion Eq; subst bv blo bhi. clear Eq.
    cbn [ref_eqb] in Hb.
    destruct (IH _ _ _ _ _ _ _ W Cc Va' (wf_lo_valid _ _ _ W Hnb) Hb) as [X C1].
    refine (pass_step ISPEC t tr RBase (RNode j) RBase (nlo nb) rr cr X C1 _ _).
    + intros u _ Gu. split; [exact I|]. apply (vgt_node _ _ _ _ Hnb) in Gu.
      eapply vgt_trans; [|eapply wf_lo_vgt; eauto]. lia.
    + intros s. unfold ISPEC. rewrite in_fam_base. split.
      * intros [-> A]. split; [reflexivity|]. apply (base_member_lo _ _ _ Hnb). exact A.
      * intros [-> A]. split; [reflexivity|]. apply (base_member_lo _ _ _ Hnb). exact A.
  - (* Node i, Base *)
    cbn in Ib. inversion Ib; subst bv blo bhi. clear Ib.
    apply info_node in Ia. destruct Ia as (na & Hna & Eq). inversion Eq; subst av alo ahi. clear Eq.
    cbn [ref_eqb] in Hb.
    destruct (IH _ _ _ _ _ _ _ W Cc (wf_lo_valid _ _ _ W Hna) Vb' Hb) as [X C1].
    refine (pass_step ISPEC t tr (RNode i) RBase (nlo na) RBase rr cr X C1 _ _).
    + intros u Gu _. split; [|exact I]. apply (vgt_node _ _ _ _ Hna) in Gu.
      eapply vgt_trans; [|eapply wf_lo_vgt; eauto]. lia.
    + intros s. unfold ISPEC. rewrite in_fam_base. split.
      * intros [A ->]. split; [|reflexivity]. apply (base_member_lo _ _ _ Hna). exact A.
      * intros [A ->]. split; [|reflexivity]. apply (base_member_lo _ _ _ Hna). exact A.
  - (* Node i, Node j *)
    apply info_node in Ia. destruct Ia as (na & Hna & Eq). inversion Eq; subst av alo ahi. clear Eq.
    apply info_node in Ib. destruct Ib as (nb & Hnb & Eq). inversion Eq; subst bv blo bhi. clear Eq.
    destruct (N.ltb (nvar na) (nvar nb)) eqn:L1; [|destruct (N.ltb (nvar nb) (nvar na)) eqn:L2].
    + (* av < bv : sets of a containing av cannot be in b *)
      destruct (IH _ _ _ _ _ _ _ W Cc (wf_lo_valid _ _ _ W Hna) Vb' Hb) as [X C1].
      assert (Gb : vgt t (nvar na) (RNode j)) by (apply (vgt_node _ _ _ _ Hnb); lia).
      refine (pass_step ISPEC t tr (RNode i) (RNode j) (nlo na) (RNode j) rr cr X C1 _ _).
      * intros u Gu Gu'. split; [|exact Gu']. apply (vgt_node _ _ _ _ Hna) in Gu.
        eapply vgt_trans; [|eapply wf_lo_vgt; eauto]. lia.
      * intros s. unfold ISPEC. rewrite (in_fam_node _ _ _ s Hna). split; [tauto|].
        intros [[A|[s' [-> A]]] B]; [tauto|]. exfalso. eapply not_head_member; eauto.
    + (* bv < av *)
      destruct (IH _ _ _ _ _ _ _ W Cc Va' (wf_lo_valid _ _ _ W Hnb) Hb) as [X C1].
      assert (Ga : vgt t (nvar nb) (RNode i)) by (apply (vgt_node _ _ _ _ Hna); lia).
      refine (pass_step ISPEC t tr (RNode i) (RNode j) (RNode i) (nlo nb) rr cr X C1 _ _).
      * intros u Gu Gu'. split; [exact Gu|]. apply (vgt_node _ _ _ _ Hnb) in Gu'.
        eapply vgt_trans; [|eapply wf_lo_vgt; eauto]. lia.
      * intros s. unfold ISPEC. rewrite (in_fam_node _ _ _ s Hnb). split; [tauto|].
        intros [B [A|[s' [-> A]]]]; [tauto|]. exfalso. eapply not_head_member; eauto.
    + (* av = bv *)
      assert (Ev : nvar na = nvar nb) by lia.
      destruct (inter_f f t c (nlo na) (nlo nb)) as [[[t1 c1] nl]|] eqn:H1; [|discriminate].
      destruct (inter_f f t1 c1 (nhi na) (nhi nb)) as [[[t2 c2] nh]|] eqn:H2; [|discriminate].
      destruct (goc t2 (nvar na) nl nh) as [t3 r3] eqn:Hg. inversion Hb; subst tr cr rr. clear Hb.
      destruct (IH _ _ _ _ _ _ _ W Cc (wf_lo_valid _ _ _ W Hna) (wf_lo_valid _ _ _ W Hnb) H1)
        as [(E1 & W1 & V1 & G1 & S1) C1].
      assert (Vha : valid t1 (nhi na)) by zauto.
      assert (Vhb : valid t1 (nhi nb)) by zauto.
      destruct (IH _ _ _ _ _ _ _ W1 C1 Vha Vhb H2) as [(E2 & W2 & V2 & G2 & S2) C2].
      assert (Gl1 : vgt t1 (nvar na) nl).
      { apply G1; [zauto|]. rewrite Ev. zauto. }
      assert (Gl : vgt t2 (nvar na) nl) by zauto.
      assert (Gh : vgt t2 (nvar na) nh).
      { apply G2; [zauto|]. rewrite Ev. zauto. }
      assert (Vl : valid t2 nl) by zauto.
      assert (E02 : ext t t2) by zauto.
      refine (node_step ISPEC ISPEC_proper t t2 t3 (RNode i) (RNode j) (nvar na) nl nh r3 c2 W E02 W2 C2 Vl V2 Gl Gh Hg _ _).
      * intros u Gu Gu'. apply (vgt_node _ _ _ _ Hna) in Gu. split; [exact Gu|].
        eapply ext_vgt; [exact E2|]. apply G1.
        -- eapply vgt_trans; [|eapply wf_lo_vgt; eauto]. lia.
        -- apply (vgt_node _ _ _ _ Hnb) in Gu'. eapply vgt_trans; [|eapply wf_lo_vgt; eauto]. lia.
      * intros s. rewrite (back t1 t2 nl W1 E2 V1). rewrite S1.
        setoid_rewrite S2.
        setoid_rewrite (back t t1 (nhi na) W E1 (wf_hi_valid _ _ _ W Hna)).
        setoid_rewrite (back t t1 (nhi nb) W E1 (wf_hi_valid _ _ _ W Hnb)).
        rewrite (in_fam_node _ _ _ s Hna), (in_fam_node _ _ _ s Hnb). rewrite <- Ev.
        unfold ISPEC. split.
        -- intros [[A B]|[s' [-> [A B]]]]; eauto 8.
        -- intros [[A|[s' [-> A]]] [B|[s'' [E B]]]].
           ++ auto.
           ++ subst s. exfalso. eapply (not_head_member t (nvar na) (nlo na)); zauto.
           ++ exfalso. eapply (not_head_member t (nvar na) (nlo nb)); [exact W | rewrite Ev; zauto | exact B].
           ++ inversion E; subst s''. right. eauto.
Qed.
