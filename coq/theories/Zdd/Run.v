(* Interpreter for op sequences over the two APIs + rendering of observables,
   used by the correspondence check (cases evaluated by vm_compute). *)
From Coq Require Import String.
From VP Require Import Base.Tactics Base.Render Zdd.Model.
Open Scope string_scope.

Inductive op :=
| OBase | OEmpty | OSingle (v : N) | OFromSet (l : list N)
| OPwo (h : nat) (v : N) | OUnion (a b : nat) | OInter (a b : nat) | ODiff (a b : nat)
| OProduct (a b : nat) | OCount (h : nat) | OGc (keep : list nat).

Definition str_of_ref (r : ref) : string :=
  match r with REmpty => "E" | RBase => "B" | RNode i => "N" ++ str_of_nat i end.
Definition str_of_set (s : list N) : string :=
  match s with [] => "e" | _ => join "." (map str_of_N s) end.
Definition str_of_fam (l : list (list N)) : string := join "/" (map str_of_set l).

Fixpoint nths {A} (l : list A) (ixs : list nat) : option (list A) :=
  match ixs with
  | [] => Some []
  | i :: r => do x <- nth_error l i; do xs <- nths l r; Some (x :: xs)
  end.

Definition subsets5 : list (list N) :=
  map (fun m => filter (fun i => N.testbit m i) [0;1;2;3;4]%N) (map N.of_nat (seq 0 32)).

(* ---- arena ---- *)
Definition astep (st : arena * list ref) (o : op) : option (arena * list ref * string) :=
  let '(ar, hs) := st in
  let push (ar : arena) (r : ref) : option (arena * list ref * string) :=
    Some (ar, (hs ++ [r])%list, str_of_ref r ++ "," ++ str_of_nat (length (atable ar)) ++ ",") in
  match o with
  | OBase => push ar RBase
  | OEmpty => push ar REmpty
  | OSingle v => let '(ar', r) := a_single ar v in push ar' r
  | OFromSet l => let '(ar', r) := a_from_set ar l in push ar' r
  | OPwo h v => do x <- nth_error hs h; do '(ar', r) <- a_pwo ar x v; push ar' r
  | OUnion a b => do x <- nth_error hs a; do y <- nth_error hs b; do '(ar', r) <- a_union ar x y; push ar' r
  | OInter a b => do x <- nth_error hs a; do y <- nth_error hs b; do '(ar', r) <- a_inter ar x y; push ar' r
  | ODiff a b => do x <- nth_error hs a; do y <- nth_error hs b; do '(ar', r) <- a_diff ar x y; push ar' r
  | OProduct _ _ => None
  | OCount h => do x <- nth_error hs h; do c <- count_f (S (length (atable ar))) (atable ar) x;
                Some (ar, hs, "-," ++ str_of_nat (length (atable ar)) ++ "," ++ str_of_N c)
  | OGc keep => do live <- nths hs keep; do '(ar', rs) <- a_gc ar live;
                Some (ar', rs, "-," ++ str_of_nat (length (atable ar')) ++ "," ++ join "/" (map str_of_ref rs))
  end.

Fixpoint aruns (st : arena * list ref) (ops : list op) (acc : list string) : option (arena * list ref * list string) :=
  match ops with
  | [] => Some (st, rev acc)
  | o :: r => do '(ar, hs, s) <- astep st o; aruns (ar, hs) r (s :: acc)
  end.

Definition final_str (t : table) (r : ref) : option string :=
  do it <- iter_f (S (length t)) t r;
  do c <- count_f (S (length t)) t r;
  do mem <- (fix go (l : list (list N)) : option string :=
               match l with
               | [] => Some ""
               | s :: rest => do b <- contains_f (S (length t)) t r (norm_set s); do m <- go rest; Some (str_of_bool b ++ m)
               end) subsets5;
  Some (str_of_ref r ++ "," ++ str_of_fam it ++ "," ++ str_of_N c ++ "," ++ mem).

Fixpoint all_some {A} (l : list (option A)) : option (list A) :=
  match l with [] => Some [] | x :: r => do a <- x; do b <- all_some r; Some (a :: b) end.

Definition str_of_node (n : node) : string :=
  str_of_N (nvar n) ++ "," ++ str_of_ref (nlo n) ++ "," ++ str_of_ref (nhi n).

Definition arena_case (ops : list op) : string :=
  match aruns (arena0, []) ops [] with
  | None => "PANIC"
  | Some (ar, hs, steps) =>
    match all_some (map (final_str (atable ar)) hs) with
    | None => "PANIC"
    | Some fins => "S:" ++ join ";" steps ++ "|F:" ++ join ";" fins ++ "|N:" ++ join ";" (map str_of_node (atable ar))
    end
  end.

(* ---- standalone ---- *)
Definition zstep (zs : list zdd) (o : op) : option (list zdd * string) :=
  let push (z : zdd) : option (list zdd * string) :=
    Some ((zs ++ [z])%list, str_of_ref (zroot z) ++ "," ++ str_of_nat (length (ztable z)) ++ ",") in
  match o with
  | OBase => push (mkZdd RBase [])
  | OEmpty => push (mkZdd REmpty [])
  | OSingle v => push (z_single v)
  | OFromSet l => push (z_from_set l)
  | OPwo h v => do x <- nth_error zs h; do z <- z_pwo x v; push z
  | OUnion a b => do x <- nth_error zs a; do y <- nth_error zs b; do z <- z_union x y; push z
  | OInter a b => do x <- nth_error zs a; do y <- nth_error zs b; do z <- z_inter x y; push z
  | ODiff a b => do x <- nth_error zs a; do y <- nth_error zs b; do z <- z_diff x y; push z
  | OProduct a b => do x <- nth_error zs a; do y <- nth_error zs b; do z <- z_product x y; push z
  | OCount _ | OGc _ => None
  end.

Fixpoint zruns (zs : list zdd) (ops : list op) (acc : list string) : option (list zdd * list string) :=
  match ops with
  | [] => Some (zs, rev acc)
  | o :: r => do '(zs', s) <- zstep zs o; zruns zs' r (s :: acc)
  end.

Definition zdd_case (ops : list op) : string :=
  match zruns [] ops [] with
  | None => "PANIC"
  | Some (zs, steps) =>
    match all_some (map (fun z => final_str (ztable z) (zroot z)) zs) with
    | None => "PANIC"
    | Some fins => "S:" ++ join ";" steps ++ "|F:" ++ join ";" fins ++ "|N:"
    end
  end.
