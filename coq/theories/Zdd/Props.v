(* Property theorems for C06 (set-family algebra) and C07 (canonicity, gc,
   iteration) of crates/varpulis-zdd.  Nothing but statements closed by [exact].
   The statements are pinned again in coq/audit/C06.v and coq/audit/C07.v.

   Vocabulary:  In_fam t r s   "the strictly ascending list s is a member of the
   family denoted by ref r in table t";  spec_run / spec_step: the same operation
   sequence on explicit families (predicates on lists);  aruns: the interpreter
   that the correspondence check evaluates against the real ZddArena. *)
From Coq Require Import String.
From VP Require Import Base.Tactics Zdd.Model Zdd.Run Zdd.ProofsBase Zdd.ProofsOps Zdd.ProofsPwo Zdd.ProofsPwoTotal
  Zdd.ProofsQuery Zdd.ProofsArena Zdd.ProofsSeq Zdd.ProofsStandalone Zdd.ProofsProduct Zdd.ProofsProductTotal.
Close Scope string_scope.
Open Scope list_scope.

(* ------------------------------------------------------------------ C06 *)

(* Every operation sequence on the shared arena (constructors, union, intersection,
   difference, extend-with-optional, count, gc), of any length over any variables:
   whenever the explicit-set semantics is defined (handle indices in range) the
   arena run returns (no panic, fuel suffices) and every handle denotes exactly
   the explicit family; and the arena run is defined only then. *)
Theorem C06_arena_sequences : forall ops fs',
  spec_run [] ops = Some fs' ->
  exists ar hs out, aruns (arena0, []) ops [] = Some (ar, hs, out) /\ AInv ar /\ Rel ar hs fs'.
Proof. intros ops fs' H. exact (aruns_refines ops arena0 [] [] fs' [] AInv0 (Forall2_nil _) H). Qed.

Theorem C06_arena_sequences_conv : forall ops ar hs out,
  aruns (arena0, []) ops [] = Some (ar, hs, out) ->
  AInv ar /\ exists fs', spec_run [] ops = Some fs' /\ Rel ar hs fs'.
Proof. intros ops ar hs out H. exact (aruns_reachable ops arena0 [] [] [] ar hs out AInv0 (Forall2_nil _) H). Qed.

(* count = cardinality of the explicit family *)
Theorem C06_count : forall ar h F, AInv ar -> denotes ar h F ->
  exists c l, count_f (S (length (atable ar))) (atable ar) h = Some c /\ c = N.of_nat (length l) /\
    NoDup l /\ forall s, In s l <-> F s.
Proof. exact count_refines. Qed.

(* membership query (on the sorted, deduplicated element list, as the public contains does) *)
Theorem C06_contains : forall t r elems, wf t -> valid t r ->
  exists b, contains_f (S (length t)) t r (norm_set elems) = Some b /\
            (b = true <-> In_fam t r (norm_set elems)).
Proof.
  intros t r elems W V.
  assert (L : rk r < S (length t)) by (apply rk_valid in V; lia).
  destruct (contains_total _ t r (norm_set elems) W V L) as [b H].
  exists b. split; [exact H | exact (contains_ok _ _ _ _ _ W V H)].
Qed.

(* iteration lists exactly the members *)
Theorem C06_iter : forall t r, wf t -> valid t r ->
  exists l, iter_f (S (length t)) t r = Some l /\ forall s, In s l <-> In_fam t r s.
Proof.
  intros t r W V. assert (L : rk r < S (length t)) by (apply rk_valid in V; lia).
  destruct (iter_total _ t r W V L) as [l H]. exists l. split; [exact H | exact (proj1 (iter_ok _ _ _ _ W V H))].
Qed.

(* the standalone API *)
Theorem C06_standalone_union : forall x y, zwf x -> zwf y ->
  exists z, z_union x y = Some z /\ zwf z /\ forall s, zmem z s <-> zmem x s \/ zmem y s.
Proof. exact z_union_ok. Qed.
Theorem C06_standalone_intersection : forall x y, zwf x -> zwf y ->
  exists z, z_inter x y = Some z /\ zwf z /\ forall s, zmem z s <-> zmem x s /\ zmem y s.
Proof. exact z_inter_ok. Qed.
Theorem C06_standalone_difference : forall x y, zwf x -> zwf y ->
  exists z, z_diff x y = Some z /\ zwf z /\ forall s, zmem z s <-> zmem x s /\ ~ zmem y s.
Proof. exact z_diff_ok. Qed.
Theorem C06_standalone_extend_optional : forall x v, zwf x ->
  exists z, z_pwo x v = Some z /\ zwf z /\ forall s, zmem z s <-> PW v (zmem x) s.
Proof. exact z_pwo_ok. Qed.
Theorem C06_standalone_from_set : forall l, zwf (z_from_set l) /\ forall s, zmem (z_from_set l) s <-> s = norm_set l.
Proof. exact z_from_set_ok. Qed.
Theorem C06_standalone_singleton : forall v, zwf (z_single v) /\ forall s, zmem (z_single v) s <-> s = [v].
Proof. exact z_single_ok. Qed.
(* Zdd::product: { x ∪ y | x ∈ X, y ∈ Y }, with x ∪ y the merge of two ascending lists *)
Theorem C06_standalone_product : forall x y, zwf x -> zwf y ->
  exists z, z_product x y = Some z /\ zwf z /\ forall s, zmem z s <-> PROD (zmem x) (zmem y) s.
Proof. exact z_product_ok. Qed.

(* non-vacuity: a concrete sequence whose explicit semantics is defined and which
   exercises difference with a smaller left top variable, pwo, gc *)
Example C06_sequence_defined :
  exists fs', spec_run [] [OFromSet [1;2]%N; OFromSet [2]%N; ODiff 0 1; OPwo 2 0%N; OUnion 3 1; OGc [4;0]] = Some fs'.
Proof. eexists. reflexivity. Qed.

(* ------------------------------------------------------------------ C07 *)

(* Two refs of one well-formed table that denote the same family are the same ref. *)
Theorem C07_canonical : forall t r1 r2, wf t -> valid t r1 -> valid t r2 ->
  (forall s, In_fam t r1 s <-> In_fam t r2 s) -> r1 = r2.
Proof. intros t r1 r2 W V1 V2 E. exact (canonical t W (rk r1 + rk r2) r1 r2 (le_n _) V1 V2 E). Qed.

(* What well-formedness says about every stored node: reduced (include-branch not
   empty), children older, variables strictly increasing along both branches, and
   no triple stored twice. *)
Theorem C07_wf_meaning : forall t, wf t ->
  (forall i n, nth_error t i = Some n ->
     nhi n <> REmpty /\ rlt (nlo n) i /\ rlt (nhi n) i /\ vgt t (nvar n) (nlo n) /\ vgt t (nvar n) (nhi n))
  /\ NoDup t.
Proof. intros t W. split; [exact (wf_nodes t W) | exact (wf_nodup t W)]. Qed.

(* Every arena reachable by any operation sequence is well-formed, and handles
   denoting the same explicit family are equal. *)
Theorem C07_reachable_canonical : forall ops ar hs out,
  aruns (arena0, []) ops [] = Some (ar, hs, out) ->
  wf (atable ar) /\
  forall i j hi hj, nth_error hs i = Some hi -> nth_error hs j = Some hj ->
    (forall s, In_fam (atable ar) hi s <-> In_fam (atable ar) hj s) -> hi = hj.
Proof.
  intros ops ar hs out H.
  destruct (aruns_reachable ops arena0 [] [] [] ar hs out AInv0 (Forall2_nil _) H) as [A [fs' [_ R]]].
  split; [exact (ai_wf _ A)|].
  intros i j hi hj Hi Hj E.
  pose proof (Rel_valid _ _ _ R) as V. rewrite Forall_forall in V.
  apply (canonical _ (ai_wf _ A) (rk hi + rk hj) hi hj (le_n _)); [| |exact E].
  - apply V. eapply nth_error_In; eauto.
  - apply V. eapply nth_error_In; eauto.
Qed.

(* Garbage collection: succeeds on valid live handles, yields a well-formed arena
   with empty caches, and the returned handles denote exactly what the live ones did. *)
Theorem C07_gc : forall ar live, AInv ar -> Forall (valid (atable ar)) live ->
  exists ar' rs, a_gc ar live = Some (ar', rs) /\ AInv ar' /\
    Forall2 (fun r r' => valid (atable ar') r' /\ forall s, In_fam (atable ar') r' s <-> In_fam (atable ar) r s) live rs.
Proof. exact a_gc_ok. Qed.

(* Iteration yields each member once, each in strictly ascending order. *)
Theorem C07_iter_once_ascending : forall t r l, wf t -> valid t r -> iter_f (S (length t)) t r = Some l ->
  NoDup l /\ Forall (StronglySorted N.lt) l /\ forall s, In s l <-> In_fam t r s.
Proof.
  intros t r l W V H. destruct (iter_ok _ _ _ _ W V H) as [S N].
  split; [exact N|]. split; [|exact S].
  apply Forall_forall. intros s I. apply S in I. eapply members_sorted; eauto.
Qed.
