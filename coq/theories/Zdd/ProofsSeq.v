(* Any sequence of arena operations (the interpreter of Run.v, which is what the
   correspondence check evaluates) refines the same sequence on explicit
   families of sets, given as predicates on strictly ascending lists. *)
From Coq Require Import String Setoid Morphisms.
From VP Require Import Base.Tactics Base.Render Zdd.Model Zdd.Run Zdd.ProofsBase Zdd.ProofsOps Zdd.ProofsUnion
  Zdd.ProofsPwo Zdd.ProofsPwoTotal Zdd.ProofsRemap Zdd.ProofsQuery Zdd.ProofsArena.

Close Scope string_scope.
Open Scope list_scope.

Definition fam := list N -> Prop.

(* explicit set-of-sets semantics of each operation *)
Definition spec_step (fs : list fam) (o : op) : option (list fam) :=
  match o with
  | OBase => Some (fs ++ [fun s => s = []])
  | OEmpty => Some (fs ++ [fun _ => False])
  | OSingle v => Some (fs ++ [fun s => s = [v]])
  | OFromSet l => Some (fs ++ [fun s => s = norm_set l])
  | OPwo h v => do F <- nth_error fs h; Some (fs ++ [PW v F])
  | OUnion a b => do A <- nth_error fs a; do B <- nth_error fs b; Some (fs ++ [fun s => A s \/ B s])
  | OInter a b => do A <- nth_error fs a; do B <- nth_error fs b; Some (fs ++ [fun s => A s /\ B s])
  | ODiff a b => do A <- nth_error fs a; do B <- nth_error fs b; Some (fs ++ [fun s => A s /\ ~ B s])
  | OProduct _ _ => None
  | OCount h => do _ <- nth_error fs h; Some fs
  | OGc keep => nths fs keep
  end.

Fixpoint spec_run (fs : list fam) (ops : list op) : option (list fam) :=
  match ops with
  | [] => Some fs
  | o :: r => do fs' <- spec_step fs o; spec_run fs' r
  end.

(* handle h of arena ar denotes family F *)
Definition denotes (ar : arena) (h : ref) (F : fam) : Prop :=
  valid (atable ar) h /\ forall s, In_fam (atable ar) h s <-> F s.
Definition Rel (ar : arena) (hs : list ref) (fs : list fam) : Prop := Forall2 (denotes ar) hs fs.

Lemma denotes_ext ar ar' h F :
  wf (atable ar) -> ext (atable ar) (atable ar') -> denotes ar h F -> denotes ar' h F.
Proof.
  intros W E [V S]. split; [eapply ext_valid; eauto|].
  intros s. rewrite (in_fam_ext_iff _ _ h s W E V). apply S.
Qed.
Lemma Rel_ext ar ar' hs fs :
  wf (atable ar) -> ext (atable ar) (atable ar') -> Rel ar hs fs -> Rel ar' hs fs.
Proof. intros W E R. eapply Forall2_weaken; [|exact R]. intros h F. apply denotes_ext; assumption. Qed.

Lemma Rel_snoc ar hs fs h F : Rel ar hs fs -> denotes ar h F -> Rel ar (hs ++ [h]) (fs ++ [F]).
Proof. intros R D. apply Forall2_app; [exact R | constructor; [exact D | constructor]]. Qed.

Lemma Rel_nth ar hs fs k F : Rel ar hs fs -> nth_error fs k = Some F ->
  exists h, nth_error hs k = Some h /\ denotes ar h F.
Proof.
  intros R. revert k. induction R as [|h0 F0 hs fs D R IH]; intros k H; destruct k; cbn in *; try discriminate.
  - inversion H; subst. eauto.
  - apply IH. exact H.
Qed.

Lemma Rel_valid ar hs fs : Rel ar hs fs -> Forall (valid (atable ar)) hs.
Proof. intros R. induction R as [|h F hs fs [V _] R IH]; constructor; assumption. Qed.

Lemma Rel_nths ar hs fs ks fs' : Rel ar hs fs -> nths fs ks = Some fs' ->
  exists hs', nths hs ks = Some hs' /\ Rel ar hs' fs'.
Proof.
  intros R. revert fs'. induction ks as [|k ks IH]; intros fs' H; cbn in *.
  - inversion H; subst. exists []. split; [reflexivity | constructor].
  - destruct (nth_error fs k) as [F|] eqn:HF; [|discriminate].
    destruct (nths fs ks) as [fr|] eqn:Hr; [|discriminate]. inversion H; subst fs'.
    destruct (Rel_nth _ _ _ _ _ R HF) as [h [Hh D]]. rewrite Hh.
    destruct (IH _ eq_refl) as [hr [Hhr Rr]]. rewrite Hhr.
    exists (h :: hr). split; [reflexivity | constructor; assumption].
Qed.

(* one step: if the explicit-set semantics is defined, the arena step succeeds
   (no panic, enough fuel), keeps the arena invariant and every handle keeps
   denoting the corresponding explicit family *)
Theorem astep_refines ar hs fs o fs' :
  AInv ar -> Rel ar hs fs -> spec_step fs o = Some fs' ->
  exists ar' hs' out, astep (ar, hs) o = Some (ar', hs', out) /\ AInv ar' /\ Rel ar' hs' fs'.
Proof.
  intros A R H. pose proof (ai_wf _ A) as W.
  destruct o as [| |v|l|h v|a b|a b|a b|a b|h|keep]; cbn [spec_step] in H; cbn [astep].
  - inversion H; subst. do 3 eexists. split; [reflexivity|]. split; [exact A|].
    apply Rel_snoc; [exact R|]. split; [exact I|]. intros s. apply in_fam_base.
  - inversion H; subst. do 3 eexists. split; [reflexivity|]. split; [exact A|].
    apply Rel_snoc; [exact R|]. split; [exact I|]. intros s. split; [intros X; inversion X | tauto].
  - inversion H; subst. pose proof (a_single_ok ar v A) as X.
    destruct (a_single ar v) as [ar' r]. destruct X as (A' & E & V & S).
    do 3 eexists. split; [reflexivity|]. split; [exact A'|].
    apply Rel_snoc; [eapply Rel_ext; eauto | split; assumption].
  - inversion H; subst. pose proof (a_from_set_ok ar l A) as X.
    destruct (a_from_set ar l) as [ar' r]. destruct X as (A' & E & V & S).
    do 3 eexists. split; [reflexivity|]. split; [exact A'|].
    apply Rel_snoc; [eapply Rel_ext; eauto | split; assumption].
  - destruct (nth_error fs h) as [F|] eqn:HF; [|discriminate]. inversion H; subst.
    destruct (Rel_nth _ _ _ _ _ R HF) as [x [Hx [Vx Sx]]]. rewrite Hx.
    destruct (a_pwo_ok ar x v A Vx) as (ar' & r & Hp & A' & E & V & S). rewrite Hp.
    do 3 eexists. split; [reflexivity|]. split; [exact A'|].
    apply Rel_snoc; [eapply Rel_ext; eauto|]. split; [exact V|].
    intros s. rewrite S. apply PW_proper. exact Sx.
  - destruct (nth_error fs a) as [FA|] eqn:HA; [|discriminate].
    destruct (nth_error fs b) as [FB|] eqn:HB; [|discriminate]. inversion H; subst.
    destruct (Rel_nth _ _ _ _ _ R HA) as [x [Hx [Vx Sx]]]. destruct (Rel_nth _ _ _ _ _ R HB) as [y [Hy [Vy Sy]]].
    rewrite Hx, Hy.
    destruct (a_union_ok ar x y A Vx Vy) as (ar' & r & Hp & A' & E & V & S). rewrite Hp.
    do 3 eexists. split; [reflexivity|]. split; [exact A'|].
    apply Rel_snoc; [eapply Rel_ext; eauto|]. split; [exact V|].
    intros s. rewrite S, Sx, Sy. tauto.
  - destruct (nth_error fs a) as [FA|] eqn:HA; [|discriminate].
    destruct (nth_error fs b) as [FB|] eqn:HB; [|discriminate]. inversion H; subst.
    destruct (Rel_nth _ _ _ _ _ R HA) as [x [Hx [Vx Sx]]]. destruct (Rel_nth _ _ _ _ _ R HB) as [y [Hy [Vy Sy]]].
    rewrite Hx, Hy.
    destruct (a_inter_ok ar x y A Vx Vy) as (ar' & r & Hp & A' & E & V & S). rewrite Hp.
    do 3 eexists. split; [reflexivity|]. split; [exact A'|].
    apply Rel_snoc; [eapply Rel_ext; eauto|]. split; [exact V|].
    intros s. rewrite S, Sx, Sy. tauto.
  - destruct (nth_error fs a) as [FA|] eqn:HA; [|discriminate].
    destruct (nth_error fs b) as [FB|] eqn:HB; [|discriminate]. inversion H; subst.
    destruct (Rel_nth _ _ _ _ _ R HA) as [x [Hx [Vx Sx]]]. destruct (Rel_nth _ _ _ _ _ R HB) as [y [Hy [Vy Sy]]].
    rewrite Hx, Hy.
    destruct (a_diff_ok ar x y A Vx Vy) as (ar' & r & Hp & A' & E & V & S). rewrite Hp.
    do 3 eexists. split; [reflexivity|]. split; [exact A'|].
    apply Rel_snoc; [eapply Rel_ext; eauto|]. split; [exact V|].
    intros s. rewrite S, Sx, Sy. tauto.
  - discriminate.
  - destruct (nth_error fs h) as [F|] eqn:HF; [|discriminate]. inversion H; subst.
    destruct (Rel_nth _ _ _ _ _ R HF) as [x [Hx [Vx Sx]]]. rewrite Hx.
    destruct (a_count_ok _ _ W Vx) as (c & l & Hc & _). rewrite Hc.
    do 3 eexists. split; [reflexivity|]. split; [exact A | exact R].
  - destruct (Rel_nths _ _ _ _ _ R H) as [live [Hl Rl]]. rewrite Hl.
    assert (Vl : Forall (valid (atable ar)) live) by (eapply Rel_valid; eauto).
    destruct (a_gc_ok ar live A Vl) as (ar' & rs & Hg & A' & F2). rewrite Hg.
    do 3 eexists. split; [reflexivity|]. split; [exact A'|].
    clear Hl Hg Vl H. revert fs' Rl. induction F2 as [|h h' live' rs' [V' S'] F2 IH]; intros fs' Rl.
    + inversion Rl; subst. constructor.
    + inversion Rl as [|? F ? fr [Vh Sh] Rl']; subst. constructor.
      * split; [exact V'|]. intros s. rewrite S'. apply Sh.
      * apply (IH fr Rl').
Qed.

(* count agrees with the explicit family's cardinality *)
Theorem count_refines ar h F :
  AInv ar -> denotes ar h F ->
  exists c l, count_f (S (length (atable ar))) (atable ar) h = Some c /\ c = N.of_nat (length l) /\
    NoDup l /\ forall s, In s l <-> F s.
Proof.
  intros A [V S]. destruct (a_count_ok _ _ (ai_wf _ A) V) as (c & l & Hc & Ec & Nd & Sl).
  exists c, l. repeat split; auto; intros X; [apply S, Sl | apply Sl, S]; exact X.
Qed.

(* conversely, the arena step is defined only where the explicit semantics is *)
Lemma Rel_nth_rev ar hs fs k h : Rel ar hs fs -> nth_error hs k = Some h -> exists F, nth_error fs k = Some F.
Proof.
  intros R. revert k. induction R as [|h0 F0 hs fs D R IH]; intros k H; destruct k; cbn in *; try discriminate; eauto.
Qed.
Lemma Rel_nths_rev ar hs fs ks hs' : Rel ar hs fs -> nths hs ks = Some hs' -> exists fs', nths fs ks = Some fs'.
Proof.
  intros R. revert hs'. induction ks as [|k ks IH]; intros hs' H; cbn in *; [eauto|].
  destruct (nth_error hs k) as [h|] eqn:Hh; [|discriminate].
  destruct (nths hs ks) as [hr|] eqn:Hr; [|discriminate].
  destruct (Rel_nth_rev _ _ _ _ _ R Hh) as [F HF]. rewrite HF.
  destruct (IH _ eq_refl) as [fr Hfr]. rewrite Hfr. eauto.
Qed.

Lemma astep_defined ar hs fs o out :
  Rel ar hs fs -> astep (ar, hs) o = Some out -> exists fs', spec_step fs o = Some fs'.
Proof.
  intros R H.
  destruct o as [| |v|l|h v|a b|a b|a b|a b|h|keep]; cbn [spec_step]; cbn [astep] in H; eauto.
  - destruct (nth_error hs h) as [x|] eqn:Hx; [|discriminate].
    destruct (Rel_nth_rev _ _ _ _ _ R Hx) as [F HF]. rewrite HF. eauto.
  - destruct (nth_error hs a) as [x|] eqn:Hx; [|discriminate].
    destruct (nth_error hs b) as [y|] eqn:Hy; [|discriminate].
    destruct (Rel_nth_rev _ _ _ _ _ R Hx) as [F HF]. destruct (Rel_nth_rev _ _ _ _ _ R Hy) as [G HG].
    rewrite HF, HG. eauto.
  - destruct (nth_error hs a) as [x|] eqn:Hx; [|discriminate].
    destruct (nth_error hs b) as [y|] eqn:Hy; [|discriminate].
    destruct (Rel_nth_rev _ _ _ _ _ R Hx) as [F HF]. destruct (Rel_nth_rev _ _ _ _ _ R Hy) as [G HG].
    rewrite HF, HG. eauto.
  - destruct (nth_error hs a) as [x|] eqn:Hx; [|discriminate].
    destruct (nth_error hs b) as [y|] eqn:Hy; [|discriminate].
    destruct (Rel_nth_rev _ _ _ _ _ R Hx) as [F HF]. destruct (Rel_nth_rev _ _ _ _ _ R Hy) as [G HG].
    rewrite HF, HG. eauto.
  - discriminate.
  - destruct (nth_error hs h) as [x|] eqn:Hx; [|discriminate].
    destruct (Rel_nth_rev _ _ _ _ _ R Hx) as [F HF]. rewrite HF. eauto.
  - destruct (nths hs keep) as [live|] eqn:Hl; [|discriminate].
    destruct (Rel_nths_rev _ _ _ _ _ R Hl) as [fs' Hf]. eauto.
Qed.

(* every state the interpreter reaches satisfies the invariant and denotes the explicit families *)
Theorem aruns_reachable : forall ops ar hs fs acc ar' hs' out,
  AInv ar -> Rel ar hs fs -> aruns (ar, hs) ops acc = Some (ar', hs', out) ->
  AInv ar' /\ exists fs', spec_run fs ops = Some fs' /\ Rel ar' hs' fs'.
Proof.
  induction ops as [|o ops IH]; intros ar hs fs acc ar' hs' out A R H; cbn [spec_run aruns] in *.
  - inversion H; subst. split; [exact A|]. eauto.
  - destruct (astep (ar, hs) o) as [[[ar1 hs1] s1]|] eqn:H1; [|discriminate].
    destruct (astep_defined _ _ _ _ _ R H1) as [fs1 Hs]. rewrite Hs.
    destruct (astep_refines _ _ _ _ _ A R Hs) as (ar2 & hs2 & out2 & H2 & A2 & R2).
    rewrite H1 in H2. inversion H2; subst ar2 hs2 out2.
    eapply IH; eauto.
Qed.

(* whole sequences, from the empty arena *)
Theorem aruns_refines : forall ops ar hs fs fs' acc,
  AInv ar -> Rel ar hs fs -> spec_run fs ops = Some fs' ->
  exists ar' hs' out, aruns (ar, hs) ops acc = Some (ar', hs', out) /\ AInv ar' /\ Rel ar' hs' fs'.
Proof.
  induction ops as [|o ops IH]; intros ar hs fs fs' acc A R H; cbn [spec_run aruns] in *.
  - inversion H; subst. do 3 eexists. split; [reflexivity|]. split; assumption.
  - destruct (spec_step fs o) as [fs1|] eqn:H1; [|discriminate].
    destruct (astep_refines _ _ _ _ _ A R H1) as (ar1 & hs1 & out1 & Hs & A1 & R1). rewrite Hs.
    eapply IH; eauto.
Qed.
