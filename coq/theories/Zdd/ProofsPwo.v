(* pwo_f : product_with_optional_rec (arena.rs with the persistent union cache,
   ops/product.rs with a fresh union cache per nested call) *)
From Coq Require Import Setoid Morphisms.
From VP Require Import Base.Tactics Zdd.Model Zdd.ProofsBase Zdd.ProofsOps Zdd.ProofsUnion.

Local Notation CU := (cache_ok USPEC).
Ltac zauto := eauto using ext_valid, ext_vgt, wf_lo_valid, wf_hi_valid, wf_lo_vgt, wf_hi_vgt, ext_refl, ext_trans.

(* sorted insertion with dedup *)
Lemma ins_gt v s : Forall (fun x => (v < x)%N) s -> ins v s = v :: s.
Proof.
  destruct s as [|y r]; cbn; [reflexivity|]. intros F. inversion F; subst.
  destruct (N.ltb_spec v y); [reflexivity | lia].
Qed.
Lemma ins_lt v y r : (y < v)%N -> ins v (y :: r) = y :: ins v r.
Proof.
  intros L. cbn. destruct (N.ltb_spec v y); [lia|]. destruct (N.eqb_spec v y); [lia | reflexivity].
Qed.
Lemma ins_eq v r : ins v (v :: r) = v :: r.
Proof. cbn. rewrite N.ltb_irrefl, N.eqb_refl. reflexivity. Qed.

(* S x {emptyset, {v}} on the denotation *)
Definition PW (v : N) (F : list N -> Prop) (s : list N) : Prop :=
  F s \/ exists s0, F s0 /\ s = ins v s0.

Definition res1_ok (v : N) (t : table) (a : ref) (t' : table) (r : ref) : Prop :=
  ext t t' /\ wf t' /\ valid t' r /\
  (forall u, (u < v)%N -> vgt t u a -> vgt t' u r) /\
  (forall s, In_fam t' r s <-> PW v (In_fam t a) s).

Definition pc_ok (v : N) (t : table) (pc : cache1) : Prop :=
  forall a r, lookup1 pc a = Some r -> valid t a /\ res1_ok v t a t r.

Lemma PW_proper v F G s : (forall x, F x <-> G x) -> (PW v F s <-> PW v G s).
Proof.
  intros E. unfold PW. rewrite E. split; (intros [A|[s0 [A B]]]; [left; exact A | right; exists s0; split; [apply E; exact A | exact B]]).
Qed.

Lemma res1_ok_ext v t t' a r :
  wf t -> wf t' -> ext t t' -> valid t a -> res1_ok v t a t r -> res1_ok v t' a t' r.
Proof.
  intros W W' E Va (_ & _ & V & G & S).
  split; [apply ext_refl|]. split; [exact W'|]. split; [eapply ext_valid; eauto|]. split.
  - intros u L Ga. eapply ext_vgt; eauto. apply G; [exact L|]. eapply vgt_stable; eauto.
  - intros s. rewrite (in_fam_ext_iff t t' r s W E V). rewrite S.
    apply PW_proper. intros x. symmetry. apply in_fam_ext_iff; auto.
Qed.

Lemma res1_ok_rebase v t t' a r :
  wf t -> valid t a -> res1_ok v t a t' r -> res1_ok v t' a t' r.
Proof.
  intros W Va (E & W' & V & G & S).
  split; [apply ext_refl|]. split; [exact W'|]. split; [exact V|]. split.
  - intros u L Ga. apply G; [exact L|]. eapply vgt_stable; eauto.
  - intros s. rewrite S. apply PW_proper. intros x. symmetry. apply in_fam_ext_iff; auto.
Qed.

Lemma pc_ok_ext v t t' pc : wf t -> wf t' -> ext t t' -> pc_ok v t pc -> pc_ok v t' pc.
Proof.
  intros W W' E P a r H. destruct (P a r H) as (Va & X).
  split; [eapply ext_valid; eauto|]. exact (res1_ok_ext v t t' a r W W' E Va X).
Qed.

Lemma pc_ok_cons v t pc a r : pc_ok v t pc -> valid t a -> res1_ok v t a t r -> pc_ok v t ((a, r) :: pc).
Proof.
  intros P Va X x z. cbn. destruct (ref_eqb a x) eqn:E.
  - apply ref_eqb_eq in E. subst. intros H. inversion H; subst. auto.
  - apply P.
Qed.

Lemma pc_ok_nil v t : pc_ok v t [].
Proof. intros a r H. discriminate. Qed.

Lemma pwo_ok fuel (persistent : bool) (v : N) : forall t uc pc nd t' uc' pc' r,
  wf t -> CU t uc -> pc_ok v t pc -> valid t nd ->
  pwo_f fuel persistent t uc pc nd v = Some (t', uc', pc', r) ->
  res1_ok v t nd t' r /\ CU t' uc' /\ pc_ok v t' pc'.
Proof.
  induction fuel as [|f IH]; intros t uc pc nd t' uc' pc' r W Cu Pc Vn H; [discriminate|].
  cbn [pwo_f] in H.
  destruct nd as [| |i].
  - (* Empty *)
    inversion H; subst. split; [|split; assumption].
    split; [apply ext_refl|]. split; [exact W|]. split; [exact I|]. split; [intros; exact I|].
    intros s. unfold PW. split; [intros X; inversion X|]. intros [X|[s0 [X _]]]; inversion X.
  - (* Base *)
    destruct (goc t v RBase RBase) as [t1 r1] eqn:Hg. inversion H; subst t' uc' pc' r. clear H.
    destruct (goc_spec t v RBase RBase t1 r1 W I I I I Hg) as (E1 & W1 & V1 & G1 & S1).
    split; [|split; [exact (cache_ok_ext USPEC USPEC_proper t t1 uc W W1 E1 Cu) | exact (pc_ok_ext v t t1 pc W W1 E1 Pc)]].
    split; [exact E1|]. split; [exact W1|]. split; [exact V1|]. split.
    + intros u L _. apply G1; [exact L | exact I].
    + intros s. rewrite S1. unfold PW. rewrite in_fam_base. split.
      * intros [->|[s' [-> X]]]; [left; reflexivity|]. apply in_fam_base in X. subst s'.
        right. exists []. split; [constructor | reflexivity].
      * intros [->|[s0 [X ->]]]; [left; reflexivity|]. apply in_fam_base in X. subst s0.
        right. exists []. split; [reflexivity | constructor].
  - (* Node i *)
    destruct (lookup1 pc (RNode i)) as [rc|] eqn:Hl.
    { inversion H; subst. destruct (Pc _ _ Hl) as (_ & X). auto. }
    destruct (nth_error t i) as [n|] eqn:Hn; [|discriminate].
    match type of H with
    | match ?body with Some _ => _ | None => _ end = _ => destruct body as [[[[tr ucr] pcr] rr]|] eqn:Hb; [|discriminate]
    end.
    inversion H; subst t' uc' pc' r. clear H.
    assert (Core : res1_ok v t (RNode i) tr rr /\ CU tr ucr /\ pc_ok v tr pcr).
    2:{ destruct Core as (X & Y & Z). split; [exact X|]. split; [exact Y|].
        pose proof X as (E & _).
        apply pc_ok_cons; [exact Z | eapply ext_valid; eauto | eapply res1_ok_rebase; eauto]. }
    destruct (N.ltb (nvar n) v) eqn:L1; [|destruct (N.eqb (nvar n) v) eqn:L2].
    + (* var below v: recurse into both branches *)
      assert (Lv : (nvar n < v)%N) by lia.
      destruct (pwo_f f persistent t uc pc (nlo n) v) as [[[[t1 uc1] pc1] nl]|] eqn:H1; [|discriminate].
      destruct (pwo_f f persistent t1 uc1 pc1 (nhi n) v) as [[[[t2 uc2] pc2] nh]|] eqn:H2; [|discriminate].
      destruct (goc t2 (nvar n) nl nh) as [t3 r3] eqn:Hg. inversion Hb; subst tr ucr pcr rr. clear Hb.
      destruct (IH _ _ _ _ _ _ _ _ W Cu Pc (wf_lo_valid _ _ _ W Hn) H1) as ((E1 & W1 & V1 & G1 & S1) & Cu1 & Pc1).
      assert (Vh1 : valid t1 (nhi n)) by zauto.
      destruct (IH _ _ _ _ _ _ _ _ W1 Cu1 Pc1 Vh1 H2) as ((E2 & W2 & V2 & G2 & S2) & Cu2 & Pc2).
      assert (Gl : vgt t2 (nvar n) nl) by (eapply ext_vgt; [exact E2|]; apply G1; zauto).
      assert (Gh : vgt t2 (nvar n) nh) by (apply G2; zauto).
      assert (Vl : valid t2 nl) by zauto.
      destruct (goc_spec t2 (nvar n) nl nh t3 r3 W2 Vl V2 Gl Gh Hg) as (E3 & W3 & V3 & G3 & S3).
      split; [|split; [exact (cache_ok_ext USPEC USPEC_proper t2 t3 uc2 W2 W3 E3 Cu2) | exact (pc_ok_ext v t2 t3 pc2 W2 W3 E3 Pc2)]].
      split; [zauto|]. split; [exact W3|]. split; [exact V3|]. split.
      * intros u L Gu. apply (vgt_node _ _ _ _ Hn) in Gu. apply G3; [exact Gu|].
        eapply ext_vgt; [exact E2|]. apply G1; [exact L|].
        eapply vgt_trans; [|eapply wf_lo_vgt; eauto]. lia.
      * intros s. rewrite S3. rewrite (back t1 t2 nl W1 E2 V1). rewrite S1.
        setoid_rewrite S2.
        assert (Xh : forall x, In_fam t1 (nhi n) x <-> In_fam t (nhi n) x) by (apply back; zauto).
        unfold PW. setoid_rewrite Xh.
        setoid_rewrite (in_fam_node _ _ _ _ Hn).
        split.
        -- intros [[A|[s0 [A ->]]]|[s' [-> [A|[s0 [A ->]]]]]].
           ++ left. left. exact A.
           ++ right. exists s0. split; [left; exact A | reflexivity].
           ++ left. right. eauto.
           ++ right. exists (nvar n :: s0). split; [right; eauto|]. rewrite ins_lt by exact Lv. reflexivity.
        -- intros [[A|[s' [-> A]]]|[s0 [[A|[s' [-> A]]] ->]]].
           ++ left. left. exact A.
           ++ right. exists s'. split; [reflexivity|]. left. exact A.
           ++ left. right. eauto.
           ++ right. exists (ins v s'). split; [rewrite ins_lt by exact Lv; reflexivity|]. right. eauto.
    + (* var = v *)
      assert (Ev : nvar n = v) by lia.
      destruct (union_f (S (length t + length t)) t (if persistent then uc else []) (nlo n) (nhi n))
        as [[[t1 uc1] nh]|] eqn:H1; [|discriminate].
      destruct (goc t1 v (nlo n) nh) as [t2 r2] eqn:Hg. inversion Hb; subst tr ucr pcr rr. clear Hb.
      assert (Cu0 : CU t (if persistent then uc else [])).
      { destruct persistent; [exact Cu | apply cache_ok_nil]. }
      destruct (union_ok _ _ _ _ _ _ _ _ W Cu0 (wf_lo_valid _ _ _ W Hn) (wf_hi_valid _ _ _ W Hn) H1)
        as ((E1 & W1 & V1 & G1 & S1) & Cu1).
      assert (Gl0 : vgt t v (nlo n)) by (rewrite <- Ev; zauto).
      assert (Gh0 : vgt t v (nhi n)) by (rewrite <- Ev; zauto).
      assert (Vl : valid t1 (nlo n)) by zauto.
      assert (Gl : vgt t1 v (nlo n)) by zauto.
      assert (Gh : vgt t1 v nh) by (apply G1; assumption).
      destruct (goc_spec t1 v (nlo n) nh t2 r2 W1 Vl V1 Gl Gh Hg) as (E2 & W2 & V2 & G2 & S2).
      assert (E02 : ext t t2) by zauto.
      split; [|split; [|exact (pc_ok_ext v t t2 pc W W2 E02 Pc)]].
      2:{ destruct persistent.
          - exact (cache_ok_ext USPEC USPEC_proper t1 t2 uc1 W1 W2 E2 Cu1).
          - exact (cache_ok_ext USPEC USPEC_proper t t2 uc W W2 E02 Cu). }
      split; [exact E02|]. split; [exact W2|]. split; [exact V2|]. split.
      * intros u L Gu. apply G2; [exact L|]. eapply ext_vgt; [exact E1|].
        eapply vgt_trans; [|exact Gl0]. lia.
      * intros s. rewrite S2. setoid_rewrite S1.
        assert (Xl : forall x, In_fam t1 (nlo n) x <-> In_fam t (nlo n) x) by (apply back; zauto).
        rewrite Xl. unfold PW, USPEC. setoid_rewrite (in_fam_node _ _ _ _ Hn). rewrite Ev.
        split.
        -- intros [A|[s' [-> [A|A]]]].
           ++ left. left. exact A.
           ++ right. exists s'. split; [left; exact A|].
              rewrite ins_gt; [reflexivity|]. exact (members_gt t v (nlo n) s' W Gl0 A).
           ++ left. right. eauto.
        -- intros [[A|[s' [-> A]]]|[s0 [[A|[s' [-> A]]] ->]]].
           ++ left. exact A.
           ++ right. eauto.
           ++ right. exists s0. split; [|left; exact A].
              rewrite ins_gt; [reflexivity|]. exact (members_gt t v (nlo n) s0 W Gl0 A).
           ++ right. exists s'. split; [apply ins_eq | right; exact A].
    + (* var above v: insert a node for v on top *)
      assert (Lv : (v < nvar n)%N) by lia.
      destruct (goc t v (RNode i) (RNode i)) as [t1 r1] eqn:Hg. inversion Hb; subst tr ucr pcr rr. clear Hb.
      assert (Gn : vgt t v (RNode i)) by (apply (vgt_node _ _ _ _ Hn); exact Lv).
      destruct (goc_spec t v (RNode i) (RNode i) t1 r1 W Vn Vn Gn Gn Hg) as (E1 & W1 & V1 & G1 & S1).
      split; [|split; [exact (cache_ok_ext USPEC USPEC_proper t t1 uc W W1 E1 Cu) | exact (pc_ok_ext v t t1 pc W W1 E1 Pc)]].
      split; [exact E1|]. split; [exact W1|]. split; [exact V1|]. split.
      * intros u L Gu. apply G1; assumption.
      * intros s. rewrite S1. unfold PW. split.
        -- intros [A|[s' [-> A]]]; [left; exact A|]. right. exists s'. split; [exact A|].
           rewrite ins_gt; [reflexivity|]. exact (members_gt t v (RNode i) s' W Gn A).
        -- intros [A|[s0 [A ->]]]; [left; exact A|]. right. exists s0. split; [|exact A].
           rewrite ins_gt; [reflexivity|]. exact (members_gt t v (RNode i) s0 W Gn A).
Qed.
