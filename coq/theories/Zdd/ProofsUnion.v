(* union_f (arena union_refs, ops/union.rs union_rec, ops/common.rs union_refs_rec) *)
From Coq Require Import Setoid Morphisms.
From VP Require Import Base.Tactics Zdd.Model Zdd.ProofsBase Zdd.ProofsOps.

Local Notation R := (res_ok USPEC).
Local Notation C := (cache_ok USPEC).

Lemma USPEC_sym P Q : USPEC P Q <-> USPEC Q P.
Proof. unfold USPEC. tauto. Qed.

Ltac zauto := eauto using ext_valid, ext_vgt, wf_lo_valid, wf_hi_valid, wf_lo_vgt, wf_hi_vgt, ext_refl, ext_trans.

(* In_fam over an extended table, for a ref valid in the old one *)
Lemma back t t1 x : wf t -> ext t t1 -> valid t x -> forall s, In_fam t1 x s <-> In_fam t x s.
Proof. intros W E V s. apply in_fam_ext_iff; auto. Qed.

Lemma union_ok fuel : forall t c a b t' c' r,
  wf t -> C t c -> valid t a -> valid t b ->
  union_f fuel t c a b = Some (t', c', r) ->
  R t a b t' r /\ C t' c'.
Proof.
  induction fuel as [|f IH]; intros t c a b t' c' r W Cc Va Vb H; [discriminate|].
  cbn [union_f] in H.
  destruct (ref_eqb a REmpty) eqn:Ea.
  { apply ref_eqb_eq in Ea. subst a. inversion H; subst.
    apply const_step; auto. intros s. unfold USPEC. split; [auto|]. intros [X|X]; [inversion X | exact X]. }
  destruct (ref_eqb b REmpty) eqn:Eb.
  { apply ref_eqb_eq in Eb. subst b. inversion H; subst.
    apply const_step; auto. intros s. unfold USPEC. split; [auto|]. intros [X|X]; [exact X | inversion X]. }
  destruct (ref_eqb a b) eqn:Eab.
  { apply ref_eqb_eq in Eab. subst b. inversion H; subst.
    apply const_step; auto. intros s. unfold USPEC. tauto. }
  apply ref_eqb_neq in Ea, Eb, Eab.
  destruct (norm a b) as [a' b'] eqn:Hn.
  assert (Goal' : R t a' b' t' r /\ C t' c' -> R t a b t' r /\ C t' c').
  { destruct (norm_cases _ _ _ _ Hn) as [[-> ->]|[-> ->]]; [auto|].
    intros [X Y]. split; [apply res_ok_sym; [apply USPEC_sym | exact X] | exact Y]. }
  apply Goal'. clear Goal'.
  assert (Va' : valid t a') by (destruct (norm_cases _ _ _ _ Hn) as [[-> ->]|[-> ->]]; assumption).
  assert (Vb' : valid t b') by (destruct (norm_cases _ _ _ _ Hn) as [[-> ->]|[-> ->]]; assumption).
  assert (Ea' : a' <> REmpty) by (destruct (norm_cases _ _ _ _ Hn) as [[-> ->]|[-> ->]]; assumption).
  assert (Eb' : b' <> REmpty) by (destruct (norm_cases _ _ _ _ Hn) as [[-> ->]|[-> ->]]; assumption).
  assert (Eab' : a' <> b') by (destruct (norm_cases _ _ _ _ Hn) as [[-> ->]|[-> ->]]; congruence).
  clear Hn Va Vb Ea Eb Eab a b.
  destruct (lookup2 c a' b') as [rc|] eqn:Hl.
  { inversion H; subst. destruct (Cc _ _ _ Hl) as (_ & _ & X). split; [exact X | exact Cc]. }
  destruct (info t a') as [[[av alo] ahi]|] eqn:Ia; [|discriminate].
  destruct (info t b') as [[[bv blo] bhi]|] eqn:Ib; [|discriminate].
  match type of H with
  | match ?body with Some _ => _ | None => _ end = _ => destruct body as [[[tr cr] rr]|] eqn:Hb; [|discriminate]
  end.
  inversion H; subst t' c' r. clear H.
  apply (insert_step USPEC USPEC_proper); auto.
  destruct a' as [| |i]; [congruence| |]; destruct b' as [| |j]; try congruence.
  - (* Base, Node j *)
    cbn in Ia. inversion Ia; subst av alo ahi. clear Ia.
    apply info_node in Ib. destruct Ib as (nb & Hnb & Eq). inversion Eq; subst bv blo bhi. clear Eq.
    destruct (union_f f t c RBase (nlo nb)) as [[[t1 c1] nl]|] eqn:H1; [|discriminate].
    destruct (goc t1 (nvar nb) nl (nhi nb)) as [t2 r2] eqn:Hg. inversion Hb; subst tr cr rr. clear Hb.
    destruct (IH _ _ _ _ _ _ _ W Cc Va' (wf_lo_valid _ _ _ W Hnb) H1) as [(E1 & W1 & V1 & G1 & S1) C1].
    assert (Vh : valid t1 (nhi nb)) by zauto.
    assert (Gh : vgt t1 (nvar nb) (nhi nb)) by zauto.
    assert (Gl : vgt t1 (nvar nb) nl) by (apply G1; [exact I | zauto]).
    refine (node_step USPEC USPEC_proper t t1 t2 RBase (RNode j) (nvar nb) nl (nhi nb) r2 c1 W E1 W1 C1 V1 Vh Gl Gh Hg _ _).
    + intros u _ Gu. apply (vgt_node _ _ _ _ Hnb) in Gu. split; [exact Gu|].
      apply G1; [exact I|]. eapply vgt_trans; [|eapply wf_lo_vgt; eauto]. lia.
    + intros s. rewrite S1. rewrite (in_fam_node _ _ _ s Hnb).
      setoid_rewrite (back t t1 (nhi nb) W E1 (wf_hi_valid _ _ _ W Hnb)).
      unfold USPEC. tauto.
  - (* Node i, Base *)
    cbn in Ib. inversion Ib; subst bv blo bhi. clear Ib.
    apply info_node in Ia. destruct Ia as (na & Hna & Eq). inversion Eq; subst av alo ahi. clear Eq.
    destruct (union_f f t c (nlo na) RBase) as [[[t1 c1] nl]|] eqn:H1; [|discriminate].
    destruct (goc t1 (nvar na) nl (nhi na)) as [t2 r2] eqn:Hg. inversion Hb; subst tr cr rr. clear Hb.
    destruct (IH _ _ _ _ _ _ _ W Cc (wf_lo_valid _ _ _ W Hna) Vb' H1) as [(E1 & W1 & V1 & G1 & S1) C1].
    assert (Vh : valid t1 (nhi na)) by zauto.
    assert (Gh : vgt t1 (nvar na) (nhi na)) by zauto.
    assert (Gl : vgt t1 (nvar na) nl) by (apply G1; [zauto | exact I]).
    refine (node_step USPEC USPEC_proper t t1 t2 (RNode i) RBase (nvar na) nl (nhi na) r2 c1 W E1 W1 C1 V1 Vh Gl Gh Hg _ _).
    + intros u Gu _. apply (vgt_node _ _ _ _ Hna) in Gu. split; [exact Gu|].
      apply G1; [|exact I]. eapply vgt_trans; [|eapply wf_lo_vgt; eauto]. lia.
    + intros s. rewrite S1. rewrite (in_fam_node _ _ _ s Hna).
      setoid_rewrite (back t t1 (nhi na) W E1 (wf_hi_valid _ _ _ W Hna)).
      unfold USPEC. tauto.
  - (* Node i, Node j *)
    apply info_node in Ia. destruct Ia as (na & Hna & Eq). inversion Eq; subst av alo ahi. clear Eq.
    apply info_node in Ib. destruct Ib as (nb & Hnb & Eq). inversion Eq; subst bv blo bhi. clear Eq.
    destruct (N.ltb (nvar na) (nvar nb)) eqn:L1; [|destruct (N.ltb (nvar nb) (nvar na)) eqn:L2].
    + (* av < bv *)
      destruct (union_f f t c (nlo na) (RNode j)) as [[[t1 c1] nl]|] eqn:H1; [|discriminate].
      destruct (goc t1 (nvar na) nl (nhi na)) as [t2 r2] eqn:Hg. inversion Hb; subst tr cr rr. clear Hb.
      destruct (IH _ _ _ _ _ _ _ W Cc (wf_lo_valid _ _ _ W Hna) Vb' H1) as [(E1 & W1 & V1 & G1 & S1) C1].
      assert (Gb : vgt t (nvar na) (RNode j)) by (apply (vgt_node _ _ _ _ Hnb); lia).
      assert (Vh : valid t1 (nhi na)) by zauto.
      assert (Gh : vgt t1 (nvar na) (nhi na)) by zauto.
      assert (Gl : vgt t1 (nvar na) nl) by (apply G1; zauto).
      refine (node_step USPEC USPEC_proper t t1 t2 (RNode i) (RNode j) (nvar na) nl (nhi na) r2 c1 W E1 W1 C1 V1 Vh Gl Gh Hg _ _).
      * intros u Gu Gu'. apply (vgt_node _ _ _ _ Hna) in Gu. split; [exact Gu|].
        apply G1; [|exact Gu']. eapply vgt_trans; [|eapply wf_lo_vgt; eauto]. lia.
      * intros s. rewrite S1. rewrite (in_fam_node _ _ _ s Hna).
        setoid_rewrite (back t t1 (nhi na) W E1 (wf_hi_valid _ _ _ W Hna)).
        unfold USPEC. tauto.
    + (* bv < av *)
      destruct (union_f f t c (RNode i) (nlo nb)) as [[[t1 c1] nl]|] eqn:H1; [|discriminate].
      destruct (goc t1 (nvar nb) nl (nhi nb)) as [t2 r2] eqn:Hg. inversion Hb; subst tr cr rr. clear Hb.
      destruct (IH _ _ _ _ _ _ _ W Cc Va' (wf_lo_valid _ _ _ W Hnb) H1) as [(E1 & W1 & V1 & G1 & S1) C1].
      assert (Ga : vgt t (nvar nb) (RNode i)) by (apply (vgt_node _ _ _ _ Hna); lia).
      assert (Vh : valid t1 (nhi nb)) by zauto.
      assert (Gh : vgt t1 (nvar nb) (nhi nb)) by zauto.
      assert (Gl : vgt t1 (nvar nb) nl) by (apply G1; zauto).
      refine (node_step USPEC USPEC_proper t t1 t2 (RNode i) (RNode j) (nvar nb) nl (nhi nb) r2 c1 W E1 W1 C1 V1 Vh Gl Gh Hg _ _).
      * intros u Gu' Gu. apply (vgt_node _ _ _ _ Hnb) in Gu. split; [exact Gu|].
        apply G1; [exact Gu'|]. eapply vgt_trans; [|eapply wf_lo_vgt; eauto]. lia.
      * intros s. rewrite S1. rewrite (in_fam_node _ _ _ s Hnb).
        setoid_rewrite (back t t1 (nhi nb) W E1 (wf_hi_valid _ _ _ W Hnb)).
        unfold USPEC. tauto.
    + (* av = bv *)
      assert (Ev : nvar na = nvar nb) by lia.
      destruct (union_f f t c (nlo na) (nlo nb)) as [[[t1 c1] nl]|] eqn:H1; [|discriminate].
      destruct (union_f f t1 c1 (nhi na) (nhi nb)) as [[[t2 c2] nh]|] eqn:H2; [|discriminate].
      destruct (goc t2 (nvar na) nl nh) as [t3 r3] eqn:Hg. inversion Hb; subst tr cr rr. clear Hb.
      destruct (IH _ _ _ _ _ _ _ W Cc (wf_lo_valid _ _ _ W Hna) (wf_lo_valid _ _ _ W Hnb) H1)
        as [(E1 & W1 & V1 & G1 & S1) C1].
      assert (Vha : valid t1 (nhi na)) by zauto.
      assert (Vhb : valid t1 (nhi nb)) by zauto.
      destruct (IH _ _ _ _ _ _ _ W1 C1 Vha Vhb H2) as [(E2 & W2 & V2 & G2 & S2) C2].
      assert (Gl1 : vgt t1 (nvar na) nl).
      { apply G1; [zauto|]. rewrite Ev. zauto. }
      assert (Gl : vgt t2 (nvar na) nl) by zauto.
      assert (Gh : vgt t2 (nvar na) nh).
      { apply G2; [zauto|]. rewrite Ev. zauto. }
      assert (Vl : valid t2 nl) by zauto.
      assert (E02 : ext t t2) by zauto.
      refine (node_step USPEC USPEC_proper t t2 t3 (RNode i) (RNode j) (nvar na) nl nh r3 c2 W E02 W2 C2 Vl V2 Gl Gh Hg _ _).
      * intros u Gu Gu'. apply (vgt_node _ _ _ _ Hna) in Gu. split; [exact Gu|].
        eapply ext_vgt; [exact E2|]. apply G1.
        -- eapply vgt_trans; [|eapply wf_lo_vgt; eauto]. lia.
        -- apply (vgt_node _ _ _ _ Hnb) in Gu'. eapply vgt_trans; [|eapply wf_lo_vgt; eauto]. lia.
      * intros s. rewrite (back t1 t2 nl W1 E2 V1). rewrite S1.
        setoid_rewrite S2.
        setoid_rewrite (back t t1 (nhi na) W E1 (wf_hi_valid _ _ _ W Hna)).
        setoid_rewrite (back t t1 (nhi nb) W E1 (wf_hi_valid _ _ _ W Hnb)).
        rewrite (in_fam_node _ _ _ s Hna), (in_fam_node _ _ _ s Hnb). rewrite <- Ev.
        unfold USPEC. split.
        -- intros [[A|A]|[s' [-> [A|A]]]]; eauto 6.
        -- intros [[A|[s' [-> A]]]|[A|[s' [-> A]]]]; eauto 6.
Qed.

(* Totality: with fuel above the sum of the operands' ranks the function returns
   (no out-of-fuel, no out-of-range node id). *)
Lemma info_valid t r : valid t r -> exists x, info t r = Some x.
Proof.
  destruct r as [| |i]; cbn; eauto. intros V. destruct (valid_nth _ _ V) as [n Hn]. rewrite Hn. eauto.
Qed.

Lemma union_total fuel : forall t c a b,
  wf t -> C t c -> valid t a -> valid t b -> rk a + rk b < fuel ->
  exists out, union_f fuel t c a b = Some out.
Proof.
  induction fuel as [|f IH]; intros t c a b W Cc Va Vb L; [lia|].
  cbn [union_f].
  destruct (ref_eqb a REmpty) eqn:Ea; [eauto|].
  destruct (ref_eqb b REmpty) eqn:Eb; [eauto|].
  destruct (ref_eqb a b) eqn:Eab; [eauto|].
  apply ref_eqb_neq in Ea, Eb, Eab.
  destruct (norm a b) as [a' b'] eqn:Hn.
  assert (Va' : valid t a') by (destruct (norm_cases _ _ _ _ Hn) as [[-> ->]|[-> ->]]; assumption).
  assert (Vb' : valid t b') by (destruct (norm_cases _ _ _ _ Hn) as [[-> ->]|[-> ->]]; assumption).
  assert (Ea' : a' <> REmpty) by (destruct (norm_cases _ _ _ _ Hn) as [[-> ->]|[-> ->]]; assumption).
  assert (Eb' : b' <> REmpty) by (destruct (norm_cases _ _ _ _ Hn) as [[-> ->]|[-> ->]]; assumption).
  assert (Eab' : a' <> b') by (destruct (norm_cases _ _ _ _ Hn) as [[-> ->]|[-> ->]]; congruence).
  assert (L' : rk a' + rk b' < S f) by (destruct (norm_cases _ _ _ _ Hn) as [[-> ->]|[-> ->]]; lia).
  clear Hn Va Vb Ea Eb Eab L a b.
  destruct (lookup2 c a' b') as [rc|] eqn:Hl; [eauto|].
  destruct a' as [| |i]; [congruence| |]; destruct b' as [| |j]; try congruence.
  - destruct (valid_nth _ _ Vb') as [nb Hnb]. cbn [info]. rewrite Hnb.
    assert (Lr : rk RBase + rk (nlo nb) < f) by (pose proof (rk_lt _ _ (wf_lo_lt _ _ _ W Hnb)); cbn in *; lia).
    destruct (IH t c RBase (nlo nb) W Cc Va' (wf_lo_valid _ _ _ W Hnb) Lr) as [[[t1 c1] nl] H1].
    rewrite H1. destruct (goc t1 (nvar nb) nl (nhi nb)). eauto.
  - destruct (valid_nth _ _ Va') as [na Hna]. cbn [info]. rewrite Hna.
    assert (Lr : rk (nlo na) + rk RBase < f) by (pose proof (rk_lt _ _ (wf_lo_lt _ _ _ W Hna)); cbn in *; lia).
    destruct (IH t c (nlo na) RBase W Cc (wf_lo_valid _ _ _ W Hna) Vb' Lr) as [[[t1 c1] nl] H1].
    rewrite H1. destruct (goc t1 (nvar na) nl (nhi na)). eauto.
  - destruct (valid_nth _ _ Va') as [na Hna]. destruct (valid_nth _ _ Vb') as [nb Hnb].
    cbn [info]. rewrite Hna, Hnb.
    pose proof (rk_lt _ _ (wf_lo_lt _ _ _ W Hna)) as La1. pose proof (rk_lt _ _ (wf_hi_lt _ _ _ W Hna)) as La2.
    pose proof (rk_lt _ _ (wf_lo_lt _ _ _ W Hnb)) as Lb1. pose proof (rk_lt _ _ (wf_hi_lt _ _ _ W Hnb)) as Lb2.
    cbn [rk] in L'.
    destruct (N.ltb (nvar na) (nvar nb)); [|destruct (N.ltb (nvar nb) (nvar na))].
    + assert (Lr : rk (nlo na) + rk (RNode j) < f) by (cbn [rk]; lia).
      destruct (IH t c (nlo na) (RNode j) W Cc (wf_lo_valid _ _ _ W Hna) Vb' Lr) as [[[t1 c1] nl] H1].
      rewrite H1. destruct (goc t1 (nvar na) nl (nhi na)). eauto.
    + assert (Lr : rk (RNode i) + rk (nlo nb) < f) by (cbn [rk]; lia).
      destruct (IH t c (RNode i) (nlo nb) W Cc Va' (wf_lo_valid _ _ _ W Hnb) Lr) as [[[t1 c1] nl] H1].
      rewrite H1. destruct (goc t1 (nvar nb) nl (nhi nb)). eauto.
    + assert (Lr : rk (nlo na) + rk (nlo nb) < f) by lia.
      destruct (IH t c (nlo na) (nlo nb) W Cc (wf_lo_valid _ _ _ W Hna) (wf_lo_valid _ _ _ W Hnb) Lr) as [[[t1 c1] nl] H1].
      rewrite H1.
      destruct (union_ok _ _ _ _ _ _ _ _ W Cc (wf_lo_valid _ _ _ W Hna) (wf_lo_valid _ _ _ W Hnb) H1) as [(E1 & W1 & _) C1].
      assert (Lr2 : rk (nhi na) + rk (nhi nb) < f) by lia.
      assert (Vha : valid t1 (nhi na)) by zauto.
      assert (Vhb : valid t1 (nhi nb)) by zauto.
      destruct (IH t1 c1 (nhi na) (nhi nb) W1 C1 Vha Vhb Lr2) as [[[t2 c2] nh] H2].
      rewrite H2. destruct (goc t2 (nvar na) nl nh). eauto.
Qed.
