(* Correctness of the recursive set operations: each one, run on a well-formed
   table with a sound cache, extends the table, keeps it well-formed, keeps the
   cache sound and returns a ref denoting the specified family. *)
From VP Require Import Base.Tactics Zdd.Model Zdd.ProofsBase.

(* ------------------------------------------------------- small helpers *)
Lemma vgt_stable t t' u r : ext t t' -> valid t r -> vgt t' u r -> vgt t u r.
Proof.
  intros E V. destruct r as [| |j]; cbn; auto. intros [m [Hm L]].
  destruct (valid_nth _ _ V) as [n Hn]. pose proof (ext_nth _ _ _ _ E Hn) as Hx.
  rewrite Hm in Hx. inversion Hx; subst. eauto.
Qed.

Lemma wf_lo_valid t i n : wf t -> nth_error t i = Some n -> valid t (nlo n).
Proof. intros W H. destruct (wf_nodes _ W _ _ H) as (_ & R & _). eapply rlt_valid; eauto. Qed.
Lemma wf_hi_valid t i n : wf t -> nth_error t i = Some n -> valid t (nhi n).
Proof. intros W H. destruct (wf_nodes _ W _ _ H) as (_ & _ & R & _). eapply rlt_valid; eauto. Qed.
Lemma wf_lo_vgt t i n : wf t -> nth_error t i = Some n -> vgt t (nvar n) (nlo n).
Proof. intros W H. destruct (wf_nodes _ W _ _ H) as (_ & _ & _ & G & _). exact G. Qed.
Lemma wf_hi_vgt t i n : wf t -> nth_error t i = Some n -> vgt t (nvar n) (nhi n).
Proof. intros W H. destruct (wf_nodes _ W _ _ H) as (_ & _ & _ & _ & G). exact G. Qed.
Lemma wf_lo_lt t i n : wf t -> nth_error t i = Some n -> rlt (nlo n) i.
Proof. intros W H. destruct (wf_nodes _ W _ _ H) as (_ & R & _). exact R. Qed.
Lemma wf_hi_lt t i n : wf t -> nth_error t i = Some n -> rlt (nhi n) i.
Proof. intros W H. destruct (wf_nodes _ W _ _ H) as (_ & _ & R & _). exact R. Qed.
Lemma vgt_node t u i n : nth_error t i = Some n -> (vgt t u (RNode i) <-> (u < nvar n)%N).
Proof.
  intros H. cbn. split.
  - intros [m [Hm L]]. rewrite H in Hm. inversion Hm; subst. exact L.
  - intros L. eauto.
Qed.

Lemma info_node t i x : info t (RNode i) = Some x ->
  exists n, nth_error t i = Some n /\ x = (Some (nvar n), nlo n, nhi n).
Proof. cbn. destruct (nth_error t i) as [n|]; intros H; inversion H. eauto. Qed.

(* size measure for fuel *)
Definition rk (r : ref) : nat := match r with RNode i => S i | _ => 0 end.
Lemma rk_lt r i : rlt r i -> rk r <= i.
Proof. destruct r; cbn; lia. Qed.
Lemma rk_valid t r : valid t r -> rk r <= length t.
Proof. apply rk_lt. Qed.

Lemma norm_cases a b a' b' : norm a b = (a', b') -> (a' = a /\ b' = b) \/ (a' = b /\ b' = a).
Proof. unfold norm. destruct (ref_leb a b); intros H; inversion H; auto. Qed.

Lemma lookup2_cons_eq c a b r : lookup2 (((a, b), r) :: c) a b = Some r.
Proof. cbn. rewrite !ref_eqb_refl. reflexivity. Qed.

(* ------------------------------------------------ generic binary-op frame *)
Section BinOp.
  Variable SPEC : Prop -> Prop -> Prop.
  Hypothesis SPEC_proper : forall P P' Q Q', (P <-> P') -> (Q <-> Q') -> (SPEC P Q <-> SPEC P' Q').

  Definition res_ok (t : table) (a b : ref) (t' : table) (r : ref) : Prop :=
    ext t t' /\ wf t' /\ valid t' r /\
    (forall u, vgt t u a -> vgt t u b -> vgt t' u r) /\
    (forall s, In_fam t' r s <-> SPEC (In_fam t a s) (In_fam t b s)).

  Definition cache_ok (t : table) (c : cache2) : Prop :=
    forall a b r, lookup2 c a b = Some r -> valid t a /\ valid t b /\ res_ok t a b t r.

  Lemma cache_ok_nil t : cache_ok t [].
  Proof. intros a b r H. discriminate. Qed.

  Lemma res_ok_rebase t t' a b r :
    wf t -> valid t a -> valid t b -> res_ok t a b t' r -> res_ok t' a b t' r.
  Proof.
    intros W Va Vb (E & W' & V & G & S).
    split; [apply ext_refl|]. split; [exact W'|]. split; [exact V|]. split.
    - intros u Ga Gb. apply G; eapply vgt_stable; eauto.
    - intros s. rewrite S. apply SPEC_proper; symmetry; apply in_fam_ext_iff; auto.
  Qed.

  Lemma res_ok_ext t t' a b r :
    wf t -> wf t' -> ext t t' -> valid t a -> valid t b -> res_ok t a b t r -> res_ok t' a b t' r.
  Proof.
    intros W W' E Va Vb (_ & _ & V & G & S).
    split; [apply ext_refl|]. split; [exact W'|]. split; [eapply ext_valid; eauto|]. split.
    - intros u Ga Gb. eapply ext_vgt; eauto. apply G; eapply vgt_stable; eauto.
    - intros s. rewrite (in_fam_ext_iff t t' r s W E V). rewrite S.
      apply SPEC_proper; symmetry; apply in_fam_ext_iff; auto.
  Qed.

  Lemma cache_ok_ext t t' c : wf t -> wf t' -> ext t t' -> cache_ok t c -> cache_ok t' c.
  Proof.
    intros W W' E C a b r H. destruct (C a b r H) as (Va & Vb & R).
    split; [eapply ext_valid; eauto|]. split; [eapply ext_valid; eauto|].
    exact (res_ok_ext t t' a b r W W' E Va Vb R).
  Qed.

  Lemma cache_ok_cons t c a b r :
    cache_ok t c -> valid t a -> valid t b -> res_ok t a b t r -> cache_ok t (((a, b), r) :: c).
  Proof.
    intros C Va Vb R x y z. cbn.
    destruct (ref_eqb a x && ref_eqb b y) eqn:E.
    - apply andb_true_iff in E. destruct E as [E1 E2]. apply ref_eqb_eq in E1, E2. subst.
      intros H. inversion H; subst. auto.
    - apply C.
  Qed.

  (* the result of a step: what the op returns plus soundness of the new cache *)
  Definition post (t : table) (a b : ref) (out : table * cache2 * ref) : Prop :=
    let '(t', c', r) := out in res_ok t a b t' r /\ cache_ok t' c'.

  (* a branch that builds a node from sub-results living in an extended table t1 *)
  Lemma node_step t t1 t2 a b v nl nh r c1 :
    wf t -> ext t t1 -> wf t1 -> cache_ok t1 c1 ->
    valid t1 nl -> valid t1 nh -> vgt t1 v nl -> vgt t1 v nh ->
    goc t1 v nl nh = (t2, r) ->
    (forall u, vgt t u a -> vgt t u b -> (u < v)%N /\ vgt t1 u nl) ->
    (forall s, (In_fam t1 nl s \/ exists s', s = v :: s' /\ In_fam t1 nh s') <-> SPEC (In_fam t a s) (In_fam t b s)) ->
    res_ok t a b t2 r /\ cache_ok t2 c1.
  Proof.
    intros W E W1 C1 Vl Vh Gl Gh Hg HG HS.
    destruct (goc_spec _ _ _ _ _ _ W1 Vl Vh Gl Gh Hg) as (E2 & W2 & V2 & G2 & S2).
    split; [|exact (cache_ok_ext t1 t2 c1 W1 W2 E2 C1)].
    split; [eapply ext_trans; eauto|]. split; [exact W2|]. split; [exact V2|]. split.
    - intros u Ga Gb. destruct (HG u Ga Gb) as [L G]. apply G2; auto.
    - intros s. rewrite S2. apply HS.
  Qed.

  (* a branch that returns the result of a recursive call on other operands unchanged *)
  Lemma pass_step t t1 a b x y r c1 :
    res_ok t x y t1 r -> cache_ok t1 c1 ->
    (forall u, vgt t u a -> vgt t u b -> vgt t u x /\ vgt t u y) ->
    (forall s, SPEC (In_fam t x s) (In_fam t y s) <-> SPEC (In_fam t a s) (In_fam t b s)) ->
    res_ok t a b t1 r /\ cache_ok t1 c1.
  Proof.
    intros (E & W1 & V & G & S) C1 HG HS. split; [|exact C1].
    split; [exact E|]. split; [exact W1|]. split; [exact V|]. split.
    - intros u Ga Gb. destruct (HG u Ga Gb). apply G; assumption.
    - intros s. rewrite S. apply HS.
  Qed.

  (* a branch that returns a constant ref of the old table *)
  Lemma const_step t a b r c :
    wf t -> cache_ok t c -> valid t r ->
    (forall u, vgt t u a -> vgt t u b -> vgt t u r) ->
    (forall s, In_fam t r s <-> SPEC (In_fam t a s) (In_fam t b s)) ->
    res_ok t a b t r /\ cache_ok t c.
  Proof.
    intros W C0 V G S. split; [|exact C0].
    split; [apply ext_refl|]. split; [exact W|]. split; [exact V|]. split; assumption.
  Qed.

  (* closing the body: insert the computed result into the cache *)
  Lemma insert_step t a b tr cr rr :
    wf t -> valid t a -> valid t b ->
    res_ok t a b tr rr /\ cache_ok tr cr ->
    res_ok t a b tr rr /\ cache_ok tr (((a, b), rr) :: cr).
  Proof.
    intros W Va Vb [X Y]. split; [exact X|].
    pose proof X as (E & _).
    apply cache_ok_cons; auto.
    - eapply ext_valid; eauto.
    - eapply ext_valid; eauto.
    - eapply res_ok_rebase; eauto.
  Qed.
End BinOp.

Arguments res_ok SPEC t a b t' r : clear implicits.
Arguments cache_ok SPEC t c : clear implicits.
Arguments post SPEC t a b out : clear implicits.

Definition USPEC (P Q : Prop) : Prop := P \/ Q.
Definition ISPEC (P Q : Prop) : Prop := P /\ Q.
Definition DSPEC (P Q : Prop) : Prop := P /\ ~ Q.

Lemma USPEC_proper P P' Q Q' : (P <-> P') -> (Q <-> Q') -> (USPEC P Q <-> USPEC P' Q').
Proof. unfold USPEC. tauto. Qed.
Lemma ISPEC_proper P P' Q Q' : (P <-> P') -> (Q <-> Q') -> (ISPEC P Q <-> ISPEC P' Q').
Proof. unfold ISPEC. tauto. Qed.
Lemma DSPEC_proper P P' Q Q' : (P <-> P') -> (Q <-> Q') -> (DSPEC P Q <-> DSPEC P' Q').
Proof. unfold DSPEC. tauto. Qed.

Lemma res_ok_sym SPEC t a b t' r :
  (forall P Q, SPEC P Q <-> SPEC Q P) -> res_ok SPEC t a b t' r -> res_ok SPEC t b a t' r.
Proof.
  intros Sym (E & W & V & G & S).
  split; [exact E|]. split; [exact W|]. split; [exact V|]. split.
  - intros u Gb Ga. apply G; assumption.
  - intros s. rewrite S. apply Sym.
Qed.
