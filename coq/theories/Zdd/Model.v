(* Executable model of crates/varpulis-zdd: UniqueTable, ZddArena (with its
   persistent caches and gc) and the standalone Zdd API (clone + remap).
   Definitions only -- proofs live in Proofs*.v so that the model still runs
   when a proof breaks.  Function by function this mirrors the Rust:

     goc                      table.rs   UniqueTable::get_or_create
     info                     arena.rs   get_node_info / ops/common.rs get_node_info
     union_f                  arena.rs   union_refs  = ops/union.rs union_rec = ops/common.rs union_refs_rec
     inter_f                  arena.rs   intersection_refs
     diff_f                   arena.rs   difference_refs
     pwo_f                    arena.rs   product_with_optional_rec = ops/product.rs product_with_optional_rec
     sinter_f, sdiff_f        ops/intersection.rs intersection_rec, ops/difference.rs difference_rec
     product_f                ops/product.rs product_rec
     remap_f                  arena.rs remap_to_new_table = ops/common.rs remap_ref
     count_f, contains_f, iter_f   count_ref / contains_sorted / ArenaIterator, ZddIterator

   Node ids are allocated in the same order as the code allocates them, so the
   correspondence check compares root refs and node tables verbatim.
   Recursion is on explicit fuel; [None] means out of fuel or an out-of-range
   node id (a panic in Rust); Proofs.v shows neither happens on well-formed tables. *)
From VP Require Import Base.Tactics.

Inductive ref := REmpty | RBase | RNode (id : nat).
Record node := mkNode { nvar : N; nlo : ref; nhi : ref }.
Definition table := list node.

Definition ref_eqb (a b : ref) : bool :=
  match a, b with
  | REmpty, REmpty => true
  | RBase, RBase => true
  | RNode i, RNode j => Nat.eqb i j
  | _, _ => false
  end.

(* derived Ord on ZddRef: Empty < Base < Node(i), nodes by id *)
Definition ref_leb (a b : ref) : bool :=
  match a, b with
  | REmpty, _ => true
  | RBase, REmpty => false
  | RBase, _ => true
  | RNode i, RNode j => Nat.leb i j
  | RNode _, _ => false
  end.

Definition node_eqb (x y : node) : bool :=
  N.eqb (nvar x) (nvar y) && ref_eqb (nlo x) (nlo y) && ref_eqb (nhi x) (nhi y).

Fixpoint find_idx (n : node) (t : table) (i : nat) : option nat :=
  match t with
  | [] => None
  | m :: r => if node_eqb n m then Some i else find_idx n r (S i)
  end.

Definition goc (t : table) (v : N) (l h : ref) : table * ref :=
  if ref_eqb h REmpty then (t, l)
  else
    let n := mkNode v l h in
    match find_idx n t 0 with
    | Some i => (t, RNode i)
    | None => (t ++ [n], RNode (length t))
    end.

Definition info (t : table) (r : ref) : option (option N * ref * ref) :=
  match r with
  | REmpty => Some (None, REmpty, REmpty)
  | RBase => Some (None, RBase, REmpty)
  | RNode i => match nth_error t i with
               | Some n => Some (Some (nvar n), nlo n, nhi n)
               | None => None
               end
  end.

Definition cache2 := list ((ref * ref) * ref).
Fixpoint lookup2 (c : cache2) (a b : ref) : option ref :=
  match c with
  | [] => None
  | ((x, y), r) :: rest => if ref_eqb x a && ref_eqb y b then Some r else lookup2 rest a b
  end.
Definition cache1 := list (ref * ref).
Fixpoint lookup1 (c : cache1) (a : ref) : option ref :=
  match c with
  | [] => None
  | (x, r) :: rest => if ref_eqb x a then Some r else lookup1 rest a
  end.

Definition norm (a b : ref) : ref * ref := if ref_leb a b then (a, b) else (b, a).

Notation "'do' X <- A ; B" := (match A with Some X => B | None => None end)
  (at level 200, X name, A at level 100, B at level 200).
Notation "'do' ' P <- A ; B" := (match A with Some P => B | None => None end)
  (at level 200, P pattern, A at level 100, B at level 200).

(* ---------------------------------------------------------------- union *)
Fixpoint union_f (fuel : nat) (t : table) (c : cache2) (a b : ref) : option (table * cache2 * ref) :=
  match fuel with
  | O => None
  | S f =>
    if ref_eqb a REmpty then Some (t, c, b) else
    if ref_eqb b REmpty then Some (t, c, a) else
    if ref_eqb a b then Some (t, c, a) else
    let '(a, b) := norm a b in
    match lookup2 c a b with
    | Some r => Some (t, c, r)
    | None =>
      do ia <- info t a;
      do ib <- info t b;
      let '(av, alo, ahi) := ia in
      let '(bv, blo, bhi) := ib in
      do res <-
        match av, bv with
        | Some av, Some bv =>
          if N.ltb av bv then
            do '(t1, c1, nl) <- union_f f t c alo b;
            let '(t2, r) := goc t1 av nl ahi in Some (t2, c1, r)
          else if N.ltb bv av then
            do '(t1, c1, nl) <- union_f f t c a blo;
            let '(t2, r) := goc t1 bv nl bhi in Some (t2, c1, r)
          else
            do '(t1, c1, nl) <- union_f f t c alo blo;
            do '(t2, c2, nh) <- union_f f t1 c1 ahi bhi;
            let '(t3, r) := goc t2 av nl nh in Some (t3, c2, r)
        | Some av, None =>
          do '(t1, c1, nl) <- union_f f t c alo b;
          let '(t2, r) := goc t1 av nl ahi in Some (t2, c1, r)
        | None, Some bv =>
          do '(t1, c1, nl) <- union_f f t c a blo;
          let '(t2, r) := goc t1 bv nl bhi in Some (t2, c1, r)
        | None, None => None (* unreachable!() *)
        end;
      let '(t', c', r) := res in
      Some (t', ((a, b), r) :: c', r)
    end
  end.

(* --------------------------------------------------------- intersection *)
Fixpoint inter_f (fuel : nat) (t : table) (c : cache2) (a b : ref) : option (table * cache2 * ref) :=
  match fuel with
  | O => None
  | S f =>
    if ref_eqb a REmpty || ref_eqb b REmpty then Some (t, c, REmpty) else
    if ref_eqb a b then Some (t, c, a) else
    let '(a, b) := norm a b in
    match lookup2 c a b with
    | Some r => Some (t, c, r)
    | None =>
      do ia <- info t a;
      do ib <- info t b;
      let '(av, alo, ahi) := ia in
      let '(bv, blo, bhi) := ib in
      do res <-
        match av, bv with
        | Some av, Some bv =>
          if N.ltb av bv then inter_f f t c alo b
          else if N.ltb bv av then inter_f f t c a blo
          else
            do '(t1, c1, nl) <- inter_f f t c alo blo;
            do '(t2, c2, nh) <- inter_f f t1 c1 ahi bhi;
            let '(t3, r) := goc t2 av nl nh in Some (t3, c2, r)
        | Some _, None =>
          if ref_eqb b RBase then inter_f f t c alo RBase else Some (t, c, REmpty)
        | None, Some _ =>
          if ref_eqb a RBase then inter_f f t c RBase blo else Some (t, c, REmpty)
        | None, None =>
          if ref_eqb a RBase && ref_eqb b RBase then Some (t, c, RBase) else Some (t, c, REmpty)
        end;
      let '(t', c', r) := res in
      Some (t', ((a, b), r) :: c', r)
    end
  end.

(* ----------------------------------------------------------- difference *)
(* arena.rs difference_refs *)
Fixpoint diff_f (fuel : nat) (t : table) (c : cache2) (a b : ref) : option (table * cache2 * ref) :=
  match fuel with
  | O => None
  | S f =>
    if ref_eqb a REmpty then Some (t, c, REmpty) else
    if ref_eqb b REmpty then Some (t, c, a) else
    if ref_eqb a b then Some (t, c, REmpty) else
    match lookup2 c a b with
    | Some r => Some (t, c, r)
    | None =>
      do ia <- info t a;
      do ib <- info t b;
      let '(av, alo, ahi) := ia in
      let '(bv, blo, bhi) := ib in
      do res <-
        match av, bv with
        | Some av, Some bv =>
          if N.ltb av bv then
            do '(t1, c1, nl) <- diff_f f t c alo b;
            let nh := ahi in
            let '(t2, r) := goc t1 av nl nh in Some (t2, c1, r)
          else if N.ltb bv av then diff_f f t c a blo
          else
            do '(t1, c1, nl) <- diff_f f t c alo blo;
            do '(t2, c2, nh) <- diff_f f t1 c1 ahi bhi;
            let '(t3, r) := goc t2 av nl nh in Some (t3, c2, r)
        | Some av, None =>
          if ref_eqb b RBase then
            do '(t1, c1, nl) <- diff_f f t c alo RBase;
            let '(t2, r) := goc t1 av nl ahi in Some (t2, c1, r)
          else Some (t, c, a)
        | None, Some _ =>
          if ref_eqb a RBase then diff_f f t c RBase blo else Some (t, c, REmpty)
        | None, None =>
          if ref_eqb a RBase && ref_eqb b RBase then Some (t, c, REmpty) else Some (t, c, a)
        end;
      let '(t', c', r) := res in
      Some (t', ((a, b), r) :: c', r)
    end
  end.

(* ------------------------------------------------ product_with_optional *)
(* uc = the union cache used by the nested union_refs call: the arena's
   persistent one (arena.rs) or a fresh one per call (ops/common.rs union_refs). *)
Fixpoint pwo_f (fuel : nat) (persistent : bool) (t : table) (uc : cache2) (pc : cache1) (nd : ref) (v : N)
  : option (table * cache2 * cache1 * ref) :=
  match fuel with
  | O => None
  | S f =>
    match nd with
    | REmpty => Some (t, uc, pc, REmpty)
    | RBase => let '(t1, r) := goc t v RBase RBase in Some (t1, uc, pc, r)
    | RNode i =>
      match lookup1 pc nd with
      | Some r => Some (t, uc, pc, r)
      | None =>
        do n <- nth_error t i;
        do res <-
          (if N.ltb (nvar n) v then
             do '(t1, uc1, pc1, nl) <- pwo_f f persistent t uc pc (nlo n) v;
             do '(t2, uc2, pc2, nh) <- pwo_f f persistent t1 uc1 pc1 (nhi n) v;
             let '(t3, r) := goc t2 (nvar n) nl nh in Some (t3, uc2, pc2, r)
           else if N.eqb (nvar n) v then
             do '(t1, uc1, nh) <- union_f (S (length t + length t)) t (if persistent then uc else []) (nlo n) (nhi n);
             let '(t2, r) := goc t1 v (nlo n) nh in Some (t2, (if persistent then uc1 else uc), pc, r)
           else
             let '(t1, r) := goc t v nd nd in Some (t1, uc, pc, r));
        let '(t', uc', pc', r) := res in
        Some (t', uc', (nd, r) :: pc', r)
      end
    end
  end.

(* ------------------------------------------------- standalone variants *)
(* ops/intersection.rs intersection_rec *)
Fixpoint sinter_f (fuel : nat) (t : table) (c : cache2) (a b : ref) : option (table * cache2 * ref) :=
  match fuel with
  | O => None
  | S f =>
    if ref_eqb a REmpty || ref_eqb b REmpty then Some (t, c, REmpty) else
    if ref_eqb a b then Some (t, c, a) else
    let '(a, b) := norm a b in
    match lookup2 c a b with
    | Some r => Some (t, c, r)
    | None =>
      do ia <- info t a;
      do ib <- info t b;
      let '(av, alo, ahi) := ia in
      let '(bv, blo, bhi) := ib in
      do res <-
        match av, bv with
        | Some av, Some bv =>
          if N.ltb av bv then sinter_f f t c alo b
          else if N.ltb bv av then sinter_f f t c a blo
          else
            do '(t1, c1, nl) <- sinter_f f t c alo blo;
            do '(t2, c2, nh) <- sinter_f f t1 c1 ahi bhi;
            let '(t3, r) := goc t2 av nl nh in Some (t3, c2, r)
        | Some _, None => sinter_f f t c alo b
        | None, Some _ => sinter_f f t c a blo
        | None, None => None
        end;
      let '(t', c', r) := res in
      Some (t', ((a, b), r) :: c', r)
    end
  end.

(* ops/difference.rs difference_rec *)
Fixpoint sdiff_f (fuel : nat) (t : table) (c : cache2) (a b : ref) : option (table * cache2 * ref) :=
  match fuel with
  | O => None
  | S f =>
    if ref_eqb a REmpty then Some (t, c, REmpty) else
    if ref_eqb b REmpty then Some (t, c, a) else
    if ref_eqb a b then Some (t, c, REmpty) else
    match lookup2 c a b with
    | Some r => Some (t, c, r)
    | None =>
      do ia <- info t a;
      do ib <- info t b;
      let '(av, alo, ahi) := ia in
      let '(bv, blo, bhi) := ib in
      do res <-
        match av, bv with
        | Some av, Some bv =>
          if N.ltb av bv then
            do '(t1, c1, nl) <- sdiff_f f t c alo b;
            let '(t2, r) := goc t1 av nl ahi in Some (t2, c1, r)
          else if N.ltb bv av then sdiff_f f t c a blo
          else
            do '(t1, c1, nl) <- sdiff_f f t c alo blo;
            do '(t2, c2, nh) <- sdiff_f f t1 c1 ahi bhi;
            let '(t3, r) := goc t2 av nl nh in Some (t3, c2, r)
        | Some av, None =>
          do '(t1, c1, nl) <- sdiff_f f t c alo b;
          let '(t2, r) := goc t1 av nl ahi in Some (t2, c1, r)
        | None, Some _ => sdiff_f f t c a blo
        | None, None => None
        end;
      let '(t', c', r) := res in
      Some (t', ((a, b), r) :: c', r)
    end
  end.

(* ops/product.rs product_rec; each nested union_refs call has a fresh cache *)
Definition union_fresh (t : table) (a b : ref) : option (table * ref) :=
  do '(t1, _, r) <- union_f (S (length t + length t)) t [] a b; Some (t1, r).

Fixpoint product_f (fuel : nat) (t : table) (c : cache2) (a b : ref) : option (table * cache2 * ref) :=
  match fuel with
  | O => None
  | S f =>
    if ref_eqb a REmpty || ref_eqb b REmpty then Some (t, c, REmpty) else
    if ref_eqb a RBase then Some (t, c, b) else
    if ref_eqb b RBase then Some (t, c, a) else
    let '(a, b) := norm a b in
    match lookup2 c a b with
    | Some r => Some (t, c, r)
    | None =>
      do ia <- info t a;
      do ib <- info t b;
      let '(av, alo, ahi) := ia in
      let '(bv, blo, bhi) := ib in
      do res <-
        match av, bv with
        | Some av, Some bv =>
          if N.ltb av bv then
            do '(t1, c1, nl) <- product_f f t c alo b;
            do '(t2, c2, nh) <- product_f f t1 c1 ahi b;
            let '(t3, r) := goc t2 av nl nh in Some (t3, c2, r)
          else if N.ltb bv av then
            do '(t1, c1, nl) <- product_f f t c a blo;
            do '(t2, c2, nh) <- product_f f t1 c1 a bhi;
            let '(t3, r) := goc t2 bv nl nh in Some (t3, c2, r)
          else
            do '(t1, c1, lolo) <- product_f f t c alo blo;
            do '(t2, c2, hilo) <- product_f f t1 c1 ahi blo;
            do '(t3, c3, lohi) <- product_f f t2 c2 alo bhi;
            do '(t4, c4, hihi) <- product_f f t3 c3 ahi bhi;
            do '(t5, u1) <- union_fresh t4 hilo lohi;
            do '(t6, nh) <- union_fresh t5 u1 hihi;
            let '(t7, r) := goc t6 av lolo nh in Some (t7, c4, r)
        | Some _, None => Some (t, c, a)
        | None, Some _ => Some (t, c, b)
        | None, None => None
        end;
      let '(t', c', r) := res in
      Some (t', ((a, b), r) :: c', r)
    end
  end.

(* --------------------------------------------------------------- remap *)
Definition idmap := list (nat * ref).
Fixpoint lookup_id (m : idmap) (i : nat) : option ref :=
  match m with
  | [] => None
  | (j, r) :: rest => if Nat.eqb j i then Some r else lookup_id rest i
  end.

Fixpoint remap_f (fuel : nat) (src : table) (t : table) (m : idmap) (r : ref) : option (table * idmap * ref) :=
  match fuel with
  | O => None
  | S f =>
    match r with
    | REmpty => Some (t, m, REmpty)
    | RBase => Some (t, m, RBase)
    | RNode i =>
      match lookup_id m i with
      | Some r' => Some (t, m, r')
      | None =>
        do n <- nth_error src i;
        do '(t1, m1, nl) <- remap_f f src t m (nlo n);
        do '(t2, m2, nh) <- remap_f f src t1 m1 (nhi n);
        let '(t3, r') := goc t2 (nvar n) nl nh in
        Some (t3, (i, r') :: m2, r')
      end
    end
  end.

(* ------------------------------------------------------------- queries *)
Fixpoint count_f (fuel : nat) (t : table) (r : ref) : option N :=
  match fuel with
  | O => None
  | S f =>
    match r with
    | REmpty => Some 0%N
    | RBase => Some 1%N
    | RNode i =>
      do n <- nth_error t i;
      do cl <- count_f f t (nlo n);
      do ch <- count_f f t (nhi n);
      Some (cl + ch)%N
    end
  end.

(* contains_sorted: the loop walks one node per iteration *)
Fixpoint contains_f (fuel : nat) (t : table) (r : ref) (s : list N) : option bool :=
  match fuel with
  | O => None
  | S f =>
    match r with
    | REmpty => Some false
    | RBase => Some (match s with [] => true | _ => false end)
    | RNode i =>
      do n <- nth_error t i;
      match s with
      | x :: s' =>
        if N.eqb (nvar n) x then contains_f f t (nhi n) s'
        else if N.ltb x (nvar n) then Some false
        else contains_f f t (nlo n) s
      | [] => contains_f f t (nlo n) s
      end
    end
  end.

(* lo members first, then hi members with the variable in front: the order in
   which ArenaIterator / ZddIterator emit *)
Fixpoint iter_f (fuel : nat) (t : table) (r : ref) : option (list (list N)) :=
  match fuel with
  | O => None
  | S f =>
    match r with
    | REmpty => Some []
    | RBase => Some [[]]
    | RNode i =>
      do n <- nth_error t i;
      do l <- iter_f f t (nlo n);
      do h <- iter_f f t (nhi n);
      Some (l ++ map (cons (nvar n)) h)
    end
  end.

(* sort_unstable + dedup on the element slice handed to from_set / contains *)
Fixpoint ins (x : N) (l : list N) : list N :=
  match l with
  | [] => [x]
  | y :: r => if N.ltb x y then x :: l else if N.eqb x y then l else y :: ins x r
  end.
Definition norm_set (l : list N) : list N := fold_right ins [] l.

(* from_set: chain from the highest variable down *)
Definition from_set_t (t : table) (elems : list N) : table * ref :=
  fold_left (fun '(t, cur) v => goc t v REmpty cur) (rev (norm_set elems)) (t, RBase).

(* ----------------------------------------------------------- the arena *)
Record arena := mkArena {
  atable : table;
  aunion : cache2;
  ainter : cache2;
  adiff : cache2;
}.
Definition arena0 : arena := mkArena [] [] [] [].
Definition fuel_of (t : table) : nat := S (S (length t + length t)).

Definition a_union (ar : arena) (a b : ref) : option (arena * ref) :=
  do '(t, c, r) <- union_f (fuel_of (atable ar)) (atable ar) (aunion ar) a b;
  Some (mkArena t c (ainter ar) (adiff ar), r).
Definition a_inter (ar : arena) (a b : ref) : option (arena * ref) :=
  do '(t, c, r) <- inter_f (fuel_of (atable ar)) (atable ar) (ainter ar) a b;
  Some (mkArena t (aunion ar) c (adiff ar), r).
Definition a_diff (ar : arena) (a b : ref) : option (arena * ref) :=
  do '(t, c, r) <- diff_f (fuel_of (atable ar)) (atable ar) (adiff ar) a b;
  Some (mkArena t (aunion ar) (ainter ar) c, r).
Definition a_pwo (ar : arena) (a : ref) (v : N) : option (arena * ref) :=
  do '(t, uc, _, r) <- pwo_f (fuel_of (atable ar)) true (atable ar) (aunion ar) [] a v;
  Some (mkArena t uc (ainter ar) (adiff ar), r).
Definition a_from_set (ar : arena) (l : list N) : arena * ref :=
  let '(t, r) := from_set_t (atable ar) l in (mkArena t (aunion ar) (ainter ar) (adiff ar), r).
Definition a_single (ar : arena) (v : N) : arena * ref :=
  let '(t, r) := goc (atable ar) v REmpty RBase in (mkArena t (aunion ar) (ainter ar) (adiff ar), r).

(* gc: remap every live root, in order, into a fresh table; clear all caches *)
Fixpoint remap_all (src : table) (t : table) (m : idmap) (live : list ref) : option (table * list ref) :=
  match live with
  | [] => Some (t, [])
  | r :: rest =>
    do '(t1, m1, r') <- remap_f (S (length src)) src t m r;
    do '(t2, rs) <- remap_all src t1 m1 rest;
    Some (t2, r' :: rs)
  end.
Definition a_gc (ar : arena) (live : list ref) : option (arena * list ref) :=
  do '(t, rs) <- remap_all (atable ar) [] [] live;
  Some (mkArena t [] [] [], rs).

(* --------------------------------------------------- standalone Zdd API *)
Record zdd := mkZdd { zroot : ref; ztable : table }.
Definition z_binop (op : nat -> table -> cache2 -> ref -> ref -> option (table * cache2 * ref))
           (x y : zdd) : option zdd :=
  do '(t1, _, yr) <- remap_f (S (length (ztable y))) (ztable y) (ztable x) [] (zroot y);
  do '(t2, _, r) <- op (fuel_of t1) t1 [] (zroot x) yr;
  Some (mkZdd r t2).
Definition z_union := z_binop union_f.
Definition z_inter := z_binop sinter_f.
Definition z_diff := z_binop sdiff_f.
Definition z_product := z_binop product_f.
Definition z_pwo (x : zdd) (v : N) : option zdd :=
  do '(t, _, _, r) <- pwo_f (fuel_of (ztable x)) false (ztable x) [] [] (zroot x) v;
  Some (mkZdd r t).
Definition z_from_set (l : list N) : zdd := let '(t, r) := from_set_t [] l in mkZdd r t.
Definition z_single (v : N) : zdd := let '(t, r) := goc [] v REmpty RBase in mkZdd r t.
