(* product_f (ops/product.rs product_rec): the family { x ∪ y | x ∈ A, y ∈ B }.
   Sets are strictly ascending lists; x ∪ y is [merge x y]. *)
From Coq Require Import Setoid Morphisms.
From VP Require Import Base.Tactics Zdd.Model Zdd.ProofsBase Zdd.ProofsOps Zdd.ProofsUnion.

Ltac zauto := eauto using ext_valid, ext_vgt, wf_lo_valid, wf_hi_valid, wf_lo_vgt, wf_hi_vgt, ext_refl, ext_trans.

(* ---- union of two ascending lists ---- *)
Fixpoint merge (a : list N) : list N -> list N :=
  fix mb (b : list N) : list N :=
    match a, b with
    | [], _ => b
    | _, [] => a
    | x :: a', y :: b' =>
      if N.ltb x y then x :: merge a' b
      else if N.ltb y x then y :: mb b'
      else x :: merge a' b'
    end.

Lemma merge_nil_l b : merge [] b = b.
Proof. destruct b; reflexivity. Qed.
Lemma merge_nil_r a : merge a [] = a.
Proof. destruct a; reflexivity. Qed.
Lemma merge_cons_lt x a b : Forall (fun y => (x < y)%N) b -> merge (x :: a) b = x :: merge a b.
Proof.
  destruct b as [|y b]; intros F; [cbn; rewrite merge_nil_r; reflexivity|].
  inversion F; subst. cbn. destruct (N.ltb_spec x y); [reflexivity | lia].
Qed.
Lemma merge_cons_gt y a b : Forall (fun x => (y < x)%N) a -> merge a (y :: b) = y :: merge a b.
Proof.
  destruct a as [|x a]; intros F; [rewrite !merge_nil_l; reflexivity|].
  inversion F; subst. cbn. destruct (N.ltb_spec x y); [lia|]. destruct (N.ltb_spec y x); [reflexivity | lia].
Qed.
Lemma merge_cons_eq x a b : merge (x :: a) (x :: b) = x :: merge a b.
Proof. cbn. rewrite N.ltb_irrefl. reflexivity. Qed.
Lemma merge_comm a : forall b, merge a b = merge b a.
Proof.
  induction a as [|x a IHa]; intros b; [rewrite merge_nil_l, merge_nil_r; reflexivity|].
  induction b as [|y b IHb]; [reflexivity|].
  cbn. destruct (N.ltb_spec x y), (N.ltb_spec y x); try lia.
  - f_equal. apply IHa.
  - f_equal. exact IHb.
  - assert (x = y) by lia. subst. f_equal. apply IHa.
Qed.

Definition PROD (A B : list N -> Prop) (s : list N) : Prop := exists x y, A x /\ B y /\ s = merge x y.

Lemma PROD_proper A A' B B' s : (forall x, A x <-> A' x) -> (forall x, B x <-> B' x) -> (PROD A B s <-> PROD A' B' s).
Proof.
  intros EA EB. unfold PROD. split; intros (x & y & Hx & Hy & E); exists x, y; (split; [apply EA; exact Hx | split; [apply EB; exact Hy | exact E]]).
Qed.
Lemma PROD_sym A B s : PROD A B s <-> PROD B A s.
Proof. unfold PROD. split; intros (x & y & Hx & Hy & E); exists y, x; rewrite merge_comm; auto. Qed.

(* ---- the frame, at the level of families ---- *)
Definition pres_ok (t : table) (a b : ref) (t' : table) (r : ref) : Prop :=
  ext t t' /\ wf t' /\ valid t' r /\
  (forall u, vgt t u a -> vgt t u b -> vgt t' u r) /\
  (forall s, In_fam t' r s <-> PROD (In_fam t a) (In_fam t b) s).
Definition pcache_ok (t : table) (c : cache2) : Prop :=
  forall a b r, lookup2 c a b = Some r -> valid t a /\ valid t b /\ pres_ok t a b t r.

Lemma pcache_nil t : pcache_ok t [].
Proof. intros a b r H. discriminate. Qed.

Lemma pres_rebase t t' a b r : wf t -> valid t a -> valid t b -> pres_ok t a b t' r -> pres_ok t' a b t' r.
Proof.
  intros W Va Vb (E & W' & V & G & S).
  split; [apply ext_refl|]. split; [exact W'|]. split; [exact V|]. split.
  - intros u Ga Gb. apply G; eapply vgt_stable; eauto.
  - intros s. rewrite S. apply PROD_proper; intros x; symmetry; apply in_fam_ext_iff; auto.
Qed.
Lemma pres_ext t t' a b r : wf t -> wf t' -> ext t t' -> valid t a -> valid t b -> pres_ok t a b t r -> pres_ok t' a b t' r.
Proof.
  intros W W' E Va Vb (_ & _ & V & G & S).
  split; [apply ext_refl|]. split; [exact W'|]. split; [eapply ext_valid; eauto|]. split.
  - intros u Ga Gb. eapply ext_vgt; eauto. apply G; eapply vgt_stable; eauto.
  - intros s. rewrite (in_fam_ext_iff t t' r s W E V). rewrite S.
    apply PROD_proper; intros x; symmetry; apply in_fam_ext_iff; auto.
Qed.
Lemma pcache_ext t t' c : wf t -> wf t' -> ext t t' -> pcache_ok t c -> pcache_ok t' c.
Proof.
  intros W W' E C a b r H. destruct (C a b r H) as (Va & Vb & R).
  split; [eapply ext_valid; eauto|]. split; [eapply ext_valid; eauto|].
  exact (pres_ext t t' a b r W W' E Va Vb R).
Qed.
Lemma pcache_cons t c a b r : pcache_ok t c -> valid t a -> valid t b -> pres_ok t a b t r -> pcache_ok t (((a, b), r) :: c).
Proof.
  intros C Va Vb R x y z. cbn. destruct (ref_eqb a x && ref_eqb b y) eqn:E.
  - apply andb_true_iff in E. destruct E as [E1 E2]. apply ref_eqb_eq in E1, E2. subst.
    intros H. inversion H; subst. auto.
  - apply C.
Qed.
Lemma pres_sym t a b t' r : pres_ok t a b t' r -> pres_ok t b a t' r.
Proof.
  intros (E & W & V & G & S). split; [exact E|]. split; [exact W|]. split; [exact V|]. split.
  - intros u Gb Ga. apply G; assumption.
  - intros s. rewrite S. apply PROD_sym.
Qed.

(* a fresh-cache union on a later table, stated for use inside the product proof *)
Lemma union_fresh_ok t a b t' r : wf t -> valid t a -> valid t b -> union_fresh t a b = Some (t', r) ->
  ext t t' /\ wf t' /\ valid t' r /\ (forall u, vgt t u a -> vgt t u b -> vgt t' u r) /\
  (forall s, In_fam t' r s <-> In_fam t a s \/ In_fam t b s).
Proof.
  intros W Va Vb H. unfold union_fresh in H.
  destruct (union_f _ t [] a b) as [[[t1 c1] r1]|] eqn:U; [|discriminate]. inversion H; subst.
  destruct (union_ok _ _ _ _ _ _ _ _ W (cache_ok_nil USPEC t) Va Vb U) as [(E & W' & V & G & S) _].
  split; [exact E|]. split; [exact W'|]. split; [exact V|]. split; [exact G|]. exact S.
Qed.
Lemma union_fresh_total t a b : wf t -> valid t a -> valid t b -> exists out, union_fresh t a b = Some out.
Proof.
  intros W Va Vb. unfold union_fresh.
  assert (L : rk a + rk b < S (length t + length t)) by (apply rk_valid in Va, Vb; lia).
  destruct (union_total _ _ _ _ _ W (cache_ok_nil USPEC t) Va Vb L) as [[[t1 c1] r1] U]. rewrite U. eauto.
Qed.

Lemma product_ok fuel : forall t c a b t' c' r,
  wf t -> pcache_ok t c -> valid t a -> valid t b ->
  product_f fuel t c a b = Some (t', c', r) ->
  pres_ok t a b t' r /\ pcache_ok t' c'.
Proof.
  induction fuel as [|f IH]; intros t c a b t' c' r W Cc Va Vb H; [discriminate|].
  cbn [product_f] in H.
  destruct (ref_eqb a REmpty || ref_eqb b REmpty) eqn:E0.
  { inversion H; subst. split; [|exact Cc].
    split; [apply ext_refl|]. split; [exact W|]. split; [exact I|]. split; [intros; exact I|].
    intros s. split; [intros X; inversion X|]. intros (x & y & Hx & Hy & _).
    apply orb_true_iff in E0. destruct E0 as [E|E]; apply ref_eqb_eq in E; subst; [inversion Hx | inversion Hy]. }
  apply orb_false_iff in E0. destruct E0 as [Ea Eb].
  destruct (ref_eqb a RBase) eqn:Eab.
  { apply ref_eqb_eq in Eab. subst a. inversion H; subst. split; [|exact Cc].
    split; [apply ext_refl|]. split; [exact W|]. split; [exact Vb|]. split; [auto|].
    intros s. split.
    - intros X. exists [], s. split; [constructor|]. split; [exact X | rewrite merge_nil_l; reflexivity].
    - intros (x & y & Hx & Hy & ->). apply in_fam_base in Hx. subst. rewrite merge_nil_l. exact Hy. }
  destruct (ref_eqb b RBase) eqn:Ebb.
  { apply ref_eqb_eq in Ebb. subst b. inversion H; subst. split; [|exact Cc].
    split; [apply ext_refl|]. split; [exact W|]. split; [exact Va|]. split; [auto|].
    intros s. split.
    - intros X. exists s, []. split; [exact X|]. split; [constructor | rewrite merge_nil_r; reflexivity].
    - intros (x & y & Hx & Hy & ->). apply in_fam_base in Hy. subst. rewrite merge_nil_r. exact Hx. }
  apply ref_eqb_neq in Ea, Eb, Eab, Ebb.
  destruct (norm a b) as [a' b'] eqn:Hn.
  assert (Goal' : pres_ok t a' b' t' r /\ pcache_ok t' c' -> pres_ok t a b t' r /\ pcache_ok t' c').
  { destruct (norm_cases _ _ _ _ Hn) as [[-> ->]|[-> ->]]; [auto|].
    intros [X Y]. split; [apply pres_sym; exact X | exact Y]. }
  apply Goal'. clear Goal'.
  assert (Va' : valid t a') by (destruct (norm_cases _ _ _ _ Hn) as [[-> ->]|[-> ->]]; assumption).
  assert (Vb' : valid t b') by (destruct (norm_cases _ _ _ _ Hn) as [[-> ->]|[-> ->]]; assumption).
  assert (Na : exists i, a' = RNode i).
  { destruct (norm_cases _ _ _ _ Hn) as [[-> ->]|[-> ->]]; [destruct a | destruct b]; try congruence; eauto. }
  assert (Nb : exists j, b' = RNode j).
  { destruct (norm_cases _ _ _ _ Hn) as [[-> ->]|[-> ->]]; [destruct b | destruct a]; try congruence; eauto. }
  destruct Na as [i ->]. destruct Nb as [j ->].
  clear Hn Va Vb Ea Eb Eab Ebb a b.
  destruct (lookup2 c (RNode i) (RNode j)) as [rc|] eqn:Hl.
  { inversion H; subst. destruct (Cc _ _ _ Hl) as (_ & _ & X). split; [exact X | exact Cc]. }
  destruct (info t (RNode i)) as [[[av alo] ahi]|] eqn:Ia; [|discriminate].
  destruct (info t (RNode j)) as [[[bv blo] bhi]|] eqn:Ib; [|discriminate].
  match type of H with
  | match ?body with Some _ => _ | None => _ end = _ => destruct body as [[[tr cr] rr]|] eqn:Hb; [|discriminate]
  end.
  inversion H; subst t' c' r. clear H.
  assert (Core : pres_ok t (RNode i) (RNode j) tr rr /\ pcache_ok tr cr).
  2:{ destruct Core as [X Y]. split; [exact X|]. pose proof X as (E & _).
      apply pcache_cons; [exact Y | eapply ext_valid; eauto | eapply ext_valid; eauto | eapply pres_rebase; eauto]. }
  apply info_node in Ia. destruct Ia as (na & Hna & Eq). inversion Eq; subst av alo ahi. clear Eq.
  apply info_node in Ib. destruct Ib as (nb & Hnb & Eq). inversion Eq; subst bv blo bhi. clear Eq.
  assert (InA : forall s, In_fam t (RNode i) s <-> In_fam t (nlo na) s \/ exists s', s = nvar na :: s' /\ In_fam t (nhi na) s')
    by (intros s; apply in_fam_node; exact Hna).
  assert (InB : forall s, In_fam t (RNode j) s <-> In_fam t (nlo nb) s \/ exists s', s = nvar nb :: s' /\ In_fam t (nhi nb) s')
    by (intros s; apply in_fam_node; exact Hnb).
  destruct (N.ltb (nvar na) (nvar nb)) eqn:L1; [|destruct (N.ltb (nvar nb) (nvar na)) eqn:L2].
  - (* av < bv *)
    destruct (product_f f t c (nlo na) (RNode j)) as [[[t1 c1] nl]|] eqn:H1; [|discriminate].
    destruct (product_f f t1 c1 (nhi na) (RNode j)) as [[[t2 c2] nh]|] eqn:H2; [|discriminate].
    destruct (goc t2 (nvar na) nl nh) as [t3 r3] eqn:Hg. inversion Hb; subst tr cr rr. clear Hb.
    destruct (IH _ _ _ _ _ _ _ W Cc (wf_lo_valid _ _ _ W Hna) Vb' H1) as [(E1 & W1 & V1 & G1 & S1) C1].
    assert (Vh1 : valid t1 (nhi na)) by zauto. assert (Vb1 : valid t1 (RNode j)) by zauto.
    destruct (IH _ _ _ _ _ _ _ W1 C1 Vh1 Vb1 H2) as [(E2 & W2 & V2 & G2 & S2) C2].
    assert (Gb : vgt t (nvar na) (RNode j)) by (apply (vgt_node _ _ _ _ Hnb); lia).
    assert (Gl : vgt t2 (nvar na) nl) by (eapply ext_vgt; [exact E2|]; apply G1; zauto).
    assert (Gh : vgt t2 (nvar na) nh) by (apply G2; zauto).
    assert (Vl : valid t2 nl) by zauto.
    destruct (goc_spec t2 (nvar na) nl nh t3 r3 W2 Vl V2 Gl Gh Hg) as (E3 & W3 & V3 & G3 & S3).
    split; [|exact (pcache_ext t2 t3 c2 W2 W3 E3 C2)].
    split; [zauto|]. split; [exact W3|]. split; [exact V3|]. split.
    + intros u Gu Gu'. apply (vgt_node _ _ _ _ Hna) in Gu. apply G3; [exact Gu|].
      eapply ext_vgt; [exact E2|]. apply G1; [|exact Gu']. eapply vgt_trans; [|eapply wf_lo_vgt; eauto]. lia.
    + intros s. rewrite S3. rewrite (back t1 t2 nl W1 E2 V1). rewrite S1.
      assert (S2' : forall s', In_fam t2 nh s' <-> PROD (In_fam t (nhi na)) (In_fam t (RNode j)) s').
      { intros s'. rewrite S2. apply PROD_proper; intros x; apply back; zauto. }
      unfold PROD in *. split.
      * intros [(x & y & Hx & Hy & ->)|(s' & -> & Hs')].
        -- exists x, y. split; [apply InA; left; exact Hx | auto].
        -- apply S2' in Hs'. destruct Hs' as (x & y & Hx & Hy & ->).
           exists (nvar na :: x), y. split; [apply InA; right; eauto|]. split; [exact Hy|].
           symmetry. apply merge_cons_lt. exact (members_gt t (nvar na) (RNode j) y W Gb Hy).
      * intros (x & y & Hx & Hy & ->). apply InA in Hx. destruct Hx as [Hx|(x' & -> & Hx)].
        -- left. eauto.
        -- right. exists (merge x' y). split; [apply merge_cons_lt; exact (members_gt t (nvar na) (RNode j) y W Gb Hy)|].
           apply S2'. eauto.
  - (* bv < av *)
    destruct (product_f f t c (RNode i) (nlo nb)) as [[[t1 c1] nl]|] eqn:H1; [|discriminate].
    destruct (product_f f t1 c1 (RNode i) (nhi nb)) as [[[t2 c2] nh]|] eqn:H2; [|discriminate].
    destruct (goc t2 (nvar nb) nl nh) as [t3 r3] eqn:Hg. inversion Hb; subst tr cr rr. clear Hb.
    destruct (IH _ _ _ _ _ _ _ W Cc Va' (wf_lo_valid _ _ _ W Hnb) H1) as [(E1 & W1 & V1 & G1 & S1) C1].
    assert (Vh1 : valid t1 (nhi nb)) by zauto. assert (Va1 : valid t1 (RNode i)) by zauto.
    destruct (IH _ _ _ _ _ _ _ W1 C1 Va1 Vh1 H2) as [(E2 & W2 & V2 & G2 & S2) C2].
    assert (Ga : vgt t (nvar nb) (RNode i)) by (apply (vgt_node _ _ _ _ Hna); lia).
    assert (Gl : vgt t2 (nvar nb) nl) by (eapply ext_vgt; [exact E2|]; apply G1; zauto).
    assert (Gh : vgt t2 (nvar nb) nh) by (apply G2; zauto).
    assert (Vl : valid t2 nl) by zauto.
    destruct (goc_spec t2 (nvar nb) nl nh t3 r3 W2 Vl V2 Gl Gh Hg) as (E3 & W3 & V3 & G3 & S3).
    split; [|exact (pcache_ext t2 t3 c2 W2 W3 E3 C2)].
    split; [zauto|]. split; [exact W3|]. split; [exact V3|]. split.
    + intros u Gu' Gu. apply (vgt_node _ _ _ _ Hnb) in Gu. apply G3; [exact Gu|].
      eapply ext_vgt; [exact E2|]. apply G1; [exact Gu'|]. eapply vgt_trans; [|eapply wf_lo_vgt; eauto]. lia.
    + intros s. rewrite S3. rewrite (back t1 t2 nl W1 E2 V1). rewrite S1.
      assert (S2' : forall s', In_fam t2 nh s' <-> PROD (In_fam t (RNode i)) (In_fam t (nhi nb)) s').
      { intros s'. rewrite S2. apply PROD_proper; intros x; apply back; zauto. }
      unfold PROD in *. split.
      * intros [(x & y & Hx & Hy & ->)|(s' & -> & Hs')].
        -- exists x, y. split; [exact Hx|]. split; [apply InB; left; exact Hy | reflexivity].
        -- apply S2' in Hs'. destruct Hs' as (x & y & Hx & Hy & ->).
           exists x, (nvar nb :: y). split; [exact Hx|]. split; [apply InB; right; eauto|].
           symmetry. apply merge_cons_gt. exact (members_gt t (nvar nb) (RNode i) x W Ga Hx).
      * intros (x & y & Hx & Hy & ->). apply InB in Hy. destruct Hy as [Hy|(y' & -> & Hy)].
        -- left. eauto.
        -- right. exists (merge x y'). split; [apply merge_cons_gt; exact (members_gt t (nvar nb) (RNode i) x W Ga Hx)|].
           apply S2'. eauto.
  - (* av = bv *)
    assert (Ev : nvar na = nvar nb) by lia.
    destruct (product_f f t c (nlo na) (nlo nb)) as [[[t1 c1] lolo]|] eqn:H1; [|discriminate].
    destruct (product_f f t1 c1 (nhi na) (nlo nb)) as [[[t2 c2] hilo]|] eqn:H2; [|discriminate].
    destruct (product_f f t2 c2 (nlo na) (nhi nb)) as [[[t3 c3] lohi]|] eqn:H3; [|discriminate].
    destruct (product_f f t3 c3 (nhi na) (nhi nb)) as [[[t4 c4] hihi]|] eqn:H4; [|discriminate].
    destruct (union_fresh t4 hilo lohi) as [[t5 u1]|] eqn:U1; [|discriminate].
    destruct (union_fresh t5 u1 hihi) as [[t6 nh]|] eqn:U2; [|discriminate].
    destruct (goc t6 (nvar na) lolo nh) as [t7 r7] eqn:Hg. inversion Hb; subst tr cr rr. clear Hb.
    pose proof (wf_lo_valid _ _ _ W Hna) as Vla. pose proof (wf_hi_valid _ _ _ W Hna) as Vha.
    pose proof (wf_lo_valid _ _ _ W Hnb) as Vlb. pose proof (wf_hi_valid _ _ _ W Hnb) as Vhb.
    destruct (IH _ _ _ _ _ _ _ W Cc Vla Vlb H1) as [(E1 & W1 & V1 & G1 & S1) C1].
    destruct (IH _ _ _ _ _ _ _ W1 C1 (ext_valid _ _ _ E1 Vha) (ext_valid _ _ _ E1 Vlb) H2) as [(E2 & W2 & V2 & G2 & S2) C2].
    assert (E02 : ext t t2) by zauto.
    destruct (IH _ _ _ _ _ _ _ W2 C2 (ext_valid _ _ _ E02 Vla) (ext_valid _ _ _ E02 Vhb) H3) as [(E3 & W3 & V3 & G3 & S3) C3].
    assert (E03 : ext t t3) by zauto.
    destruct (IH _ _ _ _ _ _ _ W3 C3 (ext_valid _ _ _ E03 Vha) (ext_valid _ _ _ E03 Vhb) H4) as [(E4 & W4 & V4 & G4 & S4) C4].
    assert (E04 : ext t t4) by zauto.
    assert (Vhilo4 : valid t4 hilo) by zauto. assert (Vlohi4 : valid t4 lohi) by zauto.
    destruct (union_fresh_ok _ _ _ _ _ W4 Vhilo4 Vlohi4 U1) as (E5 & W5 & V5 & G5 & S5).
    assert (Vhihi5 : valid t5 hihi) by zauto.
    destruct (union_fresh_ok _ _ _ _ _ W5 V5 Vhihi5 U2) as (E6 & W6 & V6 & G6 & S6).
    assert (E46 : ext t4 t6) by zauto. assert (E06 : ext t t6) by zauto.
    assert (E16 : ext t1 t6) by zauto. assert (E26 : ext t2 t6) by zauto. assert (E36 : ext t3 t6) by zauto.
    (* lower bounds *)
    pose proof (wf_lo_vgt _ _ _ W Hna) as Gla. pose proof (wf_hi_vgt _ _ _ W Hna) as Gha.
    pose proof (wf_lo_vgt _ _ _ W Hnb) as Glb. pose proof (wf_hi_vgt _ _ _ W Hnb) as Ghb.
    rewrite <- Ev in Glb, Ghb.
    assert (Glolo : vgt t6 (nvar na) lolo) by (eapply ext_vgt; [exact E16|]; apply G1; assumption).
    assert (Ghilo : vgt t4 (nvar na) hilo).
    { eapply ext_vgt; [eapply ext_trans; [exact E3 | exact E4]|]. apply G2; eapply ext_vgt; eauto. }
    assert (Glohi : vgt t4 (nvar na) lohi).
    { eapply ext_vgt; [exact E4|]. apply G3; eapply ext_vgt; eauto. }
    assert (Ghihi : vgt t5 (nvar na) hihi).
    { eapply ext_vgt; [exact E5|]. apply G4; eapply ext_vgt; eauto. }
    assert (Gnh : vgt t6 (nvar na) nh) by (apply G6; [apply G5; assumption | exact Ghihi]).
    assert (Vlolo6 : valid t6 lolo) by zauto.
    destruct (goc_spec t6 (nvar na) lolo nh t7 r7 W6 Vlolo6 V6 Glolo Gnh Hg) as (E7 & W7 & V7 & G7 & S7).
    split; [|exact (pcache_ext t4 t7 c4 W4 W7 (ext_trans _ _ _ E46 E7) C4)].
    split; [zauto|]. split; [exact W7|]. split; [exact V7|]. split.
    + intros u Gu Gu'. apply (vgt_node _ _ _ _ Hna) in Gu. apply G7; [exact Gu|].
      eapply ext_vgt; [exact E16|]. apply G1; (eapply vgt_trans; [|eassumption]; lia).
    + (* semantics, everything transported to table t *)
      assert (Tlolo : forall s, In_fam t6 lolo s <-> PROD (In_fam t (nlo na)) (In_fam t (nlo nb)) s).
      { intros s. rewrite (back t1 t6 lolo W1 E16 V1). apply S1. }
      assert (Thilo : forall s, In_fam t4 hilo s <-> PROD (In_fam t (nhi na)) (In_fam t (nlo nb)) s).
      { intros s. rewrite (back t2 t4 hilo W2 (ext_trans _ _ _ E3 E4) V2). rewrite S2.
        apply PROD_proper; intros x; apply back; auto. }
      assert (Tlohi : forall s, In_fam t4 lohi s <-> PROD (In_fam t (nlo na)) (In_fam t (nhi nb)) s).
      { intros s. rewrite (back t3 t4 lohi W3 E4 V3). rewrite S3.
        apply PROD_proper; intros x; apply back; auto. }
      assert (Thihi : forall s, In_fam t5 hihi s <-> PROD (In_fam t (nhi na)) (In_fam t (nhi nb)) s).
      { intros s. rewrite (back t4 t5 hihi W4 E5 V4). rewrite S4.
        apply PROD_proper; intros x; apply back; auto. }
      assert (Tnh : forall s, In_fam t6 nh s <->
                PROD (In_fam t (nhi na)) (In_fam t (nlo nb)) s \/ PROD (In_fam t (nlo na)) (In_fam t (nhi nb)) s \/
                PROD (In_fam t (nhi na)) (In_fam t (nhi nb)) s).
      { intros s. rewrite S6, S5, Thilo, Tlohi, Thihi. tauto. }
      intros s. rewrite S7, Tlolo. setoid_rewrite Tnh. unfold PROD. split.
      * intros [(x & y & Hx & Hy & ->)|(s' & -> & [(x & y & Hx & Hy & ->)|[(x & y & Hx & Hy & ->)|(x & y & Hx & Hy & ->)]])].
        -- exists x, y. split; [apply InA; left; exact Hx|]. split; [apply InB; left; exact Hy | reflexivity].
        -- exists (nvar na :: x), y. split; [apply InA; right; eauto|]. split; [apply InB; left; exact Hy|].
           symmetry. apply merge_cons_lt. exact (members_gt t (nvar na) (nlo nb) y W Glb Hy).
        -- exists x, (nvar nb :: y). split; [apply InA; left; exact Hx|]. split; [apply InB; right; eauto|].
           rewrite Ev. symmetry. apply merge_cons_gt. rewrite <- Ev. exact (members_gt t (nvar na) (nlo na) x W Gla Hx).
        -- exists (nvar na :: x), (nvar nb :: y). split; [apply InA; right; eauto|]. split; [apply InB; right; eauto|].
           rewrite <- Ev. symmetry. apply merge_cons_eq.
      * intros (x & y & Hx & Hy & ->). apply InA in Hx. apply InB in Hy.
        destruct Hx as [Hx|(x' & -> & Hx)]; destruct Hy as [Hy|(y' & -> & Hy)].
        -- left. eauto.
        -- right. exists (merge x y'). split; [rewrite <- Ev; apply merge_cons_gt; exact (members_gt t (nvar na) (nlo na) x W Gla Hx)|]. right. left. eauto.
        -- right. exists (merge x' y). split; [apply merge_cons_lt; exact (members_gt t (nvar na) (nlo nb) y W Glb Hy)|]. left. eauto.
        -- right. exists (merge x' y'). split; [rewrite <- Ev; apply merge_cons_eq|]. right. right. eauto.
Qed.
