From Coq Require Import Permutation.
From VP Require Import Base.Tactics Simulate.Gen_Stateless Simulate.Model.

Section Sim.
  Variable event out : Type.
  Variable key_of : event -> N.
  Variable pipeline : list event -> list out.

  Notation chunks := (chunks event).
  Notation bucket := (bucket event key_of).

  (* ---- round-robin chunks ---- *)
  Lemma chunks_concat : forall fuel size es,
    0 < size -> length es <= fuel -> concat (chunks fuel size es) = es.
  Proof.
    induction fuel as [|f IH]; intros size es Hs Hl.
    - destruct es; [reflexivity|cbn in Hl; lia].
    - destruct es as [|e es]; [reflexivity|].
      cbn [Model.chunks concat]. rewrite IH; [apply firstn_skipn|assumption|].
      rewrite skipn_length. cbn [length] in *. lia.
  Qed.

  Lemma div_ceil_pos : forall a b, 0 < a -> 0 < b -> 0 < div_ceil a b.
  Proof.
    intros a b Ha Hb. unfold div_ceil. apply Nat.div_str_pos. lia.
  Qed.

  Lemma flat_map_concat_eq : forall (f : event -> list out) (ls : list (list event)),
    flat_map (fun c => flat_map f c) ls = flat_map f (concat ls).
  Proof.
    intros f ls. induction ls as [|c ls IH]; [reflexivity|].
    cbn [flat_map concat]. rewrite flat_map_app, IH. reflexivity.
  Qed.

  Lemma stateless_split : forall (f : event -> list out) n es,
    (forall l, pipeline l = flat_map f l) -> 0 < n ->
    multi_stateless event out pipeline n es = pipeline es.
  Proof.
    intros f n es Hf Hn. unfold multi_stateless.
    destruct es as [|e es]; [cbn; rewrite Hf; reflexivity|].
    rewrite (flat_map_ext _ (fun c => flat_map f c)) by (intros; apply Hf).
    rewrite flat_map_concat_eq, Hf.
    rewrite chunks_concat; [reflexivity| |lia].
    apply div_ceil_pos; [cbn; lia|assumption].
  Qed.

  (* ---- hash partitioning ---- *)
  Lemma filter_key_bucket : forall (b : N -> nat) w k es,
    filter (fun e => (key_of e =? k)%N) (bucket b w es) =
    if b k =? w then filter (fun e => (key_of e =? k)%N) es else [].
  Proof.
    intros b w k es. unfold Model.bucket. induction es as [|e es IH].
    - destruct (b k =? w); reflexivity.
    - cbn [filter]. destruct (N.eqb_spec (key_of e) k) as [Hk|Hk].
      + subst k. destruct (b (key_of e) =? w) eqn:Hb; cbn [filter].
        * rewrite N.eqb_refl. try rewrite Hb in IH. rewrite IH. reflexivity.
        * try rewrite Hb in IH. exact IH.
      + destruct (b (key_of e) =? w); cbn [filter].
        * destruct (N.eqb_spec (key_of e) k); [contradiction|]. exact IH.
        * exact IH.
  Qed.

  Lemma flat_map_swap : forall {A B C} (X : A -> B -> list C) (la : list A) (lb : list B),
    Permutation (flat_map (fun a => flat_map (fun b => X a b) lb) la)
                (flat_map (fun b => flat_map (fun a => X a b) la) lb).
  Proof.
    intros A B C X la. induction la as [|a la IH]; intros lb.
    - cbn. induction lb as [|b lb IHb]; [constructor|]. cbn. exact IHb.
    - cbn [flat_map]. eapply Permutation_trans; [apply Permutation_app_head; apply IH|].
      clear IH. induction lb as [|b lb IHb]; [constructor|].
      cbn [flat_map]. rewrite <- !app_assoc.
      apply Permutation_app_head.
      eapply Permutation_trans; [|apply Permutation_app_head; exact IHb].
      rewrite !app_assoc. apply Permutation_app_tail. apply Permutation_app_comm.
  Qed.

  Lemma one_hit : forall (P : list out) v n, v < n ->
    flat_map (fun w => if v =? w then P else []) (seq 0 n) = P.
  Proof.
    intros P v n Hv.
    assert (G : forall len start, start <= v < start + len ->
              flat_map (fun w => if v =? w then P else []) (seq start len) = P).
    { induction len as [|len IH]; intros start H; [lia|].
      cbn [seq flat_map]. destruct (Nat.eqb_spec v start) as [E|E].
      - subst. assert (Z : flat_map (fun w => if start =? w then P else []) (seq (S start) len) = []).
        { clear. generalize (S start) (Nat.lt_succ_diag_r start). intros s Hs. revert s Hs.
          induction len as [|len IH]; intros s Hs; [reflexivity|]. cbn [seq flat_map].
          destruct (Nat.eqb_spec start s); [lia|]. cbn. apply IH. lia. }
        rewrite Z. apply app_nil_r.
      - cbn [app]. apply IH. lia. }
    apply G. lia.
  Qed.

  Lemma partitioned_split : forall (b : N -> nat) n es K,
    pipeline [] = [] ->
    (forall l K', NoDup K' -> (forall e, In e l -> In (key_of e) K') ->
       Permutation (pipeline l) (flat_map (fun k => pipeline (filter (fun e => (key_of e =? k)%N) l)) K')) ->
    NoDup K -> (forall e, In e es -> In (key_of e) K) ->
    (forall k, b k < n) ->
    Permutation (multi_partitioned event out key_of pipeline b n es) (pipeline es).
  Proof.
    intros b n es K Hnil Hdec HK Hcov Hb. unfold multi_partitioned.
    (* each bucket decomposes over the same key universe *)
    eapply Permutation_trans.
    { instantiate (1 := flat_map (fun w => flat_map (fun k => pipeline (filter (fun e => (key_of e =? k)%N) (bucket b w es))) K) (seq 0 n)).
      induction (seq 0 n) as [|w ws IH]; [constructor|]. cbn [flat_map].
      apply Permutation_app; [|exact IH]. apply Hdec; [exact HK|].
      intros e He. apply Hcov. unfold Model.bucket in He. apply filter_In in He. apply He. }
    (* rewrite the inner filter, swap the two unions, collapse the worker union *)
    rewrite (flat_map_ext _ (fun w => flat_map (fun k => if b k =? w then pipeline (filter (fun e => (key_of e =? k)%N) es) else []) K)).
    2:{ intros w. apply flat_map_ext. intros k. rewrite filter_key_bucket. destruct (b k =? w); [reflexivity|exact Hnil]. }
    eapply Permutation_trans; [apply flat_map_swap|].
    rewrite (flat_map_ext _ (fun k => pipeline (filter (fun e => (key_of e =? k)%N) es))).
    2:{ intros k. apply one_hit. apply Hb. }
    apply Permutation_sym. apply Hdec; assumption.
  Qed.
End Sim.

Lemma stateless_ops_per_event : Forall (fun o => per_event o = true) stateless_ops.
Proof. repeat constructor. Qed.
