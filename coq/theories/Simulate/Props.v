(* Property theorems for C18 (statements only; proofs in Proofs.v). *)
From Coq Require Import Permutation.
From VP Require Import Base.Tactics Simulate.Gen_Stateless Simulate.Model Simulate.Proofs.

Section Props.
  Variable event out : Type.
  Variable key_of : event -> N.
  Variable pipeline : list event -> list out.

  (* A pipeline that treats every event on its own (its output is the concatenation of
     per-event outputs): for every worker count, cutting the input into the CLI's
     round-robin chunks and running one fresh engine per chunk gives the same outputs. *)
  Theorem C18_stateless :
    forall (f : event -> list out) (n : nat) (es : list event),
      (forall l, pipeline l = flat_map f l) -> 0 < n ->
      Permutation (multi_stateless event out pipeline n es) (pipeline es).
  Proof.
    intros f n es Hf Hn. rewrite (stateless_split event out key_of pipeline f n es Hf Hn). apply Permutation_refl.
  Qed.

  (* A pipeline whose state is partitioned by the key (its output is, as a multiset, the
     union over the keys of what it emits for the events of that key alone): for EVERY
     bucket function of the key (any hash, any worker count), the union of the outputs of
     one fresh engine per bucket is the single-engine output. *)
  Theorem C18_partitioned :
    forall (b : N -> nat) (n : nat) (es : list event) (K : list N),
      pipeline [] = [] ->
      (forall l K', NoDup K' -> (forall e, In e l -> In (key_of e) K') ->
         Permutation (pipeline l)
                     (flat_map (fun k => pipeline (filter (fun e => (key_of e =? k)%N) l)) K')) ->
      NoDup K -> (forall e, In e es -> In (key_of e) K) ->
      (forall k, b k < n) ->
      Permutation (multi_partitioned event out key_of pipeline b n es) (pipeline es).
  Proof. exact (partitioned_split event out key_of pipeline). Qed.
End Props.

(* Every RuntimeOp kind that Engine::is_stateless (regenerated from the source) accepts is
   one whose effect on an event depends on that event only. *)
Theorem C18_stateless_ops_per_event :
  forall o, In o stateless_ops -> per_event o = true.
Proof. intros o H. exact (proj1 (Forall_forall _ _) stateless_ops_per_event o H). Qed.

(* the decomposability hypothesis of C18_partitioned is satisfiable by a stateful pipeline:
   a per-key running count (emits (key, n) for the n-th event of each key) *)
Definition ex_count (es : list (N * N)) : list (N * nat) :=
  (fix go (seen : list N) (l : list (N * N)) : list (N * nat) :=
     match l with
     | [] => []
     | (k, _) :: r => (k, S (count_occ N.eq_dec seen k)) :: go (k :: seen) r
     end) [] es.

Example C18_example :
  let es := [(1, 10); (2, 20); (1, 11); (3, 30); (2, 21); (1, 12)]%N in
  Permutation (multi_partitioned (N * N) (N * nat) fst ex_count (fun k => N.to_nat k mod 2) 2 es) (ex_count es)
  /\ multi_partitioned (N * N) (N * nat) fst ex_count (fun k => N.to_nat k mod 2) 2 es <> ex_count es.
Proof.
  cbv zeta. split.
  - vm_compute.
    apply (Permutation_cons_app [(1%N, 1)] [(1%N, 2); (3%N, 1); (2%N, 2); (1%N, 3)]). cbn [app].
    apply (Permutation_cons_app [(1%N, 1); (1%N, 2); (3%N, 1)] [(1%N, 3)]). cbn [app].
    apply Permutation_refl.
  - vm_compute. discriminate.
Qed.
