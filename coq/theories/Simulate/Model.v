(* Model of `varpulis simulate` with N workers (definitions only).

   Mirrors crates/varpulis-cli/src/main.rs run_simulation, branches
   `immediate && preload && num_workers > 1` and `immediate && num_workers > 1`:
     stateless pipeline  -> the events are cut into chunks of ceil(len / N) (drain loop) -> chunks
     otherwise           -> bucket = hash(event[partition_key]) % N                        -> bucket
   every chunk / bucket is processed by its own freshly loaded engine (process_batch_sync)
   and the outputs of all workers arrive on one channel in an unspecified interleaving
   (compared as a multiset).  [pipeline] is what one freshly loaded engine emits for an
   event list; [per_event] is this development's classification of the RuntimeOp kinds whose
   effect on an event depends on that event only (the list the code uses, is_stateless,
   comes from Gen_Stateless.v, regenerated from the source on every run). *)
From VP Require Import Base.Tactics Simulate.Gen_Stateless.

(* every RuntimeOp kind: does what it does to an event depend on that event only?
   (exhaustive match: a new variant in the source breaks the build until classified) *)
Definition per_event (o : opk) : bool :=
  match o with
  | KWhereClosure | KWhereExpr | KHaving | KSelect | KEmit | KEmitExpr
  | KPrint | KLog | KPattern | KProcess | KTo => true
  | KWindow | KPartitionedWindow | KPartitionedSlidingCountWindow
  | KAggregate | KPartitionedAggregate | KSequence | KTrendAggregate
  | KScore | KForecast | KEnrich | KDistinct | KLimit => false
  end.

Section Sim.
  Variable event out : Type.
  Variable key_of : event -> N.                    (* value of the partition key field (hashed) *)
  Variable pipeline : list event -> list out.      (* one fresh engine, events in order *)

  (* `while !all.is_empty() { let end = chunk_size.min(len); chunks.push(all.drain(..end)) }` *)
  Fixpoint chunks (fuel : nat) (size : nat) (es : list event) : list (list event) :=
    match fuel with
    | O => []
    | S f =>
      match es with
      | [] => []
      | _ => firstn size es :: chunks f size (skipn size es)
      end
    end.

  Definition div_ceil (a b : nat) : nat := (a + b - 1) / b.

  Definition multi_stateless (n : nat) (es : list event) : list out :=
    flat_map pipeline (chunks (length es) (div_ceil (length es) n) es).

  (* [b] = hash of the key value modulo the worker count *)
  Definition bucket (b : N -> nat) (w : nat) (es : list event) : list event :=
    filter (fun e => b (key_of e) =? w) es.

  Definition multi_partitioned (b : N -> nat) (n : nat) (es : list event) : list out :=
    flat_map (fun w => pipeline (bucket b w es)) (seq 0 n).
End Sim.
