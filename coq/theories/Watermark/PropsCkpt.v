(* Property theorems for C19, watermark part (checkpoint / restore of the per-source watermark tracker).
   Statements only; proofs in CkptProofs.v.  All theorems are about [tr_ckpt] / [tr_restore] / [e_ckpt] /
   [e_restore] / [cwstep] / [cerun] of Watermark/Ckpt.v, the definitions the correspondence check
   evaluates against PerSourceWatermarkTracker::checkpoint/restore and Engine::create_checkpoint /
   restore_checkpoint. *)
From Coq Require Import String.
From VP Require Import Base.Tactics Watermark.Model Watermark.Run Watermark.Ckpt Watermark.CkptProofs.
Open Scope Z_scope.
Open Scope list_scope.

(* Tracker: for every set of initial registrations and every sequence of register / observe / advance
   operations with checkpoint -> fresh tracker -> restore at any points, the tracker reached (sources in
   order, watermarks, maxima, bounds, effective watermark) is the one reached without those points. *)
Theorem C19_watermark_tracker : forall regs ops,
  fold_left (cwstep (reg_all regs)) ops (reg_all regs) = fold_left wstep (strip_w ops) (reg_all regs).
Proof. intros regs ops. apply cwrun_invisible. apply ext_refl. apply nodup_reg_all. Qed.

(* One restore, stated on its own: restoring a checkpoint of any state reached from t0 into t0 gives
   that state back. *)
Theorem C19_watermark_restore_exact : forall regs ops,
  let t0 := reg_all regs in
  let t := fold_left wstep ops t0 in
  tr_restore t0 (tr_ckpt t) = t.
Proof.
  intros regs ops t0 t. apply tr_restore_ext. subst t.
  assert (G : forall os t, ext (keys (tr_src t0)) (tr_src t) -> ext (keys (tr_src t0)) (tr_src (fold_left wstep os t))).
  { induction os as [|o r IH]; intros t1 H; [exact H|]. cbn [fold_left]. apply IH. now apply ext_wstep. }
  apply G. apply ext_refl. apply nodup_reg_all.
Qed.

(* Engine: for every program (streams with optional .watermark / .allowed_lateness), every history of
   events, external watermark advances and registrations, and checkpoint -> load the program again ->
   restore at any points: the final engine state and the line of every event (tracker state after it and
   the streams it was delivered to, i.e. whether the late-data gate dropped it) are those of the history
   without the checkpoints. *)
Theorem C19_watermark_engine : forall streams ops,
  cerun false streams (load_streams streams) ops = erun2 (load_streams streams) (strip_e ops).
Proof. intros streams ops. apply cerun_invisible. apply einv_load. Qed.

(* Non-vacuity: a history with a dropped and an admitted late event around a restore point; the restore
   point's own line shows the restored state. *)
Example C19_watermark_example :
  let streams := [mkCfg 0 (Some 2) (Some 3); mkCfg 1 None None] in
  let ops := [CE (Ev 0 10); CE (Ev 1 20); CECkr; CE (Ev 0 5); CE (Ev 0 4); CE (EReg 7 1); CECkr; CE (Ev 7 30)] in
  snd (cerun false streams (load_streams streams) ops) = snd (erun2 (load_streams streams) (strip_e ops)) /\
  List.length (snd (cerun true streams (load_streams streams) ops)) = 8%nat /\
  snd (e_event (fst (cerun true streams (load_streams streams) [CE (Ev 0 10); CE (Ev 1 20); CECkr])) 0 4) = false /\
  snd (e_event (fst (cerun true streams (load_streams streams) [CE (Ev 0 10); CE (Ev 1 20); CECkr])) 0 5) = true.
Proof. vm_compute. repeat split. Qed.
