(* Executable model of crates/varpulis-runtime/src/watermark.rs
   (PerSourceWatermarkTracker) and of the late-data gate at the top of
   Engine::process_inner (crates/varpulis-runtime/src/engine/mod.rs).
   Definitions only.  Function by function:

     register            PerSourceWatermarkTracker::register_source   (HashMap::insert: replaces an existing entry)
     observe             observe_event (incl. auto-registration of unknown sources with zero out-of-orderness)
     advance             advance_source_watermark
     recompute           recompute_effective
     gate_pass           process_inner, block "Check for late data against the watermark"
     load_streams        register_stream: StreamOp::Watermark / StreamOp::AllowedLateness
     e_event / e_extwm / e_reg
                         Engine::process (gate, then observe_event), advance_external_watermark,
                         enable_watermark_tracking + register_watermark_source

   Instants and durations are unbounded [Z] ticks; source names and event types
   are interned as [Z].  The FxHashMap of sources is an association list; its
   iteration order is irrelevant (the minimum does not depend on it).
   side_output_stream is always None in the code that builds LateDataConfig, so a
   late event is dropped, never diverted; the gate result is a bool. *)
From VP Require Import Base.Tactics.
Open Scope Z_scope.

Record src := mkSrc { s_wm : option Z; s_max : option Z; s_ooo : Z }.
Record tracker := mkTr { tr_src : list (Z * src); tr_eff : option Z }.

Definition tr_new : tracker := mkTr [] None.

Fixpoint sget (n : Z) (m : list (Z * src)) : option src :=
  match m with
  | [] => None
  | (k, s) :: r => if n =? k then Some s else sget n r
  end.

Fixpoint sset (n : Z) (s : src) (m : list (Z * src)) : list (Z * src) :=
  match m with
  | [] => [(n, s)]
  | (k, s') :: r => if n =? k then (n, s) :: r else (k, s') :: sset n s r
  end.

Definition register (t : tracker) (n ooo : Z) : tracker :=
  mkTr (sset n (mkSrc None None ooo) (tr_src t)) (tr_eff t).

(* minimum of the watermarks of the sources that have one *)
Fixpoint min_wm (m : list (Z * src)) : option Z :=
  match m with
  | [] => None
  | (_, s) :: r =>
    match s_wm s, min_wm r with
    | Some w, Some x => Some (Z.min w x)
    | Some w, None => Some w
    | None, x => x
    end
  end.

Definition recompute (t : tracker) : tracker :=
  match tr_src t with
  | [] => mkTr [] None
  | _ => match min_wm (tr_src t) with
         | Some w => mkTr (tr_src t) (Some w)
         | None => t
         end
  end.

(* "watermark never recedes": keep the larger of the current and the proposed value *)
Definition raise (cur : option Z) (w : Z) : option Z :=
  match cur with
  | Some c => if w >? c then Some w else Some c
  | None => Some w
  end.

Definition observe_src (s : src) (ts : Z) : src :=
  let updated := match s_max s with Some m => ts >? m | None => true end in
  if updated then mkSrc (raise (s_wm s) (ts - s_ooo s)) (Some ts) (s_ooo s) else s.

Definition observe (t : tracker) (n ts : Z) : tracker :=
  let t1 := match sget n (tr_src t) with Some _ => t | None => register t n 0 end in
  match sget n (tr_src t1) with
  | Some s => recompute (mkTr (sset n (observe_src s ts) (tr_src t1)) (tr_eff t1))
  | None => t1   (* unreachable: the source was just registered *)
  end.

Definition advance (t : tracker) (n wm : Z) : tracker :=
  match sget n (tr_src t) with
  | Some s => recompute (mkTr (sset n (mkSrc (raise (s_wm s) wm) (s_max s) (s_ooo s)) (tr_src t)) (tr_eff t))
  | None => t
  end.

(* ---------------------------------------------------- engine: late-data gate *)
(* one stream declaration: the event type it consumes, `.watermark(out_of_order: n)` if present,
   `.allowed_lateness(n)` if present *)
Record scfg := mkCfg { c_src : Z; c_wm : option Z; c_late : option Z }.

Record engine := mkEng { e_tr : option tracker; e_streams : list scfg }.

Definition consumers (streams : list scfg) (ty : Z) : list scfg :=
  filter (fun s => c_src s =? ty) streams.

Definition has_late_cfg (streams : list scfg) : bool :=
  existsb (fun s => match c_late s with Some _ => true | None => false end) streams.

(* true = the event is processed, false = dropped as late *)
Definition gate_pass (eff : option Z) (streams : list scfg) (ty ts : Z) : bool :=
  match eff with
  | Some wm =>
    if ts <? wm then
      let allowed := existsb (fun s => match c_late s with Some l => ts >=? wm - l | None => false end)
                             (consumers streams ty) in
      allowed || negb (has_late_cfg streams)
    else true
  | None => true
  end.

Definition load_streams (streams : list scfg) : engine :=
  mkEng (fold_left (fun tr s => match c_wm s with
                                | Some ooo => Some (register (match tr with Some t => t | None => tr_new end) (c_src s) ooo)
                                | None => tr
                                end) streams None)
        streams.

(* returns the new engine and whether the event was processed (and so delivered to its consumers) *)
Definition e_event (e : engine) (ty ts : Z) : engine * bool :=
  match e_tr e with
  | Some t =>
    if gate_pass (tr_eff t) (e_streams e) ty ts
    then (mkEng (Some (observe t ty ts)) (e_streams e), true)
    else (e, false)
  | None => (e, true)
  end.

Definition e_extwm (e : engine) (n wm : Z) : engine :=
  match e_tr e with
  | Some t => mkEng (Some (advance t n wm)) (e_streams e)
  | None => e
  end.

Definition e_reg (e : engine) (n ooo : Z) : engine :=
  mkEng (Some (register (match e_tr e with Some t => t | None => tr_new end) n ooo)) (e_streams e).
