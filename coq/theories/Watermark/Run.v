(* Interpreter + rendering for the correspondence check C24. *)
From Coq Require Import String.
From VP Require Import Base.Tactics Base.Render Watermark.Model.
Open Scope string_scope.
Open Scope Z_scope.

Inductive wop := Reg (n ooo : Z) | Obs (n ts : Z) | Adv (n wm : Z).
Inductive eop := Ev (ty ts : Z) | ExtWm (n t : Z) | EReg (n ooo : Z).

Definition wstep (t : tracker) (o : wop) : tracker :=
  match o with
  | Reg n ooo => register t n ooo
  | Obs n ts => observe t n ts
  | Adv n wm => advance t n wm
  end.

Fixpoint ninsert (x : Z * src) (l : list (Z * src)) : list (Z * src) :=
  match l with
  | [] => [x]
  | y :: r => if fst x <=? fst y then x :: l else y :: ninsert x r
  end.
Fixpoint nsort (l : list (Z * src)) : list (Z * src) :=
  match l with [] => [] | x :: r => ninsert x (nsort r) end.

Definition str_oz (o : option Z) : string := match o with None => "n" | Some z => str_of_Z z end.
Definition str_src (p : Z * src) : string :=
  str_of_Z (fst p) ++ ":" ++ str_oz (s_wm (snd p)) ++ ":" ++ str_oz (s_max (snd p)) ++ ":" ++ str_of_Z (s_ooo (snd p)).
Definition str_tracker (t : tracker) : string :=
  str_oz (tr_eff t) ++ "|" ++ join "," (map str_src (nsort (tr_src t))).

Fixpoint wrun (t : tracker) (ops : list wop) : list string :=
  match ops with
  | [] => []
  | o :: r => let t' := wstep t o in str_tracker t' :: wrun t' r
  end.

Definition tracker_case (ops : list wop) : string := join ";" (wrun tr_new ops).

(* engine: after each op, tracker state (or "off") and the indices of the streams that
   emitted the event *)
Fixpoint consumer_ixs (streams : list scfg) (ty : Z) (i : nat) : list nat :=
  match streams with
  | [] => []
  | s :: r => if c_src s =? ty then i :: consumer_ixs r ty (S i) else consumer_ixs r ty (S i)
  end.

Definition str_eng (e : engine) : string :=
  match e_tr e with Some t => str_tracker t | None => "off" end.

Definition estep (e : engine) (o : eop) : engine * string :=
  match o with
  | Ev ty ts =>
    let '(e', ok) := e_event e ty ts in
    (e', str_eng e' ++ "|" ++ (if ok then join "," (map str_of_nat (consumer_ixs (e_streams e) ty 0)) else ""))
  | ExtWm n t => let e' := e_extwm e n t in (e', str_eng e' ++ "|")
  | EReg n ooo => let e' := e_reg e n ooo in (e', str_eng e' ++ "|")
  end.

Fixpoint erun (e : engine) (ops : list eop) : list string :=
  match ops with
  | [] => []
  | o :: r => let '(e', s) := estep e o in s :: erun e' r
  end.

Definition engine_case (streams : list scfg) (ops : list eop) : string :=
  join ";" (erun (load_streams streams) ops).
