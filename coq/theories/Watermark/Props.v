(* Property theorems for C24 (statements only; proofs in Proofs.v). *)
From VP Require Import Base.Tactics Watermark.Model.
