(* Property theorems for C24.  Statements only; proofs in Proofs.v.  All theorems are
   about [wstep] / [estep] / [e_event] of Watermark/Run.v and Model.v, the definitions the
   correspondence check evaluates against the Rust code. *)
From VP Require Import Base.Tactics Watermark.Model Watermark.Run Watermark.Proofs.
Open Scope Z_scope.

(* Each source's watermark never decreases: over any op sequence (register / observe /
   advance, any sources, any disorder), from any tracker state, for every source name.
   [ops_ok]: a name is registered again only while it has no watermark yet. *)
Theorem C24_monotone : forall ops t n,
  ops_ok t ops -> wm_le (wm_of t n) (wm_of (fold_left wstep ops t) n).
Proof. exact run_monotone. Qed.

(* The effective watermark is the minimum over the sources that have a watermark (and there
   is none iff no source has one), after every op sequence. *)
Theorem C24_effective_min : forall ops,
  ops_ok tr_new ops ->
  let t := fold_left wstep ops tr_new in
  match tr_eff t with
  | Some w => is_min w (tr_src t)
  | None => forall n s, In (n, s) (tr_src t) -> s_wm s = None
  end.
Proof.
  intros ops Hok t. apply eff_ok_spec. apply run_eff_ok; [exact Hok | exact eff_ok_new].
Qed.

(* Late data: for every program (streams with optional .watermark / .allowed_lateness) and
   every history of events, external watermark advances and registrations, an event is
   dropped only if there is an effective watermark wm -- the minimum over the sources that
   have one -- with ts < wm, and ts < wm - lateness for every stream consuming the event's
   type (a stream without .allowed_lateness counting as lateness 0). *)
Theorem C24_late_only_if : forall streams ops ty ts,
  eops_ok (load_streams streams) ops ->
  let e := fold_left enext ops (load_streams streams) in
  snd (e_event e ty ts) = false ->
  exists t wm, e_tr e = Some t /\ tr_eff t = Some wm /\ is_min wm (tr_src t) /\
               ts < wm /\ forall s, In s (consumers streams ty) -> ts < wm - lateness s.
Proof.
  intros streams ops ty ts Hok e Hdrop.
  destruct (load_ok streams) as [Hl1 Hl2].
  destruct (erun_ok ops _ Hok Hl1) as [He Hs]. fold e in He, Hs. rewrite Hl2 in Hs.
  unfold e_event in Hdrop. unfold e_ok in He. destruct (e_tr e) as [t|] eqn:Et; [|discriminate].
  destruct (gate_pass (tr_eff t) (e_streams e) ty ts) eqn:Eg; [discriminate|].
  destruct (gate_drop _ _ _ _ Eg) as (wm & Hw & Hlt & Hall). rewrite Hs in Hall.
  exists t, wm. split; [reflexivity|]. split; [exact Hw|]. split; [|split; assumption].
  pose proof (eff_ok_spec t He) as Hm. now rewrite Hw in Hm.
Qed.

(* The gate on its own, for every effective watermark and configuration. *)
Theorem C24_gate : forall eff streams ty ts,
  gate_pass eff streams ty ts = false ->
  exists wm, eff = Some wm /\ ts < wm /\ forall s, In s (consumers streams ty) -> ts < wm - lateness s.
Proof. exact gate_drop. Qed.

(* Remarks (allowed by the statement): the effective watermark itself may decrease when a
   new source reports its first, lower watermark; and registering an existing source again
   resets it (it is a new source afterwards). *)
Example C24_effective_may_decrease :
  tr_eff (fold_left wstep [Obs 0 10] tr_new) = Some 10 /\
  tr_eff (fold_left wstep [Obs 0 10; Obs 1 5] tr_new) = Some 5 /\ ops_ok tr_new [Obs 0 10; Obs 1 5].
Proof. vm_compute. repeat split. Qed.

Example C24_reregistration_resets :
  wm_of (fold_left wstep [Obs 0 10] tr_new) 0 = Some 10 /\
  wm_of (fold_left wstep [Obs 0 10; Reg 0 2] tr_new) 0 = None /\ ~ ops_ok tr_new [Obs 0 10; Reg 0 2].
Proof. vm_compute. repeat split. intros [_ [H _]]. discriminate. Qed.

(* Non-vacuity: a program and a history in which one late event is admitted (within the
   allowed lateness) and one is dropped. *)
Example C24_example :
  let streams := [mkCfg 0 (Some 2) (Some 3); mkCfg 1 None None] in
  let ops := [Ev 0 10; Ev 1 20] in
  eops_ok (load_streams streams) ops /\
  snd (e_event (fold_left enext ops (load_streams streams)) 0 5) = true /\
  snd (e_event (fold_left enext ops (load_streams streams)) 0 4) = false /\
  snd (e_event (fold_left enext ops (load_streams streams)) 1 7) = false.
Proof. vm_compute. repeat split. Qed.
