(* Lemmas for C24. *)
From VP Require Import Base.Tactics Watermark.Model Watermark.Run.
Open Scope Z_scope.

(* ---- vocabulary of the statements ---- *)
Definition wm_of (t : tracker) (n : Z) : option Z :=
  match sget n (tr_src t) with Some s => s_wm s | None => None end.

(* order on watermarks: "no watermark yet" is below every instant *)
Definition wm_le (a b : option Z) : Prop :=
  match a, b with
  | None, _ => True
  | Some x, Some y => x <= y
  | Some _, None => False
  end.

(* w is the minimum over the sources that have a watermark *)
Definition is_min (w : Z) (m : list (Z * src)) : Prop :=
  (exists n s, In (n, s) m /\ s_wm s = Some w) /\
  (forall n s w', In (n, s) m -> s_wm s = Some w' -> w <= w').

(* registering a name again is only considered while that source has no watermark yet
   (register_source replaces the entry: afterwards it is a new source) *)
Definition reg_ok (t : tracker) (o : wop) : Prop :=
  match o with Reg n _ => wm_of t n = None | _ => True end.

Fixpoint ops_ok (t : tracker) (ops : list wop) : Prop :=
  match ops with
  | [] => True
  | o :: r => reg_ok t o /\ ops_ok (wstep t o) r
  end.

Definition lateness (s : scfg) : Z := match c_late s with Some l => l | None => 0 end.

Definition ereg_ok (e : engine) (o : eop) : Prop :=
  match o with
  | EReg n _ => match e_tr e with Some t => wm_of t n = None | None => True end
  | _ => True
  end.
Definition enext (e : engine) (o : eop) : engine := fst (estep e o).
Fixpoint eops_ok (e : engine) (ops : list eop) : Prop :=
  match ops with
  | [] => True
  | o :: r => ereg_ok e o /\ eops_ok (enext e o) r
  end.

(* ---- association list ---- *)
Lemma sget_sset_same : forall n s m, sget n (sset n s m) = Some s.
Proof.
  intros n s. induction m as [|[k s'] m IH]; cbn.
  - now rewrite Z.eqb_refl.
  - destruct (n =? k) eqn:E; cbn; [now rewrite Z.eqb_refl | now rewrite E].
Qed.

Lemma sget_sset_other : forall n n' s m, n <> n' -> sget n' (sset n s m) = sget n' m.
Proof.
  intros n n' s m Hne. induction m as [|[k s'] m IH]; cbn.
  - destruct (n' =? n) eqn:E; [lia | reflexivity].
  - destruct (n =? k) eqn:E; cbn.
    + assert (n = k) by lia. subst k. destruct (n' =? n) eqn:E2; [lia | reflexivity].
    + destruct (n' =? k); [reflexivity | exact IH].
Qed.

Lemma wm_le_refl : forall a, wm_le a a.
Proof. intros [x|]; cbn; [lia | exact I]. Qed.

Lemma wm_le_trans : forall a b c, wm_le a b -> wm_le b c -> wm_le a c.
Proof. intros [x|] [y|] [z|]; cbn; try tauto; lia. Qed.

Lemma raise_ge : forall cur w, wm_le cur (raise cur w).
Proof. intros [c|] w; cbn; [destruct (w >? c) eqn:E; cbn; lia | exact I]. Qed.

Lemma recompute_src : forall t, tr_src (recompute t) = tr_src t.
Proof.
  intros t. unfold recompute. destruct (tr_src t) as [|p m] eqn:E; [reflexivity|].
  destruct (min_wm (p :: m)); [reflexivity | exact E].
Qed.

Lemma wm_of_recompute : forall t n, wm_of (recompute t) n = wm_of t n.
Proof. intros t n. unfold wm_of. now rewrite recompute_src. Qed.

(* ---- per-source monotonicity ---- *)
Lemma wstep_monotone : forall t o n, reg_ok t o -> wm_le (wm_of t n) (wm_of (wstep t o) n).
Proof.
  intros t o n Hok. destruct o as [m ooo|m ts|m w]; cbn [wstep].
  - (* register *) cbn in Hok. unfold register, wm_of in *. cbn [tr_src].
    destruct (Z.eq_dec m n) as [->|Hne].
    + rewrite sget_sset_same. cbn. destruct (sget n (tr_src t)) as [s|]; [rewrite Hok|]; exact I.
    + rewrite sget_sset_other by exact Hne. apply wm_le_refl.
  - (* observe *) unfold observe.
    destruct (sget m (tr_src t)) as [s|] eqn:E.
    + rewrite E. rewrite wm_of_recompute. unfold wm_of. cbn [tr_src].
      destruct (Z.eq_dec m n) as [->|Hne].
      * rewrite sget_sset_same, E. unfold observe_src. destruct (match s_max s with Some mx => ts >? mx | None => true end);
          cbn [s_wm]; [apply raise_ge | apply wm_le_refl].
      * rewrite sget_sset_other by exact Hne. apply wm_le_refl.
    + cbn [register tr_src]. rewrite sget_sset_same. rewrite wm_of_recompute. unfold wm_of. cbn [tr_src].
      destruct (Z.eq_dec m n) as [->|Hne].
      * rewrite E. exact I.
      * rewrite !sget_sset_other by exact Hne. apply wm_le_refl.
  - (* advance *) unfold advance. destruct (sget m (tr_src t)) as [s|] eqn:E; [|apply wm_le_refl].
    rewrite wm_of_recompute. unfold wm_of. cbn [tr_src].
    destruct (Z.eq_dec m n) as [->|Hne].
    + rewrite sget_sset_same, E. cbn [s_wm]. apply raise_ge.
    + rewrite sget_sset_other by exact Hne. apply wm_le_refl.
Qed.

Lemma run_monotone : forall ops t n, ops_ok t ops -> wm_le (wm_of t n) (wm_of (fold_left wstep ops t) n).
Proof.
  induction ops as [|o r IH]; intros t n Hok; cbn [fold_left].
  - apply wm_le_refl.
  - destruct Hok as [H1 H2]. eapply wm_le_trans; [apply wstep_monotone; exact H1 | apply IH; exact H2].
Qed.

(* ---- effective = minimum ---- *)
Lemma min_wm_spec : forall m,
  match min_wm m with
  | Some w => is_min w m
  | None => forall n s, In (n, s) m -> s_wm s = None
  end.
Proof.
  induction m as [|[k s] m IH]; cbn [min_wm].
  - intros n s [].
  - destruct (s_wm s) as [w|] eqn:Ew; destruct (min_wm m) as [x|] eqn:Em.
    + destruct IH as [(n0 & s0 & Hin & Hw) Hall]. split.
      * destruct (Z.min_spec w x) as [[_ ->]|[_ ->]]; [exists k, s; split; [now left|exact Ew] | exists n0, s0; split; [now right|exact Hw]].
      * intros n1 s1 w' [Heq|Hin1] Hw1; [inv Heq; rewrite Ew in Hw1; inv Hw1; lia | specialize (Hall _ _ _ Hin1 Hw1); lia].
    + split.
      * exists k, s. split; [now left|exact Ew].
      * intros n1 s1 w' [Heq|Hin1] Hw1; [inv Heq; rewrite Ew in Hw1; inv Hw1; lia | rewrite (IH _ _ Hin1) in Hw1; discriminate].
    + destruct IH as [(n0 & s0 & Hin & Hw) Hall]. split.
      * exists n0, s0. split; [now right|exact Hw].
      * intros n1 s1 w' [Heq|Hin1] Hw1; [inv Heq; rewrite Ew in Hw1; discriminate | eapply Hall; eauto].
    + intros n1 s1 [Heq|Hin1]; [inv Heq; exact Ew | eapply IH; eauto].
Qed.

Definition eff_ok (t : tracker) : Prop := tr_eff t = min_wm (tr_src t).

(* replacing / adding a source that has no watermark, where the old entry (if any) had none either,
   does not change the minimum *)
Lemma min_wm_sset_none : forall n s m,
  s_wm s = None -> (forall s0, sget n m = Some s0 -> s_wm s0 = None) -> min_wm (sset n s m) = min_wm m.
Proof.
  intros n s. induction m as [|[k s'] m IH]; intros Hs Hold; cbn [sset min_wm].
  - now rewrite Hs.
  - cbn [sget] in Hold. destruct (n =? k) eqn:E; cbn [min_wm].
    + rewrite Hs, (Hold _ eq_refl). reflexivity.
    + rewrite IH; [reflexivity | exact Hs | exact Hold].
Qed.

Lemma sset_nonempty : forall n s m, sset n s m <> [].
Proof. intros n s [|[k s'] m]; cbn; [discriminate | destruct (n =? k); discriminate]. Qed.

Lemma min_none_sset : forall n s m s0,
  sget n m = Some s0 -> wm_le (s_wm s0) (s_wm s) -> min_wm (sset n s m) = None -> min_wm m = None.
Proof.
  intros n s. induction m as [|[k s'] m IH]; intros s0 Hg Hle Hmin; [discriminate|].
  cbn [sget] in Hg. cbn [sset] in Hmin. destruct (n =? k) eqn:E.
  - inv Hg. cbn [min_wm] in *. destruct (s_wm s) as [w|] eqn:Ew.
    + destruct (min_wm m); discriminate.
    + destruct (s_wm s0) as [w0|]; [contradiction|]. exact Hmin.
  - cbn [min_wm] in *. destruct (s_wm s') as [w'|].
    + destruct (min_wm (sset n s m)); discriminate.
    + eapply IH; eauto.
Qed.

Lemma recompute_ok : forall src eff,
  (min_wm src = None -> eff = None) -> src <> [] -> eff_ok (recompute (mkTr src eff)).
Proof.
  intros src eff Hn Hne. unfold recompute, eff_ok. cbn [tr_src]. destruct src as [|p m]; [contradiction|].
  destruct (min_wm (p :: m)) as [w|] eqn:E; cbn [tr_eff tr_src]; [now rewrite E | now rewrite E, Hn].
Qed.

Lemma update_eff_ok : forall t m s0 s,
  eff_ok t -> sget m (tr_src t) = Some s0 -> wm_le (s_wm s0) (s_wm s) ->
  eff_ok (recompute (mkTr (sset m s (tr_src t)) (tr_eff t))).
Proof.
  intros t m s0 s Hinv Hg Hle. apply recompute_ok; [|apply sset_nonempty].
  intro Hn. rewrite Hinv. eapply min_none_sset; eauto.
Qed.

Lemma observe_src_ge : forall s ts, wm_le (s_wm s) (s_wm (observe_src s ts)).
Proof.
  intros s ts. unfold observe_src. destruct (match s_max s with Some mx => ts >? mx | None => true end);
    cbn [s_wm]; [apply raise_ge | apply wm_le_refl].
Qed.

Lemma register_eff_ok : forall t m ooo, wm_of t m = None -> eff_ok t -> eff_ok (register t m ooo).
Proof.
  intros t m ooo Hok Hinv. unfold register, eff_ok in *. cbn [tr_src tr_eff]. rewrite Hinv. symmetry.
  apply min_wm_sset_none; [reflexivity|]. intros s0 E. unfold wm_of in Hok. now rewrite E in Hok.
Qed.

Lemma wstep_eff_ok : forall t o, reg_ok t o -> eff_ok t -> eff_ok (wstep t o).
Proof.
  intros t o Hok Hinv. destruct o as [m ooo|m ts|m w]; cbn [wstep].
  - now apply register_eff_ok.
  - unfold observe. destruct (sget m (tr_src t)) as [s|] eqn:E.
    + rewrite E. eapply update_eff_ok; eauto. apply observe_src_ge.
    + assert (Hreg : eff_ok (register t m 0)) by (apply register_eff_ok; [unfold wm_of; now rewrite E | exact Hinv]).
      assert (Hg : sget m (tr_src (register t m 0)) = Some (mkSrc None None 0)) by (cbn; apply sget_sset_same).
      rewrite Hg. eapply (update_eff_ok (register t m 0)); eauto; exact I.
  - unfold advance. destruct (sget m (tr_src t)) as [s|] eqn:E; [|exact Hinv].
    eapply update_eff_ok; eauto. cbn [s_wm]. apply raise_ge.
Qed.

Lemma run_eff_ok : forall ops t, ops_ok t ops -> eff_ok t -> eff_ok (fold_left wstep ops t).
Proof.
  induction ops as [|o r IH]; intros t Hok Hinv; [exact Hinv|].
  destruct Hok as [H1 H2]. cbn [fold_left]. apply IH; [exact H2 | now apply wstep_eff_ok].
Qed.

Lemma eff_ok_spec : forall t, eff_ok t ->
  match tr_eff t with
  | Some w => is_min w (tr_src t)
  | None => forall n s, In (n, s) (tr_src t) -> s_wm s = None
  end.
Proof. intros t H. rewrite H. apply min_wm_spec. Qed.

(* ---- the late-data gate ---- *)
Lemma gate_drop : forall eff streams ty ts,
  gate_pass eff streams ty ts = false ->
  exists wm, eff = Some wm /\ ts < wm /\ forall s, In s (consumers streams ty) -> ts < wm - lateness s.
Proof.
  intros eff streams ty ts H. unfold gate_pass in H. destruct eff as [wm|]; [|discriminate].
  destruct (ts <? wm) eqn:E; [|discriminate]. apply orb_false_elim in H. destruct H as [H _].
  exists wm. split; [reflexivity|]. split; [lia|]. intros s Hin.
  rewrite <- not_true_iff_false, existsb_exists in H. unfold lateness.
  destruct (c_late s) as [l|] eqn:El; [|lia].
  destruct (ts >=? wm - l) eqn:E2; [|lia]. exfalso. apply H. exists s. split; [exact Hin|]. now rewrite El.
Qed.

(* ---- engine runs ---- *)
Definition e_ok (e : engine) : Prop := match e_tr e with Some t => eff_ok t | None => True end.

Lemma eff_ok_new : eff_ok tr_new.
Proof. reflexivity. Qed.

Lemma enext_streams : forall e o, e_streams (enext e o) = e_streams e.
Proof.
  intros e o. unfold enext. destruct o as [ty ts|n t|n ooo]; cbn [estep].
  - unfold e_event. destruct (e_tr e) as [t|]; [destruct (gate_pass _ _ _ _)|]; reflexivity.
  - unfold e_extwm. destruct (e_tr e); reflexivity.
  - reflexivity.
Qed.

Lemma enext_ok : forall e o, ereg_ok e o -> e_ok e -> e_ok (enext e o).
Proof.
  intros e o Hreg Hok. unfold enext, e_ok in *. destruct o as [ty ts|n t0|n ooo]; cbn [estep].
  - unfold e_event. destruct (e_tr e) as [t|] eqn:Et; [|cbn; now rewrite Et].
    destruct (gate_pass _ _ _ _); cbn [fst e_tr]; [|now rewrite Et].
    apply (wstep_eff_ok t (Obs ty ts)); [exact I | exact Hok].
  - unfold e_extwm. destruct (e_tr e) as [t|] eqn:Et; cbn [fst e_tr]; [|now rewrite Et].
    apply (wstep_eff_ok t (Adv n t0)); [exact I | exact Hok].
  - cbn [fst e_reg e_tr]. cbn in Hreg. destruct (e_tr e) as [t|].
    + now apply register_eff_ok.
    + apply register_eff_ok; [reflexivity | exact eff_ok_new].
Qed.

Lemma erun_ok : forall ops e, eops_ok e ops -> e_ok e -> e_ok (fold_left enext ops e) /\
  e_streams (fold_left enext ops e) = e_streams e.
Proof.
  induction ops as [|o r IH]; intros e Hok Hinv; [split; [exact Hinv|reflexivity]|].
  destruct Hok as [H1 H2]. cbn [fold_left]. destruct (IH _ H2 (enext_ok _ _ H1 Hinv)) as [Ha Hb].
  split; [exact Ha | now rewrite Hb, enext_streams].
Qed.

(* loading a program: every `.watermark` registers its source before any event has been seen *)
Lemma load_ok : forall streams, e_ok (load_streams streams) /\ e_streams (load_streams streams) = streams.
Proof.
  intros streams. unfold load_streams. split; [|reflexivity]. unfold e_ok. cbn [e_tr].
  assert (H : forall l tr, (match tr with Some t => eff_ok t /\ (forall n, wm_of t n = None) | None => True end) ->
              match fold_left (fun tr s => match c_wm s with
                                           | Some ooo => Some (register (match tr with Some t => t | None => tr_new end) (c_src s) ooo)
                                           | None => tr end) l tr with
              | Some t => eff_ok t /\ (forall n, wm_of t n = None) | None => True end).
  { induction l as [|s l IH]; intros tr Htr; [exact Htr|]. cbn [fold_left]. apply IH.
    destruct (c_wm s) as [ooo|]; [|exact Htr].
    assert (Hb : eff_ok (match tr with Some t => t | None => tr_new end) /\
                 (forall n, wm_of (match tr with Some t => t | None => tr_new end) n = None)).
    { destruct tr as [t|]; [exact Htr | split; [exact eff_ok_new | reflexivity]]. }
    destruct Hb as [Hb1 Hb2]. split; [apply register_eff_ok; [apply Hb2 | exact Hb1]|].
    intros n. unfold register, wm_of. cbn [tr_src]. destruct (Z.eq_dec (c_src s) n) as [->|Hne].
    - now rewrite sget_sset_same.
    - rewrite sget_sset_other by exact Hne. apply Hb2. }
  specialize (H streams None I). destruct (fold_left _ streams None); [apply H | exact I].
Qed.
