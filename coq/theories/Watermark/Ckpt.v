(* Executable model of the watermark tracker's checkpoint / restore
   (crates/varpulis-runtime/src/watermark.rs PerSourceWatermarkTracker::checkpoint / restore)
   and of the watermark part of Engine::create_checkpoint / restore_checkpoint
   (crates/varpulis-runtime/src/engine/mod.rs, "Restore watermark tracker state").
   Definitions only; used by property C19.  Function by function:

     tr_ckpt      checkpoint(): every source's (watermark, max timestamp, bound) and the effective watermark
     tr_restore   restore(): for each checkpointed source, `entry(name).or_insert_with(..)` and then all three
                  fields overwritten = replace-or-append [sset]; sources of the receiving tracker that the
                  checkpoint does not name are kept; the effective watermark is taken from the checkpoint
     e_ckpt       create_checkpoint: watermark_state = tracker.map(checkpoint)
     e_restore    restore_checkpoint: only if watermark_state is Some: tracker created if absent, then restore

   Instants are whole-millisecond ticks ([Z], unbounded): the checkpoint stores milliseconds, so a tracker
   holding a sub-millisecond instant is outside this model (class known_subms of C19; event timestamps of
   that kind are the recorded finding `event-timestamp-sub-millisecond`).  last_event_time (an Instant, not
   checkpointed, never read) and Engine::last_applied_watermark (read only to decide whether windows are
   advanced again) are not modelled. *)
From Coq Require Import String.
From VP Require Import Base.Tactics Base.Render Watermark.Model Watermark.Run.
Open Scope Z_scope.

Record wcp := mkCp { cp_src : list (Z * src); cp_eff : option Z }.

Definition tr_ckpt (t : tracker) : wcp := mkCp (tr_src t) (tr_eff t).

Definition tr_restore (t : tracker) (cp : wcp) : tracker :=
  mkTr (fold_left (fun m p => sset (fst p) (snd p) m) (cp_src cp) (tr_src t)) (cp_eff cp).

Definition e_ckpt (e : engine) : option wcp := option_map tr_ckpt (e_tr e).

Definition e_restore (e : engine) (c : option wcp) : engine :=
  match c with
  | Some cp => mkEng (Some (tr_restore (match e_tr e with Some t => t | None => tr_new end) cp)) (e_streams e)
  | None => e
  end.

(* ------------------------------------------------ op sequences with checkpoint/restore points *)
(* CWCkr / CECkr: take a checkpoint, build a fresh object (tracker: the one the sequence started from;
   engine: the program loaded again), restore the checkpoint into it and carry on with that object. *)
Inductive cwop := CW (o : wop) | CWCkr.
Inductive ceop := CE (o : eop) | CECkr.

Definition cwstep (t0 t : tracker) (o : cwop) : tracker :=
  match o with
  | CW o => wstep t o
  | CWCkr => tr_restore t0 (tr_ckpt t)
  end.

Definition strip_w (ops : list cwop) : list wop :=
  flat_map (fun o => match o with CW o => [o] | CWCkr => [] end) ops.
Definition strip_e (ops : list ceop) : list eop :=
  flat_map (fun o => match o with CE o => [o] | CECkr => [] end) ops.

Definition cestep (streams : list scfg) (e : engine) (o : ceop) : engine * string :=
  match o with
  | CE o => estep e o
  | CECkr => let e' := e_restore (load_streams streams) (e_ckpt e) in (e', (str_eng e' ++ "|")%string)
  end.

(* keep = true: one line per op (what the correspondence compares, restore points included);
   keep = false: the lines of the restore points are left out (what an observer of the outputs sees) *)
Fixpoint cerun (keep : bool) (streams : list scfg) (e : engine) (ops : list ceop) : engine * list string :=
  match ops with
  | [] => (e, [])
  | o :: r =>
    let '(e', s) := cestep streams e o in
    let '(ef, l) := cerun keep streams e' r in
    (ef, match o with CE _ => s :: l | CECkr => if keep then s :: l else l end)
  end.

Fixpoint cwrun (t0 t : tracker) (ops : list cwop) : list string :=
  match ops with
  | [] => []
  | o :: r => let t' := cwstep t0 t o in str_tracker t' :: cwrun t0 t' r
  end.

(* regs: the sources the tracker is created with (and the fresh tracker of every restore point too) *)
Definition reg_all (regs : list (Z * Z)) : tracker :=
  fold_left (fun t p => register t (fst p) (snd p)) regs tr_new.
Definition ctracker_case (regs : list (Z * Z)) (ops : list cwop) : string :=
  join ";" (cwrun (reg_all regs) (reg_all regs) ops).
Definition cengine_case (streams : list scfg) (ops : list ceop) : string :=
  join ";" (snd (cerun true streams (load_streams streams) ops)).
