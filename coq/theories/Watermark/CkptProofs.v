(* Proofs for the watermark tracker's checkpoint / restore (property C19, watermark part). *)
From Coq Require Import String.
From VP Require Import Base.Tactics Base.Render Watermark.Model Watermark.Run Watermark.Proofs Watermark.Ckpt.
Open Scope Z_scope.
Open Scope list_scope.

Definition keys (m : list (Z * src)) : list Z := map fst m.

(* [m] has distinct names and its names extend [k0] at the end *)
Definition ext (k0 : list Z) (m : list (Z * src)) : Prop :=
  NoDup (keys m) /\ exists suf, keys m = k0 ++ suf.

Lemma keys_sset_in : forall n s m, In n (keys m) -> keys (sset n s m) = keys m.
Proof.
  intros n s m. induction m as [|[k s'] r IH]; simpl; intros Hin; [contradiction|].
  destruct (n =? k) eqn:E; simpl.
  - apply Z.eqb_eq in E. now subst.
  - f_equal. apply IH. destruct Hin as [H|H]; [|exact H]. apply Z.eqb_neq in E. congruence.
Qed.

Lemma keys_sset_notin : forall n s m, ~ In n (keys m) -> keys (sset n s m) = keys m ++ [n].
Proof.
  intros n s m. induction m as [|[k s'] r IH]; simpl; intros Hn; [reflexivity|].
  destruct (n =? k) eqn:E; simpl.
  - apply Z.eqb_eq in E. subst. exfalso. apply Hn. now left.
  - f_equal. apply IH. intro H. apply Hn. now right.
Qed.

Lemma NoDup_app_snoc : forall (l : list Z) n, NoDup l -> ~ In n l -> NoDup (l ++ [n]).
Proof.
  induction l as [|x l IH]; simpl; intros n Hnd Hn.
  - constructor; [intros []|constructor].
  - inv Hnd. constructor.
    + rewrite in_app_iff. intros [H|[H|[]]]; [contradiction|]. subst. apply Hn. now left.
    + apply IH; [assumption|]. intro H. apply Hn. now right.
Qed.

Lemma ext_sset : forall k0 n s m, ext k0 m -> ext k0 (sset n s m).
Proof.
  intros k0 n s m [Hnd [suf Hk]].
  destruct (in_dec Z.eq_dec n (keys m)) as [Hin|Hn].
  - unfold ext. rewrite (keys_sset_in _ _ _ Hin). split; [exact Hnd | now exists suf].
  - unfold ext. rewrite (keys_sset_notin _ _ _ Hn). split.
    + apply NoDup_app_snoc; assumption.
    + exists (suf ++ [n]). rewrite Hk. now rewrite app_assoc.
Qed.

Lemma ext_recompute : forall k0 t, ext k0 (tr_src t) -> ext k0 (tr_src (recompute t)).
Proof. intros k0 t H. now rewrite recompute_src. Qed.

Lemma ext_wstep : forall k0 t o, ext k0 (tr_src t) -> ext k0 (tr_src (wstep t o)).
Proof.
  intros k0 t o H. destruct o as [n ooo|n ts|n wm]; simpl.
  - unfold register; simpl. now apply ext_sset.
  - unfold observe.
    assert (H1 : ext k0 (tr_src (match sget n (tr_src t) with Some _ => t | None => register t n 0 end))).
    { destruct (sget n (tr_src t)); [exact H|]. unfold register; simpl. now apply ext_sset. }
    set (t1 := match sget n (tr_src t) with Some _ => t | None => register t n 0 end) in *.
    destruct (sget n (tr_src t1)); [|exact H1].
    apply ext_recompute; simpl. now apply ext_sset.
  - unfold advance. destruct (sget n (tr_src t)); [|exact H].
    apply ext_recompute; simpl. now apply ext_sset.
Qed.

Lemma sset_app_notin : forall n s a r, ~ In n (keys a) -> sset n s (a ++ r) = a ++ sset n s r.
Proof.
  intros n s a r. induction a as [|[k s'] a IH]; simpl; intros Hn; [reflexivity|].
  destruct (n =? k) eqn:E.
  - apply Z.eqb_eq in E. subst. exfalso. apply Hn. now left.
  - f_equal. apply IH. intro H. apply Hn. now right.
Qed.

(* restoring the entries [b] over a map whose names are [a]'s followed by a prefix of [b]'s *)
Lemma restore_fold : forall b a r0,
  NoDup (keys (a ++ b)) -> (exists suf, keys b = keys r0 ++ suf) ->
  fold_left (fun m p => sset (fst p) (snd p) m) b (a ++ r0) = a ++ b.
Proof.
  induction b as [|[k s] b IH]; intros a r0 Hnd [suf Hp].
  - simpl in *. destruct r0; [reflexivity|discriminate].
  - assert (Hk : ~ In k (keys a)).
    { unfold keys in *. rewrite map_app in Hnd. simpl in Hnd. apply NoDup_remove_2 in Hnd.
      intro H. apply Hnd. rewrite in_app_iff. now left. }
    assert (Hnd' : NoDup (keys ((a ++ [(k, s)]) ++ b))).
    { rewrite <- app_assoc. exact Hnd. }
    cbn [fold_left fst snd]. rewrite (sset_app_notin _ _ _ _ Hk).
    destruct r0 as [|[k' s0] r0'].
    + cbn [sset]. replace (a ++ [(k, s)]) with ((a ++ [(k, s)]) ++ []) by apply app_nil_r.
      rewrite (IH (a ++ [(k, s)]) [] Hnd'); [now rewrite <- app_assoc|].
      exists (keys b). reflexivity.
    + simpl in Hp. injection Hp as Hkk Hp. subst k'. cbn [sset]. rewrite Z.eqb_refl.
      replace (a ++ (k, s) :: r0') with ((a ++ [(k, s)]) ++ r0') by (now rewrite <- app_assoc).
      rewrite (IH (a ++ [(k, s)]) r0' Hnd'); [now rewrite <- app_assoc|].
      now exists suf.
Qed.

Lemma tr_restore_ext : forall t0 t, ext (keys (tr_src t0)) (tr_src t) -> tr_restore t0 (tr_ckpt t) = t.
Proof.
  intros t0 t [Hnd Hp]. unfold tr_restore, tr_ckpt; simpl.
  pose proof (restore_fold (tr_src t) [] (tr_src t0) Hnd Hp) as R. cbn [app] in R. rewrite R. now destruct t.
Qed.

Lemma ext_refl : forall m, NoDup (keys m) -> ext (keys m) m.
Proof. intros m H. split; [exact H|]. exists []. now rewrite app_nil_r. Qed.

Lemma cwstep_ext : forall t0 t o, ext (keys (tr_src t0)) (tr_src t) ->
  ext (keys (tr_src t0)) (tr_src (cwstep t0 t o)) /\
  cwstep t0 t o = match o with CW o => wstep t o | CWCkr => t end.
Proof.
  intros t0 t [o|] H; cbn [cwstep].
  - split; [now apply ext_wstep | reflexivity].
  - rewrite (tr_restore_ext _ _ H). now split.
Qed.

Lemma cwrun_invisible : forall ops t0 t, ext (keys (tr_src t0)) (tr_src t) ->
  fold_left (cwstep t0) ops t = fold_left wstep (strip_w ops) t.
Proof.
  induction ops as [|o ops IH]; intros t0 t H; [reflexivity|].
  destruct (cwstep_ext t0 t o H) as [He Hs]. cbn [fold_left]. rewrite (IH _ _ He), Hs.
  destruct o; reflexivity.
Qed.

Lemma nodup_reg_all : forall regs, NoDup (keys (tr_src (reg_all regs))).
Proof.
  intros regs. unfold reg_all.
  assert (G : forall t, NoDup (keys (tr_src t)) ->
              NoDup (keys (tr_src (fold_left (fun t p => register t (fst p) (snd p)) regs t)))).
  { induction regs as [|p regs IH]; intros t Ht; [exact Ht|]. cbn [fold_left]. apply IH.
    unfold register; simpl. exact (proj1 (ext_sset [] _ _ _ (conj Ht (ex_intro _ _ eq_refl)))). }
  apply G. constructor.
Qed.

(* ------------------------------------------------------------------ engine *)
Definition tr0 (e : engine) : list (Z * src) := match e_tr e with Some t => tr_src t | None => [] end.

(* states reachable from the loaded program [e0] *)
Definition einv (e0 e : engine) : Prop :=
  e_streams e = e_streams e0 /\
  match e_tr e with
  | Some t => ext (keys (tr0 e0)) (tr_src t)
  | None => e = e0
  end.

Lemma e_restore_inv : forall e0 e, einv e0 e -> e_restore e0 (e_ckpt e) = e.
Proof.
  intros e0 e [Hs Ht]. unfold e_restore, e_ckpt. destruct e as [[t|] ss]; simpl in *.
  - subst ss. f_equal. f_equal. apply tr_restore_ext. unfold tr0 in Ht. destruct (e_tr e0); exact Ht.
  - now subst.
Qed.

Lemma einv_estep : forall e0 e o, einv e0 e -> einv e0 (fst (estep e o)).
Proof.
  intros e0 e o [Hs Ht]. destruct o as [ty ts|n t|n ooo]; simpl.
  - unfold e_event. destruct (e_tr e) as [t|] eqn:Et.
    + destruct (gate_pass _ _ _ _); simpl.
      * split; [exact Hs|]. simpl. exact (ext_wstep _ t (Obs ty ts) Ht).
      * split; [exact Hs|]. rewrite Et. exact Ht.
    + simpl. split; [exact Hs|]. rewrite Et. exact Ht.
  - unfold e_extwm. destruct (e_tr e) as [t0|] eqn:Et; simpl.
    + split; [exact Hs|]. simpl. exact (ext_wstep _ t0 (Adv n t) Ht).
    + split; [exact Hs|]. rewrite Et. exact Ht.
  - unfold e_reg. split; [exact Hs|]. simpl.
    destruct (e_tr e) as [t0|] eqn:Et.
    + exact (ext_wstep _ t0 (Reg n ooo) Ht).
    + subst e. unfold tr0. rewrite Et. simpl. split; [constructor; [intros []|constructor]|]. now exists [n].
Qed.

Lemma nodup_load : forall streams, NoDup (keys (tr0 (load_streams streams))).
Proof.
  intros streams. unfold load_streams, tr0. cbn [e_tr].
  assert (G : forall o, NoDup (keys (match o with Some t => tr_src t | None => [] end)) ->
     NoDup (keys (match fold_left (fun tr s => match c_wm s with
                                | Some ooo => Some (register (match tr with Some t => t | None => tr_new end) (c_src s) ooo)
                                | None => tr
                                end) streams o with Some t => tr_src t | None => [] end))).
  { induction streams as [|s streams IH]; intros o Ho; [exact Ho|]. cbn [fold_left]. apply IH.
    destruct (c_wm s); [|exact Ho]. unfold register; simpl.
    apply (proj1 (ext_sset [] _ _ _ (conj (match o as o' return NoDup (keys (match o' with Some t => tr_src t | None => [] end)) -> NoDup (keys (tr_src (match o' with Some t => t | None => tr_new end))) with Some _ => fun h => h | None => fun h => h end Ho) (ex_intro _ _ eq_refl)))). }
  apply G. constructor.
Qed.

Lemma einv_load : forall streams, einv (load_streams streams) (load_streams streams).
Proof.
  intros streams. split; [reflexivity|].
  pose proof (nodup_load streams) as H. unfold tr0 in *.
  destruct (e_tr (load_streams streams)); [|reflexivity]. now apply ext_refl.
Qed.

Fixpoint erun2 (e : engine) (ops : list eop) : engine * list string :=
  match ops with
  | [] => (e, [])
  | o :: r => let '(e', s) := estep e o in let '(ef, l) := erun2 e' r in (ef, s :: l)
  end.

Lemma cerun_invisible : forall streams ops e,
  einv (load_streams streams) e ->
  cerun false streams e ops = erun2 e (strip_e ops).
Proof.
  intros streams. induction ops as [|o ops IH]; intros e H; [reflexivity|].
  destruct o as [o|].
  - cbn [cerun cestep strip_e flat_map app erun2].
    pose proof (einv_estep _ _ o H) as H'. destruct (estep e o) as [e' s]. simpl in H'.
    fold (strip_e ops). rewrite (IH e' H'). reflexivity.
  - cbn [cerun cestep strip_e flat_map app]. fold (strip_e ops).
    rewrite (e_restore_inv _ _ H). rewrite (IH e H). now destruct (erun2 e (strip_e ops)).
Qed.
