(* Interpreter level: inserting checkpoint -> restore anywhere in a sequence of adds does
   not change what any window type emits (aligned timestamps; sliding count: slide <= 1). *)
From VP Require Import Base.Tactics Window.Model Window.Run Ckpt.Model Ckpt.Run Ckpt.ProofsWin.
Open Scope Z_scope.

(* parameters are never changed by add *)
Lemma t_add_dur : forall w e, t_dur (fst (t_add w e)) = t_dur w.
Proof. intros [d b s] e. unfold t_add. cbn [t_start t_dur t_buf]. destruct (ets e >=? _); reflexivity. Qed.
Lemma s_add_gap : forall w e, s_gap (fst (s_add w e)) = s_gap w.
Proof. intros [g b l] e. unfold s_add. cbn [s_gap s_buf s_last]. destruct l; [destruct (_ >? _)|]; reflexivity. Qed.
Lemma sl_add_params : forall w e, sl_size (fst (sl_add w e)) = sl_size w /\ sl_slide (fst (sl_add w e)) = sl_slide w.
Proof. intros [a b l s] e. unfold sl_add. cbn [sl_size sl_slide sl_buf sl_last]. destruct (match s with Some _ => _ | None => _ end); split; reflexivity. Qed.
Lemma c_add_n : forall w e, c_n (fst (c_add w e)) = c_n w.
Proof. intros [n b] e. unfold c_add. cbn [c_n c_buf]. destruct (_ <=? _)%nat; reflexivity. Qed.
Lemma sc_add_size : forall w e, sc_size (fst (sc_add w e)) = sc_size w.
Proof. intros [a b l s] e. unfold sc_add. cbn [sc_size sc_slide sc_buf sc_since]. destruct (_ && _); reflexivity. Qed.

(* element invariants of the partition maps: aligned + the parameters of the wrapper *)
Definition pt_el (d : Z) (w : tumbling) : Prop := t_al w /\ t_dur w = d.
Definition ps_el (g : Z) (w : session) : Prop := s_al w /\ s_gap w = g.
Definition psl_el (a b : Z) (w : sliding) : Prop := sl_al w /\ sl_size w = a /\ sl_slide w = b.
Definition pc_el (n : nat) (w : cwin) : Prop := c_al w /\ c_n w = n.
Definition psc_el (a b : nat) (w : scount) : Prop := sc_al w /\ sc_size w = a /\ sc_slide w = b.

Definition ws_al (s : wstate) : Prop :=
  match s with
  | WT w => t_al w | WC w => c_al w | WS w => s_al w | WSl w => sl_al w | WSc w => sc_al w
  | WPT d m => pm_all (pt_el d) m
  | WPS g m => pm_all (ps_el g) m
  | WPSl a b m => pm_all (psl_el a b) m
  | WPC n m => pm_all (pc_el n) m
  | WPSc a b m => pm_all (psc_el a b) m
  end.

(* the only parameter condition: a sliding count window must slide by at most 1 *)
Definition ws_ok (s : wstate) : Prop :=
  match s with
  | WSc w => (sc_slide w <= 1)%nat
  | WPSc a b m => (b <= 1)%nat
  | _ => True
  end.

(* what survives a checkpoint: everything but the slide counters *)
Definition ws_norm (s : wstate) : wstate :=
  match s with
  | WSc w => WSc (sc_norm w)
  | WPSc a b m => WPSc a b (pm_norm sc_norm m)
  | _ => s
  end.

Lemma pm_norm_id : forall {W} (m : list (Z * W)), pm_norm (fun w => w) m = m.
Proof. intros W m. unfold pm_norm. induction m as [|[k w] m IH]; [reflexivity|]. cbn. rewrite IH. reflexivity. Qed.

Lemma sc_norm_idem : forall w, sc_norm (sc_norm w) = sc_norm w.
Proof. reflexivity. Qed.

(* ---- checkpoint -> restore ---- *)
Lemma ws_cp_norm : forall s, ws_al s -> ws_norm (ws_cp s) = ws_norm s.
Proof.
  intros [w|w|w|w|w|d m|g m|a b m|n m|a b m] H; cbn [ws_cp ws_norm ws_al] in *.
  - rewrite t_rt by assumption. reflexivity.
  - rewrite c_rt by assumption. reflexivity.
  - rewrite s_rt by assumption. reflexivity.
  - rewrite sl_rt by assumption. reflexivity.
  - rewrite sc_rt by assumption. reflexivity.
  - f_equal. unfold pt_restore, pt_checkpoint.
    rewrite (parts_rt (pt_el d) (fun w => w)); [apply pm_norm_id| |assumption].
    intros [d' b s] [[Hb Hs] Hd]. cbn in *. subst. rewrite evs_rt, opt_rt by assumption. reflexivity.
  - f_equal. unfold ps_restore, ps_checkpoint.
    rewrite (parts_rt (ps_el g) (fun w => w)); [apply pm_norm_id| |assumption].
    intros [g' b l] [[Hb Hs] Hd]. cbn in *. subst. rewrite evs_rt, opt_rt by assumption. reflexivity.
  - f_equal. unfold psl_restore, psl_checkpoint.
    rewrite (parts_rt (psl_el a b) (fun w => w)); [apply pm_norm_id| |assumption].
    intros [a' b' l s] [[Hb Hs] [Ha Hb']]. cbn in *. subst. rewrite evs_rt, opt_rt by assumption. reflexivity.
  - f_equal. unfold pc_restore, pc_checkpoint.
    rewrite (parts_rt (pc_el n) (fun w => w)); [apply pm_norm_id| |assumption].
    intros [n' b] [Hb Hd]. unfold c_al in Hb. cbn in *. subst. rewrite evs_rt by assumption. reflexivity.
  - f_equal. unfold psc_restore, psc_checkpoint.
    rewrite (parts_rt (psc_el a b) sc_norm); [| |assumption].
    + unfold pm_norm. rewrite map_map. cbn [fst snd]. reflexivity.
    + intros [a' b' l s] [Hb [Ha Hb']]. unfold sc_al in Hb. cbn in *. subst. unfold sc_norm. cbn.
      rewrite evs_rt by assumption. reflexivity.
Qed.

Lemma pm_all_norm : forall {W} (P : W -> Prop) (f : W -> W) m,
  (forall w, P w -> P (f w)) -> pm_all P m -> pm_all P (pm_norm f m).
Proof.
  intros W P f m Hf H. unfold pm_all, pm_norm in *. induction m as [|[k w] m IH]; [constructor|].
  inversion H; subst. cbn. constructor; [apply Hf; assumption|apply IH; assumption].
Qed.

(* alignment and the parameter condition only depend on what a checkpoint keeps *)
Lemma ws_al_of_norm : forall s s', ws_norm s = ws_norm s' -> ws_al s -> ws_al s'.
Proof.
  intros s s' H Hal.
  destruct s as [w|w|w|w|w|d m|g m|a b m|n m|a b m], s' as [w'|w'|w'|w'|w'|d' m'|g' m'|a' b' m'|n' m'|a' b' m'];
    cbn [ws_norm] in H; try discriminate; try (inversion H; subst; exact Hal).
  - inversion H as [H1]. destruct w, w'. unfold sc_norm in H1. cbn in *. inversion H1; subst. exact Hal.
  - inversion H as [[Ha Hb Hm]]. subst. cbn [ws_al] in *. clear H.
    unfold pm_norm in Hm. revert m' Hm. induction m as [|[k w] m IH]; intros [|[k' w'] m'] Hm; cbn in Hm; try discriminate.
    + constructor.
    + inversion Hm as [[Hk Hw Hr]]. inversion Hal; subst. constructor.
      * destruct w, w'. unfold sc_norm in Hw. cbn in *. inversion Hw; subst. assumption.
      * apply IH; assumption.
Qed.

Lemma ws_ok_of_norm : forall s s', ws_norm s = ws_norm s' -> ws_ok s -> ws_ok s'.
Proof.
  intros s s' H Hok.
  destruct s as [w|w|w|w|w|d m|g m|a b m|n m|a b m], s' as [w'|w'|w'|w'|w'|d' m'|g' m'|a' b' m'|n' m'|a' b' m'];
    cbn [ws_norm] in H; try discriminate; try exact I; try (inversion H; subst; exact Hok).
  inversion H as [H1]. destruct w, w'. unfold sc_norm in H1. cbn in *. inversion H1; subst. exact Hok.
Qed.

(* ---- one add ---- *)
Lemma step_add_al : forall s e, ws_al s -> ev_al e -> ws_al (fst (step s (Add e))).
Proof.
  intros [w|w|w|w|w|d m|g m|a b m|n m|a b m] e H He; cbn [step].
  - pose proof (t_add_al w e H He). destruct (t_add w e); assumption.
  - pose proof (c_add_al w e H He). destruct (c_add w e); assumption.
  - pose proof (s_add_al w e H He). destruct (s_add w e); assumption.
  - pose proof (sl_add_al w e H He). destruct (sl_add w e); assumption.
  - pose proof (sc_add_al w e H He). destruct (sc_add w e); assumption.
  - unfold pt_add. pose proof (p_add_all_al (t_new d) t_add (pt_el d)) as P.
    specialize (P ltac:(repeat split; constructor)).
    specialize (P ltac:(intros w0 e0 [A B] E; split; [apply t_add_al; assumption|rewrite t_add_dur; assumption])).
    specialize (P m e H He). destruct (p_add (t_new d) t_add m e). assumption.
  - unfold ps_add. pose proof (p_add_all_al (s_new g) s_add (ps_el g)) as P.
    specialize (P ltac:(repeat split; constructor)).
    specialize (P ltac:(intros w0 e0 [A B] E; split; [apply s_add_al; assumption|rewrite s_add_gap; assumption])).
    specialize (P m e H He). destruct (p_add (s_new g) s_add m e). assumption.
  - unfold psl_add. pose proof (p_add_all_al (sl_new a b) sl_add (psl_el a b)) as P.
    specialize (P ltac:(repeat split; constructor)).
    specialize (P ltac:(intros w0 e0 [A [B C]] E; destruct (sl_add_params w0 e0) as [P1 P2];
                        repeat split; try (apply sl_add_al; assumption); congruence)).
    specialize (P m e H He). destruct (p_add (sl_new a b) sl_add m e). assumption.
  - unfold pc_add. pose proof (p_add_all_al (c_new n) c_add (pc_el n)) as P.
    specialize (P ltac:(repeat split; constructor)).
    specialize (P ltac:(intros w0 e0 [A B] E; split; [apply c_add_al; assumption|rewrite c_add_n; assumption])).
    specialize (P m e H He). destruct (p_add (c_new n) c_add m e). assumption.
  - unfold psc_add. pose proof (p_add_all_al (sc_new a b) sc_add (psc_el a b)) as P.
    specialize (P ltac:(repeat split; constructor)).
    specialize (P ltac:(intros w0 e0 [A [B C]] E; repeat split;
                        [apply sc_add_al; assumption|rewrite sc_add_size; assumption|rewrite sc_add_slide; assumption])).
    specialize (P m e H He). destruct (p_add (sc_new a b) sc_add m e). assumption.
Qed.

Lemma step_add_ok : forall s e, ws_ok s -> ws_ok (fst (step s (Add e))).
Proof.
  intros [w|w|w|w|w|d m|g m|a b m|n m|a b m] e H; cbn [step]; try (destruct (_ : _ * _); exact I).
  - destruct (t_add w e); exact I.
  - destruct (c_add w e); exact I.
  - destruct (s_add w e); exact I.
  - destruct (sl_add w e); exact I.
  - pose proof (sc_add_slide w e) as P. destruct (sc_add w e). cbn in *. lia.
  - destruct (pt_add d m e); exact I.
  - destruct (ps_add g m e); exact I.
  - destruct (psl_add a b m e); exact I.
  - destruct (pc_add n m e); exact I.
  - destruct (psc_add a b m e). exact H.
Qed.

(* states that agree up to the slide counters emit the same and stay in agreement *)
Lemma step_add_sim : forall s s' e,
  ws_norm s = ws_norm s' -> ws_ok s -> ws_al s ->
  snd (step s (Add e)) = snd (step s' (Add e)) /\
  ws_norm (fst (step s (Add e))) = ws_norm (fst (step s' (Add e))).
Proof.
  intros s s' e H Hok Hal.
  destruct s as [w|w|w|w|w|d m|g m|a b m|n m|a b m], s' as [w'|w'|w'|w'|w'|d' m'|g' m'|a' b' m'|n' m'|a' b' m'];
    cbn [ws_norm] in H; try discriminate; try (inversion H; subst; split; reflexivity).
  - (* sliding count *)
    assert (H1 : sc_norm w = sc_norm w') by congruence. cbn [ws_ok] in Hok.
    destruct (sc_add_sim w w' e H1 Hok) as [A B].
    cbn [step]. destruct (sc_add w e), (sc_add w' e). cbn in *. subst. split; [reflexivity|]. cbn [ws_norm]. congruence.
  - (* partitioned sliding count *)
    assert (Ha : a = a') by congruence. assert (Hb : b = b') by congruence.
    assert (Hm : pm_norm sc_norm m = pm_norm sc_norm m') by congruence.
    subst a' b'. cbn [ws_ok ws_al] in *. cbn [step]. unfold psc_add.
    assert (Hoks : pm_all (fun w => (sc_slide w <= 1)%nat) m).
    { unfold pm_all in *. eapply Forall_impl; [|exact Hal]. intros [k w] [_ [_ Hs]]. cbn in *. lia. }
    pose proof (p_add_sim (sc_new a b) sc_add (fun w => (sc_slide w <= 1)%nat) sc_norm) as P.
    specialize (P ltac:(cbn; exact Hok)).
    specialize (P ltac:(intros w0 w1 e0 E O; apply sc_add_sim; assumption)).
    destruct (P m m' e Hm Hoks) as [A B].
    destruct (p_add (sc_new a b) sc_add m e) as [m1 o1], (p_add (sc_new a b) sc_add m' e) as [m1' o1']. cbn [fst snd] in *. subst o1'.
    split; [reflexivity|]. cbn [ws_norm]. f_equal. exact B.
Qed.

(* ---- whole sequences ---- *)
Definition is_add (o : cop) : bool := match o with CAdd _ => true | CCp => false end.
Definition cop_al (o : cop) : Prop := match o with CAdd e => ev_al e | CCp => True end.

Lemma crun_sim : forall ops s s',
  ws_norm s = ws_norm s' -> ws_ok s -> ws_al s -> Forall cop_al ops ->
  adds_only (fst (crun s ops)) = adds_only (fst (crun s' (filter is_add ops))).
Proof.
  induction ops as [|o ops IH]; intros s s' H Hok Hal Hops; [reflexivity|].
  inversion Hops as [|? ? Ho Hr]; subst.
  destruct o as [e|].
  - cbn [filter is_add crun cstep].
    destruct (step_add_sim s s' e H Hok Hal) as [A B].
    pose proof (step_add_ok s e Hok) as Hok1. pose proof (step_add_al s e Hal Ho) as Hal1.
    destruct (step s (Add e)) as [s1 r1]. destruct (step s' (Add e)) as [s1' r1']. cbn [fst snd] in *. subst r1'.
    specialize (IH s1 s1' B Hok1 Hal1 Hr).
    destruct (crun s1 ops) as [xs t]. destruct (crun s1' (filter is_add ops)) as [xs' t']. cbn [fst] in *.
    unfold adds_only in *. cbn [flat_map app]. f_equal. exact IH.
  - cbn [filter is_add crun cstep].
    pose proof (ws_cp_norm s Hal) as Hn.
    assert (H' : ws_norm (ws_cp s) = ws_norm s') by congruence.
    assert (Hal' : ws_al (ws_cp s)) by (eapply ws_al_of_norm; [symmetry; exact Hn|exact Hal]).
    assert (Hok' : ws_ok (ws_cp s)) by (eapply ws_ok_of_norm; [symmetry; exact Hn|exact Hok]).
    specialize (IH (ws_cp s) s' H' Hok' Hal' Hr).
    destruct (crun (ws_cp s) ops) as [xs t]. cbn [fst] in *. unfold adds_only in *. cbn [flat_map app]. exact IH.
Qed.

Definition kind_ok (k : kind) : Prop :=
  match k with
  | KSlidingCount _ slide | KPSlidingCount _ slide => (slide <= 1)%nat
  | _ => True
  end.

Lemma init_al : forall k, ws_al (init k).
Proof. intros []; cbn; try constructor; try (split; constructor); constructor. Qed.

Lemma init_ok : forall k, kind_ok k -> ws_ok (init k).
Proof. intros [] H; cbn in *; try exact I; assumption. Qed.

Theorem windows_checkpoint_invisible : forall k ops,
  kind_ok k -> Forall cop_al ops ->
  adds_only (fst (crun (init k) ops)) = adds_only (fst (crun (init k) (filter is_add ops))).
Proof.
  intros k ops Hk Hops. apply crun_sim; [reflexivity|apply init_ok; assumption|apply init_al|assumption].
Qed.
