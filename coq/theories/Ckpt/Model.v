(* Executable model of checkpoint / restore of the stateful stream components
   (definitions only).  Built on the window state machines of Window/Model.v (imported
   read-only); timestamps are unbounded Z ticks, one tick = 1 ns here.

   Mirrors, function by function:
     crates/varpulis-runtime/src/persistence.rs
        SerializableEvent::from(&Event)            -> ev_ser     (timestamp_millis: floor to ms)
        Event::from(SerializableEvent)             -> ev_de      (from_timestamp_millis)
        WindowCheckpoint / PartitionedWindowCheckpoint -> wcp / pwcp
     crates/varpulis-runtime/src/window.rs
        TumblingWindow::checkpoint / restore       -> t_checkpoint / t_restore
        SlidingWindow::checkpoint / restore        -> sl_checkpoint / sl_restore
        CountWindow::checkpoint / restore          -> c_checkpoint / c_restore
        SlidingCountWindow::checkpoint / restore   -> sc_checkpoint / sc_restore   (events_since_emit := 0)
        SessionWindow::checkpoint / restore        -> s_checkpoint / s_restore     (last_event_time in window_start_ms)
        Partitioned{Tumbling,Sliding,Session}Window::checkpoint / restore
                                                   -> pt_/psl_/ps_ checkpoint / restore
     crates/varpulis-runtime/src/engine/mod.rs create_checkpoint / restore_checkpoint
        RuntimeOp::PartitionedWindow arm           -> pc_checkpoint / pc_restore
        RuntimeOp::PartitionedSlidingCountWindow arm -> psc_checkpoint / psc_restore
        RuntimeOp::Distinct arm (LRU key snapshot) -> d_checkpoint / d_restore
        RuntimeOp::Limit arm                       -> l_checkpoint / l_restore

   The serde_json round trip of the checkpoint value is the identity here (C20's subject).
   An event is Window.Model.ev = (arrival id, timestamp, partition key): the HashMap of
   fields (whose order a restored event loses) is not modelled. *)
From VP Require Import Base.Tactics Window.Model.
Open Scope Z_scope.

Definition MS : Z := 1000000.                       (* ticks (ns) per millisecond *)
Definition to_ms (t : Z) : Z := t / MS.             (* DateTime::timestamp_millis *)
Definition of_ms (m : Z) : Z := m * MS.             (* DateTime::from_timestamp_millis *)

(* serialised event: id, timestamp in ms, key *)
Record sev := mkSev { sv_id : Z; sv_ms : Z; sv_key : Z }.
Definition ev_ser (e : ev) : sev := mkSev (eid e) (to_ms (ets e)) (ekey e).
Definition ev_de (s : sev) : ev := mkEv (sv_id s) (of_ms (sv_ms s)) (sv_key s).

Record pwcp := mkPcp { pc_events : list sev; pc_start_ms : option Z }.
Record wcp := mkWcp {
  w_events : list sev;
  w_start_ms : option Z;
  w_last_emit_ms : option Z;
  w_parts : list (Z * pwcp)
}.

(* ---------------------------------------------------------------- single windows *)
Definition t_checkpoint (w : tumbling) : wcp :=
  mkWcp (map ev_ser (t_buf w)) (option_map to_ms (t_start w)) None [].
Definition t_restore (w : tumbling) (c : wcp) : tumbling :=
  mkT (t_dur w) (map ev_de (w_events c)) (option_map of_ms (w_start_ms c)).

Definition sl_checkpoint (w : sliding) : wcp :=
  mkWcp (map ev_ser (sl_buf w)) None (option_map to_ms (sl_last w)) [].
Definition sl_restore (w : sliding) (c : wcp) : sliding :=
  mkSl (sl_size w) (sl_slide w) (map ev_de (w_events c)) (option_map of_ms (w_last_emit_ms c)).

Definition c_checkpoint (w : cwin) : wcp := mkWcp (map ev_ser (c_buf w)) None None [].
Definition c_restore (w : cwin) (c : wcp) : cwin := mkC (c_n w) (map ev_de (w_events c)).

Definition sc_checkpoint (w : scount) : wcp := mkWcp (map ev_ser (sc_buf w)) None None [].
(* `self.events_since_emit = 0;` *)
Definition sc_restore (w : scount) (c : wcp) : scount :=
  mkSc (sc_size w) (sc_slide w) (map ev_de (w_events c)) 0%nat.

Definition s_checkpoint (w : session) : wcp :=
  mkWcp (map ev_ser (s_buf w)) (option_map to_ms (s_last w)) None [].
Definition s_restore (w : session) (c : wcp) : session :=
  mkS (s_gap w) (map ev_de (w_events c)) (option_map of_ms (w_start_ms c)).

(* ------------------------------------------------------------ partitioned windows *)
Definition parts_cp {W} (f : W -> pwcp) (m : list (Z * W)) : wcp :=
  mkWcp [] None None (map (fun kw => (fst kw, f (snd kw))) m).
(* `self.windows.clear(); for (key, pcp) in &cp.partitions { ... insert(key, window) }` *)
Definition parts_restore {W} (g : pwcp -> W) (c : wcp) : list (Z * W) :=
  map (fun kp => (fst kp, g (snd kp))) (w_parts c).

Definition pt_checkpoint (m : list (Z * tumbling)) : wcp :=
  parts_cp (fun w => mkPcp (map ev_ser (t_buf w)) (option_map to_ms (t_start w))) m.
Definition pt_restore (d : Z) (c : wcp) : list (Z * tumbling) :=
  parts_restore (fun p => mkT d (map ev_de (pc_events p)) (option_map of_ms (pc_start_ms p))) c.

Definition ps_checkpoint (m : list (Z * session)) : wcp :=
  parts_cp (fun w => mkPcp (map ev_ser (s_buf w)) (option_map to_ms (s_last w))) m.
Definition ps_restore (g : Z) (c : wcp) : list (Z * session) :=
  parts_restore (fun p => mkS g (map ev_de (pc_events p)) (option_map of_ms (pc_start_ms p))) c.

(* last_emit travels in window_start_ms *)
Definition psl_checkpoint (m : list (Z * sliding)) : wcp :=
  parts_cp (fun w => mkPcp (map ev_ser (sl_buf w)) (option_map to_ms (sl_last w))) m.
Definition psl_restore (size slide : Z) (c : wcp) : list (Z * sliding) :=
  parts_restore (fun p => mkSl size slide (map ev_de (pc_events p)) (option_map of_ms (pc_start_ms p))) c.

(* engine arms: per partition CountWindow / SlidingCountWindow checkpoint, restored with
   `entry(key).or_insert_with(new)` into the (empty) map of a freshly loaded engine *)
Definition pc_checkpoint (m : list (Z * cwin)) : wcp :=
  parts_cp (fun w => mkPcp (map ev_ser (c_buf w)) None) m.
Definition pc_restore (n : nat) (c : wcp) : list (Z * cwin) :=
  parts_restore (fun p => mkC n (map ev_de (pc_events p))) c.

Definition psc_checkpoint (m : list (Z * scount)) : wcp :=
  parts_cp (fun w => mkPcp (map ev_ser (sc_buf w)) None) m.
Definition psc_restore (size slide : nat) (c : wcp) : list (Z * scount) :=
  parts_restore (fun p => mkSc size slide (map ev_de (pc_events p)) 0%nat) c.

(* ------------------------------------------------------------------ distinct, limit *)
(* hashlink::LruCache<String, ()>: keys from least to most recently used, bounded *)
Record distinct := mkD { d_cap : nat; d_seen : list N }.

Fixpoint remove_N (k : N) (l : list N) : list N :=
  match l with
  | [] => []
  | x :: r => if (x =? k)%N then r else x :: remove_N k r
  end.
Definition mem_key (k : N) (l : list N) : bool := existsb (N.eqb k) l.

(* `state.seen.insert(key, ()).is_none()`: true = first time seen (event passes) *)
Definition d_insert (d : distinct) (k : N) : distinct * bool :=
  if mem_key k (d_seen d)
  then (mkD (d_cap d) (remove_N k (d_seen d) ++ [k]), false)
  else
    let l := d_seen d ++ [k] in
    (mkD (d_cap d) (skipn (length l - d_cap d) l), true).

(* `state.seen.iter().rev()`: most recent first *)
Definition d_checkpoint (d : distinct) : list N := rev (d_seen d).
(* `seen.clear(); for key in keys.iter().rev() { seen.insert(key, ()) }` *)
Definition d_restore (d : distinct) (keys : list N) : distinct :=
  fold_left (fun acc k => fst (d_insert acc k)) (rev keys) (mkD (d_cap d) []).

Record limit := mkL { l_max : nat; l_count : nat }.
(* `remaining = max.saturating_sub(count); truncate(remaining); count += len` on a batch of n events *)
Definition l_pass (l : limit) (n : nat) : limit * nat :=
  let r := Nat.min n (l_max l - l_count l) in (mkL (l_max l) (l_count l + r), r).
Definition l_checkpoint (l : limit) : nat * nat := (l_max l, l_count l).
Definition l_restore (_ : limit) (c : nat * nat) : limit := mkL (fst c) (snd c).
