(* Checkpoint -> restore of every window type is invisible in what the window emits
   afterwards, for millisecond-aligned timestamps and (sliding count windows) slide <= 1.
   Component lemmas first, then the generic partitioned wrapper, then the interpreter. *)
From VP Require Import Base.Tactics Window.Model Window.Run Ckpt.Model Ckpt.Run.
Open Scope Z_scope.

(* ---- millisecond alignment ---- *)
Definition al (t : Z) : Prop := of_ms (to_ms t) = t.
Definition ev_al (e : ev) : Prop := al (ets e).
Definition oal (o : option Z) : Prop := match o with Some t => al t | None => True end.

Lemma ev_rt : forall e, ev_al e -> ev_de (ev_ser e) = e.
Proof. intros [i t k] H. unfold ev_al, al in H. cbn in *. unfold ev_de, ev_ser. cbn. rewrite H. reflexivity. Qed.

Lemma evs_rt : forall l, Forall ev_al l -> map ev_de (map ev_ser l) = l.
Proof.
  induction l as [|e l IH]; intros H; [reflexivity|].
  inversion H; subst. cbn [map]. rewrite ev_rt by assumption. rewrite IH by assumption. reflexivity.
Qed.

Lemma opt_rt : forall o, oal o -> option_map of_ms (option_map to_ms o) = o.
Proof. intros [t|] H; [|reflexivity]. cbn in *. unfold al in H. rewrite H. reflexivity. Qed.

(* ---- single windows: aligned state, round trip, alignment preserved by add ---- *)
Definition t_al (w : tumbling) : Prop := Forall ev_al (t_buf w) /\ oal (t_start w).
Definition sl_al (w : sliding) : Prop := Forall ev_al (sl_buf w) /\ oal (sl_last w).
Definition c_al (w : cwin) : Prop := Forall ev_al (c_buf w).
Definition sc_al (w : scount) : Prop := Forall ev_al (sc_buf w).
Definition s_al (w : session) : Prop := Forall ev_al (s_buf w) /\ oal (s_last w).

Lemma t_rt : forall w, t_al w -> t_restore (t_new (t_dur w)) (t_checkpoint w) = w.
Proof. intros [d b s] [Hb Hs]. cbn in *. unfold t_restore, t_checkpoint. cbn. rewrite evs_rt, opt_rt by assumption. reflexivity. Qed.

Lemma sl_rt : forall w, sl_al w -> sl_restore (sl_new (sl_size w) (sl_slide w)) (sl_checkpoint w) = w.
Proof. intros [a b l s] [Hb Hs]. cbn in *. unfold sl_restore, sl_checkpoint. cbn. rewrite evs_rt, opt_rt by assumption. reflexivity. Qed.

Lemma c_rt : forall w, c_al w -> c_restore (c_new (c_n w)) (c_checkpoint w) = w.
Proof. intros [n b] Hb. unfold c_al in Hb. cbn in *. unfold c_restore, c_checkpoint. cbn. rewrite evs_rt by assumption. reflexivity. Qed.

Lemma s_rt : forall w, s_al w -> s_restore (s_new (s_gap w)) (s_checkpoint w) = w.
Proof. intros [g b l] [Hb Hs]. cbn in *. unfold s_restore, s_checkpoint. cbn. rewrite evs_rt, opt_rt by assumption. reflexivity. Qed.

(* the sliding count window comes back with its slide counter reset *)
Definition sc_norm (w : scount) : scount := mkSc (sc_size w) (sc_slide w) (sc_buf w) 0%nat.

Lemma sc_rt : forall w, sc_al w ->
  sc_restore (sc_new (sc_size w) (sc_slide w)) (sc_checkpoint w) = sc_norm w.
Proof. intros [a b l s] Hb. unfold sc_al in Hb. cbn in *. unfold sc_restore, sc_checkpoint, sc_norm. cbn. rewrite evs_rt by assumption. reflexivity. Qed.

Lemma Forall_app2 : forall {A} (P : A -> Prop) l x, Forall P l -> P x -> Forall P (l ++ [x]).
Proof. intros. apply Forall_app. split; [assumption|]. constructor; [assumption|constructor]. Qed.

Lemma t_add_al : forall w e, t_al w -> ev_al e -> t_al (fst (t_add w e)).
Proof.
  intros [d b s] e [Hb Hs] He. unfold t_add. cbn [t_start t_dur t_buf].
  destruct s as [s|]; cbn in Hs.
  - destruct (ets e >=? s + d); cbn; split; try assumption.
    + constructor; [assumption|constructor].
    + apply Forall_app2; assumption.
  - destruct (ets e >=? ets e + d); cbn; split; try assumption.
    + constructor; [assumption|constructor].
    + apply Forall_app2; assumption.
Qed.

Lemma drop_lt_al : forall c l, Forall ev_al l -> Forall ev_al (drop_lt c l).
Proof.
  induction l as [|x l IH]; intros H; [constructor|].
  cbn. destruct (ets x >=? c); [assumption|]. apply IH. inversion H; assumption.
Qed.

Lemma sl_add_al : forall w e, sl_al w -> ev_al e -> sl_al (fst (sl_add w e)).
Proof.
  intros [a b l s] e [Hb Hs] He. unfold sl_add. cbn [sl_size sl_slide sl_buf sl_last].
  assert (Hd : Forall ev_al (drop_lt (ets e - a) (l ++ [e]))) by (apply drop_lt_al, Forall_app2; assumption).
  destruct (match s with Some l0 => ets e >=? l0 + b | None => true end); cbn; split; assumption.
Qed.

Lemma c_add_al : forall w e, c_al w -> ev_al e -> c_al (fst (c_add w e)).
Proof.
  intros [n b] e Hb He. unfold c_add, c_al in *. cbn [c_n c_buf] in *.
  destruct (n <=? length (b ++ [e]))%nat; cbn; [constructor|apply Forall_app2; assumption].
Qed.

Lemma skipn_al : forall n l, Forall ev_al l -> Forall ev_al (skipn n l).
Proof.
  induction n as [|n IH]; intros l H; [assumption|]. destruct l; [constructor|]. cbn. apply IH. inversion H; assumption.
Qed.

Lemma sc_add_al : forall w e, sc_al w -> ev_al e -> sc_al (fst (sc_add w e)).
Proof.
  intros [a b l s] e Hb He. unfold sc_add, sc_al in *. cbn [sc_size sc_slide sc_buf sc_since] in *.
  assert (Hd : Forall ev_al (skipn (length (l ++ [e]) - a) (l ++ [e]))) by (apply skipn_al, Forall_app2; assumption).
  destruct ((a <=? length (skipn (length (l ++ [e]) - a) (l ++ [e])))%nat && (b <=? S s)%nat); cbn; assumption.
Qed.

Lemma s_add_al : forall w e, s_al w -> ev_al e -> s_al (fst (s_add w e)).
Proof.
  intros [g b l] e [Hb Hs] He. unfold s_add. cbn [s_gap s_buf s_last].
  destruct l as [l|].
  - destruct (ets e - l >? g); cbn; split; try assumption.
    + constructor; [assumption|constructor].
    + apply Forall_app2; assumption.
  - cbn; split; [apply Forall_app2; assumption|assumption].
Qed.

(* sliding count: states that differ only in the slide counter emit the same when slide <= 1 *)
Lemma sc_add_sim : forall w w' e,
  sc_norm w = sc_norm w' -> (sc_slide w <= 1)%nat ->
  snd (sc_add w e) = snd (sc_add w' e) /\ sc_norm (fst (sc_add w e)) = sc_norm (fst (sc_add w' e)).
Proof.
  intros [a b l s] [a' b' l' s'] e H Hs. unfold sc_norm in H. cbn in H. inversion H; subst a' b' l'. cbn in Hs.
  unfold sc_add. cbn [sc_size sc_slide sc_buf sc_since].
  assert (H1 : (b <=? S s)%nat = true) by (apply Nat.leb_le; lia).
  assert (H2 : (b <=? S s')%nat = true) by (apply Nat.leb_le; lia).
  rewrite H1, H2.
  destruct (a <=? length (skipn (length (l ++ [e]) - a) (l ++ [e])))%nat; cbn; split; reflexivity.
Qed.

Lemma sc_add_slide : forall w e, sc_slide (fst (sc_add w e)) = sc_slide w.
Proof.
  intros [a b l s] e. unfold sc_add. cbn [sc_size sc_slide sc_buf sc_since].
  destruct ((a <=? length (skipn (length (l ++ [e]) - a) (l ++ [e])))%nat && (b <=? S s)%nat); reflexivity.
Qed.

(* ---- generic partitioned wrapper ---- *)
Section Part.
  Context {W : Type}.
  Variable wnew : W.
  Variable wadd : W -> ev -> W * option (list ev).
  Variable wal : W -> Prop.          (* aligned *)
  Variable wok : W -> Prop.          (* parameter condition (slide <= 1) *)
  Variable wnorm : W -> W.           (* what a checkpoint keeps *)

  Hypothesis new_al : wal wnew.
  Hypothesis new_ok : wok wnew.
  Hypothesis add_al : forall w e, wal w -> ev_al e -> wal (fst (wadd w e)).
  Hypothesis add_ok : forall w e, wok w -> wok (fst (wadd w e)).
  Hypothesis add_sim : forall w w' e, wnorm w = wnorm w' -> wok w ->
    snd (wadd w e) = snd (wadd w' e) /\ wnorm (fst (wadd w e)) = wnorm (fst (wadd w' e)).

  Definition pm_all (P : W -> Prop) (m : list (Z * W)) : Prop := Forall (fun kw => P (snd kw)) m.
  Definition pm_norm (m : list (Z * W)) : list (Z * W) := map (fun kw => (fst kw, wnorm (snd kw))) m.

  Lemma pget_all : forall (P : W -> Prop) k m, pm_all P m -> P wnew -> P (pget_or_new wnew k m).
  Proof.
    intros P k m H Hn. unfold pget_or_new. induction m as [|[k' w] m IH]; [exact Hn|].
    cbn. inversion H; subst. destruct (k =? k'); [assumption|]. apply IH; assumption.
  Qed.

  Lemma pset_all : forall (P : W -> Prop) k w m, pm_all P m -> P w -> pm_all P (pset k w m).
  Proof.
    intros P k w m H Hw. induction m as [|[k' w'] m IH]; cbn.
    - constructor; [assumption|constructor].
    - inversion H; subst. destruct (k =? k'); constructor; cbn; try assumption. apply IH; assumption.
  Qed.

  Lemma pget_norm : forall k m m', pm_norm m = pm_norm m' ->
    wnorm (pget_or_new wnew k m) = wnorm (pget_or_new wnew k m').
  Proof.
    intros k m. unfold pget_or_new. induction m as [|[k1 w1] m IH]; intros [|[k2 w2] m'] H; cbn in H; try discriminate.
    - reflexivity.
    - inversion H; subst. cbn. destruct (k =? k2); [assumption|]. apply IH; assumption.
  Qed.

  Lemma pset_norm : forall k w w' m m', pm_norm m = pm_norm m' -> wnorm w = wnorm w' ->
    pm_norm (pset k w m) = pm_norm (pset k w' m').
  Proof.
    intros k w w' m. induction m as [|[k1 w1] m IH]; intros [|[k2 w2] m'] H Hw; cbn in H; try discriminate.
    - cbn. rewrite Hw. reflexivity.
    - inversion H; subst. cbn [pset]. destruct (k =? k2); unfold pm_norm; cbn [map fst snd].
      + f_equal; [congruence|assumption].
      + f_equal; [congruence|]. apply IH; assumption.
  Qed.

  Lemma p_add_all_al : forall m e, pm_all wal m -> ev_al e -> pm_all wal (fst (p_add wnew wadd m e)).
  Proof.
    intros m e H He. unfold p_add.
    pose proof (add_al (pget_or_new wnew (pkey e) m) e (pget_all wal _ _ H new_al) He) as H1.
    destruct (wadd (pget_or_new wnew (pkey e) m) e) as [w' o]. cbn in *. apply pset_all; assumption.
  Qed.

  Lemma p_add_all_ok : forall m e, pm_all wok m -> pm_all wok (fst (p_add wnew wadd m e)).
  Proof.
    intros m e H. unfold p_add.
    pose proof (add_ok (pget_or_new wnew (pkey e) m) e (pget_all wok _ _ H new_ok)) as H1.
    destruct (wadd (pget_or_new wnew (pkey e) m) e) as [w' o]. cbn in *. apply pset_all; assumption.
  Qed.

  Lemma p_add_sim : forall m m' e, pm_norm m = pm_norm m' -> pm_all wok m ->
    snd (p_add wnew wadd m e) = snd (p_add wnew wadd m' e) /\
    pm_norm (fst (p_add wnew wadd m e)) = pm_norm (fst (p_add wnew wadd m' e)).
  Proof.
    intros m m' e H Hok. unfold p_add.
    pose proof (add_sim _ _ e (pget_norm (pkey e) m m' H) (pget_all wok _ _ Hok new_ok)) as [H1 H2].
    destruct (wadd (pget_or_new wnew (pkey e) m) e) as [w1 o1].
    destruct (wadd (pget_or_new wnew (pkey e) m') e) as [w2 o2]. cbn in *.
    split; [assumption|]. apply pset_norm; assumption.
  Qed.

  (* round trip of the partition map *)
  Lemma parts_rt : forall (f : W -> pwcp) (g : pwcp -> W) m,
    (forall w, wal w -> g (f w) = wnorm w) -> pm_all wal m ->
    parts_restore g (parts_cp f m) = pm_norm m.
  Proof.
    intros f g m Hrt H. unfold parts_restore, parts_cp, pm_norm. cbn [w_parts]. rewrite map_map. cbn [fst snd].
    induction m as [|[k w] m IH]; [reflexivity|]. inversion H; subst. cbn [map fst snd].
    rewrite Hrt by assumption. rewrite IH by assumption. reflexivity.
  Qed.
End Part.
