(* Interpreter for "add events, checkpoint -> restore at arbitrary points" over every
   window type + rendering, used by the C19 component-level correspondence (vm_compute).
   Reuses the window interpreter state of Window/Run.v (read-only). *)
From Coq Require Import String.
From VP Require Import Base.Tactics Base.Render Window.Model Window.Run Ckpt.Model.
Open Scope string_scope.
Open Scope Z_scope.

(* the window object is replaced by a NEW one restored from its checkpoint *)
Definition ws_cp (s : wstate) : wstate :=
  match s with
  | WT w => WT (t_restore (t_new (t_dur w)) (t_checkpoint w))
  | WC w => WC (c_restore (c_new (c_n w)) (c_checkpoint w))
  | WS w => WS (s_restore (s_new (s_gap w)) (s_checkpoint w))
  | WSl w => WSl (sl_restore (sl_new (sl_size w) (sl_slide w)) (sl_checkpoint w))
  | WSc w => WSc (sc_restore (sc_new (sc_size w) (sc_slide w)) (sc_checkpoint w))
  | WPT d m => WPT d (pt_restore d (pt_checkpoint m))
  | WPS g m => WPS g (ps_restore g (ps_checkpoint m))
  | WPSl a b m => WPSl a b (psl_restore a b (psl_checkpoint m))
  | WPC n m => WPC n (pc_restore n (pc_checkpoint m))
  | WPSc a b m => WPSc a b (psc_restore a b (psc_checkpoint m))
  end.

Inductive cop := CAdd (e : ev) | CCp.

Definition cstep (s : wstate) (o : cop) : wstate * option (option (list ev)) :=
  match o with
  | CAdd e =>
    let '(s', r) := step s (Add e) in
    (s', Some (match r with OWin l => Some l | _ => None end))
  | CCp => (ws_cp s, None)
  end.

Fixpoint crun (s : wstate) (ops : list cop) : list (option (option (list ev))) * wstate :=
  match ops with
  | [] => ([], s)
  | o :: r => let '(s', x) := cstep s o in let '(xs, s'') := crun s' r in (x :: xs, s'')
  end.

(* the outputs of the Add ops only *)
Definition adds_only (l : list (option (option (list ev)))) : list (option (list ev)) :=
  flat_map (fun x => match x with Some r => [r] | None => [] end) l.

(* ---- rendering: events as id@timestamp ---- *)
Definition str_ev (e : ev) : string := str_of_Z (eid e) ++ "@" ++ str_of_Z (ets e).
Definition str_evs (l : list ev) : string := "[" ++ join "," (map str_ev l) ++ "]".
Definition str_cout (x : option (option (list ev))) : string :=
  match x with
  | None => "cp"
  | Some None => "-"
  | Some (Some l) => str_evs l
  end.

(* sort by arrival id (harness: partitioned flush order is the hash order) *)
Fixpoint ins_id (e : ev) (l : list ev) : list ev :=
  match l with
  | [] => [e]
  | x :: r => if eid e <=? eid x then e :: l else x :: ins_id e r
  end.
Definition sort_id (l : list ev) : list ev := fold_right ins_id [] l.

Definition str_final (s : wstate) : string :=
  match s with
  | WT w => str_evs (t_buf w)
  | WC w => str_evs (c_buf w)
  | WS w => str_evs (s_buf w)
  | WSl w => str_evs (sl_buf w)
  | WSc w => str_of_nat (length (sc_buf w))
  | WPT _ m => str_evs (sort_id (concat (map (fun kw => t_buf (snd kw)) m)))
  | WPS _ m => str_evs (sort_id (concat (map (fun kw => s_buf (snd kw)) m)))
  | WPSl _ _ m => str_evs (sort_id (concat (map (fun kw => sl_buf (snd kw)) m)))
  | WPC _ m => str_evs (sort_id (concat (map (fun kw => c_buf (snd kw)) m)))
  | WPSc _ _ m => str_evs (sort_id (concat (map (fun kw => sc_buf (snd kw)) m)))
  end.

Definition ckpt_case (k : kind) (ops : list cop) : string :=
  let '(outs, s) := crun (init k) ops in
  join ";" (map str_cout outs) ++ "|" ++ str_final s.
