(* distinct (LRU key snapshot) and limit: checkpoint -> restore gives the state back. *)
From VP Require Import Base.Tactics Ckpt.Model.

Definition d_wf (d : distinct) : Prop := NoDup (d_seen d) /\ (length (d_seen d) <= d_cap d)%nat.

Lemma mem_key_false : forall k l, ~ In k l -> mem_key k l = false.
Proof.
  intros k l H. unfold mem_key. apply Bool.not_true_is_false. intros E.
  apply existsb_exists in E. destruct E as [x [Hx He]]. apply N.eqb_eq in He. subst. contradiction.
Qed.

Lemma d_insert_fresh : forall cap acc k,
  ~ In k acc -> (length (acc ++ [k]) <= cap)%nat ->
  d_insert (mkD cap acc) k = (mkD cap (acc ++ [k]), true).
Proof.
  intros cap acc k Hk Hlen. unfold d_insert. cbn [d_seen d_cap].
  rewrite (mem_key_false _ _ Hk).
  assert (Hl : (length (acc ++ [k]) - cap = 0)%nat) by lia.
  rewrite Hl. reflexivity.
Qed.

Lemma restore_fold : forall cap l acc,
  NoDup (acc ++ l) -> (length (acc ++ l) <= cap)%nat ->
  fold_left (fun a k => fst (d_insert a k)) l (mkD cap acc) = mkD cap (acc ++ l).
Proof.
  induction l as [|k l IH]; intros acc Hnd Hlen.
  - rewrite app_nil_r. reflexivity.
  - cbn [fold_left].
    assert (Hk : ~ In k acc).
    { intros Hin. apply NoDup_remove_2 in Hnd. apply Hnd. apply in_or_app. left; assumption. }
    assert (Hl : (length (acc ++ [k]) <= cap)%nat).
    { rewrite app_length in *. cbn [length] in *. lia. }
    rewrite (d_insert_fresh cap acc k Hk Hl). cbn [fst].
    rewrite IH.
    + rewrite <- app_assoc. reflexivity.
    + rewrite <- app_assoc. exact Hnd.
    + rewrite <- app_assoc. exact Hlen.
Qed.

Lemma d_roundtrip : forall d, d_wf d -> d_restore d (d_checkpoint d) = d.
Proof.
  intros [cap seen] [Hnd Hlen]. unfold d_restore, d_checkpoint. cbn [d_seen d_cap] in *.
  rewrite rev_involutive. rewrite restore_fold; [reflexivity|exact Hnd|exact Hlen].
Qed.

(* well-formedness is an invariant of insert *)
Lemma remove_N_in : forall k l x, In x (remove_N k l) -> In x l.
Proof.
  induction l as [|y l IH]; intros x H; [contradiction|]. cbn in H.
  destruct (y =? k)%N; [right; assumption|]. destruct H as [H|H]; [left; assumption|right; apply IH; assumption].
Qed.

Lemma remove_N_nodup : forall k l, NoDup l -> NoDup (remove_N k l) /\ ~ In k (remove_N k l).
Proof.
  induction l as [|y l IH]; intros H; [split; [constructor|intros []]|].
  inversion H; subst. cbn. destruct (N.eqb_spec y k).
  - subst. split; assumption.
  - destruct (IH H3) as [A B]. split.
    + constructor; [intros Hin; apply H2; eapply remove_N_in; eassumption|assumption].
    + intros [E|E]; [congruence|contradiction].
Qed.

Lemma remove_N_length : forall k l, (length (remove_N k l) <= length l)%nat.
Proof. induction l as [|y l IH]; [constructor|]. cbn. destruct (y =? k)%N; cbn; lia. Qed.

Lemma remove_N_length_in : forall k l, In k l -> (S (length (remove_N k l)) = length l)%nat.
Proof.
  induction l as [|y l IH]; intros H; [contradiction|]. cbn. destruct (N.eqb_spec y k); [reflexivity|].
  destruct H as [H|H]; [congruence|]. cbn. rewrite IH by assumption. reflexivity.
Qed.

Lemma NoDup_snoc : forall (l : list N) k, NoDup l -> ~ In k l -> NoDup (l ++ [k]).
Proof.
  induction l as [|x l IH]; intros k H Hk; cbn.
  - constructor; [intros []|constructor].
  - inversion H; subst. constructor.
    + rewrite in_app_iff. intros [E|[E|[]]]; [contradiction|subst; apply Hk; left; reflexivity].
    + apply IH; [assumption|intros E; apply Hk; right; assumption].
Qed.

Lemma skipn_nodup : forall n (l : list N), NoDup l -> NoDup (skipn n l).
Proof.
  induction n as [|n IH]; intros l H; [assumption|]. destruct l; [constructor|]. cbn. apply IH. inversion H; assumption.
Qed.

Lemma d_insert_wf : forall d k, d_wf d -> d_wf (fst (d_insert d k)).
Proof.
  intros [cap seen] k [Hnd Hlen]. unfold d_insert. cbn [d_seen d_cap] in *.
  destruct (mem_key k seen) eqn:Hm; cbn [fst]; split; cbn [d_seen d_cap].
  - destruct (remove_N_nodup k seen Hnd) as [A B]. apply NoDup_snoc; assumption.
  - assert (Hin : In k seen).
    { unfold mem_key in Hm. apply existsb_exists in Hm. destruct Hm as [x [Hx He]]. apply N.eqb_eq in He. subst; assumption. }
    rewrite app_length. cbn [length]. pose proof (remove_N_length_in k seen Hin). lia.
  - apply skipn_nodup. apply NoDup_snoc; [assumption|].
    intros Hin. unfold mem_key in Hm. assert (E : existsb (N.eqb k) seen = true).
    { apply existsb_exists. exists k. split; [assumption|apply N.eqb_refl]. }
    congruence.
  - rewrite skipn_length, app_length. cbn [length]. lia.
Qed.

Lemma l_roundtrip : forall l, l_restore l (l_checkpoint l) = l.
Proof. intros [m c]. reflexivity. Qed.
