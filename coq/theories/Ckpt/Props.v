(* Property theorems for C19 (statements only; proofs in Proofs*.v), about Ckpt/Model.v +
   Ckpt/Run.v, the model the component-level correspondence runs.

   Known-finding classes (decidable predicates on the input):
     known_slide_counter k   the window is a (partitioned) sliding COUNT window with slide > 1:
                             SlidingCountWindow::restore resets events_since_emit
     known_subms ops         some event's timestamp is not a whole number of milliseconds:
                             every timestamp goes through timestamp_millis *)
From VP Require Import Base.Tactics Window.Model Window.Run Ckpt.Model Ckpt.Run
     Ckpt.ProofsWin Ckpt.ProofsRun Ckpt.ProofsMisc.
Open Scope Z_scope.

Definition al_b (t : Z) : bool := of_ms (to_ms t) =? t.
Definition known_subms (ops : list cop) : bool :=
  existsb (fun o => match o with CAdd e => negb (al_b (ets e)) | CCp => false end) ops.
Definition known_slide_counter (k : kind) : bool :=
  match k with
  | KSlidingCount _ slide | KPSlidingCount _ slide => (1 <? slide)%nat
  | _ => false
  end.

Lemma known_subms_false : forall ops, known_subms ops = false -> Forall cop_al ops.
Proof.
  induction ops as [|o ops IH]; intros H; [constructor|].
  cbn in H. apply Bool.orb_false_iff in H. destruct H as [H1 H2]. constructor; [|apply IH; assumption].
  destruct o as [e|]; [|exact I]. cbn. unfold ev_al, al. unfold al_b in H1.
  apply Bool.negb_false_iff in H1. apply Z.eqb_eq in H1. exact H1.
Qed.

Lemma known_slide_false : forall k, known_slide_counter k = false -> kind_ok k.
Proof.
  intros [] H; cbn [known_slide_counter kind_ok] in *; try exact I; apply Nat.ltb_ge in H; exact H.
Qed.

(* Every window type (tumbling, count, session, sliding, sliding count, and the partitioned
   form of each), any sequence of events, checkpoint -> restore into a new window inserted
   at ANY positions (any number of cut points): outside the two known classes the window
   emits exactly what it emits without the checkpoints. *)
Theorem C19_windows :
  forall (k : kind) (ops : list cop),
    known_slide_counter k = false -> known_subms ops = false ->
    adds_only (fst (crun (init k) ops)) = adds_only (fst (crun (init k) (filter is_add ops))).
Proof.
  intros k ops Hk Hops. apply windows_checkpoint_invisible.
  - apply known_slide_false; assumption.
  - apply known_subms_false; assumption.
Qed.

(* the hypotheses are satisfiable on a non-trivial run *)
Example C19_windows_example :
  let ops := [CAdd (mkEv 1 1000000 0); CAdd (mkEv 2 2000000 1); CCp; CAdd (mkEv 3 3000000 0); CCp; CAdd (mkEv 4 9000000 0)] in
  known_slide_counter (KPTumbling 5000000) = false /\ known_subms ops = false /\
  adds_only (fst (crun (init (KPTumbling 5000000)) ops)) = [None; None; None; Some [mkEv 1 1000000 0; mkEv 3 3000000 0]].
Proof. vm_compute. repeat split. Qed.

(* sliding count window with slide 2: the slide counter is lost *)
Theorem C19_slide_counter_refuted :
  exists (k : kind) (ops : list cop),
    known_slide_counter k = true /\ known_subms ops = false /\
    adds_only (fst (crun (init k) ops)) <> adds_only (fst (crun (init k) (filter is_add ops))).
Proof.
  exists (KSlidingCount 3 2).
  exists [CAdd (mkEv 1 1000000 0); CAdd (mkEv 2 2000000 0); CAdd (mkEv 3 3000000 0); CAdd (mkEv 4 4000000 0);
          CCp; CAdd (mkEv 5 5000000 0)].
  vm_compute. repeat split; discriminate.
Qed.

(* sub-millisecond timestamps: a restored tumbling window closes at another event, and a
   restored count window hands out events with truncated timestamps *)
Theorem C19_subms_refuted :
  (exists ops, known_subms ops = true /\
     adds_only (fst (crun (init (KTumbling 1000000)) ops))
     <> adds_only (fst (crun (init (KTumbling 1000000)) (filter is_add ops)))) /\
  (exists ops, known_subms ops = true /\
     adds_only (fst (crun (init (KCount 2)) ops))
     <> adds_only (fst (crun (init (KCount 2)) (filter is_add ops)))).
Proof.
  split.
  - exists [CAdd (mkEv 1 500000 0); CCp; CAdd (mkEv 2 1200000 0)]. vm_compute. split; [reflexivity|discriminate].
  - exists [CAdd (mkEv 1 1500 0); CCp; CAdd (mkEv 2 2000000 0)]. vm_compute. split; [reflexivity|discriminate].
Qed.

(* distinct: the LRU key snapshot restores the same cache (contents and recency order), for
   every state reachable by inserts; limit: the counter comes back. *)
Theorem C19_distinct :
  forall (cap : nat) (keys : list N),
    let d := fold_left (fun a k => fst (d_insert a k)) keys (mkD cap []) in
    d_restore d (d_checkpoint d) = d.
Proof.
  intros cap keys d. apply d_roundtrip. subst d.
  assert (H : d_wf (mkD cap [])) by (split; [constructor|cbn; lia]).
  revert H. generalize (mkD cap []). induction keys as [|k keys IH]; intros d0 H; [exact H|].
  cbn [fold_left]. apply IH. apply d_insert_wf. exact H.
Qed.

Theorem C19_limit : forall l, l_restore l (l_checkpoint l) = l.
Proof. exact l_roundtrip. Qed.
