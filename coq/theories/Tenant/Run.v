(* C28 — interpreter of symbolic request sequences + rendering, for the correspondence check.

   The driver names pipelines p0, p1, .. (k-th successful deploy of the sequence), tenants t0, t1, .. (k-th tenant
   created), keys "@t<k>" and checkpoints by number (n-th successful checkpoint answer, modulo how many there are;
   an empty checkpoint when there is none) -- exactly the naming of harness/crates/api/src/tenant.rs.
   One string per sequence: steps separated by "#", each step  <answer>|<tenant 0>;<tenant 1>;.. *)
From Coq Require Import String List Bool NArith ZArith.
Import ListNotations.
From VP Require Import Base.Render Tenant.Model.
Open Scope string_scope.
Open Scope N_scope.

Inductive sop :=
| SDeploy (key : option string) (name : string) (src : N)
| SList (key : option string) | SUsage (key : option string)
| SGet (key : option string) (p : N) | SDelete (key : option string) (p : N) | SMetrics (key : option string) (p : N)
| SCheckpoint (key : option string) (p : N) | SLogs (key : option string) (p : N)
| SInject (key : option string) (p : N) (ty : N) (x : Z)
| SBatch (key : option string) (p : N) (evs : list (N * Z))
| SReload (key : option string) (p : N) (src : N)
| SRestore (key : option string) (p : N) (cp : N)
| SCreate (admin : option string) (name : string)
| SListT (admin : option string) | SGetT (admin : option string) (t : N) | SDelT (admin : option string) (t : N).

Record dstate := mkD { d_m : @manager fengine; d_cps : list cpt; d_npid : N; d_ntid : N }.

Definition nth_cp (cps : list cpt) (n : N) : cpt :=
  match cps with
  | [] => (0, 0)
  | _ => nth (N.to_nat (n mod (N.of_nat (length cps)))) cps (0, 0)
  end.

Definition request_of (d : dstate) (o : sop) : request :=
  match o with
  | SDeploy k name src => Tenant k (TDeploy name src (d_npid d))
  | SList k => Tenant k TList | SUsage k => Tenant k TUsage
  | SGet k p => Tenant k (TGet p) | SDelete k p => Tenant k (TDelete p) | SMetrics k p => Tenant k (TMetrics p)
  | SCheckpoint k p => Tenant k (TCheckpoint p) | SLogs k p => Tenant k (TLogs p)
  | SInject k p ty x => Tenant k (TInject p (ty, x)) | SBatch k p evs => Tenant k (TBatch p evs)
  | SReload k p src => Tenant k (TReload p src)
  | SRestore k p n => Tenant k (TRestore p (nth_cp (d_cps d) n))
  | SCreate a name => Admin a (ACreate name (d_ntid d) ("@t" ++ str_of_N (d_ntid d)))
  | SListT a => Admin a AListTenants | SGetT a t => Admin a (AGetTenant t) | SDelT a t => Admin a (ADeleteTenant t)
  end.

Definition dstep (ak : option string) (d : dstate) (o : sop) : dstate * resp :=
  let '(m', rs) := step filter_ops ak (d_m d) (request_of d o) in
  let d' :=
    match rs with
    | ROk _ (PDeployed _ _) => mkD m' (d_cps d) (d_npid d + 1) (d_ntid d)
    | ROk _ (PTenantCreated _ _ _) => mkD m' (d_cps d) (d_npid d) (d_ntid d + 1)
    | ROk _ (PCheckpoint _ c) => mkD m' (d_cps d ++ [c]) (d_npid d) (d_ntid d)
    | _ => mkD m' (d_cps d) (d_npid d) (d_ntid d)
    end in
  (d', rs).

(* ---- rendering --------------------------------------------------------------------------------- *)
Definition r_outs (l : list Z) : string := str_list str_of_Z l.
Definition r_payload (p : payload) : string :=
  match p with
  | PDeployed p name => "deployed p" ++ str_of_N p ++ " " ++ name
  | PList ps => "list " ++ str_list (fun x => "p" ++ str_of_N (fst (fst x)) ++ ":" ++ snd (fst x) ++ ":" ++ str_of_N (snd x)) ps
  | PPipe p name src => "pipe p" ++ str_of_N p ++ ":" ++ name ++ ":" ++ str_of_N src
  | PUsage ev act maxp => "usage " ++ str_of_N ev ++ " " ++ str_of_N act ++ " " ++ str_of_N maxp
  | PMetrics p ev => "metrics p" ++ str_of_N p ++ " " ++ str_of_N ev
  | PDeleted => "deleted" | PReloaded => "reloaded" | PStream => "stream"
  | PCheckpoint p c => "checkpoint p" ++ str_of_N p ++ " " ++ str_of_N (fst c)
  | PRestored p ev => "restored p" ++ str_of_N p ++ " " ++ str_of_N ev
  | PInjected outs => "injected " ++ r_outs outs
  | PBatch acc outs => "batch " ++ str_of_N acc ++ " " ++ r_outs outs
  | PTenantCreated t name key => "tenant t" ++ str_of_N t ++ " " ++ key
  | PTenants ts => "tenants " ++ str_list (fun t => "t" ++ str_of_N t) ts
  | PTenantDetail t ev act np => "detail t" ++ str_of_N t ++ " " ++ str_of_N ev ++ " " ++ str_of_N act ++ " " ++ str_of_N np
  end.
Definition r_resp (r : resp) : string :=
  match r with
  | ROk st p => str_of_N st ++ " " ++ r_payload p
  | RErr st code => str_of_N st ++ " err " ++ code
  | RRejected => "rejected"
  end.
Definition r_pipe (kp : N * @pipeline fengine) : string :=
  "p" ++ str_of_N (fst kp) ++ ":" ++ p_name (snd kp) ++ ":" ++ str_of_N (p_src (snd kp)) ++ ":"
      ++ str_of_N (fe_in (p_eng (snd kp))) ++ ":" ++ str_of_N (fe_out (p_eng (snd kp))).
Definition r_tenant (d : dstate) (t : N) : string :=
  match nassoc t (m_tenants (d_m d)) with
  | None => "-"
  | Some tn => t_key tn ++ "," ++ str_of_N (t_maxp tn) ++ "," ++ str_of_N (t_events tn) ++ "," ++ str_of_N (t_active tn)
               ++ "," ++ str_list r_pipe (t_pipes tn)
               ++ "," ++ match sassoc (t_key tn) (m_index (d_m d)) with Some a => if N.eqb a t then "1" else "0" | None => "0" end
  end.
Fixpoint seqN (n : nat) (from : N) : list N := match n with O => [] | S k => from :: seqN k (from + 1) end.
Definition r_state (d : dstate) : string := join ";" (map (r_tenant d) (seqN (N.to_nat (d_ntid d)) 0)).

Fixpoint drun (ak : option string) (d : dstate) (os : list sop) : list string :=
  match os with
  | [] => []
  | o :: r => let '(d', rs) := dstep ak d o in (r_resp rs ++ "|" ++ r_state d') :: drun ak d' r
  end.

(* initial manager: tenants t0.. with keys "@t0".. and the given pipeline quotas *)
Fixpoint init_tenants (quotas : list N) (k : N) : list (N * @tenant fengine) * list (string * N) :=
  match quotas with
  | [] => ([], [])
  | q :: r => let '(ts, ix) := init_tenants r (k + 1) in
              ((k, mkTenant ("@t" ++ str_of_N k) q 0 0 []) :: ts, ("@t" ++ str_of_N k, k) :: ix)
  end.
Definition case (ak : option string) (quotas : list N) (os : list sop) : string :=
  let '(ts, ix) := init_tenants quotas 0 in
  join "#" (drun ak (mkD (mkMgr ts ix) [] 0 (N.of_nat (length quotas))) os).
