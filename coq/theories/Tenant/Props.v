(* C28 — tenants cannot see or affect each other's pipelines.  ONLY the property theorems.

   All theorems hold for every engine (any type E of engine states, any operations `ops`), every manager state,
   every admin-key configuration, every request and every request sequence over any number of tenants. *)
From Coq Require Import String List Bool NArith ZArith.
Import ListNotations.
From VP Require Import Tenant.HandlerSyntax Tenant.Model Tenant.Spec Tenant.Proofs Tenant.Gen_Handlers.
Open Scope string_scope.
Open Scope N_scope.

(* T-tie: the handlers of /repo's api.rs have exactly the lookup chains the model stands for, and every
   chain only goes through the tenant the key resolved to and the pipeline id of the path. *)
Theorem C28_handlers_tied : tenant_handlers = expected_handlers.
Proof. reflexivity. Qed.

Theorem C28_handlers_isolated : forallb chain_isolated tenant_handlers = true.
Proof. vm_compute. reflexivity. Qed.

Theorem C28_every_request_has_handler : forall r : treq, existsb (fun c => String.eqb (h_name c) (handler_of r)) tenant_handlers = true.
Proof. intros []; vm_compute; reflexivity. Qed.

(* One request: a request whose key does not resolve to tenant b leaves b's tenant record (pipelines, engines,
   usage, quota), the key index and every tenant's key unchanged. *)
Theorem C28_step_isolation : forall (E : Type) (ops : engine_ops E) (ak : option string)
    (m : manager) (key : string) (r : treq) (b : N),
  owner m key <> Some b ->
  let m' := fst (step ops ak m (Tenant (Some key) r)) in
  comp m' b = comp m b /\ m_index m' = m_index m /\ keymap (m_tenants m') = keymap (m_tenants m).
Proof. intros E ops ak m key r b H. simpl. apply with_tenant_frame. assumption. Qed.

(* ... and what it answers, and what becomes of its owner's record, depends on the owner's record only: two managers
   that agree on the owner (whatever else they contain) give the same answer and the same new owner record. *)
Theorem C28_response_local : forall (E : Type) (ops : engine_ops E) (ak : option string)
    (m1 m2 : manager) (key : string) (r : treq) (a : N),
  owner m1 key = Some a -> owner m2 key = Some a -> comp m1 a = comp m2 a ->
  snd (step ops ak m1 (Tenant (Some key) r)) = snd (step ops ak m2 (Tenant (Some key) r)) /\
  comp (fst (step ops ak m1 (Tenant (Some key) r))) a = comp (fst (step ops ak m2 (Tenant (Some key) r))) a.
Proof. intros E ops ak m1 m2 key r a. simpl. apply with_tenant_local. Qed.

(* Sequences (non-interference): for every request sequence -- tenant requests with own, foreign, unknown or missing
   keys and any pipeline ids, interleaved with admin requests -- tenant b's record, the key index and all its own
   answers are exactly what they would be had the requests made with other tenants' keys never been issued. *)
Theorem C28_isolation : forall (E : Type) (ops : engine_ops E) (ak : option string) (b : N)
    (m : manager) (qs : list request),
  sim b (fst (run ops ak m qs)) (fst (run_for ops ak b m qs)) /\
  Forall2 agrees (snd (run ops ak m qs)) (snd (run_for ops ak b m qs)).
Proof. intros E ops ak b m qs. apply run_noninterference. apply sim_refl. Qed.

(* A pipeline id that is not among the caller's pipelines is refused (404; 400 when a reload source does not parse;
   a batch accepts nothing) and none of the caller's pipelines changes. *)
Theorem C28_foreign_id_refused : forall (E : Type) (ops : engine_ops E) (t : tenant) (r : treq) (p : N),
  names_pipeline r = Some p -> nassoc p (t_pipes t) = None ->
  is_refusal (snd (tenant_op ops t r)) /\ t_pipes (fst (tenant_op ops t r)) = t_pipes t.
Proof. intros E ops. apply foreign_id_refused. Qed.

(* Non-vacuity: two tenants with one pipeline each; B reads, injects into and deletes A's pipeline id. *)
Definition ex_m : @manager fengine :=
  mkMgr [(0, mkTenant "ka" 3 0 1 [(0, mkPipe "pa" 0 (mkFe 0 0 0))]); (1, mkTenant "kb" 3 0 1 [(1, mkPipe "pb" 1 (mkFe 10 0 0))])]
        [("ka", 0); ("kb", 1)].
Definition ex_qs : list request :=
  [Tenant (Some "kb") (TGet 0); Tenant (Some "kb") (TInject 0 (0, 5%Z)); Tenant (Some "kb") (TDelete 0);
   Tenant (Some "ka") (TInject 0 (0, 5%Z)); Tenant (Some "kb") TList].
Example ex_run :
  snd (run filter_ops None ex_m ex_qs) =
  [RErr 404 "pipeline_not_found"; RErr 404 "pipeline_not_found"; RErr 404 "pipeline_not_found";
   ROk 200 (PInjected [5%Z]); ROk 200 (PList [(1, "pb", 1)])]
  /\ snd (run_for filter_ops None 0 ex_m ex_qs) = [None; None; None; Some (ROk 200 (PInjected [5%Z])); None].
Proof. vm_compute. auto. Qed.
