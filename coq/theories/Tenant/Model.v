(* C28 — executable model of the multi-tenant pipeline API.  Definitions only.

   Mirrors (crates/varpulis-runtime/src/tenant.rs, crates/varpulis-cli/src/api.rs):
     manager                  TenantManager { tenants: HashMap<TenantId, Tenant>, api_key_index: HashMap<String, TenantId> }
     tenant                   Tenant { api_key, quota.max_pipelines, usage.{events_processed, active_pipelines}, pipelines }
     pipeline                 Pipeline { id, name, source, engine }   (status is always Running on these paths)
     with_tenant              the prologue shared by all twelve tenant handlers of api.rs:
                                mgr.get_tenant_by_api_key(&api_key)  or 401;  mgr.get_tenant[_mut](&tenant_id)  or 404;
                                then one operation on *that* tenant        (shape asserted by translate/tenant_handlers.py)
     tenant_op                the per-tenant operations:
        TDeploy   Tenant::deploy_pipeline_with_metrics   quota check, parse, load, insert, active_pipelines = len
        TList     handle_list     TGet handle_get     TUsage handle_usage     TMetrics handle_metrics (reports the tenant's usage)
        TDelete   Tenant::remove_pipeline
        TInject   Tenant::process_event: record_event (counts even when the pipeline is unknown), lookup, engine.process, drain outputs
        TBatch    handle_inject_batch: process_event per event, failures skipped silently
        TCheckpoint / TRestore / TReload / TLogs   checkpoint_pipeline / restore_pipeline / reload_pipeline (parse before lookup) / subscribe_pipeline_logs
     admin_step               handle_create_tenant / handle_list_tenants / handle_get_tenant / handle_delete_tenant with
                              validate_admin_key first; TenantManager::create_tenant / remove_tenant
   Ids: pipeline and tenant ids are UUIDs in the implementation; in the model the fresh id (and the fresh api key of a
   created tenant) is part of the request, so that the state holds no shared allocator.
   The engine of a pipeline is a parameter (record engine_ops): nothing below depends on what an engine computes.
   Not modelled: events-per-second rate limit (never reached in the explored histories), pagination (default page holds all),
   persistence (persist_if_needed: C22), Prometheus metrics, connector-backed pipelines. *)
From Coq Require Import String List Bool NArith ZArith.
Import ListNotations.
Open Scope string_scope.
Open Scope N_scope.

Definition event := (N * Z)%type.          (* event type index (0 = A, 1 = B, ...), field x *)
Definition outev := Z.                     (* field v of the emitted event *)
Definition cpt := (N * N)%type.            (* what the model keeps of an EngineCheckpoint: events_processed, output_events_emitted *)

Record engine_ops (E : Type) := mkOps {
  eo_load : N -> option E;                 (* parse + Engine::load of source number n; None = parse error *)
  eo_parses : N -> bool;                   (* varpulis_parser::parse succeeds *)
  eo_process : E -> event -> E * list outev;
  eo_reload : E -> N -> E;                 (* Engine::reload with an already parsed program *)
  eo_checkpoint : E -> cpt;
  eo_restore : E -> cpt -> E;
  eo_counters : E -> N * N }.
Arguments eo_load {E}. Arguments eo_parses {E}. Arguments eo_process {E}. Arguments eo_reload {E}.
Arguments eo_checkpoint {E}. Arguments eo_restore {E}. Arguments eo_counters {E}.

Section WithEngine.
Context {E : Type} (ops : engine_ops E).

Record pipeline := mkPipe { p_name : string; p_src : N; p_eng : E }.
Record tenant := mkTenant {
  t_key : string; t_maxp : N; t_events : N; t_active : N;
  t_pipes : list (N * pipeline) }.          (* pipeline id -> pipeline, in insertion order *)
Record manager := mkMgr {
  m_tenants : list (N * tenant);            (* tenant id -> tenant *)
  m_index : list (string * N) }.            (* api key -> tenant id *)

(* ---- association lists ------------------------------------------------------------------------ *)
Fixpoint nassoc {A} (k : N) (l : list (N * A)) : option A :=
  match l with [] => None | (k', v) :: r => if N.eqb k' k then Some v else nassoc k r end.
Fixpoint nremove {A} (k : N) (l : list (N * A)) : list (N * A) :=
  match l with [] => [] | (k', v) :: r => if N.eqb k' k then nremove k r else (k', v) :: nremove k r end.
Fixpoint nupdate {A} (k : N) (v : A) (l : list (N * A)) : list (N * A) :=
  match l with [] => [] | (k', v') :: r => if N.eqb k' k then (k', v) :: r else (k', v') :: nupdate k v r end.
Fixpoint sassoc {A} (k : string) (l : list (string * A)) : option A :=
  match l with [] => None | (k', v) :: r => if String.eqb k' k then Some v else sassoc k r end.
Fixpoint sremove {A} (k : string) (l : list (string * A)) : list (string * A) :=
  match l with [] => [] | (k', v) :: r => if String.eqb k' k then sremove k r else (k', v) :: sremove k r end.

(* ---- requests and responses ------------------------------------------------------------------ *)
Inductive treq :=
| TDeploy (name : string) (src : N) (fresh : N)
| TList | TUsage
| TGet (p : N) | TDelete (p : N) | TMetrics (p : N) | TCheckpoint (p : N) | TLogs (p : N)
| TInject (p : N) (ev : event) | TBatch (p : N) (evs : list event)
| TReload (p : N) (src : N) | TRestore (p : N) (c : cpt).

Inductive areq :=
| ACreate (name : string) (fresh_tid : N) (fresh_key : string)
| AListTenants | AGetTenant (t : N) | ADeleteTenant (t : N).

Inductive request :=
| Tenant (key : option string) (r : treq)      (* x-api-key header *)
| Admin (key : option string) (r : areq).      (* x-admin-key header *)

Inductive payload :=
| PDeployed (p : N) (name : string)
| PList (ps : list (N * string * N))            (* id, name, source *)
| PPipe (p : N) (name : string) (src : N)
| PUsage (events active maxp : N)
| PMetrics (p : N) (events : N)
| PDeleted | PReloaded | PStream
| PCheckpoint (p : N) (c : cpt)
| PRestored (p : N) (events : N)
| PInjected (out : list outev)
| PBatch (accepted : N) (out : list outev)
| PTenantCreated (t : N) (name : string) (key : string)
| PTenants (ts : list N)
| PTenantDetail (t : N) (events active npipes : N).

Inductive resp :=
| ROk (status : N) (p : payload)
| RErr (status : N) (code : string)
| RRejected.                                    (* no handler ran: required header missing (C29) *)

(* ---- operations on one tenant (impl Tenant) --------------------------------------------------- *)
Definition len {A} (l : list A) : N := N.of_nat (length l).

(* Tenant::process_event *)
Definition process_event (t : tenant) (p : N) (ev : event) : tenant * option (list outev) :=
  let t1 := mkTenant (t_key t) (t_maxp t) (t_events t + 1) (t_active t) (t_pipes t) in
  match nassoc p (t_pipes t) with
  | None => (t1, None)
  | Some pl =>
      let '(e', out) := eo_process ops (p_eng pl) ev in
      (mkTenant (t_key t) (t_maxp t) (t_events t + 1) (t_active t)
                (nupdate p (mkPipe (p_name pl) (p_src pl) e') (t_pipes t)), Some out)
  end.

Fixpoint process_batch (t : tenant) (p : N) (evs : list event) (acc : N) (outs : list outev) : tenant * N * list outev :=
  match evs with
  | [] => (t, acc, outs)
  | ev :: r =>
      match process_event t p ev with
      | (t', Some o) => process_batch t' p r (acc + 1) (outs ++ o)
      | (t', None) => process_batch t' p r acc outs
      end
  end.

Definition set_pipes (t : tenant) (ps : list (N * pipeline)) : tenant :=
  mkTenant (t_key t) (t_maxp t) (t_events t) (len ps) ps.

Definition tenant_op (t : tenant) (r : treq) : tenant * resp :=
  match r with
  | TDeploy name src fresh =>
      if N.leb (t_maxp t) (len (t_pipes t)) then (t, RErr 429 "quota_exceeded")
      else match eo_load ops src with
           | None => (t, RErr 400 "parse_error")
           | Some e => (set_pipes t (t_pipes t ++ [(fresh, mkPipe name src e)]), ROk 201 (PDeployed fresh name))
           end
  | TList => (t, ROk 200 (PList (map (fun kp => (fst kp, p_name (snd kp), p_src (snd kp))) (t_pipes t))))
  | TUsage => (t, ROk 200 (PUsage (t_events t) (t_active t) (t_maxp t)))
  | TGet p =>
      match nassoc p (t_pipes t) with
      | Some pl => (t, ROk 200 (PPipe p (p_name pl) (p_src pl)))
      | None => (t, RErr 404 "pipeline_not_found")
      end
  | TDelete p =>
      match nassoc p (t_pipes t) with
      | Some _ => (set_pipes t (nremove p (t_pipes t)), ROk 200 PDeleted)
      | None => (t, RErr 404 "pipeline_not_found")
      end
  | TMetrics p =>
      match nassoc p (t_pipes t) with
      | Some _ => (t, ROk 200 (PMetrics p (t_events t)))
      | None => (t, RErr 404 "pipeline_not_found")
      end
  | TCheckpoint p =>
      match nassoc p (t_pipes t) with
      | Some pl => (t, ROk 200 (PCheckpoint p (eo_checkpoint ops (p_eng pl))))
      | None => (t, RErr 404 "pipeline_not_found")
      end
  | TLogs p =>
      match nassoc p (t_pipes t) with
      | Some _ => (t, ROk 200 PStream)
      | None => (t, RErr 404 "pipeline_not_found")
      end
  | TInject p ev =>
      match process_event t p ev with
      | (t', Some out) => (t', ROk 200 (PInjected out))
      | (t', None) => (t', RErr 404 "pipeline_not_found")
      end
  | TBatch p evs =>
      let '(t', acc, outs) := process_batch t p evs 0 [] in (t', ROk 200 (PBatch acc outs))
  | TReload p src =>
      if eo_parses ops src then
        match nassoc p (t_pipes t) with
        | Some pl => (mkTenant (t_key t) (t_maxp t) (t_events t) (t_active t)
                               (nupdate p (mkPipe (p_name pl) src (eo_reload ops (p_eng pl) src)) (t_pipes t)),
                      ROk 200 PReloaded)
        | None => (t, RErr 404 "pipeline_not_found")
        end
      else (t, RErr 400 "parse_error")
  | TRestore p c =>
      match nassoc p (t_pipes t) with
      | Some pl => (mkTenant (t_key t) (t_maxp t) (t_events t) (t_active t)
                             (nupdate p (mkPipe (p_name pl) (p_src pl) (eo_restore ops (p_eng pl) c)) (t_pipes t)),
                    ROk 200 (PRestored p (fst c)))
      | None => (t, RErr 404 "pipeline_not_found")
      end
  end.

(* ---- the shared prologue of the tenant handlers ------------------------------------------------ *)
Definition invalid_key_code (r : treq) : string :=
  match r with TLogs _ => "invalid_key" | _ => "invalid_api_key" end.

Definition with_tenant (m : manager) (key : string) (r : treq) : manager * resp :=
  match sassoc key (m_index m) with
  | None => (m, RErr 401 (invalid_key_code r))
  | Some a =>
      match nassoc a (m_tenants m) with
      | None => (m, RErr 404 (match r with TDeploy _ _ _ => "not_found" | _ => "tenant_not_found" end))
      | Some t =>
          let '(t', rs) := tenant_op t r in
          (mkMgr (nupdate a t' (m_tenants m)) (m_index m), rs)
      end
  end.

(* ---- admin handlers ----------------------------------------------------------------------------- *)
Definition admin_step (admin_key : option string) (m : manager) (provided : string) (r : areq) : manager * resp :=
  match admin_key with
  | None => (m, RErr 403 "admin_disabled")
  | Some k =>
      if negb (String.eqb k provided) then (m, RErr 401 "invalid_admin_key")
      else match r with
           | ACreate name tid key =>
               match sassoc key (m_index m) with
               | Some _ => (m, RErr 409 "already_exists")
               | None => (mkMgr (m_tenants m ++ [(tid, mkTenant key 10 0 0 [])]) (m_index m ++ [(key, tid)]),
                          ROk 201 (PTenantCreated tid name key))
               end
           | AListTenants => (m, ROk 200 (PTenants (map fst (m_tenants m))))
           | AGetTenant t =>
               match nassoc t (m_tenants m) with
               | Some tn => (m, ROk 200 (PTenantDetail t (t_events tn) (t_active tn) (len (t_pipes tn))))
               | None => (m, RErr 404 "tenant_not_found")
               end
           | ADeleteTenant t =>
               match nassoc t (m_tenants m) with
               | Some tn => (mkMgr (nremove t (m_tenants m)) (sremove (t_key tn) (m_index m)), ROk 200 PDeleted)
               | None => (m, RErr 404 "not_found")
               end
           end
  end.

Definition step (admin_key : option string) (m : manager) (q : request) : manager * resp :=
  match q with
  | Tenant None _ => (m, RRejected)
  | Tenant (Some k) r => with_tenant m k r
  | Admin None _ => (m, RRejected)
  | Admin (Some k) r => admin_step admin_key m k r
  end.

Fixpoint run (admin_key : option string) (m : manager) (qs : list request) : manager * list resp :=
  match qs with
  | [] => (m, [])
  | q :: r => let '(m1, a) := step admin_key m q in
              let '(m2, as_) := run admin_key m1 r in (m2, a :: as_)
  end.

End WithEngine.

(* ---- the engine used by the correspondence check: `stream Out = A.where(x > THR).emit(v: x)` --------------- *)
Record fengine := mkFe { fe_thr : Z; fe_in : N; fe_out : N }.
Definition thr_of_src (s : N) : option Z :=
  match s with 0 => Some 0%Z | 1 => Some 10%Z | 2 => Some 20%Z | _ => None end.
Definition filter_ops : engine_ops fengine :=
  mkOps fengine
    (fun s => match thr_of_src s with Some z => Some (mkFe z 0 0) | None => None end)
    (fun s => match thr_of_src s with Some _ => true | None => false end)
    (fun e ev => if (N.eqb (fst ev) 0 && Z.ltb (fe_thr e) (snd ev))%bool
                 then (mkFe (fe_thr e) (fe_in e + 1) (fe_out e + 1), [snd ev])
                 else (mkFe (fe_thr e) (fe_in e + 1) (fe_out e), []))
    (fun e s => match thr_of_src s with Some z => mkFe z (fe_in e) (fe_out e) | None => e end)
    (fun e => (fe_in e, fe_out e))
    (fun e c => mkFe (fe_thr e) (fst c) (snd c))
    (fun e => (fe_in e, fe_out e)).
