(* C28 — the handler table the model stands for.  Definitions only.

   Model.with_tenant is the common shape of the twelve tenant handlers: resolve the x-api-key to a tenant id,
   fetch *that* tenant, run one operation on it (tenant_op), write *that* tenant back.  The table below says, per
   handler of crates/varpulis-cli/src/api.rs, which calls on the shared manager and on the resolved tenant the
   handler may contain; translate/tenant_handlers.py regenerates the same table from the source on every run
   (Gen_Handlers.tenant_handlers) and Props.C28_handlers_tied states that they are equal. *)
From Coq Require Import String List Bool.
Import ListNotations.
From VP Require Import Tenant.HandlerSyntax Tenant.Model.
Open Scope string_scope.

Definition expected_handlers : list handler_chain := [
  mkChain "handle_deploy" "write" ["deploy_pipeline_on_tenant(&tenant_id,..)"; "persist_if_needed(&tenant_id)"] [];
  mkChain "handle_list" "read" ["get_tenant(&tenant_id)"] ["pipelines.values()"];
  mkChain "handle_get" "read" ["get_tenant(&tenant_id)"] ["pipelines.get(&pipeline_id)"];
  mkChain "handle_delete" "write" ["get_tenant_mut(&tenant_id)"; "persist_if_needed(&tenant_id)"] ["remove_pipeline(&pipeline_id)"];
  mkChain "handle_inject" "write" ["get_tenant_mut(&tenant_id)"] ["process_event(&pipeline_id,..)"];
  mkChain "handle_inject_batch" "write" ["get_tenant_mut(&tenant_id)"] ["process_event(&pipeline_id,..)"];
  mkChain "handle_checkpoint" "read" ["get_tenant(&tenant_id)"] ["checkpoint_pipeline(&pipeline_id)"];
  mkChain "handle_restore" "write" ["get_tenant_mut(&tenant_id)"] ["restore_pipeline(&pipeline_id,..)"];
  mkChain "handle_metrics" "read" ["get_tenant(&tenant_id)"]
          ["pipelines.contains_key(&pipeline_id)"; "usage.events_processed"; "usage.output_events_emitted"];
  mkChain "handle_reload" "write" ["get_tenant_mut(&tenant_id)"; "persist_if_needed(&tenant_id)"] ["reload_pipeline(&pipeline_id,..)"];
  mkChain "handle_usage" "read" ["get_tenant(&tenant_id)"]
          ["id.to_string()"; "usage.events_processed"; "usage.output_events_emitted"; "usage.active_pipelines";
           "quota.max_pipelines"; "quota.max_events_per_second"; "quota.max_streams_per_pipeline"];
  mkChain "handle_logs" "read" ["get_tenant(&tenant_id)"] ["subscribe_pipeline_logs(&pipeline_id)"]
].

(* which handler serves which model request *)
Definition handler_of (r : treq) : string :=
  match r with
  | TDeploy _ _ _ => "handle_deploy" | TList => "handle_list" | TUsage => "handle_usage"
  | TGet _ => "handle_get" | TDelete _ => "handle_delete" | TMetrics _ => "handle_metrics"
  | TCheckpoint _ => "handle_checkpoint" | TLogs _ => "handle_logs"
  | TInject _ _ => "handle_inject" | TBatch _ _ => "handle_inject_batch"
  | TReload _ _ => "handle_reload" | TRestore _ _ => "handle_restore"
  end.

(* every manager call of a handler is keyed by the resolved tenant id, every pipeline access by the path's id *)
Definition mgr_call_ok (c : string) : bool :=
  existsb (String.eqb c) ["get_tenant(&tenant_id)"; "get_tenant_mut(&tenant_id)";
                          "deploy_pipeline_on_tenant(&tenant_id,..)"; "persist_if_needed(&tenant_id)"].
Definition tenant_use_ok (u : string) : bool :=
  existsb (String.eqb u)
    ["pipelines.values()"; "pipelines.get(&pipeline_id)"; "pipelines.contains_key(&pipeline_id)";
     "remove_pipeline(&pipeline_id)"; "process_event(&pipeline_id,..)"; "checkpoint_pipeline(&pipeline_id)";
     "restore_pipeline(&pipeline_id,..)"; "reload_pipeline(&pipeline_id,..)"; "subscribe_pipeline_logs(&pipeline_id)";
     "id.to_string()"; "usage.events_processed"; "usage.output_events_emitted"; "usage.active_pipelines";
     "quota.max_pipelines"; "quota.max_events_per_second"; "quota.max_streams_per_pipeline"].
Definition chain_isolated (c : handler_chain) : bool :=
  forallb mgr_call_ok (h_mgr c) && forallb tenant_use_ok (h_tenant c).
