(* C28 — lemmas: non-interference between tenants, for any engine. *)
From Coq Require Import String List Bool NArith ZArith Lia.
Import ListNotations.
From VP Require Import Tenant.Model.
Open Scope string_scope.
Open Scope N_scope.
Open Scope list_scope.

Ltac inv H := inversion H; subst; clear H.

Section WithEngine.
Context {E : Type} (ops : engine_ops E).
Notation tenant := (@tenant E).
Notation manager := (@manager E).

Definition owner (m : manager) (k : string) : option N := sassoc k (m_index m).
Definition comp (m : manager) (a : N) : option tenant := nassoc a (m_tenants m).
Definition keymap (l : list (N * tenant)) : list (N * string) := map (fun kt => (fst kt, t_key (snd kt))) l.

(* ---- association lists ------------------------------------------------------------------------ *)
Lemma nassoc_nupdate_other {A} (a b : N) (v : A) l : a <> b -> nassoc b (nupdate a v l) = nassoc b l.
Proof.
  intros Hab. induction l as [|[k x] l IH]; simpl; auto.
  destruct (N.eqb k a) eqn:Ea; simpl.
  - apply N.eqb_eq in Ea. subst. destruct (N.eqb a b) eqn:Eb; auto. apply N.eqb_eq in Eb. contradiction.
  - destruct (N.eqb k b); auto.
Qed.

Lemma nassoc_nupdate_same {A} (a : N) (v v0 : A) l : nassoc a l = Some v0 -> nassoc a (nupdate a v l) = Some v.
Proof.
  induction l as [|[k x] l IH]; simpl; [discriminate|].
  destruct (N.eqb k a) eqn:Ea; simpl; rewrite Ea; auto.
Qed.

Lemma nupdate_none {A} (a : N) (v : A) l : nassoc a l = None -> nupdate a v l = l.
Proof.
  induction l as [|[k x] l IH]; simpl; auto.
  destruct (N.eqb k a); [discriminate|]. intros H. rewrite IH; auto.
Qed.

Lemma nassoc_nremove_same {A} (a : N) (l : list (N * A)) : nassoc a (nremove a l) = None.
Proof.
  induction l as [|[k x] l IH]; simpl; auto.
  destruct (N.eqb k a) eqn:Ea; simpl; auto. rewrite Ea. auto.
Qed.

Lemma nassoc_nremove_other {A} (a b : N) (l : list (N * A)) : a <> b -> nassoc b (nremove a l) = nassoc b l.
Proof.
  intros Hab. induction l as [|[k x] l IH]; simpl; auto.
  destruct (N.eqb k a) eqn:Ea; simpl.
  - apply N.eqb_eq in Ea. subst. destruct (N.eqb a b) eqn:Eb; auto. apply N.eqb_eq in Eb. contradiction.
  - destruct (N.eqb k b); auto.
Qed.

Lemma nassoc_app {A} (b : N) (l1 l2 : list (N * A)) :
  nassoc b (l1 ++ l2) = match nassoc b l1 with Some v => Some v | None => nassoc b l2 end.
Proof. induction l1 as [|[k x] l1 IH]; simpl; auto. destruct (N.eqb k b); auto. Qed.

Lemma keymap_nupdate (a : N) (t' t : tenant) l :
  nassoc a l = Some t -> t_key t' = t_key t -> keymap (nupdate a t' l) = keymap l.
Proof.
  induction l as [|[k x] l IH]; simpl; [discriminate|].
  destruct (N.eqb k a) eqn:Ea; simpl.
  - intros H Hk. inv H. rewrite Hk. reflexivity.
  - intros H Hk. rewrite IH; auto.
Qed.

Lemma keymap_nassoc l1 l2 (a : N) :
  keymap l1 = keymap l2 -> option_map (@t_key E) (nassoc a l1) = option_map (@t_key E) (nassoc a l2).
Proof.
  revert l2. induction l1 as [|[k x] l1 IH]; intros [|[k2 x2] l2] H; simpl in *; try discriminate; auto.
  inv H. destruct (N.eqb k2 a); simpl; auto. congruence.
Qed.

Lemma keymap_nremove l1 l2 (a : N) : keymap l1 = keymap l2 -> keymap (nremove a l1) = keymap (nremove a l2).
Proof.
  revert l2. induction l1 as [|[k x] l1 IH]; intros [|[k2 x2] l2] H; simpl in *; try discriminate; auto.
  inv H. destruct (N.eqb k2 a); simpl; auto. f_equal; auto. congruence.
Qed.

Lemma keymap_app l1 l2 : keymap (l1 ++ l2) = keymap l1 ++ keymap l2.
Proof. unfold keymap. apply map_app. Qed.

(* ---- operations on one tenant keep its key ------------------------------------------------------ *)
Lemma process_event_key t p ev : t_key (fst (process_event ops t p ev)) = t_key t.
Proof.
  unfold process_event. destruct (nassoc p (t_pipes t)); simpl; auto.
  destruct (eo_process ops (p_eng p0) ev). reflexivity.
Qed.

Lemma process_batch_key evs : forall t p acc outs, t_key (fst (fst (process_batch ops t p evs acc outs))) = t_key t.
Proof.
  induction evs as [|ev evs IH]; intros; simpl; auto.
  pose proof (process_event_key t p ev) as Hk.
  destruct (process_event ops t p ev) as [t' [o|]]; simpl in Hk; rewrite IH; auto.
Qed.

Lemma tenant_op_key t r : t_key (fst (tenant_op ops t r)) = t_key t.
Proof.
  destruct r; simpl; auto;
    try (destruct (nassoc p (t_pipes t)); reflexivity).
  - destruct (N.leb (t_maxp t) (len (t_pipes t))); auto. destruct (eo_load ops src); reflexivity.
  - pose proof (process_event_key t p ev) as Hk. destruct (process_event ops t p ev) as [t' [o|]]; auto.
  - pose proof (process_batch_key evs t p 0 []) as Hk.
    destruct (process_batch ops t p evs 0 []) as [[t' acc] outs]. auto.
  - destruct (eo_parses ops src); auto. destruct (nassoc p (t_pipes t)); reflexivity.
Qed.

(* ---- single steps ------------------------------------------------------------------------------- *)
(* a tenant request acts on the tenant its key resolves to, and on nothing else *)
Lemma with_tenant_frame m key r b :
  owner m key <> Some b ->
  comp (fst (with_tenant ops m key r)) b = comp m b /\
  m_index (fst (with_tenant ops m key r)) = m_index m /\
  keymap (m_tenants (fst (with_tenant ops m key r))) = keymap (m_tenants m).
Proof.
  unfold owner, comp, with_tenant. intros Hown.
  destruct (sassoc key (m_index m)) as [a|] eqn:Ek; [|auto].
  destruct (nassoc a (m_tenants m)) as [t|] eqn:Et; [|auto].
  pose proof (tenant_op_key t r) as Hk. destruct (tenant_op ops t r) as [t' rs]. simpl in *.
  repeat split.
  - apply nassoc_nupdate_other. congruence.
  - eapply keymap_nupdate; eauto.
Qed.

Lemma with_tenant_index m key r : m_index (fst (with_tenant ops m key r)) = m_index m.
Proof.
  unfold with_tenant. destruct (sassoc key (m_index m)) as [a|]; [|reflexivity].
  destruct (nassoc a (m_tenants m)) as [t|]; [|reflexivity]. destruct (tenant_op ops t r). reflexivity.
Qed.

Lemma with_tenant_keymap m key r : keymap (m_tenants (fst (with_tenant ops m key r))) = keymap (m_tenants m).
Proof.
  unfold with_tenant. destruct (sassoc key (m_index m)) as [a|]; [|reflexivity].
  destruct (nassoc a (m_tenants m)) as [t|] eqn:Et; [|reflexivity].
  pose proof (tenant_op_key t r) as Hk. destruct (tenant_op ops t r) as [t' rs]. simpl in *.
  eapply keymap_nupdate; eauto.
Qed.

Lemma with_tenant_unknown m key r : owner m key = None -> fst (with_tenant ops m key r) = m.
Proof. unfold owner, with_tenant. intros ->. reflexivity. Qed.

(* the answer, and what becomes of the owner's data, is a function of the owner's data only *)
Lemma with_tenant_local m1 m2 key r a :
  owner m1 key = Some a -> owner m2 key = Some a -> comp m1 a = comp m2 a ->
  snd (with_tenant ops m1 key r) = snd (with_tenant ops m2 key r) /\
  comp (fst (with_tenant ops m1 key r)) a = comp (fst (with_tenant ops m2 key r)) a.
Proof.
  unfold owner, comp, with_tenant. intros -> -> Hc.
  destruct (nassoc a (m_tenants m1)) as [t|] eqn:E1; rewrite <- Hc.
  - destruct (tenant_op ops t r) as [t' rs]. simpl. split; auto.
    rewrite (nassoc_nupdate_same _ _ _ _ E1). symmetry in Hc. rewrite (nassoc_nupdate_same _ _ _ _ Hc). reflexivity.
  - simpl. split; auto. congruence.
Qed.

(* ---- what one tenant can observe, and request sequences --------------------------------------- *)
Definition sim (b : N) (m1 m2 : manager) : Prop :=
  m_index m1 = m_index m2 /\ keymap (m_tenants m1) = keymap (m_tenants m2) /\ comp m1 b = comp m2 b.

Inductive kind := Mine | Global | Other.
Definition kind_of (b : N) (m : manager) (q : request) : kind :=
  match q with
  | Admin _ _ => Global
  | Tenant None _ => Other
  | Tenant (Some k) _ => match owner m k with Some a => if N.eqb a b then Mine else Other | None => Other end
  end.

(* run the sequence, but drop the requests made with other tenants' keys (and those with no / an unknown key) *)
Fixpoint run_for (ak : option string) (b : N) (m : manager) (qs : list request) : manager * list (option resp) :=
  match qs with
  | [] => (m, [])
  | q :: r =>
      match kind_of b m q with
      | Other => let '(m2, as_) := run_for ak b m r in (m2, None :: as_)
      | Mine => let '(m1, a) := step ops ak m q in let '(m2, as_) := run_for ak b m1 r in (m2, Some a :: as_)
      | Global => let '(m1, a) := step ops ak m q in let '(m2, as_) := run_for ak b m1 r in (m2, None :: as_)
      end
  end.

Definition agrees (r : resp) (o : option resp) : Prop := match o with Some r' => r = r' | None => True end.

Lemma sim_refl b m : sim b m m.
Proof. repeat split. Qed.

Lemma step_other ak b m1 m2 q :
  sim b m1 m2 -> kind_of b m1 q = Other -> sim b (fst (step ops ak m1 q)) m2.
Proof.
  intros (Hi & Hk & Hc) Hkind. destruct q as [[k|] r|]; simpl in *; try discriminate.
  - assert (Hown : owner m1 k <> Some b).
    { destruct (owner m1 k) as [a|]; [|discriminate]. destruct (N.eqb a b) eqn:Eab; [discriminate|].
      apply N.eqb_neq in Eab. congruence. }
    destruct (with_tenant_frame m1 k r b Hown) as (H1 & H2 & H3).
    repeat split; congruence.
  - repeat split; auto.
Qed.

Lemma kind_sim b m1 m2 q : sim b m1 m2 -> kind_of b m1 q = kind_of b m2 q.
Proof. intros (Hi & _ & _). destruct q as [[k|] r|]; simpl; auto. unfold owner. rewrite Hi. reflexivity. Qed.

Lemma step_mine ak b m1 m2 q :
  sim b m1 m2 -> kind_of b m1 q = Mine ->
  snd (step ops ak m1 q) = snd (step ops ak m2 q) /\ sim b (fst (step ops ak m1 q)) (fst (step ops ak m2 q)).
Proof.
  intros Hs Hkind. pose proof Hs as (Hi & Hk & Hc).
  destruct q as [[k|] r|]; simpl in *; try discriminate.
  destruct (owner m1 k) as [a|] eqn:Eo; [|discriminate]. destruct (N.eqb a b) eqn:Eab; [|discriminate].
  apply N.eqb_eq in Eab. subst a.
  assert (Eo2 : owner m2 k = Some b) by (unfold owner in *; congruence).
  destruct (with_tenant_local m1 m2 k r b Eo Eo2 Hc) as [Hr Hc'].
  split; [assumption|]. repeat split; auto.
  - rewrite !with_tenant_index. assumption.
  - rewrite !with_tenant_keymap. assumption.
Qed.

Lemma step_global ak b m1 m2 q :
  sim b m1 m2 -> kind_of b m1 q = Global -> sim b (fst (step ops ak m1 q)) (fst (step ops ak m2 q)).
Proof.
  intros Hs Hkind. pose proof Hs as (Hi & Hk & Hc).
  destruct q as [[k|] r|[k|] r]; simpl in *.
  { destruct (owner m1 k) as [a|]; [destruct (N.eqb a b)|]; discriminate. }
  { discriminate. }
  2: { assumption. }
  unfold admin_step. destruct ak as [kk|]; [|assumption].
  destruct (negb (String.eqb kk k)); [assumption|].
  destruct r; simpl.
  - rewrite <- Hi. destruct (sassoc fresh_key (m_index m1)); [assumption|].
    split; [|split]; simpl.
    + congruence.
    + rewrite !keymap_app. congruence.
    + unfold comp in *. simpl. rewrite !nassoc_app, Hc. reflexivity.
  - assumption.
  - destruct (nassoc t (m_tenants m1)), (nassoc t (m_tenants m2)); assumption.
  - pose proof (keymap_nassoc _ _ t Hk) as Hkt.
    destruct (nassoc t (m_tenants m1)) as [t1|] eqn:E1; destruct (nassoc t (m_tenants m2)) as [t2|] eqn:E2;
      simpl in Hkt; try discriminate; [|assumption].
    inv Hkt. split; [|split]; simpl.
    + rewrite H0, Hi. reflexivity.
    + apply keymap_nremove. assumption.
    + unfold comp in *. simpl. destruct (N.eq_dec t b) as [->|Hn].
      * rewrite !nassoc_nremove_same. reflexivity.
      * rewrite !nassoc_nremove_other by assumption. assumption.
Qed.

Theorem run_noninterference ak b qs : forall m1 m2,
  sim b m1 m2 ->
  sim b (fst (run ops ak m1 qs)) (fst (run_for ak b m2 qs)) /\
  Forall2 agrees (snd (run ops ak m1 qs)) (snd (run_for ak b m2 qs)).
Proof.
  induction qs as [|q qs IH]; intros m1 m2 Hs; simpl.
  - split; [assumption|constructor].
  - rewrite <- (kind_sim b m1 m2 q Hs).
    destruct (kind_of b m1 q) eqn:Ek.
    + destruct (step_mine ak b m1 m2 q Hs Ek) as [Hr Hs'].
      destruct (step ops ak m1 q) as [m1' a1]. destruct (step ops ak m2 q) as [m2' a2]. simpl in *. subst a2.
      specialize (IH m1' m2' Hs').
      destruct (run ops ak m1' qs) as [mf rs]. destruct (run_for ak b m2' qs) as [mp rp]. simpl in *.
      destruct IH as [IH1 IH2]. split; [assumption|]. constructor; [reflexivity|assumption].
    + pose proof (step_global ak b m1 m2 q Hs Ek) as Hs'.
      destruct (step ops ak m1 q) as [m1' a1]. destruct (step ops ak m2 q) as [m2' a2]. simpl in *.
      specialize (IH m1' m2' Hs').
      destruct (run ops ak m1' qs) as [mf rs]. destruct (run_for ak b m2' qs) as [mp rp]. simpl in *.
      destruct IH as [IH1 IH2]. split; [assumption|]. constructor; [exact I|assumption].
    + pose proof (step_other ak b m1 m2 q Hs Ek) as Hs'.
      destruct (step ops ak m1 q) as [m1' a1]. simpl in *.
      specialize (IH m1' m2 Hs').
      destruct (run ops ak m1' qs) as [mf rs]. destruct (run_for ak b m2 qs) as [mp rp]. simpl in *.
      destruct IH as [IH1 IH2]. split; [assumption|]. constructor; [exact I|assumption].
Qed.

(* ---- a pipeline id that is not the caller's is refused and changes none of the caller's pipelines ---------- *)
Definition names_pipeline (r : treq) : option N :=
  match r with
  | TGet p | TDelete p | TMetrics p | TCheckpoint p | TLogs p | TInject p _ | TBatch p _ | TReload p _ | TRestore p _ => Some p
  | _ => None
  end.

Definition is_refusal (rs : resp) : Prop :=
  match rs with
  | RErr st _ => st = 404 \/ st = 400
  | ROk _ (PBatch acc outs) => acc = 0 /\ outs = []
  | _ => False
  end.

Lemma process_event_foreign t p ev :
  nassoc p (t_pipes t) = None ->
  snd (process_event ops t p ev) = None /\ t_pipes (fst (process_event ops t p ev)) = t_pipes t.
Proof. unfold process_event. intros ->. auto. Qed.

Lemma process_batch_foreign evs : forall t p acc outs,
  nassoc p (t_pipes t) = None ->
  let '(t', acc', outs') := process_batch ops t p evs acc outs in
  t_pipes t' = t_pipes t /\ acc' = acc /\ outs' = outs.
Proof.
  induction evs as [|ev evs IH]; intros t p acc outs Hn; simpl; auto.
  destruct (process_event_foreign t p ev Hn) as [H1 H2].
  destruct (process_event ops t p ev) as [t' o]. simpl in *. subst o.
  assert (Hn' : nassoc p (t_pipes t') = None) by congruence.
  specialize (IH t' p acc outs Hn').
  destruct (process_batch ops t' p evs acc outs) as [[t'' a] o]. destruct IH as (-> & -> & ->). auto.
Qed.

Theorem foreign_id_refused t r p :
  names_pipeline r = Some p -> nassoc p (t_pipes t) = None ->
  is_refusal (snd (tenant_op ops t r)) /\ t_pipes (fst (tenant_op ops t r)) = t_pipes t.
Proof.
  intros Hn Hp. destruct r; simpl in Hn; inv Hn; simpl; try (rewrite Hp; simpl; auto; fail).
  - destruct (process_event_foreign t p ev Hp) as [H1 H2].
    destruct (process_event ops t p ev) as [t' o]. simpl in *. subst o. simpl. auto.
  - pose proof (process_batch_foreign evs t p 0 [] Hp) as H.
    destruct (process_batch ops t p evs 0 []) as [[t' a] o]. destruct H as (H1 & -> & ->). simpl. auto.
  - destruct (eo_parses ops src); [rewrite Hp|]; simpl; auto.
Qed.

End WithEngine.
