(* C31 — executable model of security::validate_path over a file-system tree with symlinks.  Definitions only.

   Mirrors crates/varpulis-cli/src/security.rs validate_path:
     absolute     `if requested.is_absolute() { requested } else { workdir.join(&requested) }`
     canonicalize std::fs::canonicalize = realpath(3): components left to right; "" and "." skipped; ".." drops the last
                  resolved component (nothing to drop at the root); a name is looked up in the directory reached so far
                  (ENOENT if absent); a symlink's target is spliced in front of the remaining components (restarting
                  from the root when it is absolute), at most 40 symlinks in total (ELOOP); a non-directory followed by
                  anything -- a further component, "." or "..", or only a trailing slash -- is ENOTDIR;
                  a NUL byte in the path is an error before anything else
     starts_with  Path::starts_with: component-wise prefix
   A path string is a list of bytes (Coq string); the file system is a tree: directories hold named entries, symlinks
   hold their target string.  Fuel bounds the recursion (out of fuel = ELOOP; `fuel_for` is always enough, see Proofs). *)
From Coq Require Import String Ascii List Bool Arith.
Import ListNotations.
Open Scope string_scope.

Inductive node := NFile | NDir (entries : list (string * node)) | NLink (target : string).

Inductive err := ENoEnt | ENotDir | ELoop | ENul.
Inductive res (A : Type) := Ok (a : A) | Err (e : err).
Arguments Ok {A}. Arguments Err {A}.

(* ---- path strings -------------------------------------------------------------------------------- *)
Definition slash : ascii := "/"%char.
Definition is_slash (c : ascii) : bool := Ascii.eqb c slash.

(* split on '/': "a//b/" -> ["a"; ""; "b"; ""] *)
Fixpoint split_slash (s : string) (cur : string) : list string :=
  match s with
  | EmptyString => [cur]
  | String c r => if is_slash c then cur :: split_slash r "" else split_slash r (cur ++ String c "")
  end.
Definition components (s : string) : list string := split_slash s "".

Definition is_absolute (s : string) : bool := match s with String c _ => is_slash c | EmptyString => false end.

Fixpoint has_nul (s : string) : bool :=
  match s with EmptyString => false | String c r => Ascii.eqb c Ascii.zero || has_nul r end.

(* does the path end in a slash (or in "/." ...)? only whether something follows the last name matters: the model keeps
   the empty / "." / ".." components in the to-do list, so "file/" leaves [""] behind "file" *)

(* ---- the tree ------------------------------------------------------------------------------------- *)
Fixpoint assoc (k : string) (l : list (string * node)) : option node :=
  match l with [] => None | (k', v) :: r => if String.eqb k' k then Some v else assoc k r end.

(* physical lookup: follows no symlink *)
Fixpoint lookup (n : node) (p : list string) : option node :=
  match p with
  | [] => Some n
  | c :: r => match n with
              | NDir es => match assoc c es with Some n' => lookup n' r | None => None end
              | _ => None
              end
  end.

(* ---- realpath -------------------------------------------------------------------------------------- *)
Definition max_links : nat := 40.

Fixpoint resolve (fuel : nat) (root : node) (resolved : list string) (todo : list string) (links : nat) : res (list string) :=
  match fuel with
  | O => Err ELoop
  | S f =>
      match todo with
      | [] => Ok resolved
      | c :: rest =>
          match lookup root resolved with
          | Some (NDir es) =>
              if String.eqb c "" || String.eqb c "." then resolve f root resolved rest links
              else if String.eqb c ".." then resolve f root (removelast resolved) rest links
              else match assoc c es with
                   | None => Err ENoEnt
                   | Some (NLink target) =>
                       if Nat.leb max_links links then Err ELoop
                       else resolve f root (if is_absolute target then [] else resolved)
                                    (components target ++ rest) (S links)
                   | Some _ => resolve f root (resolved ++ [c]) rest links
                   end
          | Some _ => Err ENotDir          (* a file followed by anything, even "" "." ".." *)
          | None => Err ENoEnt
          end
      end
  end.

(* enough fuel: every step either consumes a component or expands one of at most 40 symlinks *)
Fixpoint max_target_len (n : node) : nat :=
  match n with
  | NFile => 0
  | NLink t => length (components t)
  | NDir es => (fix go (l : list (string * node)) : nat :=
                  match l with [] => 0 | (_, x) :: r => Nat.max (max_target_len x) (go r) end) es
  end.
Definition fuel_for (root : node) (todo : list string) : nat :=
  S (length todo + (S max_links) * S (max_target_len root)).

Definition canonicalize (root : node) (p : string) : res (list string) :=
  if has_nul p then Err ENul
  else if is_absolute p then resolve (fuel_for root (components p)) root [] (components p) 0
  else Err ENoEnt.                       (* only absolute paths reach canonicalize in validate_path (cwd not modelled) *)

(* ---- validate_path ---------------------------------------------------------------------------------- *)
Inductive verdict := VOk (q : list string) | VTraversal | VInvalidPath | VInvalidWorkdir.

Fixpoint is_prefix (a b : list string) : bool :=
  match a, b with
  | [], _ => true
  | x :: a', y :: b' => String.eqb x y && is_prefix a' b'
  | _ :: _, [] => false
  end.

(* PathBuf::join / push for a relative path onto an absolute one without trailing slash *)
Definition join (wd p : string) : string := wd ++ "/" ++ p.

Definition validate_path (root : node) (p : string) (wd : string) : verdict :=
  let absolute := if is_absolute p then p else join wd p in
  match canonicalize root wd with
  | Err _ => VInvalidWorkdir
  | Ok wdc =>
      match canonicalize root absolute with
      | Err _ => VInvalidPath
      | Ok q => if is_prefix wdc q then VOk q else VTraversal
      end
  end.
