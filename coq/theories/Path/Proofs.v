(* C31 — lemmas: what realpath returns is a physical path (no symlink on it), and a path accepted by
   validate_path lies physically below the directory the work directory canonicalises to. *)
From Coq Require Import String Ascii List Bool Arith Lia.
Import ListNotations.
From VP Require Import Path.Model.
Open Scope string_scope.
Open Scope list_scope.

Ltac inv H := inversion H; subst; clear H.
Local Opaque max_links.

Definition not_link (n : node) : Prop := match n with NLink _ => False | _ => True end.

Lemma lookup_app n a b :
  lookup n (a ++ b) = match lookup n a with Some m => lookup m b | None => None end.
Proof.
  revert n. induction a as [|c a IH]; intros n; simpl; auto.
  destruct n; auto. destruct (assoc c entries); auto.
Qed.

Lemma lookup_snoc_dir root l x n :
  lookup root (l ++ [x]) = Some n -> exists es, lookup root l = Some (NDir es).
Proof.
  rewrite lookup_app. destruct (lookup root l) as [m|]; [|discriminate].
  destruct m; simpl; try discriminate. eauto.
Qed.

Lemma lookup_removelast root l es :
  lookup root l = Some (NDir es) -> exists es', lookup root (removelast l) = Some (NDir es').
Proof.
  intros H. destruct l as [|a l0].
  - simpl. eauto.
  - assert (Hne : a :: l0 <> []) by discriminate.
    destruct (exists_last Hne) as (l' & x & Heq). rewrite Heq in *. rewrite removelast_last.
    eapply lookup_snoc_dir; eauto.
Qed.

(* realpath returns a path that exists without following any symlink, and does not end in one *)
Lemma resolve_physical fuel root : forall resolved todo links q n0,
  lookup root resolved = Some n0 -> not_link n0 ->
  resolve fuel root resolved todo links = Ok q ->
  exists n, lookup root q = Some n /\ not_link n.
Proof.
  induction fuel as [|f IH]; intros resolved todo links q n0 Hl Hn Hr; simpl in Hr; [discriminate|].
  destruct todo as [|c rest].
  - inv Hr. eauto.
  - rewrite Hl in Hr. destruct n0 as [|es|t]; try discriminate.
    destruct (String.eqb c "" || String.eqb c ".").
    + eapply IH; eauto.
    + destruct (String.eqb c "..").
      * destruct (lookup_removelast _ _ _ Hl) as [es' Hl']. eapply IH; [exact Hl'|exact I|exact Hr].
      * destruct (assoc c es) as [n'|] eqn:Ea; [|discriminate].
        destruct n' as [|es'|t].
        -- eapply (IH (resolved ++ [c]) rest links q NFile); [|exact I|exact Hr]. rewrite lookup_app, Hl. simpl. rewrite Ea. reflexivity.
        -- eapply (IH (resolved ++ [c]) rest links q (NDir es')); [|exact I|exact Hr]. rewrite lookup_app, Hl. simpl. rewrite Ea. reflexivity.
        -- destruct (Nat.leb max_links links); [discriminate|].
           destruct (is_absolute t).
           ++ destruct root as [|res|rt]; simpl in *.
              ** destruct resolved; simpl in Hl; discriminate.
              ** eapply (IH []); [reflexivity|exact I|exact Hr].
              ** destruct resolved; simpl in Hl; discriminate.
           ++ eapply IH; [exact Hl|exact I|exact Hr].
Qed.

(* more fuel never changes a successful answer *)
Lemma resolve_fuel_mono fuel root : forall resolved todo links q k,
  resolve fuel root resolved todo links = Ok q -> resolve (fuel + k) root resolved todo links = Ok q.
Proof.
  induction fuel as [|f IH]; intros resolved todo links q k Hr; simpl in Hr; [discriminate|].
  simpl. destruct todo as [|c rest]; [assumption|].
  destruct (lookup root resolved) as [[|es|t]|]; try discriminate.
  destruct (String.eqb c "" || String.eqb c "."); [auto|].
  destruct (String.eqb c ".."); [auto|].
  destruct (assoc c es) as [[|es'|t]|]; try discriminate; auto.
  destruct (Nat.leb max_links links); [discriminate|]. auto.
Qed.

Lemma is_prefix_app a b : is_prefix a b = true -> exists s, b = a ++ s.
Proof.
  revert b. induction a as [|x a IH]; intros b H; simpl in *; [eauto|].
  destruct b as [|y b]; [discriminate|]. apply andb_prop in H as [H1 H2].
  apply String.eqb_eq in H1. subst. destruct (IH _ H2) as [s ->]. eauto.
Qed.

Lemma canonicalize_physical root es p q :
  root = NDir es -> canonicalize root p = Ok q -> exists n, lookup root q = Some n /\ not_link n.
Proof.
  unfold canonicalize. intros -> H. destruct (has_nul p); [discriminate|]. destruct (is_absolute p); [|discriminate].
  eapply resolve_physical; [| |exact H]; [reflexivity|exact I].
Qed.

Theorem validate_inside root es p wd q :
  root = NDir es ->
  validate_path root p wd = VOk q ->
  exists wdc suffix wdn n,
    canonicalize root wd = Ok wdc /\
    canonicalize root (if is_absolute p then p else join wd p) = Ok q /\
    q = wdc ++ suffix /\
    lookup root wdc = Some wdn /\ lookup wdn suffix = Some n /\ not_link n /\ not_link wdn.
Proof.
  intros Hroot Hv. unfold validate_path in Hv.
  destruct (canonicalize root wd) as [wdc|] eqn:Ew; [|discriminate].
  destruct (canonicalize root (if is_absolute p then p else join wd p)) as [q'|] eqn:Eq; [|discriminate].
  destruct (is_prefix wdc q') eqn:Ep; [|discriminate]. injection Hv as <-.
  destruct (is_prefix_app _ _ Ep) as [suffix ->].
  destruct (canonicalize_physical _ _ _ _ Hroot Eq) as (n & Hn & Hnl).
  destruct (canonicalize_physical _ _ _ _ Hroot Ew) as (wdn & Hwn & Hwl).
  rewrite lookup_app, Hwn in Hn.
  exists wdc, suffix, wdn, n. repeat split; auto.
Qed.

(* ---- the fuel of the model is enough: beyond `fuel_for`, more fuel changes nothing (errors included) ------- *)
Fixpoint mtl_entries (l : list (string * node)) : nat :=
  match l with [] => 0 | (_, x) :: r => Nat.max (max_target_len x) (mtl_entries r) end.

Lemma mtl_dir es : max_target_len (NDir es) = mtl_entries es.
Proof. induction es as [|[k x] r IH]; simpl; auto. Qed.

Lemma mtl_assoc es c x : assoc c es = Some x -> max_target_len x <= mtl_entries es.
Proof.
  induction es as [|[k y] r IH]; simpl; [discriminate|].
  destruct (String.eqb k c).
  - intros H. inv H. apply Nat.le_max_l.
  - intros H. etransitivity; [apply IH; assumption|apply Nat.le_max_r].
Qed.

Lemma mtl_lookup p : forall root n, lookup root p = Some n -> max_target_len n <= max_target_len root.
Proof.
  induction p as [|c p IH]; intros root n H; simpl in H.
  - inv H. auto.
  - destruct root as [|es|t]; try discriminate.
    destruct (assoc c es) as [x|] eqn:Ea; [|discriminate].
    etransitivity; [eapply IH; eassumption|]. rewrite mtl_dir. eapply mtl_assoc; eauto.
Qed.

Lemma resolve_enough fuel root : forall resolved todo links k,
  links <= max_links ->
  length todo + (max_links - links) * S (max_target_len root) < fuel ->
  resolve (fuel + k) root resolved todo links = resolve fuel root resolved todo links.
Proof.
  induction fuel as [|f IH]; intros resolved todo links k Hl Hb; [exfalso; eapply Nat.nlt_0_r; exact Hb|].
  simpl. destruct todo as [|c rest]; [reflexivity|]. cbn [length] in Hb.
  set (D := (max_links - links) * S (max_target_len root)) in *.
  destruct (lookup root resolved) as [[|es|t]|] eqn:El; try reflexivity.
  destruct (String.eqb c "" || String.eqb c "."); [apply IH; [assumption|lia]|].
  destruct (String.eqb c ".."); [apply IH; [assumption|lia]|].
  destruct (assoc c es) as [[|es'|t]|] eqn:Ea; try reflexivity; try (apply IH; [assumption|lia]).
  destruct (Nat.leb max_links links) eqn:Elim; [reflexivity|].
  apply Nat.leb_gt in Elim.
  assert (Ht : length (components t) <= max_target_len root).
  { pose proof (mtl_lookup _ _ _ El) as H1. rewrite mtl_dir in H1.
    pose proof (mtl_assoc _ _ _ Ea) as H2. simpl in H2. lia. }
  apply IH; [lia|]. rewrite app_length. subst D.
  remember (max_links - links) as d. assert (Hd : max_links - S links = d - 1) by lia. rewrite Hd.
  assert (d >= 1) by lia. destruct d as [|d']; [lia|]. cbn [Nat.sub]. rewrite Nat.sub_0_r.
  remember (max_target_len root) as M. nia.
Qed.

Theorem fuel_for_enough root todo k :
  resolve (fuel_for root todo + k) root [] todo 0 = resolve (fuel_for root todo) root [] todo 0.
Proof.
  apply resolve_enough; [lia|]. unfold fuel_for. rewrite Nat.sub_0_r. simpl. lia.
Qed.
