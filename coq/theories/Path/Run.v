(* C31 — rendering for the correspondence check.  Names and path strings are given as lists of byte codes
   (`bs [47; 119]` = "/w"); the verdict is rendered with every component as dot-separated byte codes. *)
From Coq Require Import String Ascii List Bool Arith.
Import ListNotations.
From VP Require Import Base.Render Path.Model.
Open Scope string_scope.

Fixpoint bs (l : list nat) : string :=
  match l with [] => EmptyString | c :: r => String (ascii_of_nat c) (bs r) end.

Fixpoint codes (s : string) : list nat :=
  match s with EmptyString => [] | String c r => nat_of_ascii c :: codes r end.

Definition r_comp (s : string) : string := Render.join "." (map str_of_nat (codes s)).
Definition r_verdict (v : verdict) : string :=
  match v with
  | VOk q => "ok:" ++ Render.join "/" (map r_comp q)
  | VTraversal => "traversal"
  | VInvalidPath => "invalid"
  | VInvalidWorkdir => "workdir"
  end.

Definition case (root : node) (wd : list nat) (paths : list (list nat)) : string :=
  Render.join "|" (map (fun p => r_verdict (validate_path root (bs p) (bs wd))) paths).
