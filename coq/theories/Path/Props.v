(* C31 — file paths accepted by the server always stay inside the work directory.  ONLY the property theorems.

   For every file-system tree (any nesting, any symlinks: relative, absolute, dangling, cyclic, pointing inside or
   outside), every work-directory string and every requested path string (relative or absolute, with "..", ".",
   repeated or trailing slashes, arbitrary bytes). *)
From Coq Require Import String Ascii List Bool Arith.
Import ListNotations.
From VP Require Import Path.Model Path.Proofs.
Open Scope string_scope.
Open Scope list_scope.

(* An accepted path q is the realpath of the request (taken relative to the work directory unless absolute), it
   extends the realpath wdc of the work directory component-wise, and the object it names is reached from the
   work directory's own directory node by walking down `suffix` WITHOUT following any symlink: it is physically
   inside the work directory.  Neither q nor wdc ends in a symlink. *)
Theorem C31_inside : forall (root : node) (es : list (string * node)) (p wd : string) (q : list string),
  root = NDir es ->
  validate_path root p wd = VOk q ->
  exists wdc suffix wdn n,
    canonicalize root wd = Ok wdc /\
    canonicalize root (if is_absolute p then p else join wd p) = Ok q /\
    q = wdc ++ suffix /\
    lookup root wdc = Some wdn /\ lookup wdn suffix = Some n /\ not_link n /\ not_link wdn.
Proof. exact validate_inside. Qed.

(* What realpath returns exists as a physical path: no component of it is a symlink. *)
Theorem C31_canonical_is_physical : forall (root : node) (es : list (string * node)) (p : string) (q : list string),
  root = NDir es -> canonicalize root p = Ok q -> exists n, lookup root q = Some n /\ not_link n.
Proof. exact canonicalize_physical. Qed.

(* A request whose realpath does not extend the work directory's realpath is refused. *)
Theorem C31_escape_rejected : forall (root : node) (p wd : string) (wdc q : list string),
  canonicalize root wd = Ok wdc ->
  canonicalize root (if is_absolute p then p else join wd p) = Ok q ->
  is_prefix wdc q = false ->
  validate_path root p wd = VTraversal.
Proof. intros root p wd wdc q Hw Hq Hp. unfold validate_path. rewrite Hw, Hq, Hp. reflexivity. Qed.

(* The answer of realpath does not depend on the recursion bound of the model once it succeeds. *)
Theorem C31_fuel_irrelevant : forall (fuel k : nat) (root : node) (resolved todo : list string) (links : nat) (q : list string),
  resolve fuel root resolved todo links = Ok q -> resolve (fuel + k) root resolved todo links = Ok q.
Proof. intros. apply resolve_fuel_mono. assumption. Qed.

(* ... and the bound `fuel_for` used by canonicalize is enough: beyond it more fuel changes nothing, errors included
   (every step consumes a component or expands one of at most 40 symlinks), so the model's ELOOP is the 40-link limit,
   never an artefact of the recursion bound. *)
Theorem C31_fuel_sufficient : forall (root : node) (todo : list string) (k : nat),
  resolve (fuel_for root todo + k) root [] todo 0 = resolve (fuel_for root todo) root [] todo 0.
Proof. exact fuel_for_enough. Qed.

(* Non-vacuity: /w is the work directory; /w/in -> sub, /w/out -> ../o (escapes), /w/abs -> /o/f (escapes),
   /w/loop -> loop, /w/sub/f is a file, /o/f is a file outside. *)
Definition ex_root : node :=
  NDir [("w", NDir [("sub", NDir [("f", NFile)]); ("in", NLink "sub"); ("out", NLink "../o");
                    ("abs", NLink "/o/f"); ("loop", NLink "loop")]);
        ("o", NDir [("f", NFile)])].
Example ex_accept : validate_path ex_root "in/f" "/w" = VOk ["w"; "sub"; "f"].
Proof. vm_compute. reflexivity. Qed.
Example ex_dotdot : validate_path ex_root "sub/../../o/f" "/w" = VTraversal.
Proof. vm_compute. reflexivity. Qed.
Example ex_symlink_rel_escape : validate_path ex_root "out/f" "/w" = VTraversal.
Proof. vm_compute. reflexivity. Qed.
Example ex_symlink_abs_escape : validate_path ex_root "abs" "/w" = VTraversal.
Proof. vm_compute. reflexivity. Qed.
Example ex_absolute_outside : validate_path ex_root "/o/f" "/w" = VTraversal.
Proof. vm_compute. reflexivity. Qed.
Example ex_absolute_inside : validate_path ex_root "/w/sub//./f" "/w" = VOk ["w"; "sub"; "f"].
Proof. vm_compute. reflexivity. Qed.
Example ex_loop : validate_path ex_root "loop" "/w" = VInvalidPath.
Proof. vm_compute. reflexivity. Qed.
Example ex_file_slash : validate_path ex_root "sub/f/" "/w" = VInvalidPath.
Proof. vm_compute. reflexivity. Qed.
Example ex_sibling_prefix : validate_path (NDir [("w", NDir []); ("w2", NDir [("f", NFile)])]) "../w2/f" "/w" = VTraversal.
Proof. vm_compute. reflexivity. Qed.
