(* C29 — the four applications assembled from the regenerated route tables.  Definitions only
   (kept apart from Props.v so that the model still evaluates when a theorem about the tables breaks). *)
From Coq Require Import String List Bool Arith.
Import ListNotations.
From VP Require Import Rbac.Syntax Rbac.Model Rbac.Policy Rbac.Gen_Routes.
Open Scope string_scope.
Open Scope list_scope.

(* the four applications: route table, CLI handler prologues, recover function, documented policy *)
Inductive app := AppCluster | AppRaft | AppRaftCluster | AppCli.
Definition app_routes (a : app) : list route :=
  match a with
  | AppCluster => cluster_routes | AppRaft => raft_routes
  | AppRaftCluster => raft_routes ++ cluster_routes | AppCli => cli_routes
  end.
Definition app_prologues (a : app) : list (string * hprologue) :=
  match a with AppCli => cli_prologues | _ => [] end.
Definition app_recover (a : app) : list rej -> nat :=
  match a with AppCli => cli_recover | _ => cluster_recover end.
Definition app_policy (a : app) : list endpoint :=
  match a with
  | AppCluster => cluster_policy | AppRaft => raft_policy
  | AppRaftCluster => raft_policy ++ cluster_policy | AppCli => cli_policy
  end.
(* cluster_routes_with_raft passes rbac.any_admin_key() as the Raft key *)
Definition app_cfg (a : app) (cfg : config) : config :=
  match a with AppRaftCluster => with_raft_key_from_rbac cfg | _ => cfg end.
Definition app_serve (a : app) (cfg : config) (q : request) : result :=
  serve (app_recover a) (app_prologues a) (app_cfg a cfg) q (app_routes a).

