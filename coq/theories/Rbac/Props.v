(* C29 — every API endpoint enforces its required role.  ONLY the property theorems.

   Tables: Gen_Routes.cluster_routes / raft_routes / cli_routes / cli_prologues are regenerated from the Rust
   source by translate/routes.py on every run; Policy.cluster_policy / raft_policy / cli_policy is the documented
   policy.  All theorems quantify over EVERY request (any method, any path of any length with arbitrary
   segments, any x-api-key / x-admin-key header values, any body / query state) and EVERY configuration
   (any RBAC key list with distinct keys — it is a HashMap —, anonymous access on or off with any role, any
   Raft key or none, any admin key or none, any set of tenant keys, rate limiter admitting or not).  The only
   facts about the concrete tables are decided by vm_compute (table_ok, auth_before_reads). *)
From Coq Require Import String List Bool Arith.
Import ListNotations.
From VP Require Import Rbac.Syntax Rbac.Model Rbac.Policy Rbac.Proofs Rbac.ProofsPure Rbac.Gen_Routes Rbac.Apps.
Open Scope string_scope.
Open Scope list_scope.

Lemma tables_ok : forall a, table_ok (app_routes a) (app_prologues a) (app_policy a) = true.
Proof. intros []; vm_compute; reflexivity. Qed.

Lemma tables_auth_before_reads : forall a r, In r (app_routes a) -> auth_before_reads (rstages r) false = true.
Proof.
  intros a r Hin.
  assert (H : forallb (fun r => auth_before_reads (rstages r) false) (app_routes a) = true) by (destruct a; vm_compute; reflexivity).
  rewrite forallb_forall in H. auto.
Qed.

Lemma app_cfg_wf a cfg : cfg_wf cfg -> cfg_wf (app_cfg a cfg).
Proof. destruct a; auto. Qed.

(* The role authenticate gives a key is the documented one (keys of the HashMap are distinct). *)
Theorem C29_authenticate_spec : forall (c : rbac) (key : option string),
  NoDup (map fst (rkeys c)) -> authenticate c key = spec_role c key.
Proof. exact authenticate_spec. Qed.

(* Served only if granted: whenever a handler body runs, the request addresses a documented endpoint and its
   credential grants that endpoint's documented access. *)
Theorem C29_matrix_sound : forall (a : app) (cfg : config) (q : request) (route handler : string),
  cfg_wf cfg ->
  app_serve a cfg q = Served route handler ->
  exists e, In e (app_policy a) /\ ep_matches e q = true /\ granted (e_access e) (app_cfg a cfg) q = true.
Proof.
  intros a cfg q n h Hwf Hs. eapply served_sound; eauto using tables_ok, app_cfg_wf.
Qed.

(* ... and if granted (and the rate limiter admits the client, the body and the query deserialise), it is served. *)
Theorem C29_matrix_complete : forall (a : app) (cfg : config) (q : request) (e : endpoint),
  cfg_wf cfg ->
  In e (app_policy a) -> ep_matches e q = true -> granted (e_access e) (app_cfg a cfg) q = true ->
  c_rate_ok cfg = true -> qbody q = BGood -> qquery_ok q = true ->
  exists route handler, app_serve a cfg q = Served route handler.
Proof.
  intros a cfg q e Hwf Hin Hm Hg Hr Hb Hq. eapply served_complete; eauto using tables_ok, app_cfg_wf.
  destruct a; exact Hr.
Qed.

(* No shadowing: the (unique) route whose method and path a request addresses decides alone — if it refuses,
   no other route of the chain, earlier or later, serves the request. *)
Theorem C29_no_shadow : forall (a : app) (cfg : config) (q : request) (r : route),
  In r (app_routes a) -> addresses (app_prologues a) r q ->
  match app_serve a cfg q with
  | Served n _ | Denied n _ _ => n = rname r
  | Rejected _ => exists j, run_route (app_cfg a cfg) q r = OReject j
  end.
Proof. intros a cfg q r Hin Had. eapply addressed_route_decides; eauto using tables_ok. Qed.

(* A failing auth filter ends the route before any filter that reads the body, the query or the shared state,
   and before the handler. *)
Theorem C29_reject_pure : forall (a : app) (cfg : config) (q : request) (r : route) (j : rej),
  In r (app_routes a) ->
  run_route cfg q r = OReject j -> is_auth_rej j = true ->
  forall s, In s (run_trace cfg q (qpath q) (rstages r)) -> reads_request_or_state s = false.
Proof. intros a cfg q r j Hin. apply auth_reject_reads_nothing. eapply tables_auth_before_reads; eauto. Qed.

(* The handler runs only in a route all of whose filters passed. *)
Theorem C29_handler_only_when_accepted : forall (cfg : config) (q : request) (r : route) (h : string),
  In (SHandler h) (run_trace cfg q (qpath q) (rstages r)) -> exists h', run_route cfg q r = OHandler h'.
Proof. intros cfg q r h. apply handler_in_trace_iff. Qed.

(* Non-vacuity: concrete requests on the regenerated tables. *)
Definition cfg3 : config :=
  mkCfg (rbac_multi [("ka", Admin); ("ko", Operator); ("kv", Viewer)]) (Some "rk") (Some "adm") ["key-a"; "key-b"] true.
Definition req m p k ak := mkReq m p k ak BGood true.

Example ex_viewer_lists_workers :
  app_serve AppCluster cfg3 (req GET ["api"; "v1"; "cluster"; "workers"] (Some "kv") None) = Served "list_workers" "handle_list_workers".
Proof. vm_compute. reflexivity. Qed.
Example ex_viewer_cannot_delete :
  app_serve AppCluster cfg3 (req DELETE ["api"; "v1"; "cluster"; "workers"; "w1"] (Some "kv") None) = Rejected 403.
Proof. vm_compute. reflexivity. Qed.
Example ex_no_key :
  app_serve AppCluster cfg3 (req GET ["api"; "v1"; "cluster"; "workers"] None None) = Rejected 401.
Proof. vm_compute. reflexivity. Qed.
Example ex_raft_key_from_rbac :
  app_serve AppRaftCluster cfg3 (req POST ["raft"; "vote"] (Some "ka") None) = Served "vote" "handle_vote"
  /\ app_serve AppRaftCluster cfg3 (req POST ["raft"; "vote"] (Some "ko") None) = Rejected 500.
Proof. vm_compute. auto. Qed.
Example ex_foreign_tenant_key :
  app_serve AppCli cfg3 (req GET ["api"; "v1"; "pipelines"; "p1"] (Some "nope") None) = Denied "get_pipeline" "handle_get" 401.
Proof. vm_compute. reflexivity. Qed.
Example ex_cfg3_wf : cfg_wf cfg3.
Proof. unfold cfg_wf. simpl. repeat constructor; simpl; intuition discriminate. Qed.
