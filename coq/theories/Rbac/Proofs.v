(* C29 — lemmas.  Everything is generic in the route table: the facts about the tables regenerated from the Rust
   source enter through one decidable predicate [table_ok] evaluated by vm_compute in Props.v. *)
From Coq Require Import String List Bool Arith Lia.
Import ListNotations.
From VP Require Import Rbac.Syntax Rbac.Model Rbac.Policy.
Open Scope string_scope.
Open Scope list_scope.

Ltac inv H := inversion H; subst; clear H.

(* ---- decidable equalities ------------------------------------------------------------------ *)
Definition meth_eq_dec (a b : meth) : {a = b} + {a <> b}. Proof. decide equality. Defined.
Definition role_eq_dec (a b : role) : {a = b} + {a <> b}. Proof. decide equality. Defined.
Definition pseg_eq_dec (a b : pseg) : {a = b} + {a <> b}. Proof. decide equality. apply string_dec. Defined.
Definition access_eq_dec (a b : access) : {a = b} + {a <> b}. Proof. decide equality. apply role_eq_dec. Defined.
Definition endpoint_eq_dec (a b : endpoint) : {a = b} + {a <> b}.
Proof. decide equality. apply access_eq_dec. apply (list_eq_dec pseg_eq_dec). apply meth_eq_dec. Defined.
Definition ep_eqb (a b : endpoint) : bool := if endpoint_eq_dec a b then true else false.

Lemma ep_eqb_true a b : ep_eqb a b = true -> a = b.
Proof. unfold ep_eqb. destruct (endpoint_eq_dec a b); congruence. Qed.

Lemma meth_eqb_true a b : meth_eqb a b = true -> a = b.
Proof. destruct a, b; simpl; congruence. Qed.
Lemma meth_eqb_refl a : meth_eqb a a = true.
Proof. destruct a; reflexivity. Qed.

(* ---- authenticate vs the documentation-level role of a key --------------------------------- *)
Lemma scan_keys_notin ks key acc :
  ~ In key (map fst ks) -> scan_keys ks key acc = acc.
Proof.
  revert acc. induction ks as [|[k r] ks IH]; intros acc Hn; simpl; auto.
  simpl in Hn. destruct (String.eqb k key) eqn:E.
  - apply String.eqb_eq in E. tauto.
  - apply IH. tauto.
Qed.

Lemma scan_keys_assoc ks key acc :
  NoDup (map fst ks) ->
  scan_keys ks key acc = match assoc_role ks key with Some r => Some r | None => acc end.
Proof.
  revert acc. induction ks as [|[k r] ks IH]; intros acc Hnd; simpl; auto.
  inv Hnd. destruct (String.eqb k key) eqn:E.
  - apply String.eqb_eq in E. subst. rewrite scan_keys_notin by assumption. reflexivity.
  - apply IH. assumption.
Qed.

Lemma authenticate_spec c key :
  NoDup (map fst (rkeys c)) -> authenticate c key = spec_role c key.
Proof.
  intros Hnd. unfold authenticate, spec_role.
  destruct (rkeys c) as [|kr ks] eqn:Ek.
  - destruct (ranon c); cbn [andb is_nil]; [reflexivity|]. destruct key; reflexivity.
  - assert (Hf : ranon c && is_nil (kr :: ks) = false) by (destruct (ranon c); reflexivity).
    rewrite Hf. cbv iota.
    destruct key as [k|].
    + rewrite scan_keys_assoc by assumption. destruct (assoc_role (kr :: ks) k); reflexivity.
    + reflexivity.
Qed.

(* ---- normal form of a route --------------------------------------------------------------- *)
Fixpoint split_path (st : list stage) : list pseg * list stage :=
  match st with
  | SPath p :: r => let '(ps, rest) := split_path r in (p :: ps, rest)
  | _ => ([], st)
  end.

Definition plain_stage (s : stage) : bool :=
  match s with SPath _ | SEnd | SMeth _ | SHandler _ => false | _ => true end.

(* pre-handler stages and the handler: rest = pre ++ [SHandler h], pre free of routing stages and handlers *)
Fixpoint split_handler (st : list stage) : option (list stage * string) :=
  match st with
  | [] => None
  | [SHandler h] => Some ([], h)
  | s :: r => if plain_stage s then
                match split_handler r with Some (pre, h) => Some (s :: pre, h) | None => None end
              else None
  end.

Definition parse_route (r : route) : option (list pseg * meth * list stage * string) :=
  let '(ps, rest) := split_path (rstages r) in
  match rest with
  | SEnd :: SMeth m :: rest' =>
      match split_handler rest' with Some (pre, h) => Some (ps, m, pre, h) | None => None end
  | _ => None
  end.

Fixpoint auths_of (st : list stage) : list authf :=
  match st with
  | [] => []
  | SAuth a :: r => a :: auths_of r
  | _ :: r => auths_of r
  end.

Definition route_access (auths : list authf) (pro : option hprologue) : option access :=
  match auths, pro with
  | [], None => Some Public
  | [ARbac r], None => Some (MinRole r)
  | [ARaft], None => Some RaftKey
  | [AHdrApiKey], Some (HTenantKey _) => Some TenantKey
  | [AHdrAdminKey], Some HAdminKey => Some AdminKey
  | _, _ => None
  end.

Definition route_endpoint (ps : list (string * hprologue)) (r : route) : option endpoint :=
  match parse_route r with
  | Some (pat, m, pre, h) =>
      match route_access (auths_of pre) (lookup_prologue ps h) with
      | Some a => Some (mkEp m pat a)
      | None => None
      end
  | None => None
  end.

(* the auth filter comes before every filter that reads the body / query / state: pre = [SRate]? ++ [SAuth a]? ++ others *)
Definition not_auth (s : stage) : bool := match s with SAuth _ | SRate => false | _ => true end.
Definition auth_first (pre : list stage) : bool :=
  let pre1 := match pre with SRate :: t => t | _ => pre end in
  match pre1 with
  | SAuth _ :: t => forallb not_auth t
  | t => forallb not_auth t
  end.

Definition route_auth_first (r : route) : bool :=
  match parse_route r with Some (_, _, pre, _) => auth_first pre | None => false end.

Definition routes_overlap (ps : list (string * hprologue)) (a b : route) : bool :=
  match route_endpoint ps a, route_endpoint ps b with
  | Some ea, Some eb => meth_eqb (e_meth ea) (e_meth eb) && pat_overlap (e_pat ea) (e_pat eb)
  | _, _ => true
  end.

Fixpoint no_overlap (ps : list (string * hprologue)) (tbl : list route) : bool :=
  match tbl with
  | [] => true
  | r :: t => forallb (fun x => negb (routes_overlap ps r x)) t && no_overlap ps t
  end.

Definition in_policy (policy : list endpoint) (e : endpoint) : bool := existsb (ep_eqb e) policy.

Definition table_ok (tbl : list route) (ps : list (string * hprologue)) (policy : list endpoint) : bool :=
  forallb (fun r => match route_endpoint ps r with Some e => in_policy policy e | None => false end) tbl
  && forallb (fun e => existsb (fun r => match route_endpoint ps r with Some e' => ep_eqb e e' | None => false end) tbl) policy
  && forallb route_auth_first tbl
  && no_overlap ps tbl.

(* ---- semantics of a parsed route ----------------------------------------------------------- *)
Lemma split_path_app st ps rest :
  split_path st = (ps, rest) -> st = map SPath ps ++ rest.
Proof.
  revert ps rest. induction st as [|s st IH]; intros ps rest H; simpl in H.
  - inv H. reflexivity.
  - destruct s; try (inv H; reflexivity).
    destruct (split_path st) as [ps' rest'] eqn:E. inv H. simpl. f_equal. apply IH. reflexivity.
Qed.

Lemma run_stages_path cfg q ps path rest :
  run_stages cfg q path (map SPath ps ++ SEnd :: rest) =
  if pat_matches ps path then run_stages cfg q [] rest else OReject RNotFound.
Proof.
  revert path. induction ps as [|p ps IH]; intros path; simpl.
  - destruct path; reflexivity.
  - destruct p as [s|]; destruct path as [|x path]; simpl; try reflexivity.
    + destruct (String.eqb x s); simpl; [apply IH|reflexivity].
    + apply IH.
Qed.

Lemma split_handler_app st pre h :
  split_handler st = Some (pre, h) -> st = pre ++ [SHandler h] /\ forallb plain_stage pre = true.
Proof.
  revert pre. induction st as [|s st IH]; intros pre H; simpl in H; [discriminate|].
  destruct s; simpl in H;
    try (destruct (split_handler st) as [[pre' h']|] eqn:E; [|discriminate]; inv H;
         destruct (IH _ eq_refl) as [-> Hp]; simpl; rewrite Hp; auto); try discriminate.
  destruct st; [inv H; auto|discriminate].
Qed.

(* what it takes to get through the pre-handler filters *)
Fixpoint pre_pass (cfg : config) (q : request) (pre : list stage) : option rej :=
  match pre with
  | [] => None
  | SRate :: t => if c_rate_ok cfg then pre_pass cfg q t else Some RRate
  | SAuth a :: t => match auth_stage cfg q a with None => pre_pass cfg q t | Some r => Some r end
  | SBodyLimit :: t => match qbody q with BNone => Some RLengthRequired | _ => pre_pass cfg q t end
  | SBodyJson :: t => match qbody q with BGood => pre_pass cfg q t | _ => Some RBodyDeser end
  | SQuery :: t => if qquery_ok q then pre_pass cfg q t else Some RInvalidQuery
  | _ :: t => pre_pass cfg q t
  end.

Lemma run_stages_pre cfg q pre h :
  forallb plain_stage pre = true ->
  run_stages cfg q [] (pre ++ [SHandler h]) =
  match pre_pass cfg q pre with None => OHandler h | Some r => OReject r end.
Proof.
  induction pre as [|s pre IH]; intros Hp; simpl; [reflexivity|].
  simpl in Hp. apply andb_prop in Hp as [Hs Hp]. specialize (IH Hp).
  destruct s; simpl in Hs; try discriminate; simpl.
  - destruct (c_rate_ok cfg); auto.
  - destruct (auth_stage cfg q a); auto.
  - destruct (qbody q); auto.
  - destruct (qbody q); auto.
  - destruct (qquery_ok q); auto.
  - auto.
Qed.

Lemma run_route_parsed cfg q r pat m pre h :
  parse_route r = Some (pat, m, pre, h) ->
  run_route cfg q r =
  if pat_matches pat (qpath q) then
    if meth_eqb (qmeth q) m then
      match pre_pass cfg q pre with None => OHandler h | Some x => OReject x end
    else OReject RMethod
  else OReject RNotFound.
Proof.
  unfold parse_route, run_route. intros H.
  destruct (split_path (rstages r)) as [ps rest] eqn:Es.
  destruct rest as [|s1 rest]; try discriminate. destruct s1; try discriminate.
  destruct rest as [|s2 rest]; try discriminate. destruct s2; try discriminate.
  destruct (split_handler rest) as [[pre' h']|] eqn:Eh; try discriminate. inv H.
  apply split_path_app in Es. rewrite Es. rewrite run_stages_path.
  destruct (pat_matches pat (qpath q)); [|reflexivity].
  simpl. destruct (meth_eqb (qmeth q) m); [|reflexivity].
  apply split_handler_app in Eh as [-> Hp]. apply run_stages_pre. assumption.
Qed.

Lemma pre_pass_auths cfg q pre :
  pre_pass cfg q pre = None -> forall a, In a (auths_of pre) -> auth_stage cfg q a = None.
Proof.
  induction pre as [|s pre IH]; intros H a Hin; simpl in *; [tauto|].
  destruct s; simpl in *; auto;
    try (destruct (c_rate_ok cfg); [auto|discriminate]);
    try (destruct (qbody q); try discriminate; auto; fail);
    try (destruct (qquery_ok q); [auto|discriminate]).
  destruct (auth_stage cfg q a0) eqn:E; [discriminate|]. destruct Hin as [<-|Hin]; auto.
Qed.

Lemma pre_pass_ok cfg q pre :
  c_rate_ok cfg = true -> qbody q = BGood -> qquery_ok q = true ->
  (forall a, In a (auths_of pre) -> auth_stage cfg q a = None) ->
  pre_pass cfg q pre = None.
Proof.
  intros Hr Hb Hq. induction pre as [|s pre IH]; intros Ha; simpl; [reflexivity|].
  destruct s; simpl in *; auto.
  - rewrite Hr. auto.
  - rewrite (Ha a) by auto. auto.
  - rewrite Hb. auto.
  - rewrite Hb. auto.
  - rewrite Hq. auto.
Qed.

(* ---- access granted <-> auth filters and prologue pass ------------------------------------- *)
Definition cfg_wf (cfg : config) : Prop := NoDup (map fst (rkeys (c_rbac cfg))).

Lemma access_granted_iff cfg q auths pro a :
  cfg_wf cfg ->
  route_access auths pro = Some a ->
  (granted a cfg q = true <->
   ((forall x, In x auths -> auth_stage cfg q x = None) /\ prologue_result cfg q pro = None)).
Proof.
  intros Hwf Ha. unfold route_access in Ha.
  destruct auths as [|a1 [|a2 auths]]; try (destruct a1; discriminate).
  - destruct pro; [discriminate|]. inv Ha. simpl. split; [intros _; split; [tauto|reflexivity]|reflexivity].
  - destruct a1.
    + destruct pro; [discriminate|]. inv Ha. simpl.
      rewrite <- (authenticate_spec _ _ Hwf).
      split.
      * intros G. split; [|reflexivity]. intros x [<-|[]]. simpl.
        destruct (authenticate (c_rbac cfg) (qapikey q)); [|discriminate]. unfold has_permission. rewrite G. reflexivity.
      * intros [G _]. specialize (G _ (or_introl eq_refl)). simpl in G.
        destruct (authenticate (c_rbac cfg) (qapikey q)); [|discriminate].
        unfold has_permission in G. destruct (Nat.leb (role_rank r) (role_rank r0)); [reflexivity|discriminate].
    + destruct pro; [discriminate|]. inv Ha. simpl. split.
      * intros G. split; [|reflexivity]. intros x [<-|[]]. simpl. destruct (c_raft_key cfg); [rewrite G|]; reflexivity.
      * intros [G _]. specialize (G _ (or_introl eq_refl)). simpl in G.
        destruct (c_raft_key cfg); [|reflexivity]. destruct (opt_str_eqb (qapikey q) s); [reflexivity|discriminate].
    + destruct pro as [[pg|]|]; try discriminate. inv Ha. simpl. split.
      * intros G. destruct (qapikey q) as [k|] eqn:Ek; [|discriminate]. split; [|rewrite G; reflexivity].
        intros x [<-|[]]. unfold auth_stage. rewrite Ek. reflexivity.
      * intros [_ G]. destruct (qapikey q); [|discriminate]. destruct (mem_str s (c_tenant_keys cfg)); [reflexivity|discriminate].
    + destruct pro as [[pg|]|]; try discriminate. inv Ha. simpl. split.
      * intros G. destruct (c_admin_key cfg); [|discriminate]. split; [|rewrite G; reflexivity].
        intros x [<-|[]]. unfold auth_stage. destruct (qadminkey q); [reflexivity|simpl in G; discriminate].
      * intros [_ G]. destruct (c_admin_key cfg); [|discriminate]. destruct (opt_str_eqb (qadminkey q) s); [reflexivity|discriminate].
Qed.

(* ---- the `.or` chain ------------------------------------------------------------------------ *)
Lemma serve_from_served recover ps cfg q tbl acc n h :
  serve_from recover ps cfg q tbl acc = Served n h ->
  exists pre r post, tbl = pre ++ r :: post /\ n = rname r /\
    (forall x, In x pre -> exists j, run_route cfg q x = OReject j) /\
    run_route cfg q r = OHandler h /\ prologue_result cfg q (lookup_prologue ps h) = None.
Proof.
  revert acc. induction tbl as [|r tbl IH]; intros acc H; simpl in H; [discriminate|].
  destruct (run_route cfg q r) as [x|h'] eqn:E.
  - destruct (IH _ H) as (pre & r' & post & -> & Hn & Hpre & Hr & Hp).
    exists (r :: pre), r', post. repeat split; auto. intros y [<-|Hy]; eauto.
  - destruct (prologue_result cfg q (lookup_prologue ps h')) eqn:Ep; [discriminate|]. inv H.
    exists [], r, tbl. repeat split; auto. intros y [].
Qed.

Lemma serve_from_first recover ps cfg q pre r post acc h :
  (forall x, In x pre -> exists j, run_route cfg q x = OReject j) ->
  run_route cfg q r = OHandler h ->
  serve_from recover ps cfg q (pre ++ r :: post) acc =
    match prologue_result cfg q (lookup_prologue ps h) with
    | None => Served (rname r) h
    | Some st => Denied (rname r) h st
    end.
Proof.
  revert acc. induction pre as [|x pre IH]; intros acc Hpre Hr; simpl.
  - rewrite Hr. reflexivity.
  - destruct (Hpre x (or_introl eq_refl)) as [j Hj]. rewrite Hj. apply IH; auto. intros y Hy. apply Hpre. right. exact Hy.
Qed.

Lemma serve_from_all_reject recover ps cfg q tbl acc :
  (forall x, In x tbl -> exists j, run_route cfg q x = OReject j) ->
  exists st, serve_from recover ps cfg q tbl acc = Rejected st.
Proof.
  revert acc. induction tbl as [|r tbl IH]; intros acc H; simpl; [eauto|].
  destruct (H r (or_introl eq_refl)) as [j Hj]. rewrite Hj. apply IH. intros x Hx. apply H. right. assumption.
Qed.

(* ---- facts extracted from table_ok --------------------------------------------------------- *)
Lemma table_ok_in_policy tbl ps policy r :
  table_ok tbl ps policy = true -> In r tbl ->
  exists e, route_endpoint ps r = Some e /\ In e policy.
Proof.
  unfold table_ok. intros H Hin. repeat (apply andb_prop in H as [H ?]).
  rewrite forallb_forall in H. specialize (H _ Hin).
  destruct (route_endpoint ps r) as [e|]; [|discriminate]. exists e. split; auto.
  unfold in_policy in H. apply existsb_exists in H as (e' & Hin' & He). apply ep_eqb_true in He. subst. assumption.
Qed.

Lemma table_ok_has_route tbl ps policy e :
  table_ok tbl ps policy = true -> In e policy ->
  exists r, In r tbl /\ route_endpoint ps r = Some e.
Proof.
  unfold table_ok. intros H Hin.
  apply andb_prop in H as [H _]. apply andb_prop in H as [H _]. apply andb_prop in H as [_ H].
  rewrite forallb_forall in H. specialize (H _ Hin).
  apply existsb_exists in H as (r & Hr & He). exists r. split; auto.
  destruct (route_endpoint ps r) as [e'|]; [|discriminate]. apply ep_eqb_true in He. subst. reflexivity.
Qed.

Lemma table_ok_auth_first tbl ps policy r :
  table_ok tbl ps policy = true -> In r tbl -> route_auth_first r = true.
Proof.
  unfold table_ok. intros H Hin.
  apply andb_prop in H as [H _]. apply andb_prop in H as [_ H].
  rewrite forallb_forall in H. auto.
Qed.

Lemma table_ok_no_overlap tbl ps policy :
  table_ok tbl ps policy = true -> no_overlap ps tbl = true.
Proof. unfold table_ok. intros H. apply andb_prop in H as [_ H]. assumption. Qed.

Lemma pat_matches_overlap a b path :
  pat_matches a path = true -> pat_matches b path = true -> pat_overlap a b = true.
Proof.
  revert b path. induction a as [|x a IH]; intros b path Ha Hb.
  - destruct path; [|discriminate]. destruct b as [|[]]; simpl in *; auto; discriminate.
  - destruct path as [|s path]; [destruct x; discriminate|].
    destruct b as [|y b]; [discriminate|].
    destruct x as [sx|], y as [sy|]; simpl in *;
      repeat match goal with H : _ && _ = true |- _ => apply andb_prop in H as [? ?] end; eauto.
    apply String.eqb_eq in H, H1. subst. rewrite String.eqb_refl. simpl. eauto.
Qed.

Lemma route_endpoint_parse ps r e :
  route_endpoint ps r = Some e ->
  exists pre h, parse_route r = Some (e_pat e, e_meth e, pre, h) /\
                route_access (auths_of pre) (lookup_prologue ps h) = Some (e_access e).
Proof.
  unfold route_endpoint. intros H.
  destruct (parse_route r) as [[[[pat m] pre] h]|]; [|discriminate].
  destruct (route_access (auths_of pre) (lookup_prologue ps h)) eqn:Ea; [|discriminate]. inv H.
  exists pre, h. auto.
Qed.

(* a route whose path and method match the request *)
Definition addresses (ps : list (string * hprologue)) (r : route) (q : request) : Prop :=
  exists e, route_endpoint ps r = Some e /\ ep_matches e q = true.

Lemma overlap_of_addresses ps a b q :
  addresses ps a q -> addresses ps b q -> routes_overlap ps a b = true.
Proof.
  intros (ea & Ha & Ma) (eb & Hb & Mb). unfold routes_overlap. rewrite Ha, Hb.
  unfold ep_matches in *. apply andb_prop in Ma as [Ma1 Ma2]. apply andb_prop in Mb as [Mb1 Mb2].
  apply meth_eqb_true in Ma1, Mb1. rewrite <- Ma1, <- Mb1, meth_eqb_refl. simpl.
  eapply pat_matches_overlap; eauto.
Qed.

Lemma no_overlap_unique ps tbl pre r post x q :
  no_overlap ps tbl = true -> tbl = pre ++ r :: post ->
  In x (pre ++ post) -> addresses ps r q -> ~ addresses ps x q.
Proof.
  revert tbl. induction pre as [|p pre IH]; intros tbl Hno -> Hin Hr Hx; simpl in *.
  - apply andb_prop in Hno as [Hno _]. rewrite forallb_forall in Hno. specialize (Hno _ Hin).
    rewrite (overlap_of_addresses _ _ _ _ Hr Hx) in Hno. discriminate.
  - apply andb_prop in Hno as [Hno1 Hno2]. destruct Hin as [<-|Hin].
    + rewrite forallb_forall in Hno1. specialize (Hno1 r). rewrite (overlap_of_addresses _ _ _ _ Hx Hr) in Hno1.
      assert (In r (pre ++ r :: post)) by (apply in_or_app; right; left; reflexivity). specialize (Hno1 H). discriminate.
    + eapply IH; eauto.
Qed.

Lemma not_addressed_rejects ps cfg q r e :
  route_endpoint ps r = Some e -> ep_matches e q = false ->
  exists j, run_route cfg q r = OReject j /\ (j = RNotFound \/ j = RMethod).
Proof.
  intros He Hm. destruct (route_endpoint_parse _ _ _ He) as (pre & h & Hp & _).
  rewrite (run_route_parsed _ _ _ _ _ _ _ Hp). unfold ep_matches in Hm.
  destruct (pat_matches (e_pat e) (qpath q)); [|eauto].
  destruct (meth_eqb (qmeth q) (e_meth e)); [discriminate|eauto].
Qed.

(* ---- soundness and completeness of serving, for any table satisfying table_ok --------------- *)
Theorem served_sound tbl ps policy recover cfg q n h :
  table_ok tbl ps policy = true -> cfg_wf cfg ->
  serve recover ps cfg q tbl = Served n h ->
  exists e, In e policy /\ ep_matches e q = true /\ granted (e_access e) cfg q = true.
Proof.
  intros Hok Hwf Hs. unfold serve in Hs.
  apply serve_from_served in Hs as (pre & r & post & -> & _ & _ & Hr & Hp).
  assert (Hin : In r (pre ++ r :: post)) by (apply in_or_app; right; left; reflexivity).
  destruct (table_ok_in_policy _ _ _ _ Hok Hin) as (e & He & Hpol).
  destruct (route_endpoint_parse _ _ _ He) as (pre' & h' & Hparse & Hacc).
  rewrite (run_route_parsed _ _ _ _ _ _ _ Hparse) in Hr.
  destruct (pat_matches (e_pat e) (qpath q)) eqn:Epm; [|discriminate].
  destruct (meth_eqb (qmeth q) (e_meth e)) eqn:Em; [|discriminate].
  destruct (pre_pass cfg q pre') eqn:Epp; [discriminate|]. inv Hr.
  exists e. split; [assumption|]. split; [unfold ep_matches; rewrite Em, Epm; reflexivity|].
  apply (proj2 (access_granted_iff _ _ _ _ _ Hwf Hacc)). split; [|assumption].
  apply pre_pass_auths. assumption.
Qed.

Theorem served_complete tbl ps policy recover cfg q e :
  table_ok tbl ps policy = true -> cfg_wf cfg ->
  In e policy -> ep_matches e q = true -> granted (e_access e) cfg q = true ->
  c_rate_ok cfg = true -> qbody q = BGood -> qquery_ok q = true ->
  exists n h, serve recover ps cfg q tbl = Served n h.
Proof.
  intros Hok Hwf Hpol Hm Hg Hr Hb Hq.
  destruct (table_ok_has_route _ _ _ _ Hok Hpol) as (r & Hin & He).
  destruct (in_split _ _ Hin) as (pre & post & ->).
  destruct (route_endpoint_parse _ _ _ He) as (pre' & h & Hparse & Hacc).
  apply (proj1 (access_granted_iff _ _ _ _ _ Hwf Hacc)) in Hg as [Hauth Hpro].
  assert (Hrun : run_route cfg q r = OHandler h).
  { rewrite (run_route_parsed _ _ _ _ _ _ _ Hparse). unfold ep_matches in Hm. apply andb_prop in Hm as [Hm1 Hm2].
    rewrite Hm1, Hm2. rewrite pre_pass_ok; auto. }
  assert (Hpre : forall x, In x pre -> exists j, run_route cfg q x = OReject j).
  { intros x Hx.
    assert (Hx' : In x (pre ++ r :: post)) by (apply in_or_app; left; assumption).
    destruct (table_ok_in_policy _ _ _ _ Hok Hx') as (ex & Hex & _).
    destruct (ep_matches ex q) eqn:Emx.
    - exfalso. eapply (no_overlap_unique ps (pre ++ r :: post) pre r post x q); eauto.
      + eapply table_ok_no_overlap; eauto.
      + apply in_or_app; left; assumption.
      + exists e; auto.
      + exists ex; auto.
    - destruct (not_addressed_rejects ps cfg q x ex Hex Emx) as (j & Hj & _). eauto. }
  pose proof (serve_from_first recover ps cfg q pre r post [] h Hpre Hrun) as Hs.
  unfold serve. rewrite Hs, Hpro. eauto.
Qed.

(* ---- no shadowing: once the route a request addresses refuses it, no other route takes it --- *)
Theorem addressed_route_decides tbl ps policy recover cfg q r :
  table_ok tbl ps policy = true ->
  In r tbl -> addresses ps r q ->
  match serve recover ps cfg q tbl with
  | Served n _ | Denied n _ _ => n = rname r
  | Rejected _ => exists j, run_route cfg q r = OReject j
  end.
Proof.
  intros Hok Hin Hadr. destruct (in_split _ _ Hin) as (pre & post & ->).
  assert (Hother : forall x, In x (pre ++ post) -> exists j, run_route cfg q x = OReject j).
  { intros x Hx.
    assert (Hx' : In x (pre ++ r :: post)).
    { apply in_app_or in Hx as [Hx|Hx]; apply in_or_app; [left|right; right]; assumption. }
    destruct (table_ok_in_policy _ _ _ _ Hok Hx') as (ex & Hex & _).
    destruct (ep_matches ex q) eqn:Emx.
    - exfalso. eapply (no_overlap_unique ps (pre ++ r :: post) pre r post x q); eauto.
      + eapply table_ok_no_overlap; eauto.
      + exists ex; auto.
    - destruct (not_addressed_rejects ps cfg q x ex Hex Emx) as (j & Hj & _). eauto. }
  destruct (run_route cfg q r) as [j|h] eqn:Er.
  - (* r rejects: everything rejects *)
    assert (Hall : forall x, In x (pre ++ r :: post) -> exists j, run_route cfg q x = OReject j).
    { intros x Hx. apply in_app_or in Hx as [Hx|[<-|Hx]]; eauto; apply Hother; apply in_or_app; auto. }
    destruct (serve_from_all_reject recover ps cfg q _ [] Hall) as [st Hst]. unfold serve. rewrite Hst. eauto.
  - assert (Hpre : forall x, In x pre -> exists j, run_route cfg q x = OReject j).
    { intros x Hx. apply Hother. apply in_or_app. left. assumption. }
    pose proof (serve_from_first recover ps cfg q pre r post [] h Hpre Er) as Hs.
    unfold serve. rewrite Hs. destruct (prologue_result cfg q (lookup_prologue ps h)); reflexivity.
Qed.

